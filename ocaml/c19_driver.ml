(* c19_driver.ml - line interpreter over the extracted C19 model (c19_model.ml).
   ops (one per line):
     to4 <u32 decimal> <buflen>
     to6 <w0> .. <w7> (hex) <buflen>
     from <string, bytes outside 0x21..0x7e and '\\' written as \xHH>
   one result line per op; see harness/iptext.c for the C side of the same protocol. *)
open C19_model

let rec pos_of_int i = if i = 1 then XH else if i land 1 = 1 then XI (pos_of_int (i lsr 1)) else XO (pos_of_int (i lsr 1))
let n_of_int i = if i = 0 then N0 else Npos (pos_of_int i)
let rec int_of_pos = function XH -> 1 | XO p -> 2 * int_of_pos p | XI p -> 2 * int_of_pos p + 1
let int_of_n = function N0 -> 0 | Npos p -> int_of_pos p
let int_of_z = function Z0 -> 0 | Zpos p -> int_of_pos p | Zneg p -> - (int_of_pos p)

let unescape s =
  let b = Buffer.create 64 in
  let n = String.length s in
  let i = ref 0 in
  while !i < n do
    if s.[!i] = '\\' && !i + 3 < n && s.[!i + 1] = 'x' then begin
      Buffer.add_char b (Char.chr (int_of_string ("0x" ^ String.sub s (!i + 2) 2)));
      i := !i + 4
    end else begin Buffer.add_char b s.[!i]; incr i end
  done;
  Buffer.contents b

let escape_bytes l =
  let b = Buffer.create 64 in
  List.iter (fun c ->
      if c >= 0x21 && c <= 0x7e && c <> 0x5c then Buffer.add_char b (Char.chr c)
      else Buffer.add_string b (Printf.sprintf "\\x%02x" c)) l;
  Buffer.contents b

let chars_of_string s = List.init (String.length s) (fun i -> n_of_int (Char.code s.[i]))

(* bytes written -> (text up to NUL, count) *)
let show_written w =
  let l = List.map int_of_n w in
  let rec upto = function [] -> [] | 0 :: _ -> [] | c :: r -> c :: upto r in
  Printf.sprintf "out=%s n=%d" (escape_bytes (upto l)) (List.length l)

let show_ip = function
  | IErr -> "-1"
  | IStuck -> "STUCK"
  | IV4 a -> Printf.sprintf "4:%08x" (int_of_n a)
  | IV6 ws -> "6" ^ String.concat "" (List.map (function None -> ":?" | Some w -> Printf.sprintf ":%x" (int_of_n w)) ws)

let () =
  try
    while true do
      let line = input_line stdin in
      let toks = String.split_on_char ' ' line in
      (match toks with
       | [ "to4"; a; len ] ->
         let rc, w = ipv4_to_str (n_of_int (int_of_string a)) (n_of_int (int_of_string len)) in
         let rcf, _ = ipv4_to_str_fixed (n_of_int (int_of_string a)) (n_of_int (int_of_string len)) in
         Printf.printf "to4 rc=%d rcf=%d %s\n" (int_of_z rc) (int_of_z rcf) (show_written w)
       | "to6" :: rest when List.length rest = 9 ->
         let ws = List.filteri (fun i _ -> i < 8) rest in
         let len = List.nth rest 8 in
         (match ipv6_to_str (List.map (fun h -> n_of_int (int_of_string ("0x" ^ h))) ws) (n_of_int (int_of_string len)) with
          | None -> print_string "to6 STUCK\n"
          | Some (rc, w) -> Printf.printf "to6 rc=%d %s\n" (int_of_z rc) (show_written w))
       | "from" :: _ ->
         let arg = if String.length line > 5 then String.sub line 5 (String.length line - 5) else "" in
         let s = cstr (chars_of_string (unescape arg)) in
         let r4 = match ref_pton4 s with None -> "-" | Some a -> Printf.sprintf "%08x" (int_of_n a) in
         let r6 = match ref_pton6 s with None -> "-" | Some ws -> String.concat ":" (List.map (fun w -> Printf.sprintf "%x" (int_of_n w)) ws) in
         Printf.printf "from lib=%s fix=%s ref4=%s ref6=%s\n" (show_ip (str_to_ip s)) (show_ip (str_to_ip_fixed s)) r4 r6
       | _ -> Printf.printf "bad-op %s\n" line)
    done
  with End_of_file -> ()
