(* c11_driver.ml - line-oriented interpreter around the extracted C11/C12 spec and model.
   One command per input line, exactly one output line per command.

   data <alg> <safi> <afi> <my_as> <target_as> <nlri_afi> <nlri_safi> <nlri_len> <nlri_hex|->
   sec <pcount> <flags> <asn> | sig <ski_hex> <sig_hex> | counts <path_len> <sigs_len>
   tclear | tadd <asn> <ski_hex> <spki_hex>
   verdict <spki_hex> <msg_hex> <sig_hex> <status>   the ECDSA_verify oracle (sha256 := identity)
   vclear | loadfail <spki_hex>
   digest <k>       Spec : digest_for_hop k (to_update data)
   signdigest       Spec : signing_digest (to_update data)
   align V|S        Model: req_stream_size, total_bytes, aligned stream bytes
   hashed           Model: bytes hashed by the successive iterations of the validation loop
   validate [fixed] Model: return code of validate / validate_fixed (UB = undefined behaviour in the C);
                    unknown oracle queries are reported
   gensig <null|privok 0/1> <ecdsa_size> <sig_hex>   Model: generate_signature with that environment
   codes            the constants of Align.v                                                   *)
open C11_model

let rec pos_of_int n = if n = 1 then XH else if n land 1 = 0 then XO (pos_of_int (n lsr 1)) else XI (pos_of_int (n lsr 1))
let z_of_int n = if n = 0 then Z0 else if n > 0 then Zpos (pos_of_int n) else Zneg (pos_of_int (-n))
let rec int_of_pos = function XH -> 1 | XO p -> 2 * int_of_pos p | XI p -> 2 * int_of_pos p + 1
let int_of_z = function Z0 -> 0 | Zpos p -> int_of_pos p | Zneg p -> - (int_of_pos p)
let rec nat_of_int n = if n <= 0 then O else S (nat_of_int (n - 1))

let unhex s =
  if s = "-" then [] else begin
    let n = String.length s / 2 in
    let rec go i acc = if i < 0 then acc else go (i - 1) (z_of_int (int_of_string ("0x" ^ String.sub s (2 * i) 2)) :: acc) in
    go (n - 1) []
  end
let hex l =
  if l = [] then "-" else begin
    let b = Buffer.create (2 * List.length l) in
    List.iter (fun z -> Buffer.add_string b (Printf.sprintf "%02x" ((int_of_z z) land 255))) l;
    Buffer.contents b
  end

(* state *)
let hdr = ref [| 1; 1; 1; 0; 0; 1; 1; 0 |]
let nlri_bytes = ref []
let secs : sps list ref = ref []
let sigs : sgs list ref = ref []
let counts : (int * int) option ref = ref None
let table : router_key list ref = ref []
let verdicts : (string, int) Hashtbl.t = Hashtbl.create 64
let loadfails : (string, unit) Hashtbl.t = Hashtbl.create 8
let unknown = ref 0

let data () =
  let h = !hdr in
  let pl, sl = match !counts with
    | Some (a, b) -> (a, b)
    | None -> (List.length !secs land 255, List.length !sigs land 65535) in
  { b_alg = z_of_int h.(0); b_safi = z_of_int h.(1); b_afi = z_of_int h.(2); b_my_as = z_of_int h.(3);
    b_target_as = z_of_int h.(4); b_sigs_len = z_of_int sl; b_path_len = z_of_int pl;
    b_nlri = { n_afi = z_of_int h.(5); n_safi = z_of_int h.(6); n_len = z_of_int h.(7); n_bytes = !nlri_bytes };
    b_sigs = !sigs; b_path = !secs }

let sha256 m = m
let load_pub spki = not (Hashtbl.mem loadfails (hex spki))
let ecdsa_verify spki h sg =
  match Hashtbl.find_opt verdicts (hex spki ^ "|" ^ hex h ^ "|" ^ hex sg) with
  | Some st -> z_of_int st
  | None -> incr unknown; Z0

let ty_of s = if s = "S" then SIGNING else VALIDATION
let show_opt = function Some l -> hex l | None -> "None"

let handle line =
  match String.split_on_char ' ' (String.trim line) |> List.filter (fun s -> s <> "") with
  | [] -> "ok"
  | "data" :: a :: b :: c :: d :: e :: f :: g :: h :: rest ->
      hdr := Array.of_list (List.map int_of_string [a; b; c; d; e; f; g; h]);
      nlri_bytes := (match rest with x :: _ -> unhex x | [] -> []);
      secs := []; sigs := []; counts := None; "ok"
  | ["sec"; a; b; c] ->
      secs := !secs @ [{ sp_pcount = z_of_int (int_of_string a); sp_flags = z_of_int (int_of_string b);
                         sp_asn = z_of_int (int_of_string c) }]; "ok"
  | ["sig"; k; s] -> sigs := !sigs @ [{ sg_ski = unhex k; sg_sig = unhex s }]; "ok"
  | ["counts"; a; b] -> counts := Some (int_of_string a, int_of_string b); "ok"
  | ["tclear"] -> table := []; "ok"
  | ["tadd"; a; k; s] ->
      let r = { rk_ski = unhex k; rk_asn = z_of_int (int_of_string a); rk_spki = unhex s } in
      (* spki_table_add_entry refuses an exact duplicate *)
      if List.mem r !table then "tadd -2" else (table := !table @ [r]; "tadd 0")
  | ["verdict"; k; m; s; st] -> Hashtbl.replace verdicts (k ^ "|" ^ m ^ "|" ^ s) (int_of_string st); "ok"
  | ["vclear"] -> Hashtbl.reset verdicts; Hashtbl.reset loadfails; "ok"
  | ["loadfail"; k] -> Hashtbl.replace loadfails k (); "ok"
  | ["digest"; k] -> "digest " ^ show_opt (digest_for_hop (nat_of_int (int_of_string k)) (to_update (data ())))
  | ["signdigest"] -> "signdigest " ^ show_opt (signing_digest (to_update (data ())))
  | ["align"; t] ->
      let d = data () in
      let ty = ty_of t in
      let req = int_of_z (req_stream_size d ty) and tot = int_of_z (total_bytes d ty) in
      (match aligned_stream d ty with
       | Some s -> Printf.sprintf "align %d %d %s" req tot (hex s.st_buf)
       | None -> Printf.sprintf "align %d %d UB" req tot)
  | ["hashed"] ->
      (match hashed_for_validation (data ()) with
       | None -> "hashed UB"
       | Some l -> "hashed " ^ (if l = [] then "-" else String.concat "," (List.map (function Some m -> hex m | None -> "UB") l)))
  | "validate" :: variant ->
      unknown := 0;
      let by_asn = (variant = ["fixed"]) in
      let r = validate_gen sha256 load_pub ecdsa_verify by_asn (data ()) !table in
      (match r with
       | Some rc -> Printf.sprintf "validate %d unknown=%d" (int_of_z rc) !unknown
       | None -> Printf.sprintf "validate UB unknown=%d" !unknown)
  | ["gensig"; p; sz; sg] ->
      let signed = ref None in
      let priv = if p = "null" then None else Some [z_of_int 1] in
      let load_priv _ = (p = "1") in
      let ecdsa_size _ = z_of_int (int_of_string sz) in
      let ecdsa_sign _ h = signed := Some h; unhex sg in
      (match generate_signature sha256 load_priv ecdsa_size ecdsa_sign (data ()) priv true with
       | None -> "gensig UB"
       | Some (rc, out) ->
           Printf.sprintf "gensig %d %s %s" (int_of_z rc)
             (match out with Some g -> hex g.sg_sig | None -> "-")
             (match !signed with Some h -> hex h | None -> "-"))
  | ["codes"] ->
      Printf.sprintf "codes NOT_VALID=%d VALID=%d SUCCESS=%d ERROR=%d LOAD_PUB_KEY_ERROR=%d LOAD_PRIV_KEY_ERROR=%d ROUTER_KEY_NOT_FOUND=%d SIGNING_ERROR=%d UNSUPPORTED_ALGORITHM_SUITE=%d UNSUPPORTED_AFI=%d WRONG_SEGMENT_COUNT=%d INVALID_ARGUMENTS=%d ALGORITHM_SUITE_1=%d IPV4=%d IPV6=%d SECURE_PATH_SEG_SIZE=%d SKI_SIZE=%d"
        (int_of_z bGPSEC_NOT_VALID) (int_of_z bGPSEC_VALID) (int_of_z bGPSEC_SUCCESS) (int_of_z bGPSEC_ERROR)
        (int_of_z bGPSEC_LOAD_PUB_KEY_ERROR) (int_of_z bGPSEC_LOAD_PRIV_KEY_ERROR)
        (int_of_z bGPSEC_ROUTER_KEY_NOT_FOUND) (int_of_z bGPSEC_SIGNING_ERROR)
        (int_of_z bGPSEC_UNSUPPORTED_ALGORITHM_SUITE) (int_of_z bGPSEC_UNSUPPORTED_AFI)
        (int_of_z bGPSEC_WRONG_SEGMENT_COUNT) (int_of_z bGPSEC_INVALID_ARGUMENTS)
        (int_of_z aLGORITHM_SUITE_1) (int_of_z bGPSEC_IPV4) (int_of_z bGPSEC_IPV6)
        (int_of_z sECURE_PATH_SEG_SIZE) (int_of_z c_SKI_SIZE)
  | c :: _ -> "error unknown-command " ^ c

let () =
  try
    while true do
      let line = input_line stdin in
      let out = (try handle line with e -> "error " ^ Printexc.to_string e) in
      print_string out; print_newline (); flush stdout
    done
  with End_of_file -> ()
