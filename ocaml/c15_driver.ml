(* c15_driver.ml - line-oriented interpreter over the extracted manager model (C15).
   Reads the same scripts as harness/mgr_events.c and prints the same canonical lines.
   usage: c15_model [shipped|fixed|init-only|shutdown-only|current]                                              *)
open C15_model

let rec nat_of_int n = if n <= 0 then O else S (nat_of_int (n - 1))
let rec int_of_nat = function O -> 0 | S n -> 1 + int_of_nat n

let state_names = [
  (SConnecting, "CONNECTING"); (SEstablished, "ESTABLISHED"); (SReset, "RESET"); (SSync, "SYNC");
  (SFastReconnect, "FAST_RECONNECT"); (SErrNoData, "ERROR_NO_DATA_AVAIL");
  (SErrNoIncr, "ERROR_NO_INCR_UPDATE_AVAIL"); (SErrFatal, "ERROR_FATAL");
  (SErrTransport, "ERROR_TRANSPORT"); (SShutdown, "SHUTDOWN"); (SClosed, "CLOSED") ]
let state_str s = List.assoc s state_names
let state_of_str x = fst (List.find (fun (_, n) -> n = x) state_names)
let status_str = function
  | GClosed -> "CLOSED" | GConnecting -> "CONNECTING" | GEstablished -> "ESTABLISHED" | GError -> "ERROR"
let b01 b = if b then "1" else "0"
let sock_str s = Printf.sprintf "%s/%s/%s" (state_str s.s_state) (b01 s.s_lu) (b01 s.s_thread)
let socks_str l = String.concat "," (List.map sock_str l)
let rc_int = function RcSuccess -> 0 | RcError -> -1 | RcInvalidParam -> -2

let muted = ref false
let pr fmt = Printf.ksprintf (fun s -> if not !muted then print_string s) fmt

let print_out = function
  | OStatus (p, st, by, snap) ->
      pr "status %d %s by=%s socks=%s\n" (int_of_nat p) (status_str st)
        (match by with None -> "-" | Some (q, k) -> Printf.sprintf "%d.%d" (int_of_nat q) (int_of_nat k))
        (socks_str snap)
  | OStart (p, k, ok) -> pr "start %d.%d %s\n" (int_of_nat p) (int_of_nat k) (if ok then "ok" else "fail")
  | OStop (p, k, b) ->
      pr "stop %d.%d behalf=%s\n" (int_of_nat p) (int_of_nat k)
        (match b with None -> "api" | Some q -> string_of_int (int_of_nat q))
  | ORc r -> pr "rc %d\n" (rc_int r)
  | OIgnored -> pr "ignored\n"
  | OUndef -> pr "undef\n"

let print_cfg = function
  | None -> pr "cfg none\n"
  | Some c ->
      pr "cfg len=%d" (int_of_nat c.c_len);
      List.iter (fun g -> pr " %d:%s[%s]" (int_of_nat g.g_pref) (status_str g.g_status) (socks_str g.g_socks))
        c.c_groups;
      pr "\n"

let () =
  let v = match Array.to_list Sys.argv with
    | _ :: "fixed" :: _ -> fixed | _ :: "shipped" :: _ -> shipped
    | _ :: "init-only" :: _ -> { fix_init_groups_null = true; fix_shutdown_counts_closed = false }
    | _ :: "shutdown-only" :: _ -> { fix_init_groups_null = false; fix_shutdown_counts_closed = true }
    | _ -> current in
  let cfg = ref None in
  let apply o =
    match !cfg with
    | None -> pr "noconfig\n"
    | Some c -> let (c', outs) = step v c o in List.iter print_out outs; cfg := Some c'; print_cfg !cfg in
  (try
    while true do
      let line = String.trim (input_line stdin) in
      if line <> "" && line.[0] <> '#' then begin
        let w = List.filter (fun s -> s <> "") (String.split_on_char ' ' line) in
        (match w with "begin" :: _ | ["unmute"] -> muted := false | _ -> ());
        pr "> %s\n" (String.concat " " w);
        (match w with
         | "begin" :: _ -> cfg := None
         | ["mute"] -> muted := true
         | ["unmute"] -> ()
         | ["dump"] -> print_cfg !cfg
         | "init" :: specs ->
             let gs = List.map (fun s -> match String.split_on_char ':' s with
                 | [p; n] -> (nat_of_int (int_of_string p), nat_of_int (int_of_string n))
                 | _ -> failwith "bad init spec") specs in
             (match mgr_init v gs with
              | IOk c -> pr "rc 0\n"; cfg := Some c
              | IErr r -> pr "rc %d\n" (rc_int r); cfg := None
              | IUndef -> pr "undef\n"; cfg := None);
             print_cfg !cfg
         | ["start"] -> apply OpStart
         | ["stop"] -> apply OpStop
         | ["add"; p; n] ->
             let n = int_of_string n in
             if n < 1 then pr "bad-op\n" else apply (OpAdd (nat_of_int (int_of_string p), nat_of_int (n - 1)))
         | ["remove"; p] -> apply (OpRemove (nat_of_int (int_of_string p)))
         | ["ev"; p; k; st] ->
             (match (try Some (state_of_str st) with Not_found -> None) with
              | None -> pr "bad-op\n"
              | Some s -> apply (OpEv (nat_of_int (int_of_string p), nat_of_int (int_of_string k), s)))
         | ["lu"; p; k; b] -> apply (OpLu (nat_of_int (int_of_string p), nat_of_int (int_of_string k), b <> "0"))
         | _ -> pr "bad-op\n")
      end
    done
  with End_of_file -> ())
