(* c18_driver.ml - line-oriented interpreter over the extracted C18 allocator model (coq/c18_model.ml).
   Reads the script of harness/alloc_inject.c and prints the same canonical lines.
   argv[1]: seven characters 0/1 = the variant switches
            shrink_ok grow_checked init_checked free_cfg reason_tmp children_once result_null
   A model [Crash] prints the line CRASH and ends the run (the C dereferences NULL at that op). *)
open C18_model

let rec nat_of_int i = if i <= 0 then O else S (nat_of_int (i - 1))
let rec int_of_nat = function O -> 0 | S n -> 1 + int_of_nat n
let rec pos_of_int i = if i = 1 then XH else if i land 1 = 1 then XI (pos_of_int (i lsr 1)) else XO (pos_of_int (i lsr 1))
let n_of_int i = if i = 0 then N0 else Npos (pos_of_int i)
let z_of_int i = if i = 0 then Z0 else if i > 0 then Zpos (pos_of_int i) else Zneg (pos_of_int (-i))
let rec int_of_pos = function XH -> 1 | XO p -> 2 * int_of_pos p | XI p -> 2 * int_of_pos p + 1
let int_of_n = function N0 -> 0 | Npos p -> int_of_pos p
let int_of_z = function Z0 -> 0 | Zpos p -> int_of_pos p | Zneg p -> - (int_of_pos p)

let bits_of_string s = List.init (String.length s) (fun i -> s.[i] = '1')
let string_of_bits b = String.concat "" (List.map (fun x -> if x then "1" else "0") b)
let join = String.concat " "

let mk_rec fam bits len mx asn src =
  (((fam = "6", bits_of_string bits), nat_of_int len), { e_asn = n_of_int asn; e_max = nat_of_int mx; e_src = n_of_int src })
let str_rec (((v6, p), len), e) =
  Printf.sprintf "%s:%s/%d-%d:%d:%d" (if v6 then "6" else "4") (string_of_bits p) (int_of_nat len)
    (int_of_nat e.e_max) (int_of_n e.e_asn) (int_of_n e.e_src)
let str_rc = function SUCCESS -> "SUCCESS" | ERROR -> "ERROR" | DUP -> "DUP" | NOTFOUND -> "NOTFOUND"
let str_cb = function Added r -> "+" ^ str_rec r | Removed r -> "-" ^ str_rec r
let str_state = function VALID -> "VALID" | NOT_FOUND -> "NOT_FOUND" | INVALID -> "INVALID"

let mk_key a s k src = { e_asn0 = z_of_int a; e_ski = z_of_int s; e_spki = z_of_int k; e_src0 = z_of_int src }
let str_key e = Printf.sprintf "%d/%d/%d/%d" (int_of_z e.e_asn0) (int_of_z e.e_ski) (int_of_z e.e_spki) (int_of_z e.e_src0)
let str_kcb (e, added) = (if added then "+K" else "-K") ^ str_key e
let str_krc c = match int_of_z c with 0 -> "SUCCESS" | -1 -> "ERROR" | -2 -> "DUP" | -3 -> "NOTFOUND" | _ -> "??"

let str_ev = function
  | EvM (_, ok) -> if ok then "m" else "M"
  | EvR0 (_, ok) -> if ok then "r0" else "R0"
  | EvR (_, ok) -> if ok then "r" else "R"
  | EvF (_, ViaCfg) -> "f"
  | EvF (_, ViaLibc) -> "F"
  | EvX _ -> "X"

let variant =
  let a = if Array.length Sys.argv > 1 then Sys.argv.(1) else "0000000" in
  let b i = String.length a > i && a.[i] = '1' in
  { shrink_ok = b 0; grow_checked = b 1; init_checked = b 2; free_cfg = b 3; reason_tmp = b 4; children_once = b 5;
    result_null = b 6 }

let st = ref a_init_ast
let pending = ref None
let ptab = [| a_empty; a_empty |]
let ktab = [| a_kinit; a_kinit |]
let nx = ref 0
let nf = ref 0

exception Crashed

(* run one operation: arm the fault, start a fresh event list *)
let run (m : 'a m) : 'a =
  let s0 = a_arm !pending !st in
  pending := None;
  let s0 = { s0 with rlog = [] } in
  match m s0 with
  | Val (a, s1) -> st := s1; a
  | Crash _ -> raise Crashed

let tail cbs =
  let evs = List.rev !st.rlog in
  List.iter (function EvX _ -> incr nx | EvF (_, ViaLibc) -> incr nf | _ -> ()) evs;
  Printf.printf " | cb=[%s] | ev=[%s] | n=%d live=%d X=%d F=%d L=0\n" (join cbs) (join (List.map str_ev evs))
    (int_of_nat !st.ctr) (List.length !st.live) !nx !nf

let check_hash a =
  if not (real_hash_defined (z_of_int a)) then begin
    print_string "error: translated tommy_inthash_u32 is undefined (UB) on this input\n"; exit 4 end

(* ---- sync: the byte stream of rtrsim.py / C18.py decoded into updates of source 1 ---- *)
let bytes_of_hex h = Array.init (String.length h / 2) (fun i -> int_of_string ("0x" ^ String.sub h (2 * i) 2))
let be32 b o = (b.(o) lsl 24) lor (b.(o + 1) lsl 16) lor (b.(o + 2) lsl 8) lor b.(o + 3)
let dec_id b o n = b.(o) lor (b.(o + 1) lsl 8) lor (b.(o + n - 2) lsl 16) lor (b.(o + n - 1) lsl 24)
let bits_of_bytes b o n =
  List.concat (List.init n (fun i -> List.init 8 (fun j -> (b.(o + i) lsr (7 - j)) land 1 = 1)))

let parse_stream h =
  let b = bytes_of_hex h in
  let out = ref [] and i = ref 0 and stop = ref false in
  while not !stop && !i + 8 <= Array.length b do
    let ty = b.(!i + 1) and ln = be32 b (!i + 4) in
    (match ty with
     | 4 ->
       let r = (((false, bits_of_bytes b (!i + 12) 4), nat_of_int b.(!i + 9)),
                { e_asn = n_of_int (be32 b (!i + 16)); e_max = nat_of_int b.(!i + 10); e_src = n_of_int 1 }) in
       out := SyncA.U4 (b.(!i + 8) = 1, r) :: !out
     | 6 ->
       let r = (((true, bits_of_bytes b (!i + 12) 16), nat_of_int b.(!i + 9)),
                { e_asn = n_of_int (be32 b (!i + 28)); e_max = nat_of_int b.(!i + 10); e_src = n_of_int 1 }) in
       out := SyncA.U6 (b.(!i + 8) = 1, r) :: !out
     | 9 ->
       let e = mk_key (be32 b (!i + 28)) (dec_id b (!i + 8) 20) (dec_id b (!i + 32) 91) 1 in
       check_hash (be32 b (!i + 28));
       out := SyncA.UK (b.(!i + 2) = 1, e) :: !out
     | 7 -> stop := true
     | _ -> ());
    i := !i + ln
  done;
  List.rev !out

let () =
  (try
     while true do
       let line = input_line stdin in
       let w = List.filter (fun s -> s <> "") (String.split_on_char ' ' (String.trim line)) in
       let ios = int_of_string in
       (try
          (match w with
           | ["failat"; k] -> pending := (if ios k = 0 then None else Some (nat_of_int (ios k))); Printf.printf "ok failat %d\n" (ios k)
           | ["padd"; t; fam; bits; len; mx; asn; src] ->
             let t = ios t in
             let ((t', c), l) = run (a_tadd ptab.(t) (mk_rec fam bits (ios len) (ios mx) (ios asn) (ios src))) in
             ptab.(t) <- t'; print_string (str_rc c); tail (if t = 0 then List.map str_cb l else [])
           | ["pdel"; t; fam; bits; len; mx; asn; src] ->
             let t = ios t in
             let ((t', c), l) = run (a_tremove variant ptab.(t) (mk_rec fam bits (ios len) (ios mx) (ios asn) (ios src))) in
             ptab.(t) <- t'; print_string (str_rc c); tail (if t = 0 then List.map str_cb l else [])
           | ["psrcdel"; t; src] ->
             let t = ios t in
             (match run (a_tsrc_remove variant ptab.(t) (n_of_int (ios src))) with
              | Some ((t', c), l) -> ptab.(t) <- t'; print_string (str_rc c); tail (if t = 0 then List.map str_cb l else [])
              | None -> print_string "OUT_OF_FUEL\n")
           | ["pval"; t; fam; bits; qlen; asn] ->
             let t = ios t in
             (match run (a_tvalidate variant ptab.(t) (fam = "6") (n_of_int (ios asn)) (bits_of_string bits) (nat_of_int (ios qlen))) with
              | Some (s, rs) -> Printf.printf "%s res=[%s]" (str_state s) (join (List.map str_rec rs))
              | None -> print_string "ERROR res=[]");
             tail []
           | ["pfree"; t] ->
             let t = ios t in
             (match run (a_tfree ptab.(t)) with
              | Some l -> ptab.(t) <- a_empty; print_string "FREED"; tail (if t = 0 then List.map str_cb l else [])
              | None -> print_string "OUT_OF_FUEL\n")
           | ["children"; t] ->
             let t = ios t in
             let root = a_t4 ptab.(t) in
             let ok = run (a_tchildren variant root) in
             let n = max 0 (int_of_nat (a_size root) - 1) in
             Printf.printf "rc=%d n=%d" (if ok then 0 else -1) (if ok then n else 0); tail []
           | ["kadd"; t; a; s; k; src] ->
             let t = ios t in
             check_hash (ios a);
             let ((c, t'), l) = run (a_kadd variant ktab.(t) (mk_key (ios a) (ios s) (ios k) (ios src))) in
             ktab.(t) <- t'; print_string (str_krc c); tail (if t = 0 then List.map str_kcb l else [])
           | ["krm"; t; a; s; k; src] ->
             let t = ios t in
             check_hash (ios a);
             let ((c, t'), l) = run (a_kremove ktab.(t) (mk_key (ios a) (ios s) (ios k) (ios src))) in
             ktab.(t) <- t'; print_string (str_krc c); tail (if t = 0 then List.map str_kcb l else [])
           | ["ksrcrm"; t; src] ->
             let t = ios t in
             let ((c, t'), l) = run (a_ksrc_remove ktab.(t) (z_of_int (ios src))) in
             ktab.(t) <- t'; print_string (str_krc c); tail (if t = 0 then List.map str_kcb l else [])
           | ["kget"; t; a; s] ->
             let t = ios t in
             check_hash (ios a);
             (match run (a_kget variant ktab.(t) (z_of_int (ios a)) (z_of_int (ios s))) with
              | Some l -> Printf.printf "SUCCESS res=[%s]" (join (List.map str_key l))
              | None -> print_string "ERROR res=[]");
             tail []
           | ["kski"; t; s] ->
             let t = ios t in
             (match run (a_kski variant ktab.(t) (z_of_int (ios s))) with
              | Some l -> Printf.printf "SUCCESS res=[%s]" (join (List.map str_key l))
              | None -> print_string "ERROR res=[]");
             tail []
           | ["kfree"; t] ->
             let t = ios t in
             let (ok, t') = run (a_kfree_init variant ktab.(t)) in
             ktab.(t) <- t'; print_string (if ok then "FREED" else "ERROR"); tail []
           | ["sync"; reset; hex] ->
             let o = run (a_sync variant (ios reset = 1) { OpsA.tp = ptab.(0); OpsA.tk = ktab.(0) } (parse_stream hex)) in
             ptab.(0) <- o.SyncA.so_main.OpsA.tp; ktab.(0) <- o.SyncA.so_main.OpsA.tk;
             Printf.printf "rc=%d" (if o.SyncA.so_ok then 0 else -1);
             tail (List.map str_cb o.SyncA.so_pcb @ List.map str_kcb o.SyncA.so_kcb)
           | ["dump"] ->
             Printf.printf "DUMP P0=[%s] P1=[%s] K0=[%s] C0=%d K1=[%s] C1=%d live=%d\n"
               (join (List.map str_rec (a_trecords ptab.(0)))) (join (List.map str_rec (a_trecords ptab.(1))))
               (join (List.map str_key (a_kcontents ktab.(0)))) (int_of_z (a_kcount ktab.(0)))
               (join (List.map str_key (a_kcontents ktab.(1)))) (int_of_z (a_kcount ktab.(1)))
               (List.length !st.live)
           | ["end"] ->
             let seq m1 m2 = fun s -> (match m1 s with Val (_, s1) -> m2 s1 | Crash s1 -> Crash s1) in
             let unitm m = fun s -> (match m s with Val (_, s1) -> Val ((), s1) | Crash s1 -> Crash s1) in
             run (seq (a_tfree ptab.(0)) (seq (a_tfree ptab.(1)) (seq (a_krelease variant ktab.(0)) (unitm (a_krelease variant ktab.(1))))));
             print_string "END"; tail [];
             ptab.(0) <- a_empty; ptab.(1) <- a_empty; ktab.(0) <- a_kinit; ktab.(1) <- a_kinit;
             st := { !st with live = HSeg :: HSeg :: !st.live };
             nx := 0; nf := 0
           | _ -> print_string "bad\n")
        with Failure _ | Invalid_argument _ | Not_found -> print_string "bad\n");
       flush stdout
     done
   with End_of_file -> () | Crashed -> print_string "CRASH\n");
  flush stdout
