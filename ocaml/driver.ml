(* driver.ml - line-oriented interpreter over the extracted model (model.ml).
   usage: model pfx model|spec [hz_zero hz_deep]   < script
   One result line per input line, in the canonical format shared with harness/pfx_ops.c. *)
open Model

let rec nat_of_int i = if i <= 0 then O else S (nat_of_int (i - 1))
let rec int_of_nat = function O -> 0 | S n -> 1 + int_of_nat n
let rec pos_of_int i = if i = 1 then XH else if i land 1 = 1 then XI (pos_of_int (i lsr 1)) else XO (pos_of_int (i lsr 1))
let n_of_int i = if i = 0 then N0 else Npos (pos_of_int i)
let rec int_of_pos = function XH -> 1 | XO p -> 2 * int_of_pos p | XI p -> 2 * int_of_pos p + 1
let int_of_n = function N0 -> 0 | Npos p -> int_of_pos p

let bits_of_string s = List.init (String.length s) (fun i -> s.[i] = '1')
let string_of_bits b = String.concat "" (List.map (fun x -> if x then "1" else "0") b)

let mk_rec fam bits len mx asn src =
  (((fam = "6", bits_of_string bits), nat_of_int len), { e_asn = n_of_int asn; e_max = nat_of_int mx; e_src = n_of_int src })

let str_rec (((v6, p), len), e) =
  Printf.sprintf "%s:%s/%d-%d:%d:%d" (if v6 then "6" else "4") (string_of_bits p) (int_of_nat len)
    (int_of_nat e.e_max) (int_of_n e.e_asn) (int_of_n e.e_src)

let str_rc = function SUCCESS -> "SUCCESS" | ERROR -> "ERROR" | DUP -> "DUP" | NOTFOUND -> "NOTFOUND"
let str_cb = function Added r -> "+" ^ str_rec r | Removed r -> "-" ^ str_rec r
let str_state = function VALID -> "VALID" | NOT_FOUND -> "NOT_FOUND" | INVALID -> "INVALID"
let join l = String.concat " " l

let pfx_model hz_zero hz_deep =
  let tabs = [| empty_table; empty_table |] in
  let fp = [| true; false |] in
  let cbs t l = if fp.(t) then join (List.map str_cb l) else "" in
  try
    while true do
      let line = input_line stdin in
      let w = List.filter (fun s -> s <> "") (String.split_on_char ' ' line) in
      let ios = int_of_string in
      (match w with
       | ["add"; t; fam; bits; len; mx; asn; src] ->
         let t = ios t in
         let ((t', c), l) = tadd tabs.(t) (mk_rec fam bits (ios len) (ios mx) (ios asn) (ios src)) in
         tabs.(t) <- t'; Printf.printf "%s |%s\n" (str_rc c) (cbs t l)
       | ["del"; t; fam; bits; len; mx; asn; src] ->
         let t = ios t in
         let ((t', c), l) = tremove tabs.(t) (mk_rec fam bits (ios len) (ios mx) (ios asn) (ios src)) in
         tabs.(t) <- t'; Printf.printf "%s |%s\n" (str_rc c) (cbs t l)
       | ["srcdel"; t; src] ->
         let t = ios t in
         (match tsrc_remove tabs.(t) (n_of_int (ios src)) with
          | Some (t', l) -> tabs.(t) <- t'; Printf.printf "SUCCESS |%s\n" (cbs t l)
          | None -> print_string "OUT_OF_FUEL\n")
       | ["val"; t; fam; bits; qlen; asn] ->
         let t = ios t in
         let v6 = (fam = "6") in
         if tvalidate_ub hz_zero hz_deep tabs.(t) v6 (n_of_int (ios asn)) (bits_of_string bits) (nat_of_int (ios qlen))
         then print_string "UB\n"
         else
           let (s, rs) = tvalidate tabs.(t) v6 (n_of_int (ios asn)) (bits_of_string bits) (nat_of_int (ios qlen)) in
           Printf.printf "%s |%s\n" (str_state s) (join (List.map str_rec rs))
       | ["list"; t] -> Printf.printf "LIST |%s\n" (join (List.map str_rec (trecords tabs.(ios t))))
       | ["free"; t] ->
         let t = ios t in
         (match tfree tabs.(t) with
          | Some l -> tabs.(t) <- empty_table; Printf.printf "FREED |%s\n" (cbs t l)
          | None -> print_string "OUT_OF_FUEL\n")
       | ["copyx"; a; b; src] ->
         let (d, err) = tcopy_except tabs.(ios a) tabs.(ios b) (n_of_int (ios src)) in
         tabs.(ios b) <- d; Printf.printf "%s |\n" (if err then "ERROR" else "SUCCESS")
       | ["swap"] -> let (a, b) = tswap tabs.(0) tabs.(1) in tabs.(0) <- a; tabs.(1) <- b; print_string "SWAPPED |\n"
       | ["diff"; a; b; src] ->
         let (l, o) = tnotify_diff tabs.(ios a) tabs.(ios b) (n_of_int (ios src)) in
         tabs.(ios b) <- o; Printf.printf "DIFF |%s\n" (cbs (ios a) l)
       | ["reset"] -> tabs.(0) <- empty_table; tabs.(1) <- empty_table; print_string "RESET |\n"
       | "mark" :: _ -> Printf.printf "MARK %s\n" (String.sub line 5 (String.length line - 5))
       | [] -> print_string "\n"
       | _ -> Printf.printf "?? %s\n" line);
      flush stdout
    done
  with End_of_file -> ()

(* the Spec run on the same script: sets of records, RFC 6811, callback replay *)
let pfx_spec () =
  let tabs = [| []; [] |] in
  let sorted l = List.sort compare (List.map str_rec l) in
  try
    while true do
      let line = input_line stdin in
      let w = List.filter (fun s -> s <> "") (String.split_on_char ' ' line) in
      let ios = int_of_string in
      (match w with
       | ["add"; t; fam; bits; len; mx; asn; src] ->
         let t = ios t in
         let r = mk_rec fam bits (ios len) (ios mx) (ios asn) (ios src) in
         let (s, c) = sp_add tabs.(t) r in tabs.(t) <- s; Printf.printf "%s |\n" (str_rc c)
       | ["del"; t; fam; bits; len; mx; asn; src] ->
         let t = ios t in
         let r = mk_rec fam bits (ios len) (ios mx) (ios asn) (ios src) in
         let (s, c) = sp_remove tabs.(t) r in tabs.(t) <- s; Printf.printf "%s |\n" (str_rc c)
       | ["srcdel"; t; src] -> let t = ios t in tabs.(t) <- sp_src_remove tabs.(t) (n_of_int (ios src)); print_string "SUCCESS |\n"
       | ["val"; t; fam; bits; qlen; asn] ->
         let v6 = (fam = "6") in
         let q = bits_of_string bits and ql = nat_of_int (ios qlen) and a = n_of_int (ios asn) in
         let s = sp_validate tabs.(ios t) v6 a q ql in
         let cov = List.filter (fun r -> fcovrec v6 q ql r) tabs.(ios t) in
         let mat = List.filter (fun r -> fmatrec a ql r) cov in
         Printf.printf "%s |%s |%s\n" (str_state s) (join (sorted cov)) (join (sorted mat))
       | ["list"; t] -> Printf.printf "LIST |%s\n" (join (sorted tabs.(ios t)))
       | ["free"; t] -> tabs.(ios t) <- []; print_string "FREED |\n"
       | ["copyx"; a; b; src] ->
         let s = n_of_int (ios src) in
         tabs.(ios b) <- tabs.(ios b) @ List.filter (fun r -> src_of r <> s) tabs.(ios a); print_string "SUCCESS |\n"
       | ["swap"] -> let a = tabs.(0) in tabs.(0) <- tabs.(1); tabs.(1) <- a; print_string "SWAPPED |\n"
       | ["diff"; a; b; src] ->
         let s = n_of_int (ios src) in
         let mine l = List.filter (fun r -> src_of r = s) l in
         let na = mine tabs.(ios a) and ob = mine tabs.(ios b) in
         let added = List.filter (fun r -> not (sp_mem r ob)) na and removed = List.filter (fun r -> not (sp_mem r na)) ob in
         tabs.(ios b) <- List.filter (fun r -> not (src_of r = s && sp_mem r na)) tabs.(ios b);
         Printf.printf "DIFF |%s\n" (join (List.sort compare (List.map (fun r -> "+" ^ str_rec r) added @ List.map (fun r -> "-" ^ str_rec r) removed)))
       | ["reset"] -> tabs.(0) <- []; tabs.(1) <- []; print_string "RESET |\n"
       | "mark" :: _ -> Printf.printf "MARK %s\n" (String.sub line 5 (String.length line - 5))
       | [] -> print_string "\n"
       | _ -> Printf.printf "?? %s\n" line);
      flush stdout
    done
  with End_of_file -> ()

(* ---------------- RTR mode: same script and same trace format as harness/rtr_run.c ---------------- *)
let z_of_int i = if i = 0 then Z0 else if i > 0 then Zpos (pos_of_int i) else Zneg (pos_of_int (-i))
let int_of_z = function Z0 -> 0 | Zpos p -> int_of_pos p | Zneg p -> - (int_of_pos p)
let hex_of_bytes l = String.concat "" (List.map (fun b -> Printf.sprintf "%02x" (int_of_z b)) l)
let bytes_of_hex h = List.init (String.length h / 2) (fun i -> z_of_int (int_of_string ("0x" ^ String.sub h (2 * i) 2)))
let kid_to_key kid =
  (List.init 20 (fun i -> z_of_int (((kid lsr 8) + i * 7) land 255)), List.init 91 (fun i -> z_of_int ((kid + i * 3) land 255)))
let str_prec (((((v6, p), len), mx), asn), src) =
  Printf.sprintf "%s:%s/%d-%d:%d:%d" (if v6 then "6" else "4") (string_of_bits p) (int_of_z len) (int_of_z mx) (int_of_z asn) (int_of_z src)
let str_krec (((asn, ski), spki), src) =
  Printf.sprintf "K:%d:%s:%s:%d" (int_of_z asn) (hex_of_bytes ski) (hex_of_bytes spki) (int_of_z src)

let print_titem = function
  | TOpen (ok, t) -> Printf.printf "OPEN %s t=%d\n" (if ok then "ok" else "fail") (int_of_z t)
  | TClose -> print_string "CLOSE\n"
  | TSend b -> Printf.printf "SEND %s\n" (hex_of_bytes b)
  | TSendFail c -> Printf.printf "SENDFAIL %d\n" (int_of_z c)
  | TRecvN (t, n) -> Printf.printf "RECV timeout=%d -> %d\n" (int_of_z t) (int_of_z n)
  | TRecvWB (t, c) -> Printf.printf "RECV timeout=%d -> WOULDBLOCK t=%d\n" (int_of_z t) (int_of_z c)
  | TRecvErr (t, c) -> Printf.printf "RECV timeout=%d -> ERR %d\n" (int_of_z t) (int_of_z c)
  | TRecvStop t -> Printf.printf "RECV timeout=%d -> STOP\n" (int_of_z t)
  | TSleep n -> Printf.printf "SLEEP %d\n" (int_of_z n)
  | TState s -> Printf.printf "STATE %d\n" (int_of_z s)
  | TPfx (a, r) -> Printf.printf "PFXCB %s%s\n" (if a then "+" else "-") (str_prec r)
  | TKey (a, k) -> Printf.printf "KEYCB %s%s\n" (if a then "+" else "-") (str_krec k)
  | TEnd w -> Printf.printf "END %s\n" (if int_of_z w = 1 then "recv-script-exhausted" else "open-script-exhausted")
  | TStopping -> print_string "STOPPING\n"
  | TDump (tag, f, ps, ks) ->
    let f = Array.of_list (List.map int_of_z f) in
    Printf.printf "DUMP %s state=%d version=%d session=%d reqsess=%d serial=%d last_update=%d refresh=%d expire=%d retry=%d resetting=%d t=%d\n"
      (match int_of_z tag with 0 -> "init" | 1 -> "stopped" | _ -> "final")
      f.(0) f.(1) f.(2) f.(3) f.(4) f.(5) f.(6) f.(7) f.(8) f.(9) f.(10);
    List.iter (fun l -> Printf.printf "REC %s\n" l) (List.sort compare (List.map str_prec ps @ List.map str_krec ks));
    print_string "ENDDUMP\n"

let rtr_model () =
  let cfg = ref (3600, 7200, 600, 0) and pre_p = ref [] and pre_k = ref [] and opens = ref [] and sends = ref [] and evs = ref [] in
  (try
     while true do
       let line = input_line stdin in
       let w = List.filter (fun s -> s <> "") (String.split_on_char ' ' line) in
       let ios = int_of_string in
       match w with
       | ["cfg"; a; b; c; d] -> cfg := (ios a, ios b, ios c, ios d)
       | ["pre"; "pfx"; fam; bits; len; mx; asn; src] ->
         pre_p := !pre_p @ [(((((fam = "6", bits_of_string bits), z_of_int (ios len)), z_of_int (ios mx)), z_of_int (ios asn)), z_of_int (ios src))]
       | ["pre"; "key"; asn; kid; src] ->
         let (ski, spki) = kid_to_key (ios kid) in pre_k := !pre_k @ [(((z_of_int (ios asn), ski), spki), z_of_int (ios src))]
       | "open" :: l -> opens := !opens @ List.map (fun x -> x <> "0") l
       | "send" :: l -> sends := !sends @ List.map (fun x -> if x.[0] = 'e' then z_of_int (- (ios (String.sub x 1 (String.length x - 1)))) else z_of_int (ios x)) l
       | ["ev"; "data"; h] -> if String.length h >= 2 then evs := EvData (bytes_of_hex h) :: !evs
       | ["ev"; "err"; c] -> evs := EvErr (z_of_int (ios c)) :: !evs
       | ["ev"; "wait"; c] -> evs := EvWait (z_of_int (ios c)) :: !evs
       | ["ev"; "stop"] -> evs := EvStop :: !evs
       | ["run"] -> raise End_of_file
       | _ -> ()
     done
   with End_of_file -> ());
  let (a, b, c, d) = !cfg in
  if not (init_ok (z_of_int a) (z_of_int b) (z_of_int c)) then print_string "INIT -2\n"
  else begin
    print_string "INIT 0\n";
    let big = nat_of_int 200000 in
    List.iter print_titem
      (run_script big big (z_of_int a) (z_of_int b) (z_of_int c) (z_of_int d) !pre_p !pre_k (List.rev !evs) !opens !sends)
  end

let () =
  match Array.to_list Sys.argv with
  | _ :: "pfx" :: "model" :: rest ->
    let b i = match List.nth_opt rest i with Some "1" -> true | _ -> false in
    pfx_model (b 0) (b 1)
  | _ :: "pfx" :: "spec" :: _ -> pfx_spec ()
  | _ :: "rtr" :: _ -> rtr_model ()
  | _ -> prerr_endline "usage: model pfx model|spec [hz_zero hz_deep]"; exit 2
