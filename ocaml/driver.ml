(* driver.ml - line-oriented interpreter over the extracted model (model.ml).
   usage: model pfx model|spec [hz_zero hz_deep]   < script
   One result line per input line, in the canonical format shared with harness/pfx_ops.c. *)
open Model

let rec nat_of_int i = if i <= 0 then O else S (nat_of_int (i - 1))
let rec int_of_nat = function O -> 0 | S n -> 1 + int_of_nat n
let rec pos_of_int i = if i = 1 then XH else if i land 1 = 1 then XI (pos_of_int (i lsr 1)) else XO (pos_of_int (i lsr 1))
let n_of_int i = if i = 0 then N0 else Npos (pos_of_int i)
let rec int_of_pos = function XH -> 1 | XO p -> 2 * int_of_pos p | XI p -> 2 * int_of_pos p + 1
let int_of_n = function N0 -> 0 | Npos p -> int_of_pos p

let bits_of_string s = List.init (String.length s) (fun i -> s.[i] = '1')
let string_of_bits b = String.concat "" (List.map (fun x -> if x then "1" else "0") b)

let mk_rec fam bits len mx asn src =
  (((fam = "6", bits_of_string bits), nat_of_int len), { e_asn = n_of_int asn; e_max = nat_of_int mx; e_src = n_of_int src })

let str_rec (((v6, p), len), e) =
  Printf.sprintf "%s:%s/%d-%d:%d:%d" (if v6 then "6" else "4") (string_of_bits p) (int_of_nat len)
    (int_of_nat e.e_max) (int_of_n e.e_asn) (int_of_n e.e_src)

let str_rc = function SUCCESS -> "SUCCESS" | ERROR -> "ERROR" | DUP -> "DUP" | NOTFOUND -> "NOTFOUND"
let str_cb = function Added r -> "+" ^ str_rec r | Removed r -> "-" ^ str_rec r
let str_state = function VALID -> "VALID" | NOT_FOUND -> "NOT_FOUND" | INVALID -> "INVALID"
let join l = String.concat " " l

let pfx_model hz_zero hz_deep =
  let tabs = [| empty_table; empty_table |] in
  let fp = [| true; false |] in
  let cbs t l = if fp.(t) then join (List.map str_cb l) else "" in
  try
    while true do
      let line = input_line stdin in
      let w = List.filter (fun s -> s <> "") (String.split_on_char ' ' line) in
      let ios = int_of_string in
      (match w with
       | ["add"; t; fam; bits; len; mx; asn; src] ->
         let t = ios t in
         let ((t', c), l) = tadd tabs.(t) (mk_rec fam bits (ios len) (ios mx) (ios asn) (ios src)) in
         tabs.(t) <- t'; Printf.printf "%s |%s\n" (str_rc c) (cbs t l)
       | ["del"; t; fam; bits; len; mx; asn; src] ->
         let t = ios t in
         let ((t', c), l) = tremove tabs.(t) (mk_rec fam bits (ios len) (ios mx) (ios asn) (ios src)) in
         tabs.(t) <- t'; Printf.printf "%s |%s\n" (str_rc c) (cbs t l)
       | ["srcdel"; t; src] ->
         let t = ios t in
         (match tsrc_remove tabs.(t) (n_of_int (ios src)) with
          | Some (t', l) -> tabs.(t) <- t'; Printf.printf "SUCCESS |%s\n" (cbs t l)
          | None -> print_string "OUT_OF_FUEL\n")
       | ["val"; t; fam; bits; qlen; asn] ->
         let t = ios t in
         let v6 = (fam = "6") in
         if tvalidate_ub hz_zero hz_deep tabs.(t) v6 (n_of_int (ios asn)) (bits_of_string bits) (nat_of_int (ios qlen))
         then print_string "UB\n"
         else
           let (s, rs) = tvalidate tabs.(t) v6 (n_of_int (ios asn)) (bits_of_string bits) (nat_of_int (ios qlen)) in
           Printf.printf "%s |%s\n" (str_state s) (join (List.map str_rec rs))
       | ["list"; t] -> Printf.printf "LIST |%s\n" (join (List.map str_rec (trecords tabs.(ios t))))
       | ["free"; t] ->
         let t = ios t in
         (match tfree tabs.(t) with
          | Some l -> tabs.(t) <- empty_table; Printf.printf "FREED |%s\n" (cbs t l)
          | None -> print_string "OUT_OF_FUEL\n")
       | ["copyx"; a; b; src] ->
         let (d, err) = tcopy_except tabs.(ios a) tabs.(ios b) (n_of_int (ios src)) in
         tabs.(ios b) <- d; Printf.printf "%s |\n" (if err then "ERROR" else "SUCCESS")
       | ["swap"] -> let (a, b) = tswap tabs.(0) tabs.(1) in tabs.(0) <- a; tabs.(1) <- b; print_string "SWAPPED |\n"
       | ["diff"; a; b; src] ->
         let (l, o) = tnotify_diff tabs.(ios a) tabs.(ios b) (n_of_int (ios src)) in
         tabs.(ios b) <- o; Printf.printf "DIFF |%s\n" (cbs (ios a) l)
       | ["reset"] -> tabs.(0) <- empty_table; tabs.(1) <- empty_table; print_string "RESET |\n"
       | "mark" :: _ -> Printf.printf "MARK %s\n" (String.sub line 5 (String.length line - 5))
       | [] -> print_string "\n"
       | _ -> Printf.printf "?? %s\n" line);
      flush stdout
    done
  with End_of_file -> ()

(* the Spec run on the same script: sets of records, RFC 6811, callback replay *)
let pfx_spec () =
  let tabs = [| []; [] |] in
  let sorted l = List.sort compare (List.map str_rec l) in
  try
    while true do
      let line = input_line stdin in
      let w = List.filter (fun s -> s <> "") (String.split_on_char ' ' line) in
      let ios = int_of_string in
      (match w with
       | ["add"; t; fam; bits; len; mx; asn; src] ->
         let t = ios t in
         let r = mk_rec fam bits (ios len) (ios mx) (ios asn) (ios src) in
         let (s, c) = sp_add tabs.(t) r in tabs.(t) <- s; Printf.printf "%s |\n" (str_rc c)
       | ["del"; t; fam; bits; len; mx; asn; src] ->
         let t = ios t in
         let r = mk_rec fam bits (ios len) (ios mx) (ios asn) (ios src) in
         let (s, c) = sp_remove tabs.(t) r in tabs.(t) <- s; Printf.printf "%s |\n" (str_rc c)
       | ["srcdel"; t; src] -> let t = ios t in tabs.(t) <- sp_src_remove tabs.(t) (n_of_int (ios src)); print_string "SUCCESS |\n"
       | ["val"; t; fam; bits; qlen; asn] ->
         let v6 = (fam = "6") in
         let q = bits_of_string bits and ql = nat_of_int (ios qlen) and a = n_of_int (ios asn) in
         let s = sp_validate tabs.(ios t) v6 a q ql in
         let cov = List.filter (fun r -> fcovrec v6 q ql r) tabs.(ios t) in
         let mat = List.filter (fun r -> fmatrec a ql r) cov in
         Printf.printf "%s |%s |%s\n" (str_state s) (join (sorted cov)) (join (sorted mat))
       | ["list"; t] -> Printf.printf "LIST |%s\n" (join (sorted tabs.(ios t)))
       | ["free"; t] -> tabs.(ios t) <- []; print_string "FREED |\n"
       | ["copyx"; a; b; src] ->
         let s = n_of_int (ios src) in
         tabs.(ios b) <- tabs.(ios b) @ List.filter (fun r -> src_of r <> s) tabs.(ios a); print_string "SUCCESS |\n"
       | ["swap"] -> let a = tabs.(0) in tabs.(0) <- tabs.(1); tabs.(1) <- a; print_string "SWAPPED |\n"
       | ["diff"; a; b; src] ->
         let s = n_of_int (ios src) in
         let mine l = List.filter (fun r -> src_of r = s) l in
         let na = mine tabs.(ios a) and ob = mine tabs.(ios b) in
         let added = List.filter (fun r -> not (sp_mem r ob)) na and removed = List.filter (fun r -> not (sp_mem r na)) ob in
         tabs.(ios b) <- List.filter (fun r -> not (src_of r = s && sp_mem r na)) tabs.(ios b);
         Printf.printf "DIFF |%s\n" (join (List.sort compare (List.map (fun r -> "+" ^ str_rec r) added @ List.map (fun r -> "-" ^ str_rec r) removed)))
       | ["reset"] -> tabs.(0) <- []; tabs.(1) <- []; print_string "RESET |\n"
       | "mark" :: _ -> Printf.printf "MARK %s\n" (String.sub line 5 (String.length line - 5))
       | [] -> print_string "\n"
       | _ -> Printf.printf "?? %s\n" line);
      flush stdout
    done
  with End_of_file -> ()

let () =
  match Array.to_list Sys.argv with
  | _ :: "pfx" :: "model" :: rest ->
    let b i = match List.nth_opt rest i with Some "1" -> true | _ -> false in
    pfx_model (b 0) (b 1)
  | _ :: "pfx" :: "spec" :: _ -> pfx_spec ()
  | _ -> prerr_endline "usage: model pfx model|spec [hz_zero hz_deep]"; exit 2
