(* c10_driver.ml - line-oriented interpreter over the extracted C10 model (coq/c10_model.ml).
   Reads the same op script as harness/spki_ops.c and prints the same canonical lines.
   An extra op "shape T" prints the hashlin state (bucket_bit low_max split state) - model only.
   Option "-notify" runs src_remove with the callback-firing variant (the code after the proposed fix). *)
open C10_model

let rec pos_of_int n = if n = 1 then XH else if n land 1 = 0 then XO (pos_of_int (n lsr 1)) else XI (pos_of_int (n lsr 1))
let z_of_int n = if n = 0 then Z0 else if n > 0 then Zpos (pos_of_int n) else Zneg (pos_of_int (-n))
let rec int_of_pos = function XH -> 1 | XO p -> 2 * int_of_pos p | XI p -> 2 * int_of_pos p + 1
let int_of_z = function Z0 -> 0 | Zpos p -> int_of_pos p | Zneg p -> - (int_of_pos p)

let nt = 8
let tables = Array.make nt m_init

let fmt_entry e =
  Printf.sprintf "%d/%d/%d/%d" (int_of_z e.e_asn) (int_of_z e.e_ski) (int_of_z e.e_spki) (int_of_z e.e_src)

let fmt_cbs ti cbs =
  String.concat " " (List.map (fun (e, added) -> Printf.sprintf "%d:%c%s" ti (if added then '+' else '-') (fmt_entry e)) cbs)

let mk a s k src = { e_asn = z_of_int a; e_ski = z_of_int s; e_spki = z_of_int k; e_src = z_of_int src }

let check_hash a =
  if not (real_hash_defined (z_of_int a)) then begin
    print_string "error: translated tommy_inthash_u32 is undefined (UB) on this input\n"; exit 4 end

let () =
  let notify = Array.length Sys.argv > 1 && Sys.argv.(1) = "-notify" in
  let srcrm t s = if notify then m_src_remove_gen true t s else m_src_remove t s in
  (try
    while true do
      let line = input_line stdin in
      let toks = List.filter (fun s -> s <> "")
          (String.split_on_char ' ' (String.map (fun c -> if c = '\t' then ' ' else c) (String.trim line))) in
      let bad () = Printf.printf "bad %s\n" (String.trim line) in
      (try
        let strict_int s =
          let n = String.length s in
          if n < 1 || n > 10 then failwith "num";
          String.iter (fun c -> if c < '0' || c > '9' then failwith "num") s;
          let v = int_of_string s in
          if v > 4294967295 then failwith "num";
          v in
        if List.length toks > 6 then failwith "long";
        let ints = List.map strict_int (List.tl toks) in
        let ok_t t = t >= 0 && t < nt in
        (match List.hd toks, ints with
         | "add", [t; a; s; k; src] when ok_t t ->
           check_hash a;
           let ((rc, t'), cbs) = m_add tables.(t) (mk a s k src) in
           tables.(t) <- t';
           Printf.printf "rc=%d cb=[%s]\n" (int_of_z rc) (fmt_cbs t cbs)
         | "rm", [t; a; s; k; src] when ok_t t ->
           check_hash a;
           let ((rc, t'), cbs) = m_remove tables.(t) (mk a s k src) in
           tables.(t) <- t';
           Printf.printf "rc=%d cb=[%s]\n" (int_of_z rc) (fmt_cbs t cbs)
         | "srcrm", [t; src] when ok_t t ->
           let ((rc, t'), cbs) = srcrm tables.(t) (z_of_int src) in
           tables.(t) <- t';
           Printf.printf "rc=%d cb=[%s]\n" (int_of_z rc) (fmt_cbs t cbs)
         | "get", [t; a; s] when ok_t t ->
           check_hash a;
           let res = m_get_all tables.(t) (z_of_int a) (z_of_int s) in
           Printf.printf "rc=%d res=[%s]\n" (int_of_z rc_success) (String.concat " " (List.map fmt_entry res))
         | "ski", [t; s] when ok_t t ->
           let res = m_search_by_ski tables.(t) (z_of_int s) in
           Printf.printf "rc=%d res=[%s]\n" (int_of_z rc_success) (String.concat " " (List.map fmt_entry res))
         | "copy", [a; b; src] when ok_t a && ok_t b && a <> b ->
           let ((rc, d'), cbs) = m_copy tables.(a) tables.(b) (z_of_int src) in
           tables.(b) <- d';
           Printf.printf "rc=%d cb=[%s]\n" (int_of_z rc) (fmt_cbs b cbs)
         | "swap", [a; b] when ok_t a && ok_t b && a <> b ->
           let (a', b') = m_swap tables.(a) tables.(b) in
           tables.(a) <- a'; tables.(b) <- b';
           Printf.printf "rc=0 cb=[]\n"
         | "diff", [n; o; src] when ok_t n && ok_t o && n <> o ->
           let (o', cbs) = m_notify_diff tables.(n) tables.(o) (z_of_int src) in
           tables.(o) <- o';
           Printf.printf "rc=0 cb=[%s]\n" (fmt_cbs n cbs)
         | "free", [t] when ok_t t ->
           let (t', cbs) = m_free tables.(t) in
           tables.(t) <- t';
           Printf.printf "rc=0 cb=[%s]\n" (fmt_cbs t cbs)
         | "dump", [t] when ok_t t ->
           Printf.printf "count=%d list=[%s]\n" (int_of_z (m_count tables.(t)))
             (String.concat " " (List.map fmt_entry (m_contents tables.(t))))
         | "hash", [a] ->
           check_hash a;
           Printf.printf "hash=%d\n" (int_of_z (real_hash (z_of_int a)))
         | "shape", [t] when ok_t t ->
           let (((bb, lm), sp), st) = m_shape tables.(t) in
           Printf.printf "shape bit=%d low_max=%d split=%d state=%d\n" (int_of_z bb) (int_of_z lm) (int_of_z sp) (int_of_z st)
         | _ -> bad ())
      with Failure _ | Invalid_argument _ -> bad ())
    done
  with End_of_file -> ());
  flush stdout
