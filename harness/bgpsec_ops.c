/* bgpsec_ops.c - C11/C12: drive rtrlib's BGPsec validation and signing with real OpenSSL keys.
 *
 * Line-oriented: one command per input line, exactly one output line per command.
 *
 * Library side (the code under test, reached only through its own functions):
 *   data <alg> <safi> <afi> <my_as> <target_as> <nlri_afi> <nlri_safi> <nlri_len> <nlri_hex|->
 *   sec <pcount> <flags> <asn>         append a Secure_Path Segment (wire order: most recent first)
 *   sig <ski_hex> <sig_hex>            append a Signature Segment
 *   counts <path_len> <sigs_len>       overwrite the two count fields
 *   tclear | tadd <asn> <ski_hex> <spki_hex>      router key table (spki_table_add_entry)
 *   validate                           rtr_bgpsec_validate_as_path; prints rc and the byte strings that
 *                                      were handed to hash_byte_sequence (link-time --wrap), in order
 *   sign <keyid> | sign_raw <priv_hex> rtr_bgpsec_generate_signature; prints rc, signature, hashed bytes
 *   align V|S                          req_stream_size + init_stream + align_byte_sequence; prints size, bytes
 *   align! V|S                         the same without the guard against totals >= 65536 (ASan aborts)
 *   codes                              numeric values of the enum / macros the model restates
 * Independent side (never touches rtrlib code; EVP interface of OpenSSL only):
 *   key <id> | keyload <id> <priv_hex> fresh P-256 key / load one; prints ski, spki, priv
 *   isign <keyid> <msg_hex>            ECDSA-SHA256 over the given octets (EVP_DigestSign)
 *   iverify <spki_hex> <msg_hex> <sig_hex>        EVP_DigestVerify verdict, SHA256+ECDSA_verify status
 *   loadpub <spki_hex>                 d2i_EC_PUBKEY + EC_KEY_check_key on SPKI_SIZE bytes (1/0)
 *   derchk <sig_hex>                   strict DER ECDSA-Sig-Value? prints r/s lengths
 */
#include "rtrlib/bgpsec/bgpsec_private.h"
#include "rtrlib/bgpsec/bgpsec_utils_private.h"
#include "rtrlib/spki/hashtable/ht-spkitable_private.h"
#include "rtrlib/spki/spkitable_private.h"

#include <openssl/ec.h>
#include <openssl/ecdsa.h>
#include <openssl/evp.h>
#include <openssl/sha.h>
#include <openssl/x509.h>
#include <stdio.h>
#include <stdlib.h>
#include <string.h>

#define MAXKEYS 64
#define LINE_MAX_LEN (1 << 20)

struct hkey {
	int used;
	EC_KEY *ec;
	uint8_t priv[256];
	int priv_len;
	uint8_t spki[256];
	int spki_len;
	uint8_t ski[SKI_SIZE];
};

static struct hkey keys[MAXKEYS];
static struct spki_table table;
static struct rtr_bgpsec *data;

/* ---- capture of what the library hashes ---------------------------------------------- */
#define MAXCAP 512
static uint8_t *cap[MAXCAP];
static size_t cap_len[MAXCAP];
static int ncap;

int __real_hash_byte_sequence(uint8_t *bytes, size_t bytes_len, uint8_t alg_suite_id, unsigned char **hash_result);
int __wrap_hash_byte_sequence(uint8_t *bytes, size_t bytes_len, uint8_t alg_suite_id, unsigned char **hash_result)
{
	if (ncap < MAXCAP) {
		cap[ncap] = malloc(bytes_len ? bytes_len : 1);
		memcpy(cap[ncap], bytes, bytes_len);
		cap_len[ncap] = bytes_len;
		ncap++;
	}
	return __real_hash_byte_sequence(bytes, bytes_len, alg_suite_id, hash_result);
}

void __wrap_lrtr_dbg(const char *frmt, ...)
{
	(void)frmt;
}

/* ---------- the signer's nonce: `sigclass <min> <max>` makes every ECDSA_sign of the library re-draw its nonce until the DER
 * signature's length lies in [min, max] (0 0 = take what comes).  A P-256 signature is 70..72 bytes in 99.6 % of the draws, but
 * shorter whenever r or s has leading zero bytes: the short ones are as valid as the others. ---------- */
static unsigned int sig_min, sig_max;
int __real_ECDSA_sign(int type, const unsigned char *dgst, int dlen, unsigned char *sig, unsigned int *siglen, EC_KEY *eckey);
int __wrap_ECDSA_sign(int type, const unsigned char *dgst, int dlen, unsigned char *sig, unsigned int *siglen, EC_KEY *eckey)
{
	int rc = 0;

	for (int tries = 0; tries < 400000; tries++) {
		rc = __real_ECDSA_sign(type, dgst, dlen, sig, siglen, eckey);
		if (rc != 1 || sig_max == 0 || (*siglen >= sig_min && *siglen <= sig_max))
			break;
	}
	return rc;
}

static void cap_reset(void)
{
	for (int i = 0; i < ncap; i++)
		free(cap[i]);
	ncap = 0;
}

/* ---- hex --------------------------------------------------------------------------- */
static int hexval(int c)
{
	if (c >= '0' && c <= '9')
		return c - '0';
	if (c >= 'a' && c <= 'f')
		return c - 'a' + 10;
	if (c >= 'A' && c <= 'F')
		return c - 'A' + 10;
	return -1;
}

/* returns length, -1 on error; "-" is the empty string */
static int unhex(const char *s, uint8_t *out, int max)
{
	int n = 0;

	if (!s || strcmp(s, "-") == 0)
		return 0;
	while (s[0] && s[1]) {
		int a = hexval(s[0]), b = hexval(s[1]);

		if (a < 0 || b < 0 || n >= max)
			return -1;
		out[n++] = (uint8_t)(a * 16 + b);
		s += 2;
	}
	return s[0] ? -1 : n;
}

static void puthex(const uint8_t *b, size_t n)
{
	if (n == 0) {
		putchar('-');
		return;
	}
	for (size_t i = 0; i < n; i++)
		printf("%02x", b[i]);
}

static void put_captured(void)
{
	if (ncap == 0)
		printf("-");
	for (int i = 0; i < ncap; i++) {
		if (i)
			putchar(',');
		puthex(cap[i], cap_len[i]);
	}
}

/* ---- keys -------------------------------------------------------------------------- */
static int key_finish(struct hkey *k)
{
	unsigned char *p;
	uint8_t point[128];
	size_t plen;

	EC_KEY_set_asn1_flag(k->ec, OPENSSL_EC_NAMED_CURVE);
	EC_KEY_set_conv_form(k->ec, POINT_CONVERSION_UNCOMPRESSED);
	p = k->priv;
	k->priv_len = i2d_ECPrivateKey(k->ec, &p);
	p = k->spki;
	k->spki_len = i2d_EC_PUBKEY(k->ec, &p);
	if (k->priv_len <= 0 || k->spki_len <= 0)
		return -1;
	plen = EC_POINT_point2oct(EC_KEY_get0_group(k->ec), EC_KEY_get0_public_key(k->ec),
				  POINT_CONVERSION_UNCOMPRESSED, point, sizeof(point), NULL);
	SHA1(point, plen, k->ski);
	k->used = 1;
	return 0;
}

static void key_print(int id)
{
	struct hkey *k = &keys[id];

	printf("key %d ski=", id);
	puthex(k->ski, SKI_SIZE);
	printf(" spki=");
	puthex(k->spki, k->spki_len);
	printf(" priv=");
	puthex(k->priv, k->priv_len);
	printf("\n");
}

static EVP_PKEY *pkey_of(struct hkey *k)
{
	EVP_PKEY *pk = EVP_PKEY_new();

	EVP_PKEY_set1_EC_KEY(pk, k->ec);
	return pk;
}

/* ---- data -------------------------------------------------------------------------- */
static void data_free(void)
{
	if (data)
		rtr_bgpsec_free(data);
	data = NULL;
}

static uint8_t buf1[70000], buf2[70000], buf3[70000];

int main(void)
{
	char *line = malloc(LINE_MAX_LEN);

	spki_table_init(&table, NULL);
	setvbuf(stdout, NULL, _IOLBF, 0);
	while (fgets(line, LINE_MAX_LEN, stdin)) {
		char *cmd = strtok(line, " \t\r\n");

		if (!cmd || cmd[0] == '#') {
			printf("ok\n");
			continue;
		}
		if (strcmp(cmd, "key") == 0) {
			int id = atoi(strtok(NULL, " \t\r\n"));
			struct hkey *k = &keys[id];

			if (k->used)
				EC_KEY_free(k->ec);
			k->ec = EC_KEY_new_by_curve_name(NID_X9_62_prime256v1);
			if (!k->ec || !EC_KEY_generate_key(k->ec) || key_finish(k) < 0) {
				printf("error keygen\n");
				continue;
			}
			key_print(id);
		} else if (strcmp(cmd, "keyload") == 0) {
			int id = atoi(strtok(NULL, " \t\r\n"));
			struct hkey *k = &keys[id];
			int n = unhex(strtok(NULL, " \t\r\n"), buf1, sizeof(buf1));
			const unsigned char *p = buf1;

			if (k->used)
				EC_KEY_free(k->ec);
			k->used = 0;
			k->ec = n > 0 ? d2i_ECPrivateKey(NULL, &p, n) : NULL;
			if (!k->ec || key_finish(k) < 0) {
				printf("error keyload\n");
				continue;
			}
			key_print(id);
		} else if (strcmp(cmd, "isign") == 0) {
			int id = atoi(strtok(NULL, " \t\r\n"));
			int n = unhex(strtok(NULL, " \t\r\n"), buf1, sizeof(buf1));
			EVP_PKEY *pk = pkey_of(&keys[id]);
			EVP_MD_CTX *ctx = EVP_MD_CTX_new();
			size_t slen = sizeof(buf2);

			if (n < 0 || EVP_DigestSignInit(ctx, NULL, EVP_sha256(), NULL, pk) != 1 ||
			    EVP_DigestSign(ctx, buf2, &slen, buf1, n) != 1) {
				printf("error isign\n");
			} else {
				printf("isign ");
				puthex(buf2, slen);
				printf("\n");
			}
			EVP_MD_CTX_free(ctx);
			EVP_PKEY_free(pk);
		} else if (strcmp(cmd, "iverify") == 0) {
			/* two independent verdicts over the given octets: the EVP interface, and
			 * SHA256() + ECDSA_verify() on a key decoded here (the status values -1/0/1 of the
			 * latter feed the model's ecdsa_verify oracle) */
			int kn = unhex(strtok(NULL, " \t\r\n"), buf3, sizeof(buf3));
			int n = unhex(strtok(NULL, " \t\r\n"), buf1, sizeof(buf1));
			int sn = unhex(strtok(NULL, " \t\r\n"), buf2, sizeof(buf2));
			const unsigned char *p = buf3;
			EVP_PKEY *pk = kn > 0 ? d2i_PUBKEY(NULL, &p, kn) : NULL;
			EVP_MD_CTX *ctx = EVP_MD_CTX_new();
			int st = -1, low = -1;
			EC_KEY *ek;

			if (pk && n >= 0 && sn >= 0 && EVP_DigestVerifyInit(ctx, NULL, EVP_sha256(), NULL, pk) == 1) {
				st = EVP_DigestVerify(ctx, buf2, sn, buf1, n);
				if (st != 1 && st != 0)
					st = -1;
			}
			p = buf3;
			ek = kn > 0 ? d2i_EC_PUBKEY(NULL, &p, kn) : NULL;
			if (ek && n >= 0 && sn >= 0) {
				unsigned char md[SHA256_DIGEST_LENGTH];

				SHA256(buf1, n, md);
				low = ECDSA_verify(0, md, SHA256_DIGEST_LENGTH, buf2, sn, ek);
			}
			printf("iverify %d %d\n", st, low);
			EVP_MD_CTX_free(ctx);
			if (pk)
				EVP_PKEY_free(pk);
			if (ek)
				EC_KEY_free(ek);
		} else if (strcmp(cmd, "loadpub") == 0) {
			/* would d2i_EC_PUBKEY + EC_KEY_check_key accept these SPKI_SIZE bytes? (OpenSSL only) */
			int kn = unhex(strtok(NULL, " \t\r\n"), buf3, sizeof(buf3));
			const unsigned char *p = buf3;
			EC_KEY *ek;
			int ok = 0;

			if (kn < SPKI_SIZE)
				memset(buf3 + (kn < 0 ? 0 : kn), 0, SPKI_SIZE - (kn < 0 ? 0 : kn));
			ek = d2i_EC_PUBKEY(NULL, &p, SPKI_SIZE);
			if (ek && EC_KEY_check_key(ek) == 1)
				ok = 1;
			printf("loadpub %d\n", ok);
			if (ek)
				EC_KEY_free(ek);
		} else if (strcmp(cmd, "derchk") == 0) {
			int sn = unhex(strtok(NULL, " \t\r\n"), buf2, sizeof(buf2));
			const unsigned char *p = buf2;
			ECDSA_SIG *s = sn > 0 ? d2i_ECDSA_SIG(NULL, &p, sn) : NULL;

			if (!s || p != buf2 + sn) {
				printf("der bad\n");
			} else {
				unsigned char *q = buf1;
				int m = i2d_ECDSA_SIG(s, &q);
				const BIGNUM *r, *ss;

				ECDSA_SIG_get0(s, &r, &ss);
				if (m != sn || memcmp(buf1, buf2, sn) != 0)
					printf("der noncanonical\n");
				else
					printf("der ok %d %d %d\n", sn, BN_num_bytes(r), BN_num_bytes(ss));
			}
			if (s)
				ECDSA_SIG_free(s);
		} else if (strcmp(cmd, "tclear") == 0) {
			spki_table_free(&table);
			spki_table_init(&table, NULL);
			printf("ok\n");
		} else if (strcmp(cmd, "tadd") == 0) {
			struct spki_record rec;
			uint32_t asn = (uint32_t)strtoul(strtok(NULL, " \t\r\n"), NULL, 10);
			int n1 = unhex(strtok(NULL, " \t\r\n"), buf1, sizeof(buf1));
			int n2 = unhex(strtok(NULL, " \t\r\n"), buf2, sizeof(buf2));

			memset(&rec, 0, sizeof(rec));
			if (n1 != SKI_SIZE || n2 < 0 || n2 > SPKI_SIZE) {
				printf("error tadd\n");
				continue;
			}
			rec.asn = asn;
			memcpy(rec.ski, buf1, SKI_SIZE);
			memcpy(rec.spki, buf2, n2);
			rec.socket = NULL;
			printf("tadd %d\n", spki_table_add_entry(&table, &rec));
		} else if (strcmp(cmd, "data") == 0) {
			unsigned long v[8];
			struct rtr_bgpsec_nlri *nl;
			int n;

			for (int i = 0; i < 8; i++)
				v[i] = strtoul(strtok(NULL, " \t\r\n"), NULL, 10);
			n = unhex(strtok(NULL, " \t\r\n"), buf1, sizeof(buf1));
			if (n < 0) {
				printf("error data\n");
				continue;
			}
			data_free();
			nl = rtr_bgpsec_nlri_new(n ? n : 1);
			nl->afi = (uint16_t)v[5];
			nl->safi = (uint8_t)v[6];
			nl->nlri_len = (uint8_t)v[7];
			memcpy(nl->nlri, buf1, n);
			data = rtr_bgpsec_new((uint8_t)v[0], (uint8_t)v[1], (uint16_t)v[2], (uint32_t)v[3], (uint32_t)v[4],
					      nl);
			printf("ok\n");
		} else if (strcmp(cmd, "sec") == 0) {
			unsigned long a = strtoul(strtok(NULL, " \t\r\n"), NULL, 10);
			unsigned long b = strtoul(strtok(NULL, " \t\r\n"), NULL, 10);
			unsigned long c = strtoul(strtok(NULL, " \t\r\n"), NULL, 10);

			rtr_bgpsec_append_sec_path_seg(data, rtr_bgpsec_new_secure_path_seg((uint8_t)a, (uint8_t)b,
											     (uint32_t)c));
			printf("ok\n");
		} else if (strcmp(cmd, "sig") == 0) {
			int n1 = unhex(strtok(NULL, " \t\r\n"), buf1, sizeof(buf1));
			int n2 = unhex(strtok(NULL, " \t\r\n"), buf2, sizeof(buf2));
			struct rtr_signature_seg *ss;

			if (n1 != SKI_SIZE || n2 < 0 || n2 > 65535) {
				printf("error sig\n");
				continue;
			}
			ss = rtr_bgpsec_new_signature_seg(buf1, (uint16_t)n2, buf2);
			/* append by hand: the API's append refuses sig_len 0 / an all-zero SKI, which the
			 * error-path cases need; keep the count exactly as the API would */
			ss->next = NULL;
			if (!data->sigs) {
				data->sigs = ss;
			} else {
				struct rtr_signature_seg *l = data->sigs;

				while (l->next)
					l = l->next;
				l->next = ss;
			}
			data->sigs_len++;
			printf("ok\n");
		} else if (strcmp(cmd, "counts") == 0) {
			data->path_len = (uint8_t)strtoul(strtok(NULL, " \t\r\n"), NULL, 10);
			data->sigs_len = (uint16_t)strtoul(strtok(NULL, " \t\r\n"), NULL, 10);
			printf("ok\n");
		} else if (strcmp(cmd, "validate") == 0) {
			int rc;

			cap_reset();
			rc = rtr_bgpsec_validate_as_path(data, &table);
			printf("validate %d ", rc);
			put_captured();
			printf("\n");
		} else if (strcmp(cmd, "sign") == 0 || strcmp(cmd, "sign_raw") == 0) {
			struct rtr_signature_seg *ns = NULL;
			uint8_t privbuf[512];
			int rc;

			memset(privbuf, 0, sizeof(privbuf));
			if (strcmp(cmd, "sign") == 0) {
				struct hkey *k = &keys[atoi(strtok(NULL, " \t\r\n"))];

				memcpy(privbuf, k->priv, k->priv_len);
			} else {
				int n = unhex(strtok(NULL, " \t\r\n"), privbuf, sizeof(privbuf));

				(void)n;
			}
			cap_reset();
			rc = rtr_bgpsec_generate_signature(data, privbuf, &ns);
			printf("sign %d ", rc);
			if (rc == RTR_BGPSEC_SUCCESS && ns) {
				puthex(ns->signature, ns->sig_len);
				rtr_bgpsec_free_signatures(ns);
			} else {
				printf("-");
				/* on RTR_BGPSEC_SIGNING_ERROR the library has already freed the segment */
				if (ns && rc != RTR_BGPSEC_SIGNING_ERROR)
					rtr_bgpsec_free_signatures(ns);
			}
			printf(" ");
			put_captured();
			printf("\n");
		} else if (strcmp(cmd, "align") == 0 || strcmp(cmd, "align!") == 0) {
			char *t = strtok(NULL, " \t\r\n");
			enum align_type ty = (t && t[0] == 'S') ? SIGNING : VALIDATION;
			size_t sz;
			struct stream *s;

			if (ty == VALIDATION && !data->sigs) {
				printf("align NULLSIGS\n");
				continue;
			}
			sz = req_stream_size(data, ty);
			if (sz > 65535 && strcmp(cmd, "align") == 0) {
				printf("align OVERFLOW %zu\n", sz);
				continue;
			}
			s = init_stream((uint16_t)(unsigned int)sz);
			align_byte_sequence(data, s, ty);
			printf("align %zu ", sz);
			puthex(get_stream_start(s), get_stream_size(s));
			printf("\n");
			free_stream(s);
		} else if (strcmp(cmd, "sigclass") == 0) {
			char *a = strtok(NULL, " \t\r\n"), *b = strtok(NULL, " \t\r\n");

			sig_min = a ? (unsigned int)atoi(a) : 0;
			sig_max = b ? (unsigned int)atoi(b) : 0;
			printf("sigclass %u %u\n", sig_min, sig_max);
		} else if (strcmp(cmd, "codes") == 0) {
			printf("codes NOT_VALID=%d VALID=%d SUCCESS=%d ERROR=%d LOAD_PUB_KEY_ERROR=%d LOAD_PRIV_KEY_ERROR=%d "
			       "ROUTER_KEY_NOT_FOUND=%d SIGNING_ERROR=%d UNSUPPORTED_ALGORITHM_SUITE=%d UNSUPPORTED_AFI=%d "
			       "WRONG_SEGMENT_COUNT=%d INVALID_ARGUMENTS=%d ALGORITHM_SUITE_1=%d IPV4=%d IPV6=%d "
			       "SECURE_PATH_SEG_SIZE=%d SKI_SIZE=%d\n",
			       RTR_BGPSEC_NOT_VALID, RTR_BGPSEC_VALID, RTR_BGPSEC_SUCCESS, RTR_BGPSEC_ERROR,
			       RTR_BGPSEC_LOAD_PUB_KEY_ERROR, RTR_BGPSEC_LOAD_PRIV_KEY_ERROR, RTR_BGPSEC_ROUTER_KEY_NOT_FOUND,
			       RTR_BGPSEC_SIGNING_ERROR, RTR_BGPSEC_UNSUPPORTED_ALGORITHM_SUITE, RTR_BGPSEC_UNSUPPORTED_AFI,
			       RTR_BGPSEC_WRONG_SEGMENT_COUNT, RTR_BGPSEC_INVALID_ARGUMENTS, RTR_BGPSEC_ALGORITHM_SUITE_1,
			       BGPSEC_IPV4, BGPSEC_IPV6, SECURE_PATH_SEG_SIZE, SKI_SIZE);
		} else {
			printf("error unknown-command %s\n", cmd);
		}
		fflush(stdout);
	}
	data_free();
	spki_table_free(&table);
	return 0;
}
