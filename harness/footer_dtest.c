/* footer_dtest.c - runs the real byte-order conversions of rtrlib/rtr/packets.c on buffers read from stdin, for
 * tools/footer_diff.py (which turns the results into Coq examples about the translated functions).
 * Input, one buffer per line:   H <hex>   a PDU as received: apply rtr_pdu_header_to_host_byte_order
 *                               F <hex>   a buffer whose header is in host order: rtr_pdu_check_size, and if accepted
 *                                         rtr_pdu_footer_to_host_byte_order and (Error Report) the load that
 *                                         rtr_handle_error_pdu does afterwards
 * Output per line:  H: <hex>      F: 0 | 1 <hex> [<len_err_txt>]
 */
#include "rtrlib/rtr/packets.c"

#include <stdio.h>

int main(void)
{
	static char line[2 * 4096 + 16];

	while (fgets(line, sizeof(line), stdin)) {
		static unsigned char buf[4096 + 8];
		size_t n = 0;

		for (char *p = line + 2; p[0] && p[1] && p[0] != '\n' && n < 4096; p += 2) {
			unsigned int v;

			if (sscanf(p, "%2x", &v) != 1)
				return 2;
			buf[n++] = (unsigned char)v;
		}
		if (line[0] == 'H') {
			rtr_pdu_header_to_host_byte_order(buf);
			for (size_t i = 0; i < n; i++)
				printf("%02x", buf[i]);
			printf("\n");
			continue;
		}
		bool ok = rtr_pdu_check_size((struct pdu_header *)buf);

		printf("%d", ok ? 1 : 0);
		if (ok) {
			rtr_pdu_footer_to_host_byte_order(buf);
			printf(" ");
			for (size_t i = 0; i < n; i++)
				printf("%02x", buf[i]);
			if (buf[1] == ERROR) {
				const struct pdu_error *pdu = (const void *)buf;

				printf(" %u", *((uint32_t *)(pdu->rest + pdu->len_enc_pdu)));
			}
		}
		printf("\n");
	}
	return 0;
}
