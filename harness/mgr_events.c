/* mgr_events.c - C15: drive the real connection manager (rtrlib/rtr_mgr.c, linked unchanged)
 * with scripted socket state changes.
 *
 * rtr_start / rtr_stop are replaced at link time (-Wl,--wrap=rtr_start,--wrap=rtr_stop) by
 * stubs that record the call and perform exactly the writes the originals in rtr/rtr.c perform
 * on the fields the manager reads (state, last_update, thread_id) plus the re-entrant SHUTDOWN
 * callback issued through the real rtr_change_socket_state.  No thread runs.  Everything else
 * (rtr_mgr_cb and its handlers, init/add/remove/start/stop, rtr_init, rtr_change_socket_state,
 * tommy list) is the shipped code, built with ASan+UBSan and assertions enabled.
 *
 * Script (stdin), one op per line:
 *   begin <id> | init <pref>:<nsock> ... | start | stop | add <pref> <nsock> | remove <pref>
 *   ev <pref> <k> <STATE>   the FSM thread of socket k of group <pref> calls rtr_change_socket_state
 *   lu <pref> <k> <0|1>     the FSM thread sets / clears last_update
 * Built with -DC15_STUBCHECK (and without --wrap) the program instead runs one fixed sequence of
 * rtr_start/rtr_stop calls on two sockets - one through the REAL functions of rtr/rtr.c (a real
 * thread, dummy transport whose open fails), one through the stubs - and prints what each observes:
 * the two halves must be identical (tools/props/C15.py compares them).
 *
 * Output: "> <op>" then status callbacks, start/stop records, result codes and the configuration
 * as presented by rtr_mgr_for_each_group.  Same format as ocaml/c15_driver.ml.                 */
#include "rtrlib/rtr_mgr_private.h"

#include "rtrlib/lib/alloc_utils_private.h"
#include "rtrlib/pfx/pfx_private.h"
#include "rtrlib/rtr/packets_private.h"
#include "rtrlib/rtr/rtr_private.h"
#include "rtrlib/spki/hashtable/ht-spkitable_private.h"
#include "rtrlib/transport/transport_private.h"

#include <stdarg.h>
#include <stdio.h>
#include <stdlib.h>
#include <string.h>

struct hsock {
	struct rtr_socket rtr; /* first member: a struct rtr_socket * is a struct hsock * */
	struct tr_socket tr;
	int pref;
	int idx;
};

#define MAX_HS 4096
static struct hsock *all_socks[MAX_HS];
static int n_socks;
static struct rtr_socket **all_arrays[MAX_HS];
static int n_arrays;

static struct rtr_mgr_config *conf;
/* "mute" ... "unmute": operations are executed but nothing is printed (used to replay a prefix) */
static int muted;

static void out(const char *fmt, ...)
{
	va_list ap;

	if (muted)
		return;
	va_start(ap, fmt);
	vprintf(fmt, ap);
	va_end(ap);
}

/* group (preference) whose socket event is being handled; -1 while an API call runs */
static int current_event_group = -1;

static const struct {
	enum rtr_socket_state st;
	const char *name;
} state_tab[] = {
	{RTR_CONNECTING, "CONNECTING"},
	{RTR_ESTABLISHED, "ESTABLISHED"},
	{RTR_RESET, "RESET"},
	{RTR_SYNC, "SYNC"},
	{RTR_FAST_RECONNECT, "FAST_RECONNECT"},
	{RTR_ERROR_NO_DATA_AVAIL, "ERROR_NO_DATA_AVAIL"},
	{RTR_ERROR_NO_INCR_UPDATE_AVAIL, "ERROR_NO_INCR_UPDATE_AVAIL"},
	{RTR_ERROR_FATAL, "ERROR_FATAL"},
	{RTR_ERROR_TRANSPORT, "ERROR_TRANSPORT"},
	{RTR_SHUTDOWN, "SHUTDOWN"},
	{RTR_CLOSED, "CLOSED"},
};
#define N_STATES ((int)(sizeof(state_tab) / sizeof(state_tab[0])))

static const char *state_name(enum rtr_socket_state st)
{
	for (int i = 0; i < N_STATES; i++)
		if (state_tab[i].st == st)
			return state_tab[i].name;
	return "?";
}

static const char *status_name(enum rtr_mgr_status st)
{
	switch (st) {
	case RTR_MGR_CLOSED:
		return "CLOSED";
	case RTR_MGR_CONNECTING:
		return "CONNECTING";
	case RTR_MGR_ESTABLISHED:
		return "ESTABLISHED";
	case RTR_MGR_ERROR:
		return "ERROR";
	}
	return "?";
}

/* ---- dummy transport: never opened ------------------------------------------------ */
static int d_open(void *s)
{
	(void)s;
	return TR_ERROR;
}
static void d_close(void *s)
{
	(void)s;
}
static void d_free(struct tr_socket *s)
{
	(void)s;
}
static int d_io(const void *s, void *b, const size_t l, const time_t t)
{
	(void)s;
	(void)b;
	(void)l;
	(void)t;
	return TR_ERROR;
}
static const char *d_ident(void *s)
{
	(void)s;
	return "dummy";
}

static struct rtr_socket **make_sockets(int pref, int n)
{
	struct rtr_socket **arr = malloc(sizeof(*arr) * (n > 0 ? n : 1));

	if (n_arrays < MAX_HS)
		all_arrays[n_arrays++] = arr;
	for (int i = 0; i < n; i++) {
		struct hsock *h = calloc(1, sizeof(*h));

		h->pref = pref;
		h->idx = i;
		h->tr.socket = h;
		h->tr.open_fp = d_open;
		h->tr.close_fp = d_close;
		h->tr.free_fp = d_free;
		h->tr.send_fp = (tr_send_fp)d_io;
		h->tr.recv_fp = (tr_recv_fp)d_io;
		h->tr.ident_fp = d_ident;
		h->rtr.tr_socket = &h->tr;
		arr[i] = &h->rtr;
		if (n_socks < MAX_HS)
			all_socks[n_socks++] = h;
	}
	return arr;
}

static void print_sock(const struct rtr_socket *s)
{
	out("%s/%d/%d", state_name(s->state), s->last_update != 0, s->thread_id != 0);
}

static void print_socks(const struct rtr_mgr_group *g)
{
	for (unsigned int i = 0; i < g->sockets_len; i++) {
		if (i)
			out(",");
		print_sock(g->sockets[i]);
	}
}

/* ---- the stubs ------------------------------------------------------------------- */
/* debug logging (stderr, one write per call) is silenced: -Wl,--wrap=lrtr_dbg */
void __wrap_lrtr_dbg(const char *frmt, ...)
{
	(void)frmt;
}

int __wrap_rtr_start(struct rtr_socket *rtr_socket)
{
	const struct hsock *h = (const struct hsock *)rtr_socket;

	if (rtr_socket->thread_id) {
		out("start %d.%d fail\n", h->pref, h->idx);
		return RTR_ERROR;
	}
	/* pthread_create(&thread_id, ..., rtr_fsm_start, ...) succeeded */
	rtr_socket->thread_id = (pthread_t)1;
	/* first statements of rtr_fsm_start: a socket in RTR_SHUTDOWN returns at once */
	if (rtr_socket->state != RTR_SHUTDOWN)
		rtr_socket->state = RTR_CONNECTING;
	out("start %d.%d ok\n", h->pref, h->idx);
	return RTR_SUCCESS;
}

void __wrap_rtr_stop(struct rtr_socket *rtr_socket)
{
	const struct hsock *h = (const struct hsock *)rtr_socket;

	if (current_event_group >= 0)
		out("stop %d.%d behalf=%d\n", h->pref, h->idx, current_event_group);
	else
		out("stop %d.%d behalf=api\n", h->pref, h->idx);
	rtr_change_socket_state(rtr_socket, RTR_SHUTDOWN);
	if (rtr_socket->thread_id != 0) {
		/* pthread_cancel + pthread_join: nothing to join here */
		tr_close(rtr_socket->tr_socket);
		rtr_socket->request_session_id = true;
		rtr_socket->serial_number = 0;
		rtr_socket->last_update = 0;
		pfx_table_src_remove(rtr_socket->pfx_table, rtr_socket);
		spki_table_src_remove(rtr_socket->spki_table, rtr_socket);
		rtr_socket->thread_id = 0;
		rtr_socket->state = RTR_CLOSED;
	}
}

/* ---- observation ------------------------------------------------------------------ */
static void status_cb(const struct rtr_mgr_group *group, enum rtr_mgr_status status, const struct rtr_socket *sock,
		      void *data)
{
	(void)data;
	out("status %d %s by=", group->preference, status_name(status));
	if (sock) {
		const struct hsock *h = (const struct hsock *)sock;

		out("%d.%d", h->pref, h->idx);
	} else {
		out("-");
	}
	out(" socks=");
	print_socks(group);
	out("\n");
}

static void dump_group(const struct rtr_mgr_group *g, void *data)
{
	(void)data;
	out(" %d:%s[", g->preference, status_name(g->status));
	print_socks(g);
	out("]");
}

static void dump_cfg(void)
{
	if (!conf) {
		out("cfg none\n");
		return;
	}
	out("cfg len=%u", conf->len);
	rtr_mgr_for_each_group(conf, dump_group, NULL);
	out("\n");
}

static struct rtr_mgr_group *find_group(int pref)
{
	tommy_node *node = tommy_list_head(&conf->groups->list);

	while (node) {
		struct rtr_mgr_group_node *gn = node->data;

		if (gn->group->preference == pref)
			return gn->group;
		node = node->next;
	}
	return NULL;
}

static void reset_all(void)
{
	if (conf) {
		rtr_mgr_free(conf);
		conf = NULL;
	}
	for (int i = 0; i < n_socks; i++)
		free(all_socks[i]);
	n_socks = 0;
	for (int i = 0; i < n_arrays; i++)
		free(all_arrays[i]);
	n_arrays = 0;
}

#ifdef C15_STUBCHECK
#include <unistd.h>
int __real_rtr_start(struct rtr_socket *s);
void __real_rtr_stop(struct rtr_socket *s);
/* without --wrap the plain names are the real functions */
int rtr_start(struct rtr_socket *s);
void rtr_stop(struct rtr_socket *s);

static char cb_log[2][512];
static struct hsock *sc_sock[2];
static volatile int sc_seen_error[2];

static void sc_cb(const struct rtr_socket *sock, const enum rtr_socket_state state, void *a, void *b)
{
	int w = (sock == &sc_sock[0]->rtr) ? 0 : 1;

	(void)a;
	(void)b;
	if (strlen(cb_log[w]) + 40 < sizeof(cb_log[w])) {
		strcat(cb_log[w], " ");
		strcat(cb_log[w], state_name(state));
	}
	if (state == RTR_ERROR_TRANSPORT)
		sc_seen_error[w] = 1;
}

static void sc_observe(int w, const char *what, int rc)
{
	struct rtr_socket *s = &sc_sock[w]->rtr;

	printf("%s rc=%d state=%s lu=%d th=%d cbs=[%s ]\n", what, rc, state_name(s->state), s->last_update != 0,
	       s->thread_id != 0, cb_log[w]);
	cb_log[w][0] = 0;
}

static int stubcheck(void)
{
	static struct pfx_table pfxt;
	static struct spki_table spkit;

	pfx_table_init(&pfxt, NULL);
	spki_table_init(&spkit, NULL);
	muted = 1; /* the stubs' own records are not part of this comparison */
	for (int w = 0; w < 2; w++) {
		struct rtr_socket **arr = make_sockets(w, 1);
		struct rtr_socket *s = arr[0];
		int rc;

		sc_sock[w] = (struct hsock *)s;
		rtr_init(s, NULL, &pfxt, &spkit, 3600, 7200, 600, RTR_INTERVAL_MODE_DEFAULT_MIN_MAX, sc_cb, NULL, NULL);
		printf("%s\n", w == 0 ? "real:" : "stub:");
		sc_observe(w, "init", 0);
		/* stop a socket that was never started */
		w == 0 ? rtr_stop(s) : __wrap_rtr_stop(s);
		sc_observe(w, "stop-never-started", 0);
		/* start it: the thread returns at once because the state is RTR_SHUTDOWN */
		rc = w == 0 ? rtr_start(s) : __wrap_rtr_start(s);
		if (w == 0)
			usleep(100000);
		sc_observe(w, "start-in-shutdown", rc);
		rc = w == 0 ? rtr_start(s) : __wrap_rtr_start(s);
		sc_observe(w, "start-again", rc);
		w == 0 ? rtr_stop(s) : __wrap_rtr_stop(s);
		sc_observe(w, "stop-dead-thread", 0);
		/* a real run: the dummy transport cannot be opened */
		rc = w == 0 ? rtr_start(s) : __wrap_rtr_start(s);
		if (w == 0) {
			for (int i = 0; i < 300 && !(sc_seen_error[0] && s->state == RTR_CONNECTING); i++)
				usleep(10000);
			usleep(50000);
		} else {
			rtr_change_socket_state(s, RTR_ERROR_TRANSPORT);
			rtr_change_socket_state(s, RTR_CONNECTING);
		}
		sc_observe(w, "start-run", rc);
		s->last_update = 1000;
		w == 0 ? rtr_stop(s) : __wrap_rtr_stop(s);
		sc_observe(w, "stop-running", 0);
		w == 0 ? rtr_stop(s) : __wrap_rtr_stop(s);
		sc_observe(w, "stop-closed", 0);
		rc = w == 0 ? rtr_start(s) : __wrap_rtr_start(s);
		if (w == 0)
			usleep(100000);
		sc_observe(w, "start-after-stop-closed", rc);
		w == 0 ? rtr_stop(s) : __wrap_rtr_stop(s);
		sc_observe(w, "final-stop", 0);
	}
	return 0;
}
#endif

int main(void)
{
	char line[512];

#ifdef C15_STUBCHECK
	return stubcheck();
#endif
	setvbuf(stdout, NULL, _IOFBF, 1 << 16);
	while (fgets(line, sizeof(line), stdin)) {
		char *w[64];
		int nw = 0;
		char *tok = strtok(line, " \t\r\n");

		while (tok && nw < 64) {
			w[nw++] = tok;
			tok = strtok(NULL, " \t\r\n");
		}
		if (nw == 0 || w[0][0] == '#')
			continue;
		if (!strcmp(w[0], "begin") || !strcmp(w[0], "unmute"))
			muted = 0;
		out(">");
		for (int i = 0; i < nw; i++)
			out(" %s", w[i]);
		out("\n");
		/* a crash inside the library must not lose what was printed before it */
		fflush(stdout);
		current_event_group = -1;

		if (!strcmp(w[0], "begin")) {
			reset_all();
		} else if (!strcmp(w[0], "mute")) {
			muted = 1;
		} else if (!strcmp(w[0], "unmute")) {
			muted = 0;
		} else if (!strcmp(w[0], "dump")) {
			dump_cfg();
		} else if (!strcmp(w[0], "init")) {
			struct rtr_mgr_group groups[64];
			int n = nw - 1;
			int rc;

			reset_all();
			for (int i = 0; i < n; i++) {
				int p = 0, ns = 0;

				sscanf(w[i + 1], "%d:%d", &p, &ns);
				memset(&groups[i], 0, sizeof(groups[i]));
				groups[i].preference = (uint8_t)p;
				groups[i].sockets_len = ns;
				groups[i].sockets = make_sockets(p, ns);
			}
			rc = rtr_mgr_init(&conf, groups, n, 3600, 7200, 600, NULL, NULL, status_cb, NULL);
			out("rc %d\n", rc);
			if (rc != RTR_SUCCESS && conf) {
				out("config_out-not-null-on-error\n");
				conf = NULL;
			}
			dump_cfg();
		} else if (!conf) {
			out("noconfig\n");
		} else if (!strcmp(w[0], "start") && nw == 1) {
			int rc = rtr_mgr_start(conf);

			out("rc %d\n", rc);
			dump_cfg();
		} else if (!strcmp(w[0], "stop") && nw == 1) {
			rtr_mgr_stop(conf);
			dump_cfg();
		} else if (!strcmp(w[0], "add") && nw == 3) {
			struct rtr_mgr_group g;
			int p = atoi(w[1]), ns = atoi(w[2]);

			if (ns < 1) {
				out("bad-op\n");
				continue;
			}
			memset(&g, 0, sizeof(g));
			g.preference = (uint8_t)p;
			g.sockets_len = ns;
			g.sockets = make_sockets(p, ns);
			int rc = rtr_mgr_add_group(conf, &g);

			out("rc %d\n", rc);
			dump_cfg();
		} else if (!strcmp(w[0], "remove") && nw == 2) {
			int rc = rtr_mgr_remove_group(conf, (unsigned int)atoi(w[1]));

			out("rc %d\n", rc);
			dump_cfg();
		} else if ((!strcmp(w[0], "ev") || !strcmp(w[0], "lu")) && nw == 4) {
			struct rtr_mgr_group *g = find_group(atoi(w[1]));
			int k = atoi(w[2]);
			int is_ev = !strcmp(w[0], "ev");
			int st = -1;

			if (is_ev) {
				for (int i = 0; i < N_STATES; i++)
					if (!strcmp(state_tab[i].name, w[3]))
						st = (int)state_tab[i].st;
				if (st < 0) {
					out("bad-op\n");
					continue;
				}
			}
			/* only the FSM thread of a started socket changes its state, and it never
			 * reports SHUTDOWN or CLOSED itself
			 */
			if (!g || k < 0 || (unsigned int)k >= g->sockets_len || g->sockets[k]->thread_id == 0 ||
			    (is_ev && (st == RTR_SHUTDOWN || st == RTR_CLOSED))) {
				out("ignored\n");
			} else if (is_ev) {
				current_event_group = g->preference;
				rtr_change_socket_state(g->sockets[k], (enum rtr_socket_state)st);
				current_event_group = -1;
			} else {
				g->sockets[k]->last_update = atoi(w[3]) ? 1000 : 0;
			}
			dump_cfg();
		} else {
			out("bad-op\n");
		}
	}
	reset_all();
	fflush(stdout);
	return 0;
}
