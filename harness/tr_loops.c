/* tr_loops.c - the real tr_send_all / tr_recv_all of /repo's transport.c against a scripted transport whose calls
 * take time (virtual clock): the loops must hand over / fetch exactly the bytes, and report success (> 0) only then,
 * however long the single calls take (C14_send_all, C04_recv_all_exact state this for the model, which has no clock in
 * its send path).
 *
 * stdin, one case per line:   send|recv <len> <timeout> <beh>@<secs> <beh>@<secs> ...
 *   beh > 0: the call accepts / delivers min(beh, asked) bytes;  beh < 0: it returns that error code;  then the clock
 *   advances by secs.  When the behaviours run out every further call takes everything at once.
 * stdout per case:            R <rc> <bytes moved> <calls> <negative timeouts seen>
 */
#include "rtrlib/transport/transport.c"

#include <stdio.h>
#include <stdlib.h>
#include <string.h>

static time_t vclock = 1000;
int __wrap_lrtr_get_monotonic_time(time_t *t)
{
	*t = vclock;
	return 0;
}

#define MAXB 4096
static long beh[MAXB], secs[MAXB];
static int nbeh, ibeh, calls, negto;
static size_t moved;
static unsigned char wire[70000], data[70000];

static int step(size_t len, time_t timeout, int sending, const void *src, void *dst)
{
	long b = ibeh < nbeh ? beh[ibeh] : 1000000;
	long s = ibeh < nbeh ? secs[ibeh] : 0;

	ibeh++;
	calls++;
	if (timeout < 0)
		negto++;
	vclock += s;
	if (b < 0)
		return (int)b;
	size_t n = len < (size_t)b ? len : (size_t)b;

	if (sending)
		memcpy(wire + moved, src, n);
	else
		memcpy(dst, data + moved, n);
	moved += n;
	return (int)n;
}

static int m_send(const void *s, const void *pdu, const size_t len, const time_t timeout)
{
	(void)s;
	return step(len, timeout, 1, pdu, NULL);
}

static int m_recv(const void *s, void *buf, const size_t len, const time_t timeout)
{
	(void)s;
	return step(len, timeout, 0, NULL, buf);
}

int main(void)
{
	static char line[1 << 16];
	struct tr_socket sock;

	memset(&sock, 0, sizeof(sock));
	sock.send_fp = (tr_send_fp)m_send;
	sock.recv_fp = (tr_recv_fp)m_recv;
	for (size_t i = 0; i < sizeof(data); i++)
		data[i] = (unsigned char)(i * 7 + 3);
	while (fgets(line, sizeof(line), stdin)) {
		char kind[8];
		unsigned long len;
		long timeout;
		int off = 0;

		if (sscanf(line, "%7s %lu %ld%n", kind, &len, &timeout, &off) != 3 || len >= sizeof(data))
			continue;
		nbeh = ibeh = calls = negto = 0;
		moved = 0;
		char *p = line + off;
		long b, s;
		int k;

		while (nbeh < MAXB && sscanf(p, " %ld@%ld%n", &b, &s, &k) == 2) {
			beh[nbeh] = b;
			secs[nbeh++] = s;
			p += k;
		}
		static unsigned char buf[70000];
		int rc;

		if (!strcmp(kind, "send")) {
			memcpy(buf, data, len);
			rc = tr_send_all(&sock, buf, len, timeout);
			/* what went out must be a prefix of the PDU */
			if (memcmp(wire, data, moved) != 0)
				rc = -999;
		} else {
			memset(buf, 0xee, len);
			rc = tr_recv_all(&sock, buf, len, timeout);
			if (memcmp(buf, data, moved) != 0)
				rc = -999;
		}
		printf("R %d %zu %d %d\n", rc, moved, calls, negto);
	}
	return 0;
}
