/* spki_ops.c - C10: drive the real spki_table_* functions from a line-oriented op script.
 *
 * Input (stdin), one op per line; T, A, B are table numbers 0..NT-1, src is a source number
 * (0 = NULL socket pointer, k>0 = address of the k-th fake socket), asn is a 32-bit number,
 * ski / spki are 32-bit identifiers expanded injectively into the 20 / 91 byte arrays
 * (low 16 bits at the front, high 16 bits at the very end, fixed pattern in between, so that
 * a comparison that looks at only part of the array is visible):
 *   add T asn ski spki src      spki_table_add_entry
 *   rm  T asn ski spki src      spki_table_remove_entry
 *   srcrm T src                 spki_table_src_remove
 *   get T asn ski               spki_table_get_all
 *   ski T ski                   spki_table_search_by_ski
 *   copy S D src                spki_table_copy_except_socket(S, D, src)   (S != D)
 *   swap A B                    spki_table_swap                            (A != B)
 *   diff N O src                spki_table_notify_diff(new=N, old=O, src)  (N != O)
 *   free T                      spki_table_free + spki_table_init (same update_fp)
 *   dump T                      walk of the table's list + tommy_hashlin_count (internal shape)
 *   hash asn                    tommy_inthash_u32(asn)  (prints "hash=<n>")
 * Output: exactly one line per input line:
 *   rc=<int> cb=[<table>:<+|->asn/ski/spki/src ...]            for add rm srcrm copy swap diff free
 *   rc=<int> res=[asn/ski/spki/src ...]                          for get ski (order as returned)
 *   count=<n> list=[asn/ski/spki/src ...]                        for dump
 *   bad <line>                                                   for anything not understood
 * Every table is created with the recording update_fp. */
#include "rtrlib/rtr/rtr_private.h"
/* the table implementation itself is compiled into this unit: gives access to struct key_entry */
#include "rtrlib/spki/hashtable/ht-spkitable.c"

#include <stdint.h>
#include <stdio.h>
#include <stdlib.h>
#include <string.h>

#define NT 8
#define NS 8

static struct spki_table tables[NT];
static struct rtr_socket socks[NS];

static char *cb_buf;
static size_t cb_len, cb_cap;

static void out_append(char **buf, size_t *len, size_t *cap, const char *s)
{
	size_t n = strlen(s);

	if (*len + n + 1 > *cap) {
		*cap = (*len + n + 1) * 2 + 256;
		*buf = realloc(*buf, *cap);
		if (!*buf) {
			fprintf(stderr, "harness: out of memory\n");
			exit(3);
		}
	}
	memcpy(*buf + *len, s, n + 1);
	*len += n;
}

static void enc(uint8_t *dst, size_t n, uint32_t id)
{
	size_t i;

	for (i = 0; i < n; i++)
		dst[i] = (uint8_t)(0xA5 ^ (i * 7));
	dst[0] = id & 0xff;
	dst[1] = (id >> 8) & 0xff;
	dst[n - 2] = (id >> 16) & 0xff;
	dst[n - 1] = (id >> 24) & 0xff;
}

/* returns 1 and the id if the array is a well-formed encoding */
static int dec(const uint8_t *src, size_t n, uint32_t *id)
{
	size_t i;

	for (i = 2; i < n - 2; i++)
		if (src[i] != (uint8_t)(0xA5 ^ (i * 7)))
			return 0;
	*id = (uint32_t)src[0] | ((uint32_t)src[1] << 8) | ((uint32_t)src[n - 2] << 16) | ((uint32_t)src[n - 1] << 24);
	return 1;
}

static const struct rtr_socket *sock_of(unsigned int s)
{
	return s == 0 ? NULL : &socks[s % NS];
}

static int src_of(const struct rtr_socket *p)
{
	if (!p)
		return 0;
	if (p >= socks && p < socks + NS)
		return (int)(p - socks);
	return -1;
}

static void fmt_record(char *out, size_t outsz, const uint8_t *ski, const uint8_t *spki, uint32_t asn,
		       const struct rtr_socket *sock)
{
	uint32_t a, b;
	char sa[64], sb[64];

	if (dec(ski, SKI_SIZE, &a))
		snprintf(sa, sizeof(sa), "%u", a);
	else
		snprintf(sa, sizeof(sa), "?%02x%02x..%02x%02x", ski[0], ski[1], ski[SKI_SIZE - 2], ski[SKI_SIZE - 1]);
	if (dec(spki, SPKI_SIZE, &b))
		snprintf(sb, sizeof(sb), "%u", b);
	else
		snprintf(sb, sizeof(sb), "?%02x%02x..%02x%02x", spki[0], spki[1], spki[SPKI_SIZE - 2],
			 spki[SPKI_SIZE - 1]);
	snprintf(out, outsz, "%u/%s/%s/%d", asn, sa, sb, src_of(sock));
}

static void recorder(struct spki_table *t, const struct spki_record rec, const bool added)
{
	char item[256], r[200];
	long ti = -1;

	if (t >= tables && t < tables + NT)
		ti = t - tables;
	fmt_record(r, sizeof(r), rec.ski, rec.spki, rec.asn, rec.socket);
	snprintf(item, sizeof(item), "%s%ld:%c%s", cb_len ? " " : "", ti, added ? '+' : '-', r);
	out_append(&cb_buf, &cb_len, &cb_cap, item);
}

static void mk_record(struct spki_record *r, uint32_t asn, uint32_t ski, uint32_t spki, unsigned int src)
{
	memset(r, 0, sizeof(*r));
	r->asn = asn;
	enc(r->ski, SKI_SIZE, ski);
	enc(r->spki, SPKI_SIZE, spki);
	r->socket = sock_of(src);
}

static void print_mut(int rc)
{
	printf("rc=%d cb=[%s]\n", rc, cb_len ? cb_buf : "");
}

static void print_res(int rc, struct spki_record *res, unsigned int n)
{
	unsigned int i;
	char r[200];

	printf("rc=%d res=[", rc);
	for (i = 0; i < n; i++) {
		fmt_record(r, sizeof(r), res[i].ski, res[i].spki, res[i].asn, res[i].socket);
		printf("%s%s", i ? " " : "", r);
	}
	printf("]\n");
}

int main(void)
{
	char line[512];
	int i;

	for (i = 0; i < NT; i++)
		spki_table_init(&tables[i], recorder);

	while (fgets(line, sizeof(line), stdin)) {
		char opn[16];
		unsigned long a = 0, b = 0, c = 0, d = 0, e = 0;
		int n;
		struct spki_record rec;
		int rc;

		cb_len = 0;
		if (cb_buf)
			cb_buf[0] = 0;
		/* strict tokenisation: an op word, then at most five decimal numbers of 1..10 digits that fit
		 * 32 bits; anything else is answered with "bad" */
		{
			char *tok[8];
			int nt_ = 0, okk = 1, k;
			char *p = line, *copy;
			unsigned long *dst[5] = {&a, &b, &c, &d, &e};

			line[strcspn(line, "\r\n")] = 0;
			copy = strdup(line);
			p = copy;
			while (*p && nt_ < 8) {
				while (*p == ' ' || *p == '\t')
					p++;
				if (!*p)
					break;
				tok[nt_++] = p;
				while (*p && *p != ' ' && *p != '\t')
					p++;
				if (*p)
					*p++ = 0;
			}
			if (nt_ < 1 || nt_ > 6 || strlen(tok[0]) > 15)
				okk = 0;
			for (k = 1; okk && k < nt_; k++) {
				size_t len = strlen(tok[k]);

				if (len < 1 || len > 10 || strspn(tok[k], "0123456789") != len ||
				    strtoull(tok[k], NULL, 10) > 4294967295ULL)
					okk = 0;
				else
					*dst[k - 1] = strtoul(tok[k], NULL, 10);
			}
			if (okk) {
				strcpy(opn, tok[0]);
				n = nt_;
			} else {
				n = 0;
			}
			free(copy);
		}
		if (n == 2 && !strcmp(opn, "hash")) {
			printf("hash=%u\n", (unsigned int)tommy_inthash_u32((tommy_uint32_t)a));
			fflush(stdout);
			continue;
		}
		if (n < 2 || a >= NT) {
			printf("bad %s\n", line);
			fflush(stdout);
			continue;
		}
		if (!strcmp(opn, "add") && n == 6) {
			mk_record(&rec, (uint32_t)b, (uint32_t)c, (uint32_t)d, (unsigned int)e);
			rc = spki_table_add_entry(&tables[a], &rec);
			print_mut(rc);
		} else if (!strcmp(opn, "rm") && n == 6) {
			mk_record(&rec, (uint32_t)b, (uint32_t)c, (uint32_t)d, (unsigned int)e);
			rc = spki_table_remove_entry(&tables[a], &rec);
			print_mut(rc);
		} else if (!strcmp(opn, "srcrm") && n == 3) {
			rc = spki_table_src_remove(&tables[a], sock_of((unsigned int)b));
			print_mut(rc);
		} else if (!strcmp(opn, "get") && n == 4) {
			struct spki_record *res = NULL;
			unsigned int cnt = 0;
			uint8_t ski[SKI_SIZE];

			enc(ski, SKI_SIZE, (uint32_t)c);
			rc = spki_table_get_all(&tables[a], (uint32_t)b, ski, &res, &cnt);
			print_res(rc, res, cnt);
			free(res);
		} else if (!strcmp(opn, "ski") && n == 3) {
			struct spki_record *res = NULL;
			unsigned int cnt = 0;
			uint8_t ski[SKI_SIZE];

			enc(ski, SKI_SIZE, (uint32_t)b);
			rc = spki_table_search_by_ski(&tables[a], ski, &res, &cnt);
			print_res(rc, res, cnt);
			free(res);
		} else if (!strcmp(opn, "copy") && n == 4 && b < NT && a != b) {
			rc = spki_table_copy_except_socket(&tables[a], &tables[b], (struct rtr_socket *)sock_of((unsigned int)c));
			print_mut(rc);
		} else if (!strcmp(opn, "swap") && n == 3 && b < NT && a != b) {
			spki_table_swap(&tables[a], &tables[b]);
			print_mut(0);
		} else if (!strcmp(opn, "diff") && n == 4 && b < NT && a != b) {
			spki_table_notify_diff(&tables[a], &tables[b], sock_of((unsigned int)c));
			print_mut(0);
		} else if (!strcmp(opn, "free") && n == 2) {
			spki_table_free(&tables[a]);
			spki_table_init(&tables[a], recorder);
			print_mut(0);
		} else if (!strcmp(opn, "dump") && n == 2) {
			tommy_node *nd;
			char r[200];
			int first = 1;

			printf("count=%u list=[", (unsigned int)tommy_hashlin_count(&tables[a].hashtable));
			for (nd = tommy_list_head(&tables[a].list); nd; nd = nd->next) {
				const struct key_entry *k = nd->data;

				fmt_record(r, sizeof(r), k->ski, k->spki, k->asn, k->socket);
				printf("%s%s", first ? "" : " ", r);
				first = 0;
			}
			printf("]\n");
		} else if (!strcmp(opn, "shape") && n == 2) {
			const tommy_hashlin *h = &tables[a].hashtable;

			printf("shape bit=%u low_max=%u split=%u state=%u\n", (unsigned int)h->bucket_bit, (unsigned int)h->low_max,
			       (unsigned int)h->split, (unsigned int)h->state);
		} else {
			printf("bad %s\n", line);
		}
		fflush(stdout);
	}
	for (i = 0; i < NT; i++)
		spki_table_free(&tables[i]);
	return 0;
}
