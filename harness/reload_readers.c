/* reload_readers.c - C06, supporting evidence (not the claim): reader threads validate a fixed query set and look
 * up router keys in the REAL tables while the REAL rtr socket thread (rtr_start -> rtr_fsm_start -> rtr_sync, from
 * /repo) performs full reloads from one data set to the next, driven by a scripted transport and a virtual clock
 * (same mock design as harness/rtr_run.c).
 *
 * Link with: -Wl,--wrap=lrtr_get_monotonic_time -Wl,--wrap=sleep ; built with ThreadSanitizer.
 *
 * The script names the data sets explicitly (for the SPEC answers, computed here by brute force) and contains the
 * bytes the cache sends.  Reload k replaces set k-1 by set k.  `ev mark s<k>` (processed by the transport before the
 * End-of-Data bytes of reload k are delivered) sets started=k; `ev mark d<k>` (processed at the first receive call
 * after the reload) sets done=k.  A reader notes d=done before a query and s=started after it; the answer must be
 * the SPEC answer under set k for some d <= k <= s - i.e. the complete OLD or the complete NEW set, never anything
 * else - and per reader and per table the k's must be choosable non-decreasing (never NEW and afterwards OLD).
 *
 * stdin:
 *   cfg <refresh> <expire> <retry> <mode>
 *   pre pfx <fam> <bits> <len> <max> <asn> <src> | pre key <asn> <kid> <src>     records of other sources (all sets)
 *   set <k> pfx <fam> <bits> <len> <max> <asn>   | set <k> key <asn> <kid>       data set k of this socket
 *   q <fam> <bits> <len> <asn> | k <asn> <kid>                                   reader queries
 *   open <0|1> ... ; ev data <hex> ; ev wait <secs> ; ev err <code> ; ev gate ; ev mark s<k> | d<k>
 *   readers <n>
 *   run
 * `ev gate`: the socket thread pauses inside the transport until the readers have been started (the first
 * synchronisation, which fills the empty table record by record, is not a reload).
 */
#include "rtrlib/lib/ip.h"
#include "rtrlib/pfx/pfx_private.h"
#include "rtrlib/pfx/trie/trie-pfx.h"
#include "rtrlib/rtr/packets_private.h"
#include "rtrlib/rtr/rtr_private.h"
#include "rtrlib/spki/hashtable/ht-spkitable_private.h"
#include "rtrlib/transport/transport.h"

#include <pthread.h>
#include <semaphore.h>
#include <stdarg.h>
#include <stdint.h>
#include <stdio.h>
#include <stdlib.h>
#include <string.h>
#include <time.h>
#include <unistd.h>

#define MAXSETS 2048
#define MAXQ 256

/* ---------- virtual clock ---------- */
static time_t vclock = 1000;

int __wrap_lrtr_get_monotonic_time(time_t *seconds)
{
	*seconds = vclock;
	return 0;
}

unsigned int __wrap_sleep(unsigned int s)
{
	vclock += s;
	return 0;
}

static int verbose;
static void tr(const char *fmt, ...)
{
	va_list ap;

	if (!verbose)
		return;
	va_start(ap, fmt);
	vfprintf(stderr, fmt, ap);
	va_end(ap);
	fputc('\n', stderr);
}

/* ---------- data ---------- */
struct rec {
	int v6;
	uint32_t a[4];
	unsigned len, max;
	uint32_t asn;
	unsigned long src;
};
struct key {
	uint32_t asn;
	unsigned long kid, src;
};
struct query {
	int is_key;
	struct rec r;
	struct key key;
};
struct dset {
	struct rec *r;
	int rn, rcap;
	struct key *k;
	int kn, kcap;
};
static struct dset pre, sets[MAXSETS];
static int nsets;
static struct query qs[MAXQ];
static int nq;
struct ans {
	int8_t state;
	int16_t n; /* reasons (when not VALID) / keys */
};
static struct ans *expect; /* [nsets * nq] */

static void bits_to_rec(const char *bits, struct rec *r)
{
	memset(r->a, 0, sizeof(r->a));
	for (int i = 0; bits[i] && i < 128; i++)
		if (bits[i] == '1')
			r->a[i / 32] |= (uint32_t)1 << (31 - (i % 32));
}

static void kid_to_key(unsigned long kid, uint8_t *ski, uint8_t *spki)
{
	for (int i = 0; i < SKI_SIZE; i++)
		ski[i] = (uint8_t)((kid >> 8) + i * 7);
	for (int i = 0; i < SPKI_SIZE; i++)
		spki[i] = (uint8_t)(kid + i * 3);
}

static void push_rec(struct dset *d, const struct rec *r)
{
	if (d->rn == d->rcap) {
		d->rcap = d->rcap ? 2 * d->rcap : 64;
		d->r = realloc(d->r, d->rcap * sizeof(*d->r));
	}
	d->r[d->rn++] = *r;
}

static void push_key(struct dset *d, const struct key *k)
{
	if (d->kn == d->kcap) {
		d->kcap = d->kcap ? 2 * d->kcap : 64;
		d->k = realloc(d->k, d->kcap * sizeof(*d->k));
	}
	d->k[d->kn++] = *k;
}

static int covers(const struct rec *r, const struct rec *q)
{
	if (r->v6 != q->v6 || r->len > q->len)
		return 0;
	for (unsigned i = 0; i < r->len; i++) {
		uint32_t m = (uint32_t)1 << (31 - (i % 32));

		if ((r->a[i / 32] & m) != (q->a[i / 32] & m))
			return 0;
	}
	return 1;
}

/* SPEC: RFC 6811 by brute force over (records of other sources) + (set k) */
static void spec_answer(int k, const struct query *q, struct ans *a)
{
	const struct dset *ds[2] = {&pre, &sets[k]};

	memset(a, 0, sizeof(*a));
	if (q->is_key) {
		uint8_t ski[SKI_SIZE], s2[SKI_SIZE], spki[SPKI_SIZE];

		kid_to_key(q->key.kid, ski, spki);
		for (int d = 0; d < 2; d++)
			for (int i = 0; i < ds[d]->kn; i++) {
				kid_to_key(ds[d]->k[i].kid, s2, spki);
				if (ds[d]->k[i].asn == q->key.asn && !memcmp(ski, s2, SKI_SIZE))
					a->n++;
			}
		return;
	}
	int cov = 0, match = 0;

	for (int d = 0; d < 2; d++)
		for (int i = 0; i < ds[d]->rn; i++) {
			const struct rec *r = &ds[d]->r[i];

			if (covers(r, &q->r)) {
				cov++;
				if (r->asn != 0 && r->asn == q->r.asn && q->r.len <= r->max)
					match = 1;
			}
		}
	a->state = !cov ? BGP_PFXV_STATE_NOT_FOUND : (match ? BGP_PFXV_STATE_VALID : BGP_PFXV_STATE_INVALID);
	a->n = (int16_t)cov;
}

static int ans_eq(const struct query *q, const struct ans *x, const struct ans *y)
{
	if (q->is_key)
		return x->n == y->n;
	if (x->state != y->state)
		return 0;
	return x->state == BGP_PFXV_STATE_VALID || x->n == y->n;
}

/* ---------- the real tables, socket, transport ---------- */
static struct rtr_socket rsock;
static struct tr_socket trsock;
static struct pfx_table pfxt;
static struct spki_table spkit;

static const struct rtr_socket *src_ptr(unsigned long s)
{
	if (s == 1)
		return &rsock;
	if (s == 0)
		return NULL; /* added by the application itself */
	return (const struct rtr_socket *)(uintptr_t)(0x10000 + s * 64);
}

static void impl_answer(const struct query *q, struct ans *a)
{
	memset(a, 0, sizeof(*a));
	if (q->is_key) {
		uint8_t ski[SKI_SIZE], spki[SPKI_SIZE];
		struct spki_record *res = NULL;
		unsigned int n = 0;

		kid_to_key(q->key.kid, ski, spki);
		if (spki_table_get_all(&spkit, q->key.asn, ski, &res, &n) != SPKI_SUCCESS)
			n = 9999;
		free(res);
		a->n = (int16_t)n;
		return;
	}
	struct lrtr_ip_addr ip;
	struct pfx_record *reason = NULL;
	unsigned int rl = 0;
	enum pfxv_state st = BGP_PFXV_STATE_NOT_FOUND;

	memset(&ip, 0, sizeof(ip));
	if (q->r.v6) {
		ip.ver = LRTR_IPV6;
		memcpy(ip.u.addr6.addr, q->r.a, sizeof(q->r.a));
	} else {
		ip.ver = LRTR_IPV4;
		ip.u.addr4.addr = q->r.a[0];
	}
	if (pfx_table_validate_r(&pfxt, &reason, &rl, q->r.asn, &ip, (uint8_t)q->r.len, &st) != PFX_SUCCESS)
		st = (enum pfxv_state)77;
	free(reason);
	a->state = (int8_t)st;
	a->n = (int16_t)rl;
}

enum evkind { EV_DATA, EV_ERR, EV_WAIT, EV_GATE, EV_MARK };
struct ev {
	enum evkind kind;
	unsigned char *data;
	size_t len, off;
	long val;
	int done_mark;
};
static struct ev *evs;
static size_t nev, iev;
static int opens[4096];
static size_t nopen, iopen;

static sem_t sem_gate, sem_go;
static int ended;                             /* relaxed atomic */
static unsigned long ep_started, ep_done;     /* relaxed atomics: see the header comment */
static int stop_flag;
static unsigned long cb_count;

static void end_run(const char *why)
{
	tr("END %s", why);
	__atomic_store_n(&ended, 1, __ATOMIC_RELAXED);
	sem_post(&sem_gate);
	pthread_exit(NULL);
}

static int m_open(void *s)
{
	(void)s;
	if (iopen >= nopen)
		end_run("open-script-exhausted");
	return opens[iopen++] ? TR_SUCCESS : TR_ERROR;
}

static void m_close(void *s)
{
	(void)s;
}

static void m_free(struct tr_socket *s)
{
	(void)s;
}

static const char *m_ident(void *s)
{
	(void)s;
	return "mock";
}

static int m_send(const void *s, const void *pdu, const size_t len, const time_t timeout)
{
	(void)s;
	(void)pdu;
	(void)timeout;
	tr("SEND %zu", len);
	return (int)len;
}

static int m_recv(const void *s, void *buf, const size_t len, const time_t timeout)
{
	(void)s;
	time_t left = timeout < 0 ? 0 : timeout;

	for (;;) {
		if (iev >= nev)
			end_run("recv-script-exhausted");
		struct ev *e = &evs[iev];

		if (e->kind == EV_MARK) {
			if (e->done_mark)
				__atomic_store_n(&ep_done, (unsigned long)e->val, __ATOMIC_RELAXED);
			else
				__atomic_store_n(&ep_started, (unsigned long)e->val, __ATOMIC_RELAXED);
			iev++;
			continue;
		}
		if (e->kind == EV_GATE) {
			iev++;
			sem_post(&sem_gate);
			sem_wait(&sem_go);
			continue;
		}
		if (e->kind == EV_WAIT) {
			if (e->val <= left) {
				vclock += e->val;
				left -= e->val;
				iev++;
				continue;
			}
			e->val -= left;
			vclock += left;
			return TR_WOULDBLOCK;
		}
		if (e->kind == EV_ERR) {
			iev++;
			return (int)-e->val;
		}
		size_t avail = e->len - e->off;
		size_t n = avail < len ? avail : len;

		memcpy(buf, e->data + e->off, n);
		e->off += n;
		if (e->off == e->len)
			iev++;
		return (int)n;
	}
}

static void pfx_cb(struct pfx_table *t, const struct pfx_record rec, const bool added)
{
	(void)t;
	(void)rec;
	(void)added;
	cb_count++; /* only the socket thread gets here */
}

static void spki_cb(struct spki_table *t, const struct spki_record rec, const bool added)
{
	(void)t;
	(void)rec;
	(void)added;
	cb_count++;
}

static void state_cb(const struct rtr_socket *s, const enum rtr_socket_state st, void *a, void *b)
{
	(void)s;
	(void)a;
	(void)b;
	tr("STATE %d", (int)st);
}

/* ---------- readers ---------- */
struct rstat {
	int id;
	unsigned seed;
	unsigned long nops, nkey, inflight, bad_neither, bad_order, differing, saw_new_first;
	unsigned long floor_pfx, floor_key;
};

static pthread_mutex_t out_mx = PTHREAD_MUTEX_INITIALIZER;

static void *reader(void *arg)
{
	struct rstat *st = arg;
	unsigned x = st->seed;

	while (!__atomic_load_n(&stop_flag, __ATOMIC_RELAXED)) {
		x = x * 1103515245u + 12345u;
		int qi = (x >> 16) % nq;
		const struct query *q = &qs[qi];
		struct ans a;
		unsigned long d = __atomic_load_n(&ep_done, __ATOMIC_RELAXED);

		impl_answer(q, &a);
		unsigned long s = __atomic_load_n(&ep_started, __ATOMIC_RELAXED);
		unsigned long *floor = q->is_key ? &st->floor_key : &st->floor_pfx;
		long pick = -1, any = -1;

		if (s >= (unsigned long)nsets)
			s = nsets - 1;
		for (unsigned long k = d; k <= s; k++)
			if (ans_eq(q, &a, &expect[k * nq + qi])) {
				if (any < 0)
					any = (long)k;
				if (k >= *floor && pick < 0)
					pick = (long)k;
			}
		st->nops++;
		st->nkey += q->is_key;
		st->inflight += s > d;
		if (s > d && !ans_eq(q, &expect[d * nq + qi], &expect[s * nq + qi]))
			st->differing++;
		if (any < 0) {
			st->bad_neither++;
			pthread_mutex_lock(&out_mx);
			printf("VIOLATION kind=neither-old-nor-new reader=%d query=%d window=[%lu,%lu] got=%d/%d old=%d/%d new=%d/%d\n",
			       st->id, qi, d, s, a.state, a.n, expect[d * nq + qi].state, expect[d * nq + qi].n,
			       expect[s * nq + qi].state, expect[s * nq + qi].n);
			fflush(stdout);
			pthread_mutex_unlock(&out_mx);
		} else if (pick < 0) {
			st->bad_order++;
			pthread_mutex_lock(&out_mx);
			printf("VIOLATION kind=new-then-old reader=%d query=%d window=[%lu,%lu] got=%d/%d already-seen-set=%lu\n",
			       st->id, qi, d, s, a.state, a.n, *floor);
			fflush(stdout);
			pthread_mutex_unlock(&out_mx);
		} else {
			*floor = (unsigned long)pick;
		}
	}
	return NULL;
}

static size_t unhex(const char *h, unsigned char **out)
{
	size_t n = strlen(h) / 2;

	*out = malloc(n + 1);
	for (size_t i = 0; i < n; i++) {
		unsigned int v;

		sscanf(h + 2 * i, "%2x", &v);
		(*out)[i] = (unsigned char)v;
	}
	return n;
}

static unsigned long check_all(int k, const char *when)
{
	unsigned long bad = 0;

	for (int i = 0; i < nq; i++) {
		struct ans a;

		impl_answer(&qs[i], &a);
		if (!ans_eq(&qs[i], &a, &expect[k * nq + i])) {
			bad++;
			printf("VIOLATION kind=sequential-%s query=%d set=%d got=%d/%d expected=%d/%d\n", when, i, k, a.state, a.n,
			       expect[k * nq + i].state, expect[k * nq + i].n);
		}
	}
	return bad;
}

int main(void)
{
	static char line[1 << 20];
	unsigned int refresh = 3600, expire = 7200, retry = 600, mode = 0;
	size_t capev = 0;
	int readers = 4;

	verbose = getenv("RELOAD_VERBOSE") != NULL;
	sem_init(&sem_gate, 0, 0);
	sem_init(&sem_go, 0, 0);
	pfx_table_init(&pfxt, pfx_cb);
	spki_table_init(&spkit, spki_cb);
	while (fgets(line, sizeof(line), stdin)) {
		char w1[32] = "", w2[32] = "", w3[32] = "", bits[200] = "";

		sscanf(line, "%31s %31s %31s", w1, w2, w3);
		if (!strcmp(w1, "cfg")) {
			sscanf(line, "%*s %u %u %u %u", &refresh, &expire, &retry, &mode);
		} else if (!strcmp(w1, "pre") && !strcmp(w2, "pfx")) {
			struct rec r;
			char fam[4];

			memset(&r, 0, sizeof(r));
			sscanf(line, "%*s %*s %3s %199s %u %u %u %lu", fam, bits, &r.len, &r.max, &r.asn, &r.src);
			r.v6 = fam[0] == '6';
			bits_to_rec(bits, &r);
			push_rec(&pre, &r);
		} else if (!strcmp(w1, "pre") && !strcmp(w2, "key")) {
			struct key k;

			sscanf(line, "%*s %*s %u %lu %lu", &k.asn, &k.kid, &k.src);
			push_key(&pre, &k);
		} else if (!strcmp(w1, "set")) {
			int k = atoi(w2);

			if (k < 0 || k >= MAXSETS)
				continue;
			if (k + 1 > nsets)
				nsets = k + 1;
			if (!strcmp(w3, "pfx")) {
				struct rec r;
				char fam[4];

				memset(&r, 0, sizeof(r));
				sscanf(line, "%*s %*s %*s %3s %199s %u %u %u", fam, bits, &r.len, &r.max, &r.asn);
				r.v6 = fam[0] == '6';
				r.src = 1;
				bits_to_rec(bits, &r);
				push_rec(&sets[k], &r);
			} else if (!strcmp(w3, "key")) {
				struct key kk;

				sscanf(line, "%*s %*s %*s %u %lu", &kk.asn, &kk.kid);
				kk.src = 1;
				push_key(&sets[k], &kk);
			}
		} else if (!strcmp(w1, "q") && nq < MAXQ) {
			struct query *q = &qs[nq++];

			memset(q, 0, sizeof(*q));
			q->r.v6 = w2[0] == '6';
			sscanf(line, "%*s %*s %199s %u %u", bits, &q->r.len, &q->r.asn);
			bits_to_rec(bits, &q->r);
		} else if (!strcmp(w1, "k") && nq < MAXQ) {
			struct query *q = &qs[nq++];

			memset(q, 0, sizeof(*q));
			q->is_key = 1;
			sscanf(line, "%*s %u %lu", &q->key.asn, &q->key.kid);
		} else if (!strcmp(w1, "open")) {
			char *p = line + 4;
			int v, n;

			while (sscanf(p, " %d%n", &v, &n) == 1) {
				opens[nopen++] = v;
				p += n;
			}
		} else if (!strcmp(w1, "readers")) {
			readers = atoi(w2);
		} else if (!strcmp(w1, "ev")) {
			if (nev == capev) {
				capev = capev ? 2 * capev : 1024;
				evs = realloc(evs, capev * sizeof(*evs));
			}
			struct ev *e = &evs[nev++];

			memset(e, 0, sizeof(*e));
			if (!strcmp(w2, "data")) {
				char *h = strstr(line, "data") + 5;

				h[strcspn(h, "\r\n ")] = 0;
				e->kind = EV_DATA;
				e->len = unhex(h, &e->data);
				if (e->len == 0)
					nev--;
			} else if (!strcmp(w2, "err")) {
				e->kind = EV_ERR;
				e->val = atol(w3);
			} else if (!strcmp(w2, "wait")) {
				e->kind = EV_WAIT;
				e->val = atol(w3);
			} else if (!strcmp(w2, "gate")) {
				e->kind = EV_GATE;
			} else if (!strcmp(w2, "mark")) {
				e->kind = EV_MARK;
				e->done_mark = w3[0] == 'd';
				e->val = atol(w3 + 1);
			} else {
				nev--;
			}
		} else if (!strcmp(w1, "run")) {
			break;
		}
	}
	if (!nq || nsets < 2) {
		printf("ERROR need queries and at least two sets\n");
		return 2;
	}
	expect = calloc((size_t)nsets * nq, sizeof(*expect));
	for (int k = 0; k < nsets; k++)
		for (int i = 0; i < nq; i++)
			spec_answer(k, &qs[i], &expect[k * nq + i]);
	/* records of other sources, put in without callbacks */
	pfxt.update_fp = NULL;
	spkit.update_fp = NULL;
	for (int i = 0; i < pre.rn; i++) {
		struct pfx_record p;

		memset(&p, 0, sizeof(p));
		if (pre.r[i].v6) {
			p.prefix.ver = LRTR_IPV6;
			memcpy(p.prefix.u.addr6.addr, pre.r[i].a, sizeof(pre.r[i].a));
		} else {
			p.prefix.ver = LRTR_IPV4;
			p.prefix.u.addr4.addr = pre.r[i].a[0];
		}
		p.min_len = pre.r[i].len;
		p.max_len = pre.r[i].max;
		p.asn = pre.r[i].asn;
		p.socket = src_ptr(pre.r[i].src);
		pfx_table_add(&pfxt, &p);
	}
	for (int i = 0; i < pre.kn; i++) {
		struct spki_record s;

		memset(&s, 0, sizeof(s));
		s.asn = pre.k[i].asn;
		kid_to_key(pre.k[i].kid, s.ski, s.spki);
		s.socket = src_ptr(pre.k[i].src);
		spki_table_add_entry(&spkit, &s);
	}
	pfxt.update_fp = pfx_cb;
	spkit.update_fp = spki_cb;

	trsock.socket = NULL;
	trsock.open_fp = m_open;
	trsock.close_fp = m_close;
	trsock.free_fp = m_free;
	trsock.send_fp = (tr_send_fp)m_send;
	trsock.recv_fp = (tr_recv_fp)m_recv;
	trsock.ident_fp = m_ident;
	memset(&rsock, 0, sizeof(rsock));
	if (rtr_init(&rsock, &trsock, &pfxt, &spkit, refresh, expire, retry, mode, state_cb, NULL, NULL) != RTR_SUCCESS) {
		printf("ERROR rtr_init\n");
		return 2;
	}
	if (rtr_start(&rsock) != RTR_SUCCESS) {
		printf("ERROR rtr_start\n");
		return 2;
	}
	sem_wait(&sem_gate); /* first synchronisation done (or the script ended early) */
	unsigned long seqbad = 0;
	pthread_t *rt = calloc(readers, sizeof(*rt));
	struct rstat *rs = calloc(readers, sizeof(*rs));
	int started = 0;

	if (!__atomic_load_n(&ended, __ATOMIC_RELAXED)) {
		seqbad += check_all(0, "before");
		for (int i = 0; i < readers; i++) {
			rs[i].id = i;
			rs[i].seed = 7919u * (unsigned)(i + 1);
			pthread_create(&rt[i], NULL, reader, &rs[i]);
		}
		started = 1;
		struct timespec ts = {0, 20000000};

		nanosleep(&ts, NULL); /* let the readers get going */
		sem_post(&sem_go);
	}
	while (!__atomic_load_n(&ended, __ATOMIC_RELAXED)) {
		struct timespec ts = {0, 2000000};

		nanosleep(&ts, NULL);
	}
	pthread_join(rsock.thread_id, NULL);
	__atomic_store_n(&stop_flag, 1, __ATOMIC_RELAXED);
	struct rstat t;

	memset(&t, 0, sizeof(t));
	for (int i = 0; started && i < readers; i++) {
		pthread_join(rt[i], NULL);
		t.nops += rs[i].nops;
		t.nkey += rs[i].nkey;
		t.inflight += rs[i].inflight;
		t.differing += rs[i].differing;
		t.bad_neither += rs[i].bad_neither;
		t.bad_order += rs[i].bad_order;
	}
	unsigned long last = __atomic_load_n(&ep_done, __ATOMIC_RELAXED);

	if (last < (unsigned long)nsets)
		seqbad += check_all((int)last, "after");
	printf("DONE readers=%d reader_ops=%lu key_ops=%lu during_reload=%lu during_reload_answer_differs=%lu neither=%lu "
	       "new_then_old=%lu sequential_bad=%lu reloads_done=%lu sets=%d queries=%d callbacks=%lu state=%d\n",
	       readers, t.nops, t.nkey, t.inflight, t.differing, t.bad_neither, t.bad_order, seqbad, last, nsets, nq, cb_count,
	       (int)rsock.state);
	return 0;
}
