/* iptext.c - C19: drive the address <-> text conversion of rtrlib (public API in
 * rtrlib/lib/ip.h) and the platform's inet_pton/inet_ntop on the same inputs.
 *
 * stdin, one op per line:
 *   to4 <u32 decimal> <buflen>
 *   to6 <w0> .. <w7> (hex words) <buflen>
 *   from <string; bytes outside 0x21..0x7e and '\' written as \xHH>
 * stdout, one line per op:
 *   to4|to6 rc=<r> out=<text> n=<bytes stored> canary=ok|BAD nt=<inet_ntop text>
 *           back=<library parse of out> pton=<inet_pton parse of out> cmp=<lrtr_ip_str_cmp>
 *   from r0=<res> r1=<res> p4=<inet_pton AF_INET> p6=<inet_pton AF_INET6>
 *        r0/r1: the library run twice, the stack below the caller and the output struct
 *        pre-filled with 0x00 resp. 0xA5; res = -1 | 4:<addr> | 6:<w0>:..:<w7>
 *        (built with clang -fsanitize=memory a word whose bytes are uninitialised prints as ?)
 */
#include "rtrlib/lib/ip.h"

#include <arpa/inet.h>
#include <stdio.h>
#include <stdlib.h>
#include <string.h>

#if defined(__clang__) && defined(__has_feature)
#if __has_feature(memory_sanitizer)
#include <sanitizer/msan_interface.h>
#define HAVE_MSAN 1
#endif
#endif

#define AREA 512
#define FILL 0xEE

static unsigned char area[AREA];

static void put_escaped(const unsigned char *s, size_t n)
{
	for (size_t i = 0; i < n; i++) {
		if (s[i] >= 0x21 && s[i] <= 0x7e && s[i] != '\\')
			putchar(s[i]);
		else
			printf("\\x%02x", s[i]);
	}
}

static size_t unescape(const char *in, char *out)
{
	size_t n = 0;

	while (*in) {
		if (in[0] == '\\' && in[1] == 'x' && in[2] && in[3]) {
			char h[3] = {in[2], in[3], 0};

			out[n++] = (char)strtoul(h, NULL, 16);
			in += 4;
		} else {
			out[n++] = *in++;
		}
	}
	out[n] = 0;
	return n;
}

/* overwrite the stack region that the next call will use */
static void __attribute__((noinline)) dirty_stack(int pat)
{
	volatile unsigned char junk[4096];

	for (size_t i = 0; i < sizeof(junk); i++)
		junk[i] = (unsigned char)pat;
}

static void show_res(int rc, const struct lrtr_ip_addr *ip)
{
	if (rc != 0) {
		printf("%d", rc);
	} else if (ip->ver == LRTR_IPV4) {
		printf("4:%08x", ip->u.addr4.addr);
	} else if (ip->ver == LRTR_IPV6) {
		printf("6");
		for (int i = 0; i < 8; i++) {
			uint32_t x = ip->u.addr6.addr[i / 2];
#ifdef HAVE_MSAN
			/* little-endian host: the high half-word of addr[k] is bytes 2..3 */
			const unsigned char *p = (const unsigned char *)&ip->u.addr6.addr[i / 2] + ((i % 2) ? 0 : 2);

			if (__msan_test_shadow(p, 2) != -1) {
				printf(":?");
				continue;
			}
#endif
			printf(":%x", (i % 2) ? (x & 0xffff) : (x >> 16));
		}
	} else {
		printf("ver?%d", (int)ip->ver);
	}
}

static int __attribute__((noinline)) parse_with(const char *s, struct lrtr_ip_addr *ip, int pat)
{
	memset(ip, pat, sizeof(*ip));
	dirty_stack(pat);
	return lrtr_ip_str_to_addr(s, ip);
}

static void show_pton4(const char *s)
{
	unsigned char b[4];

	if (inet_pton(AF_INET, s, b) == 1)
		printf("%02x%02x%02x%02x", b[0], b[1], b[2], b[3]);
	else
		printf("-");
}

static void show_pton6(const char *s)
{
	unsigned char b[16];

	if (inet_pton(AF_INET6, s, b) == 1) {
		for (int i = 0; i < 8; i++)
			printf("%s%x", i ? ":" : "", b[2 * i] << 8 | b[2 * i + 1]);
	} else {
		printf("-");
	}
}

static void do_to(const char *op, struct lrtr_ip_addr *ip, unsigned long len)
{
	int rc;
	size_t n = 0;
	int canary = 1;
	char nt[64] = "-";

	memset(area, FILL, sizeof(area));
	rc = lrtr_ip_addr_to_str(ip, (char *)area, (unsigned int)len);
	for (size_t i = 0; i < AREA; i++) {
		if (area[i] != FILL) {
			n = i + 1;
			if (i >= len)
				canary = 0;
		}
	}
	printf("%s rc=%d out=", op, rc);
	if (n > 0 && memchr(area, 0, n))
		put_escaped(area, strlen((char *)area));
	else
		put_escaped(area, n);
	printf(" n=%zu canary=%s", n, canary ? "ok" : "BAD");
	if (ip->ver == LRTR_IPV4) {
		uint32_t be = htonl(ip->u.addr4.addr);

		inet_ntop(AF_INET, &be, nt, sizeof(nt));
	} else {
		uint32_t be[4];

		for (int i = 0; i < 4; i++)
			be[i] = htonl(ip->u.addr6.addr[i]);
		inet_ntop(AF_INET6, be, nt, sizeof(nt));
	}
	printf(" nt=%s", nt);
	if (rc == 0 && n > 0 && memchr(area, 0, n)) {
		struct lrtr_ip_addr back;
		char text[AREA];
		int r;

		strcpy(text, (char *)area);
		r = parse_with(text, &back, 0xA5);
		printf(" back=");
		show_res(r, &back);
		printf(" pton=");
		if (ip->ver == LRTR_IPV4) {
			printf("4:");
			show_pton4(text);
		} else {
			printf("6:");
			show_pton6(text);
		}
		printf(" cmp=%d", (int)lrtr_ip_str_cmp(ip, text));
	} else {
		printf(" back=none pton=none cmp=none");
	}
	printf("\n");
}

int main(void)
{
	static char line[8192], str[8192];

	while (fgets(line, sizeof(line), stdin)) {
		size_t l = strlen(line);

		while (l && (line[l - 1] == '\n' || line[l - 1] == '\r'))
			line[--l] = 0;
		if (!strncmp(line, "to4 ", 4)) {
			unsigned long a, len;
			struct lrtr_ip_addr ip;

			if (sscanf(line + 4, "%lu %lu", &a, &len) != 2) {
				printf("bad-op\n");
				continue;
			}
			memset(&ip, 0, sizeof(ip));
			ip.ver = LRTR_IPV4;
			ip.u.addr4.addr = (uint32_t)a;
			do_to("to4", &ip, len);
		} else if (!strncmp(line, "to6 ", 4)) {
			unsigned int w[8];
			unsigned long len;
			struct lrtr_ip_addr ip;

			if (sscanf(line + 4, "%x %x %x %x %x %x %x %x %lu", &w[0], &w[1], &w[2], &w[3], &w[4], &w[5],
				   &w[6], &w[7], &len) != 9) {
				printf("bad-op\n");
				continue;
			}
			memset(&ip, 0, sizeof(ip));
			ip.ver = LRTR_IPV6;
			for (int i = 0; i < 4; i++)
				ip.u.addr6.addr[i] = (w[2 * i] & 0xffff) << 16 | (w[2 * i + 1] & 0xffff);
			do_to("to6", &ip, len);
		} else if (!strncmp(line, "from", 4)) {
			struct lrtr_ip_addr ip0, ip1;
			int r0, r1;

			unescape(l > 5 ? line + 5 : "", str);
			r0 = parse_with(str, &ip0, 0x00);
			r1 = parse_with(str, &ip1, 0xA5);
			printf("from r0=");
			show_res(r0, &ip0);
			printf(" r1=");
			show_res(r1, &ip1);
			printf(" p4=");
			show_pton4(str);
			printf(" p6=");
			show_pton6(str);
			printf("\n");
		} else {
			printf("bad-op\n");
		}
		fflush(stdout);
	}
	return 0;
}
