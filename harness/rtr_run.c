/* rtr_run.c - run the real RTR socket state machine (rtr_start thread, rtr.c/packets.c from /repo)
 * against a scripted transport, a virtual clock and recording callbacks; print a trace.
 *
 * Link with: -Wl,--wrap=lrtr_get_monotonic_time -Wl,--wrap=sleep
 *
 * Script (stdin):
 *   cfg <refresh> <expire> <retry> <mode>
 *   pre pfx <fam> <bits> <len> <max> <asn> <src>     records of other sources (src >= 2), added before the run
 *   pre key <asn> <kid> <src>
 *   open <0|1> ...            results of successive tr_open calls (when exhausted the run ends)
 *   send <k|e<code>> ...      behaviour of successive tr_send calls: accept at most k bytes / fail with -code
 *                             (when exhausted every call accepts everything)
 *   ev data <hex>             next chunk the cache delivers
 *   ev err <code>             tr_recv fails with -code (1 error, 2 would-block handled by "wait", 3 intr, 4 closed)
 *   ev wait <secs>            nothing arrives for that long
 *   ev stop                   the application stops the socket (rtr_stop) and starts it again
 *   run
 * The run ends when the receive script or the open list is exhausted; then the final state is dumped.
 */
#include "rtrlib/spki/hashtable/ht-spkitable.c"

#include "rtrlib/pfx/pfx_private.h"
#include "rtrlib/pfx/trie/trie-pfx.h"
#include "rtrlib/rtr/rtr_private.h"
#include "rtrlib/rtr/packets_private.h"
#include "rtrlib/transport/transport.h"

#include <pthread.h>
#include <semaphore.h>
#include <stdint.h>
#include <stdio.h>
#include <stdlib.h>
#include <string.h>
#include <unistd.h>

/* ---------- virtual clock ---------- */
static time_t vclock = 1000;

int __wrap_lrtr_get_monotonic_time(time_t *seconds)
{
	*seconds = vclock;
	return 0;
}

static void tr(const char *fmt, ...);

unsigned int __wrap_sleep(unsigned int s)
{
	tr("SLEEP %u", s);
	vclock += s;
	return 0;
}

/* ---------- trace ---------- */
#include <stdarg.h>
static void tr(const char *fmt, ...)
{
	va_list ap;

	va_start(ap, fmt);
	vprintf(fmt, ap);
	va_end(ap);
	printf("\n");
	fflush(stdout);
}

/* ---------- script ---------- */
enum evkind { EV_DATA, EV_ERR, EV_WAIT, EV_STOP };
struct ev {
	enum evkind kind;
	unsigned char *data;
	size_t len, off;
	long val;
};
static struct ev *evs;
static size_t nev, iev;
static int opens[4096];
static size_t nopen, iopen;
static long sends[65536];
static size_t nsend, isend;

static sem_t sem_parked, sem_go;
/* `stopcb <n>`: the n-th update callback made by the socket thread holds that thread inside the apply phase until the
 * main thread has entered rtr_stop() (a stop that arrives in the middle of applying a response) */
static long stopcb_at;
static volatile long cb_count;
static volatile int stopcb_fired, stop_entered;
static void stopcb_hook(void);
static volatile int ended;

static struct rtr_socket rsock;
static struct tr_socket trsock;
static struct pfx_table pfxt;
static struct spki_table spkit;

static const struct rtr_socket *src_ptr(unsigned long s)
{
	if (s == 1)
		return &rsock;
	if (s == 0)
		return NULL; /* a record added by the application itself: no socket */
	return (const struct rtr_socket *)(uintptr_t)(0x10000 + s * 64);
}

static unsigned long src_id(const struct rtr_socket *p)
{
	if (p == &rsock)
		return 1;
	if (!p)
		return 0;
	return ((uintptr_t)p - 0x10000) / 64;
}

static void end_run(const char *why)
{
	tr("END %s", why);
	ended = 1;
	pthread_exit(NULL);
}

/* ---------- mock transport ---------- */
static int m_open(void *s)
{
	(void)s;
	if (iopen >= nopen)
		end_run("open-script-exhausted");
	int ok = opens[iopen++];

	tr("OPEN %s t=%ld", ok ? "ok" : "fail", (long)vclock);
	return ok ? TR_SUCCESS : TR_ERROR;
}

static void m_close(void *s)
{
	(void)s;
	tr("CLOSE");
}

static void m_free(struct tr_socket *s)
{
	(void)s;
}

static const char *m_ident(void *s)
{
	(void)s;
	return "mock";
}

static void hex(char *out, const unsigned char *b, size_t n)
{
	for (size_t i = 0; i < n; i++)
		sprintf(out + 2 * i, "%02x", b[i]);
	out[2 * n] = 0;
}

static int m_send(const void *s, const void *pdu, const size_t len, const time_t timeout)
{
	(void)s;
	(void)timeout;
	static char buf[2 * 8192 + 1];
	long beh = isend < nsend ? sends[isend++] : 1000000;

	if (beh < 0) {
		tr("SENDFAIL %ld", beh);
		return (int)beh;
	}
	size_t n = len < (size_t)beh ? len : (size_t)beh;

	if (n > 8192)
		n = 8192;
	hex(buf, pdu, n);
	tr("SEND %s", buf);
	return (int)n;
}

static int m_recv(const void *s, void *buf, const size_t len, const time_t timeout)
{
	(void)s;
	time_t left = timeout < 0 ? 0 : timeout;

	for (;;) {
		if (iev >= nev)
			end_run("recv-script-exhausted");
		struct ev *e = &evs[iev];

		if (e->kind == EV_WAIT) {
			if (e->val <= left) {
				vclock += e->val;
				left -= e->val;
				iev++;
				continue;
			}
			e->val -= left;
			vclock += left;
			tr("RECV timeout=%ld -> WOULDBLOCK t=%ld", (long)timeout, (long)vclock);
			return TR_WOULDBLOCK;
		}
		if (e->kind == EV_ERR) {
			iev++;
			tr("RECV timeout=%ld -> ERR %ld", (long)timeout, -e->val);
			return (int)-e->val;
		}
		if (e->kind == EV_STOP) {
			iev++;
			tr("RECV timeout=%ld -> STOP", (long)timeout);
			sem_post(&sem_parked);
			for (;;)
				pause(); /* cancellation point; rtr_stop cancels us here */
		}
		size_t avail = e->len - e->off;
		size_t n = avail < len ? avail : len;

		memcpy(buf, e->data + e->off, n);
		e->off += n;
		if (e->off == e->len)
			iev++;
		tr("RECV timeout=%ld -> %zu", (long)timeout, n);
		return (int)n;
	}
}

/* ---------- recording callbacks ---------- */
static int fmt_rec(char *out, const struct pfx_record *r)
{
	char bits[129];
	int n;

	if (r->prefix.ver == LRTR_IPV6) {
		for (int i = 0; i < 128; i++)
			bits[i] = (r->prefix.u.addr6.addr[i / 32] >> (31 - (i % 32))) & 1 ? '1' : '0';
		n = 128;
	} else {
		for (int i = 0; i < 32; i++)
			bits[i] = (r->prefix.u.addr4.addr >> (31 - i)) & 1 ? '1' : '0';
		n = 32;
	}
	bits[n] = 0;
	return sprintf(out, "%c:%s/%u-%u:%u:%lu", r->prefix.ver == LRTR_IPV6 ? '6' : '4', bits, r->min_len, r->max_len,
		       r->asn, src_id(r->socket));
}

static int fmt_key(char *out, uint32_t asn, const uint8_t *ski, const uint8_t *spki, const struct rtr_socket *sock)
{
	char a[2 * SKI_SIZE + 1], b[2 * SPKI_SIZE + 1];

	hex(a, ski, SKI_SIZE);
	hex(b, spki, SPKI_SIZE);
	return sprintf(out, "K:%u:%s:%s:%lu", asn, a, b, src_id(sock));
}

static void pfx_cb(struct pfx_table *t, const struct pfx_record rec, const bool added)
{
	char b[256];

	(void)t;
	fmt_rec(b, &rec);
	tr("PFXCB %c%s", added ? '+' : '-', b);
	stopcb_hook();
}

static void spki_cb(struct spki_table *t, const struct spki_record rec, const bool added)
{
	char b[512];

	(void)t;
	fmt_key(b, rec.asn, rec.ski, rec.spki, rec.socket);
	tr("KEYCB %c%s", added ? '+' : '-', b);
	stopcb_hook();
}

static void state_cb(const struct rtr_socket *s, const enum rtr_socket_state st, void *a, void *b)
{
	(void)s;
	(void)a;
	(void)b;
	tr("STATE %d", (int)st);
}

/* ---------- dump ---------- */
static char *dump_lines[1 << 16];
static size_t ndump;

static void dump_pfx(const struct pfx_record *r, void *d)
{
	char b[256];

	(void)d;
	fmt_rec(b, r);
	dump_lines[ndump++] = strdup(b);
}

static int cmpstr(const void *a, const void *b)
{
	return strcmp(*(char *const *)a, *(char *const *)b);
}

static void dump(const char *tag)
{
	tr("DUMP %s state=%d version=%u session=%u reqsess=%d serial=%u last_update=%ld refresh=%u expire=%u retry=%u resetting=%d t=%ld",
	   tag, (int)rsock.state, rsock.version, rsock.session_id, (int)rsock.request_session_id,
	   rsock.serial_number, (long)rsock.last_update, rsock.refresh_interval, rsock.expire_interval,
	   rsock.retry_interval, (int)rsock.is_resetting, (long)vclock);
	ndump = 0;
	pfx_table_for_each_ipv4_record(&pfxt, dump_pfx, NULL);
	pfx_table_for_each_ipv6_record(&pfxt, dump_pfx, NULL);
	tommy_node *n = tommy_list_head(&spkit.list);

	while (n) {
		struct key_entry *k = n->data;
		char b[512];

		fmt_key(b, k->asn, k->ski, k->spki, k->socket);
		dump_lines[ndump++] = strdup(b);
		n = n->next;
	}
	qsort(dump_lines, ndump, sizeof(char *), cmpstr);
	for (size_t i = 0; i < ndump; i++) {
		tr("REC %s", dump_lines[i]);
		free(dump_lines[i]);
	}
	tr("ENDDUMP");
}

/* ---------- helpers for the script ---------- */
static void bits_to_addr(const char *fam, const char *bits, struct lrtr_ip_addr *a)
{
	memset(a, 0, sizeof(*a));
	if (fam[0] == '6') {
		a->ver = LRTR_IPV6;
		for (int i = 0; i < 128 && bits[i]; i++)
			if (bits[i] == '1')
				a->u.addr6.addr[i / 32] |= (uint32_t)1 << (31 - (i % 32));
	} else {
		a->ver = LRTR_IPV4;
		for (int i = 0; i < 32 && bits[i]; i++)
			if (bits[i] == '1')
				a->u.addr4.addr |= (uint32_t)1 << (31 - i);
	}
}

void kid_to_key(unsigned long kid, uint8_t *ski, uint8_t *spki)
{
	for (int i = 0; i < SKI_SIZE; i++)
		ski[i] = (uint8_t)((kid >> 8) + i * 7);
	for (int i = 0; i < SPKI_SIZE; i++)
		spki[i] = (uint8_t)(kid + i * 3);
}

static size_t unhex(const char *h, unsigned char **out)
{
	size_t n = strlen(h) / 2;

	*out = malloc(n + 1);
	for (size_t i = 0; i < n; i++) {
		unsigned int v;

		sscanf(h + 2 * i, "%2x", &v);
		(*out)[i] = (unsigned char)v;
	}
	return n;
}

static void stopcb_hook(void)
{
	if (!stopcb_at || stopcb_fired || !rsock.thread_id || !pthread_equal(pthread_self(), rsock.thread_id))
		return;
	if (++cb_count != stopcb_at)
		return;
	stopcb_fired = 1;
	tr("STOPCB");
	while (!stop_entered) {
		struct timespec ts = {0, 1000000};

		nanosleep(&ts, NULL);
	}
	/* give rtr_stop() time to get as far as it gets without this thread */
	struct timespec ts = {0, 40000000};

	nanosleep(&ts, NULL);
}

int main(void)
{
	static char line[1 << 23];
	unsigned int refresh = 3600, expire = 7200, retry = 600, mode = 0;
	size_t capev = 0;

	sem_init(&sem_parked, 0, 0);
	sem_init(&sem_go, 0, 0);
	pfx_table_init(&pfxt, pfx_cb);
	spki_table_init(&spkit, spki_cb);
	while (fgets(line, sizeof(line), stdin)) {
		char w1[32] = "", w2[32] = "";

		sscanf(line, "%31s %31s", w1, w2);
		if (!strcmp(w1, "stopcb")) {
			stopcb_at = atol(w2);
		} else if (!strcmp(w1, "cfg")) {
			sscanf(line, "%*s %u %u %u %u", &refresh, &expire, &retry, &mode);
		} else if (!strcmp(w1, "pre") && !strcmp(w2, "pfx")) {
			char fam[4], bits[256];
			unsigned int len, mx;
			unsigned long asn, src;
			struct pfx_record r;

			sscanf(line, "%*s %*s %3s %255s %u %u %lu %lu", fam, bits, &len, &mx, &asn, &src);
			bits_to_addr(fam, bits, &r.prefix);
			r.min_len = len;
			r.max_len = mx;
			r.asn = asn;
			r.socket = src_ptr(src);
			pfxt.update_fp = NULL;
			pfx_table_add(&pfxt, &r);
			pfxt.update_fp = pfx_cb;
		} else if (!strcmp(w1, "pre") && !strcmp(w2, "key")) {
			unsigned long asn, kid, src;
			struct spki_record r;

			sscanf(line, "%*s %*s %lu %lu %lu", &asn, &kid, &src);
			r.asn = asn;
			kid_to_key(kid, r.ski, r.spki);
			r.socket = src_ptr(src);
			spkit.update_fp = NULL;
			spki_table_add_entry(&spkit, &r);
			spkit.update_fp = spki_cb;
		} else if (!strcmp(w1, "open")) {
			char *p = line + 4;
			int v, n;

			while (sscanf(p, " %d%n", &v, &n) == 1) {
				opens[nopen++] = v;
				p += n;
			}
		} else if (!strcmp(w1, "send")) {
			char *p = line + 4;
			char tok[32];
			int n;

			while (sscanf(p, " %31s%n", tok, &n) == 1) {
				sends[nsend++] = tok[0] == 'e' ? -atol(tok + 1) : atol(tok);
				p += n;
			}
		} else if (!strcmp(w1, "ev")) {
			if (nev == capev) {
				capev = capev ? 2 * capev : 1024;
				evs = realloc(evs, capev * sizeof(*evs));
			}
			struct ev *e = &evs[nev++];

			memset(e, 0, sizeof(*e));
			if (!strcmp(w2, "data")) {
				char *h = strstr(line, "data") + 5;

				h[strcspn(h, "\r\n ")] = 0;
				e->kind = EV_DATA;
				e->len = unhex(h, &e->data);
				if (e->len == 0)
					nev--;
			} else if (!strcmp(w2, "err")) {
				e->kind = EV_ERR;
				sscanf(line, "%*s %*s %ld", &e->val);
			} else if (!strcmp(w2, "wait")) {
				e->kind = EV_WAIT;
				sscanf(line, "%*s %*s %ld", &e->val);
			} else if (!strcmp(w2, "stop")) {
				e->kind = EV_STOP;
			}
		} else if (!strcmp(w1, "run")) {
			break;
		}
	}
	trsock.socket = NULL;
	trsock.open_fp = m_open;
	trsock.close_fp = m_close;
	trsock.free_fp = m_free;
	trsock.send_fp = (tr_send_fp)m_send;
	trsock.recv_fp = (tr_recv_fp)m_recv;
	trsock.ident_fp = m_ident;
	memset(&rsock, 0, sizeof(rsock));
	int rc = rtr_init(&rsock, &trsock, &pfxt, &spkit, refresh, expire, retry, mode, state_cb, NULL, NULL);

	tr("INIT %d", rc);
	if (rc != RTR_SUCCESS)
		return 0;
	dump("init");
	for (;;) {
		if (rtr_start(&rsock) != RTR_SUCCESS) {
			tr("STARTFAIL");
			break;
		}
		/* wait until the thread either parks at a stop event or ends */
		for (;;) {
			struct timespec ts = {0, 2000000};

			if (sem_trywait(&sem_parked) == 0)
				break;
			if (ended)
				break;
			if (stopcb_fired == 1)
				break;
			nanosleep(&ts, NULL);
		}
		if (ended) {
			pthread_join(rsock.thread_id, NULL);
			break;
		}
		tr("STOPPING");
		if (stopcb_fired == 1) {
			stopcb_fired = 2;
			stop_entered = 1;
		}
		rtr_stop(&rsock);
		dump("stopped");
	}
	dump("final");
	return 0;
}
