/* conc_stress.c - C16, supporting evidence (not the claim): N reader threads validate / look up router keys /
 * enumerate the REAL tables of /repo while ONE writer thread performs a scripted, cyclic operation sequence.
 *
 * Built with ThreadSanitizer: every TSan report is a data race on the real code.
 * Linearizability: the writer keeps two counters, `started` (incremented before an operation) and `done`
 * (after it).  A reader notes d = done before its call and s = started after its return; its result must equal
 * the SPEC answer (brute force over the record set, computed in this file, no table code involved) for the
 * table contents after k writer operations, for SOME d <= k <= s.  The counters are relaxed atomics on purpose:
 * acquire/release counters would add happens-before edges and hide races from TSan (the stamps are valid on
 * x86-TSO because the table functions are opaque calls).
 *
 * stdin:
 *   op a4|a6|r4|r6 <bits> <len> <max> <asn> <src>    writer: pfx_table_add / pfx_table_remove
 *   op ka|kr <asn> <kid> <src>                        writer: spki_table_add_entry / spki_table_remove_entry
 *   op sp|sk <src>                                    writer: pfx_table_src_remove / spki_table_src_remove
 *   q  <4|6> <bits> <len> <asn>                       reader query: pfx_table_validate_r
 *   k  <asn> <kid>                                    reader query: spki_table_get_all / spki_table_search_by_ski
 *   run <readers> <milliseconds> <seed> <enumerate 0|1> <diff 0|1>
 *       diff=1: one more thread calls spki_table_notify_diff(shared table, private table, source 9) in a loop
 * The op list must be cyclic (its last operation restores the contents before its first one); the writer
 * repeats it until the time is up.  Output: MISMATCH / SEQ-MISMATCH lines, then one DONE line with counts.
 */
#include "rtrlib/lib/ip.h"
#include "rtrlib/pfx/pfx_private.h"
#include "rtrlib/pfx/trie/trie-pfx.h"
#include "rtrlib/rtr/rtr.h"
#include "rtrlib/spki/hashtable/ht-spkitable_private.h"

#include <pthread.h>
#include <stdint.h>
#include <stdio.h>
#include <stdlib.h>
#include <string.h>
#include <time.h>

#define MAXOPS 4096
#define MAXQ 256

struct rec {
	int v6;
	uint32_t a[4];
	unsigned len, max;
	uint32_t asn;
	unsigned long src;
};
struct key {
	uint32_t asn;
	unsigned long kid, src;
};
enum opk { O_ADD, O_REM, O_KADD, O_KREM, O_SRCP, O_SRCK };
struct op {
	enum opk k;
	struct rec r;
	struct key key;
};
struct query {
	int is_key;
	struct rec r; /* v6, a, len, asn */
	struct key key;
};

static struct op ops[MAXOPS];
static int nops;
static struct query qs[MAXQ];
static int nq;

/* SPEC answers per version (0..nops) */
struct ans {
	int8_t state;     /* pfxv_state */
	int16_t nreason;  /* records of the covering nodes walked (only compared when not VALID) */
	int16_t nkeys;    /* get_all */
	int16_t nski;     /* search_by_ski */
};
static struct ans *expect; /* [(nops+1) * nq] */
static uint32_t *exp_cnt4, *exp_cnt6, *exp_sum4, *exp_sum6, *exp_nkeys; /* [nops+1] */

static struct pfx_table pfxt;
static struct spki_table spkit;

static int stop_flag; /* relaxed atomic */
static int with_enum = 1, with_diff;
static unsigned long ver_started, ver_done; /* accessed with relaxed atomics only */

static const struct rtr_socket *src_ptr(unsigned long s)
{
	return (const struct rtr_socket *)(uintptr_t)(0x10000 + s * 64);
}

static void kid_to_key(unsigned long kid, uint8_t *ski, uint8_t *spki)
{
	for (int i = 0; i < SKI_SIZE; i++)
		ski[i] = (uint8_t)((kid >> 8) + i * 7);
	for (int i = 0; i < SPKI_SIZE; i++)
		spki[i] = (uint8_t)(kid + i * 3);
}

static void bits_to_rec(const char *bits, struct rec *r)
{
	memset(r->a, 0, sizeof(r->a));
	for (int i = 0; bits[i] && i < 128; i++)
		if (bits[i] == '1')
			r->a[i / 32] |= (uint32_t)1 << (31 - (i % 32));
}

static void rec_to_addr(const struct rec *r, struct lrtr_ip_addr *a)
{
	memset(a, 0, sizeof(*a));
	if (r->v6) {
		a->ver = LRTR_IPV6;
		memcpy(a->u.addr6.addr, r->a, sizeof(r->a));
	} else {
		a->ver = LRTR_IPV4;
		a->u.addr4.addr = r->a[0];
	}
}

static void rec_to_pfx(const struct rec *r, struct pfx_record *p)
{
	rec_to_addr(r, &p->prefix);
	p->min_len = r->len;
	p->max_len = r->max;
	p->asn = r->asn;
	p->socket = src_ptr(r->src);
}

static uint32_t rec_hash(int v6, const uint32_t *a, unsigned len, unsigned max, uint32_t asn, unsigned long src)
{
	uint32_t h = 2166136261u;
	uint32_t w[8] = {(uint32_t)v6, a[0], a[1], a[2], a[3], len * 256 + max, asn, (uint32_t)src};

	for (int i = 0; i < 8; i++) {
		h ^= w[i];
		h *= 16777619u;
		h ^= h >> 13;
	}
	return h;
}

/* ---------------- SPEC: sets of records, RFC 6811 by brute force ---------------- */
static struct rec set_r[MAXOPS];
static int set_rn;
static struct key set_k[MAXOPS];
static int set_kn;

static int same_rec(const struct rec *x, const struct rec *y)
{
	return x->v6 == y->v6 && !memcmp(x->a, y->a, sizeof(x->a)) && x->len == y->len && x->max == y->max &&
	       x->asn == y->asn && x->src == y->src;
}

static int covers(const struct rec *r, const struct rec *q)
{
	if (r->v6 != q->v6 || r->len > q->len)
		return 0;
	for (unsigned i = 0; i < r->len; i++) {
		uint32_t m = (uint32_t)1 << (31 - (i % 32));

		if ((r->a[i / 32] & m) != (q->a[i / 32] & m))
			return 0;
	}
	return 1;
}

static void spec_apply(const struct op *o)
{
	if (o->k == O_SRCP) {
		for (int i = 0; i < set_rn;)
			if (set_r[i].src == o->r.src)
				set_r[i] = set_r[--set_rn];
			else
				i++;
		return;
	}
	if (o->k == O_SRCK) {
		for (int i = 0; i < set_kn;)
			if (set_k[i].src == o->key.src)
				set_k[i] = set_k[--set_kn];
			else
				i++;
		return;
	}
	if (o->k == O_ADD) {
		for (int i = 0; i < set_rn; i++)
			if (same_rec(&set_r[i], &o->r))
				return;
		set_r[set_rn++] = o->r;
	} else if (o->k == O_REM) {
		for (int i = 0; i < set_rn; i++)
			if (same_rec(&set_r[i], &o->r)) {
				set_r[i] = set_r[--set_rn];
				return;
			}
	} else if (o->k == O_KADD) {
		for (int i = 0; i < set_kn; i++)
			if (set_k[i].asn == o->key.asn && set_k[i].kid == o->key.kid && set_k[i].src == o->key.src)
				return;
		set_k[set_kn++] = o->key;
	} else {
		for (int i = 0; i < set_kn; i++)
			if (set_k[i].asn == o->key.asn && set_k[i].kid == o->key.kid && set_k[i].src == o->key.src) {
				set_k[i] = set_k[--set_kn];
				return;
			}
	}
}

static void spec_answer(const struct query *q, struct ans *a)
{
	memset(a, 0, sizeof(*a));
	if (q->is_key) {
		uint8_t ski[SKI_SIZE], spki[SPKI_SIZE], s2[SKI_SIZE];

		kid_to_key(q->key.kid, ski, spki);
		for (int i = 0; i < set_kn; i++) {
			kid_to_key(set_k[i].kid, s2, spki);
			if (!memcmp(ski, s2, SKI_SIZE)) {
				a->nski++;
				if (set_k[i].asn == q->key.asn)
					a->nkeys++;
			}
		}
		return;
	}
	int cov = 0, match = 0;

	for (int i = 0; i < set_rn; i++)
		if (covers(&set_r[i], &q->r)) {
			cov++;
			if (set_r[i].asn != 0 && set_r[i].asn == q->r.asn && q->r.len <= set_r[i].max)
				match = 1;
		}
	a->state = !cov ? BGP_PFXV_STATE_NOT_FOUND : (match ? BGP_PFXV_STATE_VALID : BGP_PFXV_STATE_INVALID);
	a->nreason = (int16_t)cov;
}

static void spec_enum(int v)
{
	uint32_t c4 = 0, c6 = 0, s4 = 0, s6 = 0;

	for (int i = 0; i < set_rn; i++) {
		uint32_t h = rec_hash(set_r[i].v6, set_r[i].a, set_r[i].len, set_r[i].max, set_r[i].asn, set_r[i].src);

		if (set_r[i].v6) {
			c6++;
			s6 += h;
		} else {
			c4++;
			s4 += h;
		}
	}
	exp_cnt4[v] = c4;
	exp_cnt6[v] = c6;
	exp_sum4[v] = s4;
	exp_sum6[v] = s6;
	exp_nkeys[v] = (uint32_t)set_kn;
}

/* ---------------- the real tables ---------------- */
static int impl_apply(const struct op *o)
{
	if (o->k == O_SRCP)
		return pfx_table_src_remove(&pfxt, src_ptr(o->r.src));
	if (o->k == O_SRCK)
		return spki_table_src_remove(&spkit, (struct rtr_socket *)src_ptr(o->key.src));
	if (o->k == O_ADD || o->k == O_REM) {
		struct pfx_record p;

		rec_to_pfx(&o->r, &p);
		return o->k == O_ADD ? pfx_table_add(&pfxt, &p) : pfx_table_remove(&pfxt, &p);
	}
	struct spki_record s;

	memset(&s, 0, sizeof(s));
	s.asn = o->key.asn;
	kid_to_key(o->key.kid, s.ski, s.spki);
	s.socket = src_ptr(o->key.src);
	return o->k == O_KADD ? spki_table_add_entry(&spkit, &s) : spki_table_remove_entry(&spkit, &s);
}

static void impl_answer(const struct query *q, struct ans *a)
{
	memset(a, 0, sizeof(*a));
	if (q->is_key) {
		uint8_t ski[SKI_SIZE], spki[SPKI_SIZE];
		struct spki_record *res = NULL;
		unsigned int n = 0;

		kid_to_key(q->key.kid, ski, spki);
		if (spki_table_get_all(&spkit, q->key.asn, ski, &res, &n) != SPKI_SUCCESS)
			n = 9999;
		for (unsigned i = 0; i < n && n != 9999; i++)
			if (res[i].asn != q->key.asn || memcmp(res[i].ski, ski, SKI_SIZE))
				n = 9998; /* a foreign or torn entry */
		free(res);
		a->nkeys = (int16_t)n;
		return;
	}
	struct lrtr_ip_addr ip;
	struct pfx_record *reason = NULL;
	unsigned int rl = 0;
	enum pfxv_state st = BGP_PFXV_STATE_NOT_FOUND;

	rec_to_addr(&q->r, &ip);
	if (pfx_table_validate_r(&pfxt, &reason, &rl, q->r.asn, &ip, (uint8_t)q->r.len, &st) != PFX_SUCCESS)
		st = (enum pfxv_state)77;
	free(reason);
	a->state = (int8_t)st;
	a->nreason = (int16_t)rl;
}

static void impl_ski(const struct query *q, struct ans *a)
{
	uint8_t ski[SKI_SIZE], spki[SPKI_SIZE];
	struct spki_record *res = NULL;
	unsigned int n = 0;

	memset(a, 0, sizeof(*a));
	kid_to_key(q->key.kid, ski, spki);
	if (spki_table_search_by_ski(&spkit, ski, &res, &n) != SPKI_SUCCESS)
		n = 9999;
	free(res);
	a->nski = (int16_t)n;
}

struct enum_acc {
	uint32_t cnt, sum;
};

static void enum_cb(const struct pfx_record *r, void *d)
{
	struct enum_acc *e = d;
	uint32_t a[4] = {0, 0, 0, 0};

	if (r->prefix.ver == LRTR_IPV6)
		memcpy(a, r->prefix.u.addr6.addr, sizeof(a));
	else
		a[0] = r->prefix.u.addr4.addr;
	e->cnt++;
	e->sum += rec_hash(r->prefix.ver == LRTR_IPV6, a, r->min_len, r->max_len, r->asn,
			   ((uintptr_t)r->socket - 0x10000) / 64);
}

static int ans_eq(const struct query *q, const struct ans *x, const struct ans *y, int what)
{
	if (what == 2)
		return x->nski == y->nski;
	if (q->is_key)
		return x->nkeys == y->nkeys;
	if (x->state != y->state)
		return 0;
	return x->state == BGP_PFXV_STATE_VALID || x->nreason == y->nreason;
}

/* ---------------- threads ---------------- */
static void *writer(void *arg)
{
	(void)arg;
	unsigned long n = 0;

	while (!__atomic_load_n(&stop_flag, __ATOMIC_RELAXED)) {
		for (int i = 0; i < nops; i++) {
			__atomic_store_n(&ver_started, n + 1, __ATOMIC_RELAXED);
			impl_apply(&ops[i]);
			n++;
			__atomic_store_n(&ver_done, n, __ATOMIC_RELAXED);
		}
	}
	return NULL;
}

static unsigned long diff_calls;

static void nop_key_cb(struct spki_table *t, const struct spki_record r, const bool added)
{
	(void)t;
	(void)r;
	(void)added;
}

/* what rtr_sync does after a reload, against the shared router-key table other threads are writing */
static void *differ(void *arg)
{
	(void)arg;
	struct spki_table shadow;
	unsigned long n = 0;

	spki_table_init(&shadow, NULL);
	for (unsigned long kid = 1; kid <= 3; kid++) {
		struct spki_record s;

		memset(&s, 0, sizeof(s));
		s.asn = 65000;
		kid_to_key(1000 + kid, s.ski, s.spki);
		s.socket = src_ptr(9);
		spki_table_add_entry(&shadow, &s);
	}
	while (!__atomic_load_n(&stop_flag, __ATOMIC_RELAXED)) {
		spki_table_notify_diff(&spkit, &shadow, src_ptr(9));
		n++;
	}
	spki_table_free(&shadow);
	diff_calls = n;
	return NULL;
}

struct rstat {
	unsigned long nval, nkey, nski, nenum, bad, wide, window_sum, overlapped;
	unsigned seed;
	int id;
};

static pthread_mutex_t out_mx = PTHREAD_MUTEX_INITIALIZER;

static void report(const char *kind, int id, int qi, unsigned long d, unsigned long s, long got1, long got2)
{
	pthread_mutex_lock(&out_mx);
	printf("MISMATCH reader=%d kind=%s query=%d window=[%lu,%lu] (mod %d: [%lu,%lu]) got=%ld/%ld\n", id, kind, qi, d, s,
	       nops, d % nops, s % nops, got1, got2);
	fflush(stdout);
	pthread_mutex_unlock(&out_mx);
}

static void *reader(void *arg)
{
	struct rstat *st = arg;
	unsigned x = st->seed;

	while (!__atomic_load_n(&stop_flag, __ATOMIC_RELAXED)) {
		x = x * 1103515245u + 12345u;
		int kind = (x >> 16) % 8; /* 0-3 validate/get_all by query, 4 search_by_ski, 5 enum v4, 6 enum v6, 7 idle */
		int qi = (x >> 20) % nq;
		const struct query *q = &qs[qi];
		unsigned long d, s;
		int ok = 0;

		if (!with_enum && (kind == 5 || kind == 6))
			kind = 0;
		if (kind == 7) {
			/* a pause without any synchronisation (widens the window in which an unlocked access can race) */
			for (volatile int i = 0; i < 200; i++)
				;
			continue;
		}
		if (kind <= 3) {
			struct ans a;

			d = __atomic_load_n(&ver_done, __ATOMIC_RELAXED);
			impl_answer(q, &a);
			s = __atomic_load_n(&ver_started, __ATOMIC_RELAXED);
			if (s - d >= (unsigned long)nops)
				ok = 1, st->wide++;
			for (unsigned long k = d; k <= s && !ok; k++)
				ok = ans_eq(q, &a, &expect[(k % nops) * nq + qi], 0);
			if (q->is_key)
				st->nkey++;
			else
				st->nval++;
			if (!ok) {
				st->bad++;
				report(q->is_key ? "get_all" : "validate", st->id, qi, d, s, q->is_key ? a.nkeys : a.state, a.nreason);
			}
		} else if (kind == 4) {
			struct ans a;

			while (!qs[qi].is_key)
				qi = (qi + 1) % nq;
			q = &qs[qi];
			d = __atomic_load_n(&ver_done, __ATOMIC_RELAXED);
			impl_ski(q, &a);
			s = __atomic_load_n(&ver_started, __ATOMIC_RELAXED);
			if (s - d >= (unsigned long)nops)
				ok = 1, st->wide++;
			for (unsigned long k = d; k <= s && !ok; k++)
				ok = ans_eq(q, &a, &expect[(k % nops) * nq + qi], 2);
			st->nski++;
			if (!ok) {
				st->bad++;
				report("search_by_ski", st->id, qi, d, s, a.nski, 0);
			}
		} else {
			struct enum_acc e = {0, 0};

			d = __atomic_load_n(&ver_done, __ATOMIC_RELAXED);
			if (kind == 5)
				pfx_table_for_each_ipv4_record(&pfxt, enum_cb, &e);
			else
				pfx_table_for_each_ipv6_record(&pfxt, enum_cb, &e);
			s = __atomic_load_n(&ver_started, __ATOMIC_RELAXED);
			if (s - d >= (unsigned long)nops)
				ok = 1, st->wide++;
			for (unsigned long k = d; k <= s && !ok; k++) {
				unsigned v = k % nops;

				ok = kind == 5 ? (e.cnt == exp_cnt4[v] && e.sum == exp_sum4[v]) :
						 (e.cnt == exp_cnt6[v] && e.sum == exp_sum6[v]);
			}
			st->nenum++;
			if (!ok) {
				st->bad++;
				report(kind == 5 ? "enum4" : "enum6", st->id, -1, d, s, e.cnt, e.sum);
			}
		}
		st->window_sum += s - d;
		st->overlapped += s - d >= 2; /* a whole writer operation lies inside the call */
	}
	return NULL;
}

int main(void)
{
	static char line[4096];
	int readers = 4, ms = 1000;
	unsigned seed = 1;

	while (fgets(line, sizeof(line), stdin)) {
		char w[16] = "", k[16] = "", bits[200] = "";

		sscanf(line, "%15s %15s", w, k);
		if (!strcmp(w, "op") && nops < MAXOPS) {
			struct op *o = &ops[nops];

			memset(o, 0, sizeof(*o));
			if (k[0] == 's') {
				o->k = k[1] == 'p' ? O_SRCP : O_SRCK;
				sscanf(line, "%*s %*s %lu", &o->r.src);
				o->key.src = o->r.src;
			} else if (k[0] == 'k') {
				o->k = k[1] == 'a' ? O_KADD : O_KREM;
				sscanf(line, "%*s %*s %u %lu %lu", &o->key.asn, &o->key.kid, &o->key.src);
			} else {
				o->k = k[0] == 'a' ? O_ADD : O_REM;
				o->r.v6 = k[1] == '6';
				sscanf(line, "%*s %*s %199s %u %u %u %lu", bits, &o->r.len, &o->r.max, &o->r.asn, &o->r.src);
				bits_to_rec(bits, &o->r);
			}
			nops++;
		} else if (!strcmp(w, "q") && nq < MAXQ) {
			struct query *q = &qs[nq++];

			memset(q, 0, sizeof(*q));
			q->r.v6 = k[0] == '6';
			sscanf(line, "%*s %*s %199s %u %u", bits, &q->r.len, &q->r.asn);
			bits_to_rec(bits, &q->r);
		} else if (!strcmp(w, "k") && nq < MAXQ) {
			struct query *q = &qs[nq++];

			memset(q, 0, sizeof(*q));
			q->is_key = 1;
			sscanf(line, "%*s %u %lu", &q->key.asn, &q->key.kid);
		} else if (!strcmp(w, "run")) {
			sscanf(line, "%*s %d %d %u %d %d", &readers, &ms, &seed, &with_enum, &with_diff);
			break;
		}
	}
	if (!nops || !nq) {
		printf("ERROR empty script\n");
		return 2;
	}
	int haskey = 0;

	for (int i = 0; i < nq; i++)
		haskey |= qs[i].is_key;
	if (!haskey) {
		qs[nq].is_key = 1;
		qs[nq].key.asn = 1;
		qs[nq++].key.kid = 1;
	}
	expect = calloc((size_t)(nops + 1) * nq, sizeof(*expect));
	exp_cnt4 = calloc(nops + 1, 4);
	exp_cnt6 = calloc(nops + 1, 4);
	exp_sum4 = calloc(nops + 1, 4);
	exp_sum6 = calloc(nops + 1, 4);
	exp_nkeys = calloc(nops + 1, 4);
	pfx_table_init(&pfxt, NULL);
	spki_table_init(&spkit, NULL);

	/* sequential pass: SPEC answers for every version, and the real tables agree with them one thread at a time */
	unsigned long seqbad = 0;

	for (int v = 0; v <= nops; v++) {
		if (v > 0) {
			spec_apply(&ops[v - 1]);
			impl_apply(&ops[v - 1]);
		}
		spec_enum(v);
		for (int i = 0; i < nq; i++) {
			struct ans a, b;

			spec_answer(&qs[i], &expect[v * nq + i]);
			impl_answer(&qs[i], &a);
			if (!ans_eq(&qs[i], &a, &expect[v * nq + i], 0)) {
				seqbad++;
				printf("SEQ-MISMATCH version=%d query=%d impl=%d/%d/%d spec=%d/%d/%d\n", v, i, a.state, a.nreason,
				       a.nkeys, expect[v * nq + i].state, expect[v * nq + i].nreason, expect[v * nq + i].nkeys);
			}
			if (qs[i].is_key) {
				impl_ski(&qs[i], &b);
				if (b.nski != expect[v * nq + i].nski) {
					seqbad++;
					printf("SEQ-MISMATCH version=%d query=%d ski impl=%d spec=%d\n", v, i, b.nski,
					       expect[v * nq + i].nski);
				}
			}
		}
	}
	if (set_rn != 0 || set_kn != 0) {
		printf("ERROR script is not cyclic (%d records, %d keys left)\n", set_rn, set_kn);
		return 2;
	}
	/* version nops == version 0 */
	pthread_t wt, *rt = calloc(readers, sizeof(*rt));
	struct rstat *rs = calloc(readers, sizeof(*rs));

	if (with_diff)
		spkit.update_fp = nop_key_cb; /* before any other thread exists */

	for (int i = 0; i < readers; i++) {
		rs[i].seed = seed * 7919u + (unsigned)i * 104729u + 1;
		rs[i].id = i;
		pthread_create(&rt[i], NULL, reader, &rs[i]);
	}
	pthread_t dt;

	pthread_create(&wt, NULL, writer, NULL);
	if (with_diff)
		pthread_create(&dt, NULL, differ, NULL);
	struct timespec ts = {ms / 1000, (long)(ms % 1000) * 1000000L};

	nanosleep(&ts, NULL);
	__atomic_store_n(&stop_flag, 1, __ATOMIC_RELAXED);
	pthread_join(wt, NULL);
	if (with_diff)
		pthread_join(dt, NULL);
	for (int i = 0; i < readers; i++)
		pthread_join(rt[i], NULL);
	struct rstat t = {0};

	for (int i = 0; i < readers; i++) {
		t.nval += rs[i].nval;
		t.nkey += rs[i].nkey;
		t.nski += rs[i].nski;
		t.nenum += rs[i].nenum;
		t.bad += rs[i].bad;
		t.wide += rs[i].wide;
		t.window_sum += rs[i].window_sum;
		t.overlapped += rs[i].overlapped;
	}
	printf("DONE readers=%d writer_ops=%lu validate=%lu get_all=%lu search_by_ski=%lu enumerate=%lu mismatches=%lu "
	       "seq_mismatches=%lu unchecked_wide_windows=%lu window_sum=%lu overlapped=%lu script_ops=%d queries=%d diff_calls=%lu\n",
	       readers, __atomic_load_n(&ver_done, __ATOMIC_RELAXED), t.nval, t.nkey, t.nski, t.nenum, t.bad, seqbad, t.wide,
	       t.window_sum, t.overlapped, nops, nq, diff_calls);
	return 0;
}
