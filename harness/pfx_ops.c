/* pfx_ops.c - drive the real pfx_table_* functions from a line-oriented script (stdin) and print one
 * canonical result line per op, in the format of ocaml/driver.ml (pfx mode).
 * Two tables: 0 has an update callback installed, 1 has none (like the shadow table of packets.c).
 * Built with asserts enabled and ASan/UBSan: a failing assert or UB aborts the process; the caller
 * sees which op did not answer. */
#include "rtrlib/pfx/pfx_private.h"
#include "rtrlib/pfx/trie/trie-pfx.h"
#include "rtrlib/lib/ip.h"
#include "rtrlib/rtr/rtr.h"

#include <stdint.h>
#include <stdio.h>
#include <stdlib.h>
#include <string.h>

static struct pfx_table tabs[2];
static char cbbuf[1 << 22];
static size_t cblen;

static const struct rtr_socket *src_ptr(unsigned long s)
{
	if (s == 0)
		return NULL; /* a record added by the application itself: no socket */
	return (const struct rtr_socket *)(uintptr_t)(0x10000 + s * 64);
}

static unsigned long src_id(const struct rtr_socket *p)
{
	if (!p)
		return 0;
	return ((uintptr_t)p - 0x10000) / 64;
}

static void bits_to_addr(const char *fam, const char *bits, struct lrtr_ip_addr *a)
{
	memset(a, 0, sizeof(*a));
	if (fam[0] == '6') {
		a->ver = LRTR_IPV6;
		for (int i = 0; i < 128 && bits[i]; i++)
			if (bits[i] == '1')
				a->u.addr6.addr[i / 32] |= (uint32_t)1 << (31 - (i % 32));
	} else {
		a->ver = LRTR_IPV4;
		for (int i = 0; i < 32 && bits[i]; i++)
			if (bits[i] == '1')
				a->u.addr4.addr |= (uint32_t)1 << (31 - i);
	}
}

static int fmt_rec(char *out, const struct pfx_record *r)
{
	char bits[129];
	int n;

	if (r->prefix.ver == LRTR_IPV6) {
		for (int i = 0; i < 128; i++)
			bits[i] = (r->prefix.u.addr6.addr[i / 32] >> (31 - (i % 32))) & 1 ? '1' : '0';
		n = 128;
	} else {
		for (int i = 0; i < 32; i++)
			bits[i] = (r->prefix.u.addr4.addr >> (31 - i)) & 1 ? '1' : '0';
		n = 32;
	}
	bits[n] = 0;
	return sprintf(out, "%c:%s/%u-%u:%u:%lu", r->prefix.ver == LRTR_IPV6 ? '6' : '4', bits, r->min_len, r->max_len,
		       r->asn, src_id(r->socket));
}

static void update_cb(struct pfx_table *t, const struct pfx_record rec, const bool added)
{
	(void)t;
	if (cblen)
		cbbuf[cblen++] = ' ';
	cbbuf[cblen++] = added ? '+' : '-';
	cblen += fmt_rec(cbbuf + cblen, &rec);
	cbbuf[cblen] = 0;
}

static void list_cb(const struct pfx_record *r, void *data)
{
	(void)data;
	if (cblen)
		cbbuf[cblen++] = ' ';
	cblen += fmt_rec(cbbuf + cblen, r);
	cbbuf[cblen] = 0;
}

static const char *rc_str(int rc)
{
	switch (rc) {
	case PFX_SUCCESS:
		return "SUCCESS";
	case PFX_ERROR:
		return "ERROR";
	case PFX_DUPLICATE_RECORD:
		return "DUP";
	case PFX_RECORD_NOT_FOUND:
		return "NOTFOUND";
	}
	return "??";
}

int main(void)
{
	static char line[4096], cmd[16], fam[4], bits[256];
	int t, t2;
	unsigned int len, mx, qlen;
	unsigned long asn, src;

	pfx_table_init(&tabs[0], update_cb);
	pfx_table_init(&tabs[1], NULL);
	while (fgets(line, sizeof(line), stdin)) {
		cblen = 0;
		cbbuf[0] = 0;
		if (sscanf(line, "%15s", cmd) != 1) {
			printf("\n");
			continue;
		}
		if (!strcmp(cmd, "add") || !strcmp(cmd, "del")) {
			struct pfx_record r;

			sscanf(line, "%*s %d %3s %255s %u %u %lu %lu", &t, fam, bits, &len, &mx, &asn, &src);
			bits_to_addr(fam, bits, &r.prefix);
			r.min_len = len;
			r.max_len = mx;
			r.asn = asn;
			r.socket = src_ptr(src);
			int rc = cmd[0] == 'a' ? pfx_table_add(&tabs[t], &r) : pfx_table_remove(&tabs[t], &r);

			printf("%s |%s\n", rc_str(rc), cbbuf);
		} else if (!strcmp(cmd, "srcdel")) {
			sscanf(line, "%*s %d %lu", &t, &src);
			int rc = pfx_table_src_remove(&tabs[t], src_ptr(src));

			printf("%s |%s\n", rc_str(rc), cbbuf);
		} else if (!strcmp(cmd, "val")) {
			struct lrtr_ip_addr a;
			struct pfx_record *reason = NULL;
			unsigned int rlen = 0;
			enum pfxv_state st;

			sscanf(line, "%*s %d %3s %255s %u %lu", &t, fam, bits, &qlen, &asn);
			bits_to_addr(fam, bits, &a);
			int rc = pfx_table_validate_r(&tabs[t], &reason, &rlen, asn, &a, qlen, &st);

			if (rc != PFX_SUCCESS) {
				printf("%s |\n", rc_str(rc));
			} else {
				for (unsigned int i = 0; i < rlen; i++)
					list_cb(&reason[i], NULL);
				printf("%s |%s\n",
				       st == BGP_PFXV_STATE_VALID ? "VALID" :
				       st == BGP_PFXV_STATE_NOT_FOUND ? "NOT_FOUND" : "INVALID",
				       cbbuf);
			}
			free(reason);
		} else if (!strcmp(cmd, "list")) {
			sscanf(line, "%*s %d", &t);
			pfx_table_for_each_ipv4_record(&tabs[t], list_cb, NULL);
			pfx_table_for_each_ipv6_record(&tabs[t], list_cb, NULL);
			printf("LIST |%s\n", cbbuf);
		} else if (!strcmp(cmd, "free")) {
			sscanf(line, "%*s %d", &t);
			pfx_update_fp fp = tabs[t].update_fp;

			pfx_table_free(&tabs[t]);
			printf("FREED |%s\n", cbbuf);
			pfx_table_init(&tabs[t], fp);
		} else if (!strcmp(cmd, "copyx")) {
			sscanf(line, "%*s %d %d %lu", &t, &t2, &src);
			int rc = pfx_table_copy_except_socket(&tabs[t], &tabs[t2], src_ptr(src));

			printf("%s |\n", rc_str(rc));
		} else if (!strcmp(cmd, "swap")) {
			pfx_table_swap(&tabs[0], &tabs[1]);
			printf("SWAPPED |\n");
		} else if (!strcmp(cmd, "diff")) {
			sscanf(line, "%*s %d %d %lu", &t, &t2, &src);
			pfx_table_notify_diff(&tabs[t], &tabs[t2], src_ptr(src));
			printf("DIFF |%s\n", cbbuf);
		} else if (!strcmp(cmd, "reset")) {
			pfx_table_free_without_notify(&tabs[0]);
			pfx_table_free_without_notify(&tabs[1]);
			pfx_table_init(&tabs[0], update_cb);
			pfx_table_init(&tabs[1], NULL);
			printf("RESET |\n");
		} else if (!strcmp(cmd, "mark")) {
			printf("MARK %s", line + 5);
		} else {
			printf("?? %s", line);
		}
		fflush(stdout);
	}
	pfx_table_free_without_notify(&tabs[0]);
	pfx_table_free_without_notify(&tabs[1]);
	return 0;
}
