/* names.c - C20: call the two name conversion functions on every integer read from stdin.
 * Built with ASan so that a read outside the name table aborts. Output: "<fn> <v> <name|NULL>". */
#include "rtrlib/rtr/rtr.h"
#include "rtrlib/rtr_mgr.h"
#include <stdio.h>

int main(void)
{
	long long v;
	char which;

	while (scanf(" %c %lld", &which, &v) == 2) {
		const char *s;

		fflush(stdout);
		if (which == 's')
			s = rtr_state_to_str((enum rtr_socket_state)(int)v);
		else
			s = rtr_mgr_status_to_str((enum rtr_mgr_status)(int)v);
		printf("%c %lld %s\n", which, v, s ? s : "NULL");
		fflush(stdout);
	}
	return 0;
}
