/* names.c - C20: call the two name conversion functions on every integer read from stdin.
 * Built with ASan so that a read outside the name table aborts. Output: "<fn> <v> <name|NULL>". */
#include "rtrlib/rtr/rtr.h"
#include "rtrlib/rtr_mgr.h"
#include <signal.h>
#include <stdio.h>
#include <string.h>
#include <unistd.h>

/* sweep mode: the value being looked at, for the crash handler */
static volatile unsigned long long cur_x;
static volatile char cur_fn;

static void on_crash(int sig)
{
	char b[64];
	int n = snprintf(b, sizeof(b), "%c %lld crash\n", cur_fn, (long long)(int)(unsigned int)cur_x);

	(void)sig;
	if (n > 0 && write(1, b, (size_t)n) < 0)
		_exit(3);
	_exit(3);
}

int main(void)
{
	long long v;
	char which;

	while (scanf(" %c %lld", &which, &v) == 2) {
		const char *s;

		if (which == 'S' || which == 'M') {
			/* sweep: every 32-bit value >= v (the number of enumerators) must give NULL; prints the first few that do not.
			 * (built without sanitizers for this use: an out-of-table read shows as a non-NULL answer or a crash) */
			unsigned long long bad = 0;

			signal(SIGSEGV, on_crash);
			signal(SIGBUS, on_crash);
			cur_fn = which == 'S' ? 's' : 'm';
			fflush(stdout);
			for (unsigned long long x = (unsigned long long)v; x <= 0xffffffffULL; x++) {
				cur_x = x;
				s = which == 'S' ? rtr_state_to_str((enum rtr_socket_state)(unsigned int)x) :
						   rtr_mgr_status_to_str((enum rtr_mgr_status)(unsigned int)x);
				if (s && bad++ < 5)
					printf("%c %lld nonnull\n", which == 'S' ? 's' : 'm', (long long)(int)(unsigned int)x);
			}
			printf("%c sweep %llu\n", which, bad);
			fflush(stdout);
			continue;
		}

		fflush(stdout);
		if (which == 's')
			s = rtr_state_to_str((enum rtr_socket_state)(int)v);
		else
			s = rtr_mgr_status_to_str((enum rtr_mgr_status)(int)v);
		printf("%c %lld %s\n", which, v, s ? (*s ? s : "<empty-string>") : "NULL");
		fflush(stdout);
	}
	return 0;
}
