/* alloc_inject.c - C18: the real pfx_table_*, spki_table_*, trie_get_children and rtr_sync functions run under an
 * allocator installed through the public lrtr_set_alloc_functions that counts, logs, tracks live blocks and
 * can make the k-th allocation of the next operation fail.
 *
 * Link with: -Wl,--wrap=free -Wl,--wrap=malloc -Wl,--wrap=calloc -Wl,--wrap=realloc -Wl,--wrap=strdup
 *   __wrap_free      : a block of the injected allocator handed to libc free() is recognised (event "F"),
 *                      released properly and the run goes on; everything else goes to the real free
 *   __wrap_malloc... : a direct libc allocation made by library code (bypassing the configured allocator) is
 *                      counted as event "L"; the harness itself calls __real_* explicitly.
 *
 * Every block of the injected allocator carries a 48-byte header (magic, size, id, list links); user
 * pointers are header+48, so a pointer of ours given to the real free would not be the start of a libc block
 * (ASan: "attempting free on address which was not malloc()-ed").  A registry of live user pointers is consulted
 * before a header is touched: a pointer given to the configured free/realloc that is not a live block of
 * ours (foreign block, double free) is event "X" and is not released.
 *
 * Events (kinds only, site-independent), in call order, per operation:
 *   m   malloc succeeded          M   malloc failed (injected)
 *   r   realloc(p != NULL) ok     R   realloc(p != NULL) failed
 *   r0  realloc(NULL) ok          R0  realloc(NULL) failed
 *   f   configured free of a live block          (free(NULL) is not an event; counted in nullfree)
 *   F   libc free() of a live block of the configured allocator
 *   X   configured free/realloc of a pointer that is not a live block
 *   L   library code called libc malloc/calloc/realloc/strdup directly
 *
 * Script (stdin), one line per op; T in {0,1}; table 0 of each kind has a recording update callback, table 1
 * has none; src 1 is the address of the rtr_socket used by `sync`, other sources are fake pointers:
 *   failat k                              the k-th allocation call (malloc/realloc) of the NEXT op fails
 *   padd T fam bits len max asn src       pfx_table_add          (syntax of harness/pfx_ops.c "add")
 *   pdel T fam bits len max asn src       pfx_table_remove
 *   psrcdel T src                         pfx_table_src_remove
 *   pval T fam bits qlen asn              pfx_table_validate_r with a reason array (released through the allocator)
 *   pfree T                               pfx_table_free + pfx_table_init
 *   children T                            trie_get_children on the IPv4 root
 *   kadd T asn ski spki src               spki_table_add_entry   (syntax of harness/spki_ops.c "add")
 *   krm T asn ski spki src                spki_table_remove_entry
 *   ksrcrm T src                          spki_table_src_remove
 *   kget T asn ski                        spki_table_get_all
 *   kski T ski                            spki_table_search_by_ski
 *   kfree T                               spki_table_free + spki_table_init (+ one lookup on the new table)
 *   sync reset hex                        rtr_sync on tables 0 with the byte stream hex delivered by a mock transport;
 *                                         reset=1: session to be requested and a previous update exists (atomic reload)
 *   dump                                  contents of the four tables in walk order, live block count
 *   end                                   free all four tables for good and report what is still allocated
 * Output: exactly one line per input line. */
#include "rtrlib/rtr/rtr_private.h"
/* the table implementation is compiled into this unit: gives access to struct key_entry */
#include "rtrlib/spki/hashtable/ht-spkitable.c"

#include "rtrlib/lib/alloc_utils.h"
#include "rtrlib/pfx/pfx_private.h"
#include "rtrlib/pfx/trie/trie-pfx.h"
#include "rtrlib/pfx/trie/trie_private.h"
#include "rtrlib/rtr/packets_private.h"
#include "rtrlib/transport/transport.h"

#include <stdint.h>
#include <stdio.h>
#include <stdlib.h>
#include <string.h>

void *__real_malloc(size_t);
void *__real_calloc(size_t, size_t);
void *__real_realloc(void *, size_t);
void __real_free(void *);
char *__real_strdup(const char *);

/* ------------------------------------------------------------------ event log */
static char evbuf[1 << 20];
static size_t evlen;
static int in_harness; /* >0 while the harness itself (not library code) is running */

static void ev(const char *k)
{
	size_t n = strlen(k);

	if (evlen + n + 2 >= sizeof(evbuf))
		return;
	if (evlen)
		evbuf[evlen++] = ' ';
	memcpy(evbuf + evlen, k, n);
	evlen += n;
	evbuf[evlen] = 0;
}

/* ------------------------------------------------------------------ registry of live user pointers */
struct hdr {
	uint64_t magic;
	uint64_t size;
	uint64_t id;
	uint64_t pad[3];
};
#define MAGIC 0xA110C8EDC0FFEE01ULL
#define HSZ sizeof(struct hdr) /* 48: keeps 16-byte alignment */

static void **reg;
static size_t regcap, regn;
static unsigned long next_id = 1;

static size_t reg_slot(void *p)
{
	size_t h = ((uintptr_t)p >> 4) * 0x9E3779B97F4A7C15ULL;

	return h & (regcap - 1);
}

static void reg_grow(void)
{
	size_t oc = regcap;
	void **o = reg;

	regcap = regcap ? regcap * 2 : 4096;
	reg = __real_calloc(regcap, sizeof(void *));
	regn = 0;
	for (size_t i = 0; i < oc; i++)
		if (o[i] && o[i] != (void *)1) {
			size_t s = reg_slot(o[i]);

			while (reg[s])
				s = (s + 1) & (regcap - 1);
			reg[s] = o[i];
			regn++;
		}
	__real_free(o);
}

static void reg_add(void *p)
{
	if ((regn + 1) * 2 > regcap)
		reg_grow();
	size_t s = reg_slot(p);

	while (reg[s] && reg[s] != (void *)1)
		s = (s + 1) & (regcap - 1);
	reg[s] = p;
	regn++;
}

static int reg_find(void *p, size_t *slot)
{
	if (!regcap)
		return 0;
	size_t s = reg_slot(p);

	while (reg[s]) {
		if (reg[s] == p) {
			if (slot)
				*slot = s;
			return 1;
		}
		s = (s + 1) & (regcap - 1);
	}
	return 0;
}

static unsigned long live_blocks;

static void reg_del(size_t slot)
{
	reg[slot] = (void *)1; /* tombstone */
}

/* ------------------------------------------------------------------ the injected allocator */
static unsigned long op_allocs;  /* allocation calls of the current op */
static unsigned long fail_at;    /* 0 = none */
static unsigned long nullfree, n_X, n_F, n_L;

static void *blk_new(size_t size)
{
	struct hdr *h = __real_malloc(HSZ + size);

	if (!h) {
		fprintf(stderr, "harness: real malloc failed\n");
		exit(3);
	}
	h->magic = MAGIC;
	h->size = size;
	h->id = next_id++;
	memset((char *)h + HSZ, 0xBE, size); /* like ASan: fresh memory is not zero */
	reg_add((char *)h + HSZ);
	live_blocks++;
	return (char *)h + HSZ;
}

static void blk_release(void *p, size_t slot)
{
	struct hdr *h = (struct hdr *)((char *)p - HSZ);

	reg_del(slot);
	live_blocks--;
	h->magic = 0xDEADDEADDEADDEADULL;
	__real_free(h);
}

static void *inj_malloc(size_t size)
{
	op_allocs++;
	if (fail_at && op_allocs == fail_at) {
		ev("M");
		return NULL;
	}
	ev("m");
	return blk_new(size);
}

static void *inj_realloc(void *p, size_t size)
{
	size_t slot;

	op_allocs++;
	if (fail_at && op_allocs == fail_at) {
		ev(p ? "R" : "R0");
		return NULL;
	}
	if (!p) {
		ev("r0");
		return blk_new(size);
	}
	if (!reg_find(p, &slot)) {
		ev("X");
		n_X++;
		return NULL;
	}
	struct hdr *h = (struct hdr *)((char *)p - HSZ);
	void *q;

	ev("r");
	q = blk_new(size); /* always moves: a stale pointer kept by the caller is a use-after-free for ASan */
	memcpy(q, p, h->size < size ? h->size : size);
	reg_find(p, &slot);
	blk_release(p, slot);
	return q;
}

static void inj_free(void *p)
{
	size_t slot;

	if (!p) {
		nullfree++;
		return;
	}
	if (!reg_find(p, &slot)) {
		ev("X");
		n_X++;
		return;
	}
	ev("f");
	blk_release(p, slot);
}

void __wrap_free(void *p)
{
	size_t slot;

	if (p && reg_find(p, &slot)) {
		ev("F");
		n_F++;
		blk_release(p, slot);
		return;
	}
	__real_free(p);
}

void *__wrap_malloc(size_t n)
{
	if (!in_harness) {
		ev("L");
		n_L++;
	}
	return __real_malloc(n);
}

void *__wrap_calloc(size_t a, size_t b)
{
	if (!in_harness) {
		ev("L");
		n_L++;
	}
	return __real_calloc(a, b);
}

void *__wrap_realloc(void *p, size_t n)
{
	size_t slot;

	if (p && reg_find(p, &slot)) {
		ev("X");
		n_X++;
		return NULL;
	}
	if (!in_harness) {
		ev("L");
		n_L++;
	}
	return __real_realloc(p, n);
}

char *__wrap_strdup(const char *s)
{
	if (!in_harness) {
		ev("L");
		n_L++;
	}
	return __real_strdup(s);
}

/* ------------------------------------------------------------------ tables, sources, callbacks */
static struct pfx_table ptab[2];
static struct spki_table ktab[2];
static struct rtr_socket rsock;
static struct tr_socket trsock;

static char cbbuf[1 << 20];
static size_t cblen;

static void cb_append(const char *s)
{
	size_t n = strlen(s);

	if (cblen + n + 2 >= sizeof(cbbuf))
		return;
	if (cblen)
		cbbuf[cblen++] = ' ';
	memcpy(cbbuf + cblen, s, n);
	cblen += n;
	cbbuf[cblen] = 0;
}

static const struct rtr_socket *src_ptr(unsigned long s)
{
	if (s == 1)
		return &rsock;
	if (s == 0)
		return NULL;
	return (const struct rtr_socket *)(uintptr_t)(0x10000 + s * 64);
}

static unsigned long src_id(const struct rtr_socket *p)
{
	if (p == &rsock)
		return 1;
	if (!p)
		return 0;
	return ((uintptr_t)p - 0x10000) / 64;
}

static void bits_to_addr(const char *fam, const char *bits, struct lrtr_ip_addr *a)
{
	memset(a, 0, sizeof(*a));
	if (fam[0] == '6') {
		a->ver = LRTR_IPV6;
		for (int i = 0; i < 128 && bits[i]; i++)
			if (bits[i] == '1')
				a->u.addr6.addr[i / 32] |= (uint32_t)1 << (31 - (i % 32));
	} else {
		a->ver = LRTR_IPV4;
		for (int i = 0; i < 32 && bits[i]; i++)
			if (bits[i] == '1')
				a->u.addr4.addr |= (uint32_t)1 << (31 - i);
	}
}

static int fmt_rec(char *out, const struct pfx_record *r)
{
	char bits[129];
	int n;

	if (r->prefix.ver == LRTR_IPV6) {
		for (int i = 0; i < 128; i++)
			bits[i] = (r->prefix.u.addr6.addr[i / 32] >> (31 - (i % 32))) & 1 ? '1' : '0';
		n = 128;
	} else {
		for (int i = 0; i < 32; i++)
			bits[i] = (r->prefix.u.addr4.addr >> (31 - i)) & 1 ? '1' : '0';
		n = 32;
	}
	bits[n] = 0;
	return sprintf(out, "%c:%s/%u-%u:%u:%lu", r->prefix.ver == LRTR_IPV6 ? '6' : '4', bits, r->min_len, r->max_len,
		       r->asn, src_id(r->socket));
}

static void enc(uint8_t *dst, size_t n, uint32_t id)
{
	for (size_t i = 0; i < n; i++)
		dst[i] = (uint8_t)(0xA5 ^ (i * 7));
	dst[0] = id & 0xff;
	dst[1] = (id >> 8) & 0xff;
	dst[n - 2] = (id >> 16) & 0xff;
	dst[n - 1] = (id >> 24) & 0xff;
}

static int dec(const uint8_t *src, size_t n, uint32_t *id)
{
	for (size_t i = 2; i < n - 2; i++)
		if (src[i] != (uint8_t)(0xA5 ^ (i * 7)))
			return 0;
	*id = (uint32_t)src[0] | ((uint32_t)src[1] << 8) | ((uint32_t)src[n - 2] << 16) | ((uint32_t)src[n - 1] << 24);
	return 1;
}

static void fmt_key(char *out, size_t outsz, const uint8_t *ski, const uint8_t *spki, uint32_t asn,
		    const struct rtr_socket *sock)
{
	uint32_t a = 0, b = 0;
	char sa[32], sb[32];

	if (dec(ski, SKI_SIZE, &a))
		snprintf(sa, sizeof(sa), "%u", a);
	else
		snprintf(sa, sizeof(sa), "?%02x%02x", ski[0], ski[1]);
	if (dec(spki, SPKI_SIZE, &b))
		snprintf(sb, sizeof(sb), "%u", b);
	else
		snprintf(sb, sizeof(sb), "?%02x%02x", spki[0], spki[1]);
	snprintf(out, outsz, "%u/%s/%s/%lu", asn, sa, sb, src_id(sock));
}

static void pfx_cb(struct pfx_table *t, const struct pfx_record rec, const bool added)
{
	char b[300];

	in_harness++;
	b[0] = added ? '+' : '-';
	fmt_rec(b + 1, &rec);
	cb_append(b);
	in_harness--;
	(void)t;
}

static void key_cb(struct spki_table *t, const struct spki_record rec, const bool added)
{
	char b[300];

	in_harness++;
	b[0] = added ? '+' : '-';
	b[1] = 'K';
	fmt_key(b + 2, sizeof(b) - 2, rec.ski, rec.spki, rec.asn, rec.socket);
	cb_append(b);
	in_harness--;
	(void)t;
}

static const char *prc(int rc)
{
	switch (rc) {
	case PFX_SUCCESS:
		return "SUCCESS";
	case PFX_ERROR:
		return "ERROR";
	case PFX_DUPLICATE_RECORD:
		return "DUP";
	case PFX_RECORD_NOT_FOUND:
		return "NOTFOUND";
	}
	return "??";
}

static const char *krc(int rc)
{
	switch (rc) {
	case SPKI_SUCCESS:
		return "SUCCESS";
	case SPKI_ERROR:
		return "ERROR";
	case SPKI_DUPLICATE_RECORD:
		return "DUP";
	case SPKI_RECORD_NOT_FOUND:
		return "NOTFOUND";
	}
	return "??";
}

/* spki_table_init became int-returning with the proposed repair; C18.py passes -DSPKI_INIT_RETURNS_INT then */
static int k_init(struct spki_table *t, spki_update_fp fp)
{
#ifdef SPKI_INIT_RETURNS_INT
	return spki_table_init(t, fp);
#else
	spki_table_init(t, fp);
	return 0;
#endif
}

/* ------------------------------------------------------------------ mock transport for sync */
static unsigned char *rx;
static size_t rxlen, rxoff;
static unsigned long sent_pdus;

static int m_open(void *s)
{
	(void)s;
	return TR_SUCCESS;
}

static void m_close(void *s)
{
	(void)s;
}

static void m_free(struct tr_socket *s)
{
	(void)s;
}

static const char *m_ident(void *s)
{
	(void)s;
	return "mock";
}

/* what was handed to the transport during the current op, as hex, one chunk per send call */
static char txbuf[1 << 16];
static size_t txlen;

static int m_send(const void *s, const void *pdu, const size_t len, const time_t timeout)
{
	(void)s;
	(void)timeout;
	sent_pdus++;
	if (txlen + 2 * len + 2 < sizeof(txbuf)) {
		if (txlen)
			txbuf[txlen++] = ',';
		for (size_t i = 0; i < len; i++)
			txlen += (size_t)sprintf(txbuf + txlen, "%02x", ((const unsigned char *)pdu)[i]);
	}
	return (int)len;
}

static int m_recv(const void *s, void *buf, const size_t len, const time_t timeout)
{
	(void)s;
	(void)timeout;
	size_t avail = rxlen - rxoff;

	if (!avail)
		return TR_WOULDBLOCK;
	size_t n = avail < len ? avail : len;

	memcpy(buf, rx + rxoff, n);
	rxoff += n;
	return (int)n;
}

/* ------------------------------------------------------------------ dump */
static char *dbuf;
static size_t dlen, dcap;

static void d_append(const char *s)
{
	size_t n = strlen(s);

	if (dlen + n + 2 > dcap) {
		dcap = (dlen + n + 2) * 2 + 1024;
		dbuf = __real_realloc(dbuf, dcap);
	}
	memcpy(dbuf + dlen, s, n + 1);
	dlen += n;
}

static int d_first;

static void d_pfx(const struct pfx_record *r, void *d)
{
	char b[300];

	(void)d;
	in_harness++;
	fmt_rec(b, r);
	if (!d_first)
		d_append(" ");
	d_first = 0;
	d_append(b);
	in_harness--;
}

static void dump(void)
{
	char b[300];

	dlen = 0;
	d_append("");
	for (int t = 0; t < 2; t++) {
		snprintf(b, sizeof(b), "%sP%d=[", t ? " " : "", t);
		d_append(b);
		d_first = 1;
		pfx_table_for_each_ipv4_record(&ptab[t], d_pfx, NULL);
		pfx_table_for_each_ipv6_record(&ptab[t], d_pfx, NULL);
		d_append("]");
	}
	for (int t = 0; t < 2; t++) {
		snprintf(b, sizeof(b), " K%d=[", t);
		d_append(b);
		int first = 1;

		for (tommy_node *nd = tommy_list_head(&ktab[t].list); nd; nd = nd->next) {
			const struct key_entry *k = nd->data;

			fmt_key(b, sizeof(b), k->ski, k->spki, k->asn, k->socket);
			if (!first)
				d_append(" ");
			first = 0;
			d_append(b);
		}
		snprintf(b, sizeof(b), "] C%d=%u", t, (unsigned int)tommy_hashlin_count(&ktab[t].hashtable));
		d_append(b);
	}
	printf("DUMP %s live=%lu\n", dbuf, live_blocks);
}

static size_t unhex(const char *h, unsigned char **out)
{
	size_t n = strlen(h) / 2;

	*out = __real_malloc(n + 1);
	for (size_t i = 0; i < n; i++) {
		unsigned int v = 0;

		sscanf(h + 2 * i, "%2x", &v);
		(*out)[i] = (unsigned char)v;
	}
	return n;
}

static int tail_extra;

static void tail(void)
{
	printf(" | cb=[%s] | ev=[%s] | n=%lu live=%lu X=%lu F=%lu L=%lu", cbbuf, evbuf, op_allocs, live_blocks, n_X, n_F,
	       n_L);
	if (tail_extra)
		printf(" # state=%d resetting=%d sent=%lu rxleft=%zu tx=%s", (int)rsock.state, (int)rsock.is_resetting, sent_pdus,
		       rxlen - rxoff, txlen ? txbuf : "-");
	tail_extra = 0;
	printf("\n");
}

/* run library code with the harness flag off */
#define LIB(stmt)                \
	do {                     \
		in_harness = 0;  \
		stmt;            \
		in_harness = 1;  \
	} while (0)

int main(void)
{
	static char line[1 << 20], cmd[32], fam[8], bits[256];
	unsigned long pending_fail = 0;

	in_harness = 1;
	if (*(const unsigned char *)&(const uint16_t){1} != 1) {
		fprintf(stderr, "harness: little-endian host expected\n");
		return 3;
	}
	lrtr_set_alloc_functions(inj_malloc, inj_realloc, inj_free);
	pfx_table_init(&ptab[0], pfx_cb);
	pfx_table_init(&ptab[1], NULL);
	k_init(&ktab[0], key_cb);
	k_init(&ktab[1], NULL);
	trsock.socket = NULL;
	trsock.open_fp = m_open;
	trsock.close_fp = m_close;
	trsock.free_fp = m_free;
	trsock.send_fp = (tr_send_fp)m_send;
	trsock.recv_fp = (tr_recv_fp)m_recv;
	trsock.ident_fp = m_ident;
	memset(&rsock, 0, sizeof(rsock));
	rtr_init(&rsock, &trsock, &ptab[0], &ktab[0], 3600, 7200, 600, RTR_INTERVAL_MODE_IGNORE_ANY, NULL, NULL, NULL);
	evlen = 0;
	evbuf[0] = 0;
	op_allocs = 0;

	while (fgets(line, sizeof(line), stdin)) {
		int t = 0;
		unsigned int len = 0, mx = 0, qlen = 0;
		unsigned long asn = 0, src = 0, a = 0, b = 0, c = 0, d = 0;

		line[strcspn(line, "\r\n")] = 0;
		cblen = 0;
		cbbuf[0] = 0;
		evlen = 0;
		evbuf[0] = 0;
		op_allocs = 0;
		if (sscanf(line, "%31s", cmd) != 1) {
			printf("bad\n");
			fflush(stdout);
			continue;
		}
		if (!strcmp(cmd, "failat")) {
			sscanf(line, "%*s %lu", &pending_fail);
			printf("ok failat %lu\n", pending_fail);
			fflush(stdout);
			continue;
		}
		fail_at = pending_fail;
		pending_fail = 0;
		if (!strcmp(cmd, "padd") || !strcmp(cmd, "pdel")) {
			struct pfx_record r;
			int rc;

			if (sscanf(line, "%*s %d %7s %255s %u %u %lu %lu", &t, fam, bits, &len, &mx, &asn, &src) != 7 || t < 0 ||
			    t > 1) {
				printf("bad\n");
				goto next;
			}
			bits_to_addr(fam, bits, &r.prefix);
			r.min_len = len;
			r.max_len = mx;
			r.asn = asn;
			r.socket = src_ptr(src);
			LIB(rc = cmd[1] == 'a' ? pfx_table_add(&ptab[t], &r) : pfx_table_remove(&ptab[t], &r));
			printf("%s", prc(rc));
			tail();
		} else if (!strcmp(cmd, "psrcdel")) {
			int rc;

			if (sscanf(line, "%*s %d %lu", &t, &src) != 2 || t < 0 || t > 1) {
				printf("bad\n");
				goto next;
			}
			LIB(rc = pfx_table_src_remove(&ptab[t], src_ptr(src)));
			printf("%s", prc(rc));
			tail();
		} else if (!strcmp(cmd, "pval")) {
			struct lrtr_ip_addr ad;
			struct pfx_record *reason = NULL;
			unsigned int rlen = 0;
			enum pfxv_state st = BGP_PFXV_STATE_NOT_FOUND;
			int rc;
			char item[300];

			if (sscanf(line, "%*s %d %7s %255s %u %lu", &t, fam, bits, &qlen, &asn) != 5 || t < 0 || t > 1) {
				printf("bad\n");
				goto next;
			}
			bits_to_addr(fam, bits, &ad);
			LIB(rc = pfx_table_validate_r(&ptab[t], &reason, &rlen, asn, &ad, qlen, &st));
			if (rc != PFX_SUCCESS) {
				printf("%s res=[]", prc(rc));
			} else {
				printf("%s res=[", st == BGP_PFXV_STATE_VALID ? "VALID" :
						    st == BGP_PFXV_STATE_NOT_FOUND ? "NOT_FOUND" : "INVALID");
				for (unsigned int i = 0; i < rlen; i++) {
					fmt_rec(item, &reason[i]);
					printf("%s%s", i ? " " : "", item);
				}
				printf("]");
			}
			/* the caller releases the reason array through the allocator it installed */
			if (rc == PFX_SUCCESS || reason)
				inj_free(reason);
			tail();
		} else if (!strcmp(cmd, "pfree")) {
			if (sscanf(line, "%*s %d", &t) != 1 || t < 0 || t > 1) {
				printf("bad\n");
				goto next;
			}
			pfx_update_fp fp = ptab[t].update_fp;

			LIB(pfx_table_free(&ptab[t]));
			LIB(pfx_table_init(&ptab[t], fp));
			printf("FREED");
			tail();
		} else if (!strcmp(cmd, "children")) {
			struct trie_node **arr = NULL;
			unsigned int n = 0;
			int rc = 0;

			if (sscanf(line, "%*s %d", &t) != 1 || t < 0 || t > 1) {
				printf("bad\n");
				goto next;
			}
			if (ptab[t].ipv4)
				LIB(rc = trie_get_children(ptab[t].ipv4, &arr, &n));
			printf("rc=%d n=%u", rc, rc == 0 ? n : 0);
			if (rc == 0)
				inj_free(arr);
			tail();
		} else if (!strcmp(cmd, "kadd") || !strcmp(cmd, "krm")) {
			struct spki_record r;
			int rc;

			if (sscanf(line, "%*s %d %lu %lu %lu %lu", &t, &a, &b, &c, &d) != 5 || t < 0 || t > 1) {
				printf("bad\n");
				goto next;
			}
			memset(&r, 0, sizeof(r));
			r.asn = (uint32_t)a;
			enc(r.ski, SKI_SIZE, (uint32_t)b);
			enc(r.spki, SPKI_SIZE, (uint32_t)c);
			r.socket = src_ptr(d);
			LIB(rc = cmd[1] == 'a' ? spki_table_add_entry(&ktab[t], &r) : spki_table_remove_entry(&ktab[t], &r));
			printf("%s", krc(rc));
			tail();
		} else if (!strcmp(cmd, "ksrcrm")) {
			int rc;

			if (sscanf(line, "%*s %d %lu", &t, &src) != 2 || t < 0 || t > 1) {
				printf("bad\n");
				goto next;
			}
			LIB(rc = spki_table_src_remove(&ktab[t], src_ptr(src)));
			printf("%s", krc(rc));
			tail();
		} else if (!strcmp(cmd, "kget") || !strcmp(cmd, "kski")) {
			struct spki_record *res = NULL;
			unsigned int cnt = 0;
			uint8_t ski[SKI_SIZE];
			int rc;
			char item[300];

			if (cmd[1] == 'g') {
				if (sscanf(line, "%*s %d %lu %lu", &t, &a, &b) != 3 || t < 0 || t > 1) {
					printf("bad\n");
					goto next;
				}
				enc(ski, SKI_SIZE, (uint32_t)b);
				LIB(rc = spki_table_get_all(&ktab[t], (uint32_t)a, ski, &res, &cnt));
			} else {
				if (sscanf(line, "%*s %d %lu", &t, &a) != 2 || t < 0 || t > 1) {
					printf("bad\n");
					goto next;
				}
				enc(ski, SKI_SIZE, (uint32_t)a);
				LIB(rc = spki_table_search_by_ski(&ktab[t], ski, &res, &cnt));
			}
			printf("%s res=[", krc(rc));
			if (rc == SPKI_SUCCESS)
				for (unsigned int i = 0; i < cnt; i++) {
					fmt_key(item, sizeof(item), res[i].ski, res[i].spki, res[i].asn, res[i].socket);
					printf("%s%s", i ? " " : "", item);
				}
			printf("]");
			/* the in-tree callers (bgpsec.c) release a non-NULL *result on SPKI_ERROR as well */
			if (rc == SPKI_SUCCESS || res)
				inj_free(res);
			tail();
		} else if (!strcmp(cmd, "kfree")) {
			int rc;

			if (sscanf(line, "%*s %d", &t) != 1 || t < 0 || t > 1) {
				printf("bad\n");
				goto next;
			}
			spki_update_fp fp = ktab[t].update_fp;

			LIB(spki_table_free(&ktab[t]));
			LIB(rc = k_init(&ktab[t], fp));
			if (rc == 0) {
				/* use the new table once: a table whose first segment could not be allocated is not usable */
				struct spki_record *res = NULL;
				unsigned int cnt = 0;
				uint8_t ski[SKI_SIZE];

				enc(ski, SKI_SIZE, 1);
				fail_at = 0;
				LIB(spki_table_get_all(&ktab[t], 1, ski, &res, &cnt));
				printf("FREED");
			} else {
				/* repaired code: the failed initialisation was reported; initialise again without a fault */
				fail_at = 0;
				size_t keep = evlen;
				unsigned long na = op_allocs;

				LIB(k_init(&ktab[t], fp));
				evlen = keep;
				evbuf[evlen] = 0;
				op_allocs = na;
				printf("ERROR");
			}
			tail();
		} else if (!strcmp(cmd, "sync")) {
			int reset = 0, rc;
			char *h = line;

			/* sync <reset> <hex> */
			if (sscanf(line, "%*s %d", &reset) != 1) {
				printf("bad\n");
				goto next;
			}
			h = strchr(line, ' ');
			h = h ? strchr(h + 1, ' ') : NULL;
			if (!h) {
				printf("bad\n");
				goto next;
			}
			h++;
			__real_free(rx);
			rxlen = unhex(h, &rx);
			rxoff = 0;
			sent_pdus = 0;
			txlen = 0;
			txbuf[0] = 0;
			rsock.state = RTR_SYNC;
			rsock.version = 1;
			rsock.is_resetting = false;
			rsock.session_id = 7;
			if (reset) {
				rsock.request_session_id = true;
				rsock.last_update = 5;
			} else {
				rsock.request_session_id = false;
			}
			LIB(rc = rtr_sync(&rsock));
			printf("rc=%d", rc);
			tail_extra = 1;
			tail();
		} else if (!strcmp(cmd, "dump")) {
			dump();
		} else if (!strcmp(cmd, "end")) {
			LIB(pfx_table_free_without_notify(&ptab[0]));
			LIB(pfx_table_free_without_notify(&ptab[1]));
			LIB(spki_table_free_without_notify(&ktab[0]));
			LIB(spki_table_free(&ktab[1]));
			printf("END");
			tail();
			/* fresh tables, so that a following script in the same process starts from nothing */
			pfx_table_init(&ptab[0], pfx_cb);
			pfx_table_init(&ptab[1], NULL);
			k_init(&ktab[0], key_cb);
			k_init(&ktab[1], NULL);
			n_X = n_F = n_L = 0;
		} else {
			printf("bad\n");
		}
next:
		fail_at = 0;
		fflush(stdout);
	}
	return 0;
}
