
val negb : bool -> bool

type nat =
| O
| S of nat

val fst : ('a1 * 'a2) -> 'a1

val snd : ('a1 * 'a2) -> 'a2

val app : 'a1 list -> 'a1 list -> 'a1 list

type comparison =
| Eq
| Lt
| Gt

val compOpp : comparison -> comparison

val add : nat -> nat -> nat

type positive =
| XI of positive
| XO of positive
| XH

type n =
| N0
| Npos of positive

type z =
| Z0
| Zpos of positive
| Zneg of positive

module Pos :
 sig
  val succ : positive -> positive

  val add : positive -> positive -> positive

  val add_carry : positive -> positive -> positive

  val pred_double : positive -> positive

  val pred_N : positive -> n

  val mul : positive -> positive -> positive

  val iter : ('a1 -> 'a1) -> 'a1 -> positive -> 'a1

  val div2 : positive -> positive

  val div2_up : positive -> positive

  val compare_cont : comparison -> positive -> positive -> comparison

  val compare : positive -> positive -> comparison

  val eqb : positive -> positive -> bool

  val coq_Nsucc_double : n -> n

  val coq_Ndouble : n -> n

  val coq_lor : positive -> positive -> positive

  val coq_land : positive -> positive -> n

  val ldiff : positive -> positive -> n

  val coq_lxor : positive -> positive -> n

  val iter_op : ('a1 -> 'a1 -> 'a1) -> positive -> 'a1 -> 'a1

  val to_nat : positive -> nat
 end

module N :
 sig
  val succ_pos : n -> positive

  val coq_lor : n -> n -> n

  val ldiff : n -> n -> n

  val coq_lxor : n -> n -> n
 end

module Z :
 sig
  val double : z -> z

  val succ_double : z -> z

  val pred_double : z -> z

  val pos_sub : positive -> positive -> z

  val add : z -> z -> z

  val opp : z -> z

  val sub : z -> z -> z

  val mul : z -> z -> z

  val pow_pos : z -> positive -> z

  val pow : z -> z -> z

  val compare : z -> z -> comparison

  val leb : z -> z -> bool

  val ltb : z -> z -> bool

  val eqb : z -> z -> bool

  val to_nat : z -> nat

  val of_N : n -> z

  val pos_div_eucl : positive -> z -> z * z

  val div_eucl : z -> z -> z * z

  val div : z -> z -> z

  val modulo : z -> z -> z

  val div2 : z -> z

  val shiftl : z -> z -> z

  val shiftr : z -> z -> z

  val coq_land : z -> z -> z

  val coq_lxor : z -> z -> z
 end

val nth : nat -> 'a1 list -> 'a1 -> 'a1

val map : ('a1 -> 'a2) -> 'a1 list -> 'a2 list

val filter : ('a1 -> bool) -> 'a1 list -> 'a1 list

val find : ('a1 -> bool) -> 'a1 list -> 'a1 option

val firstn : nat -> 'a1 list -> 'a1 list

val repeat : 'a1 -> nat -> 'a1 list

val wrapu : z -> z -> z

val shift_ok : z -> z -> bool

val guard : bool -> 'a1 option -> 'a1 option

val c_SPKI_SUCCESS : z

val c_SPKI_ERROR : z

val c_SPKI_DUPLICATE_RECORD : z

val c_SPKI_RECORD_NOT_FOUND : z

val c_TOMMY_HASHLIN_BIT : z

val tommy_inthash_u32_gen : z -> z option

val upd : nat -> 'a1 -> 'a1 list -> 'a1 list

val remove_first : ('a1 -> bool) -> 'a1 list -> 'a1 list

val sT_STABLE : z

val sT_GROW : z

val sT_SHRINK : z

type 'a node = z * 'a

type 'a hashlin = { bucket_bit : z; bucket_max : z; bucket_mask : z;
                    low_max : z; low_mask : z; split : z; count : z;
                    state : z; buckets : 'a node list list }

val set_buckets : 'a1 hashlin -> 'a1 node list list -> z -> 'a1 hashlin

val set_state : 'a1 hashlin -> z -> 'a1 hashlin

val set_stable : 'a1 hashlin -> 'a1 hashlin

val hl_init : z -> 'a1 hashlin

val get_bucket : 'a1 hashlin -> z -> 'a1 node list

val bucket_pos : 'a1 hashlin -> z -> z

val hl_bucket : 'a1 hashlin -> z -> 'a1 node list

val hl_search : 'a1 hashlin -> ('a1 -> bool) -> z -> 'a1 node option

val split_one : 'a1 hashlin -> 'a1 hashlin

val grow_loop : nat -> z -> 'a1 hashlin -> 'a1 hashlin

val grow_setup : 'a1 hashlin -> 'a1 hashlin

val grow_step : 'a1 hashlin -> 'a1 hashlin

val merge_one : 'a1 hashlin -> 'a1 hashlin

val shrink_finish : 'a1 hashlin -> 'a1 hashlin

val shrink_loop : nat -> z -> 'a1 hashlin -> 'a1 hashlin

val shrink_setup : z -> 'a1 hashlin -> 'a1 hashlin

val shrink_step : z -> 'a1 hashlin -> 'a1 hashlin

val hl_insert : 'a1 hashlin -> z -> 'a1 -> 'a1 hashlin

val hl_remove_first :
  z -> 'a1 hashlin -> z -> ('a1 node -> bool) -> 'a1 hashlin * 'a1 node option

val hl_remove :
  z -> 'a1 hashlin -> ('a1 -> bool) -> z -> 'a1 hashlin * 'a1 node option

val hl_remove_existing :
  z -> 'a1 hashlin -> ('a1 -> 'a1 -> bool) -> 'a1 node -> 'a1 hashlin * 'a1
  node option

type entry = { e_asn : z; e_ski : z; e_spki : z; e_src : z }

val key_entry_cmp : entry -> entry -> bool

type callback = entry * bool

val sPKI_SUCCESS : z

val sPKI_ERROR : z

val sPKI_DUPLICATE_RECORD : z

val sPKI_RECORD_NOT_FOUND : z

val sRC_REMOVE_NOTIFIES : bool

type spki_table = { ht : entry hashlin; lst : entry list }

val spki_init : z -> spki_table

val add_entry :
  (z -> z) -> spki_table -> entry -> (z * spki_table) * callback list

val get_all : (z -> z) -> spki_table -> z -> z -> entry list

val search_by_ski : spki_table -> z -> entry list

val remove_entry :
  (z -> z) -> z -> spki_table -> entry -> (z * spki_table) * callback list

val remove_node : (z -> z) -> z -> spki_table -> entry -> spki_table

val src_remove_walk :
  (z -> z) -> z -> entry list -> z -> spki_table -> spki_table

val src_remove_gen :
  (z -> z) -> z -> bool -> spki_table -> z -> (z * spki_table) * callback list

val src_remove :
  (z -> z) -> z -> spki_table -> z -> (z * spki_table) * callback list

val copy_walk :
  (z -> z) -> entry list -> z -> spki_table -> callback list ->
  (z * spki_table) * callback list

val copy_except_socket :
  (z -> z) -> spki_table -> spki_table -> z -> (z * spki_table) * callback
  list

val swap : spki_table -> spki_table -> spki_table * spki_table

val diff_walk_new :
  (z -> z) -> z -> entry list -> z -> spki_table -> callback list ->
  spki_table * callback list

val notify_diff :
  (z -> z) -> z -> spki_table -> spki_table -> z -> spki_table * callback list

val free_table : z -> spki_table -> spki_table * callback list

val contents : spki_table -> entry list

val real_hash : z -> z

val real_hash_defined : z -> bool

val real_bit0 : z

val m_init : spki_table

val m_add : spki_table -> entry -> (z * spki_table) * callback list

val m_remove : spki_table -> entry -> (z * spki_table) * callback list

val m_src_remove : spki_table -> z -> (z * spki_table) * callback list

val m_src_remove_gen :
  bool -> spki_table -> z -> (z * spki_table) * callback list

val m_get_all : spki_table -> z -> z -> entry list

val m_search_by_ski : spki_table -> z -> entry list

val m_copy : spki_table -> spki_table -> z -> (z * spki_table) * callback list

val m_swap : spki_table -> spki_table -> spki_table * spki_table

val m_notify_diff :
  spki_table -> spki_table -> z -> spki_table * callback list

val m_free : spki_table -> spki_table * callback list

val m_contents : spki_table -> entry list

val m_count : spki_table -> z

val m_shape : spki_table -> ((z * z) * z) * z

val m_src_remove_notifies : bool

val rc_success : z
