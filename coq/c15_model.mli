
val negb : bool -> bool

type nat =
| O
| S of nat

val fst : ('a1 * 'a2) -> 'a1

val snd : ('a1 * 'a2) -> 'a2

val length : 'a1 list -> nat

val app : 'a1 list -> 'a1 list -> 'a1 list

val sub : nat -> nat -> nat

module Nat :
 sig
  val eqb : nat -> nat -> bool

  val leb : nat -> nat -> bool

  val ltb : nat -> nat -> bool
 end

val map : ('a1 -> 'a2) -> 'a1 list -> 'a2 list

val existsb : ('a1 -> bool) -> 'a1 list -> bool

val forallb : ('a1 -> bool) -> 'a1 list -> bool

val repeat : 'a1 -> nat -> 'a1 list

type sstate =
| SConnecting
| SEstablished
| SReset
| SSync
| SFastReconnect
| SErrNoData
| SErrNoIncr
| SErrFatal
| SErrTransport
| SShutdown
| SClosed

type gstatus =
| GClosed
| GConnecting
| GEstablished
| GError

type sock = { s_state : sstate; s_lu : bool; s_thread : bool }

type group = { g_pref : nat; g_status : gstatus; g_socks : sock list }

type config = { c_groups : group list; c_len : nat }

type variant = { fix_init_groups_null : bool;
                 fix_shutdown_counts_closed : bool }

val shipped : variant

val fixed : variant

val current : variant

type rc =
| RcSuccess
| RcError
| RcInvalidParam

type sockid = nat * nat

type out =
| OStatus of nat * gstatus * sockid option * sock list
| OStart of nat * nat * bool
| OStop of nat * nat * nat option
| ORc of rc
| OIgnored
| OUndef

val is_shutdown : sstate -> bool

val is_closed_state : sstate -> bool

val is_down : variant -> sstate -> bool

val sync_state : sstate -> bool

val sstate_eqb : sstate -> sstate -> bool

val st_closed : gstatus -> bool

val st_established : gstatus -> bool

val st_error : gstatus -> bool

val sock_synced : sock -> bool

val group_synced : group -> bool

val map_out : ('a1 -> 'a1 * out list) -> 'a1 list -> 'a1 list * out list

val split_first :
  ('a1 -> bool) -> 'a1 list -> (('a1 list * 'a1) * 'a1 list) option

val split_nth : nat -> 'a1 list -> (('a1 list * 'a1) * 'a1 list) option

val has_pref : nat -> group -> bool

val insert_group : group -> group list -> group list

val sort_groups : group list -> group list

val set_status : group -> gstatus -> sockid option -> group * out list

val cb_shutdown : variant -> group -> nat -> group * out list

val closed_sock : sock

val stop_one :
  variant -> nat option -> nat -> gstatus -> sock list -> sock -> sock list
  -> (sock * gstatus) * out list

val stop_loop :
  variant -> nat option -> nat -> gstatus -> sock list -> sock list -> (sock
  list * gstatus) * out list

val stop_group : variant -> nat option -> group -> group * out list

val start_sock : sock -> sock

val start_loop : nat -> nat -> sock list -> (sock list * bool) * out list

val start_sockets : group -> (group * bool) * out list

val close_one : variant -> nat -> sockid -> group -> group * out list

val establish :
  variant -> group list -> group -> group list -> sockid -> group list * out
  list

val blocks_recovery : nat -> group -> bool

val report :
  group list -> group -> group list -> gstatus -> sockid -> group list * out
  list

val cb_established :
  variant -> group list -> group -> group list -> sockid -> group list * out
  list

val cb_connecting :
  group list -> group -> group list -> sockid -> group list * out list

val start_first_closed : group list -> (group list * out list) option

val cb_error :
  group list -> group -> group list -> sockid -> group list * out list

val mgr_cb :
  variant -> group list -> group -> group list -> nat -> sstate -> group
  list * out list

val sock_event :
  variant -> group list -> nat -> nat -> sstate -> group list * out list

val sock_lu : group list -> nat -> nat -> bool -> group list * out list

val start_first_if_closed : group list -> group list * out list

val mgr_start : config -> config * out list

val mgr_stop : variant -> config -> config * out list

val fresh_sock : sock

type scan =
| ScanFree
| ScanDup
| ScanUndef

val add_scan : nat -> group list -> scan

val mgr_add : config -> nat -> nat -> config * out list

val mgr_remove : variant -> config -> nat -> config * out list

type op =
| OpStart
| OpStop
| OpAdd of nat * nat
| OpRemove of nat
| OpEv of nat * nat * sstate
| OpLu of nat * nat * bool

val step : variant -> config -> op -> config * out list

type init_result =
| IOk of config
| IErr of rc
| IUndef

val init_check : nat option -> group list -> bool

val spec_group : (nat * nat) -> group

val mgr_init : variant -> (nat * nat) list -> init_result
