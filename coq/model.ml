
(** val negb : bool -> bool **)

let negb = function
| true -> false
| false -> true

type nat =
| O
| S of nat

type ('a, 'b) sum =
| Inl of 'a
| Inr of 'b

(** val length : 'a1 list -> nat **)

let rec length = function
| [] -> O
| _ :: l' -> S (length l')

(** val app : 'a1 list -> 'a1 list -> 'a1 list **)

let rec app l m =
  match l with
  | [] -> m
  | a :: l1 -> a :: (app l1 m)

type comparison =
| Eq
| Lt
| Gt

(** val compOpp : comparison -> comparison **)

let compOpp = function
| Eq -> Eq
| Lt -> Gt
| Gt -> Lt

module Coq__1 = struct
 (** val add : nat -> nat -> nat **)
 let rec add n0 m =
   match n0 with
   | O -> m
   | S p -> S (add p m)
end
include Coq__1

(** val eqb : bool -> bool -> bool **)

let eqb b1 b2 =
  if b1 then b2 else if b2 then false else true

module Nat =
 struct
  (** val eqb : nat -> nat -> bool **)

  let rec eqb n0 m =
    match n0 with
    | O -> (match m with
            | O -> true
            | S _ -> false)
    | S n' -> (match m with
               | O -> false
               | S m' -> eqb n' m')

  (** val leb : nat -> nat -> bool **)

  let rec leb n0 m =
    match n0 with
    | O -> true
    | S n' -> (match m with
               | O -> false
               | S m' -> leb n' m')

  (** val ltb : nat -> nat -> bool **)

  let ltb n0 m =
    leb (S n0) m
 end

(** val nth : nat -> 'a1 list -> 'a1 -> 'a1 **)

let rec nth n0 l default =
  match n0 with
  | O -> (match l with
          | [] -> default
          | x :: _ -> x)
  | S m -> (match l with
            | [] -> default
            | _ :: t -> nth m t default)

(** val rev : 'a1 list -> 'a1 list **)

let rec rev = function
| [] -> []
| x :: l' -> app (rev l') (x :: [])

(** val map : ('a1 -> 'a2) -> 'a1 list -> 'a2 list **)

let rec map f = function
| [] -> []
| a :: t -> (f a) :: (map f t)

(** val fold_left : ('a1 -> 'a2 -> 'a1) -> 'a2 list -> 'a1 -> 'a1 **)

let rec fold_left f l a0 =
  match l with
  | [] -> a0
  | b :: t -> fold_left f t (f a0 b)

(** val existsb : ('a1 -> bool) -> 'a1 list -> bool **)

let rec existsb f = function
| [] -> false
| a :: l0 -> (||) (f a) (existsb f l0)

(** val filter : ('a1 -> bool) -> 'a1 list -> 'a1 list **)

let rec filter f = function
| [] -> []
| x :: l0 -> if f x then x :: (filter f l0) else filter f l0

(** val firstn : nat -> 'a1 list -> 'a1 list **)

let rec firstn n0 l =
  match n0 with
  | O -> []
  | S n1 -> (match l with
             | [] -> []
             | a :: l0 -> a :: (firstn n1 l0))

(** val skipn : nat -> 'a1 list -> 'a1 list **)

let rec skipn n0 l =
  match n0 with
  | O -> l
  | S n1 -> (match l with
             | [] -> []
             | _ :: l0 -> skipn n1 l0)

type positive =
| XI of positive
| XO of positive
| XH

type n =
| N0
| Npos of positive

type z =
| Z0
| Zpos of positive
| Zneg of positive

module Pos =
 struct
  (** val succ : positive -> positive **)

  let rec succ = function
  | XI p -> XO (succ p)
  | XO p -> XI p
  | XH -> XO XH

  (** val add : positive -> positive -> positive **)

  let rec add x y =
    match x with
    | XI p ->
      (match y with
       | XI q -> XO (add_carry p q)
       | XO q -> XI (add p q)
       | XH -> XO (succ p))
    | XO p ->
      (match y with
       | XI q -> XI (add p q)
       | XO q -> XO (add p q)
       | XH -> XI p)
    | XH -> (match y with
             | XI q -> XO (succ q)
             | XO q -> XI q
             | XH -> XO XH)

  (** val add_carry : positive -> positive -> positive **)

  and add_carry x y =
    match x with
    | XI p ->
      (match y with
       | XI q -> XI (add_carry p q)
       | XO q -> XO (add_carry p q)
       | XH -> XI (succ p))
    | XO p ->
      (match y with
       | XI q -> XO (add_carry p q)
       | XO q -> XI (add p q)
       | XH -> XO (succ p))
    | XH ->
      (match y with
       | XI q -> XI (succ q)
       | XO q -> XO (succ q)
       | XH -> XI XH)

  (** val pred_double : positive -> positive **)

  let rec pred_double = function
  | XI p -> XI (XO p)
  | XO p -> XI (pred_double p)
  | XH -> XH

  (** val pred_N : positive -> n **)

  let pred_N = function
  | XI p -> Npos (XO p)
  | XO p -> Npos (pred_double p)
  | XH -> N0

  (** val mul : positive -> positive -> positive **)

  let rec mul x y =
    match x with
    | XI p -> add y (XO (mul p y))
    | XO p -> XO (mul p y)
    | XH -> y

  (** val iter : ('a1 -> 'a1) -> 'a1 -> positive -> 'a1 **)

  let rec iter f x = function
  | XI n' -> f (iter f (iter f x n') n')
  | XO n' -> iter f (iter f x n') n'
  | XH -> f x

  (** val div2 : positive -> positive **)

  let div2 = function
  | XI p0 -> p0
  | XO p0 -> p0
  | XH -> XH

  (** val div2_up : positive -> positive **)

  let div2_up = function
  | XI p0 -> succ p0
  | XO p0 -> p0
  | XH -> XH

  (** val compare_cont : comparison -> positive -> positive -> comparison **)

  let rec compare_cont r x y =
    match x with
    | XI p ->
      (match y with
       | XI q -> compare_cont r p q
       | XO q -> compare_cont Gt p q
       | XH -> Gt)
    | XO p ->
      (match y with
       | XI q -> compare_cont Lt p q
       | XO q -> compare_cont r p q
       | XH -> Gt)
    | XH -> (match y with
             | XH -> r
             | _ -> Lt)

  (** val compare : positive -> positive -> comparison **)

  let compare =
    compare_cont Eq

  (** val eqb : positive -> positive -> bool **)

  let rec eqb p q =
    match p with
    | XI p0 -> (match q with
                | XI q0 -> eqb p0 q0
                | _ -> false)
    | XO p0 -> (match q with
                | XO q0 -> eqb p0 q0
                | _ -> false)
    | XH -> (match q with
             | XH -> true
             | _ -> false)

  (** val coq_Nsucc_double : n -> n **)

  let coq_Nsucc_double = function
  | N0 -> Npos XH
  | Npos p -> Npos (XI p)

  (** val coq_Ndouble : n -> n **)

  let coq_Ndouble = function
  | N0 -> N0
  | Npos p -> Npos (XO p)

  (** val coq_lor : positive -> positive -> positive **)

  let rec coq_lor p q =
    match p with
    | XI p0 ->
      (match q with
       | XI q0 -> XI (coq_lor p0 q0)
       | XO q0 -> XI (coq_lor p0 q0)
       | XH -> p)
    | XO p0 ->
      (match q with
       | XI q0 -> XI (coq_lor p0 q0)
       | XO q0 -> XO (coq_lor p0 q0)
       | XH -> XI p0)
    | XH -> (match q with
             | XO q0 -> XI q0
             | _ -> q)

  (** val coq_land : positive -> positive -> n **)

  let rec coq_land p q =
    match p with
    | XI p0 ->
      (match q with
       | XI q0 -> coq_Nsucc_double (coq_land p0 q0)
       | XO q0 -> coq_Ndouble (coq_land p0 q0)
       | XH -> Npos XH)
    | XO p0 ->
      (match q with
       | XI q0 -> coq_Ndouble (coq_land p0 q0)
       | XO q0 -> coq_Ndouble (coq_land p0 q0)
       | XH -> N0)
    | XH -> (match q with
             | XO _ -> N0
             | _ -> Npos XH)

  (** val ldiff : positive -> positive -> n **)

  let rec ldiff p q =
    match p with
    | XI p0 ->
      (match q with
       | XI q0 -> coq_Ndouble (ldiff p0 q0)
       | XO q0 -> coq_Nsucc_double (ldiff p0 q0)
       | XH -> Npos (XO p0))
    | XO p0 ->
      (match q with
       | XI q0 -> coq_Ndouble (ldiff p0 q0)
       | XO q0 -> coq_Ndouble (ldiff p0 q0)
       | XH -> Npos p)
    | XH -> (match q with
             | XO _ -> Npos XH
             | _ -> N0)

  (** val testbit : positive -> n -> bool **)

  let rec testbit p n0 =
    match p with
    | XI p0 -> (match n0 with
                | N0 -> true
                | Npos n1 -> testbit p0 (pred_N n1))
    | XO p0 -> (match n0 with
                | N0 -> false
                | Npos n1 -> testbit p0 (pred_N n1))
    | XH -> (match n0 with
             | N0 -> true
             | Npos _ -> false)

  (** val iter_op : ('a1 -> 'a1 -> 'a1) -> positive -> 'a1 -> 'a1 **)

  let rec iter_op op p a =
    match p with
    | XI p0 -> op a (iter_op op p0 (op a a))
    | XO p0 -> iter_op op p0 (op a a)
    | XH -> a

  (** val to_nat : positive -> nat **)

  let to_nat x =
    iter_op Coq__1.add x (S O)

  (** val of_succ_nat : nat -> positive **)

  let rec of_succ_nat = function
  | O -> XH
  | S x -> succ (of_succ_nat x)
 end

module N =
 struct
  (** val succ_pos : n -> positive **)

  let succ_pos = function
  | N0 -> XH
  | Npos p -> Pos.succ p

  (** val add : n -> n -> n **)

  let add n0 m =
    match n0 with
    | N0 -> m
    | Npos p -> (match m with
                 | N0 -> n0
                 | Npos q -> Npos (Pos.add p q))

  (** val mul : n -> n -> n **)

  let mul n0 m =
    match n0 with
    | N0 -> N0
    | Npos p -> (match m with
                 | N0 -> N0
                 | Npos q -> Npos (Pos.mul p q))

  (** val eqb : n -> n -> bool **)

  let eqb n0 m =
    match n0 with
    | N0 -> (match m with
             | N0 -> true
             | Npos _ -> false)
    | Npos p -> (match m with
                 | N0 -> false
                 | Npos q -> Pos.eqb p q)

  (** val coq_lor : n -> n -> n **)

  let coq_lor n0 m =
    match n0 with
    | N0 -> m
    | Npos p -> (match m with
                 | N0 -> n0
                 | Npos q -> Npos (Pos.coq_lor p q))

  (** val ldiff : n -> n -> n **)

  let ldiff n0 m =
    match n0 with
    | N0 -> N0
    | Npos p -> (match m with
                 | N0 -> n0
                 | Npos q -> Pos.ldiff p q)

  (** val testbit : n -> n -> bool **)

  let testbit a n0 =
    match a with
    | N0 -> false
    | Npos p -> Pos.testbit p n0

  (** val to_nat : n -> nat **)

  let to_nat = function
  | N0 -> O
  | Npos p -> Pos.to_nat p
 end

module Z =
 struct
  (** val double : z -> z **)

  let double = function
  | Z0 -> Z0
  | Zpos p -> Zpos (XO p)
  | Zneg p -> Zneg (XO p)

  (** val succ_double : z -> z **)

  let succ_double = function
  | Z0 -> Zpos XH
  | Zpos p -> Zpos (XI p)
  | Zneg p -> Zneg (Pos.pred_double p)

  (** val pred_double : z -> z **)

  let pred_double = function
  | Z0 -> Zneg XH
  | Zpos p -> Zpos (Pos.pred_double p)
  | Zneg p -> Zneg (XI p)

  (** val pos_sub : positive -> positive -> z **)

  let rec pos_sub x y =
    match x with
    | XI p ->
      (match y with
       | XI q -> double (pos_sub p q)
       | XO q -> succ_double (pos_sub p q)
       | XH -> Zpos (XO p))
    | XO p ->
      (match y with
       | XI q -> pred_double (pos_sub p q)
       | XO q -> double (pos_sub p q)
       | XH -> Zpos (Pos.pred_double p))
    | XH ->
      (match y with
       | XI q -> Zneg (XO q)
       | XO q -> Zneg (Pos.pred_double q)
       | XH -> Z0)

  (** val add : z -> z -> z **)

  let add x y =
    match x with
    | Z0 -> y
    | Zpos x' ->
      (match y with
       | Z0 -> x
       | Zpos y' -> Zpos (Pos.add x' y')
       | Zneg y' -> pos_sub x' y')
    | Zneg x' ->
      (match y with
       | Z0 -> x
       | Zpos y' -> pos_sub y' x'
       | Zneg y' -> Zneg (Pos.add x' y'))

  (** val opp : z -> z **)

  let opp = function
  | Z0 -> Z0
  | Zpos x0 -> Zneg x0
  | Zneg x0 -> Zpos x0

  (** val sub : z -> z -> z **)

  let sub m n0 =
    add m (opp n0)

  (** val mul : z -> z -> z **)

  let mul x y =
    match x with
    | Z0 -> Z0
    | Zpos x' ->
      (match y with
       | Z0 -> Z0
       | Zpos y' -> Zpos (Pos.mul x' y')
       | Zneg y' -> Zneg (Pos.mul x' y'))
    | Zneg x' ->
      (match y with
       | Z0 -> Z0
       | Zpos y' -> Zneg (Pos.mul x' y')
       | Zneg y' -> Zpos (Pos.mul x' y'))

  (** val pow_pos : z -> positive -> z **)

  let pow_pos z0 =
    Pos.iter (mul z0) (Zpos XH)

  (** val pow : z -> z -> z **)

  let pow x = function
  | Z0 -> Zpos XH
  | Zpos p -> pow_pos x p
  | Zneg _ -> Z0

  (** val compare : z -> z -> comparison **)

  let compare x y =
    match x with
    | Z0 -> (match y with
             | Z0 -> Eq
             | Zpos _ -> Lt
             | Zneg _ -> Gt)
    | Zpos x' -> (match y with
                  | Zpos y' -> Pos.compare x' y'
                  | _ -> Gt)
    | Zneg x' ->
      (match y with
       | Zneg y' -> compOpp (Pos.compare x' y')
       | _ -> Lt)

  (** val leb : z -> z -> bool **)

  let leb x y =
    match compare x y with
    | Gt -> false
    | _ -> true

  (** val ltb : z -> z -> bool **)

  let ltb x y =
    match compare x y with
    | Lt -> true
    | _ -> false

  (** val geb : z -> z -> bool **)

  let geb x y =
    match compare x y with
    | Lt -> false
    | _ -> true

  (** val gtb : z -> z -> bool **)

  let gtb x y =
    match compare x y with
    | Gt -> true
    | _ -> false

  (** val eqb : z -> z -> bool **)

  let eqb x y =
    match x with
    | Z0 -> (match y with
             | Z0 -> true
             | _ -> false)
    | Zpos p -> (match y with
                 | Zpos q -> Pos.eqb p q
                 | _ -> false)
    | Zneg p -> (match y with
                 | Zneg q -> Pos.eqb p q
                 | _ -> false)

  (** val max : z -> z -> z **)

  let max n0 m =
    match compare n0 m with
    | Lt -> m
    | _ -> n0

  (** val min : z -> z -> z **)

  let min n0 m =
    match compare n0 m with
    | Gt -> m
    | _ -> n0

  (** val to_nat : z -> nat **)

  let to_nat = function
  | Zpos p -> Pos.to_nat p
  | _ -> O

  (** val of_nat : nat -> z **)

  let of_nat = function
  | O -> Z0
  | S n1 -> Zpos (Pos.of_succ_nat n1)

  (** val of_N : n -> z **)

  let of_N = function
  | N0 -> Z0
  | Npos p -> Zpos p

  (** val pos_div_eucl : positive -> z -> z * z **)

  let rec pos_div_eucl a b =
    match a with
    | XI a' ->
      let (q, r) = pos_div_eucl a' b in
      let r' = add (mul (Zpos (XO XH)) r) (Zpos XH) in
      if ltb r' b
      then ((mul (Zpos (XO XH)) q), r')
      else ((add (mul (Zpos (XO XH)) q) (Zpos XH)), (sub r' b))
    | XO a' ->
      let (q, r) = pos_div_eucl a' b in
      let r' = mul (Zpos (XO XH)) r in
      if ltb r' b
      then ((mul (Zpos (XO XH)) q), r')
      else ((add (mul (Zpos (XO XH)) q) (Zpos XH)), (sub r' b))
    | XH -> if leb (Zpos (XO XH)) b then (Z0, (Zpos XH)) else ((Zpos XH), Z0)

  (** val div_eucl : z -> z -> z * z **)

  let div_eucl a b =
    match a with
    | Z0 -> (Z0, Z0)
    | Zpos a' ->
      (match b with
       | Z0 -> (Z0, a)
       | Zpos _ -> pos_div_eucl a' b
       | Zneg b' ->
         let (q, r) = pos_div_eucl a' (Zpos b') in
         (match r with
          | Z0 -> ((opp q), Z0)
          | _ -> ((opp (add q (Zpos XH))), (add b r))))
    | Zneg a' ->
      (match b with
       | Z0 -> (Z0, a)
       | Zpos _ ->
         let (q, r) = pos_div_eucl a' b in
         (match r with
          | Z0 -> ((opp q), Z0)
          | _ -> ((opp (add q (Zpos XH))), (sub b r)))
       | Zneg b' -> let (q, r) = pos_div_eucl a' (Zpos b') in (q, (opp r)))

  (** val div : z -> z -> z **)

  let div a b =
    let (q, _) = div_eucl a b in q

  (** val modulo : z -> z -> z **)

  let modulo a b =
    let (_, r) = div_eucl a b in r

  (** val odd : z -> bool **)

  let odd = function
  | Z0 -> false
  | Zpos p -> (match p with
               | XO _ -> false
               | _ -> true)
  | Zneg p -> (match p with
               | XO _ -> false
               | _ -> true)

  (** val div2 : z -> z **)

  let div2 = function
  | Z0 -> Z0
  | Zpos p -> (match p with
               | XH -> Z0
               | _ -> Zpos (Pos.div2 p))
  | Zneg p -> Zneg (Pos.div2_up p)

  (** val testbit : z -> z -> bool **)

  let testbit a = function
  | Z0 -> odd a
  | Zpos p ->
    (match a with
     | Z0 -> false
     | Zpos a0 -> Pos.testbit a0 (Npos p)
     | Zneg a0 -> negb (N.testbit (Pos.pred_N a0) (Npos p)))
  | Zneg _ -> false

  (** val shiftl : z -> z -> z **)

  let shiftl a = function
  | Z0 -> a
  | Zpos p -> Pos.iter (mul (Zpos (XO XH))) a p
  | Zneg p -> Pos.iter div2 a p

  (** val shiftr : z -> z -> z **)

  let shiftr a n0 =
    shiftl a (opp n0)

  (** val coq_land : z -> z -> z **)

  let coq_land a b =
    match a with
    | Z0 -> Z0
    | Zpos a0 ->
      (match b with
       | Z0 -> Z0
       | Zpos b0 -> of_N (Pos.coq_land a0 b0)
       | Zneg b0 -> of_N (N.ldiff (Npos a0) (Pos.pred_N b0)))
    | Zneg a0 ->
      (match b with
       | Z0 -> Z0
       | Zpos b0 -> of_N (N.ldiff (Npos b0) (Pos.pred_N a0))
       | Zneg b0 ->
         Zneg (N.succ_pos (N.coq_lor (Pos.pred_N a0) (Pos.pred_N b0))))
 end

type ascii =
| Ascii of bool * bool * bool * bool * bool * bool * bool * bool

(** val n_of_digits : bool list -> n **)

let rec n_of_digits = function
| [] -> N0
| b :: l' ->
  N.add (if b then Npos XH else N0) (N.mul (Npos (XO XH)) (n_of_digits l'))

(** val n_of_ascii : ascii -> n **)

let n_of_ascii = function
| Ascii (a0, a1, a2, a3, a4, a5, a6, a7) ->
  n_of_digits
    (a0 :: (a1 :: (a2 :: (a3 :: (a4 :: (a5 :: (a6 :: (a7 :: []))))))))

(** val nat_of_ascii : ascii -> nat **)

let nat_of_ascii a =
  N.to_nat (n_of_ascii a)

type string =
| EmptyString
| String of ascii * string

type addr = bool list

type elem = { e_asn : n; e_max : nat; e_src : n }

(** val elem_eqb : elem -> elem -> bool **)

let elem_eqb a b =
  (&&) ((&&) (N.eqb a.e_asn b.e_asn) (Nat.eqb a.e_max b.e_max))
    (N.eqb a.e_src b.e_src)

(** val addr_eqb : addr -> addr -> bool **)

let rec addr_eqb a b =
  match a with
  | [] -> (match b with
           | [] -> true
           | _ :: _ -> false)
  | x :: a' ->
    (match b with
     | [] -> false
     | y :: b' -> (&&) (eqb x y) (addr_eqb a' b'))

type trie =
| Leaf
| Node of addr * nat * elem list * trie * trie

type rc =
| SUCCESS
| ERROR
| DUP
| NOTFOUND

type vstate =
| VALID
| NOT_FOUND
| INVALID

(** val bit : addr -> nat -> bool **)

let bit a i =
  nth i a false

(** val push : trie -> nat -> addr -> nat -> elem list -> trie **)

let rec push t lvl p len d =
  match t with
  | Leaf -> Node (p, len, d, Leaf, Leaf)
  | Node (q, ql, qd, l, r) ->
    if Nat.ltb len ql
    then if bit q lvl
         then Node (p, len, d, l, (push r (S lvl) q ql qd))
         else Node (p, len, d, (push l (S lvl) q ql qd), r)
    else if bit p lvl
         then Node (q, ql, qd, l, (push r (S lvl) p len d))
         else Node (q, ql, qd, (push l (S lvl) p len d), r)

(** val add0 : trie -> nat -> addr -> nat -> elem -> trie * rc **)

let rec add0 t lvl p len e =
  match t with
  | Leaf -> ((Node (p, len, (e :: []), Leaf, Leaf)), SUCCESS)
  | Node (q, ql, qd, l, r) ->
    if Nat.ltb len ql
    then ((push t lvl p len (e :: [])), SUCCESS)
    else if (&&) (Nat.eqb ql len) (addr_eqb q p)
         then if existsb (elem_eqb e) qd
              then (t, DUP)
              else ((Node (q, ql, (app qd (e :: [])), l, r)), SUCCESS)
         else if bit p lvl
              then let (r', c) = add0 r (S lvl) p len e in
                   ((Node (q, ql, qd, l, r')), c)
              else let (l', c) = add0 l (S lvl) p len e in
                   ((Node (q, ql, qd, l', r)), c)

(** val pull : trie -> trie **)

let rec pull = function
| Leaf -> Leaf
| Node (_, _, _, l, r) ->
  (match l with
   | Leaf ->
     (match r with
      | Leaf -> Leaf
      | Node (rp, rl, rd, _, _) -> Node (rp, rl, rd, l, (pull r)))
   | Node (lp, ll, ld, _, _) ->
     (match r with
      | Leaf -> Node (lp, ll, ld, (pull l), r)
      | Node (rp, rl, rd, _, _) ->
        if Nat.ltb ll rl
        then Node (lp, ll, ld, (pull l), r)
        else Node (rp, rl, rd, l, (pull r))))

(** val remove_first : elem -> elem list -> elem list **)

let rec remove_first e = function
| [] -> []
| x :: d' -> if elem_eqb e x then d' else x :: (remove_first e d')

(** val remove : trie -> nat -> addr -> nat -> elem -> trie * rc **)

let rec remove t lvl p len e =
  match t with
  | Leaf -> (Leaf, NOTFOUND)
  | Node (q, ql, qd, l, r) ->
    if Nat.ltb len ql
    then (t, NOTFOUND)
    else if (&&) (Nat.eqb ql len) (addr_eqb q p)
         then if existsb (elem_eqb e) qd
              then (match remove_first e qd with
                    | [] -> ((pull t), SUCCESS)
                    | e0 :: l0 -> ((Node (q, ql, (e0 :: l0), l, r)), SUCCESS))
              else (t, NOTFOUND)
         else if bit p lvl
              then let (r', c) = remove r (S lvl) p len e in
                   ((Node (q, ql, qd, l, r')), c)
              else let (l', c) = remove l (S lvl) p len e in
                   ((Node (q, ql, qd, l', r)), c)

(** val size : trie -> nat **)

let rec size = function
| Leaf -> O
| Node (_, _, _, l, r) -> S (add (size l) (size r))

(** val remove_id :
    nat -> trie -> n -> (trie * ((addr * nat) * elem) list) option **)

let rec remove_id fuel t s =
  match fuel with
  | O -> (match t with
          | Leaf -> Some (Leaf, [])
          | Node (_, _, _, _, _) -> None)
  | S f ->
    (match t with
     | Leaf -> Some (Leaf, [])
     | Node (q, ql, qd, l, r) ->
       let gone =
         map (fun e -> ((q, ql), e)) (filter (fun e -> N.eqb e.e_src s) qd)
       in
       (match filter (fun e -> negb (N.eqb e.e_src s)) qd with
        | [] ->
          (match remove_id f (pull t) s with
           | Some p -> let (t', cbs) = p in Some (t', (app gone cbs))
           | None -> None)
        | e :: l0 ->
          (match remove_id f l s with
           | Some p ->
             let (l', cl) = p in
             (match remove_id f r s with
              | Some p0 ->
                let (r', cr) = p0 in
                Some ((Node (q, ql, (e :: l0), l', r')),
                (app gone (app cl cr)))
              | None -> None)
           | None -> None)))

(** val records : trie -> ((addr * nat) * elem) list **)

let rec records = function
| Leaf -> []
| Node (p, len, d, l, r) ->
  app (records l) (app (map (fun e -> ((p, len), e)) d) (records r))

(** val free_cbs : nat -> trie -> ((addr * nat) * elem) list option **)

let rec free_cbs fuel t =
  match fuel with
  | O -> (match t with
          | Leaf -> Some []
          | Node (_, _, _, _, _) -> None)
  | S f ->
    (match t with
     | Leaf -> Some []
     | Node (p, len, d, _, _) ->
       (match free_cbs f (pull t) with
        | Some rest -> Some (app (map (fun e -> ((p, len), e)) d) rest)
        | None -> None))

(** val covers : addr -> nat -> addr -> nat -> bool **)

let covers p len q qlen =
  (&&) (Nat.leb len qlen) (addr_eqb (firstn len p) (firstn len q))

(** val matches : n -> nat -> elem -> bool **)

let matches asn qlen e =
  (&&) ((&&) (negb (N.eqb e.e_asn N0)) (N.eqb e.e_asn asn))
    (Nat.leb qlen e.e_max)

(** val is_leaf : trie -> bool **)

let is_leaf = function
| Leaf -> true
| Node (_, _, _, l, r) ->
  (match l with
   | Leaf -> (match r with
              | Leaf -> true
              | Node (_, _, _, _, _) -> false)
   | Node (_, _, _, _, _) -> false)

(** val val0 :
    trie -> nat -> n -> addr -> nat -> bool -> ((addr * nat) * elem) list ->
    vstate * ((addr * nat) * elem) list **)

let rec val0 t lvl asn q qlen seen acc =
  match t with
  | Leaf -> if seen then (INVALID, acc) else (NOT_FOUND, [])
  | Node (p, len, d, l, r) ->
    let child = if bit q lvl then r else l in
    if covers p len q qlen
    then let acc' = app acc (map (fun e -> ((p, len), e)) d) in
         if existsb (matches asn qlen) d
         then (VALID, acc')
         else val0 child (S lvl) asn q qlen true acc'
    else val0 child (S lvl) asn q qlen seen acc

(** val val_ub :
    nat -> bool -> bool -> trie -> nat -> n -> addr -> nat -> bool **)

let rec val_ub w hz_zero hz_deep t lvl asn q qlen =
  match t with
  | Leaf -> false
  | Node (p, len, d, l, r) ->
    let child = if bit q lvl then r else l in
    let here = (&&) hz_zero (Nat.eqb len O) in
    let stop = (&&) (covers p len q qlen) (existsb (matches asn qlen) d) in
    if here
    then true
    else if stop
         then false
         else if (&&) (negb hz_deep) (is_leaf t)
              then false
              else (||) (Nat.leb w lvl)
                     (val_ub w hz_zero hz_deep child (S lvl) asn q qlen)

type table = { t4 : trie; t6 : trie }

(** val empty_table : table **)

let empty_table =
  { t4 = Leaf; t6 = Leaf }

type cb =
| Added of (((bool * addr) * nat) * elem)
| Removed of (((bool * addr) * nat) * elem)

(** val width : bool -> nat **)

let width = function
| true ->
  S (S (S (S (S (S (S (S (S (S (S (S (S (S (S (S (S (S (S (S (S (S (S (S (S
    (S (S (S (S (S (S (S (S (S (S (S (S (S (S (S (S (S (S (S (S (S (S (S (S
    (S (S (S (S (S (S (S (S (S (S (S (S (S (S (S (S (S (S (S (S (S (S (S (S
    (S (S (S (S (S (S (S (S (S (S (S (S (S (S (S (S (S (S (S (S (S (S (S (S
    (S (S (S (S (S (S (S (S (S (S (S (S (S (S (S (S (S (S (S (S (S (S (S (S
    (S (S (S (S (S (S (S
    O)))))))))))))))))))))))))))))))))))))))))))))))))))))))))))))))))))))))))))))))))))))))))))))))))))))))))))))))))))))))))))))))
| false ->
  S (S (S (S (S (S (S (S (S (S (S (S (S (S (S (S (S (S (S (S (S (S (S (S (S
    (S (S (S (S (S (S (S O)))))))))))))))))))))))))))))))

(** val root : table -> bool -> trie **)

let root t = function
| true -> t.t6
| false -> t.t4

(** val set_root : table -> bool -> trie -> table **)

let set_root t v6 t0 =
  if v6 then { t4 = t.t4; t6 = t0 } else { t4 = t0; t6 = t.t6 }

(** val tag :
    bool -> ((addr * nat) * elem) -> ((bool * addr) * nat) * elem **)

let tag v6 = function
| (p0, e) -> let (p, len) = p0 in (((v6, p), len), e)

(** val trecords : table -> (((bool * addr) * nat) * elem) list **)

let trecords t =
  app (map (tag false) (records t.t4)) (map (tag true) (records t.t6))

(** val tadd :
    table -> (((bool * addr) * nat) * elem) -> (table * rc) * cb list **)

let tadd t r = match r with
| (p0, e) ->
  let (p1, len) = p0 in
  let (v6, p) = p1 in
  let (t', c) = add0 (root t v6) O p len e in
  (match c with
   | SUCCESS -> (((set_root t v6 t'), c), ((Added r) :: []))
   | _ -> ((t, c), []))

(** val tremove :
    table -> (((bool * addr) * nat) * elem) -> (table * rc) * cb list **)

let tremove t r = match r with
| (p0, e) ->
  let (p1, len) = p0 in
  let (v6, p) = p1 in
  let (t', c) = remove (root t v6) O p len e in
  (match c with
   | SUCCESS -> (((set_root t v6 t'), c), ((Removed r) :: []))
   | _ -> ((t, c), []))

(** val tsrc_remove : table -> n -> (table * cb list) option **)

let tsrc_remove t s =
  match remove_id (size t.t4) t.t4 s with
  | Some p ->
    let (a, ca) = p in
    (match remove_id (size t.t6) t.t6 s with
     | Some p0 ->
       let (b, cb6) = p0 in
       Some ({ t4 = a; t6 = b },
       (app (map (fun r -> Removed (tag false r)) ca)
         (map (fun r -> Removed (tag true r)) cb6)))
     | None -> None)
  | None -> None

(** val tfree : table -> cb list option **)

let tfree t =
  match free_cbs (size t.t4) t.t4 with
  | Some a ->
    (match free_cbs (size t.t6) t.t6 with
     | Some b ->
       Some
         (app (map (fun r -> Removed (tag false r)) a)
           (map (fun r -> Removed (tag true r)) b))
     | None -> None)
  | None -> None

(** val tvalidate :
    table -> bool -> n -> addr -> nat ->
    vstate * (((bool * addr) * nat) * elem) list **)

let tvalidate t v6 asn q qlen =
  let (s, rs) = val0 (root t v6) O asn q qlen false [] in
  (s, (map (tag v6) rs))

(** val tvalidate_ub :
    bool -> bool -> table -> bool -> n -> addr -> nat -> bool **)

let tvalidate_ub hz_zero hz_deep t v6 asn q qlen =
  val_ub (width v6) hz_zero hz_deep (root t v6) O asn q qlen

(** val src_of : (((bool * addr) * nat) * elem) -> n **)

let src_of = function
| (_, e) -> e.e_src

(** val tcopy_family :
    table -> (((bool * addr) * nat) * elem) list -> n -> table * bool **)

let tcopy_family dst rs s =
  fold_left (fun acc r ->
    let (t, err) = acc in
    if N.eqb (src_of r) s
    then acc
    else let (p, _) = tadd t r in
         let (t', c) = p in
         (match c with
          | SUCCESS -> (t', err)
          | _ -> (t', true))) rs (dst, false)

(** val tcopy_except : table -> table -> n -> table * bool **)

let tcopy_except src dst s =
  let (d1, e1) = tcopy_family dst (map (tag false) (records src.t4)) s in
  if e1
  then (d1, true)
  else tcopy_family d1 (map (tag true) (records src.t6)) s

(** val tswap : table -> table -> table * table **)

let tswap a b =
  (b, a)

(** val tnotify_diff : table -> table -> n -> cb list * table **)

let tnotify_diff new0 old s =
  let step = fun acc r ->
    let (cbs, o) = acc in
    if N.eqb (src_of r) s
    then let (p, _) = tremove o r in
         let (o', c) = p in
         (match c with
          | SUCCESS -> (cbs, o')
          | ERROR -> ((app cbs ((Added r) :: [])), o')
          | _ -> ((app cbs ((Added r) :: [])), o'))
    else acc
  in
  let (cbs1, old1) = fold_left step (trecords new0) ([], old) in
  ((app cbs1
     (map (fun x -> Removed x)
       (filter (fun r -> N.eqb (src_of r) s) (trecords old1)))), old1)

(** val frec_eqb :
    (((bool * addr) * nat) * elem) -> (((bool * addr) * nat) * elem) -> bool **)

let frec_eqb a b =
  let (p, ea) = a in
  let (p0, la) = p in
  let (va, pa) = p0 in
  let (p1, eb) = b in
  let (p2, lb) = p1 in
  let (vb, pb) = p2 in
  (&&) ((&&) ((&&) (eqb va vb) (addr_eqb pa pb)) (Nat.eqb la lb))
    (elem_eqb ea eb)

(** val sp_mem :
    (((bool * addr) * nat) * elem) -> (((bool * addr) * nat) * elem) list ->
    bool **)

let sp_mem r x =
  existsb (frec_eqb r) x

(** val sp_add :
    (((bool * addr) * nat) * elem) list -> (((bool * addr) * nat) * elem) ->
    (((bool * addr) * nat) * elem) list * rc **)

let sp_add x r =
  if sp_mem r x then (x, DUP) else ((app x (r :: [])), SUCCESS)

(** val sp_remove :
    (((bool * addr) * nat) * elem) list -> (((bool * addr) * nat) * elem) ->
    (((bool * addr) * nat) * elem) list * rc **)

let sp_remove x r =
  if sp_mem r x
  then ((filter (fun x0 -> negb (frec_eqb r x0)) x), SUCCESS)
  else (x, NOTFOUND)

(** val sp_src_remove :
    (((bool * addr) * nat) * elem) list -> n ->
    (((bool * addr) * nat) * elem) list **)

let sp_src_remove x s =
  filter (fun x0 -> negb (N.eqb (src_of x0) s)) x

(** val fcovrec :
    bool -> addr -> nat -> (((bool * addr) * nat) * elem) -> bool **)

let fcovrec v6 q qlen = function
| (p0, _) ->
  let (p1, len) = p0 in
  let (v, p) = p1 in (&&) (eqb v v6) (covers p len q qlen)

(** val fmatrec : n -> nat -> (((bool * addr) * nat) * elem) -> bool **)

let fmatrec asn qlen = function
| (_, e) -> matches asn qlen e

(** val sp_validate :
    (((bool * addr) * nat) * elem) list -> bool -> n -> addr -> nat -> vstate **)

let sp_validate x v6 asn q qlen =
  match filter (fcovrec v6 q qlen) x with
  | [] -> NOT_FOUND
  | p :: l -> if existsb (fmatrec asn qlen) (p :: l) then VALID else INVALID

(** val replay1 :
    (((bool * addr) * nat) * elem) list option -> cb ->
    (((bool * addr) * nat) * elem) list option **)

let replay1 acc c =
  match acc with
  | Some x ->
    (match c with
     | Added r -> if sp_mem r x then None else Some (app x (r :: []))
     | Removed r ->
       if sp_mem r x
       then Some (filter (fun x0 -> negb (frec_eqb r x0)) x)
       else None)
  | None -> None

(** val replay :
    cb list -> (((bool * addr) * nat) * elem) list ->
    (((bool * addr) * nat) * elem) list option **)

let replay cbs x =
  fold_left replay1 cbs (Some x)

(** val wrapu : z -> z -> z **)

let wrapu bits v =
  Z.modulo v (Z.pow (Zpos (XO XH)) bits)

(** val wraps : z -> z -> z **)

let wraps bits v =
  let m = Z.modulo v (Z.pow (Zpos (XO XH)) bits) in
  if Z.ltb m (Z.pow (Zpos (XO XH)) (Z.sub bits (Zpos XH)))
  then m
  else Z.sub m (Z.pow (Zpos (XO XH)) bits)

(** val shift_ok : z -> z -> bool **)

let shift_ok width0 cnt =
  (&&) (Z.leb Z0 cnt) (Z.ltb cnt width0)

(** val notu : z -> z -> z **)

let notu bits v =
  Z.sub (Z.sub (Z.pow (Zpos (XO XH)) bits) (Zpos XH)) v

(** val obind : 'a1 option -> ('a1 -> 'a2 option) -> 'a2 option **)

let obind o f =
  match o with
  | Some a -> f a
  | None -> None

(** val guard : bool -> 'a1 option -> 'a1 option **)

let guard ok k =
  if ok then k else None

(** val c_RTR_CONNECTING : z **)

let c_RTR_CONNECTING =
  Z0

(** val c_RTR_ESTABLISHED : z **)

let c_RTR_ESTABLISHED =
  Zpos XH

(** val c_RTR_RESET : z **)

let c_RTR_RESET =
  Zpos (XO XH)

(** val c_RTR_SYNC : z **)

let c_RTR_SYNC =
  Zpos (XI XH)

(** val c_RTR_FAST_RECONNECT : z **)

let c_RTR_FAST_RECONNECT =
  Zpos (XO (XO XH))

(** val c_RTR_ERROR_NO_DATA_AVAIL : z **)

let c_RTR_ERROR_NO_DATA_AVAIL =
  Zpos (XI (XO XH))

(** val c_RTR_ERROR_NO_INCR_UPDATE_AVAIL : z **)

let c_RTR_ERROR_NO_INCR_UPDATE_AVAIL =
  Zpos (XO (XI XH))

(** val c_RTR_ERROR_FATAL : z **)

let c_RTR_ERROR_FATAL =
  Zpos (XI (XI XH))

(** val c_RTR_ERROR_TRANSPORT : z **)

let c_RTR_ERROR_TRANSPORT =
  Zpos (XO (XO (XO XH)))

(** val c_RTR_SHUTDOWN : z **)

let c_RTR_SHUTDOWN =
  Zpos (XI (XO (XO XH)))

(** val c_RTR_CLOSED : z **)

let c_RTR_CLOSED =
  Zpos (XO (XI (XO XH)))

(** val c_RTR_INTERVAL_MODE_IGNORE_ANY : z **)

let c_RTR_INTERVAL_MODE_IGNORE_ANY =
  Z0

(** val c_RTR_INTERVAL_MODE_ACCEPT_ANY : z **)

let c_RTR_INTERVAL_MODE_ACCEPT_ANY =
  Zpos XH

(** val c_RTR_INTERVAL_MODE_DEFAULT_MIN_MAX : z **)

let c_RTR_INTERVAL_MODE_DEFAULT_MIN_MAX =
  Zpos (XO XH)

(** val c_SERIAL_NOTIFY : z **)

let c_SERIAL_NOTIFY =
  Z0

(** val c_SERIAL_QUERY : z **)

let c_SERIAL_QUERY =
  Zpos XH

(** val c_RESET_QUERY : z **)

let c_RESET_QUERY =
  Zpos (XO XH)

(** val c_CACHE_RESPONSE : z **)

let c_CACHE_RESPONSE =
  Zpos (XI XH)

(** val c_IPV4_PREFIX : z **)

let c_IPV4_PREFIX =
  Zpos (XO (XO XH))

(** val c_IPV6_PREFIX : z **)

let c_IPV6_PREFIX =
  Zpos (XO (XI XH))

(** val c_EOD : z **)

let c_EOD =
  Zpos (XI (XI XH))

(** val c_CACHE_RESET : z **)

let c_CACHE_RESET =
  Zpos (XO (XO (XO XH)))

(** val c_ROUTER_KEY : z **)

let c_ROUTER_KEY =
  Zpos (XI (XO (XO XH)))

(** val c_ERROR : z **)

let c_ERROR =
  Zpos (XO (XI (XO XH)))

(** val c_CORRUPT_DATA : z **)

let c_CORRUPT_DATA =
  Z0

(** val c_NO_DATA_AVAIL : z **)

let c_NO_DATA_AVAIL =
  Zpos (XO XH)

(** val c_UNSUPPORTED_PROTOCOL_VER : z **)

let c_UNSUPPORTED_PROTOCOL_VER =
  Zpos (XO (XO XH))

(** val c_WITHDRAWAL_OF_UNKNOWN_RECORD : z **)

let c_WITHDRAWAL_OF_UNKNOWN_RECORD =
  Zpos (XO (XI XH))

(** val c_DUPLICATE_ANNOUNCEMENT : z **)

let c_DUPLICATE_ANNOUNCEMENT =
  Zpos (XI (XI XH))

(** val c_UNEXPECTED_PROTOCOL_VERSION : z **)

let c_UNEXPECTED_PROTOCOL_VERSION =
  Zpos (XO (XO (XO XH)))

(** val c_RTR_EXPIRATION_MAX : z **)

let c_RTR_EXPIRATION_MAX =
  Zpos (XO (XO (XO (XO (XO (XO (XO (XO (XI (XI (XO (XO (XO (XI (XO (XI (XO
    XH)))))))))))))))))

(** val c_RTR_EXPIRATION_MIN : z **)

let c_RTR_EXPIRATION_MIN =
  Zpos (XO (XO (XO (XI (XI (XO (XI (XO (XO XH)))))))))

(** val c_RTR_MAX_PDU_LEN : z **)

let c_RTR_MAX_PDU_LEN =
  Zpos (XO (XO (XO (XO (XI (XI (XO (XI (XO (XO (XI XH)))))))))))

(** val c_RTR_PROTOCOL_MAX_SUPPORTED_VERSION : z **)

let c_RTR_PROTOCOL_MAX_SUPPORTED_VERSION =
  Zpos XH

(** val c_RTR_PROTOCOL_MIN_SUPPORTED_VERSION : z **)

let c_RTR_PROTOCOL_MIN_SUPPORTED_VERSION =
  Z0

(** val c_RTR_RECV_TIMEOUT : z **)

let c_RTR_RECV_TIMEOUT =
  Zpos (XO (XO (XI (XI (XI XH)))))

(** val c_RTR_REFRESH_MAX : z **)

let c_RTR_REFRESH_MAX =
  Zpos (XO (XO (XO (XO (XO (XO (XO (XI (XI (XO (XO (XO (XI (XO (XI (XO
    XH))))))))))))))))

(** val c_RTR_REFRESH_MIN : z **)

let c_RTR_REFRESH_MIN =
  Zpos XH

(** val c_RTR_RETRY_MAX : z **)

let c_RTR_RETRY_MAX =
  Zpos (XO (XO (XO (XO (XO (XI (XO (XO (XO (XO (XI (XI XH))))))))))))

(** val c_RTR_RETRY_MIN : z **)

let c_RTR_RETRY_MIN =
  Zpos XH

(** val sizeof_pdu_cache_response : z **)

let sizeof_pdu_cache_response =
  Zpos (XO (XO (XO XH)))

(** val sizeof_pdu_end_of_data_v0 : z **)

let sizeof_pdu_end_of_data_v0 =
  Zpos (XO (XO (XI XH)))

(** val sizeof_pdu_end_of_data_v1 : z **)

let sizeof_pdu_end_of_data_v1 =
  Zpos (XO (XO (XO (XI XH))))

(** val sizeof_pdu_header : z **)

let sizeof_pdu_header =
  Zpos (XO (XO (XO XH)))

(** val sizeof_pdu_ipv4 : z **)

let sizeof_pdu_ipv4 =
  Zpos (XO (XO (XI (XO XH))))

(** val sizeof_pdu_ipv6 : z **)

let sizeof_pdu_ipv6 =
  Zpos (XO (XO (XO (XO (XO XH)))))

(** val sizeof_pdu_reset_query : z **)

let sizeof_pdu_reset_query =
  Zpos (XO (XO (XO XH)))

(** val sizeof_pdu_router_key : z **)

let sizeof_pdu_router_key =
  Zpos (XI (XI (XO (XI (XI (XI XH))))))

(** val sizeof_pdu_serial_notify : z **)

let sizeof_pdu_serial_notify =
  Zpos (XO (XO (XI XH)))

(** val sizeof_pdu_serial_query : z **)

let sizeof_pdu_serial_query =
  Zpos (XO (XO (XI XH)))

(** val lrtr_get_bits_gen : z -> z -> z -> z option **)

let lrtr_get_bits_gen v_val v_from v_number =
  guard
    (Z.ltb (wraps (Zpos (XO (XO (XO (XO (XO XH)))))) v_number) (Zpos (XI (XO
      (XO (XO (XO XH)))))))
    (if Z.eqb (wraps (Zpos (XO (XO (XO (XO (XO XH)))))) v_number) Z0
     then Some (wrapu (Zpos (XO (XO (XO (XO (XO XH)))))) Z0)
     else let v_mask =
            wrapu (Zpos (XO (XO (XO (XO (XO XH))))))
              (Z.sub (Z.opp Z0) (Zpos XH))
          in
          obind
            (if negb
                  (Z.eqb (wraps (Zpos (XO (XO (XO (XO (XO XH)))))) v_number)
                    (Zpos (XO (XO (XO (XO (XO XH)))))))
             then guard
                    (shift_ok (Zpos (XO (XO (XO (XO (XO XH))))))
                      (wraps (Zpos (XO (XO (XO (XO (XO XH)))))) v_number))
                    (let v_mask0 =
                       notu (Zpos (XO (XO (XO (XO (XO XH))))))
                         (Z.shiftr v_mask
                           (wraps (Zpos (XO (XO (XO (XO (XO XH)))))) v_number))
                     in
                     Some v_mask0)
             else Some v_mask) (fun v_mask0 ->
            guard
              (shift_ok (Zpos (XO (XO (XO (XO (XO XH))))))
                (wraps (Zpos (XO (XO (XO (XO (XO XH)))))) v_from))
              (let v_mask1 =
                 wrapu (Zpos (XO (XO (XO (XO (XO XH))))))
                   (Z.shiftr v_mask0
                     (wraps (Zpos (XO (XO (XO (XO (XO XH)))))) v_from))
               in
               Some (Z.coq_land v_mask1 v_val))))

(** val hz_zero_code : bool **)

let hz_zero_code =
  match lrtr_get_bits_gen Z0 Z0 Z0 with
  | Some _ -> false
  | None -> true

type byte = z

(** val be16 : byte -> byte -> z **)

let be16 a b =
  Z.add (Z.mul a (Zpos (XO (XO (XO (XO (XO (XO (XO (XO XH)))))))))) b

(** val be32 : byte -> byte -> byte -> byte -> z **)

let be32 a b c d =
  Z.add
    (Z.mul
      (Z.add
        (Z.mul
          (Z.add (Z.mul a (Zpos (XO (XO (XO (XO (XO (XO (XO (XO XH))))))))))
            b) (Zpos (XO (XO (XO (XO (XO (XO (XO (XO XH)))))))))) c) (Zpos
      (XO (XO (XO (XO (XO (XO (XO (XO XH)))))))))) d

(** val enc16 : z -> byte list **)

let enc16 v =
  (Z.modulo (Z.div v (Zpos (XO (XO (XO (XO (XO (XO (XO (XO XH)))))))))) (Zpos
    (XO (XO (XO (XO (XO (XO (XO (XO XH)))))))))) :: ((Z.modulo v (Zpos (XO
                                                       (XO (XO (XO (XO (XO
                                                       (XO (XO XH)))))))))) :: [])

(** val enc32 : z -> byte list **)

let enc32 v =
  (Z.modulo
    (Z.div v (Zpos (XO (XO (XO (XO (XO (XO (XO (XO (XO (XO (XO (XO (XO (XO
      (XO (XO (XO (XO (XO (XO (XO (XO (XO (XO XH))))))))))))))))))))))))))
    (Zpos (XO (XO (XO (XO (XO (XO (XO (XO XH)))))))))) :: ((Z.modulo
                                                             (Z.div v (Zpos
                                                               (XO (XO (XO
                                                               (XO (XO (XO
                                                               (XO (XO (XO
                                                               (XO (XO (XO
                                                               (XO (XO (XO
                                                               (XO
                                                               XH))))))))))))))))))
                                                             (Zpos (XO (XO
                                                             (XO (XO (XO (XO
                                                             (XO (XO
                                                             XH)))))))))) :: (
    (Z.modulo (Z.div v (Zpos (XO (XO (XO (XO (XO (XO (XO (XO XH))))))))))
      (Zpos (XO (XO (XO (XO (XO (XO (XO (XO XH)))))))))) :: ((Z.modulo v
                                                               (Zpos (XO (XO
                                                               (XO (XO (XO
                                                               (XO (XO (XO
                                                               XH)))))))))) :: [])))

(** val nthb : byte list -> nat -> byte **)

let nthb l i =
  nth i l Z0

(** val get16 : byte list -> nat -> z **)

let get16 l off =
  be16 (nthb l off) (nthb l (S off))

(** val get32 : byte list -> nat -> z **)

let get32 l off =
  be32 (nthb l off) (nthb l (add (S O) off)) (nthb l (add (S (S O)) off))
    (nthb l (add (S (S (S O))) off))

(** val zlen : 'a1 list -> z **)

let zlen l =
  Z.of_nat (length l)

(** val bits_of_bytes : byte list -> bool list **)

let rec bits_of_bytes = function
| [] -> []
| b :: r ->
  app
    (map (fun i -> Z.testbit b (Z.of_nat i)) ((S (S (S (S (S (S (S
      O))))))) :: ((S (S (S (S (S (S O)))))) :: ((S (S (S (S (S O))))) :: ((S
      (S (S (S O)))) :: ((S (S (S O))) :: ((S (S O)) :: ((S
      O) :: (O :: []))))))))) (bits_of_bytes r)

(** val list_eqb : ('a1 -> 'a1 -> bool) -> 'a1 list -> 'a1 list -> bool **)

let rec list_eqb eqb0 a b =
  match a with
  | [] -> (match b with
           | [] -> true
           | _ :: _ -> false)
  | x :: a' ->
    (match b with
     | [] -> false
     | y :: b' -> (&&) (eqb0 x y) (list_eqb eqb0 a' b'))

(** val prec_eqb :
    (((((bool * bool list) * z) * z) * z) * z) -> (((((bool * bool
    list) * z) * z) * z) * z) -> bool **)

let prec_eqb a b =
  let (p, sa) = a in
  let (p0, aa) = p in
  let (p1, ma) = p0 in
  let (p2, la) = p1 in
  let (fa, pa) = p2 in
  let (p3, sb) = b in
  let (p4, ab) = p3 in
  let (p5, mb) = p4 in
  let (p6, lb) = p5 in
  let (fb, pb) = p6 in
  (&&)
    ((&&)
      ((&&) ((&&) ((&&) (eqb fa fb) (list_eqb eqb pa pb)) (Z.eqb la lb))
        (Z.eqb ma mb)) (Z.eqb aa ab)) (Z.eqb sa sb)

(** val krec_eqb :
    (((z * byte list) * byte list) * z) -> (((z * byte list) * byte
    list) * z) -> bool **)

let krec_eqb a b =
  let (p, sa) = a in
  let (p0, pa) = p in
  let (aa, ka) = p0 in
  let (p1, sb) = b in
  let (p2, pb) = p1 in
  let (ab, kb) = p2 in
  (&&)
    ((&&) ((&&) (Z.eqb aa ab) (list_eqb Z.eqb ka kb)) (list_eqb Z.eqb pa pb))
    (Z.eqb sa sb)

(** val psrc : (((((bool * bool list) * z) * z) * z) * z) -> z **)

let psrc = function
| (_, s) -> s

(** val ksrc : (((z * byte list) * byte list) * z) -> z **)

let ksrc = function
| (_, s) -> s

type ev =
| EvData of byte list
| EvErr of z
| EvWait of z
| EvStop

type titem =
| TOpen of bool * z
| TClose
| TSend of byte list
| TSendFail of z
| TRecvN of z * z
| TRecvWB of z * z
| TRecvErr of z * z
| TRecvStop of z
| TSleep of z
| TState of z
| TPfx of bool * (((((bool * bool list) * z) * z) * z) * z)
| TKey of bool * (((z * byte list) * byte list) * z)
| TEnd of z
| TStopping
| TDump of z * z list * (((((bool * bool list) * z) * z) * z) * z) list
   * (((z * byte list) * byte list) * z) list

type sock = { st : z; version : z; session_id : z; req_sess : bool;
              serial : z; last_update : z; refresh_iv : z; expire_iv : 
              z; retry_iv : z; iv_mode : z; has_recv : bool; resetting : 
              bool }

type world = { sk : sock;
               pfx : (((((bool * bool list) * z) * z) * z) * z) list;
               keys : (((z * byte list) * byte list) * z) list;
               evs : ev list; opens : bool list; sends : z list; now : 
               z; out : titem list }

type exc =
| XEnd of z
| XStop

type 'a res =
| Ok of 'a * world
| Exc of exc * world

(** val bind :
    (world -> 'a1 res) -> ('a1 -> world -> 'a2 res) -> world -> 'a2 res **)

let bind m f w =
  match m w with
  | Ok (a, w') -> f a w'
  | Exc (e, w') -> Exc (e, w')

(** val ret : 'a1 -> world -> 'a1 res **)

let ret a w =
  Ok (a, w)

(** val emit : titem -> world -> unit res **)

let emit t w =
  Ok ((), { sk = w.sk; pfx = w.pfx; keys = w.keys; evs = w.evs; opens =
    w.opens; sends = w.sends; now = w.now; out = (t :: w.out) })

(** val get_sk : world -> sock res **)

let get_sk w =
  Ok (w.sk, w)

(** val set_sk : sock -> world -> unit res **)

let set_sk s w =
  Ok ((), { sk = s; pfx = w.pfx; keys = w.keys; evs = w.evs; opens = w.opens;
    sends = w.sends; now = w.now; out = w.out })

(** val get_now : world -> z res **)

let get_now w =
  Ok (w.now, w)

(** val get_w : world -> world res **)

let get_w w =
  Ok (w, w)

(** val set_tables :
    (((((bool * bool list) * z) * z) * z) * z) list -> (((z * byte
    list) * byte list) * z) list -> world -> unit res **)

let set_tables p k w =
  Ok ((), { sk = w.sk; pfx = p; keys = k; evs = w.evs; opens = w.opens;
    sends = w.sends; now = w.now; out = w.out })

(** val upd_st : sock -> z -> sock **)

let upd_st s v =
  { st = v; version = s.version; session_id = s.session_id; req_sess =
    s.req_sess; serial = s.serial; last_update = s.last_update; refresh_iv =
    s.refresh_iv; expire_iv = s.expire_iv; retry_iv = s.retry_iv; iv_mode =
    s.iv_mode; has_recv = s.has_recv; resetting = s.resetting }

(** val upd_version : sock -> z -> sock **)

let upd_version s v =
  { st = s.st; version = v; session_id = s.session_id; req_sess = s.req_sess;
    serial = s.serial; last_update = s.last_update; refresh_iv =
    s.refresh_iv; expire_iv = s.expire_iv; retry_iv = s.retry_iv; iv_mode =
    s.iv_mode; has_recv = s.has_recv; resetting = s.resetting }

(** val upd_session : sock -> z -> sock **)

let upd_session s v =
  { st = s.st; version = s.version; session_id = v; req_sess = s.req_sess;
    serial = s.serial; last_update = s.last_update; refresh_iv =
    s.refresh_iv; expire_iv = s.expire_iv; retry_iv = s.retry_iv; iv_mode =
    s.iv_mode; has_recv = s.has_recv; resetting = s.resetting }

(** val upd_req : sock -> bool -> sock **)

let upd_req s v =
  { st = s.st; version = s.version; session_id = s.session_id; req_sess = v;
    serial = s.serial; last_update = s.last_update; refresh_iv =
    s.refresh_iv; expire_iv = s.expire_iv; retry_iv = s.retry_iv; iv_mode =
    s.iv_mode; has_recv = s.has_recv; resetting = s.resetting }

(** val upd_serial : sock -> z -> sock **)

let upd_serial s v =
  { st = s.st; version = s.version; session_id = s.session_id; req_sess =
    s.req_sess; serial = v; last_update = s.last_update; refresh_iv =
    s.refresh_iv; expire_iv = s.expire_iv; retry_iv = s.retry_iv; iv_mode =
    s.iv_mode; has_recv = s.has_recv; resetting = s.resetting }

(** val upd_last : sock -> z -> sock **)

let upd_last s v =
  { st = s.st; version = s.version; session_id = s.session_id; req_sess =
    s.req_sess; serial = s.serial; last_update = v; refresh_iv =
    s.refresh_iv; expire_iv = s.expire_iv; retry_iv = s.retry_iv; iv_mode =
    s.iv_mode; has_recv = s.has_recv; resetting = s.resetting }

(** val upd_ivs : sock -> z -> z -> z -> sock **)

let upd_ivs s r e t =
  { st = s.st; version = s.version; session_id = s.session_id; req_sess =
    s.req_sess; serial = s.serial; last_update = s.last_update; refresh_iv =
    r; expire_iv = e; retry_iv = t; iv_mode = s.iv_mode; has_recv =
    s.has_recv; resetting = s.resetting }

(** val upd_hasrecv : sock -> bool -> sock **)

let upd_hasrecv s v =
  { st = s.st; version = s.version; session_id = s.session_id; req_sess =
    s.req_sess; serial = s.serial; last_update = s.last_update; refresh_iv =
    s.refresh_iv; expire_iv = s.expire_iv; retry_iv = s.retry_iv; iv_mode =
    s.iv_mode; has_recv = v; resetting = s.resetting }

(** val upd_resetting : sock -> bool -> sock **)

let upd_resetting s v =
  { st = s.st; version = s.version; session_id = s.session_id; req_sess =
    s.req_sess; serial = s.serial; last_update = s.last_update; refresh_iv =
    s.refresh_iv; expire_iv = s.expire_iv; retry_iv = s.retry_iv; iv_mode =
    s.iv_mode; has_recv = s.has_recv; resetting = v }

(** val modify_sk : (sock -> sock) -> world -> unit res **)

let modify_sk f =
  bind get_sk (fun s -> set_sk (f s))

(** val change_state : z -> world -> unit res **)

let change_state ns =
  bind get_sk (fun s ->
    if Z.eqb s.st ns
    then ret ()
    else if Z.eqb s.st c_RTR_SHUTDOWN
         then ret ()
         else bind (set_sk (upd_st s ns)) (fun _ -> emit (TState ns)))

(** val tr_recv_evs :
    ev list -> z -> z -> z -> z -> (((z, byte list) sum option * ev
    list) * z) * titem list **)

let rec tr_recv_evs es len timeout left t =
  match es with
  | [] -> (((None, []), t), [])
  | e :: rest ->
    (match e with
     | EvData b ->
       (match b with
        | [] -> tr_recv_evs rest len timeout left t
        | _ :: _ ->
          let n0 = Z.min len (zlen b) in
          let got = firstn (Z.to_nat n0) b in
          let lft = skipn (Z.to_nat n0) b in
          ((((Some (Inr got)),
          (match lft with
           | [] -> rest
           | _ :: _ -> (EvData lft) :: rest)), t), ((TRecvN (timeout,
          n0)) :: [])))
     | EvErr c ->
       ((((Some (Inl (Z.opp c))), rest), t), ((TRecvErr (timeout,
         (Z.opp c))) :: []))
     | EvWait v ->
       if Z.leb v left
       then tr_recv_evs rest len timeout (Z.sub left v) (Z.add t v)
       else ((((Some (Inl (Zneg (XO XH)))), ((EvWait
              (Z.sub v left)) :: rest)), (Z.add t left)), ((TRecvWB (timeout,
              (Z.add t left))) :: []))
     | EvStop ->
       ((((Some (Inl (Zneg (XI (XI (XO (XO (XO (XI XH))))))))), rest), t),
         ((TRecvStop timeout) :: [])))

(** val tr_recv : z -> z -> world -> (z, byte list) sum res **)

let tr_recv len timeout w =
  let left = Z.max Z0 timeout in
  let (p, tr) = tr_recv_evs w.evs len timeout left w.now in
  let (p0, t) = p in
  let (o, es) = p0 in
  (match o with
   | Some s ->
     (match s with
      | Inl c ->
        let w' = { sk = w.sk; pfx = w.pfx; keys = w.keys; evs = es; opens =
          w.opens; sends = w.sends; now = t; out = (app tr w.out) }
        in
        if Z.eqb c (Zneg (XI (XI (XO (XO (XO (XI XH)))))))
        then Exc (XStop, w')
        else Ok ((Inl c), w')
      | Inr b ->
        Ok ((Inr b), { sk = w.sk; pfx = w.pfx; keys = w.keys; evs = es;
          opens = w.opens; sends = w.sends; now = t; out = (app tr w.out) }))
   | None ->
     Exc ((XEnd (Zpos XH)), { sk = w.sk; pfx = w.pfx; keys = w.keys; evs =
       es; opens = w.opens; sends = w.sends; now = t; out = ((TEnd (Zpos
       XH)) :: (app tr w.out)) }))

(** val tr_recv_all_loop :
    nat -> z -> z -> byte list -> world -> (z, byte list) sum res **)

let rec tr_recv_all_loop fuel len end_time acc =
  match fuel with
  | O -> ret (Inr acc)
  | S f ->
    if Z.geb (zlen acc) len
    then ret (Inr acc)
    else bind get_now (fun t ->
           bind (tr_recv (Z.sub len (zlen acc)) (Z.sub end_time t)) (fun r ->
             match r with
             | Inl c -> ret (Inl c)
             | Inr b -> tr_recv_all_loop f len end_time (app acc b)))

(** val tr_recv_all : z -> z -> world -> (z, byte list) sum res **)

let tr_recv_all len timeout =
  bind get_now (fun t ->
    tr_recv_all_loop (Z.to_nat len) len (Z.add t timeout) [])

(** val tr_send : byte list -> world -> z res **)

let tr_send b w =
  match w.sends with
  | [] ->
    let beh = Zpos (XO (XO (XO (XO (XO (XO (XI (XO (XO (XI (XO (XO (XO (XO
      (XI (XO (XI (XI (XI XH)))))))))))))))))))
    in
    let rest = [] in
    if Z.ltb beh Z0
    then Ok (beh, { sk = w.sk; pfx = w.pfx; keys = w.keys; evs = w.evs;
           opens = w.opens; sends = rest; now = w.now; out = ((TSendFail
           beh) :: w.out) })
    else let n0 =
           Z.min (zlen b)
             (Z.min beh (Zpos (XO (XO (XO (XO (XO (XO (XO (XO (XO (XO (XO (XO
               (XO XH)))))))))))))))
         in
         Ok (n0, { sk = w.sk; pfx = w.pfx; keys = w.keys; evs = w.evs;
         opens = w.opens; sends = rest; now = w.now; out = ((TSend
         (firstn (Z.to_nat n0) b)) :: w.out) })
  | x :: r ->
    if Z.ltb x Z0
    then Ok (x, { sk = w.sk; pfx = w.pfx; keys = w.keys; evs = w.evs; opens =
           w.opens; sends = r; now = w.now; out = ((TSendFail x) :: w.out) })
    else let n0 =
           Z.min (zlen b)
             (Z.min x (Zpos (XO (XO (XO (XO (XO (XO (XO (XO (XO (XO (XO (XO
               (XO XH)))))))))))))))
         in
         Ok (n0, { sk = w.sk; pfx = w.pfx; keys = w.keys; evs = w.evs;
         opens = w.opens; sends = r; now = w.now; out = ((TSend
         (firstn (Z.to_nat n0) b)) :: w.out) })

(** val tr_send_all_loop : nat -> byte list -> z -> world -> z res **)

let rec tr_send_all_loop fuel b total =
  match fuel with
  | O -> ret total
  | S f ->
    (match b with
     | [] -> ret total
     | _ :: _ ->
       bind (tr_send b) (fun r ->
         if Z.ltb r Z0
         then ret r
         else if Z.eqb r Z0
              then ret (Zneg (XO (XO (XO (XI (XO (XI (XI (XI (XI XH))))))))))
              else tr_send_all_loop f (skipn (Z.to_nat r) b) (Z.add total r)))

(** val tr_send_all : byte list -> world -> z res **)

let tr_send_all b =
  tr_send_all_loop (length b) b Z0

(** val tr_open : world -> bool res **)

let tr_open w =
  match w.opens with
  | [] ->
    Exc ((XEnd (Zpos (XO XH))), { sk = w.sk; pfx = w.pfx; keys = w.keys;
      evs = w.evs; opens = []; sends = w.sends; now = w.now; out = ((TEnd
      (Zpos (XO XH))) :: w.out) })
  | b :: r ->
    Ok (b, { sk = w.sk; pfx = w.pfx; keys = w.keys; evs = w.evs; opens = r;
      sends = w.sends; now = w.now; out = ((TOpen (b, w.now)) :: w.out) })

(** val tr_close : world -> unit res **)

let tr_close =
  emit TClose

(** val do_sleep : z -> world -> unit res **)

let do_sleep n0 w =
  Ok ((), { sk = w.sk; pfx = w.pfx; keys = w.keys; evs = w.evs; opens =
    w.opens; sends = w.sends; now = (Z.add w.now n0); out = ((TSleep
    n0) :: w.out) })

(** val send_pdu : byte list -> world -> z res **)

let send_pdu b =
  bind get_sk (fun s ->
    if Z.eqb s.st c_RTR_SHUTDOWN
    then ret (Zneg XH)
    else bind (tr_send_all b) (fun r ->
           ret (if Z.gtb r Z0 then Z0 else Zneg XH)))

(** val str_bytes : string -> byte list **)

let rec str_bytes = function
| EmptyString -> []
| String (c, r) -> (Z.of_nat (nat_of_ascii c)) :: (str_bytes r)

(** val send_error_pdu : byte list -> z -> byte list -> world -> z res **)

let send_error_pdu enc code text =
  bind get_sk (fun s ->
    if (&&) (Z.leb (Zpos (XO XH)) (zlen enc)) (Z.eqb (nthb enc (S O)) c_ERROR)
    then ret Z0
    else let len =
           Z.add (Z.add (Zpos (XO (XO (XO (XO XH))))) (zlen enc)) (zlen text)
         in
         send_pdu
           (app
             ((Z.modulo s.version (Zpos (XO (XO (XO (XO (XO (XO (XO (XO
                XH)))))))))) :: (c_ERROR :: []))
             (app (enc16 code)
               (app (enc32 len)
                 (app (enc32 (zlen enc))
                   (app enc (app (enc32 (zlen text)) text)))))))

(** val send_error_from_host :
    byte list -> z -> byte list -> world -> z res **)

let send_error_from_host enc code text =
  if Z.eqb (zlen enc) Z0
  then send_error_pdu [] code text
  else if Z.ltb (zlen enc) (Zpos (XO (XO (XO XH))))
       then ret (Zneg XH)
       else send_error_pdu enc code text

(** val send_serial_query : world -> z res **)

let send_serial_query =
  bind get_sk (fun s ->
    bind
      (send_pdu
        (app
          ((Z.modulo s.version (Zpos (XO (XO (XO (XO (XO (XO (XO (XO
             XH)))))))))) :: (c_SERIAL_QUERY :: []))
          (app
            (enc16
              (Z.modulo s.session_id (Zpos (XO (XO (XO (XO (XO (XO (XO (XO
                (XO (XO (XO (XO (XO (XO (XO (XO XH)))))))))))))))))))
            (app (enc32 (Zpos (XO (XO (XI XH))))) (enc32 s.serial)))))
      (fun r ->
      if Z.eqb r Z0
      then ret Z0
      else bind (change_state c_RTR_ERROR_TRANSPORT) (fun _ -> ret (Zneg XH))))

(** val send_reset_query : world -> z res **)

let send_reset_query =
  bind get_sk (fun s ->
    bind
      (send_pdu
        (app
          ((Z.modulo s.version (Zpos (XO (XO (XO (XO (XO (XO (XO (XO
             XH)))))))))) :: (c_RESET_QUERY :: []))
          (app (enc16 Z0) (enc32 (Zpos (XO (XO (XO XH)))))))) (fun r ->
      if Z.eqb r Z0
      then ret Z0
      else bind (change_state c_RTR_ERROR_TRANSPORT) (fun _ -> ret (Zneg XH))))

(** val check_size : byte list -> bool **)

let check_size p =
  let ver = nthb p O in
  let ty = nthb p (S O) in
  let len = get32 p (S (S (S (S O)))) in
  if Z.eqb ty c_SERIAL_NOTIFY
  then Z.eqb len sizeof_pdu_serial_notify
  else if Z.eqb ty c_CACHE_RESPONSE
       then Z.eqb len sizeof_pdu_cache_response
       else if Z.eqb ty c_IPV4_PREFIX
            then Z.eqb len sizeof_pdu_ipv4
            else if Z.eqb ty c_IPV6_PREFIX
                 then Z.eqb len sizeof_pdu_ipv6
                 else if Z.eqb ty c_EOD
                      then (||)
                             ((&&) (Z.eqb ver Z0)
                               (Z.eqb len sizeof_pdu_end_of_data_v0))
                             ((&&) (Z.eqb ver (Zpos XH))
                               (Z.eqb len sizeof_pdu_end_of_data_v1))
                      else if Z.eqb ty c_CACHE_RESET
                           then Z.eqb len sizeof_pdu_header
                           else if Z.eqb ty c_ROUTER_KEY
                                then Z.eqb len sizeof_pdu_router_key
                                else if Z.eqb ty c_ERROR
                                     then if Z.ltb len (Zpos (XO (XO (XO (XO
                                               XH)))))
                                          then false
                                          else let el =
                                                 get32 p (S (S (S (S (S (S (S
                                                   (S O))))))))
                                               in
                                               if Z.ltb len
                                                    (Z.add (Zpos (XO (XO (XO
                                                      (XO XH))))) el)
                                               then false
                                               else let tl =
                                                      get32 p
                                                        (Z.to_nat
                                                          (Z.add (Zpos (XO
                                                            (XO (XI XH)))) el))
                                                    in
                                                    Z.eqb len
                                                      (Z.add
                                                        (Z.add (Zpos (XO (XO
                                                          (XO (XO XH))))) el)
                                                        tl)
                                     else if Z.eqb ty c_SERIAL_QUERY
                                          then Z.eqb len
                                                 sizeof_pdu_serial_query
                                          else if Z.eqb ty c_RESET_QUERY
                                               then Z.eqb len
                                                      sizeof_pdu_reset_query
                                               else false

(** val txt_too_small : byte list **)

let txt_too_small =
  app
    (str_bytes (String ((Ascii (true, true, false, false, false, true, true,
      false)), (String ((Ascii (true, true, true, true, false, true, true,
      false)), (String ((Ascii (false, true, false, false, true, true, true,
      false)), (String ((Ascii (false, true, false, false, true, true, true,
      false)), (String ((Ascii (true, false, true, false, true, true, true,
      false)), (String ((Ascii (false, false, false, false, true, true, true,
      false)), (String ((Ascii (false, false, true, false, true, true, true,
      false)), (String ((Ascii (false, false, false, false, false, true,
      false, false)), (String ((Ascii (false, false, true, false, false,
      true, true, false)), (String ((Ascii (true, false, false, false, false,
      true, true, false)), (String ((Ascii (false, false, true, false, true,
      true, true, false)), (String ((Ascii (true, false, false, false, false,
      true, true, false)), (String ((Ascii (false, false, false, false,
      false, true, false, false)), (String ((Ascii (false, true, false,
      false, true, true, true, false)), (String ((Ascii (true, false, true,
      false, false, true, true, false)), (String ((Ascii (true, true, false,
      false, false, true, true, false)), (String ((Ascii (true, false, true,
      false, false, true, true, false)), (String ((Ascii (true, false, false,
      true, false, true, true, false)), (String ((Ascii (false, true, true,
      false, true, true, true, false)), (String ((Ascii (true, false, true,
      false, false, true, true, false)), (String ((Ascii (false, false, true,
      false, false, true, true, false)), (String ((Ascii (false, false, true,
      true, false, true, false, false)), (String ((Ascii (false, false,
      false, false, false, true, false, false)), (String ((Ascii (false,
      false, true, true, false, true, true, false)), (String ((Ascii (true,
      false, true, false, false, true, true, false)), (String ((Ascii (false,
      true, true, true, false, true, true, false)), (String ((Ascii (true,
      true, true, false, false, true, true, false)), (String ((Ascii (false,
      false, true, false, true, true, true, false)), (String ((Ascii (false,
      false, false, true, false, true, true, false)), (String ((Ascii (false,
      false, false, false, false, true, false, false)), (String ((Ascii
      (false, true, true, false, true, true, true, false)), (String ((Ascii
      (true, false, false, false, false, true, true, false)), (String ((Ascii
      (false, false, true, true, false, true, true, false)), (String ((Ascii
      (true, false, true, false, true, true, true, false)), (String ((Ascii
      (true, false, true, false, false, true, true, false)), (String ((Ascii
      (false, false, false, false, false, true, false, false)), (String
      ((Ascii (true, false, false, true, false, true, true, false)), (String
      ((Ascii (false, true, true, true, false, true, true, false)), (String
      ((Ascii (false, false, false, false, false, true, false, false)),
      (String ((Ascii (false, false, false, false, true, false, true,
      false)), (String ((Ascii (false, false, true, false, false, false,
      true, false)), (String ((Ascii (true, false, true, false, true, false,
      true, false)), (String ((Ascii (false, false, false, false, false,
      true, false, false)), (String ((Ascii (true, false, false, true, false,
      true, true, false)), (String ((Ascii (true, true, false, false, true,
      true, true, false)), (String ((Ascii (false, false, false, false,
      false, true, false, false)), (String ((Ascii (false, false, true,
      false, true, true, true, false)), (String ((Ascii (true, true, true,
      true, false, true, true, false)), (String ((Ascii (true, true, true,
      true, false, true, true, false)), (String ((Ascii (false, false, false,
      false, false, true, false, false)), (String ((Ascii (true, true, false,
      false, true, true, true, false)), (String ((Ascii (true, false, true,
      true, false, true, true, false)), (String ((Ascii (true, false, false,
      false, false, true, true, false)), (String ((Ascii (false, false, true,
      true, false, true, true, false)), (String ((Ascii (false, false, true,
      true, false, true, true, false)),
      EmptyString)))))))))))))))))))))))))))))))))))))))))))))))))))))))))))))))))))))))))))))))))))))))))))))))))))))))))))))))
    (Z0 :: [])

(** val txt_too_big : byte list **)

let txt_too_big =
  app
    (str_bytes (String ((Ascii (false, false, false, false, true, false,
      true, false)), (String ((Ascii (false, false, true, false, false,
      false, true, false)), (String ((Ascii (true, false, true, false, true,
      false, true, false)), (String ((Ascii (false, false, false, false,
      false, true, false, false)), (String ((Ascii (false, false, true,
      false, true, true, true, false)), (String ((Ascii (true, true, true,
      true, false, true, true, false)), (String ((Ascii (true, true, true,
      true, false, true, true, false)), (String ((Ascii (false, false, false,
      false, false, true, false, false)), (String ((Ascii (false, true,
      false, false, false, true, true, false)), (String ((Ascii (true, false,
      false, true, false, true, true, false)), (String ((Ascii (true, true,
      true, false, false, true, true, false)), (String ((Ascii (false, false,
      true, true, false, true, false, false)), (String ((Ascii (false, false,
      false, false, false, true, false, false)), (String ((Ascii (true,
      false, true, true, false, true, true, false)), (String ((Ascii (true,
      false, false, false, false, true, true, false)), (String ((Ascii
      (false, false, false, true, true, true, true, false)), (String ((Ascii
      (false, true, true, true, false, true, false, false)), (String ((Ascii
      (false, false, false, false, false, true, false, false)), (String
      ((Ascii (false, false, false, false, true, false, true, false)),
      (String ((Ascii (false, false, true, false, false, false, true,
      false)), (String ((Ascii (true, false, true, false, true, false, true,
      false)), (String ((Ascii (false, false, false, false, false, true,
      false, false)), (String ((Ascii (true, true, false, false, true, true,
      true, false)), (String ((Ascii (true, false, false, true, false, true,
      true, false)), (String ((Ascii (false, true, false, true, true, true,
      true, false)), (String ((Ascii (true, false, true, false, false, true,
      true, false)), (String ((Ascii (false, false, false, false, false,
      true, false, false)), (String ((Ascii (true, false, false, true, false,
      true, true, false)), (String ((Ascii (true, true, false, false, true,
      true, true, false)), (String ((Ascii (false, true, false, true, true,
      true, false, false)), (String ((Ascii (false, false, false, false,
      false, true, false, false)), (String ((Ascii (true, true, false, false,
      true, true, false, false)), (String ((Ascii (false, true, false, false,
      true, true, false, false)), (String ((Ascii (false, false, true, false,
      true, true, false, false)), (String ((Ascii (false, false, false, true,
      true, true, false, false)), (String ((Ascii (false, false, false,
      false, false, true, false, false)), (String ((Ascii (false, true,
      false, false, false, true, true, false)), (String ((Ascii (true, false,
      false, true, true, true, true, false)), (String ((Ascii (false, false,
      true, false, true, true, true, false)), (String ((Ascii (true, false,
      true, false, false, true, true, false)), (String ((Ascii (true, true,
      false, false, true, true, true, false)),
      EmptyString)))))))))))))))))))))))))))))))))))))))))))))))))))))))))))))))))))))))))))))))))))
    (Z0 :: [])

(** val recv_err : z -> world -> (z, byte list) sum res **)

let recv_err c =
  if Z.eqb c (Zneg XH)
  then bind (change_state c_RTR_ERROR_TRANSPORT) (fun _ ->
         ret (Inl (Zneg XH)))
  else if Z.eqb c (Zneg (XO XH))
       then ret (Inl (Zneg (XO XH)))
       else if Z.eqb c (Zneg (XI XH))
            then ret (Inl (Zneg (XI XH)))
            else if Z.eqb c (Zneg (XO (XO XH)))
                 then ret (Inl (Zneg (XO (XO XH))))
                 else bind (change_state c_RTR_ERROR_FATAL) (fun _ ->
                        ret (Inl (Zneg XH)))

(** val receive_pdu : z -> world -> (z, byte list) sum res **)

let receive_pdu timeout =
  bind get_sk (fun s0 ->
    if Z.eqb s0.st c_RTR_SHUTDOWN
    then ret (Inl (Zneg XH))
    else bind (tr_recv_all (Zpos (XO (XO (XO XH)))) timeout) (fun r ->
           match r with
           | Inl c -> recv_err c
           | Inr h ->
             let ver = nthb h O in
             let ty = nthb h (S O) in
             let len = get32 h (S (S (S (S O)))) in
             if Z.ltb len (Zpos (XO (XO (XO XH))))
             then bind (send_error_pdu h c_CORRUPT_DATA txt_too_small)
                    (fun _ ->
                    bind (change_state c_RTR_ERROR_FATAL) (fun _ ->
                      ret (Inl (Zneg XH))))
             else if Z.gtb len c_RTR_MAX_PDU_LEN
                  then bind (send_error_pdu h c_CORRUPT_DATA txt_too_big)
                         (fun _ ->
                         bind (change_state c_RTR_ERROR_FATAL) (fun _ ->
                           ret (Inl (Zneg XH))))
                  else bind
                         (bind get_sk (fun s ->
                           if s.has_recv
                           then ret ()
                           else let s1 =
                                  if (&&)
                                       ((&&) (Z.eqb s.version (Zpos XH))
                                         (Z.eqb ver Z0))
                                       (negb (Z.eqb ty c_ERROR))
                                  then upd_version s Z0
                                  else s
                                in
                                set_sk (upd_hasrecv s1 true))) (fun _ ->
                         bind get_sk (fun s ->
                           if (&&) (negb (Z.eqb ver s.version))
                                (negb (Z.eqb ty c_ERROR))
                           then bind
                                  (send_error_pdu h
                                    c_UNEXPECTED_PROTOCOL_VERSION [])
                                  (fun _ -> ret (Inl (Zneg XH)))
                           else bind
                                  (if Z.gtb
                                        (Z.sub len (Zpos (XO (XO (XO XH)))))
                                        Z0
                                   then bind get_sk (fun s2 ->
                                          if Z.eqb s2.st c_RTR_SHUTDOWN
                                          then ret (Inl (Zneg XH))
                                          else tr_recv_all
                                                 (Z.sub len (Zpos (XO (XO (XO
                                                   XH))))) c_RTR_RECV_TIMEOUT)
                                   else ret (Inr [])) (fun rest ->
                                  match rest with
                                  | Inl c -> recv_err c
                                  | Inr body ->
                                    let p = app h body in
                                    if check_size p
                                    then ret (Inr p)
                                    else bind
                                           (send_error_pdu h c_CORRUPT_DATA
                                             txt_too_small) (fun _ ->
                                           bind
                                             (change_state c_RTR_ERROR_FATAL)
                                             (fun _ -> ret (Inl (Zneg XH)))))))))

(** val handle_error_pdu : byte list -> world -> unit res **)

let handle_error_pdu p =
  let code = get16 p (S (S O)) in
  let ver = nthb p O in
  if Z.eqb code c_NO_DATA_AVAIL
  then change_state c_RTR_ERROR_NO_DATA_AVAIL
  else if Z.eqb code c_UNSUPPORTED_PROTOCOL_VER
       then bind get_sk (fun s ->
              if (&&)
                   ((&&) (Z.leb ver c_RTR_PROTOCOL_MAX_SUPPORTED_VERSION)
                     (Z.geb ver c_RTR_PROTOCOL_MIN_SUPPORTED_VERSION))
                   (Z.ltb ver s.version)
              then bind (set_sk (upd_version s ver)) (fun _ ->
                     change_state c_RTR_FAST_RECONNECT)
              else change_state c_RTR_ERROR_FATAL)
       else change_state c_RTR_ERROR_FATAL

(** val iv_range : z -> z -> z -> z **)

let iv_range v mn mx =
  if Z.ltb v mn then Zneg XH else if Z.gtb v mx then Zpos XH else Z0

(** val iv_apply : z -> z -> z -> z -> z -> z **)

let iv_apply mode v old mn mx =
  let r = iv_range v mn mx in
  if (||) (Z.eqb r Z0) (Z.eqb mode c_RTR_INTERVAL_MODE_ACCEPT_ANY)
  then v
  else if Z.eqb mode c_RTR_INTERVAL_MODE_DEFAULT_MIN_MAX
       then if Z.eqb r (Zneg XH) then mn else mx
       else old

(** val apply_eod_intervals : sock -> byte list -> sock **)

let apply_eod_intervals s p =
  if (&&) (Z.eqb (nthb p O) (Zpos XH))
       (negb (Z.eqb s.iv_mode c_RTR_INTERVAL_MODE_IGNORE_ANY))
  then let rf = get32 p (S (S (S (S (S (S (S (S (S (S (S (S O)))))))))))) in
       let rt =
         get32 p (S (S (S (S (S (S (S (S (S (S (S (S (S (S (S (S
           O))))))))))))))))
       in
       let ex =
         get32 p (S (S (S (S (S (S (S (S (S (S (S (S (S (S (S (S (S (S (S (S
           O))))))))))))))))))))
       in
       upd_ivs s
         (iv_apply s.iv_mode rf s.refresh_iv c_RTR_REFRESH_MIN
           c_RTR_REFRESH_MAX)
         (iv_apply s.iv_mode ex s.expire_iv c_RTR_EXPIRATION_MIN
           c_RTR_EXPIRATION_MAX)
         (iv_apply s.iv_mode rt s.retry_iv c_RTR_RETRY_MIN c_RTR_RETRY_MAX)
  else s

(** val pmem :
    (((((bool * bool list) * z) * z) * z) * z) -> (((((bool * bool
    list) * z) * z) * z) * z) list -> bool **)

let pmem r x =
  existsb (prec_eqb r) x

(** val kmem :
    (((z * byte list) * byte list) * z) -> (((z * byte list) * byte
    list) * z) list -> bool **)

let kmem r x =
  existsb (krec_eqb r) x

(** val prem :
    (((((bool * bool list) * z) * z) * z) * z) -> (((((bool * bool
    list) * z) * z) * z) * z) list -> (((((bool * bool
    list) * z) * z) * z) * z) list **)

let prem r x =
  filter (fun x0 -> negb (prec_eqb r x0)) x

(** val krem :
    (((z * byte list) * byte list) * z) -> (((z * byte list) * byte
    list) * z) list -> (((z * byte list) * byte list) * z) list **)

let krem r x =
  filter (fun x0 -> negb (krec_eqb r x0)) x

(** val prec_of_pdu :
    byte list -> ((((bool * bool list) * z) * z) * z) * z **)

let prec_of_pdu p =
  let v6 = Z.eqb (nthb p (S O)) c_IPV6_PREFIX in
  let alen =
    if v6
    then S (S (S (S (S (S (S (S (S (S (S (S (S (S (S (S O)))))))))))))))
    else S (S (S (S O)))
  in
  (((((v6,
  (bits_of_bytes
    (firstn alen (skipn (S (S (S (S (S (S (S (S (S (S (S (S O)))))))))))) p)))),
  (nthb p (S (S (S (S (S (S (S (S (S O))))))))))),
  (nthb p (S (S (S (S (S (S (S (S (S (S O)))))))))))),
  (get32 p (add (S (S (S (S (S (S (S (S (S (S (S (S O)))))))))))) alen))),
  (Zpos XH))

(** val krec_of_pdu : byte list -> ((z * byte list) * byte list) * z **)

let krec_of_pdu p =
  ((((get32 p (S (S (S (S (S (S (S (S (S (S (S (S (S (S (S (S (S (S (S (S (S
       (S (S (S (S (S (S (S O))))))))))))))))))))))))))))),
    (firstn (S (S (S (S (S (S (S (S (S (S (S (S (S (S (S (S (S (S (S (S
      O)))))))))))))))))))) (skipn (S (S (S (S (S (S (S (S O)))))))) p))),
    (firstn (S (S (S (S (S (S (S (S (S (S (S (S (S (S (S (S (S (S (S (S (S (S
      (S (S (S (S (S (S (S (S (S (S (S (S (S (S (S (S (S (S (S (S (S (S (S (S
      (S (S (S (S (S (S (S (S (S (S (S (S (S (S (S (S (S (S (S (S (S (S (S (S
      (S (S (S (S (S (S (S (S (S (S (S (S (S (S (S (S (S (S (S (S (S
      O)))))))))))))))))))))))))))))))))))))))))))))))))))))))))))))))))))))))))))))))))))))))))))
      (skipn (S (S (S (S (S (S (S (S (S (S (S (S (S (S (S (S (S (S (S (S (S
        (S (S (S (S (S (S (S (S (S (S (S O)))))))))))))))))))))))))))))))) p))),
    (Zpos XH))

(** val upd_pfx :
    bool -> z -> (((((bool * bool list) * z) * z) * z) * z) ->
    (((((bool * bool list) * z) * z) * z) * z) list -> ((((((bool * bool
    list) * z) * z) * z) * z) list * z) * titem list **)

let upd_pfx live flags r x =
  if Z.eqb flags (Zpos XH)
  then if pmem r x
       then ((x, (Zpos XH)), [])
       else (((app x (r :: [])), Z0),
              (if live then (TPfx (true, r)) :: [] else []))
  else if Z.eqb flags Z0
       then if pmem r x
            then (((prem r x), Z0),
                   (if live then (TPfx (false, r)) :: [] else []))
            else ((x, (Zpos (XO XH))), [])
       else ((x, (Zpos (XI XH))), [])

(** val upd_key :
    bool -> z -> (((z * byte list) * byte list) * z) -> (((z * byte
    list) * byte list) * z) list -> ((((z * byte list) * byte list) * z)
    list * z) * titem list **)

let upd_key live flags r x =
  if Z.eqb flags (Zpos XH)
  then if kmem r x
       then ((x, (Zpos XH)), [])
       else (((app x (r :: [])), Z0),
              (if live then (TKey (true, r)) :: [] else []))
  else if Z.eqb flags Z0
       then if kmem r x
            then (((krem r x), Z0),
                   (if live then (TKey (false, r)) :: [] else []))
            else ((x, (Zpos (XO XH))), [])
       else ((x, (Zpos (XI XH))), [])

(** val pdu_flags : byte list -> z **)

let pdu_flags p =
  if Z.eqb (nthb p (S O)) c_ROUTER_KEY
  then nthb p (S (S O))
  else nthb p (S (S (S (S (S (S (S (S O))))))))

(** val txt_pfx_flags : byte list **)

let txt_pfx_flags =
  app
    (str_bytes (String ((Ascii (false, false, false, false, true, false,
      true, false)), (String ((Ascii (false, true, false, false, true, true,
      true, false)), (String ((Ascii (true, false, true, false, false, true,
      true, false)), (String ((Ascii (false, true, true, false, false, true,
      true, false)), (String ((Ascii (true, false, false, true, false, true,
      true, false)), (String ((Ascii (false, false, false, true, true, true,
      true, false)), (String ((Ascii (false, false, false, false, false,
      true, false, false)), (String ((Ascii (false, false, false, false,
      true, false, true, false)), (String ((Ascii (false, false, true, false,
      false, false, true, false)), (String ((Ascii (true, false, true, false,
      true, false, true, false)), (String ((Ascii (false, false, false,
      false, false, true, false, false)), (String ((Ascii (true, true, true,
      false, true, true, true, false)), (String ((Ascii (true, false, false,
      true, false, true, true, false)), (String ((Ascii (false, false, true,
      false, true, true, true, false)), (String ((Ascii (false, false, false,
      true, false, true, true, false)), (String ((Ascii (false, false, false,
      false, false, true, false, false)), (String ((Ascii (true, false,
      false, true, false, true, true, false)), (String ((Ascii (false, true,
      true, true, false, true, true, false)), (String ((Ascii (false, true,
      true, false, true, true, true, false)), (String ((Ascii (true, false,
      false, false, false, true, true, false)), (String ((Ascii (false,
      false, true, true, false, true, true, false)), (String ((Ascii (true,
      false, false, true, false, true, true, false)), (String ((Ascii (false,
      false, true, false, false, true, true, false)), (String ((Ascii (false,
      false, false, false, false, true, false, false)), (String ((Ascii
      (false, true, true, false, false, true, true, false)), (String ((Ascii
      (false, false, true, true, false, true, true, false)), (String ((Ascii
      (true, false, false, false, false, true, true, false)), (String ((Ascii
      (true, true, true, false, false, true, true, false)), (String ((Ascii
      (true, true, false, false, true, true, true, false)), (String ((Ascii
      (false, false, false, false, false, true, false, false)), (String
      ((Ascii (false, true, true, false, true, true, true, false)), (String
      ((Ascii (true, false, false, false, false, true, true, false)), (String
      ((Ascii (false, false, true, true, false, true, true, false)), (String
      ((Ascii (true, false, true, false, true, true, true, false)), (String
      ((Ascii (true, false, true, false, false, true, true, false)), (String
      ((Ascii (false, false, false, false, false, true, false, false)),
      (String ((Ascii (false, true, false, false, true, true, true, false)),
      (String ((Ascii (true, false, true, false, false, true, true, false)),
      (String ((Ascii (true, true, false, false, false, true, true, false)),
      (String ((Ascii (true, false, true, false, false, true, true, false)),
      (String ((Ascii (true, false, false, true, false, true, true, false)),
      (String ((Ascii (false, true, true, false, true, true, true, false)),
      (String ((Ascii (true, false, true, false, false, true, true, false)),
      (String ((Ascii (false, false, true, false, false, true, true, false)),
      EmptyString)))))))))))))))))))))))))))))))))))))))))))))))))))))))))))))))))))))))))))))))))))))))))
    (Z0 :: [])

(** val txt_key_flags : byte list **)

let txt_key_flags =
  app
    (str_bytes (String ((Ascii (false, true, false, false, true, false, true,
      false)), (String ((Ascii (true, true, true, true, false, true, true,
      false)), (String ((Ascii (true, false, true, false, true, true, true,
      false)), (String ((Ascii (false, false, true, false, true, true, true,
      false)), (String ((Ascii (true, false, true, false, false, true, true,
      false)), (String ((Ascii (false, true, false, false, true, true, true,
      false)), (String ((Ascii (false, false, false, false, false, true,
      false, false)), (String ((Ascii (true, true, false, true, false, false,
      true, false)), (String ((Ascii (true, false, true, false, false, true,
      true, false)), (String ((Ascii (true, false, false, true, true, true,
      true, false)), (String ((Ascii (false, false, false, false, false,
      true, false, false)), (String ((Ascii (false, false, false, false,
      true, false, true, false)), (String ((Ascii (false, false, true, false,
      false, false, true, false)), (String ((Ascii (true, false, true, false,
      true, false, true, false)), (String ((Ascii (false, false, false,
      false, false, true, false, false)), (String ((Ascii (true, true, true,
      false, true, true, true, false)), (String ((Ascii (true, false, false,
      true, false, true, true, false)), (String ((Ascii (false, false, true,
      false, true, true, true, false)), (String ((Ascii (false, false, false,
      true, false, true, true, false)), (String ((Ascii (false, false, false,
      false, false, true, false, false)), (String ((Ascii (true, false,
      false, true, false, true, true, false)), (String ((Ascii (false, true,
      true, true, false, true, true, false)), (String ((Ascii (false, true,
      true, false, true, true, true, false)), (String ((Ascii (true, false,
      false, false, false, true, true, false)), (String ((Ascii (false,
      false, true, true, false, true, true, false)), (String ((Ascii (true,
      false, false, true, false, true, true, false)), (String ((Ascii (false,
      false, true, false, false, true, true, false)), (String ((Ascii (false,
      false, false, false, false, true, false, false)), (String ((Ascii
      (false, true, true, false, false, true, true, false)), (String ((Ascii
      (false, false, true, true, false, true, true, false)), (String ((Ascii
      (true, false, false, false, false, true, true, false)), (String ((Ascii
      (true, true, true, false, false, true, true, false)), (String ((Ascii
      (true, true, false, false, true, true, true, false)), (String ((Ascii
      (false, false, false, false, false, true, false, false)), (String
      ((Ascii (false, true, true, false, true, true, true, false)), (String
      ((Ascii (true, false, false, false, false, true, true, false)), (String
      ((Ascii (false, false, true, true, false, true, true, false)), (String
      ((Ascii (true, false, true, false, true, true, true, false)), (String
      ((Ascii (true, false, true, false, false, true, true, false)), (String
      ((Ascii (false, false, false, false, false, true, false, false)),
      (String ((Ascii (false, true, false, false, true, true, true, false)),
      (String ((Ascii (true, false, true, false, false, true, true, false)),
      (String ((Ascii (true, true, false, false, false, true, true, false)),
      (String ((Ascii (true, false, true, false, false, true, true, false)),
      (String ((Ascii (true, false, false, true, false, true, true, false)),
      (String ((Ascii (false, true, true, false, true, true, true, false)),
      (String ((Ascii (true, false, true, false, false, true, true, false)),
      (String ((Ascii (false, false, true, false, false, true, true, false)),
      EmptyString)))))))))))))))))))))))))))))))))))))))))))))))))))))))))))))))))))))))))))))))))))))))))))))))))
    (Z0 :: [])

(** val report_update_failure :
    byte list -> z -> bool -> world -> unit res **)

let report_update_failure p code is_key =
  if Z.eqb code (Zpos (XI XH))
  then bind
         (send_error_from_host p c_CORRUPT_DATA
           (if is_key then txt_key_flags else txt_pfx_flags)) (fun _ ->
         ret ())
  else if Z.eqb code (Zpos XH)
       then bind (send_error_from_host p c_DUPLICATE_ANNOUNCEMENT [])
              (fun _ -> change_state c_RTR_ERROR_FATAL)
       else bind (send_error_from_host p c_WITHDRAWAL_OF_UNKNOWN_RECORD [])
              (fun _ -> change_state c_RTR_ERROR_FATAL)

(** val emit_all : titem list -> world -> unit res **)

let emit_all l w =
  Ok ((), { sk = w.sk; pfx = w.pfx; keys = w.keys; evs = w.evs; opens =
    w.opens; sends = w.sends; now = w.now; out = (app (rev l) w.out) })

(** val apply_pfx :
    bool -> byte list list -> (((((bool * bool list) * z) * z) * z) * z) list
    -> byte list list -> ((((((bool * bool list) * z) * z) * z) * z)
    list * titem list) * ((byte list * z) * byte list list) option **)

let rec apply_pfx live ps x done0 =
  match ps with
  | [] -> ((x, []), None)
  | p :: rest ->
    let (p0, t) = upd_pfx live (pdu_flags p) (prec_of_pdu p) x in
    let (x', c) = p0 in
    if Z.eqb c Z0
    then let (p1, f) = apply_pfx live rest x' (p :: done0) in
         let (x2, t2) = p1 in ((x2, (app t t2)), f)
    else ((x, []), (Some ((p, c), done0)))

(** val apply_keys :
    bool -> byte list list -> (((z * byte list) * byte list) * z) list ->
    byte list list -> ((((z * byte list) * byte list) * z) list * titem
    list) * ((byte list * z) * byte list list) option **)

let rec apply_keys live ps x done0 =
  match ps with
  | [] -> ((x, []), None)
  | p :: rest ->
    let (p0, t) = upd_key live (pdu_flags p) (krec_of_pdu p) x in
    let (x', c) = p0 in
    if Z.eqb c Z0
    then let (p1, f) = apply_keys live rest x' (p :: done0) in
         let (x2, t2) = p1 in ((x2, (app t t2)), f)
    else ((x, []), (Some ((p, c), done0)))

(** val undo_pfx :
    bool -> byte list list -> (((((bool * bool list) * z) * z) * z) * z) list
    -> ((((((bool * bool list) * z) * z) * z) * z) list * titem list) * bool **)

let rec undo_pfx live done0 x =
  match done0 with
  | [] -> ((x, []), true)
  | p :: rest ->
    let (p0, t) =
      upd_pfx live (Z.sub (Zpos XH) (pdu_flags p)) (prec_of_pdu p) x
    in
    let (x', c) = p0 in
    if Z.eqb c Z0
    then let (p1, ok) = undo_pfx live rest x' in
         let (x2, t2) = p1 in ((x2, (app t t2)), ok)
    else ((x, []), false)

(** val undo_keys :
    bool -> byte list list -> (((z * byte list) * byte list) * z) list ->
    ((((z * byte list) * byte list) * z) list * titem list) * bool **)

let rec undo_keys live done0 x =
  match done0 with
  | [] -> ((x, []), true)
  | p :: rest ->
    let (p0, t) =
      upd_key live (Z.sub (Zpos XH) (pdu_flags p)) (krec_of_pdu p) x
    in
    let (x', c) = p0 in
    if Z.eqb c Z0
    then let (p1, ok) = undo_keys live rest x' in
         let (x2, t2) = p1 in ((x2, (app t t2)), ok)
    else ((x, []), false)

(** val spki_src_remove_notifies : bool **)

let spki_src_remove_notifies =
  true

(** val src_remove_all : world -> unit res **)

let src_remove_all =
  bind get_w (fun w ->
    let gp = filter (fun r -> Z.eqb (psrc r) (Zpos XH)) w.pfx in
    let gk = filter (fun r -> Z.eqb (ksrc r) (Zpos XH)) w.keys in
    bind
      (set_tables (filter (fun r -> negb (Z.eqb (psrc r) (Zpos XH))) w.pfx)
        w.keys) (fun _ ->
      bind (emit_all (map (fun x -> TPfx (false, x)) gp)) (fun _ ->
        bind
          (set_tables
            (filter (fun r -> negb (Z.eqb (psrc r) (Zpos XH))) w.pfx)
            (filter (fun r -> negb (Z.eqb (ksrc r) (Zpos XH))) w.keys))
          (fun _ ->
          emit_all
            (if spki_src_remove_notifies
             then map (fun x -> TKey (false, x)) gk
             else [])))))

(** val dec_digits : nat -> z -> byte list -> byte list **)

let rec dec_digits fuel v acc =
  match fuel with
  | O -> acc
  | S f ->
    let acc' =
      (Z.add (Zpos (XO (XO (XO (XO (XI XH))))))
        (Z.modulo v (Zpos (XO (XI (XO XH)))))) :: acc
    in
    if Z.eqb (Z.div v (Zpos (XO (XI (XO XH))))) Z0
    then acc'
    else dec_digits f (Z.div v (Zpos (XO (XI (XO XH))))) acc'

(** val dec : z -> byte list **)

let dec v =
  dec_digits (S (S (S (S (S (S (S (S (S (S (S (S O)))))))))))) v []

(** val txt_eod_session : z -> z -> byte list **)

let txt_eod_session a b =
  app
    (str_bytes (String ((Ascii (true, false, true, false, false, false, true,
      false)), (String ((Ascii (false, false, false, true, true, true, true,
      false)), (String ((Ascii (false, false, false, false, true, true, true,
      false)), (String ((Ascii (true, false, true, false, false, true, true,
      false)), (String ((Ascii (true, true, false, false, false, true, true,
      false)), (String ((Ascii (false, false, true, false, true, true, true,
      false)), (String ((Ascii (true, false, true, false, false, true, true,
      false)), (String ((Ascii (false, false, true, false, false, true, true,
      false)), (String ((Ascii (false, false, false, false, false, true,
      false, false)), (String ((Ascii (true, true, false, false, true, true,
      true, false)), (String ((Ascii (true, false, true, false, false, true,
      true, false)), (String ((Ascii (true, true, false, false, true, true,
      true, false)), (String ((Ascii (true, true, false, false, true, true,
      true, false)), (String ((Ascii (true, false, false, true, false, true,
      true, false)), (String ((Ascii (true, true, true, true, false, true,
      true, false)), (String ((Ascii (false, true, true, true, false, true,
      true, false)), (String ((Ascii (true, true, true, true, true, false,
      true, false)), (String ((Ascii (true, false, false, true, false, true,
      true, false)), (String ((Ascii (false, false, true, false, false, true,
      true, false)), (String ((Ascii (false, true, false, true, true, true,
      false, false)), (String ((Ascii (false, false, false, false, false,
      true, false, false)),
      EmptyString)))))))))))))))))))))))))))))))))))))))))))
    (app (dec a)
      (app
        (str_bytes (String ((Ascii (false, false, true, true, false, true,
          false, false)), (String ((Ascii (false, false, false, false, false,
          true, false, false)), (String ((Ascii (false, true, false, false,
          true, true, true, false)), (String ((Ascii (true, false, true,
          false, false, true, true, false)), (String ((Ascii (true, true,
          false, false, false, true, true, false)), (String ((Ascii (true,
          false, true, false, false, true, true, false)), (String ((Ascii
          (true, false, false, true, false, true, true, false)), (String
          ((Ascii (false, true, true, false, true, true, true, false)),
          (String ((Ascii (true, false, true, false, false, true, true,
          false)), (String ((Ascii (false, false, true, false, false, true,
          true, false)), (String ((Ascii (false, false, false, false, false,
          true, false, false)), (String ((Ascii (true, true, false, false,
          true, true, true, false)), (String ((Ascii (true, false, true,
          false, false, true, true, false)), (String ((Ascii (true, true,
          false, false, true, true, true, false)), (String ((Ascii (true,
          true, false, false, true, true, true, false)), (String ((Ascii
          (true, false, false, true, false, true, true, false)), (String
          ((Ascii (true, true, true, true, false, true, true, false)),
          (String ((Ascii (false, true, true, true, false, true, true,
          false)), (String ((Ascii (true, true, true, true, true, false,
          true, false)), (String ((Ascii (true, false, false, true, false,
          true, true, false)), (String ((Ascii (false, false, true, false,
          false, true, true, false)), (String ((Ascii (false, true, true,
          true, false, true, false, false)), (String ((Ascii (false, false,
          false, false, false, true, false, false)),
          EmptyString)))))))))))))))))))))))))))))))))))))))))))))))
        (app (dec b)
          (app
            (str_bytes (String ((Ascii (false, false, false, false, false,
              true, false, false)), (String ((Ascii (true, false, false,
              true, false, true, true, false)), (String ((Ascii (false, true,
              true, true, false, true, true, false)), (String ((Ascii (false,
              false, false, false, false, true, false, false)), (String
              ((Ascii (true, false, true, false, false, false, true, false)),
              (String ((Ascii (true, true, true, true, false, false, true,
              false)), (String ((Ascii (false, false, true, false, false,
              false, true, false)), (String ((Ascii (false, false, false,
              false, false, true, false, false)), (String ((Ascii (false,
              false, false, false, true, false, true, false)), (String
              ((Ascii (false, false, true, false, false, false, true,
              false)), (String ((Ascii (true, false, true, false, true,
              false, true, false)), EmptyString)))))))))))))))))))))))
            (Z0 :: [])))))

(** val purge_after_failed_undo : world -> unit res **)

let purge_after_failed_undo =
  bind src_remove_all (fun _ -> modify_sk (fun s -> upd_req s true))

(** val process_eod :
    byte list -> byte list list -> byte list list -> byte list list -> world
    -> z res **)

let process_eod p v4 v6 ks =
  bind get_sk (fun s ->
    if negb (Z.eqb (get16 p (S (S O))) s.session_id)
    then bind
           (send_error_from_host p c_CORRUPT_DATA
             (txt_eod_session s.session_id (get16 p (S (S O))))) (fun _ ->
           bind (change_state c_RTR_ERROR_FATAL) (fun _ -> ret (Zneg XH)))
    else bind (set_sk (apply_eod_intervals s p)) (fun _ ->
           bind get_w (fun w ->
             let reset = s.resetting in
             let live = negb reset in
             let p0 =
               if reset
               then filter (fun r -> negb (Z.eqb (psrc r) (Zpos XH))) w.pfx
               else w.pfx
             in
             let k0 =
               if reset
               then filter (fun r -> negb (Z.eqb (ksrc r) (Zpos XH))) w.keys
               else w.keys
             in
             let (p1, f1) = apply_pfx live v4 p0 [] in
             let (p2, t1) = p1 in
             (match f1 with
              | Some p3 ->
                let (p4, done0) = p3 in
                let (bad, c) = p4 in
                bind (emit_all t1) (fun _ ->
                  bind (if live then set_tables p2 w.keys else ret ())
                    (fun _ ->
                    bind (report_update_failure bad c false) (fun _ ->
                      let (p5, ok) = undo_pfx live done0 p2 in
                      let (p6, t2) = p5 in
                      bind (emit_all t2) (fun _ ->
                        bind (if live then set_tables p6 w.keys else ret ())
                          (fun _ ->
                          bind
                            (if ok then ret () else purge_after_failed_undo)
                            (fun _ ->
                            bind (change_state c_RTR_ERROR_FATAL) (fun _ ->
                              ret (Zneg XH))))))))
              | None ->
                bind (emit_all t1) (fun _ ->
                  bind (if live then set_tables p2 w.keys else ret ())
                    (fun _ ->
                    let (p3, f3) = apply_pfx live v6 p2 [] in
                    let (p4, t3) = p3 in
                    (match f3 with
                     | Some p5 ->
                       let (p6, done0) = p5 in
                       let (bad, c) = p6 in
                       bind (emit_all t3) (fun _ ->
                         bind (if live then set_tables p4 w.keys else ret ())
                           (fun _ ->
                           bind (report_update_failure bad c false) (fun _ ->
                             let (p7, ok) =
                               undo_pfx live (app done0 (rev v4)) p4
                             in
                             let (p8, t5) = p7 in
                             bind (emit_all t5) (fun _ ->
                               bind
                                 (if live
                                  then set_tables p8 w.keys
                                  else ret ()) (fun _ ->
                                 bind
                                   (if ok
                                    then ret ()
                                    else purge_after_failed_undo) (fun _ ->
                                   bind (change_state c_RTR_ERROR_FATAL)
                                     (fun _ -> ret (Zneg XH))))))))
                     | None ->
                       bind (emit_all t3) (fun _ ->
                         bind (if live then set_tables p4 w.keys else ret ())
                           (fun _ ->
                           let (p5, f5) = apply_keys live ks k0 [] in
                           let (k1, t5) = p5 in
                           (match f5 with
                            | Some p6 ->
                              let (p7, done0) = p6 in
                              let (bad, c) = p7 in
                              bind (emit_all t5) (fun _ ->
                                bind
                                  (if live then set_tables p4 k1 else ret ())
                                  (fun _ ->
                                  bind (report_update_failure bad c true)
                                    (fun _ ->
                                    let (p8, ok1) = undo_keys live done0 k1 in
                                    let (k2, t7) = p8 in
                                    bind (emit_all t7) (fun _ ->
                                      let (p9, ok2) =
                                        if ok1
                                        then undo_pfx live
                                               (app (rev v6) (rev v4)) p4
                                        else ((p4, []), false)
                                      in
                                      let (p10, t8) = p9 in
                                      bind (emit_all t8) (fun _ ->
                                        bind
                                          (if live
                                           then set_tables p10 k2
                                           else ret ()) (fun _ ->
                                          bind
                                            (if ok2
                                             then ret ()
                                             else purge_after_failed_undo)
                                            (fun _ ->
                                            bind
                                              (change_state c_RTR_ERROR_FATAL)
                                              (fun _ -> ret (Zneg XH)))))))))
                            | None ->
                              bind (emit_all t5) (fun _ ->
                                bind
                                  (if live then set_tables p4 k1 else ret ())
                                  (fun _ ->
                                  bind
                                    (if reset
                                     then let oldp =
                                            filter (fun r ->
                                              Z.eqb (psrc r) (Zpos XH)) w.pfx
                                          in
                                          let newp =
                                            filter (fun r ->
                                              Z.eqb (psrc r) (Zpos XH)) p4
                                          in
                                          let oldk =
                                            filter (fun r ->
                                              Z.eqb (ksrc r) (Zpos XH)) w.keys
                                          in
                                          let newk =
                                            filter (fun r ->
                                              Z.eqb (ksrc r) (Zpos XH)) k1
                                          in
                                          bind (set_tables p4 k1) (fun _ ->
                                            bind
                                              (emit_all
                                                (app
                                                  (map (fun x -> TPfx (true,
                                                    x))
                                                    (filter (fun r ->
                                                      negb (pmem r oldp))
                                                      newp))
                                                  (map (fun x -> TPfx (false,
                                                    x))
                                                    (filter (fun r ->
                                                      negb (pmem r newp))
                                                      oldp)))) (fun _ ->
                                              emit_all
                                                (app
                                                  (map (fun x -> TKey (true,
                                                    x))
                                                    (filter (fun r ->
                                                      negb (kmem r oldk))
                                                      newk))
                                                  (map (fun x -> TKey (false,
                                                    x))
                                                    (filter (fun r ->
                                                      negb (kmem r newk))
                                                      oldk)))))
                                     else ret ()) (fun _ ->
                                    bind
                                      (modify_sk (fun s0 ->
                                        upd_serial s0
                                          (get32 p (S (S (S (S (S (S (S (S
                                            O))))))))))) (fun _ -> ret Z0))))))))))))))

(** val prefix_lengths_valid : byte list -> bool **)

let prefix_lengths_valid p =
  let bits =
    if Z.eqb (nthb p (S O)) c_IPV4_PREFIX
    then Zpos (XO (XO (XO (XO (XO XH)))))
    else Zpos (XO (XO (XO (XO (XO (XO (XO XH)))))))
  in
  (&&) (Z.leb (nthb p (S (S (S (S (S (S (S (S (S O)))))))))) bits)
    (Z.leb (nthb p (S (S (S (S (S (S (S (S (S (S O))))))))))) bits)

(** val txt_pfx_len : byte list **)

let txt_pfx_len =
  app
    (str_bytes (String ((Ascii (false, false, false, false, true, false,
      true, false)), (String ((Ascii (false, true, false, false, true, true,
      true, false)), (String ((Ascii (true, false, true, false, false, true,
      true, false)), (String ((Ascii (false, true, true, false, false, true,
      true, false)), (String ((Ascii (true, false, false, true, false, true,
      true, false)), (String ((Ascii (false, false, false, true, true, true,
      true, false)), (String ((Ascii (false, false, false, false, false,
      true, false, false)), (String ((Ascii (false, false, false, false,
      true, false, true, false)), (String ((Ascii (false, false, true, false,
      false, false, true, false)), (String ((Ascii (true, false, true, false,
      true, false, true, false)), (String ((Ascii (false, false, false,
      false, false, true, false, false)), (String ((Ascii (true, true, true,
      false, true, true, true, false)), (String ((Ascii (true, false, false,
      true, false, true, true, false)), (String ((Ascii (false, false, true,
      false, true, true, true, false)), (String ((Ascii (false, false, false,
      true, false, true, true, false)), (String ((Ascii (false, false, false,
      false, false, true, false, false)), (String ((Ascii (true, false,
      false, false, false, true, true, false)), (String ((Ascii (false,
      false, false, false, false, true, false, false)), (String ((Ascii
      (false, false, false, false, true, true, true, false)), (String ((Ascii
      (false, true, false, false, true, true, true, false)), (String ((Ascii
      (true, false, true, false, false, true, true, false)), (String ((Ascii
      (false, true, true, false, false, true, true, false)), (String ((Ascii
      (true, false, false, true, false, true, true, false)), (String ((Ascii
      (false, false, false, true, true, true, true, false)), (String ((Ascii
      (false, false, false, false, false, true, false, false)), (String
      ((Ascii (false, false, true, true, false, true, true, false)), (String
      ((Ascii (true, false, true, false, false, true, true, false)), (String
      ((Ascii (false, true, true, true, false, true, true, false)), (String
      ((Ascii (true, true, true, false, false, true, true, false)), (String
      ((Ascii (false, false, true, false, true, true, true, false)), (String
      ((Ascii (false, false, false, true, false, true, true, false)), (String
      ((Ascii (false, false, false, false, false, true, false, false)),
      (String ((Ascii (true, false, true, false, false, true, true, false)),
      (String ((Ascii (false, false, false, true, true, true, true, false)),
      (String ((Ascii (true, true, false, false, false, true, true, false)),
      (String ((Ascii (true, false, true, false, false, true, true, false)),
      (String ((Ascii (true, false, true, false, false, true, true, false)),
      (String ((Ascii (false, false, true, false, false, true, true, false)),
      (String ((Ascii (true, false, false, true, false, true, true, false)),
      (String ((Ascii (false, true, true, true, false, true, true, false)),
      (String ((Ascii (true, true, true, false, false, true, true, false)),
      (String ((Ascii (false, false, false, false, false, true, false,
      false)), (String ((Ascii (false, false, true, false, true, true, true,
      false)), (String ((Ascii (false, false, false, true, false, true, true,
      false)), (String ((Ascii (true, false, true, false, false, true, true,
      false)), (String ((Ascii (false, false, false, false, false, true,
      false, false)), (String ((Ascii (true, false, false, false, false,
      true, true, false)), (String ((Ascii (false, false, true, false, false,
      true, true, false)), (String ((Ascii (false, false, true, false, false,
      true, true, false)), (String ((Ascii (false, true, false, false, true,
      true, true, false)), (String ((Ascii (true, false, true, false, false,
      true, true, false)), (String ((Ascii (true, true, false, false, true,
      true, true, false)), (String ((Ascii (true, true, false, false, true,
      true, true, false)), (String ((Ascii (false, false, false, false,
      false, true, false, false)), (String ((Ascii (true, true, false, false,
      true, true, true, false)), (String ((Ascii (true, false, false, true,
      false, true, true, false)), (String ((Ascii (false, true, false, true,
      true, true, true, false)), (String ((Ascii (true, false, true, false,
      false, true, true, false)), (String ((Ascii (false, false, false,
      false, false, true, false, false)), (String ((Ascii (false, true,
      false, false, true, true, true, false)), (String ((Ascii (true, false,
      true, false, false, true, true, false)), (String ((Ascii (true, true,
      false, false, false, true, true, false)), (String ((Ascii (true, false,
      true, false, false, true, true, false)), (String ((Ascii (true, false,
      false, true, false, true, true, false)), (String ((Ascii (false, true,
      true, false, true, true, true, false)), (String ((Ascii (true, false,
      true, false, false, true, true, false)), (String ((Ascii (false, false,
      true, false, false, true, true, false)),
      EmptyString)))))))))))))))))))))))))))))))))))))))))))))))))))))))))))))))))))))))))))))))))))))))))))))))))))))))))))))))))))))))))))))))))))))))
    (Z0 :: [])

(** val txt_unexp_store : byte list **)

let txt_unexp_store =
  app
    (str_bytes (String ((Ascii (true, false, true, false, true, false, true,
      false)), (String ((Ascii (false, true, true, true, false, true, true,
      false)), (String ((Ascii (true, false, true, false, false, true, true,
      false)), (String ((Ascii (false, false, false, true, true, true, true,
      false)), (String ((Ascii (false, false, false, false, true, true, true,
      false)), (String ((Ascii (true, false, true, false, false, true, true,
      false)), (String ((Ascii (true, true, false, false, false, true, true,
      false)), (String ((Ascii (false, false, true, false, true, true, true,
      false)), (String ((Ascii (true, false, true, false, false, true, true,
      false)), (String ((Ascii (false, false, true, false, false, true, true,
      false)), (String ((Ascii (false, false, false, false, false, true,
      false, false)), (String ((Ascii (false, false, false, false, true,
      false, true, false)), (String ((Ascii (false, false, true, false,
      false, false, true, false)), (String ((Ascii (true, false, true, false,
      true, false, true, false)), (String ((Ascii (false, false, false,
      false, false, true, false, false)), (String ((Ascii (false, true,
      false, false, true, true, true, false)), (String ((Ascii (true, false,
      true, false, false, true, true, false)), (String ((Ascii (true, true,
      false, false, false, true, true, false)), (String ((Ascii (true, false,
      true, false, false, true, true, false)), (String ((Ascii (true, false,
      false, true, false, true, true, false)), (String ((Ascii (false, true,
      true, false, true, true, true, false)), (String ((Ascii (true, false,
      true, false, false, true, true, false)), (String ((Ascii (false, false,
      true, false, false, true, true, false)), (String ((Ascii (false, false,
      false, false, false, true, false, false)), (String ((Ascii (false,
      false, true, false, false, true, true, false)), (String ((Ascii (true,
      false, true, false, true, true, true, false)), (String ((Ascii (false,
      true, false, false, true, true, true, false)), (String ((Ascii (true,
      false, false, true, false, true, true, false)), (String ((Ascii (false,
      true, true, true, false, true, true, false)), (String ((Ascii (true,
      true, true, false, false, true, true, false)), (String ((Ascii (false,
      false, false, false, false, true, false, false)), (String ((Ascii
      (false, false, true, false, false, true, true, false)), (String ((Ascii
      (true, false, false, false, false, true, true, false)), (String ((Ascii
      (false, false, true, false, true, true, true, false)), (String ((Ascii
      (true, false, false, false, false, true, true, false)), (String ((Ascii
      (false, false, false, false, false, true, false, false)), (String
      ((Ascii (true, true, false, false, true, true, true, false)), (String
      ((Ascii (true, false, false, true, true, true, true, false)), (String
      ((Ascii (false, true, true, true, false, true, true, false)), (String
      ((Ascii (true, true, false, false, false, true, true, false)), (String
      ((Ascii (false, false, false, true, false, true, true, false)), (String
      ((Ascii (false, true, false, false, true, true, true, false)), (String
      ((Ascii (true, true, true, true, false, true, true, false)), (String
      ((Ascii (false, true, true, true, false, true, true, false)), (String
      ((Ascii (true, false, false, true, false, true, true, false)), (String
      ((Ascii (true, true, false, false, true, true, true, false)), (String
      ((Ascii (true, false, false, false, false, true, true, false)), (String
      ((Ascii (false, false, true, false, true, true, true, false)), (String
      ((Ascii (true, false, false, true, false, true, true, false)), (String
      ((Ascii (true, true, true, true, false, true, true, false)), (String
      ((Ascii (false, true, true, true, false, true, true, false)),
      EmptyString)))))))))))))))))))))))))))))))))))))))))))))))))))))))))))))))))))))))))))))))))))))))))))))))))))))))
    (Z0 :: [])

(** val txt_unexp_sync : byte list **)

let txt_unexp_sync =
  app
    (str_bytes (String ((Ascii (true, false, true, false, true, false, true,
      false)), (String ((Ascii (false, true, true, true, false, true, true,
      false)), (String ((Ascii (true, false, true, false, false, true, true,
      false)), (String ((Ascii (false, false, false, true, true, true, true,
      false)), (String ((Ascii (false, false, false, false, true, true, true,
      false)), (String ((Ascii (true, false, true, false, false, true, true,
      false)), (String ((Ascii (true, true, false, false, false, true, true,
      false)), (String ((Ascii (false, false, true, false, true, true, true,
      false)), (String ((Ascii (true, false, true, false, false, true, true,
      false)), (String ((Ascii (false, false, true, false, false, true, true,
      false)), (String ((Ascii (false, false, false, false, false, true,
      false, false)), (String ((Ascii (false, false, false, false, true,
      false, true, false)), (String ((Ascii (false, false, true, false,
      false, false, true, false)), (String ((Ascii (true, false, true, false,
      true, false, true, false)), (String ((Ascii (false, false, false,
      false, false, true, false, false)), (String ((Ascii (false, true,
      false, false, true, true, true, false)), (String ((Ascii (true, false,
      true, false, false, true, true, false)), (String ((Ascii (true, true,
      false, false, false, true, true, false)), (String ((Ascii (true, false,
      true, false, false, true, true, false)), (String ((Ascii (true, false,
      false, true, false, true, true, false)), (String ((Ascii (false, true,
      true, false, true, true, true, false)), (String ((Ascii (true, false,
      true, false, false, true, true, false)), (String ((Ascii (false, false,
      true, false, false, true, true, false)), (String ((Ascii (false, false,
      false, false, false, true, false, false)), (String ((Ascii (true,
      false, false, true, false, true, true, false)), (String ((Ascii (false,
      true, true, true, false, true, true, false)), (String ((Ascii (false,
      false, false, false, false, true, false, false)), (String ((Ascii
      (false, false, true, false, false, true, true, false)), (String ((Ascii
      (true, false, false, false, false, true, true, false)), (String ((Ascii
      (false, false, true, false, true, true, true, false)), (String ((Ascii
      (true, false, false, false, false, true, true, false)), (String ((Ascii
      (false, false, false, false, false, true, false, false)), (String
      ((Ascii (true, true, false, false, true, true, true, false)), (String
      ((Ascii (true, false, false, true, true, true, true, false)), (String
      ((Ascii (false, true, true, true, false, true, true, false)), (String
      ((Ascii (true, true, false, false, false, true, true, false)), (String
      ((Ascii (false, false, false, true, false, true, true, false)), (String
      ((Ascii (false, true, false, false, true, true, true, false)), (String
      ((Ascii (true, true, true, true, false, true, true, false)), (String
      ((Ascii (false, true, true, true, false, true, true, false)), (String
      ((Ascii (true, false, false, true, false, true, true, false)), (String
      ((Ascii (true, true, false, false, true, true, true, false)), (String
      ((Ascii (true, false, false, false, false, true, true, false)), (String
      ((Ascii (false, false, true, false, true, true, true, false)), (String
      ((Ascii (true, false, false, true, false, true, true, false)), (String
      ((Ascii (true, true, true, true, false, true, true, false)), (String
      ((Ascii (false, true, true, true, false, true, true, false)),
      EmptyString)))))))))))))))))))))))))))))))))))))))))))))))))))))))))))))))))))))))))))))))))))))))))))))))
    (Z0 :: [])

(** val txt_wrong_session : byte list **)

let txt_wrong_session =
  app
    (str_bytes (String ((Ascii (true, true, true, false, true, false, true,
      false)), (String ((Ascii (false, true, false, false, true, true, true,
      false)), (String ((Ascii (true, true, true, true, false, true, true,
      false)), (String ((Ascii (false, true, true, true, false, true, true,
      false)), (String ((Ascii (true, true, true, false, false, true, true,
      false)), (String ((Ascii (false, false, false, false, false, true,
      false, false)), (String ((Ascii (true, true, false, false, true, true,
      true, false)), (String ((Ascii (true, false, true, false, false, true,
      true, false)), (String ((Ascii (true, true, false, false, true, true,
      true, false)), (String ((Ascii (true, true, false, false, true, true,
      true, false)), (String ((Ascii (true, false, false, true, false, true,
      true, false)), (String ((Ascii (true, true, true, true, false, true,
      true, false)), (String ((Ascii (false, true, true, true, false, true,
      true, false)), (String ((Ascii (true, true, true, true, true, false,
      true, false)), (String ((Ascii (true, false, false, true, false, true,
      true, false)), (String ((Ascii (false, false, true, false, false, true,
      true, false)), (String ((Ascii (false, false, false, false, false,
      true, false, false)), (String ((Ascii (true, false, false, true, false,
      true, true, false)), (String ((Ascii (false, true, true, true, false,
      true, true, false)), (String ((Ascii (false, false, false, false,
      false, true, false, false)), (String ((Ascii (true, true, false, false,
      false, false, true, false)), (String ((Ascii (true, false, false,
      false, false, true, true, false)), (String ((Ascii (true, true, false,
      false, false, true, true, false)), (String ((Ascii (false, false,
      false, true, false, true, true, false)), (String ((Ascii (true, false,
      true, false, false, true, true, false)), (String ((Ascii (false, false,
      false, false, false, true, false, false)), (String ((Ascii (false,
      true, false, false, true, false, true, false)), (String ((Ascii (true,
      false, true, false, false, true, true, false)), (String ((Ascii (true,
      true, false, false, true, true, true, false)), (String ((Ascii (false,
      false, false, false, true, true, true, false)), (String ((Ascii (true,
      true, true, true, false, true, true, false)), (String ((Ascii (false,
      true, true, true, false, true, true, false)), (String ((Ascii (true,
      true, false, false, true, true, true, false)), (String ((Ascii (true,
      false, true, false, false, true, true, false)), (String ((Ascii (false,
      false, false, false, false, true, false, false)), (String ((Ascii
      (false, false, false, false, true, false, true, false)), (String
      ((Ascii (false, false, true, false, false, false, true, false)),
      (String ((Ascii (true, false, true, false, true, false, true, false)),
      EmptyString)))))))))))))))))))))))))))))))))))))))))))))))))))))))))))))))))))))))))))))
    (Z0 :: [])

(** val store_loop :
    nat -> byte list list -> byte list list -> byte list list -> world -> z
    res **)

let rec store_loop fuel v4 v6 ks =
  match fuel with
  | O -> ret (Zneg (XI (XO (XI (XI (XO (XO XH)))))))
  | S f ->
    bind (receive_pdu c_RTR_RECV_TIMEOUT) (fun r ->
      match r with
      | Inl c ->
        if (||) (Z.eqb c (Zneg (XO XH))) (Z.eqb c (Zneg (XO (XO XH))))
        then bind (change_state c_RTR_ERROR_TRANSPORT) (fun _ ->
               ret (Zneg XH))
        else ret (Zneg XH)
      | Inr p ->
        let ty = nthb p (S O) in
        if (&&) ((||) (Z.eqb ty c_IPV4_PREFIX) (Z.eqb ty c_IPV6_PREFIX))
             (negb (prefix_lengths_valid p))
        then bind (send_error_from_host p c_CORRUPT_DATA txt_pfx_len)
               (fun _ ->
               bind (change_state c_RTR_ERROR_FATAL) (fun _ -> ret (Zneg XH)))
        else if Z.eqb ty c_IPV4_PREFIX
             then store_loop f (app v4 (p :: [])) v6 ks
             else if Z.eqb ty c_IPV6_PREFIX
                  then store_loop f v4 (app v6 (p :: [])) ks
                  else if Z.eqb ty c_ROUTER_KEY
                       then store_loop f v4 v6 (app ks (p :: []))
                       else if Z.eqb ty c_EOD
                            then process_eod p v4 v6 ks
                            else if Z.eqb ty c_ERROR
                                 then bind (handle_error_pdu p) (fun _ ->
                                        ret (Zneg XH))
                                 else if Z.eqb ty c_SERIAL_NOTIFY
                                      then store_loop f v4 v6 ks
                                      else bind
                                             (send_error_from_host
                                               (firstn (S (S (S (S (S (S (S
                                                 (S O)))))))) p)
                                               c_CORRUPT_DATA txt_unexp_store)
                                             (fun _ -> ret (Zneg XH)))

(** val receive_and_store : nat -> world -> z res **)

let receive_and_store fuel =
  bind (store_loop fuel [] [] []) (fun r ->
    bind
      (modify_sk (fun s -> if s.resetting then upd_resetting s false else s))
      (fun _ -> ret r))

(** val sync_first : nat -> world -> byte list option res **)

let rec sync_first = function
| O -> ret None
| S f ->
  bind (receive_pdu c_RTR_RECV_TIMEOUT) (fun r ->
    match r with
    | Inl c ->
      bind get_sk (fun s ->
        if (&&) ((&&) (Z.eqb c (Zneg (XO (XO XH)))) s.req_sess)
             (Z.gtb s.version c_RTR_PROTOCOL_MIN_SUPPORTED_VERSION)
        then bind (set_sk (upd_version s (Z.sub s.version (Zpos XH))))
               (fun _ ->
               bind (change_state c_RTR_FAST_RECONNECT) (fun _ -> ret None))
        else if (||) (Z.eqb c (Zneg (XO XH))) (Z.eqb c (Zneg (XO (XO XH))))
             then bind (change_state c_RTR_ERROR_TRANSPORT) (fun _ ->
                    ret None)
             else ret None)
    | Inr p ->
      if Z.eqb (nthb p (S O)) c_SERIAL_NOTIFY
      then sync_first f
      else ret (Some p))

(** val rtr_sync : nat -> world -> z res **)

let rtr_sync fuel =
  bind (sync_first fuel) (fun fp ->
    match fp with
    | Some p ->
      let ty = nthb p (S O) in
      if Z.eqb ty c_ERROR
      then bind (handle_error_pdu p) (fun _ -> ret (Zneg XH))
      else if Z.eqb ty c_CACHE_RESET
           then bind (change_state c_RTR_ERROR_NO_INCR_UPDATE_AVAIL)
                  (fun _ -> ret (Zneg XH))
           else if Z.eqb ty c_CACHE_RESPONSE
                then bind get_sk (fun s ->
                       bind
                         (if s.req_sess
                          then bind
                                 (set_sk
                                   (upd_session
                                     (if negb (Z.eqb s.last_update Z0)
                                      then upd_resetting s true
                                      else s) (get16 p (S (S O))))) (fun _ ->
                                 ret true)
                          else if negb
                                    (Z.eqb s.session_id (get16 p (S (S O))))
                               then bind
                                      (send_error_from_host [] c_CORRUPT_DATA
                                        txt_wrong_session) (fun _ ->
                                      bind (change_state c_RTR_ERROR_FATAL)
                                        (fun _ -> ret false))
                               else ret true) (fun ok ->
                         if negb ok
                         then ret (Zneg XH)
                         else bind (receive_and_store fuel) (fun r ->
                                if Z.eqb r Z0
                                then bind
                                       (modify_sk (fun s0 ->
                                         upd_req s0 false)) (fun _ ->
                                       bind get_now (fun t ->
                                         bind
                                           (modify_sk (fun s0 ->
                                             upd_last s0 t)) (fun _ -> 
                                           ret Z0)))
                                else ret (Zneg XH))))
                else bind
                       (send_error_from_host
                         (firstn (S (S (S (S (S (S (S (S O)))))))) p)
                         c_CORRUPT_DATA txt_unexp_sync) (fun _ ->
                       ret (Zneg XH))
    | None -> ret (Zneg XH))

(** val wait_for_sync : world -> z res **)

let wait_for_sync =
  bind get_sk (fun s ->
    bind get_now (fun t ->
      let wait = Z.max Z0 (Z.sub (Z.add s.last_update s.refresh_iv) t) in
      bind (receive_pdu wait) (fun r ->
        match r with
        | Inl c ->
          if Z.eqb c (Zneg (XO XH))
          then ret Z0
          else if Z.eqb c (Zneg (XO (XO XH)))
               then bind (change_state c_RTR_ERROR_TRANSPORT) (fun _ ->
                      ret (Zneg XH))
               else ret (Zneg XH)
        | Inr p ->
          if Z.eqb (nthb p (S O)) c_SERIAL_NOTIFY
          then ret Z0
          else ret (Zneg XH))))

(** val purge_outdated : world -> unit res **)

let purge_outdated =
  bind get_sk (fun s ->
    bind get_now (fun t ->
      if Z.eqb s.last_update Z0
      then ret ()
      else if Z.ltb (Z.add s.last_update s.expire_iv) t
           then bind src_remove_all (fun _ ->
                  modify_sk (fun s0 ->
                    upd_resetting
                      (upd_last (upd_serial (upd_req s0 true) Z0) Z0) true))
           else ret ()))

(** val fsm_step : nat -> world -> unit res **)

let fsm_step fuel =
  bind get_sk (fun s ->
    let state = s.st in
    if Z.eqb state c_RTR_CONNECTING
    then bind (set_sk (upd_hasrecv s false)) (fun _ ->
           bind purge_outdated (fun _ ->
             bind tr_open (fun ok ->
               if negb ok
               then change_state c_RTR_ERROR_TRANSPORT
               else bind get_sk (fun s1 ->
                      if s1.req_sess
                      then change_state c_RTR_RESET
                      else bind send_serial_query (fun r ->
                             if Z.eqb r Z0
                             then change_state c_RTR_SYNC
                             else change_state c_RTR_ERROR_FATAL)))))
    else if Z.eqb state c_RTR_RESET
         then bind send_reset_query (fun r ->
                if Z.eqb r Z0 then change_state c_RTR_SYNC else ret ())
         else if Z.eqb state c_RTR_SYNC
              then bind (rtr_sync fuel) (fun r ->
                     if Z.eqb r Z0
                     then change_state c_RTR_ESTABLISHED
                     else ret ())
              else if Z.eqb state c_RTR_ESTABLISHED
                   then bind wait_for_sync (fun r ->
                          if Z.eqb r Z0
                          then bind send_serial_query (fun q ->
                                 if Z.eqb q Z0
                                 then change_state c_RTR_SYNC
                                 else ret ())
                          else ret ())
                   else if Z.eqb state c_RTR_FAST_RECONNECT
                        then bind tr_close (fun _ ->
                               change_state c_RTR_CONNECTING)
                        else if Z.eqb state c_RTR_ERROR_NO_DATA_AVAIL
                             then bind
                                    (set_sk (upd_serial (upd_req s true) Z0))
                                    (fun _ ->
                                    bind (change_state c_RTR_RESET) (fun _ ->
                                      bind (do_sleep s.retry_iv) (fun _ ->
                                        purge_outdated)))
                             else if Z.eqb state
                                       c_RTR_ERROR_NO_INCR_UPDATE_AVAIL
                                  then bind
                                         (set_sk
                                           (upd_serial (upd_req s true) Z0))
                                         (fun _ ->
                                         bind (change_state c_RTR_RESET)
                                           (fun _ -> purge_outdated))
                                  else if (||)
                                            (Z.eqb state
                                              c_RTR_ERROR_TRANSPORT)
                                            (Z.eqb state c_RTR_ERROR_FATAL)
                                       then bind tr_close (fun _ ->
                                              bind
                                                (change_state
                                                  c_RTR_CONNECTING) (fun _ ->
                                                do_sleep s.retry_iv))
                                       else ret ())

(** val rtr_stop : world -> unit res **)

let rtr_stop =
  bind (emit TStopping) (fun _ ->
    bind (change_state c_RTR_SHUTDOWN) (fun _ ->
      bind tr_close (fun _ ->
        bind
          (modify_sk (fun s -> upd_last (upd_serial (upd_req s true) Z0) Z0))
          (fun _ ->
          bind src_remove_all (fun _ ->
            modify_sk (fun s -> upd_st s c_RTR_CLOSED))))))

(** val dump : z -> world -> unit res **)

let dump tag0 w =
  let s = w.sk in
  emit (TDump (tag0,
    (s.st :: (s.version :: (s.session_id :: ((if s.req_sess
                                              then Zpos XH
                                              else Z0) :: (s.serial :: (s.last_update :: (s.refresh_iv :: (s.expire_iv :: (s.retry_iv :: ((
    if s.resetting then Zpos XH else Z0) :: (w.now :: []))))))))))), w.pfx,
    w.keys)) w

(** val run_fsm : nat -> nat -> world -> world **)

let rec run_fsm n0 fuel w =
  match n0 with
  | O -> w
  | S n' ->
    (match fsm_step fuel w with
     | Ok (_, w') -> run_fsm n' fuel w'
     | Exc (e, w') ->
       (match e with
        | XEnd _ -> w'
        | XStop ->
          (match bind rtr_stop (fun _ ->
                   bind (dump (Zpos XH)) (fun _ ->
                     modify_sk (fun s -> upd_st s c_RTR_CONNECTING))) w' with
           | Ok (_, w2) -> run_fsm n' fuel w2
           | Exc (_, w2) -> w2)))

(** val init_sock : z -> z -> z -> z -> sock **)

let init_sock refresh expire retry mode =
  { st = c_RTR_CLOSED; version = c_RTR_PROTOCOL_MAX_SUPPORTED_VERSION;
    session_id = Z0; req_sess = true; serial = Z0; last_update = Z0;
    refresh_iv = refresh; expire_iv = expire; retry_iv = retry; iv_mode =
    mode; has_recv = false; resetting = false }

(** val init_ok : z -> z -> z -> bool **)

let init_ok refresh expire retry =
  (&&)
    ((&&) (Z.eqb (iv_range refresh c_RTR_REFRESH_MIN c_RTR_REFRESH_MAX) Z0)
      (Z.eqb (iv_range expire c_RTR_EXPIRATION_MIN c_RTR_EXPIRATION_MAX) Z0))
    (Z.eqb (iv_range retry c_RTR_RETRY_MIN c_RTR_RETRY_MAX) Z0)

(** val run_script :
    nat -> nat -> z -> z -> z -> z -> (((((bool * bool
    list) * z) * z) * z) * z) list -> (((z * byte list) * byte list) * z)
    list -> ev list -> bool list -> z list -> titem list **)

let run_script n0 fuel refresh expire retry mode p k es os ss =
  if negb (init_ok refresh expire retry)
  then []
  else let w0 = { sk = (init_sock refresh expire retry mode); pfx = p; keys =
         k; evs = es; opens = os; sends = ss; now = (Zpos (XO (XO (XO (XI (XO
         (XI (XI (XI (XI XH)))))))))); out = [] }
       in
       let w1 = match dump Z0 w0 with
                | Ok (_, w) -> w
                | Exc (_, w) -> w in
       let w2 =
         run_fsm n0 fuel { sk = (upd_st w1.sk c_RTR_CONNECTING); pfx =
           w1.pfx; keys = w1.keys; evs = w1.evs; opens = w1.opens; sends =
           w1.sends; now = w1.now; out = w1.out }
       in
       let w3 =
         match dump (Zpos (XO XH)) w2 with
         | Ok (_, w) -> w
         | Exc (_, w) -> w
       in
       rev w3.out
