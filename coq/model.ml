
(** val negb : bool -> bool **)

let negb = function
| true -> false
| false -> true

type nat =
| O
| S of nat

(** val app : 'a1 list -> 'a1 list -> 'a1 list **)

let rec app l m =
  match l with
  | [] -> m
  | a :: l1 -> a :: (app l1 m)

(** val add : nat -> nat -> nat **)

let rec add n0 m =
  match n0 with
  | O -> m
  | S p -> S (add p m)

(** val eqb : bool -> bool -> bool **)

let eqb b1 b2 =
  if b1 then b2 else if b2 then false else true

module Nat =
 struct
  (** val eqb : nat -> nat -> bool **)

  let rec eqb n0 m =
    match n0 with
    | O -> (match m with
            | O -> true
            | S _ -> false)
    | S n' -> (match m with
               | O -> false
               | S m' -> eqb n' m')

  (** val leb : nat -> nat -> bool **)

  let rec leb n0 m =
    match n0 with
    | O -> true
    | S n' -> (match m with
               | O -> false
               | S m' -> leb n' m')

  (** val ltb : nat -> nat -> bool **)

  let ltb n0 m =
    leb (S n0) m
 end

(** val nth : nat -> 'a1 list -> 'a1 -> 'a1 **)

let rec nth n0 l default =
  match n0 with
  | O -> (match l with
          | [] -> default
          | x :: _ -> x)
  | S m -> (match l with
            | [] -> default
            | _ :: t -> nth m t default)

(** val map : ('a1 -> 'a2) -> 'a1 list -> 'a2 list **)

let rec map f = function
| [] -> []
| a :: t -> (f a) :: (map f t)

(** val fold_left : ('a1 -> 'a2 -> 'a1) -> 'a2 list -> 'a1 -> 'a1 **)

let rec fold_left f l a0 =
  match l with
  | [] -> a0
  | b :: t -> fold_left f t (f a0 b)

(** val existsb : ('a1 -> bool) -> 'a1 list -> bool **)

let rec existsb f = function
| [] -> false
| a :: l0 -> (||) (f a) (existsb f l0)

(** val filter : ('a1 -> bool) -> 'a1 list -> 'a1 list **)

let rec filter f = function
| [] -> []
| x :: l0 -> if f x then x :: (filter f l0) else filter f l0

(** val firstn : nat -> 'a1 list -> 'a1 list **)

let rec firstn n0 l =
  match n0 with
  | O -> []
  | S n1 -> (match l with
             | [] -> []
             | a :: l0 -> a :: (firstn n1 l0))

type positive =
| XI of positive
| XO of positive
| XH

type n =
| N0
| Npos of positive

module Pos =
 struct
  (** val eqb : positive -> positive -> bool **)

  let rec eqb p q =
    match p with
    | XI p0 -> (match q with
                | XI q0 -> eqb p0 q0
                | _ -> false)
    | XO p0 -> (match q with
                | XO q0 -> eqb p0 q0
                | _ -> false)
    | XH -> (match q with
             | XH -> true
             | _ -> false)
 end

module N =
 struct
  (** val eqb : n -> n -> bool **)

  let eqb n0 m =
    match n0 with
    | N0 -> (match m with
             | N0 -> true
             | Npos _ -> false)
    | Npos p -> (match m with
                 | N0 -> false
                 | Npos q -> Pos.eqb p q)
 end

type addr = bool list

type elem = { e_asn : n; e_max : nat; e_src : n }

(** val elem_eqb : elem -> elem -> bool **)

let elem_eqb a b =
  (&&) ((&&) (N.eqb a.e_asn b.e_asn) (Nat.eqb a.e_max b.e_max))
    (N.eqb a.e_src b.e_src)

(** val addr_eqb : addr -> addr -> bool **)

let rec addr_eqb a b =
  match a with
  | [] -> (match b with
           | [] -> true
           | _ :: _ -> false)
  | x :: a' ->
    (match b with
     | [] -> false
     | y :: b' -> (&&) (eqb x y) (addr_eqb a' b'))

type trie =
| Leaf
| Node of addr * nat * elem list * trie * trie

type rc =
| SUCCESS
| ERROR
| DUP
| NOTFOUND

type vstate =
| VALID
| NOT_FOUND
| INVALID

(** val bit : addr -> nat -> bool **)

let bit a i =
  nth i a false

(** val push : trie -> nat -> addr -> nat -> elem list -> trie **)

let rec push t lvl p len d =
  match t with
  | Leaf -> Node (p, len, d, Leaf, Leaf)
  | Node (q, ql, qd, l, r) ->
    if Nat.ltb len ql
    then if bit q lvl
         then Node (p, len, d, l, (push r (S lvl) q ql qd))
         else Node (p, len, d, (push l (S lvl) q ql qd), r)
    else if bit p lvl
         then Node (q, ql, qd, l, (push r (S lvl) p len d))
         else Node (q, ql, qd, (push l (S lvl) p len d), r)

(** val add0 : trie -> nat -> addr -> nat -> elem -> trie * rc **)

let rec add0 t lvl p len e =
  match t with
  | Leaf -> ((Node (p, len, (e :: []), Leaf, Leaf)), SUCCESS)
  | Node (q, ql, qd, l, r) ->
    if Nat.ltb len ql
    then ((push t lvl p len (e :: [])), SUCCESS)
    else if (&&) (Nat.eqb ql len) (addr_eqb q p)
         then if existsb (elem_eqb e) qd
              then (t, DUP)
              else ((Node (q, ql, (app qd (e :: [])), l, r)), SUCCESS)
         else if bit p lvl
              then let (r', c) = add0 r (S lvl) p len e in
                   ((Node (q, ql, qd, l, r')), c)
              else let (l', c) = add0 l (S lvl) p len e in
                   ((Node (q, ql, qd, l', r)), c)

(** val pull : trie -> trie **)

let rec pull = function
| Leaf -> Leaf
| Node (_, _, _, l, r) ->
  (match l with
   | Leaf ->
     (match r with
      | Leaf -> Leaf
      | Node (rp, rl, rd, _, _) -> Node (rp, rl, rd, l, (pull r)))
   | Node (lp, ll, ld, _, _) ->
     (match r with
      | Leaf -> Node (lp, ll, ld, (pull l), r)
      | Node (rp, rl, rd, _, _) ->
        if Nat.ltb ll rl
        then Node (lp, ll, ld, (pull l), r)
        else Node (rp, rl, rd, l, (pull r))))

(** val remove_first : elem -> elem list -> elem list **)

let rec remove_first e = function
| [] -> []
| x :: d' -> if elem_eqb e x then d' else x :: (remove_first e d')

(** val remove : trie -> nat -> addr -> nat -> elem -> trie * rc **)

let rec remove t lvl p len e =
  match t with
  | Leaf -> (Leaf, NOTFOUND)
  | Node (q, ql, qd, l, r) ->
    if Nat.ltb len ql
    then (t, NOTFOUND)
    else if (&&) (Nat.eqb ql len) (addr_eqb q p)
         then if existsb (elem_eqb e) qd
              then (match remove_first e qd with
                    | [] -> ((pull t), SUCCESS)
                    | e0 :: l0 -> ((Node (q, ql, (e0 :: l0), l, r)), SUCCESS))
              else (t, NOTFOUND)
         else if bit p lvl
              then let (r', c) = remove r (S lvl) p len e in
                   ((Node (q, ql, qd, l, r')), c)
              else let (l', c) = remove l (S lvl) p len e in
                   ((Node (q, ql, qd, l', r)), c)

(** val size : trie -> nat **)

let rec size = function
| Leaf -> O
| Node (_, _, _, l, r) -> S (add (size l) (size r))

(** val remove_id :
    nat -> trie -> n -> (trie * ((addr * nat) * elem) list) option **)

let rec remove_id fuel t s =
  match fuel with
  | O -> (match t with
          | Leaf -> Some (Leaf, [])
          | Node (_, _, _, _, _) -> None)
  | S f ->
    (match t with
     | Leaf -> Some (Leaf, [])
     | Node (q, ql, qd, l, r) ->
       let gone =
         map (fun e -> ((q, ql), e)) (filter (fun e -> N.eqb e.e_src s) qd)
       in
       (match filter (fun e -> negb (N.eqb e.e_src s)) qd with
        | [] ->
          (match remove_id f (pull t) s with
           | Some p -> let (t', cbs) = p in Some (t', (app gone cbs))
           | None -> None)
        | e :: l0 ->
          (match remove_id f l s with
           | Some p ->
             let (l', cl) = p in
             (match remove_id f r s with
              | Some p0 ->
                let (r', cr) = p0 in
                Some ((Node (q, ql, (e :: l0), l', r')),
                (app gone (app cl cr)))
              | None -> None)
           | None -> None)))

(** val records : trie -> ((addr * nat) * elem) list **)

let rec records = function
| Leaf -> []
| Node (p, len, d, l, r) ->
  app (records l) (app (map (fun e -> ((p, len), e)) d) (records r))

(** val free_cbs : nat -> trie -> ((addr * nat) * elem) list option **)

let rec free_cbs fuel t =
  match fuel with
  | O -> (match t with
          | Leaf -> Some []
          | Node (_, _, _, _, _) -> None)
  | S f ->
    (match t with
     | Leaf -> Some []
     | Node (p, len, d, _, _) ->
       (match free_cbs f (pull t) with
        | Some rest -> Some (app (map (fun e -> ((p, len), e)) d) rest)
        | None -> None))

(** val covers : addr -> nat -> addr -> nat -> bool **)

let covers p len q qlen =
  (&&) (Nat.leb len qlen) (addr_eqb (firstn len p) (firstn len q))

(** val matches : n -> nat -> elem -> bool **)

let matches asn qlen e =
  (&&) ((&&) (negb (N.eqb e.e_asn N0)) (N.eqb e.e_asn asn))
    (Nat.leb qlen e.e_max)

(** val is_leaf : trie -> bool **)

let is_leaf = function
| Leaf -> true
| Node (_, _, _, l, r) ->
  (match l with
   | Leaf -> (match r with
              | Leaf -> true
              | Node (_, _, _, _, _) -> false)
   | Node (_, _, _, _, _) -> false)

(** val val0 :
    trie -> nat -> n -> addr -> nat -> bool -> ((addr * nat) * elem) list ->
    vstate * ((addr * nat) * elem) list **)

let rec val0 t lvl asn q qlen seen acc =
  match t with
  | Leaf -> if seen then (INVALID, acc) else (NOT_FOUND, [])
  | Node (p, len, d, l, r) ->
    let child = if bit q lvl then r else l in
    if covers p len q qlen
    then let acc' = app acc (map (fun e -> ((p, len), e)) d) in
         if existsb (matches asn qlen) d
         then (VALID, acc')
         else val0 child (S lvl) asn q qlen true acc'
    else val0 child (S lvl) asn q qlen seen acc

(** val val_ub :
    nat -> bool -> bool -> trie -> nat -> n -> addr -> nat -> bool **)

let rec val_ub w hz_zero hz_deep t lvl asn q qlen =
  match t with
  | Leaf -> false
  | Node (p, len, d, l, r) ->
    let child = if bit q lvl then r else l in
    let here = (&&) hz_zero (Nat.eqb len O) in
    let stop = (&&) (covers p len q qlen) (existsb (matches asn qlen) d) in
    if here
    then true
    else if stop
         then false
         else if (&&) (negb hz_deep) (is_leaf t)
              then false
              else (||) (Nat.leb w lvl)
                     (val_ub w hz_zero hz_deep child (S lvl) asn q qlen)

type table = { t4 : trie; t6 : trie }

(** val empty_table : table **)

let empty_table =
  { t4 = Leaf; t6 = Leaf }

type cb =
| Added of (((bool * addr) * nat) * elem)
| Removed of (((bool * addr) * nat) * elem)

(** val width : bool -> nat **)

let width = function
| true ->
  S (S (S (S (S (S (S (S (S (S (S (S (S (S (S (S (S (S (S (S (S (S (S (S (S
    (S (S (S (S (S (S (S (S (S (S (S (S (S (S (S (S (S (S (S (S (S (S (S (S
    (S (S (S (S (S (S (S (S (S (S (S (S (S (S (S (S (S (S (S (S (S (S (S (S
    (S (S (S (S (S (S (S (S (S (S (S (S (S (S (S (S (S (S (S (S (S (S (S (S
    (S (S (S (S (S (S (S (S (S (S (S (S (S (S (S (S (S (S (S (S (S (S (S (S
    (S (S (S (S (S (S (S
    O)))))))))))))))))))))))))))))))))))))))))))))))))))))))))))))))))))))))))))))))))))))))))))))))))))))))))))))))))))))))))))))))
| false ->
  S (S (S (S (S (S (S (S (S (S (S (S (S (S (S (S (S (S (S (S (S (S (S (S (S
    (S (S (S (S (S (S (S O)))))))))))))))))))))))))))))))

(** val root : table -> bool -> trie **)

let root t = function
| true -> t.t6
| false -> t.t4

(** val set_root : table -> bool -> trie -> table **)

let set_root t v6 t0 =
  if v6 then { t4 = t.t4; t6 = t0 } else { t4 = t0; t6 = t.t6 }

(** val tag :
    bool -> ((addr * nat) * elem) -> ((bool * addr) * nat) * elem **)

let tag v6 = function
| (p0, e) -> let (p, len) = p0 in (((v6, p), len), e)

(** val trecords : table -> (((bool * addr) * nat) * elem) list **)

let trecords t =
  app (map (tag false) (records t.t4)) (map (tag true) (records t.t6))

(** val tadd :
    table -> (((bool * addr) * nat) * elem) -> (table * rc) * cb list **)

let tadd t r = match r with
| (p0, e) ->
  let (p1, len) = p0 in
  let (v6, p) = p1 in
  let (t', c) = add0 (root t v6) O p len e in
  (match c with
   | SUCCESS -> (((set_root t v6 t'), c), ((Added r) :: []))
   | _ -> ((t, c), []))

(** val tremove :
    table -> (((bool * addr) * nat) * elem) -> (table * rc) * cb list **)

let tremove t r = match r with
| (p0, e) ->
  let (p1, len) = p0 in
  let (v6, p) = p1 in
  let (t', c) = remove (root t v6) O p len e in
  (match c with
   | SUCCESS -> (((set_root t v6 t'), c), ((Removed r) :: []))
   | _ -> ((t, c), []))

(** val tsrc_remove : table -> n -> (table * cb list) option **)

let tsrc_remove t s =
  match remove_id (size t.t4) t.t4 s with
  | Some p ->
    let (a, ca) = p in
    (match remove_id (size t.t6) t.t6 s with
     | Some p0 ->
       let (b, cb6) = p0 in
       Some ({ t4 = a; t6 = b },
       (app (map (fun r -> Removed (tag false r)) ca)
         (map (fun r -> Removed (tag true r)) cb6)))
     | None -> None)
  | None -> None

(** val tfree : table -> cb list option **)

let tfree t =
  match free_cbs (size t.t4) t.t4 with
  | Some a ->
    (match free_cbs (size t.t6) t.t6 with
     | Some b ->
       Some
         (app (map (fun r -> Removed (tag false r)) a)
           (map (fun r -> Removed (tag true r)) b))
     | None -> None)
  | None -> None

(** val tvalidate :
    table -> bool -> n -> addr -> nat ->
    vstate * (((bool * addr) * nat) * elem) list **)

let tvalidate t v6 asn q qlen =
  let (s, rs) = val0 (root t v6) O asn q qlen false [] in
  (s, (map (tag v6) rs))

(** val tvalidate_ub :
    bool -> bool -> table -> bool -> n -> addr -> nat -> bool **)

let tvalidate_ub hz_zero hz_deep t v6 asn q qlen =
  val_ub (width v6) hz_zero hz_deep (root t v6) O asn q qlen

(** val src_of : (((bool * addr) * nat) * elem) -> n **)

let src_of = function
| (_, e) -> e.e_src

(** val tcopy_family :
    table -> (((bool * addr) * nat) * elem) list -> n -> table * bool **)

let tcopy_family dst rs s =
  fold_left (fun acc r ->
    let (t, err) = acc in
    if N.eqb (src_of r) s
    then acc
    else let (p, _) = tadd t r in
         let (t', c) = p in
         (match c with
          | SUCCESS -> (t', err)
          | _ -> (t', true))) rs (dst, false)

(** val tcopy_except : table -> table -> n -> table * bool **)

let tcopy_except src dst s =
  let (d1, e1) = tcopy_family dst (map (tag false) (records src.t4)) s in
  if e1
  then (d1, true)
  else tcopy_family d1 (map (tag true) (records src.t6)) s

(** val tswap : table -> table -> table * table **)

let tswap a b =
  (b, a)

(** val tnotify_diff : table -> table -> n -> cb list * table **)

let tnotify_diff new0 old s =
  let step = fun acc r ->
    let (cbs, o) = acc in
    if N.eqb (src_of r) s
    then let (p, _) = tremove o r in
         let (o', c) = p in
         (match c with
          | SUCCESS -> (cbs, o')
          | ERROR -> ((app cbs ((Added r) :: [])), o')
          | _ -> ((app cbs ((Added r) :: [])), o'))
    else acc
  in
  let (cbs1, old1) = fold_left step (trecords new0) ([], old) in
  ((app cbs1
     (map (fun x -> Removed x)
       (filter (fun r -> N.eqb (src_of r) s) (trecords old1)))), old1)

(** val frec_eqb :
    (((bool * addr) * nat) * elem) -> (((bool * addr) * nat) * elem) -> bool **)

let frec_eqb a b =
  let (p, ea) = a in
  let (p0, la) = p in
  let (va, pa) = p0 in
  let (p1, eb) = b in
  let (p2, lb) = p1 in
  let (vb, pb) = p2 in
  (&&) ((&&) ((&&) (eqb va vb) (addr_eqb pa pb)) (Nat.eqb la lb))
    (elem_eqb ea eb)

(** val sp_mem :
    (((bool * addr) * nat) * elem) -> (((bool * addr) * nat) * elem) list ->
    bool **)

let sp_mem r x =
  existsb (frec_eqb r) x

(** val sp_add :
    (((bool * addr) * nat) * elem) list -> (((bool * addr) * nat) * elem) ->
    (((bool * addr) * nat) * elem) list * rc **)

let sp_add x r =
  if sp_mem r x then (x, DUP) else ((app x (r :: [])), SUCCESS)

(** val sp_remove :
    (((bool * addr) * nat) * elem) list -> (((bool * addr) * nat) * elem) ->
    (((bool * addr) * nat) * elem) list * rc **)

let sp_remove x r =
  if sp_mem r x
  then ((filter (fun x0 -> negb (frec_eqb r x0)) x), SUCCESS)
  else (x, NOTFOUND)

(** val sp_src_remove :
    (((bool * addr) * nat) * elem) list -> n ->
    (((bool * addr) * nat) * elem) list **)

let sp_src_remove x s =
  filter (fun x0 -> negb (N.eqb (src_of x0) s)) x

(** val fcovrec :
    bool -> addr -> nat -> (((bool * addr) * nat) * elem) -> bool **)

let fcovrec v6 q qlen = function
| (p0, _) ->
  let (p1, len) = p0 in
  let (v, p) = p1 in (&&) (eqb v v6) (covers p len q qlen)

(** val fmatrec : n -> nat -> (((bool * addr) * nat) * elem) -> bool **)

let fmatrec asn qlen = function
| (_, e) -> matches asn qlen e

(** val sp_validate :
    (((bool * addr) * nat) * elem) list -> bool -> n -> addr -> nat -> vstate **)

let sp_validate x v6 asn q qlen =
  match filter (fcovrec v6 q qlen) x with
  | [] -> NOT_FOUND
  | p :: l -> if existsb (fmatrec asn qlen) (p :: l) then VALID else INVALID

(** val replay1 :
    (((bool * addr) * nat) * elem) list option -> cb ->
    (((bool * addr) * nat) * elem) list option **)

let replay1 acc c =
  match acc with
  | Some x ->
    (match c with
     | Added r -> if sp_mem r x then None else Some (app x (r :: []))
     | Removed r ->
       if sp_mem r x
       then Some (filter (fun x0 -> negb (frec_eqb r x0)) x)
       else None)
  | None -> None

(** val replay :
    cb list -> (((bool * addr) * nat) * elem) list ->
    (((bool * addr) * nat) * elem) list option **)

let replay cbs x =
  fold_left replay1 cbs (Some x)
