
val negb : bool -> bool

type nat =
| O
| S of nat

val fst : ('a1 * 'a2) -> 'a1

val snd : ('a1 * 'a2) -> 'a2

val length : 'a1 list -> nat

val app : 'a1 list -> 'a1 list -> 'a1 list

type comparison =
| Eq
| Lt
| Gt

val compOpp : comparison -> comparison

val add : nat -> nat -> nat

type positive =
| XI of positive
| XO of positive
| XH

type n =
| N0
| Npos of positive

type z =
| Z0
| Zpos of positive
| Zneg of positive

val eqb : bool -> bool -> bool

module Nat :
 sig
  val sub : nat -> nat -> nat

  val eqb : nat -> nat -> bool

  val leb : nat -> nat -> bool

  val ltb : nat -> nat -> bool

  val divmod : nat -> nat -> nat -> nat -> nat * nat

  val modulo : nat -> nat -> nat
 end

module Pos :
 sig
  val succ : positive -> positive

  val add : positive -> positive -> positive

  val add_carry : positive -> positive -> positive

  val pred_double : positive -> positive

  val pred_N : positive -> n

  val mul : positive -> positive -> positive

  val iter : ('a1 -> 'a1) -> 'a1 -> positive -> 'a1

  val div2 : positive -> positive

  val div2_up : positive -> positive

  val compare_cont : comparison -> positive -> positive -> comparison

  val compare : positive -> positive -> comparison

  val eqb : positive -> positive -> bool

  val coq_Nsucc_double : n -> n

  val coq_Ndouble : n -> n

  val coq_lor : positive -> positive -> positive

  val coq_land : positive -> positive -> n

  val ldiff : positive -> positive -> n

  val coq_lxor : positive -> positive -> n

  val iter_op : ('a1 -> 'a1 -> 'a1) -> positive -> 'a1 -> 'a1

  val to_nat : positive -> nat
 end

module N :
 sig
  val succ_pos : n -> positive

  val eqb : n -> n -> bool

  val coq_lor : n -> n -> n

  val ldiff : n -> n -> n

  val coq_lxor : n -> n -> n
 end

module Z :
 sig
  val double : z -> z

  val succ_double : z -> z

  val pred_double : z -> z

  val pos_sub : positive -> positive -> z

  val add : z -> z -> z

  val opp : z -> z

  val sub : z -> z -> z

  val mul : z -> z -> z

  val pow_pos : z -> positive -> z

  val pow : z -> z -> z

  val compare : z -> z -> comparison

  val leb : z -> z -> bool

  val ltb : z -> z -> bool

  val eqb : z -> z -> bool

  val to_nat : z -> nat

  val of_N : n -> z

  val pos_div_eucl : positive -> z -> z * z

  val div_eucl : z -> z -> z * z

  val div : z -> z -> z

  val modulo : z -> z -> z

  val div2 : z -> z

  val shiftl : z -> z -> z

  val shiftr : z -> z -> z

  val coq_land : z -> z -> z

  val coq_lxor : z -> z -> z
 end

val nth : nat -> 'a1 list -> 'a1 -> 'a1

val map : ('a1 -> 'a2) -> 'a1 list -> 'a2 list

val flat_map : ('a1 -> 'a2 list) -> 'a1 list -> 'a2 list

val existsb : ('a1 -> bool) -> 'a1 list -> bool

val filter : ('a1 -> bool) -> 'a1 list -> 'a1 list

val find : ('a1 -> bool) -> 'a1 list -> 'a1 option

val firstn : nat -> 'a1 list -> 'a1 list

val repeat : 'a1 -> nat -> 'a1 list

val wrapu : z -> z -> z

val shift_ok : z -> z -> bool

val guard : bool -> 'a1 option -> 'a1 option

val c_SPKI_SUCCESS : z

val c_SPKI_ERROR : z

val c_SPKI_DUPLICATE_RECORD : z

val c_SPKI_RECORD_NOT_FOUND : z

val c_TEMPORARY_PDU_STORE_INCREMENT_VALUE : z

val c_TOMMY_HASHLIN_BIT : z

val tommy_inthash_u32_gen : z -> z option

type addr = bool list

type elem = { e_asn : n; e_max : nat; e_src : n }

val elem_eqb : elem -> elem -> bool

val addr_eqb : addr -> addr -> bool

type trie =
| Leaf
| Node of addr * nat * elem list * trie * trie

type rc =
| SUCCESS
| ERROR
| DUP
| NOTFOUND

type vstate =
| VALID
| NOT_FOUND
| INVALID

val bit : addr -> nat -> bool

val push : trie -> nat -> addr -> nat -> elem list -> trie

val add0 : trie -> nat -> addr -> nat -> elem -> trie * rc

val pull : trie -> trie

val remove_first : elem -> elem list -> elem list

val remove : trie -> nat -> addr -> nat -> elem -> trie * rc

val size : trie -> nat

val records : trie -> ((addr * nat) * elem) list

val free_cbs : nat -> trie -> ((addr * nat) * elem) list option

val covers : addr -> nat -> addr -> nat -> bool

val matches : n -> nat -> elem -> bool

val val0 :
  trie -> nat -> n -> addr -> nat -> bool -> ((addr * nat) * elem) list ->
  vstate * ((addr * nat) * elem) list

type table = { t4 : trie; t6 : trie }

val empty_table : table

type cb =
| Added of (((bool * addr) * nat) * elem)
| Removed of (((bool * addr) * nat) * elem)

val root : table -> bool -> trie

val set_root : table -> bool -> trie -> table

val tag : bool -> ((addr * nat) * elem) -> ((bool * addr) * nat) * elem

val trecords : table -> (((bool * addr) * nat) * elem) list

val tadd : table -> (((bool * addr) * nat) * elem) -> (table * rc) * cb list

val tremove :
  table -> (((bool * addr) * nat) * elem) -> (table * rc) * cb list

val tfree : table -> cb list option

val tvalidate :
  table -> bool -> n -> addr -> nat ->
  vstate * (((bool * addr) * nat) * elem) list

val src_of : (((bool * addr) * nat) * elem) -> n

val upd : nat -> 'a1 -> 'a1 list -> 'a1 list

val remove_first0 : ('a1 -> bool) -> 'a1 list -> 'a1 list

val sT_STABLE : z

val sT_GROW : z

val sT_SHRINK : z

type 'a node = z * 'a

type 'a hashlin = { bucket_bit : z; bucket_max : z; bucket_mask : z;
                    low_max : z; low_mask : z; split : z; count : z;
                    state : z; buckets : 'a node list list }

val set_buckets : 'a1 hashlin -> 'a1 node list list -> z -> 'a1 hashlin

val set_state : 'a1 hashlin -> z -> 'a1 hashlin

val set_stable : 'a1 hashlin -> 'a1 hashlin

val hl_init : z -> 'a1 hashlin

val get_bucket : 'a1 hashlin -> z -> 'a1 node list

val bucket_pos : 'a1 hashlin -> z -> z

val hl_bucket : 'a1 hashlin -> z -> 'a1 node list

val hl_search : 'a1 hashlin -> ('a1 -> bool) -> z -> 'a1 node option

val split_one : 'a1 hashlin -> 'a1 hashlin

val grow_loop : nat -> z -> 'a1 hashlin -> 'a1 hashlin

val grow_setup : 'a1 hashlin -> 'a1 hashlin

val grow_step : 'a1 hashlin -> 'a1 hashlin

val merge_one : 'a1 hashlin -> 'a1 hashlin

val shrink_finish : 'a1 hashlin -> 'a1 hashlin

val shrink_loop : nat -> z -> 'a1 hashlin -> 'a1 hashlin

val shrink_setup : z -> 'a1 hashlin -> 'a1 hashlin

val shrink_step : z -> 'a1 hashlin -> 'a1 hashlin

val hl_insert : 'a1 hashlin -> z -> 'a1 -> 'a1 hashlin

val hl_remove_first :
  z -> 'a1 hashlin -> z -> ('a1 node -> bool) -> 'a1 hashlin * 'a1 node option

val hl_remove :
  z -> 'a1 hashlin -> ('a1 -> bool) -> z -> 'a1 hashlin * 'a1 node option

val hl_remove_existing :
  z -> 'a1 hashlin -> ('a1 -> 'a1 -> bool) -> 'a1 node -> 'a1 hashlin * 'a1
  node option

type entry = { e_asn0 : z; e_ski : z; e_spki : z; e_src0 : z }

val key_entry_cmp : entry -> entry -> bool

type callback = entry * bool

val sPKI_SUCCESS : z

val sPKI_ERROR : z

val sPKI_DUPLICATE_RECORD : z

val sPKI_RECORD_NOT_FOUND : z

val sRC_REMOVE_NOTIFIES : bool

type spki_table = { ht : entry hashlin; lst : entry list }

val spki_init : z -> spki_table

val add_entry :
  (z -> z) -> spki_table -> entry -> (z * spki_table) * callback list

val get_all : (z -> z) -> spki_table -> z -> z -> entry list

val search_by_ski : spki_table -> z -> entry list

val remove_entry :
  (z -> z) -> z -> spki_table -> entry -> (z * spki_table) * callback list

val remove_node : (z -> z) -> z -> spki_table -> entry -> spki_table

val src_remove_walk :
  (z -> z) -> z -> entry list -> z -> spki_table -> spki_table

val src_remove_gen :
  (z -> z) -> z -> bool -> spki_table -> z -> (z * spki_table) * callback list

val src_remove :
  (z -> z) -> z -> spki_table -> z -> (z * spki_table) * callback list

val diff_walk_new :
  (z -> z) -> z -> entry list -> z -> spki_table -> callback list ->
  spki_table * callback list

val notify_diff :
  (z -> z) -> z -> spki_table -> spki_table -> z -> spki_table * callback list

val contents : spki_table -> entry list

type cls =
| PNode
| PData
| PAry
| PReason
| PChildren
| KEntry
| HSeg
| KRes
| Arr4
| Arr6
| ArrK
| ShPfx
| ShSpki

val cls_eqb : cls -> cls -> bool

type via =
| ViaCfg
| ViaLibc

type ev =
| EvM of cls * bool
| EvR0 of cls * bool
| EvR of cls * bool
| EvF of cls * via
| EvX of cls

type ast = { fail_at : nat option; ctr : nat; live : cls list;
             rlog : ev list; corrupt : bool }

type 'a res =
| Val of 'a * ast
| Crash of ast

type 'a m = ast -> 'a res

val ret : 'a1 -> 'a1 m

val bind : 'a1 m -> ('a1 -> 'a2 m) -> 'a2 m

val crash : 'a1 m

val fails : ast -> bool

val remove1 : cls -> cls list -> cls list

val has : cls -> cls list -> bool

val alloc_gen : (bool -> ev) -> cls -> bool m

val malloc : cls -> bool m

val realloc0 : cls -> bool m

val realloc : cls -> bool m

val free : via -> cls -> unit m

val quiet_alloc : cls -> unit m

val when0 : bool -> unit m -> unit m

val repeat_m : nat -> unit m -> unit m

type variant = { shrink_ok : bool; grow_checked : bool; init_checked : 
                 bool; free_cfg : bool; reason_tmp : bool;
                 children_once : bool; result_null : bool }

val as_is : variant

val repaired : variant

module PfxA :
 sig
  val find_payload : trie -> nat -> addr -> nat -> elem list option

  val set_payload : trie -> nat -> addr -> nat -> elem list -> trie

  val create_node_m : bool m

  val tadd_m :
    table -> (((bool * addr) * nat) * elem) -> ((table * rc) * cb list) m

  val tremove_m :
    variant -> table -> (((bool * addr) * nat) * elem) -> ((table * rc) * cb
    list) m

  val del_loop :
    variant -> n -> elem list -> elem list -> ((elem list * elem
    list) * bool) m

  val remove_id_m :
    variant -> nat -> trie -> n -> ((trie * ((addr * nat) * elem)
    list) * bool) option m

  val tsrc_remove_m :
    variant -> table -> n -> ((table * rc) * cb list) option m

  val tfree_m : table -> cb list option m

  val val_allocs : trie -> nat -> n -> addr -> nat -> nat

  val reason_loop : variant -> nat -> bool -> bool m

  val tvalidate_m :
    variant -> table -> bool -> n -> addr -> nat ->
    (vstate * (((bool * addr) * nat) * elem) list) option m

  val is_node : trie -> bool

  val children_err : variant -> bool -> (bool * bool) m

  val children_m : variant -> trie -> bool -> (bool * bool) m

  val tchildren_m : variant -> trie -> bool m

  val copy_family_m :
    (((bool * addr) * nat) * elem) list -> n -> table -> bool ->
    (table * bool) m

  val tcopy_except_m : table -> table -> n -> (table * bool) m

  val diff_walk_m :
    variant -> (((bool * addr) * nat) * elem) list -> n -> table -> cb list
    -> (cb list * table) m

  val tnotify_diff_m : variant -> table -> table -> n -> (cb list * table) m
 end

module SpkiA :
 sig
  val need_seg : entry hashlin -> bool

  val hl_insert_nogrow : entry hashlin -> z -> entry -> entry hashlin

  val add_entry_nogrow :
    (z -> z) -> spki_table -> entry -> (z * spki_table) * callback list

  val add_entry_m :
    (z -> z) -> variant -> spki_table -> entry ->
    ((z * spki_table) * callback list) m

  val seg_released : entry hashlin -> entry hashlin -> bool

  val remove_entry_m :
    (z -> z) -> z -> spki_table -> entry -> ((z * spki_table) * callback
    list) m

  val src_walk_m :
    (z -> z) -> z -> entry list -> z -> spki_table -> spki_table m

  val src_remove_m :
    (z -> z) -> z -> spki_table -> z -> ((z * spki_table) * callback list) m

  val result_loop : variant -> nat -> bool -> (bool * bool) m

  val lookup_m : variant -> entry list -> entry list option m

  val get_all_m :
    (z -> z) -> variant -> spki_table -> z -> z -> entry list option m

  val search_by_ski_m : variant -> spki_table -> z -> entry list option m

  val nsegs : z -> spki_table -> nat

  val release_m : z -> variant -> spki_table -> unit m

  val init_m : variant -> bool m

  val free_init_m : z -> variant -> spki_table -> (bool * spki_table) m

  val copy_walk_m :
    (z -> z) -> variant -> entry list -> z -> spki_table ->
    (bool * spki_table) m

  val diff_walk_m :
    (z -> z) -> z -> entry list -> z -> spki_table -> spki_table m
 end

module OpsA :
 sig
  type tabs = { tp : table; tk : spki_table }

  val tp : tabs -> table

  val tk : tabs -> spki_table

  val arm : nat option -> ast -> ast
 end

module SyncA :
 sig
  type upd =
  | U4 of bool * (((bool * addr) * nat) * elem)
  | U6 of bool * (((bool * addr) * nat) * elem)
  | UK of bool * entry

  val store_one : nat -> cls -> nat -> bool m

  val store_m :
    nat -> upd list -> nat -> nat -> nat -> (bool * ((nat * nat) * nat)) m

  val free_arrays : ((nat * nat) * nat) -> unit m

  val pfx_updates :
    upd list -> bool -> (bool * (((bool * addr) * nat) * elem)) list

  val key_updates : upd list -> (bool * entry) list

  val upd_pfx_m :
    variant -> bool -> table -> bool -> (((bool * addr) * nat) * elem) ->
    ((table * bool) * cb list) m

  val upd_key_m :
    (z -> z) -> z -> variant -> bool -> spki_table -> bool -> entry ->
    ((spki_table * bool) * callback list) m

  val apply_pfx_m :
    variant -> bool -> (bool * (((bool * addr) * nat) * elem)) list -> table
    -> (bool * (((bool * addr) * nat) * elem)) list -> cb list ->
    (((table * (bool * (((bool * addr) * nat) * elem)) list) * cb
    list) * bool) m

  val apply_key_m :
    (z -> z) -> z -> variant -> bool -> (bool * entry) list -> spki_table ->
    (bool * entry) list -> callback list -> (((spki_table * (bool * entry)
    list) * callback list) * bool) m

  val undo_pfx_m :
    variant -> bool -> (bool * (((bool * addr) * nat) * elem)) list -> table
    -> cb list -> ((table * cb list) * bool) m

  val undo_key_m :
    (z -> z) -> z -> variant -> bool -> (bool * entry) list -> spki_table ->
    callback list -> ((spki_table * callback list) * bool) m

  type sync_out = { so_ok : bool; so_main : OpsA.tabs; so_pcb : cb list;
                    so_kcb : callback list }

  val purge_m :
    (z -> z) -> z -> n -> z -> variant -> OpsA.tabs -> cb list -> callback
    list -> ((OpsA.tabs * cb list) * callback list) m

  val free_shadow_pfx : table -> unit m

  val free_shadow_spki : z -> variant -> spki_table -> unit m

  type prep =
  | Early of sync_out
  | Go of ((nat * nat) * nat) * table option

  val sync_prepare_m : nat -> n -> bool -> OpsA.tabs -> upd list -> prep m

  val sync_rest_m :
    (z -> z) -> z -> n -> z -> variant -> OpsA.tabs -> upd list ->
    ((nat * nat) * nat) -> table option -> sync_out m

  val sync_m :
    (z -> z) -> z -> nat -> n -> z -> variant -> bool -> OpsA.tabs -> upd
    list -> sync_out m
 end

val real_hash : z -> z

val real_hash_defined : z -> bool

val real_bit0 : z

val real_incr : nat

val a_tadd :
  table -> (((bool * addr) * nat) * elem) -> ((table * rc) * cb list) m

val a_tremove :
  variant -> table -> (((bool * addr) * nat) * elem) -> ((table * rc) * cb
  list) m

val a_tsrc_remove : variant -> table -> n -> ((table * rc) * cb list) option m

val a_tfree : table -> cb list option m

val a_tvalidate :
  variant -> table -> bool -> n -> addr -> nat ->
  (vstate * (((bool * addr) * nat) * elem) list) option m

val a_tchildren : variant -> trie -> bool m

val a_kadd :
  variant -> spki_table -> entry -> ((z * spki_table) * callback list) m

val a_kremove : spki_table -> entry -> ((z * spki_table) * callback list) m

val a_ksrc_remove : spki_table -> z -> ((z * spki_table) * callback list) m

val a_kget : variant -> spki_table -> z -> z -> entry list option m

val a_kski : variant -> spki_table -> z -> entry list option m

val a_kfree_init : variant -> spki_table -> (bool * spki_table) m

val a_krelease : variant -> spki_table -> unit m

val a_sync :
  variant -> bool -> OpsA.tabs -> SyncA.upd list -> SyncA.sync_out m

val a_kinit : spki_table

val a_kcontents : spki_table -> entry list

val a_kcount : spki_table -> z

val a_trecords : table -> (((bool * addr) * nat) * elem) list

val a_empty : table

val a_t4 : table -> trie

val a_size : trie -> nat

val a_arm : nat option -> ast -> ast

val a_init_ast : ast
