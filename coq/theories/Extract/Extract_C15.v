(* Extraction of the connection-manager model for the C15 correspondence run.
   ExtrOcamlBasic only; nat stays unary (preferences are below 256). *)
Require Extraction.
Require Import ExtrOcamlBasic.
From RtrV Require Import Mgr.MgrModel.
Extraction "c15_model.ml" mgr_init step current shipped fixed.
