(* Extraction of the executable models and specs (ExtrOcamlBasic only: bool, option, unit, list,
   prod, sumbool, sumor map to OCaml's; nat / N / Z / positive stay the extracted datatypes). *)
Require Extraction.
Require Import ExtrOcamlBasic.
From RtrV Require Import Pfx.TrieModel Pfx.PfxTable Pfx.Hazards Rtr.RtrModel.
Extraction "model.ml"
  empty_table tadd tremove tsrc_remove tfree tvalidate tvalidate_ub trecords tcopy_except tswap tnotify_diff
  sp_add sp_remove sp_src_remove sp_validate sp_mem fcovrec fmatrec src_of replay frec_eqb size hz_zero_code
  run_script init_ok.
