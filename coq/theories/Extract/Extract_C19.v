(* Extraction of the C19 models and reference parsers (ExtrOcamlBasic only). *)
Require Extraction.
Require Import ExtrOcamlBasic.
From RtrV Require Import Ip.Ipv4Text Ip.Ipv6Text Ip.Grammar.
Extraction "c19_model.ml" ipv4_to_str ipv4_to_str_fixed ipv6_to_str str_to_ip str_to_ip_fixed cstr ref_pton4 ref_pton6.
