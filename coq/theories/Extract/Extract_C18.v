(* Extract_C18.v - extraction of the C18 allocator model, instantiated with the hash function, the initial
   hash size and the PDU store increment *translated from the code* (Gen/Generated.v). *)
Require Extraction.
Require Import ExtrOcamlBasic.
From Coq Require Import ZArith NArith List.
From RtrV Require Import Base.CSem Gen.Generated Alloc.AllocModel.
From RtrV Require Pfx.TrieModel Pfx.PfxTable Spki.Hashlin Spki.SpkiModel.
Local Open Scope Z_scope.

Definition real_hash (a : Z) : Z := match tommy_inthash_u32_gen a with Some v => v | None => -1 end.
Definition real_hash_defined (a : Z) : bool := match tommy_inthash_u32_gen a with Some _ => true | None => false end.
Definition real_bit0 : Z := c_TOMMY_HASHLIN_BIT.
Definition real_incr : nat := Z.to_nat c_TEMPORARY_PDU_STORE_INCREMENT_VALUE.

Definition a_tadd := PfxA.tadd_m.
Definition a_tremove := PfxA.tremove_m.
Definition a_tsrc_remove := PfxA.tsrc_remove_m.
Definition a_tfree := PfxA.tfree_m.
Definition a_tvalidate := PfxA.tvalidate_m.
Definition a_tchildren := PfxA.tchildren_m.
Definition a_kadd := SpkiA.add_entry_m real_hash.
Definition a_kremove := SpkiA.remove_entry_m real_hash real_bit0.
Definition a_ksrc_remove := SpkiA.src_remove_m real_hash real_bit0.
Definition a_kget := SpkiA.get_all_m real_hash.
Definition a_kski := SpkiA.search_by_ski_m.
Definition a_kfree_init := SpkiA.free_init_m real_bit0.
Definition a_krelease := SpkiA.release_m real_bit0.
Definition a_sync := SyncA.sync_m real_hash real_bit0 real_incr 1%N 1.
Definition a_kinit : RtrV.Spki.SpkiModel.spki_table := RtrV.Spki.SpkiModel.spki_init real_bit0.
Definition a_kcontents := RtrV.Spki.SpkiModel.contents.
Definition a_kcount (t : RtrV.Spki.SpkiModel.spki_table) : Z := RtrV.Spki.Hashlin.count (RtrV.Spki.SpkiModel.ht t).
Definition a_trecords := RtrV.Pfx.PfxTable.trecords.
Definition a_empty := RtrV.Pfx.PfxTable.empty_table.
Definition a_t4 := RtrV.Pfx.PfxTable.t4.
Definition a_size := RtrV.Pfx.TrieModel.size.
Definition a_arm := OpsA.arm.
Definition a_init_ast : ast := mkA None 0 [HSeg; HSeg] [] false.

Extraction "c18_model.ml" real_hash real_hash_defined real_bit0 real_incr a_tadd a_tremove a_tsrc_remove a_tfree a_tvalidate
  a_tchildren a_kadd a_kremove a_ksrc_remove a_kget a_kski a_kfree_init a_krelease a_sync a_kinit a_kcontents a_kcount
  a_trecords a_empty a_t4 a_size a_arm a_init_ast mkV as_is repaired.
