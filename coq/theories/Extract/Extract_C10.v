(* Extract_C10.v - extraction of the C10 model, instantiated with the hash function and the initial
   size *translated from the code* (Gen/Generated.v, regenerated from /repo on every run). *)
Require Extraction.
Require Import ExtrOcamlBasic.
From RtrV Require Import Base.CSem Gen.Generated Spki.Hashlin Spki.SpkiModel.
Local Open Scope Z_scope.

(* tommy_inthash_u32 as translated; its shifts are by constants, so it is defined everywhere
   (checked at run time by the driver through real_hash_defined) *)
Definition real_hash (a : Z) : Z := match tommy_inthash_u32_gen a with Some v => v | None => -1 end.
Definition real_hash_defined (a : Z) : bool := match tommy_inthash_u32_gen a with Some _ => true | None => false end.
Definition real_bit0 : Z := c_TOMMY_HASHLIN_BIT.

Definition m_init : spki_table := spki_init real_bit0.
Definition m_add := add_entry real_hash.
Definition m_remove := remove_entry real_hash real_bit0.
Definition m_src_remove := src_remove real_hash real_bit0.
Definition m_src_remove_gen := src_remove_gen real_hash real_bit0.
Definition m_get_all := get_all real_hash.
Definition m_search_by_ski := search_by_ski.
Definition m_copy := copy_except_socket real_hash.
Definition m_swap := swap.
Definition m_notify_diff := notify_diff real_hash real_bit0.
Definition m_free := free_table real_bit0.
Definition m_contents := contents.
Definition m_count (t : spki_table) : Z := count (ht t).
Definition m_shape (t : spki_table) : Z * Z * Z * Z := (bucket_bit (ht t), low_max (ht t), split (ht t), state (ht t)).
Definition m_src_remove_notifies : bool := SRC_REMOVE_NOTIFIES.
Definition rc_success := SPKI_SUCCESS.

Extraction "c10_model.ml" real_hash real_hash_defined real_bit0 m_init m_add m_remove m_src_remove m_src_remove_gen
  m_get_all m_search_by_ski m_copy m_swap m_notify_diff m_free m_contents m_count m_shape m_src_remove_notifies rc_success.
