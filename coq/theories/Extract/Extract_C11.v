(* Extraction of the C11/C12 spec and model (ExtrOcamlBasic only; Z/nat stay the extracted
   datatypes).  Run from /verif/coq: c11_model.ml / c11_model.mli land there. *)
Require Extraction.
Require Import ExtrOcamlBasic.
From RtrV Require Import Base.CSem Bgpsec.DigestSpec Bgpsec.Align Bgpsec.Validate Bgpsec.Sign.

Extraction "c11_model.ml"
  digest_for_hop signing_digest to_update
  aligned_stream req_stream_size total_bytes hashed_for_validation
  validate validate_fixed validate_gen generate_signature search_by_ski get_all
  BGPSEC_NOT_VALID BGPSEC_VALID BGPSEC_SUCCESS BGPSEC_ERROR BGPSEC_LOAD_PUB_KEY_ERROR
  BGPSEC_LOAD_PRIV_KEY_ERROR BGPSEC_ROUTER_KEY_NOT_FOUND BGPSEC_SIGNING_ERROR
  BGPSEC_UNSUPPORTED_ALGORITHM_SUITE BGPSEC_UNSUPPORTED_AFI BGPSEC_WRONG_SEGMENT_COUNT
  BGPSEC_INVALID_ARGUMENTS ALGORITHM_SUITE_1 BGPSEC_IPV4 BGPSEC_IPV6 SECURE_PATH_SEG_SIZE c_SKI_SIZE.
