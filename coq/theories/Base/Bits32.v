(* Bits32.v - a 32-bit word against its list of bits (most significant first), and the mask test
   "no bit behind the first u bits is set"  =  (w land (0xFFFFFFFF >> u)) = 0. *)
From Coq Require Import ZArith List Bool Lia.
Import ListNotations.
Local Open Scope Z_scope.

Definition bits32 (w : Z) : list bool := map (fun k => Z.testbit w (31 - Z.of_nat k)) (seq 0 32).

Lemma bits32_length w : length (bits32 w) = 32%nat.
Proof. unfold bits32. rewrite map_length, seq_length. reflexivity. Qed.

Lemma nth_bits32 w k : (k < 32)%nat -> nth k (bits32 w) false = Z.testbit w (31 - Z.of_nat k).
Proof.
  intros Hk. unfold bits32.
  change false with ((fun k0 : nat => Z.testbit w (31 - Z.of_nat k0)) 32%nat) at 1.
  - rewrite map_nth, seq_nth by exact Hk. reflexivity.
Qed.

Lemma mask_bit u n : 0 <= u -> 0 <= n -> Z.testbit (Z.shiftr 4294967295 u) n = (n + u <? 32).
Proof.
  intros Hu Hn. rewrite Z.shiftr_spec by exact Hn.
  change 4294967295 with (Z.ones 32).
  destruct (n + u <? 32) eqn:E.
  - apply Z.ltb_lt in E. apply Z.ones_spec_low. lia.
  - apply Z.ltb_ge in E. apply Z.ones_spec_high. lia.
Qed.

Lemma forallb_skipn_nth (l : list bool) (u : nat) :
  forallb negb (skipn u l) = true <-> (forall k, (u <= k < length l)%nat -> nth k l false = false).
Proof.
  revert u. induction l as [|b l IH]; intros u.
  - rewrite skipn_nil. cbn. split; [intros _ k Hk; lia|reflexivity].
  - destruct u as [|u].
    + cbn [skipn forallb]. rewrite andb_true_iff. split.
      * intros [Hb Hl] k Hk. destruct k as [|k]; [cbn; destruct b; [discriminate|reflexivity]|].
        cbn [nth]. apply (proj1 (IH 0%nat)); [exact Hl|cbn [length] in Hk; lia].
      * intros H. split.
        -- specialize (H 0%nat). cbn [nth length] in H. rewrite H by lia. reflexivity.
        -- apply (proj2 (IH 0%nat)). intros k Hk. apply (H (S k)). cbn [length]. lia.
    + cbn [skipn]. rewrite IH. split.
      * intros H k Hk. destruct k as [|k]; [lia|]. cbn [nth]. apply H. cbn [length] in Hk. lia.
      * intros H k Hk. apply (H (S k)). cbn [length]. lia.
Qed.

(* the mask test of rtr_prefix_pdu_is_valid on one word *)
Lemma mask_test w u :
  0 <= w < 4294967296 -> 0 <= u < 32 ->
  (Z.land w (Z.shiftr 4294967295 u) =? 0) = forallb negb (skipn (Z.to_nat u) (bits32 w)).
Proof.
  intros Hw Hu.
  destruct (forallb negb (skipn (Z.to_nat u) (bits32 w))) eqn:F.
  - apply Z.eqb_eq. apply Z.bits_inj'. intros n Hn. rewrite Z.bits_0, Z.land_spec, mask_bit by lia.
    destruct (n + u <? 32) eqn:E; [|apply andb_false_r].
    apply Z.ltb_lt in E. rewrite andb_true_r.
    rewrite forallb_skipn_nth in F. specialize (F (Z.to_nat (31 - n))).
    rewrite bits32_length, nth_bits32 in F by lia.
    replace (31 - Z.of_nat (Z.to_nat (31 - n))) with n in F by lia. apply F. lia.
  - apply Z.eqb_neq. intros H0.
    assert (T : forallb negb (skipn (Z.to_nat u) (bits32 w)) = true); [|congruence].
    apply forallb_skipn_nth. intros k Hk. rewrite bits32_length in Hk. rewrite nth_bits32 by lia.
    assert (B : Z.testbit (Z.land w (Z.shiftr 4294967295 u)) (31 - Z.of_nat k) = false) by (rewrite H0; apply Z.bits_0).
    rewrite Z.land_spec, mask_bit in B by lia.
    replace (31 - Z.of_nat k + u <? 32) with true in B by (symmetry; apply Z.ltb_lt; lia).
    rewrite andb_true_r in B. exact B.
Qed.

(* bits of q * 2^k + r *)
Lemma split_bit q r k n :
  0 <= k -> 0 <= r < 2 ^ k -> 0 <= n ->
  Z.testbit (q * 2 ^ k + r) n = if n <? k then Z.testbit r n else Z.testbit q (n - k).
Proof.
  intros Hk Hr Hn. destruct (n <? k) eqn:E.
  - apply Z.ltb_lt in E. rewrite <- (Z.mod_pow2_bits_low (q * 2 ^ k + r) k n) by lia.
    rewrite Z.add_comm, Z.mod_add by lia. rewrite Z.mod_small by lia. reflexivity.
  - apply Z.ltb_ge in E. replace n with ((n - k) + k) at 1 by lia.
    rewrite <- Z.div_pow2_bits by lia. rewrite Z.add_comm, Z.div_add by lia.
    rewrite Z.div_small by lia. reflexivity.
Qed.

Definition be32w (a b c d : Z) : Z := ((a * 256 + b) * 256 + c) * 256 + d.

Lemma be32w_bit a b c d n :
  0 <= a < 256 -> 0 <= b < 256 -> 0 <= c < 256 -> 0 <= d < 256 -> 0 <= n ->
  Z.testbit (be32w a b c d) n =
  if n <? 8 then Z.testbit d n
  else if n - 8 <? 8 then Z.testbit c (n - 8)
  else if n - 8 - 8 <? 8 then Z.testbit b (n - 8 - 8) else Z.testbit a (n - 8 - 8 - 8).
Proof.
  intros Ha Hb Hc Hd Hn. unfold be32w.
  change 256 with (2 ^ 8). rewrite (split_bit _ d 8 n) by lia.
  destruct (n <? 8) eqn:E1; [reflexivity|]. apply Z.ltb_ge in E1.
  rewrite (split_bit _ c 8 (n - 8)) by lia.
  destruct (n - 8 <? 8) eqn:E2; [reflexivity|]. apply Z.ltb_ge in E2.
  rewrite (split_bit a b 8 (n - 8 - 8)) by lia. reflexivity.
Qed.

Definition byte_bits (b : Z) : list bool := map (fun i => Z.testbit b (Z.of_nat i)) [7; 6; 5; 4; 3; 2; 1; 0]%nat.

Lemma bits32_be32w a b c d :
  0 <= a < 256 -> 0 <= b < 256 -> 0 <= c < 256 -> 0 <= d < 256 ->
  bits32 (be32w a b c d) = byte_bits a ++ byte_bits b ++ byte_bits c ++ byte_bits d.
Proof.
  intros Ha Hb Hc Hd. unfold bits32, byte_bits. cbn [seq map app].
  repeat (f_equal; [rewrite be32w_bit by (assumption || (cbn; lia)); reflexivity|]).
  f_equal. rewrite be32w_bit by (assumption || (cbn; lia)). reflexivity.
Qed.

Lemma be32w_range a b c d :
  0 <= a < 256 -> 0 <= b < 256 -> 0 <= c < 256 -> 0 <= d < 256 -> 0 <= be32w a b c d < 4294967296.
Proof. unfold be32w. lia. Qed.
