(* Mem.v - the vocabulary for translated functions that read a byte buffer through pointers
   (tools/c2v.py, memory mode).  One memory object [mem : list Z] (its bytes, as they lie in the
   host's memory); a pointer is an offset into it, or NULL.  A load outside the object, or through
   NULL, is undefined: the translator guards every load with [ld_ok], so the translated function
   returns [None] there.  Loads are little-endian (the translator refuses to run on another host:
   Generated.host_little_endian). *)
From RtrV Require Import Base.CSem.
Local Open Scope Z_scope.

Definition ptr := option Z.
Definition ptr_add (p : ptr) (d : Z) : ptr :=
  match p with Some o => Some (o + d) | None => None end.

Definition ld_ok (mem : list Z) (p : ptr) (size : Z) : bool :=
  match p with
  | Some o => (0 <=? o) && (o + size <=? Z.of_nat (List.length mem))
  | None => false
  end.

Definition mbyte (mem : list Z) (i : Z) : Z := nth (Z.to_nat i) mem 0.

Fixpoint le_load (mem : list Z) (o : Z) (n : nat) : Z :=
  match n with
  | O => 0
  | S k => mbyte mem o + 256 * le_load mem (o + 1) k
  end.

Definition ldu (mem : list Z) (p : ptr) (size : Z) : Z :=
  match p with Some o => le_load mem o (Z.to_nat size) | None => 0 end.
Definition lds (mem : list Z) (p : ptr) (size : Z) : Z := wraps (8 * size) (ldu mem p size).

(* ntohl / htonl, ntohs / htons on a little-endian host *)
Definition bswap32 (x : Z) : Z :=
  (((x mod 256) * 256 + (x / 256) mod 256) * 256 + (x / 65536) mod 256) * 256 + (x / 16777216) mod 256.
Definition bswap16 (x : Z) : Z := (x mod 256) * 256 + (x / 256) mod 256.

Definition byte_ok (b : Z) : Prop := 0 <= b < 256.

Lemma le_load_4 mem o :
  le_load mem o 4 = mbyte mem o + 256 * (mbyte mem (o + 1) + 256 * (mbyte mem (o + 2) + 256 * mbyte mem (o + 3))).
Proof.
  cbn [le_load]. replace (o + 1 + 1) with (o + 2) by lia. replace (o + 2 + 1) with (o + 3) by lia. lia.
Qed.

Lemma bswap32_le a b c d :
  byte_ok a -> byte_ok b -> byte_ok c -> byte_ok d ->
  bswap32 (a + 256 * (b + 256 * (c + 256 * d))) = ((a * 256 + b) * 256 + c) * 256 + d.
Proof.
  unfold byte_ok, bswap32. intros Ha Hb Hc Hd.
  set (x := a + 256 * (b + 256 * (c + 256 * d))).
  assert (E1 : x / 256 = b + 256 * (c + 256 * d)).
  { symmetry. apply (Z.div_unique x 256 _ a); [lia|unfold x; lia]. }
  assert (E2 : x / 65536 = c + 256 * d).
  { symmetry. apply (Z.div_unique x 65536 _ (a + 256 * b)); [lia|unfold x; lia]. }
  assert (E3 : x / 16777216 = d).
  { symmetry. apply (Z.div_unique x 16777216 _ (a + 256 * (b + 256 * c))); [lia|unfold x; lia]. }
  assert (E0 : x mod 256 = a).
  { symmetry. apply (Z.mod_unique x 256 (b + 256 * (c + 256 * d)) a); [lia|unfold x; lia]. }
  rewrite E0, E1, E2, E3.
  assert (F1 : (b + 256 * (c + 256 * d)) mod 256 = b).
  { symmetry. apply (Z.mod_unique _ 256 (c + 256 * d) b); lia. }
  assert (F2 : (c + 256 * d) mod 256 = c).
  { symmetry. apply (Z.mod_unique _ 256 d c); lia. }
  rewrite F1, F2, (Z.mod_small d) by lia. reflexivity.
Qed.

Lemma mbyte_ok mem i : Forall byte_ok mem -> byte_ok (mbyte mem i).
Proof.
  intros H. unfold mbyte. destruct (nth_in_or_default (Z.to_nat i) mem 0) as [Hin|Heq].
  - rewrite Forall_forall in H. apply H, Hin.
  - rewrite Heq. unfold byte_ok; lia.
Qed.
