(* CSem.v — the small C-semantics vocabulary that tools/c2v.py targets.
   Everything here is a plain definition: integers are Z with explicit
   wrap-around, undefined behaviour is the [None] of [option].            *)
From Coq Require Export ZArith List String Bool Lia.
Export ListNotations.
Local Open Scope Z_scope.

(* --- integer types ------------------------------------------------- *)
Definition wrapu (bits : Z) (v : Z) : Z := v mod (2 ^ bits).
Definition wraps (bits : Z) (v : Z) : Z :=
  let m := v mod (2 ^ bits) in if m <? 2 ^ (bits - 1) then m else m - 2 ^ bits.
Definition in_s (bits : Z) (v : Z) : bool :=
  (- 2 ^ (bits - 1) <=? v) && (v <? 2 ^ (bits - 1)).

Definition b2z (b : bool) : Z := if b then 1 else 0.
Definition z2b (z : Z) : bool := negb (z =? 0).

(* --- shifts: UB when the count is outside [0, width) ---------------- *)
Definition shift_ok (width cnt : Z) : bool := (0 <=? cnt) && (cnt <? width).

(* bitwise not at an unsigned width *)
Definition notu (bits v : Z) : Z := 2 ^ bits - 1 - v.

(* --- structs reached through a pointer parameter: field store ------- *)
Definition store := list (string * Z).
Fixpoint sget (k : string) (s : store) : Z :=
  match s with
  | [] => 0
  | (k', v) :: r => if String.eqb k k' then v else sget k r
  end.
Fixpoint sset (k : string) (v : Z) (s : store) : store :=
  match s with
  | [] => [(k, v)]
  | (k', v') :: r => if String.eqb k k' then (k, v) :: r else (k', v') :: sset k v r
  end.

Lemma sget_sset_same k v s : sget k (sset k v s) = v.
Proof.
  induction s as [|[k' v'] r IH]; simpl.
  - now rewrite String.eqb_refl.
  - destruct (String.eqb k k') eqn:E; simpl; [now rewrite String.eqb_refl|now rewrite E].
Qed.
Lemma sget_sset_other k k' v s : k <> k' -> sget k' (sset k v s) = sget k' s.
Proof.
  intros Hne. induction s as [|[k2 v2] r IH]; simpl.
  - destruct (String.eqb k' k) eqn:E; [apply String.eqb_eq in E; congruence|reflexivity].
  - destruct (String.eqb k k2) eqn:E; simpl.
    + apply String.eqb_eq in E. subst k2.
      destruct (String.eqb k' k) eqn:E2; [apply String.eqb_eq in E2; congruence|reflexivity].
    + destruct (String.eqb k' k2); [reflexivity|exact IH].
Qed.

(* --- constant tables: reading outside the table is UB --------------- *)
Definition tbl_get {A : Type} (l : list A) (i : Z) : option A :=
  if (i <? 0) then None else nth_error l (Z.to_nat i).

Lemma tbl_get_Some {A} (l : list A) i x :
  tbl_get l i = Some x -> 0 <= i < Z.of_nat (List.length l).
Proof.
  unfold tbl_get. destruct (i <? 0) eqn:E; [discriminate|].
  intros H. apply Z.ltb_ge in E.
  assert (Hn : nth_error l (Z.to_nat i) <> None) by congruence.
  apply nth_error_Some in Hn. lia.
Qed.
Lemma tbl_get_None {A} (l : list A) i :
  tbl_get l i = None <-> (i < 0 \/ Z.of_nat (List.length l) <= i).
Proof.
  unfold tbl_get. destruct (i <? 0) eqn:E.
  - apply Z.ltb_lt in E. split; auto.
  - apply Z.ltb_ge in E. rewrite nth_error_None. lia.
Qed.

(* --- option monad --------------------------------------------------- *)
Definition obind {A B} (o : option A) (f : A -> option B) : option B :=
  match o with Some a => f a | None => None end.
Notation "'do' x <- e ; k" := (obind e (fun x => k))
  (at level 200, x pattern, e at level 100, k at level 200, right associativity).
Definition guard {B} (ok : bool) (k : option B) : option B := if ok then k else None.
