(* EffMem.v - two helpers for effect trees that keep a byte buffer (tools/c2v.py, class TrEff3; Gen/GeneratedFsm3.v):
   the bytes an untranslated callee wrote through a pointer into a known object, and the bytes handed to one. *)
From RtrV Require Import Base.CSem Base.Mem Base.MemW.
Local Open Scope Z_scope.

(* store the bytes bs at the pointer p (the translator guards the whole range the callee may write with st_ok) *)
Definition mwrite (mem : list Z) (p : ptr) (bs : list Z) : list Z :=
  match p with Some o => st_list mem (Z.to_nat o) bs | None => mem end.

(* the object from the pointer to its end: what a callee that is handed the pointer can read *)
Definition mfrom (mem : list Z) (p : ptr) : list Z :=
  match p with Some o => skipn (Z.to_nat o) mem | None => [] end.
