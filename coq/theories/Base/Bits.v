(* Bits.v - connects the uint32_t arithmetic of lrtr_get_bits (as translated from /repo into
   Gen/Generated.v) with the list-of-bits view of addresses used by the trie model:
     * comparing the first n bits of two words through lrtr_get_bits = equality of [firstn n] of their
       bit lists (the test trie_lookup performs on a node),
     * extracting bit number lvl = reading position lvl of the bit list (is_left_child).
   Inside the domain the C code asserts (0 <= from, from + n <= 32) the function never returns None. *)
From RtrV Require Import Base.CSem Gen.Generated.
Local Open Scope Z_scope.

Definition bits32 (v : Z) : list bool := map (fun i => Z.testbit v (31 - Z.of_nat i)) (seq 0 32).

(* the n most significant bits of a 32-bit word *)
Definition hi (n : Z) : Z := Z.shiftl (Z.ones n) (32 - n).

Lemma hi_val n : 0 <= n <= 32 -> hi n = 2 ^ 32 - 2 ^ (32 - n).
Proof.
  intros H. unfold hi. rewrite Z.shiftl_mul_pow2 by lia. rewrite Z.ones_equiv.
  replace (Z.pred (2 ^ n) * 2 ^ (32 - n)) with (2 ^ n * 2 ^ (32 - n) - 2 ^ (32 - n)) by lia.
  rewrite <- Z.pow_add_r by lia. replace (n + (32 - n)) with 32 by lia. reflexivity.
Qed.

Lemma hi_bits n j : 0 <= n <= 32 -> 0 <= j -> Z.testbit (hi n) j = (32 - n <=? j) && (j <? 32).
Proof.
  intros Hn Hj. unfold hi. rewrite Z.shiftl_spec by lia.
  destruct (32 - n <=? j) eqn:E1; cbn [andb].
  - apply Z.leb_le in E1. destruct (j <? 32) eqn:E2.
    + apply Z.ltb_lt in E2. apply Z.ones_spec_low. lia.
    + apply Z.ltb_ge in E2. apply Z.ones_spec_high. lia.
  - apply Z.leb_gt in E1. apply Z.testbit_neg_r. lia.
Qed.

Lemma hi_range n : 0 <= n <= 32 -> 0 <= hi n < 2 ^ 32.
Proof.
  intros H. rewrite hi_val by lia.
  assert (0 < 2 ^ (32 - n)) by (apply Z.pow_pos_nonneg; lia).
  assert (2 ^ (32 - n) <= 2 ^ 32) by (apply Z.pow_le_mono_r; lia). lia.
Qed.

Lemma wraps32_id x : 0 <= x < 2 ^ 31 -> wraps 32 x = x.
Proof.
  intros H. unfold wraps. rewrite Z.mod_small by lia.
  change (2 ^ (32 - 1)) with (2 ^ 31). destruct (x <? 2 ^ 31) eqn:E; [reflexivity|]. apply Z.ltb_ge in E. lia.
Qed.

Lemma wrapu32_id x : 0 <= x < 2 ^ 32 -> wrapu 32 x = x.
Proof. intros H. unfold wrapu. apply Z.mod_small. exact H. Qed.

(* what the translated function computes inside its domain *)
Theorem get_bits_gen_spec v from n :
  0 <= from -> 0 < n -> from + n <= 32 ->
  lrtr_get_bits_gen v from n = Some (Z.land (Z.shiftr (hi n) from) v).
Proof.
  intros Hf Hn Hs. unfold lrtr_get_bits_gen.
  rewrite (wraps32_id n) by lia. rewrite (wraps32_id from) by lia.
  assert (E1 : (n <? 33) = true) by (apply Z.ltb_lt; lia). rewrite E1. cbv [guard].
  assert (E2 : (n =? 0) = false) by (apply Z.eqb_neq; lia). rewrite E2.
  change (wrapu 32 (- 0 - 1)) with (2 ^ 32 - 1).
  assert (Hsf : shift_ok 32 from = true).
  { unfold shift_ok. apply andb_true_iff. split; [apply Z.leb_le|apply Z.ltb_lt]; lia. }
  assert (Hshr : forall m, 0 <= m < 2 ^ 32 -> wrapu 32 (Z.shiftr m from) = Z.shiftr m from).
  { intros m Hm. apply wrapu32_id. rewrite Z.shiftr_div_pow2 by lia. split.
    - apply Z.div_pos; [lia|apply Z.pow_pos_nonneg; lia].
    - apply Z.div_lt_upper_bound; [apply Z.pow_pos_nonneg; lia|].
      assert (1 <= 2 ^ from) by (apply (Z.pow_le_mono_r 2 0 from); lia). nia. }
  assert (Hmask : (if negb (n =? 32)
                   then guard (shift_ok 32 n) (Some (notu 32 (Z.shiftr (2 ^ 32 - 1) n)))
                   else Some (2 ^ 32 - 1)) = Some (hi n)).
  { destruct (n =? 32) eqn:E3; cbn [negb].
    - apply Z.eqb_eq in E3. subst n. rewrite (hi_val 32) by lia. reflexivity.
    - apply Z.eqb_neq in E3.
      assert (Hsn : shift_ok 32 n = true).
      { unfold shift_ok. apply andb_true_iff. split; [apply Z.leb_le|apply Z.ltb_lt]; lia. }
      rewrite Hsn. cbv [guard]. f_equal.
      unfold notu. rewrite hi_val by lia. rewrite Z.shiftr_div_pow2 by lia.
      assert (Hp : 2 ^ 32 = 2 ^ n * 2 ^ (32 - n)) by (rewrite <- Z.pow_add_r by lia; f_equal; lia).
      assert (Hpn : 0 < 2 ^ n) by (apply Z.pow_pos_nonneg; lia).
      assert (Hq : (2 ^ 32 - 1) / 2 ^ n = 2 ^ (32 - n) - 1).
      { symmetry. apply (Z.div_unique_pos _ _ _ (2 ^ n - 1)); [lia|]. nia. }
      rewrite Hq. lia. }
  cbv zeta. cbv [guard] in Hmask. rewrite Hmask. cbn [obind]. rewrite Hsf. cbv zeta.
  rewrite Hshr by (apply hi_range; lia). reflexivity.
Qed.

Theorem get_bits_gen_zero v from : lrtr_get_bits_gen v from 0 = Some 0.
Proof. reflexivity. Qed.

(* bits of the mask actually applied *)
Lemma mask_bits n from j : 0 <= n <= 32 -> 0 <= from -> 0 <= j ->
  Z.testbit (Z.shiftr (hi n) from) j = (32 - n - from <=? j) && (j <? 32 - from).
Proof.
  intros Hn Hf Hj. rewrite Z.shiftr_spec by lia. rewrite hi_bits by lia.
  f_equal; [destruct (32 - n <=? j + from) eqn:A, (32 - n - from <=? j) eqn:B; try reflexivity|
            destruct (j + from <? 32) eqn:A, (j <? 32 - from) eqn:B; try reflexivity];
    repeat match goal with
           | H : (_ <=? _) = true |- _ => apply Z.leb_le in H
           | H : (_ <=? _) = false |- _ => apply Z.leb_gt in H
           | H : (_ <? _) = true |- _ => apply Z.ltb_lt in H
           | H : (_ <? _) = false |- _ => apply Z.ltb_ge in H
           end; lia.
Qed.

(* ---------- the two uses in the trie ---------- *)
Lemma firstn_bits32 (n : nat) v : (n <= 32)%nat ->
  firstn n (bits32 v) = map (fun i => Z.testbit v (31 - Z.of_nat i)) (seq 0 n).
Proof.
  intros H. unfold bits32. rewrite firstn_map. f_equal.
  replace 32%nat with (n + (32 - n))%nat by lia. rewrite seq_app, firstn_app, seq_length, Nat.sub_diag.
  cbn [firstn]. rewrite app_nil_r. rewrite firstn_all2 by (rewrite seq_length; lia). reflexivity.
Qed.

(* trie_lookup's comparison of the first n bits *)
Theorem prefix_compare a b n : 0 <= a < 2 ^ 32 -> 0 <= b < 2 ^ 32 -> 0 <= n <= 32 ->
  (exists x y, lrtr_get_bits_gen a 0 n = Some x /\ lrtr_get_bits_gen b 0 n = Some y /\
               (x = y <-> firstn (Z.to_nat n) (bits32 a) = firstn (Z.to_nat n) (bits32 b))).
Proof.
  intros Ha Hb Hn. destruct (Z.eq_dec n 0) as [->|Hn0].
  - exists 0, 0. repeat split; auto.
  - rewrite !get_bits_gen_spec by lia. rewrite Z.shiftr_0_r.
    eexists _, _. split; [reflexivity|]. split; [reflexivity|].
    rewrite !firstn_bits32 by lia. split.
    + intros Heq. apply map_ext_in. intros i Hi. apply in_seq in Hi.
      assert (Hj : 0 <= 31 - Z.of_nat i) by lia.
      apply (f_equal (fun z => Z.testbit z (31 - Z.of_nat i))) in Heq.
      rewrite !Z.land_spec, hi_bits in Heq by lia.
      assert (E1 : (32 - n <=? 31 - Z.of_nat i) = true) by (apply Z.leb_le; lia).
      assert (E2 : (31 - Z.of_nat i <? 32) = true) by (apply Z.ltb_lt; lia).
      rewrite E1, E2 in Heq. exact Heq.
    + intros Heq. apply Z.bits_inj'. intros j Hj. rewrite !Z.land_spec, hi_bits by lia.
      destruct (32 - n <=? j) eqn:E1; [|reflexivity]. destruct (j <? 32) eqn:E2; [|reflexivity]. cbn [andb].
      apply Z.leb_le in E1. apply Z.ltb_lt in E2.
      assert (Hin : In (Z.to_nat (31 - j)) (seq 0 (Z.to_nat n))) by (apply in_seq; lia).
      assert (H := Heq). rewrite map_ext_in_iff in H. specialize (H _ Hin). cbv beta in H.
      rewrite Z2Nat.id in H by lia. replace (31 - (31 - j)) with j in H by lia. exact H.
Qed.

(* is_left_child: bit number lvl decides the branch *)
Theorem bit_select a lvl : 0 <= a < 2 ^ 32 -> 0 <= lvl < 32 ->
  exists x, lrtr_get_bits_gen a lvl 1 = Some x /\ (x =? 0) = negb (nth (Z.to_nat lvl) (bits32 a) false).
Proof.
  intros Ha Hl. rewrite get_bits_gen_spec by lia. eexists. split; [reflexivity|].
  assert (Hnth : nth (Z.to_nat lvl) (bits32 a) false = Z.testbit a (31 - lvl)).
  { unfold bits32. rewrite (nth_indep _ false (Z.testbit a (31 - Z.of_nat 0))) by (rewrite map_length, seq_length; lia).
    rewrite (map_nth (fun i => Z.testbit a (31 - Z.of_nat i))). rewrite seq_nth by lia.
    cbn [Nat.add]. rewrite Z2Nat.id by lia. reflexivity. }
  rewrite Hnth.
  assert (Hb : Z.land (Z.shiftr (hi 1) lvl) a = Z.shiftl (Z.b2z (Z.testbit a (31 - lvl))) (31 - lvl)).
  { apply Z.bits_inj'. intros j Hj. rewrite Z.land_spec, mask_bits by lia. rewrite Z.shiftl_spec by lia.
    destruct (Z.eq_dec j (31 - lvl)) as [->|Hne].
    - assert (E1 : (32 - 1 - lvl <=? 31 - lvl) = true) by (apply Z.leb_le; lia).
      assert (E2 : (31 - lvl <? 32 - lvl) = true) by (apply Z.ltb_lt; lia).
      rewrite E1, E2. cbn [andb]. replace (31 - lvl - (31 - lvl)) with 0 by lia.
      destruct (Z.testbit a (31 - lvl)); reflexivity.
    - assert (E : (32 - 1 - lvl <=? j) && (j <? 32 - lvl) = false).
      { destruct (32 - 1 - lvl <=? j) eqn:A; [|reflexivity]. apply Z.leb_le in A. cbn [andb]. apply Z.ltb_ge. lia. }
      rewrite E. cbn [andb].
      destruct (Z_lt_le_dec j (31 - lvl)) as [Hlt|Hge].
      + symmetry. apply Z.testbit_neg_r. lia.
      + symmetry. destruct (Z.testbit a (31 - lvl)); cbn [Z.b2z]; [|apply Z.testbit_0_l].
        apply Z.bits_above_log2; [lia|]. change (Z.log2 1) with 0. lia. }
  rewrite Hb. destruct (Z.testbit a (31 - lvl)); cbn [Z.b2z negb].
  - rewrite Z.shiftl_1_l. apply Z.eqb_neq. assert (0 < 2 ^ (31 - lvl)) by (apply Z.pow_pos_nonneg; lia). lia.
  - rewrite Z.shiftl_0_l. reflexivity.
Qed.

(* non-vacuity *)
Example bits_example :
  lrtr_get_bits_gen 3232235776 0 16 = Some 3232235520 /\ firstn 8 (bits32 3232235776) = [true; true; false; false; false; false; false; false].
Proof. vm_compute. auto. Qed.
