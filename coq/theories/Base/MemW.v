(* MemW.v - stores: the vocabulary for translated functions that WRITE a byte buffer through pointers
   (tools/c2v.py, memory mode with stores; output Gen/GeneratedMemW.v).  As in Base/Mem.v a memory object is a
   byte list and a pointer an offset into it (or NULL).  A store outside the object, or through NULL, is undefined:
   the translator guards every store with [st_ok] - the same range condition as [ld_ok] - so the translated function
   returns [None] there.  [stu mem p size v] puts the low [size] bytes of v at offset p, least significant byte first
   (little-endian host, Generated.host_little_endian); it never changes the length of the object: a byte that would
   fall outside is dropped (the guard has ruled that out before).  A function that writes returns the new bytes of
   the object; the translator threads them through by shadowing the object's variable. *)
From RtrV Require Import Base.CSem Base.Mem.
Local Open Scope Z_scope.

Definition st_ok (mem : list Z) (p : ptr) (size : Z) : bool := ld_ok mem p size.

(* one byte *)
Fixpoint upd (mem : list Z) (n : nat) (b : Z) : list Z :=
  match mem with
  | [] => []
  | x :: r => match n with O => b :: r | S k => x :: upd r k b end
  end.

(* consecutive bytes, from index n on *)
Fixpoint st_list (mem : list Z) (n : nat) (bs : list Z) : list Z :=
  match bs with
  | [] => mem
  | b :: r => st_list (upd mem n b) (S n) r
  end.

Fixpoint le_bytes (v : Z) (n : nat) : list Z :=
  match n with
  | O => []
  | S k => v mod 256 :: le_bytes (v / 256) k
  end.

Definition stu (mem : list Z) (p : ptr) (size : Z) (v : Z) : list Z :=
  match p with
  | Some o => st_list mem (Z.to_nat o) (le_bytes v (Z.to_nat size))
  | None => mem
  end.

(* memcpy between two different objects (the translator refuses a copy inside one object) *)
Fixpoint ld_bytes (mem : list Z) (o : Z) (n : nat) : list Z :=
  match n with
  | O => []
  | S k => mbyte mem o :: ld_bytes mem (o + 1) k
  end.

Definition mcopy (dst : list Z) (pd : ptr) (src : list Z) (ps : ptr) (n : Z) : list Z :=
  match pd, ps with
  | Some od, Some os => st_list dst (Z.to_nat od) (ld_bytes src os (Z.to_nat n))
  | _, _ => dst
  end.

(* a local array before its first write (C: indeterminate; the model: zero) *)
Definition zeros (n : Z) : list Z := repeat 0 (Z.to_nat n).

(* ---- the length never changes ---- *)
Lemma upd_length mem n b : List.length (upd mem n b) = List.length mem.
Proof.
  revert n. induction mem as [|x r IH]; intros n; [reflexivity|].
  destruct n; cbn [upd List.length]; [reflexivity|]. now rewrite IH.
Qed.

Lemma st_list_length bs : forall mem n, List.length (st_list mem n bs) = List.length mem.
Proof.
  induction bs as [|b r IH]; intros mem n; [reflexivity|].
  cbn [st_list]. now rewrite IH, upd_length.
Qed.

Lemma stu_length mem p size v : List.length (stu mem p size v) = List.length mem.
Proof. destruct p; [apply st_list_length|reflexivity]. Qed.

Lemma mcopy_length dst pd src ps n : List.length (mcopy dst pd src ps n) = List.length dst.
Proof. destruct pd, ps; try reflexivity. apply st_list_length. Qed.

Lemma zeros_length n : 0 <= n -> Z.of_nat (List.length (zeros n)) = n.
Proof. intros H. unfold zeros. rewrite repeat_length. lia. Qed.

(* so the guards of later loads and stores are about the original object *)
Lemma ld_ok_stu mem p size v q k : ld_ok (stu mem p size v) q k = ld_ok mem q k.
Proof. unfold ld_ok. now rewrite stu_length. Qed.
Lemma st_ok_stu mem p size v q k : st_ok (stu mem p size v) q k = st_ok mem q k.
Proof. apply ld_ok_stu. Qed.
Lemma ld_ok_mcopy dst pd src ps n q k : ld_ok (mcopy dst pd src ps n) q k = ld_ok dst q k.
Proof. unfold ld_ok. now rewrite mcopy_length. Qed.
Lemma st_ok_mcopy dst pd src ps n q k : st_ok (mcopy dst pd src ps n) q k = st_ok dst q k.
Proof. apply ld_ok_mcopy. Qed.

Lemma ld_ok_in mem o n : 0 <= o -> o + n <= Z.of_nat (List.length mem) -> ld_ok mem (Some o) n = true.
Proof. intros H1 H2. unfold ld_ok. apply andb_true_intro. split; apply Z.leb_le; assumption. Qed.
Lemma st_ok_in mem o n : 0 <= o -> o + n <= Z.of_nat (List.length mem) -> st_ok mem (Some o) n = true.
Proof. apply ld_ok_in. Qed.
Lemma ld_ok_inv mem o n : ld_ok mem (Some o) n = true -> 0 <= o /\ o + n <= Z.of_nat (List.length mem).
Proof. unfold ld_ok. intros H. apply andb_prop in H. destruct H as [H1 H2]. apply Z.leb_le in H1, H2. now split. Qed.

(* ---- the bytes after a store ---- *)
Lemma nth_upd mem n b i :
  nth i (upd mem n b) 0 = if ((i =? n)%nat && (n <? List.length mem)%nat)%bool then b else nth i mem 0.
Proof.
  revert n i. induction mem as [|x r IH]; intros n i.
  - cbn [upd List.length]. rewrite Bool.andb_false_r. reflexivity.
  - destruct n as [|n]; destruct i as [|i]; cbn [upd nth List.length]; try reflexivity.
    rewrite IH. reflexivity.
Qed.

Lemma nth_st_list bs : forall mem n i, (n + List.length bs <= List.length mem)%nat ->
  nth i (st_list mem n bs) 0 =
  if ((n <=? i)%nat && (i <? n + List.length bs)%nat)%bool then nth (i - n) bs 0 else nth i mem 0.
Proof.
  induction bs as [|b r IH]; intros mem n i Hn.
  - cbn [st_list List.length]. destruct (n <=? i)%nat eqn:E1; destruct (i <? n + 0)%nat eqn:E2; try reflexivity.
    apply Nat.leb_le in E1. apply Nat.ltb_lt in E2. lia.
  - cbn [st_list List.length] in *. rewrite IH by (rewrite upd_length; lia). rewrite nth_upd.
    destruct (Nat.leb_spec0 (S n) i) as [E1|E1]; destruct (Nat.ltb_spec0 i (S n + List.length r)) as [E2|E2];
      destruct (Nat.leb_spec0 n i) as [E3|E3]; destruct (Nat.ltb_spec0 i (n + S (List.length r))) as [E4|E4];
      destruct (Nat.eqb_spec i n) as [E5|E5]; destruct (Nat.ltb_spec0 n (List.length mem)) as [E6|E6]; cbn [andb];
      try lia; try reflexivity.
    + replace (i - n)%nat with (S (i - S n)) by lia. reflexivity.
    + replace (i - n)%nat with 0%nat by lia. reflexivity.
Qed.

Lemma le_bytes_length v n : List.length (le_bytes v n) = n.
Proof. revert v. induction n as [|n IH]; intros v; [reflexivity|]. cbn [le_bytes List.length]. now rewrite IH. Qed.
Lemma ld_bytes_length mem o n : List.length (ld_bytes mem o n) = n.
Proof. revert o. induction n as [|n IH]; intros o; [reflexivity|]. cbn [ld_bytes List.length]. now rewrite IH. Qed.

Lemma mbyte_stu mem o size v i :
  st_ok mem (Some o) size = true -> 0 <= size -> 0 <= i ->
  mbyte (stu mem (Some o) size v) i =
  if (o <=? i) && (i <? o + size) then nth (Z.to_nat (i - o)) (le_bytes v (Z.to_nat size)) 0 else mbyte mem i.
Proof.
  intros Hok Hs Hi. apply ld_ok_inv in Hok. destruct Hok as [Ho Hl].
  unfold mbyte, stu. rewrite nth_st_list by (rewrite le_bytes_length; lia). rewrite le_bytes_length.
  destruct (Z.leb_spec0 o i) as [E1|E1]; destruct (Z.ltb_spec0 i (o + size)) as [E2|E2];
    destruct (Nat.leb_spec0 (Z.to_nat o) (Z.to_nat i)) as [E3|E3];
    destruct (Nat.ltb_spec0 (Z.to_nat i) (Z.to_nat o + Z.to_nat size)) as [E4|E4];
    cbn [andb]; try lia; try reflexivity.
  replace (Z.to_nat i - Z.to_nat o)%nat with (Z.to_nat (i - o)) by lia. reflexivity.
Qed.

Lemma nth_ld_bytes mem n : forall o k, (k < n)%nat -> nth k (ld_bytes mem o n) 0 = mbyte mem (o + Z.of_nat k).
Proof.
  induction n as [|n IH]; intros o k Hk; [lia|].
  cbn [ld_bytes]. destruct k as [|k]; cbn [nth].
  - f_equal. lia.
  - rewrite IH by lia. f_equal. lia.
Qed.

Lemma mbyte_mcopy dst od src os n i :
  st_ok dst (Some od) n = true -> 0 <= n -> 0 <= i ->
  mbyte (mcopy dst (Some od) src (Some os) n) i =
  if (od <=? i) && (i <? od + n) then mbyte src (os + (i - od)) else mbyte dst i.
Proof.
  intros Hok Hs Hi. apply ld_ok_inv in Hok. destruct Hok as [Ho Hl].
  unfold mcopy. unfold mbyte at 1. rewrite nth_st_list by (rewrite ld_bytes_length; lia). rewrite ld_bytes_length.
  destruct (Z.leb_spec0 od i) as [E1|E1]; destruct (Z.ltb_spec0 i (od + n)) as [E2|E2];
    destruct (Nat.leb_spec0 (Z.to_nat od) (Z.to_nat i)) as [E3|E3];
    destruct (Nat.ltb_spec0 (Z.to_nat i) (Z.to_nat od + Z.to_nat n)) as [E4|E4];
    cbn [andb]; try lia; try reflexivity.
  rewrite nth_ld_bytes by lia. f_equal. lia.
Qed.

(* ---- loads after a store ---- *)
Lemma le_load_ext m1 m2 n : forall o, (forall i, o <= i < o + Z.of_nat n -> mbyte m1 i = mbyte m2 i) ->
  le_load m1 o n = le_load m2 o n.
Proof.
  induction n as [|n IH]; intros o H; [reflexivity|].
  cbn [le_load]. rewrite (H o) by lia. rewrite (IH (o + 1)); [reflexivity|]. intros i Hi. apply H. lia.
Qed.

(* a load from a range that the store did not touch *)
Lemma ldu_stu_disjoint mem o1 n1 v o2 n2 :
  st_ok mem (Some o1) n1 = true -> 0 <= n1 -> 0 <= o2 -> 0 <= n2 -> o2 + n2 <= o1 \/ o1 + n1 <= o2 ->
  ldu (stu mem (Some o1) n1 v) (Some o2) n2 = ldu mem (Some o2) n2.
Proof.
  intros Hok Hn1 Ho2 Hn2 Hd. unfold ldu. apply le_load_ext. intros i Hi.
  rewrite mbyte_stu by (assumption || lia).
  destruct (o1 <=? i) eqn:E1; destruct (i <? o1 + n1) eqn:E2; cbn [andb]; try reflexivity.
  apply Z.leb_le in E1. apply Z.ltb_lt in E2. lia.
Qed.

Fixpoint le_value (bs : list Z) : Z :=
  match bs with
  | [] => 0
  | b :: r => b + 256 * le_value r
  end.

Lemma le_load_nth mem n : forall o bs, List.length bs = n ->
  (forall k, (k < n)%nat -> mbyte mem (o + Z.of_nat k) = nth k bs 0) -> le_load mem o n = le_value bs.
Proof.
  induction n as [|n IH]; intros o bs Hl H.
  - destruct bs; [reflexivity|discriminate].
  - destruct bs as [|b r]; [discriminate|]. cbn [le_load le_value].
    rewrite (IH (o + 1) r).
    + specialize (H 0%nat ltac:(lia)). cbn [nth] in H. replace (o + Z.of_nat 0) with o in H by lia. now rewrite H.
    + cbn [List.length] in Hl. lia.
    + intros k Hk. specialize (H (S k) ltac:(lia)). cbn [nth] in H. rewrite <- H. f_equal. lia.
Qed.

Lemma le_value_le_bytes n : forall v, le_value (le_bytes v n) = v mod 256 ^ Z.of_nat n.
Proof.
  induction n as [|n IH]; intros v.
  - cbn [le_bytes le_value]. change (256 ^ Z.of_nat 0) with 1. now rewrite Z.mod_1_r.
  - cbn [le_bytes le_value]. rewrite IH. rewrite Nat2Z.inj_succ, Z.pow_succ_r by lia.
    assert (Hp : 0 < 256 ^ Z.of_nat n) by (apply Z.pow_pos_nonneg; lia).
    rewrite (Z.rem_mul_r v 256 (256 ^ Z.of_nat n)) by lia. reflexivity.
Qed.

(* a load of exactly what was stored *)
Lemma ldu_stu_same mem o n v :
  st_ok mem (Some o) n = true -> 0 <= n -> ldu (stu mem (Some o) n v) (Some o) n = v mod 256 ^ n.
Proof.
  intros Hok Hn. unfold ldu.
  rewrite (le_load_nth _ (Z.to_nat n) o (le_bytes v (Z.to_nat n))).
  - rewrite le_value_le_bytes. now rewrite Z2Nat.id.
  - apply le_bytes_length.
  - intros k Hk. pose proof (ld_ok_inv _ _ _ Hok) as [Ho Hl].
    rewrite mbyte_stu by (assumption || lia).
    replace ((o <=? o + Z.of_nat k) && (o + Z.of_nat k <? o + n)) with true.
    + f_equal. lia.
    + symmetry. apply andb_true_intro. split; [apply Z.leb_le|apply Z.ltb_lt]; lia.
Qed.

(* ---- byte values stay byte values ---- *)
Lemma upd_bytes mem n b : Forall byte_ok mem -> byte_ok b -> Forall byte_ok (upd mem n b).
Proof.
  intros H Hb. revert n. induction H as [|x r Hx Hr IH]; intros n; [constructor|].
  destruct n; cbn [upd]; constructor; auto.
Qed.
Lemma st_list_bytes bs : forall mem n, Forall byte_ok mem -> Forall byte_ok bs -> Forall byte_ok (st_list mem n bs).
Proof.
  induction bs as [|b r IH]; intros mem n Hm Hb; [exact Hm|].
  cbn [st_list]. inversion Hb; subst. apply IH; [apply upd_bytes|]; assumption.
Qed.
Lemma le_bytes_bytes n : forall v, Forall byte_ok (le_bytes v n).
Proof.
  induction n as [|n IH]; intros v; constructor; [|apply IH].
  unfold byte_ok. apply Z.mod_pos_bound. lia.
Qed.
Lemma stu_bytes mem p size v : Forall byte_ok mem -> Forall byte_ok (stu mem p size v).
Proof. intros H. destruct p; [|exact H]. apply st_list_bytes; [exact H|apply le_bytes_bytes]. Qed.
Lemma ld_bytes_bytes mem n : forall o, Forall byte_ok mem -> Forall byte_ok (ld_bytes mem o n).
Proof. induction n as [|n IH]; intros o H; constructor; [apply mbyte_ok, H|apply IH, H]. Qed.
Lemma mcopy_bytes dst pd src ps n : Forall byte_ok dst -> Forall byte_ok src -> Forall byte_ok (mcopy dst pd src ps n).
Proof.
  intros Hd Hs. destruct pd, ps; try exact Hd. apply st_list_bytes; [exact Hd|apply ld_bytes_bytes, Hs].
Qed.

(* ---- a 32-bit word converted in place: ntohl of what lies at o, written back to o ---- *)
Lemma bswap32_range x : 0 <= bswap32 x < 4294967296.
Proof.
  unfold bswap32.
  pose proof (Z.mod_pos_bound x 256 ltac:(lia)). pose proof (Z.mod_pos_bound (x / 256) 256 ltac:(lia)).
  pose proof (Z.mod_pos_bound (x / 65536) 256 ltac:(lia)). pose proof (Z.mod_pos_bound (x / 16777216) 256 ltac:(lia)).
  lia.
Qed.

Lemma le_bytes_be a b c d :
  byte_ok a -> byte_ok b -> byte_ok c -> byte_ok d ->
  le_bytes (((a * 256 + b) * 256 + c) * 256 + d) 4 = [d; c; b; a].
Proof.
  unfold byte_ok. intros Ha Hb Hc Hd. cbn [le_bytes].
  set (x := ((a * 256 + b) * 256 + c) * 256 + d).
  assert (E0 : x mod 256 = d) by (symmetry; apply (Z.mod_unique x 256 ((a * 256 + b) * 256 + c) d); [lia|unfold x; lia]).
  assert (E1 : x / 256 = (a * 256 + b) * 256 + c) by (symmetry; apply (Z.div_unique x 256 _ d); [lia|unfold x; lia]).
  rewrite E0, E1.
  assert (F0 : ((a * 256 + b) * 256 + c) mod 256 = c) by (symmetry; apply (Z.mod_unique _ 256 (a * 256 + b) c); lia).
  assert (F1 : ((a * 256 + b) * 256 + c) / 256 = a * 256 + b) by (symmetry; apply (Z.div_unique _ 256 _ c); lia).
  rewrite F0, F1.
  assert (G0 : (a * 256 + b) mod 256 = b) by (symmetry; apply (Z.mod_unique _ 256 a b); lia).
  assert (G1 : (a * 256 + b) / 256 = a) by (symmetry; apply (Z.div_unique _ 256 _ b); lia).
  rewrite G0, G1, (Z.mod_small a) by lia. reflexivity.
Qed.

Definition swap4 (mem : list Z) (o : Z) : list Z := stu mem (Some o) 4 (bswap32 (ldu mem (Some o) 4)).

Lemma swap4_length mem o : List.length (swap4 mem o) = List.length mem.
Proof. apply stu_length. Qed.
Lemma swap4_bytes mem o : Forall byte_ok mem -> Forall byte_ok (swap4 mem o).
Proof. apply stu_bytes. Qed.

(* the four bytes at o .. o+3 come out in reverse order, every other byte is unchanged *)
Lemma mbyte_swap4 mem o i :
  Forall byte_ok mem -> 0 <= o -> o + 4 <= Z.of_nat (List.length mem) -> 0 <= i ->
  mbyte (swap4 mem o) i = if (o <=? i) && (i <? o + 4) then mbyte mem (2 * o + 3 - i) else mbyte mem i.
Proof.
  intros Hb Ho Hl Hi. unfold swap4. rewrite mbyte_stu by (try apply st_ok_in; lia).
  destruct (o <=? i) eqn:E1; destruct (i <? o + 4) eqn:E2; cbn [andb]; try reflexivity.
  apply Z.leb_le in E1. apply Z.ltb_lt in E2.
  unfold ldu. change (Z.to_nat 4) with 4%nat. rewrite le_load_4.
  rewrite bswap32_le by (apply mbyte_ok, Hb). rewrite le_bytes_be by (apply mbyte_ok, Hb).
  assert (C : i = o \/ i = o + 1 \/ i = o + 2 \/ i = o + 3) by lia.
  destruct C as [-> | [-> | [-> | ->]]].
  - replace (o - o) with 0 by lia. cbn [Z.to_nat nth]. f_equal. lia.
  - replace (o + 1 - o) with 1 by lia. change (Z.to_nat 1) with 1%nat. cbn [nth]. f_equal. lia.
  - replace (o + 2 - o) with 2 by lia. change (Z.to_nat 2) with 2%nat. cbn [nth]. f_equal. lia.
  - replace (o + 3 - o) with 3 by lia. change (Z.to_nat 3) with 3%nat. cbn [nth]. f_equal. lia.
Qed.
