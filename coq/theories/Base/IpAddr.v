(* IpAddr.v - the address-helper layer of rtrlib (lib/ip.c, lib/ipv4.c, lib/ipv6.c; translated into
   Gen/GeneratedIp.v) computes what the list-of-bits view of an address says:
     * lrtr_ip_addr_equal            = same family and the same bit list                    (ip_equal_exact, ip_equal_iff)
     * is_left_child(addr, lvl)      = lrtr_ip_addr_is_zero(lrtr_ip_addr_get_bits(addr, lvl, 1))
                                     = "bit number lvl of the address is 0"                 (ip_is_left_child)
     * the covering test of trie_lookup / validation
         lrtr_ip_addr_equal(lrtr_ip_addr_get_bits(&p, 0, n), lrtr_ip_addr_get_bits(&q, 0, n))
                                     = the first n bits of the two bit lists agree          (ip_covers)
     * inside these domains no translated function returns None (None = the undefined shift / failing
       assert the guards stand for)                                                         (ip_no_ub)
   The theorems are the composition of Bits.v / Bits6.v (word level) with the lrtr_ip_addr_* wrappers, which move
   the words in and out of the union member u.addr4 / u.addr6 (Base/CSemSub.v). *)
From Coq Require Import ZArith List String Ascii Bool Lia ZifyBool.
From RtrV Require Import Base.CSem Base.CSemSub Base.Bits Base.Bits6 Gen.Generated Gen.GeneratedIp.
Import ListNotations.
Local Open Scope string_scope.
Local Open Scope Z_scope.

(* ================================================================================================ *)
(* 1. Sub-struct stores: reading through ssub / ssetsub                                              *)
(* ================================================================================================ *)

Lemma strip_prefix_app p k : strip_prefix p (p ++ k) = Some k.
Proof.
  induction p as [|a p IH]; cbn [append strip_prefix]; [reflexivity|].
  rewrite Ascii.eqb_refl. exact IH.
Qed.

Lemma strip_prefix_Some p : forall k k', strip_prefix p k = Some k' -> k = p ++ k'.
Proof.
  induction p as [|a p IH]; intros k k' H; cbn [append strip_prefix] in *.
  - injection H as H. exact H.
  - destruct k as [|b k]; [discriminate H|].
    destruct (Ascii.eqb a b) eqn:E; [|discriminate H].
    apply Ascii.eqb_eq in E. subst b. f_equal. apply IH. exact H.
Qed.

Lemma append_inj p a b : p ++ a = p ++ b -> a = b.
Proof.
  induction p as [|c p IH]; cbn [append]; intros H; [exact H|].
  injection H as H. exact (IH H).
Qed.

Lemma eqb_append p a b : String.eqb (p ++ a) (p ++ b) = String.eqb a b.
Proof.
  destruct (String.eqb a b) eqn:E.
  - apply String.eqb_eq in E. subst b. apply String.eqb_refl.
  - apply String.eqb_neq in E. apply String.eqb_neq. intros H. apply E. exact (append_inj _ _ _ H).
Qed.

Lemma dot_assoc p k : p ++ "." ++ k = (p ++ ".") ++ k.
Proof.
  induction p as [|c p IH]; [reflexivity|].
  change (String c p ++ "." ++ k) with (String c (p ++ "." ++ k)).
  change ((String c p ++ ".") ++ k) with (String c ((p ++ ".") ++ k)).
  f_equal. exact IH.
Qed.

Lemma eqb_dot p a b : String.eqb (p ++ "." ++ a) (p ++ "." ++ b) = String.eqb a b.
Proof. rewrite !dot_assoc. apply eqb_append. Qed.

Lemma strip_None_neq pre k0 k : strip_prefix pre k0 = None -> String.eqb (pre ++ k) k0 = false.
Proof.
  intros H. apply String.eqb_neq. intros Heq. subst k0. rewrite strip_prefix_app in H. discriminate H.
Qed.

(* reading member k of the sub-struct s.p = reading s.p.k *)
Lemma sget_ssub p k s : sget k (ssub p s) = sget (p ++ "." ++ k) s.
Proof.
  induction s as [|[k0 v] r IH]; [reflexivity|].
  cbn [ssub sget].
  destruct (strip_prefix (p ++ ".") k0) as [k'|] eqn:E.
  - apply strip_prefix_Some in E. subst k0. cbn [sget].
    rewrite (dot_assoc p k), eqb_append, <- (dot_assoc p k), IH. reflexivity.
  - rewrite (dot_assoc p k), (strip_None_neq _ _ k E), <- (dot_assoc p k). exact IH.
Qed.

Definition keep (pre : string) (kv : string * Z) : bool :=
  match strip_prefix pre (fst kv) with Some _ => false | None => true end.

Lemma sget_keep_in pre k s : sget (pre ++ k) (filter (keep pre) s) = 0.
Proof.
  induction s as [|[k0 v] r IH]; [reflexivity|].
  cbn [filter]. unfold keep at 1. cbn [fst].
  destruct (strip_prefix pre k0) as [x|] eqn:E; [exact IH|].
  cbn [sget]. rewrite (strip_None_neq _ _ k E). exact IH.
Qed.

Lemma sget_keep_out pre k' s : strip_prefix pre k' = None -> sget k' (filter (keep pre) s) = sget k' s.
Proof.
  intros Hn. induction s as [|[k0 v] r IH]; [reflexivity|].
  cbn [filter]. unfold keep at 1. cbn [fst].
  destruct (strip_prefix pre k0) as [x|] eqn:E.
  - cbn [sget].
    assert (Hne : String.eqb k' k0 = false).
    { apply String.eqb_neq. intros Heq. subst k0. rewrite Hn in E. discriminate E. }
    rewrite Hne. exact IH.
  - cbn [sget]. rewrite IH. reflexivity.
Qed.

Lemma ssetsub_unfold p t s :
  ssetsub p t s =
  (map (fun kv : string * Z => ((p ++ "." ++ fst kv)%string, snd kv)) t ++ filter (keep (p ++ ".")) s)%list.
Proof. reflexivity. Qed.

(* after s.p = t, reading s.p.k gives t.k *)
Lemma sget_ssetsub_in p k t s : sget (p ++ "." ++ k) (ssetsub p t s) = sget k t.
Proof.
  rewrite ssetsub_unfold. induction t as [|[k0 v] t IH].
  - cbn [map app sget]. rewrite dot_assoc. apply sget_keep_in.
  - cbn [map app sget fst snd]. rewrite eqb_dot, IH. reflexivity.
Qed.

(* ... and every member outside s.p is unchanged *)
Lemma sget_ssetsub_out p k' t s : strip_prefix (p ++ ".") k' = None -> sget k' (ssetsub p t s) = sget k' s.
Proof.
  intros Hn. rewrite ssetsub_unfold. induction t as [|[k0 v] t IH].
  - cbn [map app]. apply sget_keep_out. exact Hn.
  - cbn [map app sget fst snd].
    assert (Hne : String.eqb k' (p ++ "." ++ k0) = false).
    { apply String.eqb_neq. intros Heq. subst k'. rewrite dot_assoc, strip_prefix_app in Hn. discriminate Hn. }
    rewrite Hne. exact IH.
Qed.

(* ================================================================================================ *)
(* 2. Addresses: the C representation and the bit-list view                                          *)
(* ================================================================================================ *)

Definition ip4 (a : Z) : store := [("ver", 0); ("u.addr4.addr", a)].
Definition ip6 (a0 a1 a2 a3 : Z) : store :=
  [("ver", 1); ("u.addr6.addr[0]", a0); ("u.addr6.addr[1]", a1); ("u.addr6.addr[2]", a2); ("u.addr6.addr[3]", a3)].

Inductive ipaddr := A4 (a : Z) | A6 (a0 a1 a2 a3 : Z).

Definition ip_store (x : ipaddr) : store :=
  match x with A4 a => ip4 a | A6 a0 a1 a2 a3 => ip6 a0 a1 a2 a3 end.

Definition w32 (a : Z) : Prop := 0 <= a < 2 ^ 32.
Definition ip_ok (x : ipaddr) : Prop :=
  match x with A4 a => w32 a | A6 a0 a1 a2 a3 => w32 a0 /\ w32 a1 /\ w32 a2 /\ w32 a3 end.

Definition ip_bits (x : ipaddr) : list bool :=
  match x with
  | A4 a => bits32 a
  | A6 a0 a1 a2 a3 => (bits32 a0 ++ bits32 a1 ++ bits32 a2 ++ bits32 a3)%list
  end.

Definition ip_width (x : ipaddr) : Z := match x with A4 _ => 32 | A6 _ _ _ _ => 128 end.

Definition same_family (x y : ipaddr) : bool :=
  match x, y with A4 _, A4 _ => true | A6 _ _ _ _, A6 _ _ _ _ => true | _, _ => false end.

(* words pairwise equal (false when there is no pairing) *)
Definition words_eqb (x y : ipaddr) : bool :=
  match x, y with
  | A4 a, A4 b => a =? b
  | A6 a0 a1 a2 a3, A6 b0 b1 b2 b3 => (a0 =? b0) && (a1 =? b1) && (a2 =? b2) && (a3 =? b3)
  | _, _ => false
  end.

(* all words zero *)
Definition words_zerob (x : ipaddr) : bool :=
  match x with
  | A4 a => a =? 0
  | A6 a0 a1 a2 a3 => (a0 =? 0) && (a1 =? 0) && (a2 =? 0) && (a3 =? 0)
  end.

Lemma ip_bits_length x : List.length (ip_bits x) = Z.to_nat (ip_width x).
Proof. destruct x as [a|a0 a1 a2 a3]; cbn [ip_bits ip_width]; rewrite ?app_length, !bits32_length; reflexivity. Qed.

(* bits32 is injective on 32-bit words *)
Lemma testbit_high32 a j : 0 <= a < 2 ^ 32 -> 32 <= j -> Z.testbit a j = false.
Proof.
  intros Ha Hj. rewrite <- (Z.mod_small a (2 ^ 32)) by exact Ha. apply Z.mod_pow2_bits_high. lia.
Qed.

Lemma bits32_inj a b : w32 a -> w32 b -> bits32 a = bits32 b -> a = b.
Proof.
  unfold w32. intros Ha Hb Heq. apply Z.bits_inj'. intros j Hj.
  destruct (Z_lt_le_dec j 32) as [Hlt|Hge].
  - unfold bits32 in Heq. rewrite map_ext_in_iff in Heq.
    assert (Hin : In (Z.to_nat (31 - j)) (seq 0 32)) by (apply in_seq; lia).
    specialize (Heq _ Hin). cbv beta in Heq. rewrite Z2Nat.id in Heq by lia.
    replace (31 - (31 - j)) with j in Heq by lia. exact Heq.
  - rewrite (testbit_high32 a j Ha Hge), (testbit_high32 b j Hb Hge). reflexivity.
Qed.

Lemma bits32_eq_iff a b : w32 a -> w32 b -> (bits32 a = bits32 b <-> a = b).
Proof. intros Ha Hb. split; [apply bits32_inj; assumption|intros Heq; subst b; reflexivity]. Qed.

Lemma some_b2z_1 b : Some (b2z b) = Some 1 <-> b = true.
Proof. destruct b; cbn [b2z]; split; intros H; try reflexivity; discriminate H. Qed.

Lemma eqb4_true a0 a1 a2 a3 b0 b1 b2 b3 :
  (a0 =? b0) && (a1 =? b1) && (a2 =? b2) && (a3 =? b3) = true <-> a0 = b0 /\ a1 = b1 /\ a2 = b2 /\ a3 = b3.
Proof. rewrite !andb_true_iff, !Z.eqb_eq. tauto. Qed.

(* ================================================================================================ *)
(* 3. The wrappers, evaluated on the two shapes of store that occur                                 *)
(* ================================================================================================ *)

(* the union member u.addr6 of an IPv6 address, as the callee sees it *)
Definition s6 (a0 a1 a2 a3 : Z) : store := [("addr[0]", a0); ("addr[1]", a1); ("addr[2]", a2); ("addr[3]", a3)].
(* results of lrtr_ip_addr_get_bits: IPv4 with word t / IPv6 with the four words of the store t *)
Definition r4 (t : Z) : store := [("u.addr4.addr", t); ("ver", 0)].
Definition r6 (t : store) : store := ssetsub "u.addr6" t [("ver", 1)].

Lemma get_bits_ip4 a from n :
  lrtr_ip_addr_get_bits_gen (ip4 a) from n = (do t <- lrtr_get_bits_gen a from n; Some (r4 t)).
Proof.
  unfold lrtr_ip_addr_get_bits_gen, lrtr_ipv4_get_bits_gen.
  change (ssub "u.addr4" (ip4 a)) with [("addr", a)].
  change (sget "addr" [("addr", a)]) with a.
  destruct (lrtr_get_bits_gen a from n) as [t|]; reflexivity.
Qed.

Lemma get_bits_ip6 a0 a1 a2 a3 from n :
  lrtr_ip_addr_get_bits_gen (ip6 a0 a1 a2 a3) from n =
  (do t <- lrtr_ipv6_get_bits_gen (s6 a0 a1 a2 a3) from n; Some (r6 t)).
Proof.
  unfold lrtr_ip_addr_get_bits_gen.
  change (ssub "u.addr6" (ip6 a0 a1 a2 a3)) with (s6 a0 a1 a2 a3).
  destruct (lrtr_ipv6_get_bits_gen (s6 a0 a1 a2 a3) from n) as [t|]; reflexivity.
Qed.

Lemma r6_ver t : sget "ver" (r6 t) = 1.
Proof. unfold r6. rewrite sget_ssetsub_out by reflexivity. reflexivity. Qed.
Lemma r6_w0 t : sget "u.addr6.addr[0]" (r6 t) = w0 t.
Proof. exact (sget_ssetsub_in "u.addr6" "addr[0]" t _). Qed.
Lemma r6_w1 t : sget "u.addr6.addr[1]" (r6 t) = w1 t.
Proof. exact (sget_ssetsub_in "u.addr6" "addr[1]" t _). Qed.
Lemma r6_w2 t : sget "u.addr6.addr[2]" (r6 t) = w2 t.
Proof. exact (sget_ssetsub_in "u.addr6" "addr[2]" t _). Qed.
Lemma r6_w3 t : sget "u.addr6.addr[3]" (r6 t) = w3 t.
Proof. exact (sget_ssetsub_in "u.addr6" "addr[3]" t _). Qed.

Lemma r6_sub0 t : sget "addr[0]" (ssub "u.addr6" (r6 t)) = w0 t.
Proof. rewrite sget_ssub. exact (r6_w0 t). Qed.
Lemma r6_sub1 t : sget "addr[1]" (ssub "u.addr6" (r6 t)) = w1 t.
Proof. rewrite sget_ssub. exact (r6_w1 t). Qed.
Lemma r6_sub2 t : sget "addr[2]" (ssub "u.addr6" (r6 t)) = w2 t.
Proof. rewrite sget_ssub. exact (r6_w2 t). Qed.
Lemma r6_sub3 t : sget "addr[3]" (ssub "u.addr6" (r6 t)) = w3 t.
Proof. rewrite sget_ssub. exact (r6_w3 t). Qed.

Lemma is_zero_r4 u : lrtr_ip_addr_is_zero_gen (r4 u) = Some (b2z (u =? 0)).
Proof.
  unfold lrtr_ip_addr_is_zero_gen.
  change (sget "u.addr4.addr" (r4 u)) with u. change (wrapu 32 0) with 0.
  destruct (u =? 0); reflexivity.
Qed.

Lemma is_zero_r6 t :
  lrtr_ip_addr_is_zero_gen (r6 t) = Some (b2z ((w0 t =? 0) && (w1 t =? 0) && (w2 t =? 0) && (w3 t =? 0))).
Proof.
  unfold lrtr_ip_addr_is_zero_gen. rewrite r6_ver, r6_w0, r6_w1, r6_w2, r6_w3.
  change (wrapu 32 0) with 0.
  destruct ((w0 t =? 0) && (w1 t =? 0) && (w2 t =? 0) && (w3 t =? 0)); reflexivity.
Qed.

Lemma equal_r4 u v : lrtr_ip_addr_equal_gen (r4 u) (r4 v) = Some (b2z (u =? v)).
Proof.
  unfold lrtr_ip_addr_equal_gen, lrtr_ipv4_addr_equal_gen.
  change (sget "addr" (ssub "u.addr4" (r4 u))) with u.
  change (sget "addr" (ssub "u.addr4" (r4 v))) with v.
  destruct (u =? v); reflexivity.
Qed.

Lemma equal_r6 t1 t2 :
  lrtr_ip_addr_equal_gen (r6 t1) (r6 t2) =
  Some (b2z ((w0 t1 =? w0 t2) && (w1 t1 =? w1 t2) && (w2 t1 =? w2 t2) && (w3 t1 =? w3 t2))).
Proof.
  unfold lrtr_ip_addr_equal_gen, lrtr_ipv6_addr_equal_gen.
  rewrite !r6_ver, !r6_sub0, !r6_sub1, !r6_sub2, !r6_sub3.
  destruct ((w0 t1 =? w0 t2) && (w1 t1 =? w1 t2) && (w2 t1 =? w2 t2) && (w3 t1 =? w3 t2)); reflexivity.
Qed.

(* ================================================================================================ *)
(* 4. Theorems                                                                                       *)
(* ================================================================================================ *)

(* --- 4.1 lrtr_ip_addr_equal: exact value (holds for arbitrary words; no range hypothesis is needed) --- *)
Theorem ip_equal_exact x y :
  lrtr_ip_addr_equal_gen (ip_store x) (ip_store y) = Some (b2z (same_family x y && words_eqb x y)).
Proof.
  destruct x as [a|a0 a1 a2 a3], y as [b|b0 b1 b2 b3]; cbn [ip_store same_family words_eqb andb]; try reflexivity.
  - unfold lrtr_ip_addr_equal_gen, lrtr_ipv4_addr_equal_gen.
    change (sget "addr" (ssub "u.addr4" (ip4 a))) with a.
    change (sget "addr" (ssub "u.addr4" (ip4 b))) with b.
    destruct (a =? b); reflexivity.
  - unfold lrtr_ip_addr_equal_gen, lrtr_ipv6_addr_equal_gen.
    change (ssub "u.addr6" (ip6 a0 a1 a2 a3)) with (s6 a0 a1 a2 a3).
    change (ssub "u.addr6" (ip6 b0 b1 b2 b3)) with (s6 b0 b1 b2 b3).
    change (sget "addr[0]" (s6 a0 a1 a2 a3)) with a0. change (sget "addr[0]" (s6 b0 b1 b2 b3)) with b0.
    change (sget "addr[1]" (s6 a0 a1 a2 a3)) with a1. change (sget "addr[1]" (s6 b0 b1 b2 b3)) with b1.
    change (sget "addr[2]" (s6 a0 a1 a2 a3)) with a2. change (sget "addr[2]" (s6 b0 b1 b2 b3)) with b2.
    change (sget "addr[3]" (s6 a0 a1 a2 a3)) with a3. change (sget "addr[3]" (s6 b0 b1 b2 b3)) with b3.
    destruct ((a0 =? b0) && (a1 =? b1) && (a2 =? b2) && (a3 =? b3)); reflexivity.
Qed.

(* addresses of different families are never equal *)
Corollary ip_equal_other_family x y :
  same_family x y = false -> lrtr_ip_addr_equal_gen (ip_store x) (ip_store y) = Some 0.
Proof. intros Hf. rewrite ip_equal_exact, Hf. reflexivity. Qed.

(* in terms of the bit lists *)
Theorem ip_equal_iff x y : ip_ok x -> ip_ok y ->
  (lrtr_ip_addr_equal_gen (ip_store x) (ip_store y) = Some 1 <-> same_family x y = true /\ ip_bits x = ip_bits y).
Proof.
  intros Hx Hy. rewrite ip_equal_exact, some_b2z_1, andb_true_iff.
  destruct x as [a|a0 a1 a2 a3], y as [b|b0 b1 b2 b3]; cbn [same_family words_eqb ip_bits ip_ok] in *.
  - rewrite Z.eqb_eq, (bits32_eq_iff a b Hx Hy). tauto.
  - split; intros [Hf _]; discriminate Hf.
  - split; intros [Hf _]; discriminate Hf.
  - destruct Hx as (Ha0 & Ha1 & Ha2 & Ha3). destruct Hy as (Hb0 & Hb1 & Hb2 & Hb3).
    assert (Hl : forall u v, List.length (bits32 u) = List.length (bits32 v)).
    { intros u v. rewrite !bits32_length. reflexivity. }
    rewrite eqb4_true.
    rewrite (app_eq_len _ _ _ _ (Hl a0 b0)), (app_eq_len _ _ _ _ (Hl a1 b1)), (app_eq_len _ _ _ _ (Hl a2 b2)).
    rewrite (bits32_eq_iff a0 b0 Ha0 Hb0), (bits32_eq_iff a1 b1 Ha1 Hb1),
            (bits32_eq_iff a2 b2 Ha2 Hb2), (bits32_eq_iff a3 b3 Ha3 Hb3).
    tauto.
Qed.

(* --- lrtr_ip_addr_is_zero on an address: exact value --- *)
Theorem ip_is_zero_exact x : lrtr_ip_addr_is_zero_gen (ip_store x) = Some (b2z (words_zerob x)).
Proof.
  destruct x as [a|a0 a1 a2 a3]; cbn [ip_store words_zerob]; unfold lrtr_ip_addr_is_zero_gen.
  - change (sget "u.addr4.addr" (ip4 a)) with a. change (wrapu 32 0) with 0.
    destruct (a =? 0); reflexivity.
  - change (sget "u.addr6.addr[0]" (ip6 a0 a1 a2 a3)) with a0.
    change (sget "u.addr6.addr[1]" (ip6 a0 a1 a2 a3)) with a1.
    change (sget "u.addr6.addr[2]" (ip6 a0 a1 a2 a3)) with a2.
    change (sget "u.addr6.addr[3]" (ip6 a0 a1 a2 a3)) with a3.
    change (wrapu 32 0) with 0.
    destruct ((a0 =? 0) && (a1 =? 0) && (a2 =? 0) && (a3 =? 0)); reflexivity.
Qed.

(* --- 4.2 is_left_child(addr, lvl) of trie.c --- *)
Theorem ip_is_left_child x lvl : ip_ok x -> 0 <= lvl < ip_width x ->
  exists r, lrtr_ip_addr_get_bits_gen (ip_store x) lvl 1 = Some r /\
            lrtr_ip_addr_is_zero_gen r = Some (b2z (negb (nth (Z.to_nat lvl) (ip_bits x) false))).
Proof.
  intros Hok Hl. destruct x as [a|a0 a1 a2 a3]; cbn [ip_store ip_width ip_bits ip_ok] in *.
  - destruct (bit_select a lvl Hok Hl) as (u & Hu & Hb).
    exists (r4 u). rewrite get_bits_ip4, Hu. split; [reflexivity|].
    rewrite is_zero_r4, Hb. reflexivity.
  - destruct (bit_select6 (s6 a0 a1 a2 a3) lvl Hok Hl) as (r & Hr & Hb).
    exists (r6 r). rewrite get_bits_ip6, Hr. split; [reflexivity|].
    rewrite is_zero_r6, Hb. reflexivity.
Qed.

(* --- 4.3 the covering test of trie_lookup / pfx validation --- *)
Theorem ip_covers x y n : ip_ok x -> ip_ok y -> same_family x y = true -> 0 <= n <= ip_width x ->
  exists r1 r2,
    lrtr_ip_addr_get_bits_gen (ip_store x) 0 n = Some r1 /\
    lrtr_ip_addr_get_bits_gen (ip_store y) 0 n = Some r2 /\
    exists b, lrtr_ip_addr_equal_gen r1 r2 = Some (b2z b) /\
              (b = true <-> firstn (Z.to_nat n) (ip_bits x) = firstn (Z.to_nat n) (ip_bits y)).
Proof.
  intros Hx Hy Hf Hn.
  destruct x as [a|a0 a1 a2 a3], y as [b|b0 b1 b2 b3]; cbn [same_family] in Hf; try discriminate Hf;
    cbn [ip_store ip_width ip_bits ip_ok] in *.
  - destruct (prefix_compare a b n Hx Hy Hn) as (u & v & Hu & Hv & Hiff).
    exists (r4 u), (r4 v). rewrite !get_bits_ip4, Hu, Hv.
    split; [reflexivity|]. split; [reflexivity|].
    exists (u =? v). split; [apply equal_r4|]. rewrite Z.eqb_eq. exact Hiff.
  - destruct (prefix_compare6 (s6 a0 a1 a2 a3) (s6 b0 b1 b2 b3) n Hx Hy Hn) as (r1 & r2 & H1 & H2 & Hiff).
    exists (r6 r1), (r6 r2). rewrite !get_bits_ip6, H1, H2.
    split; [reflexivity|]. split; [reflexivity|].
    exists ((w0 r1 =? w0 r2) && (w1 r1 =? w1 r2) && (w2 r1 =? w2 r2) && (w3 r1 =? w3 r2)).
    split; [apply equal_r6|]. rewrite eqb4_true. exact Hiff.
Qed.

(* --- 4.4 no undefined behaviour inside the domains.
   The [exists r, ... = Some r] forms of 4.2 and 4.3 and the exact values of 4.1 already say that the translated
   functions do not return None (the guards for undefined shifts, signed overflow and asserts all pass); this
   theorem only collects those facts in the "<> None" form. *)
Theorem ip_no_ub x y : ip_ok x -> ip_ok y ->
  lrtr_ip_addr_equal_gen (ip_store x) (ip_store y) <> None /\
  lrtr_ip_addr_is_zero_gen (ip_store x) <> None /\
  (forall lvl, 0 <= lvl < ip_width x ->
     exists r, lrtr_ip_addr_get_bits_gen (ip_store x) lvl 1 = Some r /\ lrtr_ip_addr_is_zero_gen r <> None) /\
  (forall n, same_family x y = true -> 0 <= n <= ip_width x ->
     exists r1 r2, lrtr_ip_addr_get_bits_gen (ip_store x) 0 n = Some r1 /\
                   lrtr_ip_addr_get_bits_gen (ip_store y) 0 n = Some r2 /\
                   lrtr_ip_addr_equal_gen r1 r2 <> None).
Proof.
  intros Hx Hy. split; [rewrite ip_equal_exact; discriminate|]. split; [rewrite ip_is_zero_exact; discriminate|]. split.
  - intros lvl Hl. destruct (ip_is_left_child x lvl Hx Hl) as (r & Hr & Hz).
    exists r. split; [exact Hr|]. rewrite Hz. discriminate.
  - intros n Hf Hn. destruct (ip_covers x y n Hx Hy Hf Hn) as (r1 & r2 & H1 & H2 & b & Hb & _).
    exists r1, r2. split; [exact H1|]. split; [exact H2|]. rewrite Hb. discriminate.
Qed.

(* the domain restriction is real: bit 32 of an IPv4 address does not exist; in C this is the shift of a 32-bit
   value by 32 inside lrtr_get_bits - undefined - and the translation answers None *)
Example ip_get_bits_outside_domain : lrtr_ip_addr_get_bits_gen (ip_store (A4 0)) 32 1 = None.
Proof. vm_compute. reflexivity. Qed.
Example ip6_get_bits_outside_domain : lrtr_ip_addr_get_bits_gen (ip_store (A6 0 0 0 0)) 128 1 = None.
Proof. vm_compute. reflexivity. Qed.

(* ================================================================================================ *)
(* 5. Examples: the hypotheses are satisfiable and the functions compute the expected values         *)
(* ================================================================================================ *)

(* 10.0.0.0 = 167772160, 10.128.0.0 = 176160768; 2001:db8:: = 536939960 in word 0 *)
Example ex_ok4 : ip_ok (A4 167772160) /\ ip_ok (A4 176160768).
Proof. cbn [ip_ok]. unfold w32. lia. Qed.
Example ex_ok6 : ip_ok (A6 536939960 0 1 0) /\ ip_ok (A6 536939960 0 2 0).
Proof. cbn [ip_ok]. unfold w32. lia. Qed.

(* exact equality *)
Example ex_equal4_same : lrtr_ip_addr_equal_gen (ip_store (A4 167772160)) (ip_store (A4 167772160)) = Some 1.
Proof. vm_compute. reflexivity. Qed.
Example ex_equal4_diff : lrtr_ip_addr_equal_gen (ip_store (A4 167772160)) (ip_store (A4 176160768)) = Some 0.
Proof. vm_compute. reflexivity. Qed.
(* two IPv6 addresses that differ only in word 2 (the historical bug site) are not equal *)
Example ex_equal6_word2 :
  lrtr_ip_addr_equal_gen (ip_store (A6 536939960 0 1 0)) (ip_store (A6 536939960 0 2 0)) = Some 0.
Proof. vm_compute. reflexivity. Qed.
Example ex_equal6_same :
  lrtr_ip_addr_equal_gen (ip_store (A6 536939960 0 1 0)) (ip_store (A6 536939960 0 1 0)) = Some 1.
Proof. vm_compute. reflexivity. Qed.
(* different families, same leading word *)
Example ex_equal_families : lrtr_ip_addr_equal_gen (ip_store (A4 0)) (ip_store (A6 0 0 0 0)) = Some 0.
Proof. vm_compute. reflexivity. Qed.

(* is_left_child: bit 8 of 10.0.0.0 is 0 (left), bit 8 of 10.128.0.0 is 1 (right); bit 4 of both is 1 *)
Example ex_left4_a :
  (do r <- lrtr_ip_addr_get_bits_gen (ip_store (A4 167772160)) 8 1; lrtr_ip_addr_is_zero_gen r) = Some 1
  /\ nth 8 (ip_bits (A4 167772160)) false = false.
Proof. vm_compute. split; reflexivity. Qed.
Example ex_left4_b :
  (do r <- lrtr_ip_addr_get_bits_gen (ip_store (A4 176160768)) 8 1; lrtr_ip_addr_is_zero_gen r) = Some 0
  /\ nth 8 (ip_bits (A4 176160768)) false = true.
Proof. vm_compute. split; reflexivity. Qed.
(* IPv6: bit 95 is the last bit of word 2 *)
Example ex_left6 :
  (do r <- lrtr_ip_addr_get_bits_gen (ip_store (A6 536939960 0 1 0)) 95 1; lrtr_ip_addr_is_zero_gen r) = Some 0
  /\ (do r <- lrtr_ip_addr_get_bits_gen (ip_store (A6 536939960 0 2 0)) 95 1; lrtr_ip_addr_is_zero_gen r) = Some 1
  /\ nth 95 (ip_bits (A6 536939960 0 1 0)) false = true
  /\ nth 95 (ip_bits (A6 536939960 0 2 0)) false = false.
Proof. vm_compute. repeat split; reflexivity. Qed.

(* covering: 10.0.0.0 and 10.128.0.0 agree on 8 bits, not on 9 *)
Definition covers_c (x y : ipaddr) (n : Z) : option Z :=
  do r1 <- lrtr_ip_addr_get_bits_gen (ip_store x) 0 n;
  do r2 <- lrtr_ip_addr_get_bits_gen (ip_store y) 0 n;
  lrtr_ip_addr_equal_gen r1 r2.

Example ex_covers4 :
  covers_c (A4 167772160) (A4 176160768) 8 = Some 1 /\ covers_c (A4 167772160) (A4 176160768) 9 = Some 0 /\
  covers_c (A4 167772160) (A4 176160768) 0 = Some 1 /\ covers_c (A4 167772160) (A4 176160768) 32 = Some 0 /\
  firstn 8 (ip_bits (A4 167772160)) = firstn 8 (ip_bits (A4 176160768)) /\
  firstn 9 (ip_bits (A4 167772160)) <> firstn 9 (ip_bits (A4 176160768)).
Proof. vm_compute. repeat split; try reflexivity. intros H. discriminate H. Qed.

(* the IPv6 pair differing in word 2 (bits 94 and 95): equal on 94 bits, different from 95 bits on *)
Example ex_covers6 :
  covers_c (A6 536939960 0 1 0) (A6 536939960 0 2 0) 94 = Some 1 /\
  covers_c (A6 536939960 0 1 0) (A6 536939960 0 2 0) 95 = Some 0 /\
  covers_c (A6 536939960 0 1 0) (A6 536939960 0 2 0) 128 = Some 0 /\
  covers_c (A6 536939960 0 1 0) (A6 536939960 0 1 0) 128 = Some 1 /\
  firstn 94 (ip_bits (A6 536939960 0 1 0)) = firstn 94 (ip_bits (A6 536939960 0 2 0)) /\
  firstn 95 (ip_bits (A6 536939960 0 1 0)) <> firstn 95 (ip_bits (A6 536939960 0 2 0)).
Proof. vm_compute. repeat split; try reflexivity. intros H. discriminate H. Qed.

Print Assumptions sget_ssub.
Print Assumptions sget_ssetsub_in.
Print Assumptions sget_ssetsub_out.
Print Assumptions ip_equal_exact.
Print Assumptions ip_equal_other_family.
Print Assumptions ip_equal_iff.
Print Assumptions ip_is_zero_exact.
Print Assumptions ip_is_left_child.
Print Assumptions ip_covers.
Print Assumptions ip_no_ub.
