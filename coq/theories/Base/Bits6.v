(* Bits6.v - the IPv6 (four-word) composition lrtr_ipv6_get_bits, as translated from /repo, related to
   the list-of-bits view: same two uses as in Bits.v (first n bits from bit 0; one bit at position lvl). *)
From RtrV Require Import Base.CSem Base.Bits Gen.Generated.
Local Open Scope string_scope.
Local Open Scope Z_scope.

Definition w0 (s : store) := sget "addr[0]" s.
Definition w1 (s : store) := sget "addr[1]" s.
Definition w2 (s : store) := sget "addr[2]" s.
Definition w3 (s : store) := sget "addr[3]" s.
Local Close Scope string_scope.
Definition words_ok (s : store) : Prop :=
  0 <= w0 s < 2 ^ 32 /\ 0 <= w1 s < 2 ^ 32 /\ 0 <= w2 s < 2 ^ 32 /\ 0 <= w3 s < 2 ^ 32.
Definition bits128 (s : store) : list bool := bits32 (w0 s) ++ bits32 (w1 s) ++ bits32 (w2 s) ++ bits32 (w3 s).

Lemma wrapu8_id x : 0 <= x < 256 -> wrapu 8 x = x.
Proof. intros H. unfold wrapu. apply Z.mod_small. exact H. Qed.
Lemma in_s32_small x : - 2 ^ 31 <= x < 2 ^ 31 -> in_s 32 x = true.
Proof. intros H. unfold in_s. change (2 ^ (32 - 1)) with (2 ^ 31). apply andb_true_iff. split; [apply Z.leb_le|apply Z.ltb_lt]; lia. Qed.

(* decide every comparison in the goal whose truth value lia can establish *)
Ltac dec_cmp :=
  repeat match goal with
  | |- context [?a <=? ?b] =>
      first [ replace (a <=? b) with true by (symmetry; apply Z.leb_le; lia)
            | replace (a <=? b) with false by (symmetry; apply Z.leb_gt; lia) ]
  | |- context [?a <? ?b] =>
      first [ replace (a <? b) with true by (symmetry; apply Z.ltb_lt; lia)
            | replace (a <? b) with false by (symmetry; apply Z.ltb_ge; lia) ]
  | |- context [?a >? ?b] => rewrite (Z.gtb_ltb a b)
  | |- context [?a >=? ?b] => rewrite (Z.geb_leb a b)
  | |- context [?a =? ?b] =>
      first [ replace (a =? b) with true by (symmetry; apply Z.eqb_eq; lia)
            | replace (a =? b) with false by (symmetry; apply Z.eqb_neq; lia) ]
  end.

(* normalise: decide comparisons, drop wraps that lia shows to be the identity *)
Ltac norm :=
  repeat first
  [ progress dec_cmp
  | match goal with |- context [wrapu 8 ?x] => rewrite (wrapu8_id x) by lia end
  | match goal with |- context [wraps 32 ?x] => rewrite (wraps32_id x) by lia end
  | match goal with |- context [in_s 32 ?x] => rewrite (in_s32_small x) by lia end
  | progress cbv iota
  | progress cbn [implb negb andb obind] ].

(* quantity of bits taken from word i when the first n bits of the address are requested *)
Definition take (n i : Z) : Z := Z.max 0 (Z.min 32 (n - 32 * i)).

Lemma take_full n i : 32 * (i + 1) <= n -> take n i = 32.
Proof. unfold take. lia. Qed.
Lemma take_none n i : n <= 32 * i -> take n i = 0.
Proof. unfold take. lia. Qed.
Lemma take_part n i : 32 * i <= n <= 32 * (i + 1) -> take n i = n - 32 * i.
Proof. unfold take. lia. Qed.

Lemma land_hi0 x : Z.land (hi 0) x = 0.
Proof. apply Z.land_0_l. Qed.

Lemma gb0 v n : 0 <= n <= 32 -> lrtr_get_bits_gen v 0 n = Some (Z.land (hi n) v).
Proof.
  intros H. destruct (Z.eq_dec n 0) as [->|Hn]; [rewrite land_hi0; reflexivity|].
  rewrite get_bits_gen_spec by lia. rewrite Z.shiftr_0_r. reflexivity.
Qed.

(* result of the translated function for (first_bit = 0, quantity = n): word i masked to its first [take n i] bits *)
Theorem get_bits6_prefix s n : 0 <= n <= 128 ->
  exists r, lrtr_ipv6_get_bits_gen s 0 n = Some r /\
    w0 r = Z.land (hi (take n 0)) (w0 s) /\ w1 r = Z.land (hi (take n 1)) (w1 s) /\
    w2 r = Z.land (hi (take n 2)) (w2 s) /\ w3 r = Z.land (hi (take n 3)) (w3 s).
Proof.
  intros Hn. unfold lrtr_ipv6_get_bits_gen. cbv [guard].
  destruct (Z_le_gt_dec n 32) as [H32|H32]; [|destruct (Z_le_gt_dec n 64) as [H64|H64]; [|destruct (Z_le_gt_dec n 96) as [H96|H96]]].
  - norm. rewrite gb0 by lia. norm. replace (n - n) with 0 by lia. norm.
    eexists. split; [reflexivity|]. unfold w0, w1, w2, w3. cbn [sget sset String.eqb Ascii.eqb Bool.eqb].
    rewrite (take_part n 0), (take_none n 1), (take_none n 2), (take_none n 3) by lia.
    replace (n - 32 * 0) with n by lia. rewrite !land_hi0. auto.
  - norm. rewrite gb0 by lia. norm. rewrite gb0 by lia. norm.
    replace (n - 32 - (n - 32)) with 0 by lia. norm.
    eexists. split; [reflexivity|]. unfold w0, w1, w2, w3. cbn [sget sset String.eqb Ascii.eqb Bool.eqb].
    rewrite (take_full n 0), (take_part n 1), (take_none n 2), (take_none n 3) by lia.
    replace (n - 32 * 1) with (n - 32) by lia. rewrite !land_hi0. auto.
  - norm. rewrite gb0 by lia. norm. rewrite gb0 by lia. norm. rewrite gb0 by lia. norm.
    replace (n - 32 - 32 - (n - 32 - 32)) with 0 by lia. norm.
    eexists. split; [reflexivity|]. unfold w0, w1, w2, w3. cbn [sget sset String.eqb Ascii.eqb Bool.eqb].
    rewrite (take_full n 0), (take_full n 1), (take_part n 2), (take_none n 3) by lia.
    replace (n - 32 * 2) with (n - 32 - 32) by lia. rewrite !land_hi0. auto.
  - norm. rewrite gb0 by lia. norm. rewrite gb0 by lia. norm. rewrite gb0 by lia. norm. rewrite gb0 by lia. norm.
    eexists. split; [reflexivity|]. unfold w0, w1, w2, w3. cbn [sget sset String.eqb Ascii.eqb Bool.eqb].
    rewrite (take_full n 0), (take_full n 1), (take_full n 2), (take_part n 3) by lia.
    replace (n - 32 * 3) with (n - 32 - 32 - 32) by lia. auto.
Qed.

(* ---------- comparing the first n bits of two IPv6 addresses ---------- *)
Lemma land_hi_eq a b q : 0 <= a < 2 ^ 32 -> 0 <= b < 2 ^ 32 -> 0 <= q <= 32 ->
  Z.land (hi q) a = Z.land (hi q) b <-> firstn (Z.to_nat q) (bits32 a) = firstn (Z.to_nat q) (bits32 b).
Proof.
  intros Ha Hb Hq. destruct (prefix_compare a b q Ha Hb Hq) as (x & y & Hx & Hy & Hiff).
  rewrite gb0 in Hx, Hy by lia. injection Hx as <-. injection Hy as <-. exact Hiff.
Qed.

Lemma bits32_length v : List.length (bits32 v) = 32%nat.
Proof. unfold bits32. rewrite map_length, seq_length. reflexivity. Qed.

Lemma app_eq_len {A} (a a' b b' : list A) : List.length a = List.length a' -> (a ++ b = a' ++ b' <-> a = a' /\ b = b').
Proof.
  intros Hl. split; [|intros [-> ->]; reflexivity].
  revert a' Hl. induction a as [|x a IH]; intros [|y a'] Hl H; simpl in *; try discriminate; [auto|].
  injection H as -> H. injection Hl as Hl. destruct (IH a' Hl H) as [-> ->]. auto.
Qed.

Lemma firstn_clip {A} (l : list A) k m : List.length l = m -> firstn k l = firstn (Nat.min k m) l.
Proof.
  intros Hl. destruct (le_lt_dec k m) as [H|H].
  - rewrite Nat.min_l by lia. reflexivity.
  - rewrite Nat.min_r by lia. rewrite firstn_all2 by lia. rewrite <- Hl. symmetry. apply firstn_all.
Qed.

Lemma firstn_take4 (n : Z) (b0 b1 b2 b3 : list bool) : 0 <= n <= 128 ->
  List.length b0 = 32%nat -> List.length b1 = 32%nat -> List.length b2 = 32%nat -> List.length b3 = 32%nat ->
  firstn (Z.to_nat n) (b0 ++ b1 ++ b2 ++ b3) =
  firstn (Z.to_nat (take n 0)) b0 ++ firstn (Z.to_nat (take n 1)) b1 ++
  firstn (Z.to_nat (take n 2)) b2 ++ firstn (Z.to_nat (take n 3)) b3.
Proof.
  intros Hn L0 L1 L2 L3. rewrite !firstn_app, L0, L1, L2.
  rewrite (firstn_clip b0 _ 32 L0), (firstn_clip b1 _ 32 L1), (firstn_clip b2 _ 32 L2), (firstn_clip b3 _ 32 L3).
  unfold take.
  replace (Nat.min (Z.to_nat n) 32) with (Z.to_nat (Z.max 0 (Z.min 32 (n - 32 * 0)))) by lia.
  replace (Nat.min (Z.to_nat n - 32) 32) with (Z.to_nat (Z.max 0 (Z.min 32 (n - 32 * 1)))) by lia.
  replace (Nat.min (Z.to_nat n - 32 - 32) 32) with (Z.to_nat (Z.max 0 (Z.min 32 (n - 32 * 2)))) by lia.
  replace (Nat.min (Z.to_nat n - 32 - 32 - 32) 32) with (Z.to_nat (Z.max 0 (Z.min 32 (n - 32 * 3)))) by lia.
  reflexivity.
Qed.

Theorem prefix_compare6 s1 s2 n : words_ok s1 -> words_ok s2 -> 0 <= n <= 128 ->
  exists r1 r2, lrtr_ipv6_get_bits_gen s1 0 n = Some r1 /\ lrtr_ipv6_get_bits_gen s2 0 n = Some r2 /\
    ((w0 r1 = w0 r2 /\ w1 r1 = w1 r2 /\ w2 r1 = w2 r2 /\ w3 r1 = w3 r2) <->
     firstn (Z.to_nat n) (bits128 s1) = firstn (Z.to_nat n) (bits128 s2)).
Proof.
  intros (A0 & A1 & A2 & A3) (B0 & B1 & B2 & B3) Hn.
  destruct (get_bits6_prefix s1 n Hn) as (r1 & H1 & E10 & E11 & E12 & E13).
  destruct (get_bits6_prefix s2 n Hn) as (r2 & H2 & E20 & E21 & E22 & E23).
  exists r1, r2. split; [exact H1|]. split; [exact H2|].
  rewrite E10, E11, E12, E13, E20, E21, E22, E23.
  unfold bits128. rewrite !firstn_take4 by (auto using bits32_length).
  assert (T : forall i, 0 <= take n i <= 32) by (intros; unfold take; lia).
  assert (Lf : forall i a b, List.length (firstn (Z.to_nat (take n i)) (bits32 a)) = List.length (firstn (Z.to_nat (take n i)) (bits32 b))).
  { intros. rewrite !firstn_length, !bits32_length. reflexivity. }
  rewrite (app_eq_len _ _ _ _ (Lf 0 _ _)), (app_eq_len _ _ _ _ (Lf 1 _ _)), (app_eq_len _ _ _ _ (Lf 2 _ _)).
  rewrite <- !land_hi_eq by auto. tauto.
Qed.

(* ---------- selecting the branch bit ---------- *)
Lemma gb1 v k : 0 <= k < 32 -> lrtr_get_bits_gen v k 1 = Some (Z.land (Z.shiftr (hi 1) k) v).
Proof. intros H. apply get_bits_gen_spec; lia. Qed.

Lemma nth_app4 (lvl : Z) (b0 b1 b2 b3 : list bool) : 0 <= lvl < 128 ->
  List.length b0 = 32%nat -> List.length b1 = 32%nat -> List.length b2 = 32%nat -> List.length b3 = 32%nat ->
  nth (Z.to_nat lvl) (b0 ++ b1 ++ b2 ++ b3) false =
  if lvl <? 32 then nth (Z.to_nat lvl) b0 false
  else if lvl <? 64 then nth (Z.to_nat (lvl - 32)) b1 false
  else if lvl <? 96 then nth (Z.to_nat (lvl - 64)) b2 false
  else nth (Z.to_nat (lvl - 96)) b3 false.
Proof.
  intros Hl L0 L1 L2 L3.
  destruct (lvl <? 32) eqn:E0; [apply Z.ltb_lt in E0; apply app_nth1; lia|]. apply Z.ltb_ge in E0.
  rewrite app_nth2 by lia. rewrite L0.
  destruct (lvl <? 64) eqn:E1; [apply Z.ltb_lt in E1; rewrite app_nth1 by lia; f_equal; lia|]. apply Z.ltb_ge in E1.
  rewrite app_nth2 by lia. rewrite L1.
  destruct (lvl <? 96) eqn:E2; [apply Z.ltb_lt in E2; rewrite app_nth1 by lia; f_equal; lia|]. apply Z.ltb_ge in E2.
  rewrite app_nth2 by lia. rewrite L2. f_equal. lia.
Qed.

Theorem bit_select6 s lvl : words_ok s -> 0 <= lvl < 128 ->
  exists r, lrtr_ipv6_get_bits_gen s lvl 1 = Some r /\
    ((w0 r =? 0) && (w1 r =? 0) && (w2 r =? 0) && (w3 r =? 0) = negb (nth (Z.to_nat lvl) (bits128 s) false)).
Proof.
  intros (A0 & A1 & A2 & A3) Hl. unfold bits128. rewrite nth_app4 by (auto using bits32_length).
  unfold lrtr_ipv6_get_bits_gen. cbv [guard].
  destruct (Z_lt_ge_dec lvl 32) as [H32|H32]; [|destruct (Z_lt_ge_dec lvl 64) as [H64|H64]; [|destruct (Z_lt_ge_dec lvl 96) as [H96|H96]]].
  - norm. rewrite gb1 by lia. norm. replace (1 - 1) with 0 by lia. norm.
    destruct (bit_select (w0 s) lvl A0 ltac:(lia)) as (x & Hx & Hb). rewrite gb1 in Hx by lia. injection Hx as <-.
    eexists. split; [reflexivity|]. unfold w0, w1, w2, w3 in *. cbn [sget sset String.eqb Ascii.eqb Bool.eqb].
    rewrite Hb. cbn. rewrite !andb_true_r. reflexivity.
  - norm. rewrite gb1 by lia. norm.
    destruct (bit_select (w1 s) (lvl - 32) A1 ltac:(lia)) as (x & Hx & Hb). rewrite gb1 in Hx by lia. injection Hx as <-.
    eexists. split; [reflexivity|]. unfold w0, w1, w2, w3 in *. cbn [sget sset String.eqb Ascii.eqb Bool.eqb].
    rewrite Hb. cbn. rewrite !andb_true_r. reflexivity.
  - norm. rewrite gb1 by lia. norm.
    destruct (bit_select (w2 s) (lvl - 64) A2 ltac:(lia)) as (x & Hx & Hb). rewrite gb1 in Hx by lia. injection Hx as <-.
    eexists. split; [reflexivity|]. unfold w0, w1, w2, w3 in *. cbn [sget sset String.eqb Ascii.eqb Bool.eqb].
    rewrite Hb. cbn. rewrite !andb_true_r. reflexivity.
  - norm. rewrite gb1 by lia. norm.
    destruct (bit_select (w3 s) (lvl - 96) A3 ltac:(lia)) as (x & Hx & Hb). rewrite gb1 in Hx by lia. injection Hx as <-.
    eexists. split; [reflexivity|]. unfold w0, w1, w2, w3 in *. cbn [sget sset String.eqb Ascii.eqb Bool.eqb].
    rewrite Hb. cbn. reflexivity.
Qed.
