(* Eff.v - the vocabulary for translated functions that CALL functions which are not translated
   (tools/c2v.py, effect mode; output Gen/GeneratedFsm.v).

   A translated function of the socket is a tree of type [eff]:
     ERet r s          the function returns r (0 for a void function); s = the socket's integer fields then
     ECall f args s k  a call of the untranslated function f:
                         args  its scalar arguments, in order (the socket pointer is not among them, nor are pointer
                               fields of the socket handed over as handles);
                         s     the socket's fields at the moment of the call (the callee may read and change every
                               one of them through the pointer);
                         k     what the caller does next, given the call's results and the socket's fields after it.
                               Results: [return value (absent for a void callee); out-parameters (&local) in argument
                               order; then the bytes of a local array handed to the callee, as they lie in memory
                               after the call].  The values are of the callee's C types - C converts nothing there,
                               and neither does the tree; handing in-range values to k is the interpretation's duty.
     EUndef            undefined behaviour: signed overflow, a load outside the bytes a callee delivered, a failing
                       assert, falling off the end of a value-returning function.
   The socket's fields are the string-keyed [store] of Base/CSem.v.  An assignment to a field changes the store in
   the tree; it reaches "memory" at the next ECall / ERet (single-threaded view: nobody looks in between).           *)
From RtrV Require Import Base.CSem.
Local Open Scope Z_scope.

Inductive eff : Type :=
| ERet (r : Z) (s : store)
| ECall (f : string) (args : list Z) (s : store) (k : list Z -> store -> eff)
| EUndef.

Definition eguard (ok : bool) (e : eff) : eff := if ok then e else EUndef.

(* the value of a translated pure / memory-mode function (option: None = undefined there) *)
Definition eopt {A} (o : option A) (k : A -> eff) : eff :=
  match o with Some a => k a | None => EUndef end.

(* a call of a function translated in the same file: its tree, then the caller's continuation *)
Fixpoint ebind (e : eff) (k : Z -> store -> eff) : eff :=
  match e with
  | ERet r s => k r s
  | ECall f a s k' => ECall f a s (fun r s' => ebind (k' r s') k)
  | EUndef => EUndef
  end.

