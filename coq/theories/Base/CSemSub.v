(* Sub-structs in field stores (Base/CSem.v): a member that is itself a struct, s.f, seen as a store of its own - what
   `&s.f` hands to a callee that only reads it - and the assignment s.f = t of a whole struct.  Used by the translated
   lrtr_ip_addr layer (Gen/GeneratedIp.v). *)
From Coq Require Import ZArith List String Ascii.
From RtrV Require Import Base.CSem.
Import ListNotations.
Local Open Scope string_scope.

Fixpoint strip_prefix (p k : string) : option string :=
  match p, k with
  | EmptyString, _ => Some k
  | String a p', String b k' => if Ascii.eqb a b then strip_prefix p' k' else None
  | String _ _, EmptyString => None
  end.

(* the entries whose key starts with "p." with that prefix removed, in order *)
Fixpoint ssub (p : string) (s : store) : store :=
  match s with
  | [] => []
  | (k, v) :: r => match strip_prefix (p ++ ".") k with Some k' => (k', v) :: ssub p r | None => ssub p r end
  end.

(* s.p = t : every old entry under "p." goes, t's entries come in under that prefix *)
Definition ssetsub (p : string) (t : store) (s : store) : store :=
  (map (fun kv => ((p ++ "." ++ fst kv)%string, snd kv)) t ++
   filter (fun kv => match strip_prefix (p ++ ".") (fst kv) with Some _ => false | None => true end) s)%list.
