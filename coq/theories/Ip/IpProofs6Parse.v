(* IpProofs6Parse.v - C19: facts about the model of lrtr_ipv6_str_to_addr that hold for
   EVERY input string: the loop never leaves words[0..7], fuel suffices, and which words
   are assigned when the function returns 0.                                           *)
From Coq Require Import NArith ZArith List Bool Lia.
From RtrV Require Import Ip.Ipv4Text Ip.Ipv6Text Ip.Grammar Ip.IpProofs4.
Import ListNotations.
Local Open Scope Z_scope.

(* ---- the words array as "the first n written, the rest never assigned" ----- *)
Definition wr (vs : list N) : words := map Some vs ++ repeat None (8 - length vs).

Definition fully_written (ws : words) : Prop := exists vs, ws = map Some vs /\ length vs = 8%nat.

Lemma upd_app {A} (l1 : list A) x v l2 : upd (length l1) v (l1 ++ x :: l2) = l1 ++ v :: l2.
Proof. induction l1 as [|y l1 IH]; cbn [length app upd]; [reflexivity|now rewrite IH]. Qed.

Lemma wr_full vs : length vs = 8%nat -> wr vs = map Some vs.
Proof. intros H. unfold wr. rewrite H. cbn [Nat.sub repeat]. apply app_nil_r. Qed.

Lemma wset_wr vs v : (length vs < 8)%nat ->
  wset (wr vs) (Z.of_nat (length vs)) (Some v) = Some (wr (vs ++ [v])).
Proof.
  intros H. unfold wset, in_words.
  replace ((0 <=? Z.of_nat (length vs)) && (Z.of_nat (length vs) <? 8)) with true
    by (symmetry; apply andb_true_iff; split; [apply Z.leb_le|apply Z.ltb_lt]; lia).
  rewrite Nat2Z.id. f_equal. unfold wr.
  replace (8 - length vs)%nat with (S (8 - length (vs ++ [v])))%nat by (rewrite app_length; cbn [length]; lia).
  cbn [repeat]. rewrite <- (map_length Some vs) at 1. rewrite upd_app.
  rewrite map_app. cbn [map]. now rewrite <- app_assoc.
Qed.

(* ---- hexadecimal digits ---------------------------------------------------- *)
Lemma hexval_c_eq c : hexval_c c = hexdigit_val c.
Proof.
  unfold hexval_c, hexdigit_val, is_digit.
  destruct ((48 <=? c)%N && (c <=? 57)%N) eqn:E1; [reflexivity|].
  destruct ((65 <=? c)%N && (c <=? 70)%N) eqn:E2; destruct ((97 <=? c)%N && (c <=? 102)%N) eqn:E3;
    try reflexivity.
  - apply andb_true_iff in E2 as [A B]. apply andb_true_iff in E3 as [C D].
    apply N.leb_le in A, B, C, D. lia.
  - apply andb_true_iff in E2 as [A B]. apply N.leb_le in A, B. f_equal. lia.
  - apply andb_true_iff in E3 as [C D]. apply N.leb_le in C, D. f_equal. lia.
Qed.

Lemma hexdigit_lt16 c d : hexdigit_val c = Some d -> (d < 16)%N.
Proof.
  unfold hexdigit_val.
  destruct ((48 <=? c)%N && (c <=? 57)%N) eqn:E1.
  { apply andb_true_iff in E1 as [A B]. apply N.leb_le in A, B. intros [= <-]. lia. }
  destruct ((97 <=? c)%N && (c <=? 102)%N) eqn:E3.
  { apply andb_true_iff in E3 as [A B]. apply N.leb_le in A, B. intros [= <-]. lia. }
  destruct ((65 <=? c)%N && (c <=? 70)%N) eqn:E2; [|discriminate].
  apply andb_true_iff in E2 as [A B]. apply N.leb_le in A, B. intros [= <-]. lia.
Qed.

Lemma hexdigit_not_sep c d : hexdigit_val c = Some d -> c <> ch_colon /\ c <> ch_dot.
Proof.
  intros H. split; intros ->; vm_compute in H; discriminate.
Qed.

Lemma hexfold_None g : fold_left hexstep g None = None.
Proof. induction g; cbn [fold_left hexstep]; auto. Qed.

Lemma hexfold_ge g : forall j v, fold_left hexstep g (Some j) = Some v -> (j <= v)%N.
Proof.
  induction g as [|c g IH]; intros j v H; cbn [fold_left] in H.
  - injection H as <-. lia.
  - unfold hexstep at 2 in H. destruct (hexdigit_val c) as [d|]; [|rewrite hexfold_None in H; discriminate].
    apply IH in H. lia.
Qed.

Lemma some_inj (x y : N) : Some x = Some y -> x = y.
Proof. congruence. Qed.

(* a group of at most four digits is below 2^16 *)
Lemma hexgroup_bound g v : hexgroup g v -> (v < 65536)%N.
Proof.
  intros [Hl Hv]. unfold hexvalue in Hv.
  destruct g as [|c0 [|c1 [|c2 [|c3 [|c4 g]]]]]; cbn [length] in Hl; try lia;
    cbn [fold_left] in Hv; unfold hexstep in Hv;
    repeat match type of Hv with
           | context [hexdigit_val ?c] =>
             let E := fresh "E" in destruct (hexdigit_val c) eqn:E; [apply hexdigit_lt16 in E|discriminate]
           end;
    apply some_inj in Hv; subst v; lia.
Qed.

Definition stops_hex (rest : list N) : Prop :=
  match rest with [] => True | c :: _ => hexdigit_val c = None end.

Lemma scan_hex_fold g : forall j l v rest,
  fold_left hexstep g (Some j) = Some v -> (v < 65536)%N -> (l + length g <= 4)%nat ->
  stops_hex rest -> scan_hex (g ++ rest) j l = Some (v, rest).
Proof.
  induction g as [|c g IH]; intros j l v rest Hv Hb Hl Hs.
  - cbn [fold_left] in Hv. injection Hv as <-. cbn [app].
    destruct rest as [|c r]; [reflexivity|]. cbn [scan_hex]. cbn [stops_hex] in Hs.
    now rewrite hexval_c_eq, Hs.
  - cbn [fold_left] in Hv. unfold hexstep at 2 in Hv.
    destruct (hexdigit_val c) as [d|] eqn:Ed; [|rewrite hexfold_None in Hv; discriminate].
    cbn [app scan_hex]. rewrite hexval_c_eq, Ed.
    pose proof (hexfold_ge _ _ _ Hv) as Hge. cbn [length] in Hl.
    replace (j * 16 + d)%N with (16 * j + d)%N by lia.
    replace ((65536 <=? 16 * j + d)%N) with false by (symmetry; apply N.leb_gt; lia).
    replace (4 <? S l)%nat with false by (symmetry; apply Nat.ltb_ge; lia).
    cbn [orb]. apply IH; try assumption. lia.
Qed.

Lemma scan_hex_group g v rest : hexgroup g v -> stops_hex rest ->
  scan_hex (g ++ rest) 0 0 = Some (v, rest).
Proof.
  intros H Hs. pose proof (hexgroup_bound _ _ H). destruct H as [Hl Hv].
  apply scan_hex_fold; try assumption. lia.
Qed.

(* whatever the input, the scan stops at a suffix reached over non-separator characters *)
Lemma scan_hex_suffix a : forall j l j' a2, scan_hex a j l = Some (j', a2) ->
  exists d, a = d ++ a2 /\ Forall (fun c => c <> ch_colon) d.
Proof.
  induction a as [|c a IH]; intros j l j' a2 H; cbn [scan_hex] in H.
  - injection H as <- <-. exists []. split; [reflexivity|constructor].
  - destruct (hexval_c c) as [k|] eqn:Ek.
    + destruct ((65536 <=? j * 16 + k)%N || (4 <? S l)%nat); [discriminate|].
      apply IH in H as (d & -> & Hd). exists (c :: d). split; [reflexivity|].
      constructor; [|exact Hd]. rewrite hexval_c_eq in Ek. now apply hexdigit_not_sep in Ek.
    + injection H as <- <-. exists []. split; [reflexivity|constructor].
Qed.

Lemma scan_hex_len a j l j' a2 : scan_hex a j l = Some (j', a2) -> (length a2 <= length a)%nat.
Proof. intros H. apply scan_hex_suffix in H as (d & -> & _). rewrite app_length. lia. Qed.

(* ---- the group loop: invariant for every input ------------------------------ *)
Lemma group_loop_unfold f a i hfil ws :
  group_loop (S f) a i hfil ws =
  match a with
  | [] => LDone i hfil ws
  | c :: a1 =>
    if (c =? ch_colon)%N then
      if 0 <=? hfil then LErr else group_loop f a1 i i ws
    else
      match scan_hex a 0 0 with
      | None => LErr
      | Some (j, a2) =>
        let store (a' : list N) :=
          if 8 <=? i then LErr
          else match wset ws i (Some j) with
               | None => LStuck
               | Some ws' => group_loop f a' (i + 1) hfil ws'
               end in
        match a2 with
        | [] => store []
        | c2 :: a3 =>
          if (c2 =? ch_colon)%N && negb (match a3 with [] => true | _ => false end) then store a3
          else if (c2 =? ch_dot)%N && ((i =? 6) || ((i <? 6) && (0 <=? hfil))) then
            match str_to_ipv4 a with
            | None => LErr
            | Some addr =>
              match wset ws i (Some (addr / 65536)%N) with
              | None => LStuck
              | Some ws1 =>
                match wset ws1 (i + 1) (Some (addr mod 65536)%N) with
                | None => LStuck
                | Some ws2 => LDone (i + 2) hfil ws2
                end
              end
            end
          else LErr
        end
      end
  end.
Proof. reflexivity. Qed.

(* state invariant: i words written, hfil is -1 or the index where "::" was seen *)
Definition good (i hfil : Z) (ws : words) : Prop :=
  exists vs, (length vs <= 8)%nat /\ i = Z.of_nat (length vs) /\ ws = wr vs /\ -1 <= hfil <= i.

Definition lres_good (hfil0 : Z) (r : lres) : Prop :=
  match r with
  | LErr => True
  | LStuck => False
  | LDone i hfil ws => good i hfil ws /\ (0 <= hfil0 -> hfil = hfil0)
  end.

Lemma good_store i hfil vs j : (length vs < 8)%nat -> i = Z.of_nat (length vs) -> -1 <= hfil <= i ->
  good (i + 1) hfil (wr (vs ++ [j])).
Proof.
  intros Hl -> Hh. exists (vs ++ [j]). rewrite app_length. cbn [length].
  repeat split; try lia.
Qed.

Lemma group_loop_good : forall f a i hfil ws,
  (length a < f)%nat -> good i hfil ws -> lres_good hfil (group_loop f a i hfil ws).
Proof.
  induction f as [|f IH]; intros a i hfil ws Hf Hg; [lia|].
  rewrite group_loop_unfold.
  destruct a as [|c a1]; [cbn [lres_good]; split; [exact Hg|reflexivity]|].
  cbn [length] in Hf.
  destruct Hg as (vs & Hl & Hi & Hw & Hh).
  destruct (c =? ch_colon)%N.
  { destruct (0 <=? hfil) eqn:E0; [exact I|]. apply Z.leb_gt in E0.
    assert (G : good i i ws) by (exists vs; repeat split; try assumption; lia).
    specialize (IH a1 i i ws ltac:(lia) G).
    destruct (group_loop f a1 i i ws); cbn [lres_good] in *; try assumption.
    destruct IH as [IH1 IH2]. split; [exact IH1|]. intros; lia. }
  destruct (scan_hex (c :: a1) 0 0) as [[j a2]|] eqn:Es; [|exact I].
  apply scan_hex_len in Es. cbn [length] in Es.
  (* the common "store" continuation *)
  assert (Hstore : forall a', (length a' < f)%nat ->
            lres_good hfil (if 8 <=? i then LErr
                            else match wset ws i (Some j) with
                                 | None => LStuck
                                 | Some ws' => group_loop f a' (i + 1) hfil ws'
                                 end)).
  { intros a' Ha'. destruct (8 <=? i) eqn:E8; [exact I|]. apply Z.leb_gt in E8.
    subst ws i. rewrite wset_wr by lia.
    apply IH; [exact Ha'|]. apply good_store; try lia. }
  cbv zeta.
  destruct a2 as [|c2 a3]; [apply Hstore; cbn [length]; lia|].
  cbn [length] in Es.
  destruct ((c2 =? ch_colon)%N && negb (match a3 with [] => true | _ => false end));
    [apply Hstore; lia|].
  destruct ((c2 =? ch_dot)%N && ((i =? 6) || ((i <? 6) && (0 <=? hfil)))) eqn:Eq; [|exact I].
  apply andb_true_iff in Eq as [_ Eq].
  assert (Hi6 : i <= 6).
  { apply orb_true_iff in Eq as [Eq|Eq]; [apply Z.eqb_eq in Eq; lia|].
    apply andb_true_iff in Eq as [Eq _]. apply Z.ltb_lt in Eq. lia. }
  destruct (str_to_ipv4 (c :: a1)) as [addr|]; [|exact I].
  subst ws i. rewrite wset_wr by lia.
  replace (Z.of_nat (length vs) + 1) with (Z.of_nat (length (vs ++ [(addr / 65536)%N])))
    by (rewrite app_length; cbn [length]; lia).
  rewrite wset_wr by (rewrite app_length; cbn [length]; lia).
  cbn [lres_good]. split; [|reflexivity].
  exists ((vs ++ [(addr / 65536)%N]) ++ [(addr mod 65536)%N]).
  rewrite !app_length. cbn [length]. repeat split; try lia.
Qed.

(* ---- the fill loops ---------------------------------------------------------- *)
Lemma finish_fill (strict : bool) vpre vpost : (length vpre + length vpost <= 8)%nat ->
  finish strict (Z.of_nat (length vpre + length vpost)) (Z.of_nat (length vpre)) (wr (vpre ++ vpost)) =
  POk (map Some (vpre ++ repeat 0%N (8 - length vpre - length vpost) ++ vpost)).
Proof.
  intros H. unfold finish.
  replace (Z.of_nat (length vpre) <? 0) with false by (symmetry; apply Z.ltb_ge; lia).
  rewrite andb_false_r. cbn [andb].
  replace (0 <=? Z.of_nat (length vpre)) with true by (symmetry; apply Z.leb_le; lia).
  do 9 (destruct vpre as [|? vpre];
        [do 9 (destruct vpost as [|? vpost];
               [first [exfalso; simpl length in H; lia | vm_compute; reflexivity]|]);
         exfalso; simpl length in H; lia|]).
  exfalso; simpl length in H; lia.
Qed.

Lemma good_finish strict i hfil ws : good i hfil ws ->
  match finish strict i hfil ws with
  | PErr => strict = true /\ hfil < 0 /\ i < 8
  | PStuck => False
  | POk ws' => (0 <= hfil \/ i = 8 -> fully_written ws') /\
               (hfil < 0 -> ws' = ws /\ strict && (i <? 8) = false)
  end.
Proof.
  intros (vs & Hl & Hi & Hw & Hh).
  destruct (Z_lt_le_dec hfil 0) as [Hn|Hp].
  - unfold finish. replace (hfil <? 0) with true by (symmetry; apply Z.ltb_lt; lia).
    rewrite andb_true_r.
    destruct (strict && (i <? 8)) eqn:E.
    + apply andb_true_iff in E as [E1 E2]. apply Z.ltb_lt in E2. auto.
    + replace (0 <=? hfil) with false by (symmetry; apply Z.leb_gt; lia).
      split; [|auto]. intros [?|H8]; [lia|]. subst ws.
      exists vs. split; [apply wr_full|]; lia.
  - (* hfil >= 0: split the written words at hfil *)
    set (h := Z.to_nat hfil).
    assert (Hh' : (h <= length vs)%nat) by lia.
    pose proof (firstn_skipn h vs) as Hsp.
    assert (L1 : length (firstn h vs) = h) by (rewrite firstn_length; lia).
    assert (L2 : (length (skipn h vs) = length vs - h)%nat) by apply skipn_length.
    replace i with (Z.of_nat (length (firstn h vs) + length (skipn h vs))) by lia.
    replace hfil with (Z.of_nat (length (firstn h vs))) by lia.
    subst ws. replace (wr vs) with (wr (firstn h vs ++ skipn h vs)) by (now rewrite Hsp).
    rewrite finish_fill by lia.
    split; [|lia]. intros _. eexists. split; [reflexivity|].
    rewrite !app_length, repeat_length. lia.
Qed.

(* ---- the whole parser, every input ------------------------------------------- *)
Lemma good_init : good 0 (-1) words_init.
Proof. exists []. cbn. repeat split; lia. Qed.

Lemma never_stuck strict s : str_to_ipv6_gen strict s <> PStuck.
Proof.
  unfold str_to_ipv6_gen. destruct (start6 s) as [a|]; [|discriminate].
  pose proof (group_loop_good (S (length a)) a 0 (-1) words_init ltac:(lia) good_init) as H.
  destruct (group_loop (S (length a)) a 0 (-1) words_init) as [| |i hfil ws]; cbn [lres_good] in H;
    [discriminate|contradiction|].
  destruct H as [H _]. pose proof (good_finish strict _ _ _ H) as F.
  destruct (finish strict i hfil ws); [discriminate|contradiction|discriminate].
Qed.

(* with the repair, every accepted text gives eight assigned words *)
Lemma deterministic_fixed s ws : str_to_ipv6_fixed s = POk ws -> fully_written ws.
Proof.
  unfold str_to_ipv6_fixed, str_to_ipv6_gen. destruct (start6 s) as [a|]; [|discriminate].
  pose proof (group_loop_good (S (length a)) a 0 (-1) words_init ltac:(lia) good_init) as H.
  destruct (group_loop (S (length a)) a 0 (-1) words_init) as [| |i hfil ws0]; cbn [lres_good] in H;
    [discriminate|contradiction|].
  destruct H as [H _]. pose proof (good_finish true _ _ _ H) as F. intros E. rewrite E in F.
  destruct F as [F1 F2]. destruct (Z_lt_le_dec hfil 0) as [Hn|Hp]; [|apply F1; lia].
  destruct (F2 Hn) as [_ F3]. cbn [andb] in F3. apply Z.ltb_ge in F3.
  destruct H as (vs & Hl & Hi & _). apply F1. lia.
Qed.

Definition all_written (ws : words) : bool :=
  forallb (fun w => match w with Some _ => true | None => false end) ws.

Lemma wr_all_written vs : (length vs <= 8)%nat -> all_written (wr vs) = (8 <=? length vs)%nat.
Proof.
  intros H. unfold all_written, wr. rewrite forallb_app.
  replace (forallb _ (map Some vs)) with true
    by (symmetry; apply forallb_forall; intros x Hx; apply in_map_iff in Hx as (y & <- & _); reflexivity).
  cbn [andb]. destruct (8 <=? length vs)%nat eqn:E.
  - apply Nat.leb_le in E. replace (8 - length vs)%nat with 0%nat by lia. reflexivity.
  - apply Nat.leb_gt in E. destruct (8 - length vs)%nat eqn:E2; [lia|]. reflexivity.
Qed.

Lemma fully_written_all ws : fully_written ws -> all_written ws = true.
Proof.
  intros (vs & -> & _). apply forallb_forall. intros x Hx.
  apply in_map_iff in Hx as (y & <- & _). reflexivity.
Qed.

(* the repair changes the outcome exactly on the results that have unassigned words *)
Lemma fixed_agrees s :
  str_to_ipv6_fixed s =
  match str_to_ipv6 s with
  | POk ws => if all_written ws then POk ws else PErr
  | r => r
  end.
Proof.
  unfold str_to_ipv6_fixed, str_to_ipv6, str_to_ipv6_gen. destruct (start6 s) as [a|]; [|reflexivity].
  pose proof (group_loop_good (S (length a)) a 0 (-1) words_init ltac:(lia) good_init) as H.
  destruct (group_loop (S (length a)) a 0 (-1) words_init) as [| |i hfil ws0]; cbn [lres_good] in H;
    [reflexivity|contradiction|].
  destruct H as [H _].
  pose proof (good_finish true _ _ _ H) as Ft. pose proof (good_finish false _ _ _ H) as Ff.
  destruct H as (vs & Hl & Hi & Hw & Hh).
  destruct (Z_lt_le_dec hfil 0) as [Hn|Hp].
  - unfold finish in *. replace (hfil <? 0) with true in * by (symmetry; apply Z.ltb_lt; lia).
    replace (0 <=? hfil) with false in * by (symmetry; apply Z.leb_gt; lia).
    cbn [andb]. subst ws0. rewrite wr_all_written by lia.
    destruct (i <? 8) eqn:E8.
    + apply Z.ltb_lt in E8. replace (8 <=? length vs)%nat with false by (symmetry; apply Nat.leb_gt; lia).
      reflexivity.
    + apply Z.ltb_ge in E8. replace (8 <=? length vs)%nat with true by (symmetry; apply Nat.leb_le; lia).
      reflexivity.
  - unfold finish in *. replace (hfil <? 0) with false in * by (symmetry; apply Z.ltb_ge; lia).
    rewrite andb_false_r in *. cbn [andb] in *.
    destruct (if 0 <=? hfil then _ else _) as [| |ws'] eqn:E; try reflexivity.
    destruct Ff as [Ff _]. rewrite fully_written_all; [reflexivity|]. apply Ff. lia.
Qed.
