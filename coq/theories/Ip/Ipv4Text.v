(* Ipv4Text.v - executable model of rtrlib/lib/ipv4.c text conversion (C19).

   Characters are [N] byte values; a C string is the list of its bytes up to, not
   including, the terminating NUL.  Only definitions here (proofs: IpProofs4.v).

     lrtr_ipv4_addr_to_str : snprintf(str, len, "%hhu.%hhu.%hhu.%hhu", b0..b3)
     lrtr_ipv4_str_to_addr : sscanf(str, "%3hhu.%3hhu.%3hhu.%3hhu", ...) == 4

   The two libc functions are modelled here (glibc behaviour); the model is validated
   against the real functions on every run by harness/iptext.c.                      *)
From Coq Require Import NArith ZArith List Bool.
Import ListNotations.
Local Open Scope N_scope.

(* ---- characters --------------------------------------------------------- *)
Definition ch_dot : N := 46.
Definition ch_colon : N := 58.
Definition ch_plus : N := 43.
Definition ch_minus : N := 45.

Definition is_digit (c : N) : bool := (48 <=? c) && (c <=? 57).
(* isspace() in the C locale: ' ', \t \n \v \f \r *)
Definition is_space (c : N) : bool := (c =? 32) || ((9 <=? c) && (c <=? 13)).

(* ---- printf conversions ------------------------------------------------- *)
(* digits of n in base b, most significant first, no leading zeros ("0" for 0).
   [fuel] bounds the number of digits; every use below gives enough fuel for the
   value range of the C argument type (3 for a uint8_t in base 10, 4 for a
   uint16_t in base 16) and the sweeps in IpProofs4.v/IpProofs6.v check that the fuel
   never runs out on that range. *)
Fixpoint fmt_base (fuel : nat) (b : N) (dig : N -> N) (n : N) : list N :=
  match fuel with
  | O => []
  | S f => if n <? b then [dig n] else fmt_base f b dig (n / b) ++ [dig (n mod b)]
  end.

Definition dec_digit (d : N) : N := 48 + d.
(* "%hhu" / "%d" of a value 0..255 *)
Definition dec (n : N) : list N := fmt_base 3 10 dec_digit n.

(* the four bytes buff[0..3] of ip->addr *)
Definition octets (a : N) : list N :=
  [ (a / 2 ^ 24) mod 256; (a / 2 ^ 16) mod 256; (a / 2 ^ 8) mod 256; a mod 256 ].

(* the complete text "%hhu.%hhu.%hhu.%hhu" *)
Definition dotted (b0 b1 b2 b3 : N) : list N :=
  dec b0 ++ ch_dot :: dec b1 ++ ch_dot :: dec b2 ++ ch_dot :: dec b3.

Definition ipv4_text (a : N) : list N :=
  dotted ((a / 2 ^ 24) mod 256) ((a / 2 ^ 16) mod 256) ((a / 2 ^ 8) mod 256) (a mod 256).

(* snprintf(str, len, ...): the bytes stored into str: nothing when len = 0, else at
   most len-1 characters of the text followed by NUL *)
Definition snprintf_store (len : N) (text : list N) : list N :=
  if len =? 0 then []
  else if N.of_nat (length text) <? len then text ++ [0]          (* it fits *)
  else firstn (N.to_nat (len - 1)) text ++ [0].

(* lrtr_ipv4_addr_to_str: (return value, bytes written to str).  snprintf only fails
   (negative) for len > INT_MAX; the model is stated for len <= INT_MAX. *)
Definition ipv4_to_str (a len : N) : Z * list N :=
  (0%Z, snprintf_store len (ipv4_text a)).

(* the same with the proposed repair (proposed_fixes/C19-ipv4-truncation.diff):
   "if (n < 0 || (unsigned int)n >= len) return -1;" - the bytes are stored all the same *)
Definition ipv4_to_str_fixed (a len : N) : Z * list N :=
  ((if N.of_nat (length (ipv4_text a)) <? len then 0%Z else (-1)%Z), snprintf_store len (ipv4_text a)).

(* ---- sscanf "%3hhu" ------------------------------------------------------ *)
Fixpoint skip_ws (s : list N) : list N :=
  match s with
  | c :: r => if is_space c then skip_ws r else s
  | [] => []
  end.

(* read at most w decimal digits: (number read, value, rest) *)
Fixpoint scan_digits (w : nat) (s : list N) (cnt : nat) (acc : N) : nat * N * list N :=
  match w with
  | O => (cnt, acc, s)
  | S w' =>
    match s with
    | c :: r => if is_digit c then scan_digits w' r (S cnt) (acc * 10 + (c - 48)) else (cnt, acc, s)
    | [] => (cnt, acc, s)
    end
  end.

(* one "%3hhu" conversion: white space is skipped (not counted in the width), an
   optional sign uses one of the three characters, at least one digit is needed,
   the value (negated for '-') is stored into an unsigned char.
   None = matching/input failure. *)
Definition scan_hhu3 (s : list N) : option (N * list N) :=
  match skip_ws s with
  | [] => None
  | c :: r =>
    let '(neg, w, s2) :=
      if c =? ch_minus then (true, 2%nat, r)
      else if c =? ch_plus then (false, 2%nat, r)
      else (false, 3%nat, c :: r) in
    let '(cnt, v, s3) := scan_digits w s2 0 0 in
    match cnt with
    | O => None
    | S _ => Some (if neg then (256 - v mod 256) mod 256 else v mod 256, s3)
    end
  end.

(* a literal character of the format *)
Definition expect (ch : N) (s : list N) : option (list N) :=
  match s with
  | c :: r => if c =? ch then Some r else None
  | [] => None
  end.

(* sscanf(str, "%3hhu.%3hhu.%3hhu.%3hhu", ...) : Some bytes iff it returns 4;
   whatever follows the fourth field is ignored *)
Definition sscanf_quad (s : list N) : option (N * N * N * N) :=
  match scan_hhu3 s with None => None | Some (b0, s) =>
  match expect ch_dot s with None => None | Some s =>
  match scan_hhu3 s with None => None | Some (b1, s) =>
  match expect ch_dot s with None => None | Some s =>
  match scan_hhu3 s with None => None | Some (b2, s) =>
  match expect ch_dot s with None => None | Some s =>
  match scan_hhu3 s with None => None | Some (b3, _) =>
  Some (b0, b1, b2, b3)
  end end end end end end end.

(* lrtr_ipv4_str_to_addr: None = -1; Some a = 0 with ip->addr = a.
   buff[0] << 24 | buff[1] << 16 | buff[2] << 8 | buff[3] : the bytes are below 256, so
   the shifted values occupy disjoint bits and the OR is the sum. *)
Definition str_to_ipv4 (s : list N) : option N :=
  match sscanf_quad s with
  | None => None
  | Some (b0, b1, b2, b3) => Some (b0 * 2 ^ 24 + b1 * 2 ^ 16 + b2 * 2 ^ 8 + b3)
  end.
