(* IpProofs4.v - C19, IPv4 half: the sscanf/snprintf model against the dotted-quad grammar. *)
From Coq Require Import NArith ZArith List Bool Lia.
From RtrV Require Import Ip.Ipv4Text Ip.Grammar.
Import ListNotations.
Local Open Scope N_scope.

(* ---- finite sweeps lifted to all values below a bound ------------------- *)
Fixpoint nseq (n : nat) (start : N) : list N :=
  match n with
  | O => []
  | S k => start :: nseq k (N.succ start)
  end.

Lemma nseq_in n : forall start x, start <= x -> x < start + N.of_nat n -> In x (nseq n start).
Proof.
  induction n as [|n IH]; intros start x H1 H2; [lia|].
  cbn [nseq]. destruct (N.eq_dec x start) as [->|Hne]; [now left|].
  right. apply IH; lia.
Qed.

Definition nrange (n : N) : list N := nseq (N.to_nat n) 0.

Lemma sweep (P : N -> bool) (n : N) :
  forallb P (nrange n) = true -> forall x, x < n -> P x = true.
Proof.
  intros H x Hx. rewrite forallb_forall in H. apply H.
  unfold nrange. apply nseq_in; lia.
Qed.

(* ---- characters ---------------------------------------------------------- *)
Lemma is_digit_dec_char c : is_digit c = dec_char c.
Proof. reflexivity. Qed.

Lemma digit_not_space c : is_digit c = true -> is_space c = false.
Proof.
  unfold is_digit, is_space. intros H. apply andb_true_iff in H as [H1 H2].
  apply N.leb_le in H1. apply N.leb_le in H2.
  destruct (c =? 32) eqn:E; [apply N.eqb_eq in E; lia|].
  destruct (c <=? 13) eqn:E2; [apply N.leb_le in E2; lia|].
  now rewrite andb_false_r.
Qed.

Lemma digit_not_sign c : is_digit c = true -> (c =? ch_minus) = false /\ (c =? ch_plus) = false.
Proof.
  unfold is_digit, ch_minus, ch_plus. intros H. apply andb_true_iff in H as [H1 H2].
  apply N.leb_le in H1. apply N.leb_le in H2.
  split; apply N.eqb_neq; lia.
Qed.

(* "the text stops here or continues with a non-digit" *)
Definition stops_digits (rest : list N) : Prop :=
  match rest with [] => True | c :: _ => is_digit c = false end.

Lemma scan_digits_app o : forall w rest cnt acc,
  forallb dec_char o = true -> (length o <= w)%nat ->
  (length o = w \/ stops_digits rest) ->
  scan_digits w (o ++ rest) cnt acc =
  ((cnt + length o)%nat, fold_left (fun a c => a * 10 + (c - 48)) o acc, rest).
Proof.
  induction o as [|c o IH]; intros w rest cnt acc Hd Hl Hs.
  - cbn [app length fold_left]. rewrite Nat.add_0_r.
    destruct w as [|w]; [reflexivity|].
    cbn [scan_digits]. destruct Hs as [Hs|Hs]; [discriminate|].
    destruct rest as [|c r]; [reflexivity|]. cbn [stops_digits] in Hs. now rewrite Hs.
  - cbn [forallb] in Hd. apply andb_true_iff in Hd as [Hc Hd].
    cbn [length] in Hl. destruct w as [|w]; [lia|].
    cbn [app scan_digits]. rewrite is_digit_dec_char, Hc.
    rewrite IH; [|exact Hd|lia|cbn [length] in Hs; destruct Hs; [left; lia|right; assumption]].
    cbn [length fold_left]. f_equal. f_equal. lia.
Qed.

(* one field of the grammar is read back by one "%3hhu" *)
Lemma scan_hhu3_octet o b rest :
  octet o b -> stops_digits rest -> scan_hhu3 (o ++ rest) = Some (b, rest).
Proof.
  intros (Hlen & Hd & Hv & Hb) Hs.
  destruct o as [|c o]; [cbn [length] in Hlen; lia|].
  pose proof Hd as Hd0. cbn [forallb] in Hd0. apply andb_true_iff in Hd0 as [Hc _].
  rewrite <- is_digit_dec_char in Hc.
  unfold scan_hhu3. cbn [app skip_ws]. rewrite (digit_not_space _ Hc).
  destruct (digit_not_sign _ Hc) as [Hm Hp]. rewrite Hm, Hp.
  change (c :: o ++ rest) with ((c :: o) ++ rest).
  rewrite scan_digits_app; [|exact Hd|lia|right; exact Hs].
  cbn [length Nat.add]. unfold decval in Hv. rewrite Hv.
  rewrite N.mod_small by lia. reflexivity.
Qed.

Lemma stops_dot r : stops_digits (ch_dot :: r).
Proof. reflexivity. Qed.

(* ---- the library parser accepts the grammar, same value ------------------ *)
Lemma accepts4 s a : denotes4 s a -> str_to_ipv4 s = Some a.
Proof.
  intros H. destruct H as [o0 o1 o2 o3 b0 b1 b2 b3 H0 H1 H2 H3].
  unfold str_to_ipv4, sscanf_quad.
  change 46 with ch_dot.
  rewrite (scan_hhu3_octet _ _ _ H0 (stops_dot _)). cbn [expect]. rewrite N.eqb_refl.
  rewrite (scan_hhu3_octet _ _ _ H1 (stops_dot _)). cbn [expect]. rewrite N.eqb_refl.
  rewrite (scan_hhu3_octet _ _ _ H2 (stops_dot _)). cbn [expect]. rewrite N.eqb_refl.
  rewrite <- (app_nil_r o3).
  rewrite (scan_hhu3_octet o3 b3 [] H3 I). reflexivity.
Qed.

(* ---- printing: every byte prints as a field of the grammar ---------------- *)
Definition dec_ok (b : N) : bool :=
  Nat.leb 1 (length (dec b)) && Nat.leb (length (dec b)) 3 && forallb dec_char (dec b) && (decval (dec b) =? b).

Lemma dec_sweep : forallb dec_ok (nrange 256) = true.
Proof. vm_compute. reflexivity. Qed.

Lemma dec_octet b : b < 256 -> octet (dec b) b.
Proof.
  intros Hb. pose proof (sweep _ _ dec_sweep b Hb) as H. unfold dec_ok in H.
  apply andb_true_iff in H as [H H4]. apply andb_true_iff in H as [H H3].
  apply andb_true_iff in H as [H1 H2].
  apply Nat.leb_le in H1. apply Nat.leb_le in H2. apply N.eqb_eq in H4.
  repeat split; try assumption; lia.
Qed.

Lemma dotted_denotes b0 b1 b2 b3 : b0 < 256 -> b1 < 256 -> b2 < 256 -> b3 < 256 ->
  denotes4 (dotted b0 b1 b2 b3) (b0 * 2 ^ 24 + b1 * 2 ^ 16 + b2 * 2 ^ 8 + b3).
Proof. intros. unfold dotted. apply D4; now apply dec_octet. Qed.

Lemma bytes_of_u32 a : a < 2 ^ 32 ->
  (a / 2 ^ 24) mod 256 * 2 ^ 24 + (a / 2 ^ 16) mod 256 * 2 ^ 16 + (a / 2 ^ 8) mod 256 * 2 ^ 8 + a mod 256 = a.
Proof.
  intros Ha.
  change (2 ^ 24) with (2 ^ 8 * 2 ^ 8 * 2 ^ 8). change (2 ^ 16) with (2 ^ 8 * 2 ^ 8).
  rewrite <- !N.div_div by (cbv; discriminate).
  change (2 ^ 8) with 256 in *.
  set (q1 := a / 256). set (q2 := q1 / 256). set (q3 := q2 / 256).
  pose proof (N.div_mod a 256 ltac:(discriminate)) as E1. fold q1 in E1.
  pose proof (N.div_mod q1 256 ltac:(discriminate)) as E2. fold q2 in E2.
  pose proof (N.div_mod q2 256 ltac:(discriminate)) as E3. fold q3 in E3.
  pose proof (N.mod_lt a 256 ltac:(discriminate)).
  pose proof (N.mod_lt q1 256 ltac:(discriminate)).
  pose proof (N.mod_lt q2 256 ltac:(discriminate)).
  change (2 ^ 32) with 4294967296 in Ha.
  clearbody q1 q2 q3.
  assert (Hq3 : q3 < 256).
  { generalize dependent (a mod 256). generalize dependent (q1 mod 256). generalize dependent (q2 mod 256).
    intros. lia. }
  rewrite (N.mod_small q3 256) by assumption.
  generalize dependent (a mod 256). generalize dependent (q1 mod 256). generalize dependent (q2 mod 256).
  intros. lia.
Qed.

Lemma out_in_grammar4 a : a < 2 ^ 32 -> denotes4 (ipv4_text a) a.
Proof.
  intros Ha. unfold ipv4_text.
  rewrite <- (bytes_of_u32 a Ha) at 5.
  apply dotted_denotes; apply N.mod_lt; discriminate.
Qed.

Lemma rt4 a : a < 2 ^ 32 -> str_to_ipv4 (ipv4_text a) = Some a.
Proof. intros Ha. apply accepts4, out_in_grammar4, Ha. Qed.

(* ---- buffer -------------------------------------------------------------- *)
Lemma snprintf_store_len len text : N.of_nat (length (snprintf_store len text)) <= len.
Proof.
  unfold snprintf_store.
  destruct (len =? 0) eqn:E0; [cbn [length]; lia|]. apply N.eqb_neq in E0.
  destruct (N.of_nat (length text) <? len) eqn:E1.
  - apply N.ltb_lt in E1. rewrite app_length. cbn [length]. lia.
  - rewrite app_length, firstn_length. cbn [length]. lia.
Qed.

Lemma snprintf_store_fits len text : N.of_nat (length text) < len ->
  snprintf_store len text = text ++ [0].
Proof.
  intros H. unfold snprintf_store.
  destruct (len =? 0) eqn:E0; [apply N.eqb_eq in E0; lia|].
  apply N.ltb_lt in H. now rewrite H.
Qed.

Lemma dotted_length b0 b1 b2 b3 : b0 < 256 -> b1 < 256 -> b2 < 256 -> b3 < 256 ->
  (7 <= length (dotted b0 b1 b2 b3) <= 15)%nat.
Proof.
  intros H0 H1 H2 H3. unfold dotted.
  destruct (dec_octet _ H0) as (L0 & _), (dec_octet _ H1) as (L1 & _),
           (dec_octet _ H2) as (L2 & _), (dec_octet _ H3) as (L3 & _).
  repeat (rewrite app_length; cbn [length]). lia.
Qed.

Lemma ipv4_text_length a : (7 <= length (ipv4_text a) <= 15)%nat.
Proof. unfold ipv4_text. apply dotted_length; apply N.mod_lt; discriminate. Qed.

(* never stores more than len bytes; with the documented INET_ADDRSTRLEN (16) bytes the
   whole text and its NUL are stored *)
Lemma bounds4 a len :
  N.of_nat (length (snd (ipv4_to_str a len))) <= len /\
  (16 <= len -> ipv4_to_str a len = (0%Z, ipv4_text a ++ [0])).
Proof.
  unfold ipv4_to_str. cbn [snd]. split; [apply snprintf_store_len|].
  intros H. rewrite snprintf_store_fits; [reflexivity|].
  pose proof (ipv4_text_length a). lia.
Qed.

(* with the repair: success means the complete text was stored, whatever the length *)
Lemma bounds4_fixed a len :
  N.of_nat (length (snd (ipv4_to_str_fixed a len))) <= len /\
  (fst (ipv4_to_str_fixed a len) = 0%Z -> snd (ipv4_to_str_fixed a len) = ipv4_text a ++ [0]) /\
  (16 <= len -> ipv4_to_str_fixed a len = (0%Z, ipv4_text a ++ [0])).
Proof.
  unfold ipv4_to_str_fixed. cbn [fst snd]. split; [apply snprintf_store_len|]. split.
  - destruct (N.of_nat (length (ipv4_text a)) <? len) eqn:E; [|discriminate].
    intros _. apply snprintf_store_fits. now apply N.ltb_lt.
  - intros H. pose proof (ipv4_text_length a).
    replace (N.of_nat (length (ipv4_text a)) <? len) with true by (symmetry; apply N.ltb_lt; lia).
    rewrite snprintf_store_fits by lia. reflexivity.
Qed.

(* a buffer shorter than the documented size: success is returned for a text that
   denotes another address (observation recorded with the check's evidence) *)
Example short_buffer_truncates :
  ipv4_to_str 169090600 11 = (0%Z, [49;48;46;50;48;46;51;48;46;52;0]) /\
  str_to_ipv4 [49;48;46;50;48;46;51;48;46;52] = Some 169090564.
Proof. vm_compute. split; reflexivity. Qed.

Example rt4_nonvacuous : str_to_ipv4 (ipv4_text 3232235777) = Some 3232235777 /\
  ipv4_text 3232235777 = [49;57;50;46;49;54;56;46;49;46;49].
Proof. vm_compute. split; reflexivity. Qed.
