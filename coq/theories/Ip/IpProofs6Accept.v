(* IpProofs6Accept.v - C19: (1) a text containing "::" that the parser accepts has all
   eight words assigned; (2) every text of the RFC 4291 grammar is accepted by the parser
   with the address it denotes.                                                        *)
From Coq Require Import NArith ZArith List Bool Lia.
From RtrV Require Import Ip.Ipv4Text Ip.Ipv6Text Ip.Grammar Ip.IpProofs4 Ip.IpProofs6Parse.
Import ListNotations.
Local Open Scope Z_scope.

(* ------------------------------------------------------------------------ *)
(* (1) "::" present                                                          *)
(* ------------------------------------------------------------------------ *)
Definition starts_colon (a : list N) : bool :=
  match a with c :: _ => (c =? ch_colon)%N | [] => false end.

Fixpoint has_dc (s : list N) : bool :=
  match s with
  | c1 :: t => (match t with c2 :: _ => (c1 =? 58)%N && (c2 =? 58)%N | [] => false end) || has_dc t
  | [] => false
  end.

Lemma find_dcolon_has_dc s : find_dcolon s = None <-> has_dc s = false.
Proof.
  induction s as [|c1 t IH]; [split; reflexivity|].
  cbn [find_dcolon has_dc]. destruct t as [|c2 r]; [split; reflexivity|].
  destruct ((c1 =? 58)%N && (c2 =? 58)%N); cbn [orb]; [split; discriminate|].
  destruct (find_dcolon (c2 :: r)) as [[b a]|].
  - split; [discriminate|]. intros H. apply IH in H. discriminate.
  - split; [intros _; now apply IH|reflexivity].
Qed.

Lemma has_dc_skip d a2 : Forall (fun c => c <> ch_colon) d -> has_dc (d ++ a2) = has_dc a2.
Proof.
  induction 1 as [|c d Hc Hd IH]; [reflexivity|].
  cbn [app has_dc]. replace (c =? 58)%N with false by (symmetry; now apply N.eqb_neq).
  rewrite IH. now destruct (d ++ a2).
Qed.

Lemma group_loop_dc : forall f a i hfil ws,
  (length a < f)%nat -> good i hfil ws -> hfil = -1 ->
  starts_colon a || has_dc a = true ->
  match group_loop f a i hfil ws with
  | LErr => True
  | LStuck => False
  | LDone i' h' _ => 0 <= h' \/ i' = 8
  end.
Proof.
  induction f as [|f IH]; intros a i hfil ws Hf Hg Hh Hdc; [lia|].
  rewrite group_loop_unfold.
  destruct a as [|c a1]; [discriminate|]. cbn [length] in Hf.
  pose proof Hg as (vs & Hl & Hi & Hw & Hhr).
  destruct (c =? ch_colon)%N eqn:Ec.
  { subst hfil. replace (0 <=? -1) with false by reflexivity.
    assert (G : good i i ws) by (exists vs; repeat split; try assumption; lia).
    pose proof (group_loop_good f a1 i i ws ltac:(lia) G) as Hgood.
    destruct (group_loop f a1 i i ws); cbn [lres_good] in Hgood; [exact I|exact Hgood|].
    destruct Hgood as [_ Hsame]. left. rewrite Hsame; lia. }
  cbn [starts_colon] in Hdc. rewrite Ec in Hdc. cbn [orb] in Hdc.
  destruct (scan_hex (c :: a1) 0 0) as [[j a2]|] eqn:Es; [|exact I].
  pose proof (scan_hex_len _ _ _ _ _ Es) as Hlen. cbn [length] in Hlen.
  apply scan_hex_suffix in Es as (d & Hd & Hnc).
  rewrite Hd, has_dc_skip in Hdc by exact Hnc.
  cbv zeta.
  destruct a2 as [|c2 a3]; [discriminate|]. cbn [length] in Hlen.
  destruct ((c2 =? ch_colon)%N && negb (match a3 with [] => true | _ => false end)) eqn:E1.
  { apply andb_true_iff in E1 as [E1 E2]. apply N.eqb_eq in E1. subst c2.
    destruct a3 as [|c3 a4]; [discriminate|].
    destruct (8 <=? i) eqn:E8; [exact I|]. apply Z.leb_gt in E8.
    subst ws i. rewrite wset_wr by lia.
    apply IH; [cbn [length] in *; lia|apply good_store; lia|exact Hh|].
    cbn [has_dc] in Hdc. cbn [starts_colon]. change (58 =? 58)%N with true in Hdc. cbn [andb] in Hdc.
    exact Hdc. }
  destruct ((c2 =? ch_dot)%N && ((i =? 6) || ((i <? 6) && (0 <=? hfil)))) eqn:Eq; [|exact I].
  apply andb_true_iff in Eq as [_ Eq].
  assert (Hi6 : i = 6).
  { apply orb_true_iff in Eq as [Eq|Eq]; [now apply Z.eqb_eq in Eq|].
    apply andb_true_iff in Eq as [_ Eq]. apply Z.leb_le in Eq. lia. }
  destruct (str_to_ipv4 (c :: a1)) as [addr|]; [|exact I].
  subst ws i. rewrite wset_wr by lia.
  replace (Z.of_nat (length vs) + 1) with (Z.of_nat (length (vs ++ [(addr / 65536)%N])))
    by (rewrite app_length; cbn [length]; lia).
  rewrite wset_wr by (rewrite app_length; cbn [length]; lia).
  right. lia.
Qed.

(* what the loop leaves for a text that contains "::" *)
Lemma dcolon_start s a : find_dcolon s <> None -> start6 s = Some a ->
  starts_colon a || has_dc a = true.
Proof.
  intros Hd Hs. assert (Hdc : has_dc s = true).
  { destruct (has_dc s) eqn:E; [reflexivity|]. apply find_dcolon_has_dc in E. contradiction. }
  unfold start6 in Hs. destruct s as [|c0 r]; [discriminate|].
  destruct (c0 =? ch_colon)%N eqn:E0.
  - destruct r as [|c1 r']; [discriminate|].
    destruct (c1 =? ch_colon)%N eqn:E1; [|discriminate].
    injection Hs as <-. cbn [starts_colon]. now rewrite E1.
  - injection Hs as <-. cbn [starts_colon]. rewrite E0. exact Hdc.
Qed.

Lemma deterministic_with_dcolon s ws :
  find_dcolon s <> None -> str_to_ipv6 s = POk ws -> fully_written ws.
Proof.
  intros Hd. unfold str_to_ipv6, str_to_ipv6_gen.
  destruct (start6 s) as [a|] eqn:Es; [|discriminate].
  pose proof (dcolon_start _ _ Hd Es) as Hdc.
  pose proof (group_loop_good (S (length a)) a 0 (-1) words_init ltac:(lia) good_init) as Hg.
  pose proof (group_loop_dc (S (length a)) a 0 (-1) words_init ltac:(lia) good_init eq_refl Hdc) as Hc.
  destruct (group_loop (S (length a)) a 0 (-1) words_init) as [| |i hfil ws0]; cbn [lres_good] in Hg;
    [discriminate|contradiction|].
  destruct Hg as [Hg _]. pose proof (good_finish false _ _ _ Hg) as F. intros E. rewrite E in F.
  apply F. exact Hc.
Qed.

(* exact description of the results with unassigned words *)
Lemma unwritten_exactly s ws : str_to_ipv6 s = POk ws ->
  fully_written ws \/
  (find_dcolon s = None /\ exists vs, (length vs < 8)%nat /\ ws = wr vs).
Proof.
  intros E. destruct (find_dcolon s) as [p|] eqn:Ed.
  { left. apply (deterministic_with_dcolon s); [rewrite Ed; discriminate|exact E]. }
  revert E. unfold str_to_ipv6, str_to_ipv6_gen.
  destruct (start6 s) as [a|]; [|discriminate].
  pose proof (group_loop_good (S (length a)) a 0 (-1) words_init ltac:(lia) good_init) as Hg.
  destruct (group_loop (S (length a)) a 0 (-1) words_init) as [| |i hfil ws0]; cbn [lres_good] in Hg;
    [discriminate|contradiction|].
  destruct Hg as [Hg _]. pose proof (good_finish false _ _ _ Hg) as F. intros E. rewrite E in F.
  destruct F as [F1 F2]. destruct Hg as (vs & Hl & Hi & Hw & Hh).
  destruct (Z_lt_le_dec hfil 0) as [Hn|Hp]; [|left; apply F1; lia].
  destruct (F2 Hn) as [-> _]. destruct (Nat.eq_dec (length vs) 8) as [E8|N8].
  - left. apply F1. lia.
  - right. split; [reflexivity|]. exists vs. split; [lia|exact Hw].
Qed.

(* ------------------------------------------------------------------------ *)
(* (2) the grammar is accepted                                               *)
(* ------------------------------------------------------------------------ *)
Definition groups_colon (gs : list (list N)) : list N :=
  concat (map (fun g => g ++ [ch_colon]) gs).

Lemma groups_colon_cons g gs rest :
  groups_colon (g :: gs) ++ rest = g ++ ch_colon :: (groups_colon gs ++ rest).
Proof. unfold groups_colon. cbn [map concat]. now rewrite <- !app_assoc. Qed.

Lemma groups_colon_snoc gs g : groups_colon (gs ++ [g]) = groups_colon gs ++ g ++ [ch_colon].
Proof. unfold groups_colon. rewrite map_app, concat_app. cbn [map concat]. now rewrite app_nil_r. Qed.

Lemma join_snoc gs x : join (gs ++ [x]) = groups_colon gs ++ x.
Proof.
  induction gs as [|g gs IH]; [reflexivity|].
  rewrite groups_colon_cons. cbn [app join].
  destruct (gs ++ [x]) eqn:E; [destruct gs; discriminate|]. now rewrite <- IH.
Qed.

Lemma hexgroup_head g v : hexgroup g v ->
  exists c0 g' d, g = c0 :: g' /\ hexdigit_val c0 = Some d.
Proof.
  intros [Hl Hv]. destruct g as [|c0 g']; [cbn [length] in Hl; lia|].
  unfold hexvalue in Hv. cbn [fold_left] in Hv. unfold hexstep at 2 in Hv.
  destruct (hexdigit_val c0) as [d|] eqn:E; [eauto|]. rewrite hexfold_None in Hv. discriminate.
Qed.

Lemma stops_hex_colon r : stops_hex (ch_colon :: r).
Proof. reflexivity. Qed.
Lemma stops_hex_dot r : stops_hex (ch_dot :: r).
Proof. reflexivity. Qed.

Lemma start6_hex c d r : hexdigit_val c = Some d -> start6 (c :: r) = Some (c :: r).
Proof.
  intros H. unfold start6. apply hexdigit_not_sep in H as [H _].
  now replace (c =? ch_colon)%N with false by (symmetry; now apply N.eqb_neq).
Qed.

Lemma gl_group_colon f g v rest i hfil vs :
  hexgroup g v -> rest <> [] -> (length vs < 8)%nat -> i = Z.of_nat (length vs) ->
  group_loop (S f) (g ++ ch_colon :: rest) i hfil (wr vs) =
  group_loop f rest (i + 1) hfil (wr (vs ++ [v])).
Proof.
  intros Hg Hr Hl Hi. destruct (hexgroup_head _ _ Hg) as (c0 & g' & d & -> & Hd).
  rewrite group_loop_unfold. cbn [app].
  destruct (hexdigit_not_sep _ _ Hd) as [Hc _].
  replace (c0 =? ch_colon)%N with false by (symmetry; now apply N.eqb_neq).
  change (c0 :: g' ++ ch_colon :: rest) with ((c0 :: g') ++ ch_colon :: rest).
  rewrite (scan_hex_group _ _ _ Hg (stops_hex_colon rest)).
  cbv zeta. rewrite N.eqb_refl. destruct rest as [|c r]; [contradiction|]. cbn [negb andb].
  replace (8 <=? i) with false by (symmetry; apply Z.leb_gt; lia).
  subst i. now rewrite wset_wr by lia.
Qed.

Lemma gl_group_end f g v i hfil vs :
  hexgroup g v -> (length vs < 8)%nat -> i = Z.of_nat (length vs) ->
  group_loop (S (S f)) g i hfil (wr vs) = LDone (i + 1) hfil (wr (vs ++ [v])).
Proof.
  intros Hg Hl Hi. destruct (hexgroup_head _ _ Hg) as (c0 & g' & d & -> & Hd).
  rewrite group_loop_unfold.
  destruct (hexdigit_not_sep _ _ Hd) as [Hc _].
  replace (c0 =? ch_colon)%N with false by (symmetry; now apply N.eqb_neq).
  rewrite <- (app_nil_r (c0 :: g')) at 1.
  rewrite (scan_hex_group _ _ [] Hg I).
  cbv zeta.
  replace (8 <=? i) with false by (symmetry; apply Z.leb_gt; lia).
  subst i. rewrite wset_wr by lia. reflexivity.
Qed.

(* a decimal field is also a hexadecimal group for the scanner *)
Lemma dec_char_hex c : dec_char c = true -> hexdigit_val c = Some (c - 48)%N.
Proof. unfold dec_char, hexdigit_val. now intros ->. Qed.

Lemma octet_hexgroup o b : octet o b -> exists hv, hexgroup o hv.
Proof.
  intros (Hl & Hd & _ & _).
  destruct o as [|c0 [|c1 [|c2 [|c3 o]]]]; cbn [length] in Hl; try lia;
    cbn [forallb] in Hd;
    repeat match type of Hd with (_ && _) = true => let A := fresh "A" in apply andb_true_iff in Hd as [A Hd]; apply dec_char_hex in A end;
    eexists; (split; [cbn [length]; lia|]); unfold hexvalue; cbn [fold_left]; unfold hexstep;
    repeat match goal with A : hexdigit_val _ = Some _ |- _ => rewrite A; clear A end; reflexivity.
Qed.

Lemma wset_wr2 vs x y h : (length vs <= 6)%nat ->
  match wset (wr vs) (Z.of_nat (length vs)) (Some x) with
  | None => LStuck
  | Some ws1 =>
    match wset ws1 (Z.of_nat (length vs) + 1) (Some y) with
    | None => LStuck
    | Some ws2 => LDone (Z.of_nat (length vs) + 2) h ws2
    end
  end = LDone (Z.of_nat (length vs) + 2) h (wr (vs ++ [x; y])).
Proof.
  intros Hl. rewrite wset_wr by lia.
  replace (Z.of_nat (length vs) + 1) with (Z.of_nat (length (vs ++ [x])))
    by (rewrite app_length; cbn [length]; lia).
  rewrite wset_wr by (rewrite app_length; cbn [length]; lia).
  now rewrite <- app_assoc.
Qed.

Lemma gl_quad f q a i hfil vs :
  denotes4 q a -> (length vs <= 6)%nat -> i = Z.of_nat (length vs) ->
  (i =? 6) || ((i <? 6) && (0 <=? hfil)) = true ->
  group_loop (S f) q i hfil (wr vs) =
  LDone (i + 2) hfil (wr (vs ++ [(a / 65536)%N; (a mod 65536)%N])).
Proof.
  intros Hq Hl Hi Hc. pose proof (accepts4 _ _ Hq) as Hacc.
  destruct Hq as [o0 o1 o2 o3 b0 b1 b2 b3 H0 H1 H2 H3].
  destruct (octet_hexgroup _ _ H0) as [hv Hg].
  destruct (hexgroup_head _ _ Hg) as (c0 & g' & d & E0 & Hd).
  set (rest := o1 ++ 46%N :: o2 ++ 46%N :: o3) in *.
  rewrite group_loop_unfold. rewrite Hacc. rewrite E0 in *. cbn [app].
  destruct (hexdigit_not_sep _ _ Hd) as [Hnc _].
  replace (c0 =? ch_colon)%N with false by (symmetry; now apply N.eqb_neq).
  change (c0 :: g' ++ 46%N :: rest) with ((c0 :: g') ++ ch_dot :: rest).
  rewrite (scan_hex_group _ _ _ Hg (stops_hex_dot rest)).
  cbv zeta. change (ch_dot =? ch_colon)%N with false. cbn [andb]. rewrite N.eqb_refl, Hc. cbn [andb].
  subst i. now apply wset_wr2.
Qed.

Lemma quad_nonempty q a : denotes4 q a -> q <> [].
Proof. intros [o0 o1 o2 o3 ? ? ? ? H0 _ _ _]. destruct o0; discriminate. Qed.

Lemma hexgroup_nonempty g v : hexgroup g v -> g <> [].
Proof. intros [Hl _]. destruct g; [cbn [length] in Hl; lia|discriminate]. Qed.

(* a run of groups each followed by ':' *)
Lemma gl_groups_colon gs vs' : Forall2 hexgroup gs vs' ->
  forall f rest hfil vs, rest <> [] -> (length vs + length gs <= 8)%nat ->
  (length (groups_colon gs ++ rest) < f)%nat ->
  exists f', (length rest < f')%nat /\
    group_loop f (groups_colon gs ++ rest) (Z.of_nat (length vs)) hfil (wr vs) =
    group_loop f' rest (Z.of_nat (length (vs ++ vs'))) hfil (wr (vs ++ vs')).
Proof.
  induction 1 as [|g v gs vs' Hg HF IH]; intros f rest hfil vs Hr Hl Hf.
  - exists f. rewrite app_nil_r. cbn [groups_colon map concat app] in *. auto.
  - rewrite groups_colon_cons in *. cbn [length] in Hl.
    destruct f as [|f]; [lia|].
    assert (Hne : groups_colon gs ++ rest <> []) by (intros E; apply app_eq_nil in E as [_ E]; contradiction).
    rewrite (gl_group_colon f g v _ _ hfil vs Hg Hne ltac:(lia) eq_refl).
    replace (Z.of_nat (length vs) + 1) with (Z.of_nat (length (vs ++ [v])))
      by (rewrite app_length; cbn [length]; lia).
    destruct (IH f rest hfil (vs ++ [v]) Hr) as (f' & Hf' & E).
    + rewrite app_length. cbn [length]. lia.
    + rewrite app_length in Hf. cbn [length] in Hf. lia.
    + exists f'. split; [exact Hf'|]. rewrite E. now rewrite <- app_assoc.
Qed.

Lemma Forall2_snoc_inv {A B} (R : A -> B -> Prop) l x l' :
  Forall2 R (l ++ [x]) l' -> exists m y, l' = m ++ [y] /\ Forall2 R l m /\ R x y.
Proof.
  intros H. apply Forall2_app_inv_l in H as (m & r & Hm & Hr & ->).
  inversion Hr as [|? y ? r' Hxy Hnil]; subst. inversion Hnil; subst. eauto.
Qed.

Lemma F2_length {A B} (R : A -> B -> Prop) l l' : Forall2 R l l' -> length l = length l'.
Proof. induction 1; cbn [length]; congruence. Qed.

Lemma words_init_wr : words_init = wr [].
Proof. reflexivity. Qed.

(* the loop over "g1:g2:...:gn" (n >= 1) from a state with room for n more words *)
Lemma gl_join gs vs' : Forall2 hexgroup gs vs' -> gs <> [] ->
  forall f hfil vs, (length vs + length gs <= 8)%nat -> (length (join gs) < f)%nat ->
  group_loop f (join gs) (Z.of_nat (length vs)) hfil (wr vs) =
  LDone (Z.of_nat (length (vs ++ vs'))) hfil (wr (vs ++ vs')).
Proof.
  intros HF Hne f hfil vs Hl Hf.
  destruct (exists_last Hne) as (gs0 & g & ->).
  apply Forall2_snoc_inv in HF as (m & v & -> & HF & Hg).
  rewrite join_snoc in *. rewrite app_length in Hl. cbn [length] in Hl.
  destruct (gl_groups_colon gs0 m HF f g hfil vs (hexgroup_nonempty _ _ Hg) ltac:(lia) Hf) as (f' & Hf' & ->).
  destruct Hg as [Hgl Hgv] eqn:Hgeq. clear Hgeq.
  destruct f' as [|[|f']]; [lia|lia|].
  pose proof (F2_length _ _ _ HF) as HL.
  rewrite (gl_group_end f' g v _ hfil (vs ++ m) (conj Hgl Hgv)); [|rewrite app_length; lia|reflexivity].
  rewrite app_assoc. f_equal. rewrite !app_length. cbn [length]. lia.
Qed.

(* the loop over "g1:...:gn:d.d.d.d" (n >= 0) *)
Lemma gl_join_quad gs vs' q a : Forall2 hexgroup gs vs' -> denotes4 q a ->
  forall f hfil vs, (length vs + length gs <= 6)%nat -> (length (join (gs ++ [q])) < f)%nat ->
  (length vs + length gs = 6)%nat \/ 0 <= hfil ->
  group_loop f (join (gs ++ [q])) (Z.of_nat (length vs)) hfil (wr vs) =
  LDone (Z.of_nat (length (vs ++ vs')) + 2) hfil
        (wr (vs ++ vs' ++ [(a / 65536)%N; (a mod 65536)%N])).
Proof.
  intros HF Hq f hfil vs Hl Hf Hc.
  rewrite join_snoc in *.
  destruct (gl_groups_colon gs vs' HF f q hfil vs (quad_nonempty _ _ Hq) ltac:(lia) Hf) as (f' & Hf' & ->).
  destruct f' as [|f']; [lia|].
  pose proof (F2_length _ _ _ HF) as HL.
  rewrite (gl_quad f' q a _ hfil (vs ++ vs') Hq); [now rewrite <- app_assoc| |reflexivity|].
  - rewrite app_length. lia.
  - rewrite app_length. apply orb_true_iff. destruct Hc as [Hc|Hc].
    + left. apply Z.eqb_eq. lia.
    + destruct (Nat.eq_dec (length vs + length gs) 6); [left; apply Z.eqb_eq; lia|].
      right. apply andb_true_iff. split; [apply Z.ltb_lt|apply Z.leb_le]; lia.
Qed.

Lemma join_cons_app g gs : exists X, join (g :: gs) = g ++ X.
Proof. destruct gs as [|g2 gs]; [exists []; cbn [join]; now rewrite app_nil_r|]. eexists. reflexivity. Qed.

Lemma start6_join gs vs t : Forall2 hexgroup gs vs -> gs <> [] ->
  start6 (join gs ++ t) = Some (join gs ++ t).
Proof.
  intros HF Hne. destruct HF as [|g v gs vs Hg HF]; [contradiction|].
  destruct (join_cons_app g gs) as [X ->].
  destruct (hexgroup_head _ _ Hg) as (c0 & g' & d & -> & Hd).
  cbn [app]. eapply start6_hex, Hd.
Qed.

Lemma start6_comp pre vpre t : Forall2 hexgroup pre vpre ->
  start6 (join pre ++ 58%N :: 58%N :: t) = Some (groups_colon pre ++ ch_colon :: t).
Proof.
  intros HF. destruct pre as [|g0 pre0] eqn:Ep; [reflexivity|].
  rewrite <- Ep in *. assert (Hne : pre <> []) by (rewrite Ep; discriminate).
  rewrite (start6_join _ _ _ HF Hne). f_equal.
  destruct (exists_last Hne) as (p0 & g & ->).
  rewrite join_snoc, groups_colon_snoc. rewrite <- !app_assoc. reflexivity.
Qed.

Lemma finish_full strict vs i : i = Z.of_nat (length vs) -> length vs = 8%nat ->
  finish strict i (-1) (wr vs) = POk (map Some vs).
Proof.
  intros -> H. unfold finish. rewrite H. change (Z.of_nat 8 <? 8) with false.
  rewrite andb_false_r. change (0 <=? -1) with false. cbv iota. now rewrite wr_full.
Qed.

(* the prefix "g1:...:gk::" (k >= 0), after the optional leading-colon step *)
Lemma gl_comp_prefix pre vpre : Forall2 hexgroup pre vpre -> (length pre <= 8)%nat ->
  forall f t, (length (groups_colon pre ++ ch_colon :: t) < f)%nat ->
  exists f', (length t < f')%nat /\
    group_loop f (groups_colon pre ++ ch_colon :: t) 0 (-1) words_init =
    group_loop f' t (Z.of_nat (length vpre)) (Z.of_nat (length vpre)) (wr vpre).
Proof.
  intros HF Hl f t Hf. rewrite words_init_wr. change 0 with (Z.of_nat (length (@nil N))).
  destruct (gl_groups_colon pre vpre HF f (ch_colon :: t) (-1) [] ltac:(discriminate) ltac:(cbn [length]; lia) Hf)
    as (f1 & Hf1 & ->).
  cbn [app]. cbn [length] in Hf1. destruct f1 as [|f2]; [lia|].
  exists f2. split; [lia|]. rewrite group_loop_unfold. rewrite N.eqb_refl. reflexivity.
Qed.

Lemma accepts6 strict s ws : denotes6 s ws -> str_to_ipv6_gen strict s = POk (map Some ws).
Proof.
  intros H. unfold str_to_ipv6_gen.
  destruct H as [gs vs HF Hlen | gs vs q a HF Hlen Hq
                 | pre post vpre vpost HFa HFb Hlen | pre post vpre vpost q a HFa HFb Hq Hlen].
  - (* x:x:x:x:x:x:x:x *)
    assert (Hne : gs <> []) by (destruct gs; [discriminate Hlen|discriminate]).
    rewrite <- (app_nil_r (join gs)) at 1. rewrite (start6_join _ _ _ HF Hne), app_nil_r.
    rewrite words_init_wr. change 0 with (Z.of_nat (length (@nil N))).
    rewrite (gl_join gs vs HF Hne) by (cbn [length]; lia). cbn [app].
    apply finish_full; [reflexivity|]. rewrite <- (F2_length _ _ _ HF). exact Hlen.
  - (* x:x:x:x:x:x:d.d.d.d *)
    assert (Hne : gs ++ [q] <> []) by (destruct gs; discriminate).
    assert (Hne' : gs <> []) by (destruct gs; [discriminate Hlen|discriminate]).
    assert (Hst : start6 (join (gs ++ [q])) = Some (join (gs ++ [q]))).
    { rewrite join_snoc. destruct gs as [|g gs']; [contradiction|]. inversion HF as [|? v ? vs' Hg HF']; subst.
      rewrite groups_colon_cons. destruct (hexgroup_head _ _ Hg) as (c0 & g' & d & -> & Hd).
      cbn [app]. eapply start6_hex, Hd. }
    rewrite Hst. rewrite words_init_wr. change 0 with (Z.of_nat (length (@nil N))).
    rewrite (gl_join_quad gs vs q a HF Hq) by (cbn [length]; lia). cbn [app].
    pose proof (F2_length _ _ _ HF) as HL.
    replace (Z.of_nat (length vs) + 2) with (Z.of_nat (length (vs ++ [(a / 65536)%N; (a mod 65536)%N])))
      by (rewrite app_length; cbn [length]; lia).
    apply finish_full; [reflexivity|]. rewrite app_length. cbn [length]. lia.
  - (* compressed *)
    rewrite (start6_comp _ _ _ HFa).
    pose proof (F2_length _ _ _ HFa) as HLa. pose proof (F2_length _ _ _ HFb) as HLb.
    destruct (gl_comp_prefix pre vpre HFa ltac:(lia) (S (length (groups_colon pre ++ ch_colon :: join post)))
                (join post) ltac:(lia)) as (f' & Hf' & ->).
    destruct post as [|g post0] eqn:Ep.
    + inversion HFb; subst. cbn [join] in *. destruct f' as [|f']; [cbn [length] in Hf'; lia|].
      cbn [group_loop]. rewrite <- (app_nil_r vpre) at 3.
      replace (Z.of_nat (length vpre)) with (Z.of_nat (length vpre + length (@nil N))) at 1
        by (cbn [length]; lia).
      rewrite finish_fill by (cbn [length]; lia). rewrite HLa. reflexivity.
    + rewrite <- Ep in *. assert (Hne : post <> []) by (rewrite Ep; discriminate).
      rewrite (gl_join post vpost HFb Hne) by lia.
      rewrite app_length. rewrite finish_fill by lia. rewrite HLa, HLb. reflexivity.
  - (* compressed, dotted quad at the end *)
    rewrite (start6_comp _ _ _ HFa).
    pose proof (F2_length _ _ _ HFa) as HLa. pose proof (F2_length _ _ _ HFb) as HLb.
    destruct (gl_comp_prefix pre vpre HFa ltac:(lia) (S (length (groups_colon pre ++ ch_colon :: join (post ++ [q]))))
                (join (post ++ [q])) ltac:(lia)) as (f' & Hf' & ->).
    rewrite (gl_join_quad post vpost q a HFb Hq) by lia.
    set (tail := vpost ++ [(a / 65536)%N; (a mod 65536)%N]).
    assert (HLt : length tail = (length vpost + 2)%nat) by (unfold tail; rewrite app_length; cbn [length]; lia).
    replace (Z.of_nat (length (vpre ++ vpost)) + 2) with (Z.of_nat (length vpre + length tail))
      by (rewrite app_length; lia).
    rewrite finish_fill by lia. rewrite HLt, HLa, HLb.
    replace (8 - length vpre - (length vpost + 2))%nat with (6 - length vpre - length vpost)%nat by lia.
    reflexivity.
Qed.

(* ---- ip.c: the family is chosen by the presence of ':' ------------------------- *)
Lemma digits_no_colon o : forallb dec_char o = true -> existsb (N.eqb ch_colon) o = false.
Proof.
  induction o as [|c o IH]; [reflexivity|]. cbn [forallb existsb]. intros H.
  apply andb_true_iff in H as [Hc Ho]. rewrite (IH Ho), orb_false_r.
  unfold dec_char in Hc. apply andb_true_iff in Hc as [_ Hc]. apply N.leb_le in Hc.
  apply N.eqb_neq. unfold ch_colon. lia.
Qed.

Lemma denotes4_no_colon s a : denotes4 s a -> existsb (N.eqb ch_colon) s = false.
Proof.
  intros [o0 o1 o2 o3 ? ? ? ? (_ & H0 & _) (_ & H1 & _) (_ & H2 & _) (_ & H3 & _)].
  repeat (rewrite existsb_app; cbn [existsb]).
  rewrite !digits_no_colon by assumption. reflexivity.
Qed.

Lemma has_colon_app l r : existsb (N.eqb ch_colon) (l ++ ch_colon :: r) = true.
Proof. rewrite existsb_app. cbn [existsb]. rewrite N.eqb_refl. cbn [orb]. apply orb_true_r. Qed.

Lemma join_two_colon g1 g2 gs : existsb (N.eqb ch_colon) (join (g1 :: g2 :: gs)) = true.
Proof. cbn [join]. apply has_colon_app. Qed.

Lemma denotes6_has_colon s ws : denotes6 s ws -> existsb (N.eqb ch_colon) s = true.
Proof.
  intros [gs vs HF Hlen | gs vs q a HF Hlen Hq | pre post vpre vpost _ _ _ | pre post vpre vpost q a _ _ _ _].
  - destruct gs as [|g1 [|g2 gs]]; try discriminate Hlen. apply join_two_colon.
  - destruct gs as [|g1 [|g2 gs]]; try discriminate Hlen. apply join_two_colon.
  - apply has_colon_app.
  - apply has_colon_app.
Qed.

Lemma accepts strict s a : denotes s a ->
  str_to_ip_gen strict s = match a with A4 x => IV4 x | A6 ws => IV6 (map Some ws) end.
Proof.
  intros [s' x H|s' ws H]; unfold str_to_ip_gen.
  - now rewrite (denotes4_no_colon _ _ H), (accepts4 _ _ H).
  - now rewrite (denotes6_has_colon _ _ H), (accepts6 strict _ _ H).
Qed.

(* ---- the determinism clause is false for the code as it is ------------------------ *)
Lemma det_refuted : ~ (forall s ws, str_to_ipv6 s = POk ws -> fully_written ws).
Proof.
  intros H.
  (* "1:2:3" *)
  specialize (H [49; 58; 50; 58; 51]%N [Some 1%N; Some 2%N; Some 3%N; None; None; None; None; None]).
  destruct H as (vs & E & _); [vm_compute; reflexivity|].
  destruct vs as [|? [|? [|? [|? vs]]]]; discriminate.
Qed.

Example witness_1_2_3 :
  str_to_ipv6 [49; 58; 50; 58; 51]%N = POk [Some 1%N; Some 2%N; Some 3%N; None; None; None; None; None] /\
  str_to_ipv6_fixed [49; 58; 50; 58; 51]%N = PErr /\
  str_to_ipv6 [49; 58; 58; 51]%N = POk (map Some [1; 0; 0; 0; 0; 0; 0; 3]%N).
Proof. vm_compute. repeat split. Qed.
