(* Ipv6Text.v - executable model of rtrlib/lib/ipv6.c text conversion and of the
   dispatch in rtrlib/lib/ip.c (C19).  Definitions only (proofs: IpProofs6*.v).

   The two functions follow the C loops statement by statement:
     lrtr_ipv6_addr_to_str : zero-run scan, the embedded-IPv4 special case, the
                             formatting loop with its index jump
     lrtr_ipv6_str_to_addr : the group loop (hex scan, ':' / '.' / end handling,
                             group count check), the '::' fill loops
   The local array  uint16_t words[8]  of the parser is a [list (option N)]: [None]
   is a word the function never assigned (indeterminate stack contents in C).
   Array accesses outside 0..7 and exhausted fuel give [LStuck]/[PStuck]; IpProofs6
   proves they are unreachable.                                                     *)
From Coq Require Import NArith ZArith List Bool.
From RtrV Require Import Ip.Ipv4Text.
Import ListNotations.

(* ------------------------------------------------------------------------ *)
(* printing                                                                 *)
(* ------------------------------------------------------------------------ *)
Definition hex_digit (d : N) : N := (if d <? 10 then 48 + d else 87 + d)%N.
(* sprintf("%x", words[i]) for a uint16_t *)
Definition hex (w : N) : list N := fmt_base 4 16 hex_digit w.

Record runs := mkruns { bestpos : Z; bestlen : Z; curpos : Z; curlen : Z }.

Local Open Scope Z_scope.

(*  if (words[i]) curlen = 0;
    else { if (!curlen) curpos = i; curlen++;
           if (curlen > bestlen) { bestpos = curpos; bestlen = curlen; } }          *)
Definition run_step (st : runs) (i : Z) (nonzero : bool) : runs :=
  if nonzero then mkruns (bestpos st) (bestlen st) (curpos st) 0
  else
    let cp := if curlen st =? 0 then i else curpos st in
    let cl := curlen st + 1 in
    if bestlen st <? cl then mkruns cp cl cp cl
    else mkruns (bestpos st) (bestlen st) cp cl.

Fixpoint scan_runs (flags : list bool) (i : Z) (st : runs) : runs :=
  match flags with
  | [] => st
  | f :: r => scan_runs r (i + 1) (run_step st i f)
  end.

Definition runs0 : runs := mkruns 0 0 0 0.

(* (bestpos, bestlen) after "if (bestlen < 2) bestpos = -1;" *)
Definition best_run (ws : list N) : Z * Z :=
  let r := scan_runs (map (fun w => negb (w =? 0)%N) ws) 0 runs0 in
  ((if bestlen r <? 2 then -1 else bestpos r), bestlen r).

(* the formatting loop  for (i = 0; i < 8; i++) {...}  ; None = out of fuel or a
   read outside words[] *)
Fixpoint fmt6 (fuel : nat) (i bp bl : Z) (ws : list N) : option (list N) :=
  match fuel with
  | O => None
  | S f =>
    if 8 <=? i then Some []
    else if i =? bp then
      let i' := i + bl - 1 in
      match fmt6 f (i' + 1) bp bl ws with
      | None => None
      | Some t => Some (ch_colon :: (if i' =? 7 then [ch_colon] else []) ++ t)
      end
    else
      match (if i <? 0 then None else nth_error ws (Z.to_nat i)), fmt6 f (i + 1) bp bl ws with
      | Some w, Some t => Some ((if i =? 0 then [] else [ch_colon]) ++ hex w ++ t)
      | _, _ => None
      end
  end.

Definition txt_ffff_colon : list N := [102; 102; 102; 102; 58]%N.

(* the text lrtr_ipv6_addr_to_str produces for the eight 16-bit words of the address
   (a[k] = words[2k] << 16 | words[2k+1]); None when [ws] is not eight words *)
Definition ipv6_text (ws : list N) : option (list N) :=
  match ws with
  | [w0; w1; w2; w3; w4; w5; w6; w7] =>
    let '(bp, bl) := best_run ws in
    let a2 := (w4 * 65536 + w5)%N in
    let a3 := (w6 * 65536 + w7)%N in
    if (bp =? 0) && (((bl =? 5) && (a2 =? 65535)%N) || (bl =? 6)) then
      Some (ch_colon :: ch_colon :: (if (a2 =? 0)%N then [] else txt_ffff_colon) ++ ipv4_text a3)
    else fmt6 9 0 bp bl ws
  | _ => None
  end.

Definition INET6_ADDRSTRLEN : N := 46.

(* lrtr_ipv6_addr_to_str: (return value, bytes stored through b) *)
Definition ipv6_to_str (ws : list N) (len : N) : option (Z * list N) :=
  if (len <? INET6_ADDRSTRLEN)%N then Some (-1, [])
  else match ipv6_text ws with
       | Some t => Some (0, t ++ [0%N])
       | None => None
       end.

(* ------------------------------------------------------------------------ *)
(* parsing                                                                  *)
(* ------------------------------------------------------------------------ *)
Definition hexval_c (c : N) : option N :=
  if is_digit c then Some (c - 48)%N
  else if (65 <=? c)%N && (c <=? 70)%N then Some (c - 65 + 10)%N
  else if (97 <=? c)%N && (c <=? 102)%N then Some (c - 97 + 10)%N
  else None.

(* the inner  for (;;)  : None = "return -1" (value >= 0x10000 or a fifth digit),
   Some (j, a) = left by  break  with the group value and the advanced pointer *)
Fixpoint scan_hex (a : list N) (j : N) (l : nat) : option (N * list N) :=
  match a with
  | [] => Some (j, a)
  | c :: a' =>
    match hexval_c c with
    | None => Some (j, a)
    | Some k =>
      let j' := (j * 16 + k)%N in
      if (65536 <=? j')%N || (4 <? S l)%nat then None else scan_hex a' j' (S l)
    end
  end.

Fixpoint upd {A} (n : nat) (v : A) (l : list A) : list A :=
  match l, n with
  | [], _ => []
  | _ :: r, O => v :: r
  | x :: r, S n' => x :: upd n' v r
  end.

Definition words := list (option N).
Definition in_words (i : Z) : bool := (0 <=? i) && (i <? 8).
(* words[i] = v *)
Definition wset (ws : words) (i : Z) (v : option N) : option words :=
  if in_words i then Some (upd (Z.to_nat i) v ws) else None.
(* words[i] read; an unassigned word reads as None *)
Definition wget (ws : words) (i : Z) : option (option N) :=
  if in_words i then nth_error ws (Z.to_nat i) else None.

Inductive lres :=
| LErr                                   (* return -1 *)
| LStuck                                 (* model: index outside words[] / out of fuel *)
| LDone (i hfil : Z) (ws : words).       (* loop left normally *)

(* while ( *a ) { ... } *)
Fixpoint group_loop (fuel : nat) (a : list N) (i hfil : Z) (ws : words) : lres :=
  match fuel with
  | O => LStuck
  | S f =>
    match a with
    | [] => LDone i hfil ws
    | c :: a1 =>
      if (c =? ch_colon)%N then                        (* "::" *)
        if 0 <=? hfil then LErr else group_loop f a1 i i ws
      else
        match scan_hex a 0 0 with                       (* start = a *)
        | None => LErr
        | Some (j, a2) =>
          let store (a' : list N) :=
            if 8 <=? i then LErr
            else match wset ws i (Some j) with
                 | None => LStuck
                 | Some ws' => group_loop f a' (i + 1) hfil ws'
                 end in
          match a2 with
          | [] => store []
          | c2 :: a3 =>
            if (c2 =? ch_colon)%N && negb (match a3 with [] => true | _ => false end) then store a3
            else if (c2 =? ch_dot)%N && ((i =? 6) || ((i <? 6) && (0 <=? hfil))) then
              (* embedded IPv4 address: lrtr_ipv4_str_to_addr(start, &addr4) *)
              match str_to_ipv4 a with
              | None => LErr
              | Some addr =>
                match wset ws i (Some (addr / 65536)%N) with
                | None => LStuck
                | Some ws1 =>
                  match wset ws1 (i + 1) (Some (addr mod 65536)%N) with
                  | None => LStuck
                  | Some ws2 => LDone (i + 2) hfil ws2
                  end
                end
              end
            else LErr
          end
        end
    end
  end.

(* for (i = 7; i - j >= hfil; i--) words[i] = words[i - j]; *)
Fixpoint fill_move (fuel : nat) (i j hfil : Z) (ws : words) : option (Z * words) :=
  match fuel with
  | O => None
  | S f =>
    if hfil <=? i - j then
      match wget ws (i - j) with
      | None => None
      | Some v => match wset ws i v with
                  | None => None
                  | Some ws' => fill_move f (i - 1) j hfil ws'
                  end
      end
    else Some (i, ws)
  end.

(* for (; i >= hfil; i--) words[i] = 0; *)
Fixpoint fill_zero (fuel : nat) (i hfil : Z) (ws : words) : option words :=
  match fuel with
  | O => None
  | S f =>
    if hfil <=? i then
      match wset ws i (Some 0%N) with
      | None => None
      | Some ws' => fill_zero f (i - 1) hfil ws'
      end
    else Some ws
  end.

Inductive pres :=
| PErr                   (* -1 *)
| PStuck                 (* model stuck; unreachable *)
| POk (ws : words).      (* 0; ip->addr built from these words, None = never assigned *)

Definition words_init : words := repeat None 8.

(* [strict] = false: the function as it is in /repo.
   [strict] = true : with the proposed repair (proposed_fixes/C19-ipv6-short-form.diff):
                     "if (hfil < 0 && i < 8) return -1;" after the loop. *)
(* the optional leading "::" :  if (a[0] == ':') { if (a[1] != ':') return -1; a++; } *)
Definition start6 (a : list N) : option (list N) :=
  match a with
  | c0 :: r => if (c0 =? ch_colon)%N
               then match r with
                    | c1 :: _ => if (c1 =? ch_colon)%N then Some r else None
                    | [] => None
                    end
               else Some a
  | [] => Some a
  end.

(* after the loop: "::" replaced by zeros; the result words *)
Definition finish (strict : bool) (i hfil : Z) (ws : words) : pres :=
  if strict && (hfil <? 0) && (i <? 8) then PErr
  else if 0 <=? hfil then
    match fill_move 9 7 (8 - i) hfil ws with
    | None => PStuck
    | Some (i', ws1) =>
      match fill_zero 9 i' hfil ws1 with
      | None => PStuck
      | Some ws2 => POk ws2
      end
    end
  else POk ws.

Definition str_to_ipv6_gen (strict : bool) (a : list N) : pres :=
  match start6 a with
  | None => PErr
  | Some a' =>
    match group_loop (S (length a')) a' 0 (-1) words_init with
    | LErr => PErr
    | LStuck => PStuck
    | LDone i hfil ws => finish strict i hfil ws
    end
  end.

Definition str_to_ipv6 : list N -> pres := str_to_ipv6_gen false.
Definition str_to_ipv6_fixed : list N -> pres := str_to_ipv6_gen true.

(* ------------------------------------------------------------------------ *)
(* rtrlib/lib/ip.c                                                          *)
(* ------------------------------------------------------------------------ *)
Inductive ipres :=
| IErr
| IStuck
| IV4 (a : N)
| IV6 (ws : words).

(* lrtr_ip_str_to_addr: strchr(str, ':') decides the family *)
Definition str_to_ip_gen (strict : bool) (s : list N) : ipres :=
  if existsb (N.eqb ch_colon) s then
    match str_to_ipv6_gen strict s with
    | PErr => IErr | PStuck => IStuck | POk ws => IV6 ws
    end
  else
    match str_to_ipv4 s with
    | None => IErr | Some a => IV4 a
    end.

Definition str_to_ip : list N -> ipres := str_to_ip_gen false.
Definition str_to_ip_fixed : list N -> ipres := str_to_ip_gen true.

(* the bytes of a C string: up to the first NUL *)
Fixpoint cstr (s : list N) : list N :=
  match s with
  | [] => []
  | c :: r => if (c =? 0)%N then [] else c :: cstr r
  end.
