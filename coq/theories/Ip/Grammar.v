(* Grammar.v - the text forms of IP addresses, independent of the library's code (C19).

   [denotes4] / [denotes6] : the dotted-quad form and the three forms of RFC 4291
   section 2.2 (full, "::"-compressed, with a trailing dotted quad) as relations
   between a text and the address it denotes.  This is the formal stand-in for the
   platform's inet_pton: everything inet_pton accepts is in the relation (checked on
   every run through the executable [ref_pton4]/[ref_pton6] below, which are proved
   sound for the relation in IpProofsG.v and compared with the real inet_pton by the
   harness).  The relation is deliberately a little wider than glibc (leading zeros in
   a dotted-quad field are allowed, as RFC 4291 does not forbid them).

   Nothing here mentions the model of the library (Ipv4Text.v / Ipv6Text.v).        *)
From Coq Require Import NArith List Bool.
Import ListNotations.
Local Open Scope N_scope.

(* ---- digits -------------------------------------------------------------- *)
Definition dec_char (c : N) : bool := (48 <=? c) && (c <=? 57).
Definition decval (o : list N) : N := fold_left (fun acc c => acc * 10 + (c - 48)) o 0.

(* '0'..'9' 'a'..'f' 'A'..'F' *)
Definition hexdigit_val (c : N) : option N :=
  if (48 <=? c) && (c <=? 57) then Some (c - 48)
  else if (97 <=? c) && (c <=? 102) then Some (c - 87)
  else if (65 <=? c) && (c <=? 70) then Some (c - 55)
  else None.

Definition hexstep (acc : option N) (c : N) : option N :=
  match acc, hexdigit_val c with
  | Some a, Some d => Some (16 * a + d)
  | _, _ => None
  end.
Definition hexvalue (g : list N) : option N := fold_left hexstep g (Some 0).

(* one 16-bit group: one to four hexadecimal digits, either case, leading zeros allowed *)
Definition hexgroup (g : list N) (v : N) : Prop :=
  (1 <= length g <= 4)%nat /\ hexvalue g = Some v.

(* one field of a dotted quad: one to three decimal digits, value at most 255 *)
Definition octet (o : list N) (b : N) : Prop :=
  (1 <= length o <= 3)%nat /\ forallb dec_char o = true /\ decval o = b /\ b <= 255.

(* fields separated by ':' ; no separator for fewer than two fields *)
Fixpoint join (gs : list (list N)) : list N :=
  match gs with
  | [] => []
  | [g] => g
  | g :: r => g ++ 58 :: join r
  end.

Inductive denotes4 : list N -> N -> Prop :=
| D4 o0 o1 o2 o3 b0 b1 b2 b3 :
    octet o0 b0 -> octet o1 b1 -> octet o2 b2 -> octet o3 b3 ->
    denotes4 (o0 ++ 46 :: o1 ++ 46 :: o2 ++ 46 :: o3) (b0 * 2 ^ 24 + b1 * 2 ^ 16 + b2 * 2 ^ 8 + b3).

(* addresses are the eight 16-bit words, most significant first *)
Inductive denotes6 : list N -> list N -> Prop :=
| D6_full gs vs :                                     (* x:x:x:x:x:x:x:x *)
    Forall2 hexgroup gs vs -> length gs = 8%nat ->
    denotes6 (join gs) vs
| D6_full4 gs vs q a :                                (* x:x:x:x:x:x:d.d.d.d *)
    Forall2 hexgroup gs vs -> length gs = 6%nat -> denotes4 q a ->
    denotes6 (join (gs ++ [q])) (vs ++ [a / 65536; a mod 65536])
| D6_comp pre post vpre vpost :                       (* "::" = one or more zero groups *)
    Forall2 hexgroup pre vpre -> Forall2 hexgroup post vpost ->
    (length pre + length post <= 7)%nat ->
    denotes6 (join pre ++ 58 :: 58 :: join post)
             (vpre ++ repeat 0 (8 - length pre - length post) ++ vpost)
| D6_comp4 pre post vpre vpost q a :                  (* compressed, dotted quad last *)
    Forall2 hexgroup pre vpre -> Forall2 hexgroup post vpost -> denotes4 q a ->
    (length pre + length post <= 5)%nat ->
    denotes6 (join pre ++ 58 :: 58 :: join (post ++ [q]))
             (vpre ++ repeat 0 (6 - length pre - length post) ++ vpost ++ [a / 65536; a mod 65536]).

Inductive addr := A4 (a : N) | A6 (ws : list N).

Inductive denotes : list N -> addr -> Prop :=
| Den4 s a : denotes4 s a -> denotes s (A4 a)
| Den6 s ws : denotes6 s ws -> denotes s (A6 ws).

(* ------------------------------------------------------------------------ *)
(* executable reference parsers (strict: what glibc's inet_pton accepts)      *)
(* ------------------------------------------------------------------------ *)
Fixpoint split (sep : N) (s : list N) : list (list N) :=
  match s with
  | [] => [[]]
  | c :: r =>
    if c =? sep then [] :: split sep r
    else match split sep r with
         | f :: fs => (c :: f) :: fs
         | [] => [[c]]
         end
  end.

Definition ref_octet (o : list N) : option N :=
  match o with
  | [] => None
  | c :: _ =>
    if forallb dec_char o && Nat.leb (length o) 3 && (negb (c =? 48) || Nat.eqb (length o) 1)
    then (if decval o <=? 255 then Some (decval o) else None)
    else None
  end.

Definition ref_pton4 (s : list N) : option N :=
  match split 46 s with
  | [o0; o1; o2; o3] =>
    match ref_octet o0, ref_octet o1, ref_octet o2, ref_octet o3 with
    | Some b0, Some b1, Some b2, Some b3 => Some (b0 * 2 ^ 24 + b1 * 2 ^ 16 + b2 * 2 ^ 8 + b3)
    | _, _, _, _ => None
    end
  | _ => None
  end.

Definition ref_group (g : list N) : option N :=
  if Nat.leb 1 (length g) && Nat.leb (length g) 4 then hexvalue g else None.

(* colon-separated fields: hex groups, the last one possibly a dotted quad *)
Fixpoint parse_fields (fs : list (list N)) : option (list N * option N) :=
  match fs with
  | [] => None
  | [f] =>
    match ref_group f with
    | Some v => Some ([v], None)
    | None => match ref_pton4 f with
              | Some a => Some ([], Some a)
              | None => None
              end
    end
  | f :: r =>
    match ref_group f, parse_fields r with
    | Some v, Some (vs, q) => Some (v :: vs, q)
    | _, _ => None
    end
  end.

Definition parse_side (s : list N) : option (list N * option N) :=
  match s with
  | [] => Some ([], None)
  | _ => parse_fields (split 58 s)
  end.

(* first occurrence of "::" : (text before, text after) *)
Fixpoint find_dcolon (s : list N) : option (list N * list N) :=
  match s with
  | c1 :: t =>
    match t with
    | c2 :: r =>
      if (c1 =? 58) && (c2 =? 58) then Some ([], r)
      else match find_dcolon t with
           | Some (b, a) => Some (c1 :: b, a)
           | None => None
           end
    | [] => None
    end
  | [] => None
  end.

Definition ref_pton6 (s : list N) : option (list N) :=
  match find_dcolon s with
  | None =>
    match parse_side s with
    | Some (vs, None) => if Nat.eqb (length vs) 8 then Some vs else None
    | Some (vs, Some a) => if Nat.eqb (length vs) 6 then Some (vs ++ [a / 65536; a mod 65536]) else None
    | None => None
    end
  | Some (b, a) =>
    match parse_side b, parse_side a with
    | Some (vpre, None), Some (vpost, None) =>
      if Nat.leb (length vpre + length vpost) 7
      then Some (vpre ++ repeat 0 (8 - length vpre - length vpost) ++ vpost) else None
    | Some (vpre, None), Some (vpost, Some q) =>
      if Nat.leb (length vpre + length vpost) 5
      then Some (vpre ++ repeat 0 (6 - length vpre - length vpost) ++ vpost ++ [q / 65536; q mod 65536])
      else None
    | _, _ => None
    end
  end.
