(* IpProofs6Print.v - C19: the text produced by the model of lrtr_ipv6_addr_to_str is one
   of the RFC 4291 forms and denotes the address that was printed; its length.          *)
From Coq Require Import NArith ZArith List Bool Lia.
From RtrV Require Import Ip.Ipv4Text Ip.Ipv6Text Ip.Grammar Ip.IpProofs4 Ip.IpProofsG Ip.IpProofs6Parse Ip.IpProofs6Accept.
Import ListNotations.
Local Open Scope Z_scope.

(* ---- "%x" of every 16-bit value is a group of the grammar with that value ---- *)
Definition hex_ok (w : N) : bool :=
  Nat.leb 1 (length (hex w)) && Nat.leb (length (hex w)) 4 &&
  match hexvalue (hex w) with Some v => (v =? w)%N | None => false end.

Lemma hex_sweep : forallb hex_ok (nrange 65536) = true.
Proof. vm_compute. reflexivity. Qed.

Lemma hex_group w : (w < 65536)%N -> hexgroup (hex w) w.
Proof.
  intros Hw. pose proof (sweep _ 65536 hex_sweep w Hw) as H. unfold hex_ok in H.
  apply andb_true_iff in H as [H H3]. apply andb_true_iff in H as [H1 H2].
  apply Nat.leb_le in H1, H2. split; [lia|].
  destruct (hexvalue (hex w)) as [v|]; [|discriminate]. apply N.eqb_eq in H3. now subst.
Qed.

Lemma hex_groups ws : Forall (fun w => (w < 65536)%N) ws -> Forall2 hexgroup (map hex ws) ws.
Proof. induction 1; cbn [map]; constructor; auto using hex_group. Qed.

(* ---- the zero-run scan depends on the zero/non-zero pattern only: 256 patterns ---- *)
Definition flags_of (ws : list N) : list bool := map (fun w => negb (w =? 0)%N) ws.

Definition best_flags (fl : list bool) : Z * Z :=
  let r := scan_runs fl 0 runs0 in ((if bestlen r <? 2 then -1 else bestpos r), bestlen r).

Lemma best_run_flags ws : best_run ws = best_flags (flags_of ws).
Proof. reflexivity. Qed.

Definition valid_pairs : list (Z * Z) :=
  flat_map (fun bp => map (fun bl => (Z.of_nat bp, Z.of_nat bl)) (seq 2 (7 - bp))) (seq 0 7).

Definition run_ok (fl : list bool) (p : Z * Z) : bool :=
  let '(bp, bl) := p in
  if bp =? -1 then true
  else existsb (fun q => (fst q =? bp) && (snd q =? bl)) valid_pairs &&
       forallb (fun k => negb (nth k fl true)) (seq (Z.to_nat bp) (Z.to_nat bl)).

Fixpoint all_flags (n : nat) : list (list bool) :=
  match n with
  | O => [[]]
  | S n' => map (cons true) (all_flags n') ++ map (cons false) (all_flags n')
  end.

Lemma all_flags_in fl : In fl (all_flags (length fl)).
Proof.
  induction fl as [|b fl IH]; [left; reflexivity|].
  cbn [length all_flags]. apply in_or_app. destruct b; [left|right]; now apply in_map.
Qed.

Lemma runs_sweep : forallb (fun fl => run_ok fl (best_flags fl)) (all_flags 8) = true.
Proof. vm_compute. reflexivity. Qed.

Lemma best_run_facts ws bp bl : length ws = 8%nat -> best_run ws = (bp, bl) ->
  bp = -1 \/
  (In (bp, bl) valid_pairs /\
   forall k, (Z.to_nat bp <= k < Z.to_nat bp + Z.to_nat bl)%nat -> nth k ws 1%N = 0%N).
Proof.
  intros Hl Hb. rewrite best_run_flags in Hb.
  pose proof runs_sweep as H. rewrite forallb_forall in H.
  specialize (H (flags_of ws)). rewrite Hb in H.
  assert (Hin : In (flags_of ws) (all_flags 8)).
  { replace 8%nat with (length (flags_of ws)) by (unfold flags_of; now rewrite map_length).
    apply all_flags_in. }
  specialize (H Hin). unfold run_ok in H.
  destruct (bp =? -1) eqn:E; [left; now apply Z.eqb_eq|right].
  apply andb_true_iff in H as [H1 H2]. split.
  - apply existsb_exists in H1 as ([x y] & Hin' & Hxy). cbn [fst snd] in Hxy.
    apply andb_true_iff in Hxy as [Hx Hy]. apply Z.eqb_eq in Hx, Hy. now subst.
  - intros k Hk. rewrite forallb_forall in H2. specialize (H2 k).
    assert (Hs : In k (seq (Z.to_nat bp) (Z.to_nat bl))) by (apply in_seq; lia).
    apply H2 in Hs. apply negb_true_iff in Hs. unfold flags_of in Hs.
    change true with ((fun w => negb (w =? 0)%N) 1%N) in Hs. rewrite map_nth in Hs.
    apply negb_false_iff in Hs. now apply N.eqb_eq.
Qed.

(* ---- the formatting loop, with the digit printer abstracted ---------------------- *)
Fixpoint fmt6g (hx : N -> list N) (fuel : nat) (i bp bl : Z) (ws : list N) : option (list N) :=
  match fuel with
  | O => None
  | S f =>
    if 8 <=? i then Some []
    else if i =? bp then
      let i' := i + bl - 1 in
      match fmt6g hx f (i' + 1) bp bl ws with
      | None => None
      | Some t => Some (ch_colon :: (if i' =? 7 then [ch_colon] else []) ++ t)
      end
    else
      match (if i <? 0 then None else nth_error ws (Z.to_nat i)), fmt6g hx f (i + 1) bp bl ws with
      | Some w, Some t => Some ((if i =? 0 then [] else [ch_colon]) ++ hx w ++ t)
      | _, _ => None
      end
  end.

Lemma fmt6_g f : forall i bp bl ws, fmt6 f i bp bl ws = fmt6g hex f i bp bl ws.
Proof.
  induction f as [|f IH]; intros i bp bl ws; [reflexivity|].
  cbn [fmt6 fmt6g]. now rewrite !IH.
Qed.

(* right-nested concatenation of fields, in the association the loop produces *)
Fixpoint joinr (gs : list (list N)) (tail : list N) : list N :=
  match gs with
  | [] => tail
  | [g] => g ++ tail
  | g :: r => g ++ 58%N :: joinr r tail
  end.

Lemma join_joinr gs tail : join gs ++ tail = joinr gs tail.
Proof.
  induction gs as [|g gs IH]; [reflexivity|].
  destruct gs as [|g2 gs]; [reflexivity|].
  change (join (g :: g2 :: gs)) with (g ++ 58%N :: join (g2 :: gs)).
  change (joinr (g :: g2 :: gs) tail) with (g ++ 58%N :: joinr (g2 :: gs) tail).
  rewrite <- IH. now rewrite <- app_assoc.
Qed.

Lemma fmt_plain hx bl w0 w1 w2 w3 w4 w5 w6 w7 :
  fmt6g hx 9 0 (-1) bl [w0; w1; w2; w3; w4; w5; w6; w7] =
  Some (joinr (map hx [w0; w1; w2; w3; w4; w5; w6; w7]) []).
Proof. vm_compute. reflexivity. Qed.

Lemma fmt_comp hx bp bl w0 w1 w2 w3 w4 w5 w6 w7 : In (bp, bl) valid_pairs ->
  let ws := [w0; w1; w2; w3; w4; w5; w6; w7] in
  fmt6g hx 9 0 bp bl ws =
  Some (joinr (map hx (firstn (Z.to_nat bp) ws))
              (58%N :: 58%N :: joinr (map hx (skipn (Z.to_nat (bp + bl)) ws)) [])).
Proof.
  intros H ws. subst ws. vm_compute in H.
  repeat (destruct H as [H|H]; [injection H as <- <-; vm_compute; reflexivity|]).
  contradiction.
Qed.

(* ---- arithmetic of a[k] = words[2k] << 16 | words[2k+1] --------------------------- *)
Lemma pair16 hi lo : (lo < 65536)%N ->
  ((hi * 65536 + lo) / 65536 = hi /\ (hi * 65536 + lo) mod 65536 = lo)%N.
Proof.
  intros H. split.
  - rewrite N.div_add_l by discriminate. rewrite N.div_small by assumption. lia.
  - rewrite N.add_comm, N.mod_add by discriminate. now apply N.mod_small.
Qed.

Lemma pair16_lt hi lo : (hi < 65536)%N -> (lo < 65536)%N -> (hi * 65536 + lo < 2 ^ 32)%N.
Proof. intros. change (2 ^ 32)%N with 4294967296%N. lia. Qed.

Lemma hexgroup_ffff : hexgroup [102; 102; 102; 102]%N 65535.
Proof. split; [cbn; lia|reflexivity]. Qed.

(* ---- main lemma -------------------------------------------------------------------- *)
Ltac zero_words Hz :=
  let go k := try (let Hk := fresh "Hk" in
                   assert (Hk := Hz k ltac:(cbn; lia)); cbn [nth] in Hk; subst) in
  go 0%nat; go 1%nat; go 2%nat; go 3%nat; go 4%nat; go 5%nat; go 6%nat; go 7%nat.

Lemma out_in_grammar6 ws : length ws = 8%nat -> Forall (fun w => (w < 65536)%N) ws ->
  exists t, ipv6_text ws = Some t /\ denotes6 t ws.
Proof.
  intros Hl Hb.
  destruct ws as [|w0 [|w1 [|w2 [|w3 [|w4 [|w5 [|w6 [|w7 [|]]]]]]]]]; try discriminate Hl.
  unfold ipv6_text.
  destruct (best_run [w0; w1; w2; w3; w4; w5; w6; w7]) as [bp bl] eqn:Eb.
  pose proof (best_run_facts _ _ _ Hl Eb) as Hf.
  destruct ((bp =? 0) && ((bl =? 5) && (w4 * 65536 + w5 =? 65535)%N || (bl =? 6))) eqn:Ec.
  - (* embedded IPv4 form *)
    apply andb_true_iff in Ec as [E0 Ec]. apply Z.eqb_eq in E0. subst bp.
    destruct Hf as [Hf|[_ Hz]]; [discriminate|].
    inversion Hb as [|? ? B0 Hb1]; inversion Hb1 as [|? ? B1 Hb2]; inversion Hb2 as [|? ? B2 Hb3];
      inversion Hb3 as [|? ? B3 Hb4]; inversion Hb4 as [|? ? B4 Hb5]; inversion Hb5 as [|? ? B5 Hb6];
      inversion Hb6 as [|? ? B6 Hb7]; inversion Hb7 as [|? ? B7 _]; subst.
    destruct (pair16 w6 w7 B7) as [Ehi Elo].
    pose proof (out_in_grammar4 _ (pair16_lt _ _ B6 B7)) as Hq.
    apply orb_true_iff in Ec as [Ec|Ec].
    + apply andb_true_iff in Ec as [E5 Ea]. apply Z.eqb_eq in E5. subst bl.
      zero_words Hz. apply N.eqb_eq in Ea. assert (w5 = 65535%N) by lia. subst w5.
      eexists. split; [reflexivity|]. change (0 * 65536 + 65535 =? 0)%N with false. cbv iota.
      pose proof (D6_comp4 [] [[102; 102; 102; 102]%N] [] [65535%N] _ _
                   (Forall2_nil _) (Forall2_cons _ _ hexgroup_ffff (Forall2_nil _)) Hq ltac:(cbn; lia)) as D.
      cbn [join app length Nat.sub repeat] in D. rewrite Ehi, Elo in D. exact D.
    + apply Z.eqb_eq in Ec. subst bl. zero_words Hz.
      eexists. split; [reflexivity|]. change (0 * 65536 + 0 =? 0)%N with true. cbv iota.
      pose proof (D6_comp4 [] [] [] [] _ _ (Forall2_nil _) (Forall2_nil _) Hq ltac:(cbn; lia)) as D.
      cbn [join app length Nat.sub repeat] in D. rewrite Ehi, Elo in D. exact D.
  - (* normal formatting *)
    rewrite fmt6_g. destruct Hf as [->|[Hin Hz]].
    + rewrite fmt_plain. eexists. split; [reflexivity|].
      rewrite <- join_joinr, app_nil_r. apply D6_full; [now apply hex_groups|reflexivity].
    + rewrite (fmt_comp hex bp bl _ _ _ _ _ _ _ _ Hin). eexists. split; [reflexivity|].
      rewrite <- !join_joinr, app_nil_r.
      pose proof Hin as Hin'. vm_compute in Hin'.
      repeat (destruct Hin' as [Hin'|Hin'];
              [injection Hin' as <- <-; zero_words Hz;
               match goal with
               | |- denotes6 (join (map hex ?pre) ++ _ :: _ :: join (map hex ?post)) _ =>
                 let pre' := eval vm_compute in pre in
                 let post' := eval vm_compute in post in
                 change pre with pre'; change post with post';
                 refine (D6_comp (map hex pre') (map hex post') pre' post' _ _ _);
                 [apply hex_groups; repeat (apply Forall_cons; [solve [inversion Hb; subst; repeat (match goal with H : Forall _ (_ :: _) |- _ => inversion H; subst; clear H end); assumption]|]); apply Forall_nil
                 |apply hex_groups; repeat (apply Forall_cons; [solve [inversion Hb; subst; repeat (match goal with H : Forall _ (_ :: _) |- _ => inversion H; subst; clear H end); assumption]|]); apply Forall_nil
                 |cbn; lia]
               end|]).
      contradiction.
Qed.

(* ---- round trip -------------------------------------------------------------------- *)
Lemma rt6 strict ws : length ws = 8%nat -> Forall (fun w => (w < 65536)%N) ws ->
  exists t, ipv6_text ws = Some t /\ str_to_ipv6_gen strict t = POk (map Some ws).
Proof.
  intros Hl Hb. destruct (out_in_grammar6 ws Hl Hb) as (t & Ht & Hd).
  exists t. split; [exact Ht|]. now apply accepts6.
Qed.

(* ---- length of the text ------------------------------------------------------------ *)
Lemma groups_colon_len gs vs : Forall2 hexgroup gs vs ->
  (length (groups_colon gs) <= 5 * length gs)%nat.
Proof.
  induction 1 as [|g v gs vs [Hg _] HF IH]; [cbn; lia|].
  pose proof (groups_colon_cons g gs []) as E. rewrite !app_nil_r in E. rewrite E.
  rewrite app_length. cbn [length]. lia.
Qed.

Lemma join_len gs vs : Forall2 hexgroup gs vs -> (length (join gs) <= 5 * length gs)%nat.
Proof.
  intros HF. destruct gs as [|g gs]; [cbn; lia|].
  assert (Hne : g :: gs <> []) by discriminate.
  destruct (exists_last Hne) as (g0 & x & E). rewrite E in *.
  apply Forall2_snoc_inv in HF as (m & y & -> & HF & [Hx _]).
  rewrite join_snoc, !app_length. pose proof (groups_colon_len _ _ HF). cbn [length]. lia.
Qed.

Lemma denotes4_len q a : denotes4 q a -> (length q <= 15)%nat.
Proof.
  intros [o0 o1 o2 o3 ? ? ? ? (H0 & _) (H1 & _) (H2 & _) (H3 & _)].
  repeat (rewrite app_length; cbn [length]). lia.
Qed.

Lemma denotes6_len t ws : denotes6 t ws -> (length t <= 45)%nat.
Proof.
  intros [gs vs HF Hlen | gs vs q a HF Hlen Hq
          | pre post vpre vpost HFa HFb Hlen | pre post vpre vpost q a HFa HFb Hq Hlen].
  - pose proof (join_len _ _ HF). lia.
  - rewrite join_snoc, app_length. pose proof (groups_colon_len _ _ HF). pose proof (denotes4_len _ _ Hq). lia.
  - rewrite app_length. cbn [length]. pose proof (join_len _ _ HFa). pose proof (join_len _ _ HFb). lia.
  - rewrite app_length. cbn [length]. rewrite join_snoc, app_length.
    pose proof (join_len _ _ HFa). pose proof (groups_colon_len _ _ HFb). pose proof (denotes4_len _ _ Hq). lia.
Qed.

(* lrtr_ipv6_addr_to_str: refuses buffers below INET6_ADDRSTRLEN and stores nothing; otherwise
   stores the text and its NUL, at most 46 bytes, hence never more than len *)
Lemma bounds6 ws len : length ws = 8%nat -> Forall (fun w => (w < 65536)%N) ws ->
  exists rc out, ipv6_to_str ws len = Some (rc, out) /\
    (N.of_nat (length out) <= len)%N /\
    ((len < 46)%N -> rc = -1 /\ out = []) /\
    ((46 <= len)%N -> rc = 0 /\ exists t, ipv6_text ws = Some t /\ out = t ++ [0%N]).
Proof.
  intros Hl Hb. unfold ipv6_to_str, INET6_ADDRSTRLEN.
  destruct (len <? 46)%N eqn:E.
  - apply N.ltb_lt in E. exists (-1), []. repeat split; try (cbn [length]; lia).
  - apply N.ltb_ge in E. destruct (out_in_grammar6 ws Hl Hb) as (t & Ht & Hd).
    rewrite Ht. exists 0, (t ++ [0%N]). pose proof (denotes6_len _ _ Hd).
    split; [reflexivity|]. split; [rewrite app_length; cbn [length]; lia|].
    split; [lia|]. intros _. split; [reflexivity|]. now exists t.
Qed.

Example to6_nonvacuous :
  ipv6_text [1; 0; 0; 2; 0; 0; 3; 4]%N = Some [49; 58; 58; 50; 58; 48; 58; 48; 58; 51; 58; 52]%N /\
  ipv6_text [0; 0; 0; 0; 0; 65535; 49152; 640]%N =
    Some [58; 58; 102; 102; 102; 102; 58; 49; 57; 50; 46; 48; 46; 50; 46; 49; 50; 56]%N.
Proof. vm_compute. split; reflexivity. Qed.

(* non-vacuity of the grammar hypotheses: concrete texts of each form are in the relation, are
   accepted with the value denoted, and a text with "::" satisfies the hypothesis of
   deterministic_with_dcolon *)
Example grammar_nonvacuous :
  denotes6 [58; 58; 102; 102; 102; 102; 58; 49; 46; 50; 46; 51; 46; 52]%N [0; 0; 0; 0; 0; 65535; 258; 772]%N /\
  denotes6 [49; 58; 50; 58; 51; 58; 52; 58; 53; 58; 54; 58; 55; 58; 56]%N [1; 2; 3; 4; 5; 6; 7; 8]%N /\
  denotes6 [65; 98; 58; 58; 48; 48; 49]%N [171; 0; 0; 0; 0; 0; 0; 1]%N /\
  denotes4 [49; 46; 50; 46; 51; 46; 52]%N 16909060%N /\
  str_to_ip [65; 98; 58; 58; 48; 48; 49]%N = IV6 (map Some [171; 0; 0; 0; 0; 0; 0; 1]%N) /\
  find_dcolon [65; 98; 58; 58; 48; 48; 49]%N <> None.
Proof.
  repeat split; try (apply ref_pton6_sound; vm_compute; reflexivity);
    try (apply ref_pton4_sound; vm_compute; reflexivity); vm_compute; congruence.
Qed.
