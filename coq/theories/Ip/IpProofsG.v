(* IpProofsG.v - C19: the executable reference parsers of Grammar.v (the ones compared with the
   platform's inet_pton on every run) only accept texts of the grammar, with that value.      *)
From Coq Require Import NArith PeanoNat List Bool Lia.
From RtrV Require Import Ip.Grammar.
Import ListNotations.
Local Open Scope N_scope.

Fixpoint join_sep (sep : N) (fs : list (list N)) : list N :=
  match fs with
  | [] => []
  | [f] => f
  | f :: r => f ++ sep :: join_sep sep r
  end.

Lemma join_is_join_sep gs : join gs = join_sep 58 gs.
Proof. induction gs as [|g [|g2 gs] IH]; try reflexivity. cbn [join join_sep] in *. now rewrite IH. Qed.

Lemma split_nonempty sep s : split sep s <> [].
Proof.
  destruct s as [|c r]; [discriminate|]. cbn [split].
  destruct (c =? sep); [discriminate|]. destruct (split sep r); discriminate.
Qed.

Lemma join_split sep s : join_sep sep (split sep s) = s.
Proof.
  induction s as [|c r IH]; [reflexivity|]. cbn [split].
  pose proof (split_nonempty sep r) as Hne.
  destruct (split sep r) as [|f fs] eqn:E; [contradiction|].
  destruct (c =? sep) eqn:Ec.
  - apply N.eqb_eq in Ec. subst c.
    change (join_sep sep ([] :: f :: fs)) with ([] ++ sep :: join_sep sep (f :: fs)).
    now rewrite IH.
  - destruct fs as [|f2 fs].
    + cbn [join_sep] in *. now rewrite IH.
    + change (join_sep sep ((c :: f) :: f2 :: fs)) with (c :: (f ++ sep :: join_sep sep (f2 :: fs))).
      change (join_sep sep (f :: f2 :: fs)) with (f ++ sep :: join_sep sep (f2 :: fs)) in IH.
      now rewrite IH.
Qed.

Lemma ref_octet_sound o b : ref_octet o = Some b -> octet o b.
Proof.
  unfold ref_octet. destruct o as [|c o']; [discriminate|].
  destruct (forallb dec_char (c :: o') && Nat.leb (length (c :: o')) 3 &&
            (negb (c =? 48) || Nat.eqb (length (c :: o')) 1)) eqn:E; [|discriminate].
  apply andb_true_iff in E as [E _]. apply andb_true_iff in E as [E1 E2]. apply Nat.leb_le in E2.
  destruct (decval (c :: o') <=? 255) eqn:E3; [|discriminate]. apply N.leb_le in E3.
  intros [= <-]. repeat split; try assumption. cbn [length]. lia.
Qed.

Lemma ref_pton4_sound s a : ref_pton4 s = Some a -> denotes4 s a.
Proof.
  unfold ref_pton4. pose proof (join_split 46 s) as Hs.
  destruct (split 46 s) as [|o0 [|o1 [|o2 [|o3 [|]]]]]; try discriminate.
  destruct (ref_octet o0) as [b0|] eqn:E0; [|discriminate].
  destruct (ref_octet o1) as [b1|] eqn:E1; [|discriminate].
  destruct (ref_octet o2) as [b2|] eqn:E2; [|discriminate].
  destruct (ref_octet o3) as [b3|] eqn:E3; [|discriminate].
  intros [= <-]. cbn [join_sep] in Hs. rewrite <- Hs.
  apply D4; now apply ref_octet_sound.
Qed.

Lemma ref_group_sound g v : ref_group g = Some v -> hexgroup g v.
Proof.
  unfold ref_group. destruct (Nat.leb 1 (length g) && Nat.leb (length g) 4) eqn:E; [|discriminate].
  apply andb_true_iff in E as [E1 E2]. apply Nat.leb_le in E1, E2. intros H. split; [lia|exact H].
Qed.

Lemma parse_fields_sound fs : forall vs oq, parse_fields fs = Some (vs, oq) ->
  match oq with
  | None => Forall2 hexgroup fs vs
  | Some a => exists gs q, fs = gs ++ [q] /\ Forall2 hexgroup gs vs /\ denotes4 q a
  end.
Proof.
  induction fs as [|f r IH]; intros vs oq H; [discriminate|].
  destruct r as [|f2 r'].
  - cbn [parse_fields] in H. destruct (ref_group f) as [v|] eqn:Eg.
    + injection H as <- <-. constructor; [now apply ref_group_sound|constructor].
    + destruct (ref_pton4 f) as [a|] eqn:E4; [|discriminate]. injection H as <- <-.
      exists [], f. repeat split; [constructor|now apply ref_pton4_sound].
  - change (parse_fields (f :: f2 :: r')) with
      (match ref_group f, parse_fields (f2 :: r') with
       | Some v, Some (vs, q) => Some (v :: vs, q)
       | _, _ => None
       end) in H.
    destruct (ref_group f) as [v|] eqn:Eg; [|discriminate].
    destruct (parse_fields (f2 :: r')) as [[vs' q]|] eqn:Ep; [|discriminate].
    injection H as <- <-. specialize (IH _ _ eq_refl). apply ref_group_sound in Eg.
    destruct q as [a|].
    + destruct IH as (gs & q & E & HF & Hq). exists (f :: gs), q. rewrite E.
      repeat split; [constructor; assumption|assumption].
    + constructor; assumption.
Qed.

Lemma parse_side_sound s vs oq : parse_side s = Some (vs, oq) ->
  match oq with
  | None => exists gs, s = join gs /\ Forall2 hexgroup gs vs
  | Some a => exists gs q, s = join (gs ++ [q]) /\ Forall2 hexgroup gs vs /\ denotes4 q a
  end.
Proof.
  unfold parse_side. destruct s as [|c r] eqn:Es.
  - intros [= <- <-]. exists []. split; [reflexivity|constructor].
  - rewrite <- Es. intros H. apply parse_fields_sound in H.
    pose proof (join_split 58 s) as Hj. rewrite <- join_is_join_sep in Hj.
    destruct oq as [a|].
    + destruct H as (gs & q & E & HF & Hq). exists gs, q. rewrite <- E. auto.
    + exists (split 58 s). auto.
Qed.

Lemma find_dcolon_sound s : forall b a, find_dcolon s = Some (b, a) -> s = b ++ 58 :: 58 :: a.
Proof.
  induction s as [|c1 t IH]; intros b a H; [discriminate|].
  cbn [find_dcolon] in H. destruct t as [|c2 r]; [discriminate|].
  destruct ((c1 =? 58) && (c2 =? 58)) eqn:E.
  - apply andb_true_iff in E as [E1 E2]. apply N.eqb_eq in E1, E2. subst. now injection H as <- <-.
  - destruct (find_dcolon (c2 :: r)) as [[b' a']|] eqn:Ef; [|discriminate].
    injection H as <- <-. cbn [app]. f_equal. now apply IH.
Qed.

Lemma F2_len {A B} (R : A -> B -> Prop) l l' : Forall2 R l l' -> length l = length l'.
Proof. induction 1; cbn [length]; congruence. Qed.

Lemma ref_pton6_sound s ws : ref_pton6 s = Some ws -> denotes6 s ws.
Proof.
  unfold ref_pton6. destruct (find_dcolon s) as [[b a]|] eqn:Ef.
  - apply find_dcolon_sound in Ef. subst s.
    destruct (parse_side b) as [[vpre [qa|]]|] eqn:Eb; try discriminate.
    apply parse_side_sound in Eb as (pre & -> & HFa). pose proof (F2_len _ _ _ HFa) as La.
    destruct (parse_side a) as [[vpost [q|]]|] eqn:Ea; try discriminate.
    + apply parse_side_sound in Ea as (post & qt & -> & HFb & Hq). pose proof (F2_len _ _ _ HFb) as Lb.
      destruct (Nat.leb (length vpre + length vpost) 5) eqn:E; [|discriminate].
      apply Nat.leb_le in E. intros [= <-]. rewrite <- La, <- Lb. apply D6_comp4; try assumption. lia.
    + apply parse_side_sound in Ea as (post & -> & HFb). pose proof (F2_len _ _ _ HFb) as Lb.
      destruct (Nat.leb (length vpre + length vpost) 7) eqn:E; [|discriminate].
      apply Nat.leb_le in E. intros [= <-]. rewrite <- La, <- Lb. apply D6_comp; try assumption. lia.
  - destruct (parse_side s) as [[vs [a|]]|] eqn:Es; try discriminate.
    + apply parse_side_sound in Es as (gs & q & -> & HF & Hq). pose proof (F2_len _ _ _ HF) as L.
      destruct (Nat.eqb (length vs) 6) eqn:E; [|discriminate]. apply Nat.eqb_eq in E.
      intros [= <-]. apply D6_full4; try assumption. lia.
    + apply parse_side_sound in Es as (gs & -> & HF). pose proof (F2_len _ _ _ HF) as L.
      destruct (Nat.eqb (length vs) 8) eqn:E; [|discriminate]. apply Nat.eqb_eq in E.
      intros [= <-]. apply D6_full; try assumption. lia.
Qed.

Example ref_nonvacuous :
  ref_pton6 [58; 58; 102; 102; 102; 102; 58; 49; 46; 50; 46; 51; 46; 52] = Some [0; 0; 0; 0; 0; 65535; 258; 772] /\
  ref_pton6 [49; 58; 50; 58; 51] = None /\ ref_pton4 [48; 49; 46; 50; 46; 51; 46; 52] = None.
Proof. vm_compute. repeat split. Qed.
