(* AllocModel.v - C18: the table operations of trie-pfx.c, ht-spkitable.c (+ tommyhashlin.c) and the
   store/apply part of rtr_sync_receive_and_store_pdus, re-expressed over an allocator state: every
   allocation and release site of the C is an action, in the C's order, tagged with the entry point the C
   calls there (the configured allocator through lrtr_* / tommy_*, or libc directly).

   State:  fail_at  the allocation call (1-based, counted from ctr = 0) that fails, if any
           ctr      allocation calls so far (malloc and realloc; frees are not counted)
           live     the blocks that are allocated, by class (one entry per block; blocks of one class are
                    interchangeable for the allocator, the model's tables carry no addresses)
           rlog     the events so far, most recent first
           corrupt  a release of a block that is not allocated happened (double free / dangling pointer)
   Outcome: [Val a s] or [Crash s] (the C dereferences the NULL it did not check for).

   What the C does when an allocation fails is written at the site: error return with the C's cleanup,
   restore (pfx_table_del_elem), or [crash] where the C does not look at the result.  Seven sites are
   defective at the pinned commit; [variant] carries one switch per site (false = the code as it is, true =
   the code after the proposed repair, /verif/proposed_fixes/C18-*.diff), tools/props/C18.py determines on
   every run which value /repo's code matches.

   On success every operation returns the value of the PURE operation of Pfx/PfxTable.v resp.
   Spki/SpkiModel.v (the theorems of C02/C09/C10 are about those); the allocation plan in front of it is
   written after the C and tied to it by the correspondence run (return code, contents, event kinds in order).
   Definitions only. *)
From Coq Require Import List Arith NArith ZArith Bool Lia.
From RtrV Require Pfx.TrieModel Pfx.PfxTable Spki.Hashlin Spki.SpkiModel.
Import ListNotations.

(* ------------------------------------------------------------------------------------------------ *)
(* block classes = allocation sites *)
Inductive cls :=
| PNode      (* struct trie_node          pfx_table_create_node                    *)
| PData      (* struct node_data          pfx_table_create_node                    *)
| PAry       (* data_elem array           pfx_table_append_elem / pfx_table_del_elem *)
| PReason    (* reason array              pfx_table_validate_r                     *)
| PChildren  (* node pointer array        trie_get_children                        *)
| KEntry     (* struct key_entry          spki_table_add_entry                     *)
| HSeg       (* bucket segment            tommy_hashlin_init / hashlin_grow_step   *)
| KRes       (* result array              spki_table_get_all / spki_table_search_by_ski *)
| Arr4 | Arr6 | ArrK   (* temporary PDU arrays   rtr_store_prefix_pdu / rtr_store_router_key_pdu *)
| ShPfx | ShSpki.      (* shadow table objects   rtr_sync_receive_and_store_pdus  *)

Definition cls_eqb (a b : cls) : bool :=
  match a, b with
  | PNode, PNode | PData, PData | PAry, PAry | PReason, PReason | PChildren, PChildren | KEntry, KEntry
  | HSeg, HSeg | KRes, KRes | Arr4, Arr4 | Arr6, Arr6 | ArrK, ArrK | ShPfx, ShPfx | ShSpki, ShSpki => true
  | _, _ => false
  end.

(* the entry point a release goes through *)
Inductive via := ViaCfg | ViaLibc.

Inductive ev :=
| EvM (c : cls) (ok : bool)      (* malloc / calloc through the configured allocator *)
| EvR0 (c : cls) (ok : bool)     (* realloc(NULL, ..) *)
| EvR (c : cls) (ok : bool)      (* realloc(p, ..), p a live block *)
| EvF (c : cls) (v : via)        (* release of a live block *)
| EvX (c : cls).                 (* release / realloc of a block that is not live *)

Record ast := mkA { fail_at : option nat; ctr : nat; live : list cls; rlog : list ev; corrupt : bool }.

Inductive res (A : Type) := Val (a : A) (s : ast) | Crash (s : ast).
Arguments Val {A}.
Arguments Crash {A}.

Definition M (A : Type) := ast -> res A.
Definition ret {A} (a : A) : M A := fun s => Val a s.
Definition bind {A B} (m : M A) (f : A -> M B) : M B :=
  fun s => match m s with Val a s1 => f a s1 | Crash s1 => Crash s1 end.
Notation "'mdo' x <- m ;; k" := (bind m (fun x => k)) (at level 200, x pattern, m at level 100, k at level 200, right associativity).
Definition crash {A} : M A := fun s => Crash s.

Definition fails (s : ast) : bool :=
  match fail_at s with Some k => Nat.eqb (S (ctr s)) k | None => false end.

Fixpoint remove1 (c : cls) (l : list cls) : list cls :=
  match l with [] => [] | x :: r => if cls_eqb c x then r else x :: remove1 c r end.
Definition has (c : cls) (l : list cls) : bool := existsb (cls_eqb c) l.

(* an allocation call; [true] = a block was obtained *)
Definition alloc_gen (e : bool -> ev) (c : cls) : M bool := fun s =>
  if fails s then Val false (mkA (fail_at s) (S (ctr s)) (live s) (e false :: rlog s) (corrupt s))
  else Val true (mkA (fail_at s) (S (ctr s)) (c :: live s) (e true :: rlog s) (corrupt s)).
Definition malloc (c : cls) : M bool := alloc_gen (EvM c) c.
Definition realloc0 (c : cls) : M bool := alloc_gen (EvR0 c) c.
(* realloc of an existing block: one block of the class before, one after (moved or not); on failure the
   old block stays.  A realloc of a block that is not allocated is recorded (EvX, corrupt); it does not
   happen under the invariants of AllocProofs.v *)
Definition realloc (c : cls) : M bool := fun s =>
  let bad := negb (has c (live s)) in
  let l := if bad then EvX c :: rlog s else rlog s in
  if fails s then Val false (mkA (fail_at s) (S (ctr s)) (live s) (EvR c false :: l) (corrupt s || bad))
  else Val true (mkA (fail_at s) (S (ctr s)) (live s) (EvR c true :: l) (corrupt s || bad)).
Definition free (v : via) (c : cls) : M unit := fun s =>
  if has c (live s) then Val tt (mkA (fail_at s) (ctr s) (remove1 c (live s)) (EvF c v :: rlog s) (corrupt s))
  else Val tt (mkA (fail_at s) (ctr s) (live s) (EvX c :: rlog s) true).
(* an allocation made by the application around an operation (not part of the operation's own sequence):
   no fault, no event *)
Definition quiet_alloc (c : cls) : M unit := fun s =>
  Val tt (mkA (fail_at s) (ctr s) (c :: live s) (rlog s) (corrupt s)).

Definition when (b : bool) (m : M unit) : M unit := if b then m else ret tt.

Fixpoint repeat_m (n : nat) (m : M unit) : M unit :=
  match n with O => ret tt | S k => mdo _ <- m ;; repeat_m k m end.

(* one switch per defective site: false = as the code is at the pinned commit *)
Record variant := mkV {
  shrink_ok : bool;      (* pfx_table_del_elem: a failed shrinking realloc is not an error (the block is kept) *)
  grow_checked : bool;   (* hashlin_grow_step: the segment malloc is checked; no grow when it fails *)
  init_checked : bool;   (* spki_table_init reports a failed tommy_hashlin_init *)
  free_cfg : bool;       (* spki_table_free(_without_notify) release entries with lrtr_free *)
  reason_tmp : bool;     (* pfx_table_validate_r reallocs into a temporary; the old array is released on failure *)
  children_once : bool;  (* trie_get_children: *array = NULL after the release on the error path *)
  result_null : bool }.  (* spki_table_get_all / search_by_ski: *result = NULL after the release on the error path *)
Definition as_is : variant := mkV false false false false false false false.
Definition repaired : variant := mkV true true true true true true true.

(* ================================================================================================ *)
Module PfxA.
Import RtrV.Pfx.TrieModel RtrV.Pfx.PfxTable.

(* trie_lookup_exact + "found": the payload of the node with exactly this key, along add's own descent *)
Fixpoint find_payload (t : trie) (lvl : nat) (p : addr) (len : nat) : option (list elem) :=
  match t with
  | Leaf => None
  | Node q ql qd l r =>
    if len <? ql then None
    else if (ql =? len) && addr_eqb q p then Some qd
    else if bit p lvl then find_payload r (S lvl) p len else find_payload l (S lvl) p len
  end.

(* the same descent, replacing that node's payload *)
Fixpoint set_payload (t : trie) (lvl : nat) (p : addr) (len : nat) (d : list elem) : trie :=
  match t with
  | Leaf => Leaf
  | Node q ql qd l r =>
    if len <? ql then t
    else if (ql =? len) && addr_eqb q p then Node q ql d l r
    else if bit p lvl then Node q ql qd l (set_payload r (S lvl) p len d)
         else Node q ql qd (set_payload l (S lvl) p len d) r
  end.

(* pfx_table_create_node: three allocations, unwinding in reverse *)
Definition create_node_m : M bool :=
  mdo a <- malloc PNode ;;
  if negb a then ret false else
  mdo b <- malloc PData ;;
  if negb b then mdo _ <- free ViaCfg PNode ;; ret false else
  mdo c <- realloc0 PAry ;;            (* pfx_table_append_elem on the empty node_data *)
  if negb c then mdo _ <- free ViaCfg PData ;; mdo _ <- free ViaCfg PNode ;; ret false else ret true.

(* pfx_table_add *)
Definition tadd_m (T : table) (r : frecord) : M (table * rc * list cb) :=
  let '(v6, p, len, e) := r in
  match find_payload (root T v6) 0 p len with
  | Some d =>
    if existsb (elem_eqb e) d then ret (tadd T r)             (* PFX_DUPLICATE_RECORD: no allocation *)
    else mdo ok <- (match d with [] => realloc0 PAry | _ => realloc PAry end) ;;   (* pfx_table_append_elem *)
         if ok then ret (tadd T r) else ret (T, ERROR, [])
  | None =>
    mdo ok <- create_node_m ;;
    if ok then ret (tadd T r) else ret (T, ERROR, [])
  end.

(* pfx_table_remove.  pfx_table_del_elem shifts the later elements down first; when the shrinking realloc
   fails it puts the deleted element back AT THE END (the array is a permutation of what it was). *)
Definition tremove_m (v : variant) (T : table) (r : frecord) : M (table * rc * list cb) :=
  let '(v6, p, len, e) := r in
  match find_payload (root T v6) 0 p len with
  | None => ret (tremove T r)
  | Some d =>
    if existsb (elem_eqb e) d then
      match remove_first e d with
      | [] => mdo _ <- free ViaCfg PAry ;;                         (* del_elem: last element *)
              mdo _ <- free ViaCfg PData ;; mdo _ <- free ViaCfg PNode ;;   (* after trie_remove *)
              ret (tremove T r)
      | d' => mdo ok <- realloc PAry ;;
              if ok || shrink_ok v then ret (tremove T r)
              else ret (set_root T v6 (set_payload (root T v6) 0 p len (d' ++ [e])), ERROR, [])
      end
    else ret (tremove T r)
  end.

(* the loop of pfx_table_remove_id over one node's array:
     for (i = 0; i < len; i++) while (len > i && ary[i].socket == socket) del_elem(i), notify
   [pre] = the elements before i (kept), [post] = from i on.  Result: the array afterwards, the records
   notified as removed (in order), and whether del_elem failed. *)
Fixpoint del_loop (v : variant) (s : N) (pre post : list elem) : M (list elem * list elem * bool) :=
  match post with
  | [] => ret (pre, [], true)
  | x :: post' =>
    if (e_src x =? s)%N then
      match pre ++ post' with
      | [] => mdo _ <- free ViaCfg PAry ;; ret ([], [x], true)
      | _ => mdo ok <- realloc PAry ;;
             if ok || shrink_ok v then
               mdo z <- del_loop v s pre post' ;;
               let '(d, gone, fine) := z in ret (d, x :: gone, fine)
             else ret (pre ++ post' ++ [x], [], false)
      end
    else del_loop v s (pre ++ [x]) post'
  end.

(* pfx_table_remove_id, with the shape of TrieModel.remove_id; third component false = PFX_ERROR
   (the traversal stopped where del_elem failed; what was removed before stays removed) *)
Fixpoint remove_id_m (v : variant) (fuel : nat) (t : trie) (s : N) : M (option (trie * list record * bool)) :=
  match fuel, t with
  | _, Leaf => ret (Some (Leaf, [], true))
  | 0, _ => ret None
  | S f, Node q ql qd l r =>
    mdo z <- del_loop v s [] qd ;;
    let '(d', gone0, fine) := z in
    let gone := map (fun e => (q, ql, e)) gone0 in
    if negb fine then ret (Some (Node q ql d' l r, gone, false)) else
    match d' with
    | [] => mdo _ <- free ViaCfg PData ;; mdo _ <- free ViaCfg PNode ;;       (* trie_remove, then the two releases *)
            mdo y <- remove_id_m v f (pull t) s ;;
            match y with
            | Some (t', cbs, fine') => ret (Some (t', gone ++ cbs, fine'))
            | None => ret None
            end
    | _ => mdo yl <- remove_id_m v f l s ;;
           match yl with
           | Some (l', cl, finel) =>
             if negb finel then ret (Some (Node q ql d' l' r, gone ++ cl, false)) else
             mdo yr <- remove_id_m v f r s ;;
             match yr with
             | Some (r', cr, finer) => ret (Some (Node q ql d' l' r', gone ++ cl ++ cr, finer))
             | None => ret None
             end
           | None => ret None
           end
    end
  end.

(* pfx_table_src_remove: IPv4 trie, then IPv6 trie; stops at the first PFX_ERROR *)
Definition tsrc_remove_m (v : variant) (T : table) (s : N) : M (option (table * rc * list cb)) :=
  mdo y4 <- remove_id_m v (size (t4 T)) (t4 T) s ;;
  match y4 with
  | None => ret None
  | Some (a, ca, fine4) =>
    let c4 := map (fun r => Removed (tag false r)) ca in
    if negb fine4 then ret (Some (mkT a (t6 T), ERROR, c4)) else
    mdo y6 <- remove_id_m v (size (t6 T)) (t6 T) s ;;
    match y6 with
    | None => ret None
    | Some (b, cb6, fine6) =>
      ret (Some (mkT a b, if fine6 then SUCCESS else ERROR, c4 ++ map (fun r => Removed (tag true r)) cb6))
    end
  end.

(* pfx_table_free: per removed node ary, node_data, node *)
Definition tfree_m (T : table) : M (option (list cb)) :=
  mdo _ <- repeat_m (size (t4 T) + size (t6 T)) (mdo _ <- free ViaCfg PAry ;; mdo _ <- free ViaCfg PData ;; free ViaCfg PNode) ;;
  ret (tfree T).

(* pfx_table_validate_r with a reason array: one (re)allocation per covering node visited by [val] *)
Fixpoint val_allocs (t : trie) (lvl : nat) (asn : N) (q : addr) (qlen : nat) : nat :=
  match t with
  | Leaf => 0
  | Node p len d l r =>
    let child := if bit q lvl then r else l in
    if covers p len q qlen
    then S (if existsb (matches asn qlen) d then 0 else val_allocs child (S lvl) asn q qlen)
    else val_allocs child (S lvl) asn q qlen
  end.

(* [held] = the caller's array exists already.  false = PFX_ERROR.  On failure the code as it is overwrites
   *reason with NULL before looking at it: the old array stays allocated and nobody can release it *)
Fixpoint reason_loop (v : variant) (n : nat) (held : bool) : M bool :=
  match n with
  | O => ret true
  | S k =>
    mdo ok <- (if held then realloc PReason else realloc0 PReason) ;;
    if ok then reason_loop v k true
    else mdo _ <- when (held && reason_tmp v) (free ViaCfg PReason) ;; ret false
  end.

(* the operation as the application uses it: validate, look at the reasons, release the array *)
Definition tvalidate_m (v : variant) (T : table) (v6 : bool) (asn : N) (q : addr) (qlen : nat)
  : M (option (vstate * list frecord)) :=
  let n := val_allocs (root T v6) 0 asn q qlen in
  mdo ok <- reason_loop v n false ;;
  if ok then mdo _ <- when (negb (n =? 0)) (free ViaCfg PReason) ;; ret (Some (tvalidate T v6 asn q qlen))
  else ret None.

(* trie_get_children: pre-order append of every descendant; on a failed append every active call level
   releases *array on its way out.  [held] = *array is not NULL.  Result: (success, held afterwards). *)
Definition is_node (t : trie) : bool := match t with Leaf => false | _ => true end.

Definition children_err (v : variant) (held : bool) : M (bool * bool) :=
  mdo _ <- when held (free ViaCfg PChildren) ;; ret (false, held && negb (children_once v)).

Fixpoint children_m (v : variant) (t : trie) (held : bool) : M (bool * bool) :=
  match t with
  | Leaf => ret (true, held)
  | Node _ _ _ l r =>
    mdo zl <- (if is_node l then
             mdo ok <- (if held then realloc PChildren else realloc0 PChildren) ;;
             if ok then children_m v l true else ret (false, held)
           else ret (true, held)) ;;
    let '(okl, heldl) := zl in
    if negb okl then children_err v heldl else
    mdo zr <- (if is_node r then
             mdo ok <- (if heldl then realloc PChildren else realloc0 PChildren) ;;
             if ok then children_m v r true else ret (false, heldl)
           else ret (true, heldl)) ;;
    let '(okr, heldr) := zr in
    if negb okr then children_err v heldr else ret (true, heldr)
  end.

(* as the application uses it: on success look at the array and release it *)
Definition tchildren_m (v : variant) (t : trie) : M bool :=
  mdo z <- children_m v t false ;;
  let '(ok, held) := z in
  if ok then mdo _ <- when held (free ViaCfg PChildren) ;; ret true else ret false.

(* pfx_table_copy_except_socket into [dst]: in-order adds; a failed add sets the error flag, the walk of
   that family goes on (pfx_table_for_each_* has no early exit) *)
Fixpoint copy_family_m (rs : list frecord) (s : N) (dst : table) (err : bool) : M (table * bool) :=
  match rs with
  | [] => ret (dst, err)
  | r :: rest =>
    if (src_of r =? s)%N then copy_family_m rest s dst err
    else mdo z <- tadd_m dst r ;;
         let '(dst', c, _) := z in
         copy_family_m rest s dst' (match c with SUCCESS => err | _ => true end)
  end.

Definition tcopy_except_m (src dst : table) (s : N) : M (table * bool) :=
  mdo z <- copy_family_m (map (tag false) (records (t4 src))) s dst false ;;
  let '(d1, e1) := z in
  if e1 then ret (d1, true)
  else copy_family_m (map (tag true) (records (t6 src))) s d1 false.

(* pfx_table_notify_diff new old s: for the records of [s] in [new], pfx_table_remove from [old] (callback
   off); "added" is reported when that does not return PFX_SUCCESS *)
Fixpoint diff_walk_m (v : variant) (rs : list frecord) (s : N) (old : table) (cbs : list cb) : M (list cb * table) :=
  match rs with
  | [] => ret (cbs, old)
  | r :: rest =>
    if (src_of r =? s)%N then
      mdo z <- tremove_m v old r ;;
      let '(old', c, _) := z in
      diff_walk_m v rest s old' (match c with SUCCESS => cbs | _ => cbs ++ [Added r] end)
    else diff_walk_m v rest s old cbs
  end.

Definition tnotify_diff_m (v : variant) (new old : table) (s : N) : M (list cb * table) :=
  mdo z <- diff_walk_m v (trecords new) s old [] ;;
  let '(cbs1, old1) := z in
  ret (cbs1 ++ map Removed (filter (fun r => (src_of r =? s)%N) (trecords old1)), old1).

End PfxA.

(* ================================================================================================ *)
Module SpkiA.
Import RtrV.Spki.Hashlin RtrV.Spki.SpkiModel.
Local Open Scope Z_scope.

Section S.
Variable hash : Z -> Z.
Variable bit0 : Z.

(* will hashlin_grow_step allocate a segment once count has been incremented?  (its first two ifs) *)
Definition need_seg (h : hashlin entry) : bool :=
  negb (state h =? ST_GROW) && (bucket_max h / 2 <? count h + 1) && (state h =? ST_STABLE).

(* tommy_hashlin_insert when the (checked) segment allocation failed: linked and counted, no grow *)
Definition hl_insert_nogrow (h : hashlin entry) (k : Z) (data : entry) : hashlin entry :=
  let pos := bucket_pos h k in
  set_buckets h (upd (Z.to_nat pos) (get_bucket h pos ++ [(k, data)]) (buckets h)) (count h + 1).

Definition add_entry_nogrow (t : spki_table) (e : entry) : Z * spki_table * list callback :=
  (SPKI_SUCCESS, mkT (hl_insert_nogrow (ht t) (hash (e_asn e)) e) (lst t ++ [e]), [(e, true)]).

(* spki_table_add_entry: the entry is allocated BEFORE the duplicate check *)
Definition add_entry_m (v : variant) (t : spki_table) (e : entry) : M (Z * spki_table * list callback) :=
  mdo a <- malloc KEntry ;;
  if negb a then ret (SPKI_ERROR, t, []) else
  match hl_search (ht t) (key_entry_cmp e) (hash (e_asn e)) with
  | Some _ => mdo _ <- free ViaCfg KEntry ;; ret (add_entry hash t e)
  | None =>
    if need_seg (ht t) then
      mdo b <- malloc HSeg ;;                                   (* hashlin_grow_step: result not looked at *)
      if b then ret (add_entry hash t e)
      else if grow_checked v then ret (add_entry_nogrow t e) else crash
    else ret (add_entry hash t e)
  end.

(* a shrink that completes (hashlin_shrink_step's "finished" block, the only place bucket_bit goes down)
   releases the last segment *)
Definition seg_released (before after : hashlin entry) : bool := bucket_bit after <? bucket_bit before.

(* spki_table_remove_entry: no allocation *)
Definition remove_entry_m (t : spki_table) (e : entry) : M (Z * spki_table * list callback) :=
  let '(rc, t', cbs) := remove_entry hash bit0 t e in
  mdo _ <- when (seg_released (ht t) (ht t')) (free ViaCfg HSeg) ;;
  mdo _ <- when (rc =? SPKI_SUCCESS) (free ViaCfg KEntry) ;;
  ret (rc, t', cbs).

(* spki_table_src_remove: no allocation *)
Fixpoint src_walk_m (l : list entry) (s : Z) (t : spki_table) : M spki_table :=
  match l with
  | [] => ret t
  | e :: r =>
    if e_src e =? s then
      let t' := remove_node hash bit0 t e in
      mdo _ <- when (seg_released (ht t) (ht t')) (free ViaCfg HSeg) ;;
      mdo _ <- free ViaCfg KEntry ;;
      src_walk_m r s t'
    else src_walk_m r s t
  end.

Definition src_remove_m (t : spki_table) (s : Z) : M (Z * spki_table * list callback) :=
  mdo _ <- src_walk_m (lst t) s t ;; ret (src_remove hash bit0 t s).

(* result arrays of spki_table_get_all / spki_table_search_by_ski: one realloc per match.  On failure the
   array built so far is released; the code as it is leaves *result pointing at it.
   Result: (success, *result dangling) *)
Fixpoint result_loop (v : variant) (n : nat) (held : bool) : M (bool * bool) :=
  match n with
  | O => ret (true, false)
  | S k =>
    mdo ok <- (if held then realloc KRes else realloc0 KRes) ;;
    if ok then result_loop v k true
    else mdo _ <- when held (free ViaCfg KRes) ;; ret (false, held && negb (result_null v))
  end.

(* the lookup as the in-tree callers use it (bgpsec.c): on SPKI_ERROR a non-NULL *result is released;
   on success the array is used and released *)
Definition lookup_m (v : variant) (found : list entry) : M (option (list entry)) :=
  mdo z <- result_loop v (List.length found) false ;;
  let '(ok, dangling) := z in
  if ok then mdo _ <- when (negb (Nat.eqb (List.length found) 0)) (free ViaCfg KRes) ;; ret (Some found)
  else mdo _ <- when dangling (free ViaCfg KRes) ;; ret None.

Definition get_all_m (v : variant) (t : spki_table) (asn ski : Z) := lookup_m v (get_all hash t asn ski).
Definition search_by_ski_m (v : variant) (t : spki_table) (ski : Z) := lookup_m v (search_by_ski t ski).

(* segments a table holds: the first one plus one per doubling in force *)
Definition nsegs (t : spki_table) : nat := S (Z.to_nat (bucket_bit (ht t) - bit0)).

(* spki_table_free / spki_table_free_without_notify: entries in list order, then tommy_hashlin_done *)
Definition release_m (v : variant) (t : spki_table) : M unit :=
  mdo _ <- repeat_m (List.length (lst t)) (free (if free_cfg v then ViaCfg else ViaLibc) KEntry) ;;
  repeat_m (nsegs t) (free ViaCfg HSeg).

(* spki_table_init: tommy_hashlin_init's calloc is not looked at; a table without its first segment
   dereferences NULL at its first use.  false = SPKI_ERROR (repaired code) *)
Definition init_m (v : variant) : M bool :=
  mdo a <- malloc HSeg ;;
  if a then ret true else if init_checked v then ret false else crash.

(* the harness op: free, initialise again; after a reported failure the application initialises once more *)
Definition free_init_m (v : variant) (t : spki_table) : M (bool * spki_table) :=
  mdo _ <- release_m v t ;;
  mdo ok <- init_m v ;;
  if ok then ret (true, spki_init bit0) else mdo _ <- quiet_alloc HSeg ;; ret (false, spki_init bit0).

(* spki_table_copy_except_socket: stops at the first add that does not succeed *)
Fixpoint copy_walk_m (v : variant) (l : list entry) (s : Z) (dst : spki_table) : M (bool * spki_table) :=
  match l with
  | [] => ret (true, dst)
  | e :: r =>
    if negb (e_src e =? s) then
      mdo z <- add_entry_m v dst e ;;
      let '(rc, dst', _) := z in
      if rc =? SPKI_SUCCESS then copy_walk_m v r s dst' else ret (false, dst')
    else copy_walk_m v r s dst
  end.

(* spki_table_notify_diff: removals from the old table release entries (and possibly a segment) *)
Fixpoint diff_walk_m (l : list entry) (s : Z) (old : spki_table) : M spki_table :=
  match l with
  | [] => ret old
  | e :: r =>
    if e_src e =? s then
      mdo z <- remove_entry_m old e ;;
      let '(_, old', _) := z in diff_walk_m r s old'
    else diff_walk_m r s old
  end.

End S.
End SpkiA.

(* ================================================================================================ *)
(* operation scripts over one prefix table and one router-key table, with a fault position per operation *)
Module OpsA.
Import RtrV.Pfx.TrieModel RtrV.Pfx.PfxTable.
Import PfxA SpkiA.
Notation entry := RtrV.Spki.SpkiModel.entry.
Notation spki_table := RtrV.Spki.SpkiModel.spki_table.
Notation callback := RtrV.Spki.SpkiModel.callback.
Notation SPKI_ERROR := RtrV.Spki.SpkiModel.SPKI_ERROR.
Notation SPKI_SUCCESS := RtrV.Spki.SpkiModel.SPKI_SUCCESS.

Inductive aop :=
| OPAdd (r : frecord) | OPRemove (r : frecord) | OPSrcRemove (s : N)
| OPValidate (v6 : bool) (asn : N) (q : addr) (qlen : nat)
| OKAdd (e : entry) | OKRemove (e : entry) | OKSrcRemove (s : Z) | OKGet (asn ski : Z) | OKSki (ski : Z).

Record tabs := mkTabs { tp : table; tk : spki_table }.

(* what the caller sees *)
Inductive obs :=
| ObsP (c : rc) (cbs : list cb)
| ObsV (r : option (vstate * list frecord))          (* None = PFX_ERROR *)
| ObsK (c : Z) (cbs : list callback)
| ObsL (r : option (list entry))                     (* None = SPKI_ERROR *)
| ObsFuel.                                           (* the model ran out of fuel (never: AllocProofs) *)

Definition is_error (o : obs) : bool :=
  match o with
  | ObsP ERROR _ => true
  | ObsV None => true
  | ObsK c _ => (c =? SPKI_ERROR)%Z
  | ObsL None => true
  | _ => false
  end.

Section Run.
Variable hash : Z -> Z.
Variable bit0 : Z.

Definition step_m (v : variant) (o : aop) (st : tabs) : M (tabs * obs) :=
  match o with
  | OPAdd r => mdo z <- tadd_m (tp st) r ;; let '(T, c, cbs) := z in ret (mkTabs T (tk st), ObsP c cbs)
  | OPRemove r => mdo z <- tremove_m v (tp st) r ;; let '(T, c, cbs) := z in ret (mkTabs T (tk st), ObsP c cbs)
  | OPSrcRemove s =>
    mdo z <- tsrc_remove_m v (tp st) s ;;
    match z with
    | Some (T, c, cbs) => ret (mkTabs T (tk st), ObsP c cbs)
    | None => ret (st, ObsFuel)
    end
  | OPValidate v6 asn q qlen => mdo z <- tvalidate_m v (tp st) v6 asn q qlen ;; ret (st, ObsV z)
  | OKAdd e => mdo z <- add_entry_m hash v (tk st) e ;; let '(c, t, cbs) := z in ret (mkTabs (tp st) t, ObsK c cbs)
  | OKRemove e => mdo z <- remove_entry_m hash bit0 (tk st) e ;; let '(c, t, cbs) := z in ret (mkTabs (tp st) t, ObsK c cbs)
  | OKSrcRemove s => mdo z <- src_remove_m hash bit0 (tk st) s ;; let '(c, t, cbs) := z in ret (mkTabs (tp st) t, ObsK c cbs)
  | OKGet a s => mdo z <- get_all_m hash v (tk st) a s ;; ret (st, ObsL z)
  | OKSki s => mdo z <- search_by_ski_m v (tk st) s ;; ret (st, ObsL z)
  end.

(* the pure step: PfxTable / SpkiModel *)
Definition step_pure (o : aop) (st : tabs) : tabs * obs :=
  match o with
  | OPAdd r => let '(T, c, cbs) := tadd (tp st) r in (mkTabs T (tk st), ObsP c cbs)
  | OPRemove r => let '(T, c, cbs) := tremove (tp st) r in (mkTabs T (tk st), ObsP c cbs)
  | OPSrcRemove s =>
    match tsrc_remove (tp st) s with
    | Some (T, cbs) => (mkTabs T (tk st), ObsP SUCCESS cbs)
    | None => (st, ObsFuel)
    end
  | OPValidate v6 asn q qlen => (st, ObsV (Some (tvalidate (tp st) v6 asn q qlen)))
  | OKAdd e => let '(c, t, cbs) := RtrV.Spki.SpkiModel.add_entry hash (tk st) e in (mkTabs (tp st) t, ObsK c cbs)
  | OKRemove e => let '(c, t, cbs) := RtrV.Spki.SpkiModel.remove_entry hash bit0 (tk st) e in (mkTabs (tp st) t, ObsK c cbs)
  | OKSrcRemove s => let '(c, t, cbs) := RtrV.Spki.SpkiModel.src_remove hash bit0 (tk st) s in (mkTabs (tp st) t, ObsK c cbs)
  | OKGet a s => (st, ObsL (Some (RtrV.Spki.SpkiModel.get_all hash (tk st) a s)))
  | OKSki s => (st, ObsL (Some (RtrV.Spki.SpkiModel.search_by_ski (tk st) s)))
  end.

(* the fault position of an operation is counted from that operation's first allocation *)
Definition arm (f : option nat) (s : ast) : ast := mkA f 0 (live s) (rlog s) (corrupt s).

Fixpoint run_m (v : variant) (h : list (aop * option nat)) (st : tabs) : M (tabs * list obs) :=
  match h with
  | [] => ret (st, [])
  | (o, f) :: rest =>
    fun s =>
      match step_m v o st (arm f s) with
      | Val (st1, ob) s1 =>
        match run_m v rest st1 s1 with
        | Val (st2, obs2) s2 => Val (st2, ob :: obs2) s2
        | Crash s2 => Crash s2
        end
      | Crash s1 => Crash s1
      end
  end.

Definition init_tabs : tabs := mkTabs empty_table (RtrV.Spki.SpkiModel.spki_init bit0).
(* a fresh pair of tables: spki_table_init has allocated the first segment *)
Definition init_ast : ast := mkA None 0 [HSeg] [] false.

(* releasing both tables for good *)
Definition free_all_m (v : variant) (st : tabs) : M unit :=
  mdo _ <- tfree_m (tp st) ;; release_m bit0 v (tk st).

End Run.
End OpsA.

(* ================================================================================================ *)
(* rtr_sync_receive_and_store_pdus: the temporary arrays, the shadow tables, apply / undo / purge, swap,
   notify_diff, cleanup - on top of the two table models.  The byte level (PDU parsing, error reports,
   socket state) is Rtr/RtrModel.v's; here a payload PDU is already an update of a record of this socket. *)
Module SyncA.
Import RtrV.Pfx.TrieModel RtrV.Pfx.PfxTable.
Import PfxA SpkiA OpsA.

Inductive upd := U4 (announce : bool) (r : frecord) | U6 (announce : bool) (r : frecord) | UK (announce : bool) (e : entry).

Section Sync.
Variable hash : Z -> Z.
Variable bit0 : Z.
Variable incr : nat.        (* TEMPORARY_PDU_STORE_INCREMENT_VALUE *)
Variable me_p : N.          (* this socket, as the prefix table's source *)
Variable me_k : Z.          (* this socket, as the router-key table's source *)

(* rtr_store_prefix_pdu / rtr_store_router_key_pdu: a realloc every [incr] PDUs of a kind *)
Definition store_one (c : cls) (n : nat) : M bool :=
  if Nat.eqb (n mod incr) 0 then (if Nat.eqb n 0 then realloc0 c else realloc c) else ret true.

Fixpoint store_m (pdus : list upd) (n4 n6 nk : nat) : M (bool * (nat * nat * nat)) :=
  match pdus with
  | [] => ret (true, (n4, n6, nk))
  | U4 _ _ :: rest => mdo ok <- store_one Arr4 n4 ;; if ok then store_m rest (S n4) n6 nk else ret (false, (n4, n6, nk))
  | U6 _ _ :: rest => mdo ok <- store_one Arr6 n6 ;; if ok then store_m rest n4 (S n6) nk else ret (false, (n4, n6, nk))
  | UK _ _ :: rest => mdo ok <- store_one ArrK nk ;; if ok then store_m rest n4 n6 (S nk) else ret (false, (n4, n6, nk))
  end.

(* the three lrtr_free at "cleanup:" (free(NULL) is no event) *)
Definition free_arrays (n : nat * nat * nat) : M unit :=
  let '(n4, n6, nk) := n in
  mdo _ <- when (negb (Nat.eqb nk 0)) (free ViaCfg ArrK) ;;
  mdo _ <- when (negb (Nat.eqb n6 0)) (free ViaCfg Arr6) ;;
  when (negb (Nat.eqb n4 0)) (free ViaCfg Arr4).

Definition pfx_updates (pdus : list upd) (six : bool) : list (bool * frecord) :=
  flat_map (fun u => match u with
                     | U4 a r => if six then [] else [(a, r)]
                     | U6 a r => if six then [(a, r)] else []
                     | UK _ _ => [] end) pdus.
Definition key_updates (pdus : list upd) : list (bool * entry) :=
  flat_map (fun u => match u with UK a e => [(a, e)] | _ => [] end) pdus.

(* rtr_update_pfx_table / rtr_undo_update_pfx_table; [quiet] = the table has no update callback (shadow) *)
Definition upd_pfx_m (v : variant) (quiet : bool) (T : table) (a : bool) (r : frecord) : M (table * bool * list cb) :=
  mdo z <- (if a then tadd_m T r else tremove_m v T r) ;;
  let '(T', c, cbs) := z in
  ret (T', match c with SUCCESS => true | _ => false end, if quiet then [] else cbs).
Definition upd_key_m (v : variant) (quiet : bool) (Kt : spki_table) (a : bool) (e : entry)
  : M (spki_table * bool * list callback) :=
  mdo z <- (if a then add_entry_m hash v Kt e else remove_entry_m hash bit0 Kt e) ;;
  let '(c, Kt', cbs) := z in
  ret (Kt', (c =? SPKI_SUCCESS)%Z, if quiet then [] else cbs).

(* apply in order; stop at the first update that does not succeed.  [done] = applied, most recent first *)
Fixpoint apply_pfx_m (v : variant) (quiet : bool) (us : list (bool * frecord)) (T : table)
         (done : list (bool * frecord)) (cbs : list cb)
  : M (table * list (bool * frecord) * list cb * bool) :=
  match us with
  | [] => ret (T, done, cbs, true)
  | (a, r) :: rest =>
    mdo z <- upd_pfx_m v quiet T a r ;;
    let '(T', ok, c) := z in
    if ok then apply_pfx_m v quiet rest T' ((a, r) :: done) (cbs ++ c) else ret (T', done, cbs ++ c, false)
  end.
Fixpoint apply_key_m (v : variant) (quiet : bool) (us : list (bool * entry)) (Kt : spki_table)
         (done : list (bool * entry)) (cbs : list callback)
  : M (spki_table * list (bool * entry) * list callback * bool) :=
  match us with
  | [] => ret (Kt, done, cbs, true)
  | (a, e) :: rest =>
    mdo z <- upd_key_m v quiet Kt a e ;;
    let '(Kt', ok, c) := z in
    if ok then apply_key_m v quiet rest Kt' ((a, e) :: done) (cbs ++ c) else ret (Kt', done, cbs ++ c, false)
  end.

(* undo: inverse operations, most recent first; stops at the first that does not succeed *)
Fixpoint undo_pfx_m (v : variant) (quiet : bool) (done : list (bool * frecord)) (T : table) (cbs : list cb)
  : M (table * list cb * bool) :=
  match done with
  | [] => ret (T, cbs, true)
  | (a, r) :: rest =>
    mdo z <- upd_pfx_m v quiet T (negb a) r ;;
    let '(T', ok, c) := z in
    if ok then undo_pfx_m v quiet rest T' (cbs ++ c) else ret (T', cbs ++ c, false)
  end.
Fixpoint undo_key_m (v : variant) (quiet : bool) (done : list (bool * entry)) (Kt : spki_table) (cbs : list callback)
  : M (spki_table * list callback * bool) :=
  match done with
  | [] => ret (Kt, cbs, true)
  | (a, e) :: rest =>
    mdo z <- upd_key_m v quiet Kt (negb a) e ;;
    let '(Kt', ok, c) := z in
    if ok then undo_key_m v quiet rest Kt' (cbs ++ c) else ret (Kt', cbs ++ c, false)
  end.

(* everything the caller can see of one synchronisation *)
Record sync_out := mkOut {
  so_ok : bool;                    (* RTR_SUCCESS? *)
  so_main : tabs;                  (* the socket's tables afterwards *)
  so_pcb : list cb;                (* update callbacks of the main prefix table, in order *)
  so_kcb : list callback }.        (* ... of the main router-key table *)

(* "Couldn't undo all update operations: Purging all records" - always on the MAIN tables *)
Definition purge_m (v : variant) (main : tabs) (pcb : list cb) (kcb : list callback) : M (tabs * list cb * list callback) :=
  mdo z <- tsrc_remove_m v (tp main) me_p ;;
  let '(T, c1) := match z with Some (T, _, c) => (T, c) | None => (tp main, []) end in
  mdo y <- src_remove_m hash bit0 (tk main) me_k ;;
  let '(_, Kt, c2) := y in
  ret (mkTabs T Kt, pcb ++ c1, kcb ++ c2).

(* shadow tables are released with *_free_without_notify and lrtr_free of the object *)
Definition free_shadow_pfx (T : table) : M unit := mdo _ <- tfree_m T ;; free ViaCfg ShPfx.
Definition free_shadow_spki (v : variant) (Kt : spki_table) : M unit := mdo _ <- release_m bit0 v Kt ;; free ViaCfg ShSpki.

(* the first part: store the payload PDUs; for an atomic reload create the prefix shadow table and the
   router-key shadow object.  Every failure here ends the synchronisation at once ("goto cleanup") *)
Inductive prep :=
| Early (o : sync_out)                                   (* RTR_ERROR, everything temporary released *)
| Go (n : nat * nat * nat) (shp : option table).         (* stored; [Some T]: reload, T = prefix shadow, ShSpki allocated *)

Definition sync_prepare_m (reset : bool) (main : tabs) (pdus : list upd) : M prep :=
  let failed := mkOut false main [] [] in
  mdo z <- store_m pdus 0 0 0 ;;
  let '(stored, n) := z in
  if negb stored then mdo _ <- free_arrays n ;; ret (Early failed) else
  if reset then
    mdo a <- malloc ShPfx ;;
    if negb a then mdo _ <- free_arrays n ;; ret (Early failed) else
    mdo zc <- tcopy_except_m (tp main) empty_table me_p ;;
    let '(Tsh, err) := zc in
    if err then mdo _ <- free_shadow_pfx Tsh ;; mdo _ <- free_arrays n ;; ret (Early failed) else
    mdo b <- malloc ShSpki ;;
    if negb b then mdo _ <- free_shadow_pfx Tsh ;; mdo _ <- free_arrays n ;; ret (Early failed) else
    ret (Go n (Some Tsh))
  else ret (Go n None).

Definition sync_rest_m (v : variant) (main : tabs) (pdus : list upd) (n : nat * nat * nat) (shp : option table) : M sync_out :=
  let reset := match shp with Some _ => true | None => false end in
  let u4 := pfx_updates pdus false in
  let u6 := pfx_updates pdus true in
  let uk := key_updates pdus in
  (* "cleanup:" for the shadow tables *)
  let drop_shadows (shp : option table) (shk : option spki_table) : M unit :=
      mdo _ <- match shp with Some T => free_shadow_pfx T | None => ret tt end ;;
      match shk with Some Kt => free_shadow_spki v Kt | None => ret tt end in
  (* ---- the router-key shadow table ---- *)
  mdo zs <- (match shp with
             | Some Tsh =>
               mdo c <- init_m v ;;
               if negb c then mdo _ <- free ViaCfg ShSpki ;; ret (None, false) else   (* repaired code only *)
               mdo zk <- copy_walk_m hash v (RtrV.Spki.SpkiModel.lst (tk main)) me_k (RtrV.Spki.SpkiModel.spki_init bit0) ;;
               let '(okc, Ssh) := zk in ret (Some Ssh, okc)
             | None => ret (None, true)
             end) ;;
  let '(shk, ready) := zs in
  if negb ready then mdo _ <- drop_shadows shp shk ;; mdo _ <- free_arrays n ;; ret (mkOut false main [] []) else
  let T0 := match shp with Some T => T | None => tp main end in
  let S0 := match shk with Some Kt => Kt | None => tk main end in
  let quiet := reset in
  (* rebuild what the caller sees: in a reload the main tables are not the update tables *)
  let finish (ok : bool) (T : table) (Kt : spki_table) (pcb : list cb) (kcb : list callback) (purge : bool) : M sync_out :=
      let main1 := if reset then main else mkTabs T Kt in
      mdo zp <- (if purge then purge_m v main1 pcb kcb else ret (main1, pcb, kcb)) ;;
      let '(main2, pcb2, kcb2) := zp in
      mdo _ <- (if reset then drop_shadows (Some T) (Some Kt) else ret tt) ;;
      mdo _ <- free_arrays n ;;
      ret (mkOut ok main2 pcb2 kcb2) in
  (* ---- IPv4, IPv6, router keys; undo in reverse on the first failure ---- *)
  mdo z4 <- apply_pfx_m v quiet u4 T0 [] [] ;;
  let '(T1, d4, c4, ok4) := z4 in
  if negb ok4 then
    mdo y <- undo_pfx_m v quiet d4 T1 c4 ;;
    let '(T2, c, fine) := y in finish false T2 S0 c [] (negb fine)
  else
  mdo z6 <- apply_pfx_m v quiet u6 T1 [] c4 ;;
  let '(T3, d6, c6, ok6) := z6 in
  if negb ok6 then
    mdo y <- undo_pfx_m v quiet (d6 ++ d4) T3 c6 ;;
    let '(T4, c, fine) := y in finish false T4 S0 c [] (negb fine)
  else
  mdo zk <- apply_key_m v quiet uk S0 [] [] ;;
  let '(S1, dk, ck, okk) := zk in
  if negb okk then
    mdo yk <- undo_key_m v quiet dk S1 ck ;;
    let '(S2, ck2, finek) := yk in
    if negb finek then finish false T3 S2 c6 ck2 true else
    mdo y <- undo_pfx_m v quiet (d6 ++ d4) T3 c6 ;;
    let '(T5, c, fine) := y in finish false T5 S2 c ck2 (negb fine)
  else
  if reset then
    (* swap the shadow tables in; the old data is now in the shadow objects; notify the difference *)
    mdo zd <- tnotify_diff_m v T3 (tp main) me_p ;;
    let '(pcb, oldT) := zd in
    mdo oldS <- SpkiA.diff_walk_m hash bit0 (RtrV.Spki.SpkiModel.lst S1) me_k (tk main) ;;
    let kcb := snd (RtrV.Spki.SpkiModel.notify_diff hash bit0 S1 (tk main) me_k) in
    mdo _ <- drop_shadows (Some oldT) (Some oldS) ;;
    mdo _ <- free_arrays n ;;
    ret (mkOut true (mkTabs T3 S1) pcb kcb)
  else finish true T3 S1 c6 ck false.

Definition sync_m (v : variant) (reset : bool) (main : tabs) (pdus : list upd) : M sync_out :=
  mdo p <- sync_prepare_m reset main pdus ;;
  match p with
  | Early o => ret o
  | Go n shp => sync_rest_m v main pdus n shp
  end.

End Sync.
End SyncA.
