(* AllocProofs.v - C18: erasure (no fault = the pure operations), containment of one failed allocation per
   operation, histories with faults at arbitrary positions, allocator balance, the store / shadow part of a
   synchronisation; refutations for the code as it is. *)
From Coq Require Import List Arith NArith ZArith Bool Lia Permutation.
From RtrV Require Import Alloc.AllocModel.
From RtrV Require Pfx.TrieModel Pfx.TrieInv Pfx.TrieSet Pfx.PfxTable Pfx.PfxProofs Pfx.PfxHistory.
From RtrV Require Spki.Hashlin Spki.SpkiModel Spki.SpkiProofs.
Import ListNotations.

(* ================================================================================================ *)
(* blocks are counted per class *)
Fixpoint cnt (c : cls) (l : list cls) : nat :=
  match l with [] => 0 | x :: r => (if cls_eqb c x then 1 else 0) + cnt c r end.

Lemma cls_eqb_eq a b : cls_eqb a b = true <-> a = b.
Proof. destruct a, b; simpl; split; intros H; try reflexivity; try discriminate. Qed.
Lemma cls_eqb_refl a : cls_eqb a a = true.
Proof. apply cls_eqb_eq. reflexivity. Qed.
Lemma cls_eqb_neq a b : cls_eqb a b = false <-> a <> b.
Proof. rewrite <- cls_eqb_eq. destruct (cls_eqb a b); split; congruence. Qed.

Lemma has_cnt c l : has c l = true <-> 0 < cnt c l.
Proof.
  unfold has. induction l as [|x r IH]; cbn [existsb cnt]; [split; [discriminate|lia]|].
  destruct (cls_eqb c x); cbn [orb]; [split; [lia|reflexivity]|]. rewrite IH. split; lia.
Qed.

Lemma cnt_remove1 c x l : has x l = true -> cnt c (remove1 x l) = cnt c l - (if cls_eqb c x then 1 else 0).
Proof.
  unfold has. induction l as [|y r IH]; cbn [existsb remove1 cnt]; [discriminate|].
  destruct (cls_eqb x y) eqn:E.
  - intros _. apply cls_eqb_eq in E. subst y. destruct (cls_eqb c x); lia.
  - cbn [orb]. intros H. cbn [cnt]. rewrite (IH H).
    destruct (cls_eqb c y) eqn:E1, (cls_eqb c x) eqn:E2; try lia.
    apply cls_eqb_eq in E1, E2. subst. rewrite cls_eqb_refl in E. discriminate.
Qed.

Lemma cnt_app c a b : cnt c (a ++ b) = cnt c a + cnt c b.
Proof. induction a as [|x a IH]; cbn [app cnt]; [reflexivity|rewrite IH; lia]. Qed.

Lemma cnt_all_zero l : (forall c, cnt c l = 0) -> l = [].
Proof. destruct l as [|x l]; [reflexivity|]. intros H. specialize (H x). cbn [cnt] in H. rewrite cls_eqb_refl in H. lia. Qed.

(* failed allocation calls in a list of events *)
Definition ev_failed (e : ev) : bool :=
  match e with EvM _ ok | EvR0 _ ok | EvR _ ok => negb ok | _ => false end.
Definition failures (l : list ev) : nat := List.length (filter ev_failed l).
Definition via_libc (e : ev) : bool := match e with EvF _ ViaLibc => true | _ => false end.
Definition libc_frees (l : list ev) : nat := List.length (filter via_libc l).

Lemma failures_app a b : failures (a ++ b) = failures a + failures b.
Proof. unfold failures. rewrite filter_app, app_length. reflexivity. Qed.
Lemma libc_frees_app a b : libc_frees (a ++ b) = libc_frees a + libc_frees b.
Proof. unfold libc_frees. rewrite filter_app, app_length. reflexivity. Qed.

(* [post s s' df]: s' continues s; df more failed allocation calls in the log; the environment is untouched *)
Definition post (s s' : ast) (df : nat) : Prop :=
  fail_at s' = fail_at s /\ corrupt s' = corrupt s /\ failures (rlog s') = failures (rlog s) + df /\
  libc_frees (rlog s') = libc_frees (rlog s).

Lemma post_refl s : post s s 0.
Proof. unfold post. repeat split; lia. Qed.
Lemma post_trans s1 s2 s3 a b : post s1 s2 a -> post s2 s3 b -> post s1 s3 (a + b).
Proof. unfold post. intros (A1 & A2 & A3 & A4) (B1 & B2 & B3 & B4). repeat split; try congruence; lia. Qed.

Ltac post_tac := unfold post, failures, libc_frees; cbn; repeat split; try reflexivity; try lia.

(* ---- what one action does ---------------------------------------------------------------------- *)
(* [steps s s' evs]: s' continues s with the new events evs (most recent first) *)
Definition steps (s s' : ast) (evs : list ev) : Prop :=
  rlog s' = evs ++ rlog s /\ fail_at s' = fail_at s.

Lemma steps_refl s : steps s s [].
Proof. split; reflexivity. Qed.
Lemma steps_trans s1 s2 s3 e1 e2 : steps s1 s2 e1 -> steps s2 s3 e2 -> steps s1 s3 (e2 ++ e1).
Proof. intros [H1 H2] [H3 H4]. split; [rewrite H3, H1, app_assoc; reflexivity|congruence]. Qed.

Lemma alloc_gen_spec (e : bool -> ev) c s :
  exists b s', alloc_gen e c s = Val b s' /\ steps s s' [e b] /\ corrupt s' = corrupt s /\ ctr s' = S (ctr s) /\
    live s' = (if b then c :: live s else live s).
Proof.
  unfold alloc_gen. destruct (fails s); eexists _, _; (split; [reflexivity|]); cbn; repeat split; reflexivity.
Qed.

Lemma realloc_spec c s : 0 < cnt c (live s) ->
  exists b s', realloc c s = Val b s' /\ steps s s' [EvR c b] /\ corrupt s' = corrupt s /\ ctr s' = S (ctr s) /\ live s' = live s.
Proof.
  intros H. apply has_cnt in H. unfold realloc. rewrite H. cbn [negb]. rewrite orb_false_r.
  destruct (fails s); eexists _, _; (split; [reflexivity|]); cbn; repeat split; reflexivity.
Qed.

Lemma free_spec v c s : 0 < cnt c (live s) ->
  exists s', free v c s = Val tt s' /\ steps s s' [EvF c v] /\ corrupt s' = corrupt s /\ ctr s' = ctr s /\
    live s' = remove1 c (live s) /\ (forall x, cnt x (live s') = cnt x (live s) - (if cls_eqb x c then 1 else 0)).
Proof.
  intros H. apply has_cnt in H. unfold free. rewrite H. eexists. split; [reflexivity|]. cbn.
  repeat split; try reflexivity. intros x. apply cnt_remove1. exact H.
Qed.

Lemma bind_val {A B} (m : M A) (f : A -> M B) s a s1 : m s = Val a s1 -> bind m f s = f a s1.
Proof. intros H. unfold bind. rewrite H. reflexivity. Qed.

Ltac inv_val :=
  repeat match goal with
         | H : Val _ _ = Val _ _ |- _ => injection H as ? ?; subst
         end.

(* ---- no fault: every action succeeds ----------------------------------------------------------- *)
Definition nofail (s : ast) : Prop := fail_at s = None.
Definition erases {A} (m : M A) (a : A) : Prop := forall s, nofail s -> exists s', m s = Val a s' /\ nofail s'.

Lemma erases_ret {A} (a : A) : erases (ret a) a.
Proof. intros s H. exists s. split; [reflexivity|exact H]. Qed.
Lemma erases_bind {A B} (m : M A) (f : A -> M B) a b : erases m a -> erases (f a) b -> erases (bind m f) b.
Proof.
  intros Hm Hf s Hs. destruct (Hm s Hs) as (s1 & E1 & H1). destruct (Hf s1 H1) as (s2 & E2 & H2).
  exists s2. unfold bind. rewrite E1. split; assumption.
Qed.
Lemma fails_nofail s : nofail s -> fails s = false.
Proof. unfold nofail, fails. intros ->. reflexivity. Qed.
Lemma erases_alloc_gen e c : erases (alloc_gen e c) true.
Proof. intros s H. unfold alloc_gen. rewrite (fails_nofail s H). eexists. split; [reflexivity|exact H]. Qed.
Lemma erases_malloc c : erases (malloc c) true.
Proof. apply erases_alloc_gen. Qed.
Lemma erases_realloc0 c : erases (realloc0 c) true.
Proof. apply erases_alloc_gen. Qed.
Lemma erases_realloc c : erases (realloc c) true.
Proof. intros s H. unfold realloc. rewrite (fails_nofail s H). eexists. split; [reflexivity|exact H]. Qed.
Lemma erases_free v c : erases (free v c) tt.
Proof. intros s H. unfold free. destruct (has c (live s)); eexists; (split; [reflexivity|exact H]). Qed.
Lemma erases_when b m : erases m tt -> erases (when b m) tt.
Proof. intros H. destruct b; [exact H|apply erases_ret]. Qed.
Lemma erases_repeat n m : erases m tt -> erases (repeat_m n m) tt.
Proof. intros H. induction n as [|n IH]; cbn [repeat_m]; [apply erases_ret|eapply erases_bind; [exact H|exact IH]]. Qed.
Lemma erases_quiet c : erases (quiet_alloc c) tt.
Proof. intros s H. eexists. split; [reflexivity|exact H]. Qed.

(* ================================================================================================ *)
Module PfxP.
Import RtrV.Pfx.TrieModel RtrV.Pfx.TrieInv RtrV.Pfx.TrieSet RtrV.Pfx.PfxTable RtrV.Pfx.PfxProofs.
Import PfxA.

(* ---- the lookup of the model's plan against the pure add / remove ------------------------------- *)
Lemma size_push t : forall lvl p len d, size (push t lvl p len d) = S (size t).
Proof.
  induction t as [|q ql qd l IHl r IHr]; intros lvl p len d; cbn [push size]; [reflexivity|].
  destruct (len <? ql); [destruct (bit q lvl)|destruct (bit p lvl)]; cbn [size]; rewrite ?IHl, ?IHr; lia.
Qed.

Lemma find_payload_size t : forall lvl p len d, find_payload t lvl p len = Some d -> 1 <= size t.
Proof. destruct t; cbn [find_payload size]; intros; [discriminate|lia]. Qed.

Lemma add_by_payload t : forall lvl p len e,
  match find_payload t lvl p len with
  | None => exists t', add t lvl p len e = (t', SUCCESS) /\ size t' = S (size t)
  | Some d => if existsb (elem_eqb e) d then add t lvl p len e = (t, DUP)
              else exists t', add t lvl p len e = (t', SUCCESS) /\ size t' = size t
  end.
Proof.
  induction t as [|q ql qd l IHl r IHr]; intros lvl p len e; cbn [find_payload add].
  - eexists. split; reflexivity.
  - destruct (len <? ql).
    + eexists. split; [reflexivity|]. apply size_push.
    + destruct ((ql =? len) && addr_eqb q p).
      * destruct (existsb (elem_eqb e) qd); [reflexivity|]. eexists. split; reflexivity.
      * destruct (bit p lvl).
        -- specialize (IHr (S lvl) p len e). destruct (find_payload r (S lvl) p len) as [d|].
           ++ destruct (existsb (elem_eqb e) d).
              ** rewrite IHr. reflexivity.
              ** destruct IHr as (t' & E & Hs). rewrite E. eexists. split; [reflexivity|]. cbn [size]. lia.
           ++ destruct IHr as (t' & E & Hs). rewrite E. eexists. split; [reflexivity|]. cbn [size]. lia.
        -- specialize (IHl (S lvl) p len e). destruct (find_payload l (S lvl) p len) as [d|].
           ++ destruct (existsb (elem_eqb e) d).
              ** rewrite IHl. reflexivity.
              ** destruct IHl as (t' & E & Hs). rewrite E. eexists. split; [reflexivity|]. cbn [size]. lia.
           ++ destruct IHl as (t' & E & Hs). rewrite E. eexists. split; [reflexivity|]. cbn [size]. lia.
Qed.

Lemma remove_by_payload t : forall lvl p len e,
  match find_payload t lvl p len with
  | None => remove t lvl p len e = (t, NOTFOUND)
  | Some d =>
    if existsb (elem_eqb e) d then
      match remove_first e d with
      | [] => exists t', remove t lvl p len e = (t', SUCCESS) /\ S (size t') = size t
      | _ => exists t', remove t lvl p len e = (t', SUCCESS) /\ size t' = size t
      end
    else remove t lvl p len e = (t, NOTFOUND)
  end.
Proof.
  induction t as [|q ql qd l IHl r IHr]; intros lvl p len e; cbn [find_payload remove]; [reflexivity|].
  destruct (len <? ql); [reflexivity|].
  destruct ((ql =? len) && addr_eqb q p).
  - destruct (existsb (elem_eqb e) qd); [|reflexivity].
    destruct (remove_first e qd) eqn:Er.
    + eexists. split; [reflexivity|]. apply size_pull. discriminate.
    + eexists. split; reflexivity.
  - destruct (bit p lvl).
    + specialize (IHr (S lvl) p len e). destruct (find_payload r (S lvl) p len) as [d|].
      * destruct (existsb (elem_eqb e) d).
        -- destruct (remove_first e d); destruct IHr as (t' & E & Hs); rewrite E; eexists; (split; [reflexivity|]); cbn [size]; lia.
        -- rewrite IHr. reflexivity.
      * rewrite IHr. reflexivity.
    + specialize (IHl (S lvl) p len e). destruct (find_payload l (S lvl) p len) as [d|].
      * destruct (existsb (elem_eqb e) d).
        -- destruct (remove_first e d); destruct IHl as (t' & E & Hs); rewrite E; eexists; (split; [reflexivity|]); cbn [size]; lia.
        -- rewrite IHl. reflexivity.
      * rewrite IHl. reflexivity.
Qed.

(* ---- replacing a node's payload by a permutation of it ----------------------------------------- *)
Lemma size_set_payload t : forall lvl p len d, size (set_payload t lvl p len d) = size t.
Proof.
  induction t as [|q ql qd l IHl r IHr]; intros lvl p len d; cbn [set_payload size]; [reflexivity|].
  destruct (len <? ql); [reflexivity|]. destruct ((ql =? len) && addr_eqb q p); [reflexivity|].
  destruct (bit p lvl); cbn [size]; rewrite ?IHl, ?IHr; reflexivity.
Qed.

Lemma keys_set_payload t : forall lvl p len d, keys (set_payload t lvl p len d) = keys t.
Proof.
  induction t as [|q ql qd l IHl r IHr]; intros lvl p len d; cbn [set_payload keys]; [reflexivity|].
  destruct (len <? ql); [reflexivity|]. destruct ((ql =? len) && addr_eqb q p); [reflexivity|].
  destruct (bit p lvl); cbn [keys]; rewrite ?IHl, ?IHr; reflexivity.
Qed.

Lemma root_ge_set_payload n t lvl p len d : root_ge n t -> root_ge n (set_payload t lvl p len d).
Proof.
  destruct t as [|q ql qd l r]; cbn [set_payload root_ge]; [auto|].
  destruct (len <? ql); [auto|]. destruct ((ql =? len) && addr_eqb q p); [auto|]. destruct (bit p lvl); auto.
Qed.

Lemma records_set_payload t : forall lvl p len d d', find_payload t lvl p len = Some d -> Permutation d' d ->
  Permutation (records (set_payload t lvl p len d')) (records t).
Proof.
  induction t as [|q ql qd l IHl r IHr]; intros lvl p len d d' Hf Hp; cbn [find_payload set_payload records] in *; [discriminate|].
  destruct (len <? ql); [discriminate|]. destruct ((ql =? len) && addr_eqb q p).
  - injection Hf as <-. cbn [records]. apply Permutation_app_head, Permutation_app_tail, Permutation_map. exact Hp.
  - destruct (bit p lvl); cbn [records].
    + apply Permutation_app_head, Permutation_app_head. eapply IHr; eassumption.
    + apply Permutation_app_tail. eapply IHl; eassumption.
Qed.

Lemma WF_set_payload W t : forall lvl pi p len d d', WF W lvl pi t -> find_payload t lvl p len = Some d -> Permutation d' d ->
  WF W lvl pi (set_payload t lvl p len d').
Proof.
  induction t as [|q ql qd l IHl r IHr]; intros lvl pi p len d d' Hwf Hf Hp; cbn [find_payload set_payload] in *; [exact I|].
  destruct (len <? ql); [exact Hwf|].
  cbn [WF] in Hwf. destruct Hwf as (H1 & H2 & H3 & H4 & H5 & H6 & H7 & H8 & H9 & H10 & H11 & H12).
  destruct ((ql =? len) && addr_eqb q p).
  - injection Hf as <-. cbn [WF]. repeat split; auto.
    + intros ->. apply Permutation_nil in Hp. auto.
    + eapply Permutation_NoDup; [apply Permutation_sym; exact Hp|exact H6].
  - destruct (bit p lvl); cbn [WF]; repeat split; auto.
    + apply root_ge_set_payload. exact H9.
    + rewrite keys_set_payload. exact H10.
    + eapply IHr; eassumption.
    + apply root_ge_set_payload. exact H8.
    + rewrite keys_set_payload. exact H10.
    + eapply IHl; eassumption.
Qed.


(* ---- blocks of a prefix table: three per node (node, node_data, array) ------------------------ *)
Definition pcls (c : cls) : bool := match c with PNode | PData | PAry => true | _ => false end.
Definition pblocks (T : table) : nat := size (t4 T) + size (t6 T).
(* [B] = the blocks that do not belong to this table *)
Definition LiveP (s : ast) (T : table) (B : cls -> nat) : Prop :=
  forall c, cnt c (live s) = B c + (if pcls c then pblocks T else 0).

Lemma pblocks_set_root_same T v6 t : size t = size (root T v6) -> pblocks (set_root T v6 t) = pblocks T.
Proof. unfold pblocks, set_root, root. destruct v6; cbn [t4 t6]; lia. Qed.
Lemma pblocks_set_root_S T v6 t : size t = S (size (root T v6)) -> pblocks (set_root T v6 t) = S (pblocks T).
Proof. unfold pblocks, set_root, root. destruct v6; cbn [t4 t6]; lia. Qed.
Lemma pblocks_set_root_P T v6 t : S (size t) = size (root T v6) -> S (pblocks (set_root T v6 t)) = pblocks T.
Proof. unfold pblocks, set_root, root. destruct v6; cbn [t4 t6]; lia. Qed.
Lemma pblocks_root T v6 : size (root T v6) <= pblocks T.
Proof. unfold pblocks, root. destruct v6; lia. Qed.

Lemma find_payload_wf W t : forall lvl pi p len d, WF W lvl pi t -> find_payload t lvl p len = Some d -> d <> [] /\ NoDup d.
Proof.
  induction t as [|q ql qd l IHl r IHr]; intros lvl pi p len d Hwf Hf; cbn [find_payload] in Hf; [discriminate|].
  destruct (len <? ql); [discriminate|].
  cbn [WF] in Hwf. destruct Hwf as (_ & _ & _ & _ & H5 & H6 & _ & _ & _ & _ & H11 & H12).
  destruct ((ql =? len) && addr_eqb q p); [injection Hf as <-; auto|].
  destruct (bit p lvl); [eapply IHr|eapply IHl]; eassumption.
Qed.

Lemma trecords_set_root_perm T v6 t : Permutation (records t) (records (root T v6)) ->
  Permutation (trecords (set_root T v6 t)) (trecords T).
Proof.
  intros H. unfold trecords, set_root, root in *. destruct v6; cbn [t4 t6].
  - apply Permutation_app_head, Permutation_map. exact H.
  - apply Permutation_app_tail, Permutation_map. exact H.
Qed.

Lemma create_node_spec s :
  exists b s', create_node_m s = Val b s' /\
    ((b = true /\ post s s' 0 /\ live s' = PAry :: PData :: PNode :: live s) \/
     (b = false /\ post s s' 1 /\ live s' = live s)).
Proof.
  unfold create_node_m, bind, malloc, realloc0, alloc_gen, free, ret.
  destruct (fails s); cbn.
  { eexists _, _. split; [reflexivity|]. right. split; [reflexivity|]. split; [post_tac|reflexivity]. }
  match goal with |- context [fails ?x] => destruct (fails x) end; cbn.
  { eexists _, _. split; [reflexivity|]. right. split; [reflexivity|]. split; [post_tac|reflexivity]. }
  match goal with |- context [fails ?x] => destruct (fails x) end; cbn.
  { eexists _, _. split; [reflexivity|]. right. split; [reflexivity|]. split; [post_tac|reflexivity]. }
  eexists _, _. split; [reflexivity|]. left. split; [reflexivity|]. split; [post_tac|reflexivity].
Qed.

(* ---- pfx_table_add: an allocation failed  <->  PFX_ERROR, and then nothing at all has changed --- *)
Lemma tadd_m_spec T r s B : TWF T -> LiveP s T B ->
  exists res s', tadd_m T r s = Val res s' /\
    ((post s s' 0 /\ res = tadd T r /\ LiveP s' (fst (fst (tadd T r))) B) \/
     (post s s' 1 /\ res = (T, ERROR, []) /\ LiveP s' T B)).
Proof.
  intros Hwf HL. destruct r as [[[v6 p] len] e]. unfold tadd_m.
  pose proof (add_by_payload (root T v6) 0 p len e) as Hadd.
  pose proof (TWF_root T v6 Hwf) as Hroot.
  destruct (find_payload (root T v6) 0 p len) as [d|] eqn:Ef.
  - destruct (existsb (elem_eqb e) d) eqn:Eex.
    + eexists _, _. split; [reflexivity|]. left. split; [apply post_refl|]. split; [reflexivity|].
      unfold tadd. rewrite Hadd. exact HL.
    + destruct (find_payload_wf _ _ _ _ _ _ _ Hroot Ef) as [Hne _].
      destruct d as [|x d]; [congruence|].
      assert (Hpos : 0 < cnt PAry (live s)).
      { rewrite (HL PAry). cbn [pcls]. pose proof (find_payload_size _ _ _ _ _ Ef). pose proof (pblocks_root T v6). lia. }
      destruct (realloc_spec PAry s Hpos) as (b & s1 & E1 & (Hl1 & Hf1) & Hc1 & _ & Hlive).
      unfold bind. rewrite E1. destruct Hadd as (t' & Ea & Hsz).
      destruct b; eexists _, _; (split; [reflexivity|]).
      * left. split; [unfold post, failures, libc_frees; rewrite Hl1; cbn; repeat split; auto; lia|]. split; [reflexivity|].
        unfold tadd. rewrite Ea. cbn [fst]. intros c. rewrite Hlive, (HL c), (pblocks_set_root_same T v6 t' Hsz). reflexivity.
      * right. split; [unfold post, failures, libc_frees; rewrite Hl1; cbn; repeat split; auto; lia|]. split; [reflexivity|].
        intros c. rewrite Hlive. apply HL.
  - destruct (create_node_spec s) as (b & s1 & E1 & [(-> & Hp & Hlive)|(-> & Hp & Hlive)]); unfold bind; rewrite E1;
      eexists _, _; (split; [reflexivity|]).
    + left. split; [exact Hp|]. split; [reflexivity|]. destruct Hadd as (t' & Ea & Hsz).
      unfold tadd. rewrite Ea. cbn [fst]. intros c. rewrite Hlive, (pblocks_set_root_S T v6 t' Hsz).
      specialize (HL c). destruct c; cbn in *; lia.
    + right. split; [exact Hp|]. split; [reflexivity|]. intros c. rewrite Hlive. apply HL.
Qed.

(* ---- pfx_table_remove ---------------------------------------------------------------------------- *)
Lemma three_frees s n : (forall c, pcls c = true -> n + 1 <= cnt c (live s)) ->
  exists s', (mdo _ <- free ViaCfg PAry ;; mdo _ <- free ViaCfg PData ;; free ViaCfg PNode) s = Val tt s' /\ post s s' 0 /\
    (forall c, cnt c (live s') = cnt c (live s) - (if pcls c then 1 else 0)).
Proof.
  intros H.
  destruct (free_spec ViaCfg PAry s) as (s1 & E1 & (L1 & F1) & C1 & _ & _ & N1); [specialize (H PAry eq_refl); lia|].
  destruct (free_spec ViaCfg PData s1) as (s2 & E2 & (L2 & F2) & C2 & _ & _ & N2); [rewrite N1; specialize (H PData eq_refl); cbn; lia|].
  destruct (free_spec ViaCfg PNode s2) as (s3 & E3 & (L3 & F3) & C3 & _ & _ & N3); [rewrite N2, N1; specialize (H PNode eq_refl); cbn; lia|].
  exists s3. unfold bind. rewrite E1, E2, E3. split; [reflexivity|]. split.
  - unfold post, failures, libc_frees. rewrite L3, L2, L1. cbn. repeat split; try congruence; lia.
  - intros c. rewrite N3, N2, N1. destruct c; cbn; lia.
Qed.

Lemma tremove_m_spec v T r s B : TWF T -> LiveP s T B ->
  exists res s', tremove_m v T r s = Val res s' /\
    ((post s s' 0 /\ res = tremove T r /\ LiveP s' (fst (fst (tremove T r))) B) \/
     (post s s' 1 /\ shrink_ok v = true /\ res = tremove T r /\ LiveP s' (fst (fst (tremove T r))) B) \/
     (post s s' 1 /\ shrink_ok v = false /\
      exists T', res = (T', ERROR, []) /\ TWF T' /\ Permutation (trecords T') (trecords T) /\ LiveP s' T' B)).
Proof.
  intros Hwf HL. destruct r as [[[v6 p] len] e]. unfold tremove_m.
  pose proof (remove_by_payload (root T v6) 0 p len e) as Hrem.
  pose proof (TWF_root T v6 Hwf) as Hroot.
  destruct (find_payload (root T v6) 0 p len) as [d|] eqn:Ef.
  2:{ eexists _, _. split; [reflexivity|]. left. split; [apply post_refl|]. split; [reflexivity|].
      unfold tremove. rewrite Hrem. exact HL. }
  destruct (existsb (elem_eqb e) d) eqn:Eex.
  2:{ eexists _, _. split; [reflexivity|]. left. split; [apply post_refl|]. split; [reflexivity|].
      unfold tremove. rewrite Hrem. exact HL. }
  pose proof (find_payload_size _ _ _ _ _ Ef) as Hsz1. pose proof (pblocks_root T v6) as Hpr.
  destruct (remove_first e d) as [|y d'] eqn:Erf.
  - destruct Hrem as (t' & Er & Hsz).
    destruct (three_frees s (pblocks T - 1)) as (s1 & E1 & Hp & Hn).
    { intros c Hc. rewrite (HL c), Hc. lia. }
    change (bind (free ViaCfg PAry) (fun _ => bind (free ViaCfg PData) (fun _ => bind (free ViaCfg PNode) (fun _ => ret (tremove T (v6, p, len, e))))))
      with (bind (free ViaCfg PAry) (fun _ => bind (free ViaCfg PData) (fun _ => bind (free ViaCfg PNode) (fun _ => ret (tremove T (v6, p, len, e)))))).
    assert (Hb : (mdo _ <- free ViaCfg PAry ;; mdo _ <- free ViaCfg PData ;; mdo _ <- free ViaCfg PNode ;; ret (tremove T (v6, p, len, e))) s
                 = Val (tremove T (v6, p, len, e)) s1).
    { unfold bind in *. destruct (free ViaCfg PAry s) as [[] sa|]; [|discriminate].
      destruct (free ViaCfg PData sa) as [[] sb|]; [|discriminate]. destruct (free ViaCfg PNode sb) as [[] sc|]; [|discriminate].
      injection E1 as ->. reflexivity. }
    rewrite Hb. eexists _, _. split; [reflexivity|]. left. split; [exact Hp|]. split; [reflexivity|].
    unfold tremove. rewrite Er. cbn [fst]. intros c. rewrite Hn, (HL c).
    pose proof (pblocks_set_root_P T v6 t' Hsz). destruct (pcls c); lia.
  - destruct Hrem as (t' & Er & Hsz).
    assert (Hpos : 0 < cnt PAry (live s)) by (rewrite (HL PAry); cbn [pcls]; lia).
    destruct (realloc_spec PAry s Hpos) as (b & s1 & E1 & (Hl1 & Hf1) & Hc1 & _ & Hlive).
    unfold bind. rewrite E1.
    assert (Hpure : LiveP s1 (fst (fst (tremove T (v6, p, len, e)))) B).
    { unfold tremove. rewrite Er. cbn [fst]. intros c. rewrite Hlive, (HL c), (pblocks_set_root_same T v6 t' Hsz). reflexivity. }
    destruct b; cbn [orb].
    + eexists _, _. split; [reflexivity|]. left.
      split; [unfold post, failures, libc_frees; rewrite Hl1; cbn; repeat split; auto; lia|]. split; [reflexivity|exact Hpure].
    + destruct (shrink_ok v) eqn:Ev; eexists _, _; (split; [reflexivity|]); right.
      * left. split; [unfold post, failures, libc_frees; rewrite Hl1; cbn; repeat split; auto; lia|]. auto.
      * right. split; [unfold post, failures, libc_frees; rewrite Hl1; cbn; repeat split; auto; lia|]. split; [reflexivity|].
        eexists. split; [reflexivity|].
        assert (Hperm : Permutation ((y :: d') ++ [e]) d).
        { rewrite <- Erf. apply existsb_elem in Eex. apply Permutation_sym.
          eapply Permutation_trans; [apply remove_first_perm; exact Eex|]. apply Permutation_cons_append. }
        split; [|split].
        -- apply TWF_set_root; [exact Hwf|]. eapply WF_set_payload; eassumption.
        -- apply trecords_set_root_perm. eapply records_set_payload; eassumption.
        -- intros c. rewrite Hlive, (HL c). rewrite pblocks_set_root_same; [reflexivity|apply size_set_payload].
Qed.


(* ---- pfx_table_src_remove ------------------------------------------------------------------------ *)
Definition keep_of (s0 : N) (e : elem) : bool := negb (e_src e =? s0)%N.
Definition gone_of (s0 : N) (e : elem) : bool := (e_src e =? s0)%N.

(* no fault: the loop over one array removes exactly the source's elements *)
Lemma del_loop_erases v s0 : forall rest pre,
  erases (del_loop v s0 pre rest) (pre ++ filter (keep_of s0) rest, filter (gone_of s0) rest, true).
Proof.
  induction rest as [|x rest IH]; intros pre; cbn [del_loop filter].
  - rewrite app_nil_r. apply erases_ret.
  - unfold keep_of, gone_of in *. destruct (e_src x =? s0)%N eqn:Ex; cbn [negb].
    + destruct (pre ++ rest) as [|y l] eqn:El.
      * apply app_eq_nil in El as [-> ->]. cbn [filter app].
        eapply erases_bind; [apply erases_free|apply erases_ret].
      * eapply erases_bind; [apply erases_realloc|]. cbn [orb].
        eapply erases_bind; [apply IH|]. cbn. apply erases_ret.
    + specialize (IH (pre ++ [x])). rewrite <- app_assoc in IH. exact IH.
Qed.

Definition lift3 (o : option (trie * list record)) : option (trie * list record * bool) :=
  match o with Some (t, c) => Some (t, c, true) | None => None end.

Lemma remove_id_m_erases v s0 : forall fuel t, erases (remove_id_m v fuel t s0) (lift3 (remove_id fuel t s0)).
Proof.
  induction fuel as [|f IH]; intros t.
  - destruct t; cbn [remove_id_m remove_id lift3]; apply erases_ret.
  - destruct t as [|q ql qd l r]; [cbn [remove_id_m remove_id lift3]; apply erases_ret|].
    cbn [remove_id_m remove_id].
    eapply erases_bind; [apply (del_loop_erases v s0 qd [])|]. cbn [app negb].
    change (fun e : elem => negb (e_src e =? s0)%N) with (keep_of s0).
    change (fun e : elem => (e_src e =? s0)%N) with (gone_of s0).
    destruct (filter (keep_of s0) qd) as [|y d'] eqn:Ed.
    + eapply erases_bind; [apply erases_free|]. eapply erases_bind; [apply erases_free|].
      eapply erases_bind; [apply IH|].
      destruct (remove_id f (pull (Node q ql qd l r)) s0) as [[t' cbs]|]; cbn [lift3]; apply erases_ret.
    + eapply erases_bind; [apply IH|].
      destruct (remove_id f l s0) as [[l' cl]|]; cbn [lift3 negb]; [|apply erases_ret].
      eapply erases_bind; [apply IH|].
      destruct (remove_id f r s0) as [[r' cr]|]; cbn [lift3]; apply erases_ret.
Qed.

Definition lift_src (o : option (table * list cb)) : option (table * rc * list cb) :=
  match o with Some (T, c) => Some (T, SUCCESS, c) | None => None end.

Lemma tsrc_remove_m_erases v T s0 : erases (tsrc_remove_m v T s0) (lift_src (tsrc_remove T s0)).
Proof.
  unfold tsrc_remove_m, tsrc_remove.
  eapply erases_bind; [apply remove_id_m_erases|].
  destruct (remove_id (size (t4 T)) (t4 T) s0) as [[a ca]|]; cbn [lift3 lift_src negb]; [|apply erases_ret].
  eapply erases_bind; [apply remove_id_m_erases|].
  destruct (remove_id (size (t6 T)) (t6 T) s0) as [[b cb6]|]; cbn [lift3 lift_src]; apply erases_ret.
Qed.

(* with the repaired pfx_table_del_elem a failed shrink changes nothing in what the loop computes *)
Lemma del_loop_spec v s0 : shrink_ok v = true -> forall rest pre s,
  pre ++ rest <> [] -> 0 < cnt PAry (live s) ->
  exists s' df, del_loop v s0 pre rest s = Val (pre ++ filter (keep_of s0) rest, filter (gone_of s0) rest, true) s' /\
    post s s' df /\
    (forall c, cnt c (live s') = cnt c (live s) -
               (if cls_eqb c PAry then (match pre ++ filter (keep_of s0) rest with [] => 1 | _ => 0 end) else 0)).
Proof.
  intros Hv. induction rest as [|x rest IH]; intros pre s Hne Hpos; cbn [del_loop filter].
  - rewrite app_nil_r in *. exists s, 0. split; [reflexivity|]. split; [apply post_refl|].
    intros c. destruct pre; [congruence|]. destruct (cls_eqb c PAry); lia.
  - unfold keep_of, gone_of in *. destruct (e_src x =? s0)%N eqn:Ex; cbn [negb].
    + destruct (pre ++ rest) as [|y l] eqn:El.
      * apply app_eq_nil in El as [-> ->]. cbn [filter app].
        destruct (free_spec ViaCfg PAry s Hpos) as (s1 & E1 & (L1 & F1) & C1 & _ & _ & N1).
        unfold bind. rewrite E1. exists s1, 0. split; [reflexivity|].
        split; [unfold post, failures, libc_frees; rewrite L1; cbn; repeat split; auto; lia|].
        intros c. rewrite N1. reflexivity.
      * destruct (realloc_spec PAry s Hpos) as (b & s1 & E1 & (L1 & F1) & C1 & _ & Hlive).
        unfold bind at 1. rewrite E1. rewrite Hv, orb_true_r.
        destruct (IH pre s1) as (s2 & df & E2 & Hp2 & N2); [rewrite El; discriminate|rewrite Hlive; exact Hpos|].
        unfold bind. rewrite E2. exists s2, ((if b then 0 else 1) + df). split; [reflexivity|]. split.
        -- eapply post_trans; [|exact Hp2]. unfold post, failures, libc_frees. rewrite L1. destruct b; cbn; repeat split; auto; lia.
        -- intros c. rewrite N2, Hlive. reflexivity.
    + destruct (IH (pre ++ [x]) s) as (s2 & df & E2 & Hp2 & N2).
      * rewrite <- app_assoc. exact Hne.
      * exact Hpos.
      * rewrite <- app_assoc in E2, N2. exists s2, df. auto.
Qed.

Lemma filter_keep_gone_nil s0 d : filter (keep_of s0) d = [] -> filter (gone_of s0) d = d.
Proof.
  unfold keep_of, gone_of. induction d as [|x d IH]; cbn [filter]; [reflexivity|].
  destruct (e_src x =? s0)%N; cbn [negb]; [intros H; f_equal; auto|discriminate].
Qed.

Lemma remove_id_m_spec v s0 : shrink_ok v = true -> forall W fuel t lvl pi s K,
  size t <= fuel -> WF W lvl pi t -> length pi = lvl ->
  (forall c, cnt c (live s) = K c + (if pcls c then size t else 0)) ->
  exists t' cbs s' df, remove_id fuel t s0 = Some (t', cbs) /\
    remove_id_m v fuel t s0 s = Val (Some (t', cbs, true)) s' /\ post s s' df /\
    (forall c, cnt c (live s') = K c + (if pcls c then size t' else 0)).
Proof.
  intros Hv W. induction fuel as [|f IH]; intros t lvl pi s K Hfuel Hwf Hpi HL.
  - destruct t; cbn [size] in Hfuel; [|lia]. exists Leaf, [], s, 0. cbn. repeat split; auto; try apply post_refl.
  - destruct t as [|q ql qd l r].
    { exists Leaf, [], s, 0. cbn. repeat split; auto; apply post_refl. }
    cbn [remove_id_m remove_id].
    pose proof Hwf as Hwf0. cbn [WF] in Hwf. destruct Hwf as (_ & _ & _ & _ & Hne & _ & _ & _ & _ & _ & Hwl & Hwr).
    assert (Hpos : 0 < cnt PAry (live s)) by (rewrite (HL PAry); cbn [pcls size]; lia).
    destruct (del_loop_spec v s0 Hv qd [] s) as (s1 & df1 & E1 & Hp1 & N1); [exact Hne|exact Hpos|].
    unfold bind at 1. rewrite E1. cbn [app negb].
    change (fun e : elem => negb (e_src e =? s0)%N) with (keep_of s0).
    change (fun e : elem => (e_src e =? s0)%N) with (gone_of s0).
    cbn [app] in N1.
    destruct (filter (keep_of s0) qd) as [|y d'] eqn:Ed.
    + (* the node goes: node_data and node are released, its content is replaced from below *)
      destruct (free_spec ViaCfg PData s1) as (s2 & E2 & (L2 & F2) & C2 & _ & _ & N2).
      { rewrite N1, (HL PData). cbn [pcls size cls_eqb]. lia. }
      destruct (free_spec ViaCfg PNode s2) as (s3 & E3 & (L3 & F3) & C3 & _ & _ & N3).
      { rewrite N2, N1, (HL PNode). cbn [pcls size cls_eqb]. lia. }
      unfold bind at 1. rewrite E2. unfold bind at 1. rewrite E3.
      assert (Hsz : S (size (pull (Node q ql qd l r))) = size (Node q ql qd l r)) by (apply size_pull; discriminate).
      destruct (IH (pull (Node q ql qd l r)) lvl pi s3 K) as (t' & cbs & s4 & df4 & Ep & Em & Hp4 & N4).
      * cbn [size] in *. lia.
      * apply pull_WF; assumption.
      * exact Hpi.
      * intros c. rewrite N3, N2, N1, (HL c). cbn [size] in *. destruct c; cbn [pcls cls_eqb]; lia.
      * rewrite Ep. unfold bind. rewrite Em. eexists _, _, s4, _. split; [reflexivity|]. split; [reflexivity|]. split; [|exact N4].
        eapply post_trans; [exact Hp1|]. eapply post_trans; [|exact Hp4].
        instantiate (1 := 0). unfold post, failures, libc_frees. rewrite L3, L2. cbn. repeat split; try congruence; lia.
    + (* the node stays: left subtree, then right subtree *)
      assert (HS : forall b, length (pi ++ [b]) = S lvl) by (intros; rewrite app_length; cbn; lia).
      destruct (IH l (S lvl) (pi ++ [false]) s1 (fun c => K c + (if pcls c then 1 + size r else 0))) as (l' & cl & s2 & df2 & El & Eml & Hp2 & N2).
      * cbn [size] in Hfuel. lia.
      * exact Hwl.
      * apply HS.
      * intros c. rewrite N1, (HL c). cbn [size]. destruct c; cbn; lia.
      * rewrite El. unfold bind at 1. rewrite Eml. cbn [negb].
        destruct (IH r (S lvl) (pi ++ [true]) s2 (fun c => K c + (if pcls c then 1 + size l' else 0))) as (r' & cr & s3 & df3 & Er & Emr & Hp3 & N3).
        -- cbn [size] in Hfuel. lia.
        -- exact Hwr.
        -- apply HS.
        -- intros c. rewrite N2. destruct c; cbn; lia.
        -- rewrite Er. unfold bind. rewrite Emr. eexists _, _, s3, _. split; [reflexivity|]. split; [reflexivity|]. split.
           ++ eapply post_trans; [exact Hp1|]. eapply post_trans; [exact Hp2|exact Hp3].
           ++ intros c. rewrite N3. cbn [size]. destruct c; cbn; lia.
Qed.

Lemma tsrc_remove_m_spec v T s0 s B : shrink_ok v = true -> TWF T -> LiveP s T B ->
  exists T' cbs s' df, tsrc_remove T s0 = Some (T', cbs) /\
    tsrc_remove_m v T s0 s = Val (Some (T', SUCCESS, cbs)) s' /\ post s s' df /\ LiveP s' T' B.
Proof.
  intros Hv [H4 H6] HL. unfold tsrc_remove_m, tsrc_remove.
  destruct (remove_id_m_spec v s0 Hv 32 (size (t4 T)) (t4 T) 0 [] s (fun c => B c + (if pcls c then size (t6 T) else 0)))
    as (a & ca & s1 & df1 & Ea & Ema & Hp1 & N1); [lia|exact H4|reflexivity| |].
  { intros c. rewrite (HL c). unfold pblocks. destruct (pcls c); lia. }
  rewrite Ea. unfold bind at 1. rewrite Ema. cbn [negb].
  destruct (remove_id_m_spec v s0 Hv 128 (size (t6 T)) (t6 T) 0 [] s1 (fun c => B c + (if pcls c then size a else 0)))
    as (b & cb6 & s2 & df2 & Eb & Emb & Hp2 & N2); [lia|exact H6|reflexivity| |].
  { intros c. rewrite N1. destruct (pcls c); lia. }
  rewrite Eb. unfold bind. rewrite Emb. eexists _, _, s2, _. split; [reflexivity|]. split; [reflexivity|]. split.
  - eapply post_trans; eassumption.
  - intros c. rewrite N2. unfold pblocks. cbn [t4 t6]. destruct (pcls c); lia.
Qed.


(* ---- no fault: the pure operations ---------------------------------------------------------------- *)
Lemma create_node_erases : erases create_node_m true.
Proof.
  unfold create_node_m. eapply erases_bind; [apply erases_malloc|]. cbn [negb].
  eapply erases_bind; [apply erases_malloc|]. cbn [negb].
  eapply erases_bind; [apply erases_realloc0|]. cbn [negb]. apply erases_ret.
Qed.

Lemma tadd_m_erases T r : erases (tadd_m T r) (tadd T r).
Proof.
  destruct r as [[[v6 p] len] e]. unfold tadd_m.
  destruct (find_payload (root T v6) 0 p len) as [d|].
  - destruct (existsb (elem_eqb e) d); [apply erases_ret|].
    apply (erases_bind _ _ true); [destruct d; [apply erases_realloc0|apply erases_realloc]|]. apply erases_ret.
  - eapply erases_bind; [apply create_node_erases|]. apply erases_ret.
Qed.

Lemma tremove_m_erases v T r : erases (tremove_m v T r) (tremove T r).
Proof.
  destruct r as [[[v6 p] len] e]. unfold tremove_m.
  destruct (find_payload (root T v6) 0 p len) as [d|]; [|apply erases_ret].
  destruct (existsb (elem_eqb e) d); [|apply erases_ret].
  destruct (remove_first e d).
  - eapply erases_bind; [apply erases_free|]. eapply erases_bind; [apply erases_free|].
    eapply erases_bind; [apply erases_free|]. apply erases_ret.
  - eapply erases_bind; [apply erases_realloc|]. cbn [orb]. apply erases_ret.
Qed.

Lemma tfree_m_erases T : erases (tfree_m T) (tfree T).
Proof.
  unfold tfree_m. eapply erases_bind; [|apply erases_ret]. apply erases_repeat.
  eapply erases_bind; [apply erases_free|]. eapply erases_bind; [apply erases_free|]. apply erases_free.
Qed.

Lemma reason_loop_erases v : forall n held, erases (reason_loop v n held) true.
Proof.
  induction n as [|n IH]; intros held; cbn [reason_loop]; [apply erases_ret|].
  apply (erases_bind _ _ true); [destruct held; [apply erases_realloc|apply erases_realloc0]|]. apply IH.
Qed.

Lemma tvalidate_m_erases v T v6 asn q qlen : erases (tvalidate_m v T v6 asn q qlen) (Some (tvalidate T v6 asn q qlen)).
Proof.
  unfold tvalidate_m. eapply erases_bind; [apply reason_loop_erases|].
  eapply erases_bind; [apply erases_when, erases_free|]. apply erases_ret.
Qed.

(* ---- pfx_table_free releases everything the table holds ------------------------------------------- *)
Lemma repeat_three_frees : forall n s, (forall c, pcls c = true -> n <= cnt c (live s)) ->
  exists s', repeat_m n (mdo _ <- free ViaCfg PAry ;; mdo _ <- free ViaCfg PData ;; free ViaCfg PNode) s = Val tt s' /\
    post s s' 0 /\ (forall c, cnt c (live s') = cnt c (live s) - (if pcls c then n else 0)).
Proof.
  induction n as [|n IH]; intros s H; cbn [repeat_m].
  - exists s. split; [reflexivity|]. split; [apply post_refl|]. intros c. destruct (pcls c); lia.
  - destruct (three_frees s n) as (s1 & E1 & Hp1 & N1); [intros c Hc; specialize (H c Hc); lia|].
    destruct (IH s1) as (s2 & E2 & Hp2 & N2); [intros c Hc; rewrite N1, Hc; specialize (H c Hc); lia|].
    exists s2. unfold bind at 1. rewrite E1. split; [exact E2|]. split; [apply (post_trans _ _ _ 0 0 Hp1 Hp2)|].
    intros c. rewrite N2, N1. destruct (pcls c); lia.
Qed.

Lemma tfree_m_spec T s B : LiveP s T B ->
  exists s', tfree_m T s = Val (tfree T) s' /\ post s s' 0 /\ LiveP s' empty_table B.
Proof.
  intros HL. unfold tfree_m.
  destruct (repeat_three_frees (size (t4 T) + size (t6 T)) s) as (s1 & E1 & Hp1 & N1).
  { intros c Hc. rewrite (HL c), Hc. unfold pblocks. lia. }
  exists s1. rewrite (bind_val _ _ _ _ _ E1). split; [reflexivity|]. split; [exact Hp1|].
  intros c. rewrite N1, (HL c). unfold pblocks. cbn [empty_table t4 t6 size]. destruct (pcls c); lia.
Qed.

(* ---- pfx_table_validate_r --------------------------------------------------------------------------- *)
Lemma reason_loop_spec v : forall n held s, (held = true -> 0 < cnt PReason (live s)) ->
  exists ok s', reason_loop v n held s = Val ok s' /\
    ((ok = true /\ post s s' 0 /\
      (forall c, cnt c (live s') = cnt c (live s) + (if cls_eqb c PReason && negb held && negb (Nat.eqb n 0) then 1 else 0))) \/
     (ok = false /\ post s s' 1 /\
      (reason_tmp v = true -> forall c, cnt c (live s') = cnt c (live s) - (if cls_eqb c PReason && held then 1 else 0)))).
Proof.
  induction n as [|n IH]; intros held s Hh; cbn [reason_loop].
  - exists true, s. split; [reflexivity|]. left. split; [reflexivity|]. split; [apply post_refl|].
    intros c. rewrite andb_false_r. lia.
  - destruct held.
    + destruct (realloc_spec PReason s (Hh eq_refl)) as (b & s1 & E1 & (L1 & F1) & C1 & _ & Hlive).
      unfold bind at 1. rewrite E1. destruct b.
      * destruct (IH true s1) as (ok & s2 & E2 & H2); [intros _; rewrite Hlive; auto|].
        exists ok, s2. split; [exact E2|].
        assert (Hp1 : post s s1 0) by (unfold post, failures, libc_frees; rewrite L1; cbn; repeat split; auto; lia).
        destruct H2 as [(-> & Hp2 & N2)|(-> & Hp2 & N2)]; [left|right]; (split; [reflexivity|]).
        -- split; [apply (post_trans _ _ _ 0 0 Hp1 Hp2)|]. intros c. rewrite N2, Hlive. cbn [negb andb]. rewrite !andb_false_r. reflexivity.
        -- split; [apply (post_trans _ _ _ 0 1 Hp1 Hp2)|]. intros Hv c. rewrite (N2 Hv), Hlive. reflexivity.
      * cbn [andb]. destruct (reason_tmp v) eqn:Ev; cbn [when].
        -- destruct (free_spec ViaCfg PReason s1) as (s2 & E2 & (L2 & F2) & C2 & _ & _ & N2); [rewrite Hlive; auto|].
           unfold bind. rewrite E2. exists false, s2. split; [reflexivity|]. right. split; [reflexivity|]. split.
           ++ unfold post, failures, libc_frees. rewrite L2, L1. cbn. repeat split; try congruence; lia.
           ++ intros _ c. rewrite N2, Hlive. rewrite andb_true_r. reflexivity.
        -- unfold bind, ret. exists false, s1. split; [reflexivity|]. right. split; [reflexivity|]. split.
           ++ unfold post, failures, libc_frees. rewrite L1. cbn. repeat split; auto; lia.
           ++ discriminate.
    + destruct (alloc_gen_spec (EvR0 PReason) PReason s) as (b & s1 & E1 & (L1 & F1) & C1 & _ & Hlive).
      unfold bind at 1. unfold realloc0. rewrite E1. destruct b.
      * destruct (IH true s1) as (ok & s2 & E2 & H2); [intros _; rewrite Hlive; cbn; lia|].
        exists ok, s2. split; [exact E2|].
        assert (Hp1 : post s s1 0) by (unfold post, failures, libc_frees; rewrite L1; cbn; repeat split; auto; lia).
        destruct H2 as [(-> & Hp2 & N2)|(-> & Hp2 & N2)]; [left|right]; (split; [reflexivity|]).
        -- split; [apply (post_trans _ _ _ 0 0 Hp1 Hp2)|]. intros c. rewrite N2, Hlive. cbn [cnt negb andb Nat.eqb].
           destruct (cls_eqb c PReason), (Nat.eqb n 0); cbn; lia.
        -- split; [apply (post_trans _ _ _ 0 1 Hp1 Hp2)|]. intros Hv c. rewrite (N2 Hv), Hlive. cbn [cnt].
           destruct (cls_eqb c PReason); cbn; lia.
      * cbn [andb when]. unfold bind, ret. exists false, s1. split; [reflexivity|]. right. split; [reflexivity|]. split.
        -- unfold post, failures, libc_frees. rewrite L1. cbn. repeat split; auto; lia.
        -- intros _ c. rewrite Hlive, andb_false_r. lia.
Qed.

Lemma tvalidate_m_spec v T v6 asn q qlen s :
  exists res s', tvalidate_m v T v6 asn q qlen s = Val res s' /\
    ((post s s' 0 /\ res = Some (tvalidate T v6 asn q qlen) /\ (forall c, cnt c (live s') = cnt c (live s))) \/
     (post s s' 1 /\ res = None /\ (reason_tmp v = true -> forall c, cnt c (live s') = cnt c (live s)))).
Proof.
  unfold tvalidate_m. set (n := val_allocs (root T v6) 0 asn q qlen).
  destruct (reason_loop_spec v n false s) as (ok & s1 & E1 & H1); [discriminate|].
  unfold bind at 1. rewrite E1. destruct H1 as [(-> & Hp1 & N1)|(-> & Hp1 & N1)].
  - destruct (Nat.eqb n 0) eqn:En; cbn [negb when]; try rewrite En in N1.
    + unfold bind, ret. eexists _, s1. split; [reflexivity|]. left. split; [exact Hp1|]. split; [reflexivity|].
      intros c. rewrite N1. cbn [negb]. rewrite andb_false_r. lia.
    + destruct (free_spec ViaCfg PReason s1) as (s2 & E2 & (L2 & F2) & C2 & _ & _ & N2).
      { rewrite N1. cbn [cls_eqb negb andb]. lia. }
      unfold bind. rewrite E2. eexists _, s2. split; [reflexivity|]. left. split; [|split; [reflexivity|]].
      * eapply (post_trans _ _ _ 0 0); [exact Hp1|]. unfold post, failures, libc_frees. rewrite L2. cbn. repeat split; try congruence; lia.
      * intros c. rewrite N2, N1. cbn [negb andb]. destruct (cls_eqb c PReason); cbn; lia.
  - unfold ret. eexists _, s1. split; [reflexivity|]. right. split; [exact Hp1|]. split; [reflexivity|].
    intros Hv c. rewrite (N1 Hv). rewrite andb_false_r. lia.
Qed.

End PfxP.

(* ================================================================================================ *)
Module SpkiP.
Import RtrV.Spki.Hashlin RtrV.Spki.SpkiModel RtrV.Spki.SpkiProofs.
Import SpkiA.
Local Open Scope Z_scope.

(* ---- bucket_bit (= number of segments) under insert / remove -------------------------------------- *)
Section Bits.
Variable A : Type.
Variable bit0 : Z.

Lemma grow_loop_bb fuel : forall target (h : hashlin A), bucket_bit (grow_loop fuel target h) = bucket_bit h.
Proof.
  induction fuel as [|f IH]; intros target h; cbn [grow_loop]; [reflexivity|].
  destruct (split h + low_max h <? target); [|reflexivity].
  destruct (split (split_one h) =? low_max (split_one h)).
  - unfold set_stable, split_one. reflexivity.
  - rewrite IH. unfold split_one. reflexivity.
Qed.

Lemma grow_step_bb (h : hashlin A) :
  bucket_bit (grow_step h) =
  bucket_bit h + (if negb (state h =? ST_GROW) && (bucket_max h / 2 <? count h) && (state h =? ST_STABLE) then 1 else 0).
Proof.
  unfold grow_step, grow_setup.
  destruct (negb (state h =? ST_GROW) && (bucket_max h / 2 <? count h)) eqn:E1; cbn [andb].
  - destruct (state h =? ST_STABLE) eqn:E2; unfold set_state; cbn [state bucket_bit low_max count];
      change (ST_GROW =? ST_GROW) with true; cbn iota; rewrite grow_loop_bb; cbn [bucket_bit]; lia.
  - destruct (state h =? ST_GROW); [rewrite grow_loop_bb|]; lia.
Qed.

Lemma shrink_loop_bb fuel : forall target (h : hashlin A),
  bucket_bit (shrink_loop fuel target h) = bucket_bit h \/ bucket_bit (shrink_loop fuel target h) = bucket_bit h - 1.
Proof.
  induction fuel as [|f IH]; intros target h; cbn [shrink_loop]; [left; reflexivity|].
  destruct (target <? split h + low_max h); [|left; reflexivity].
  destruct (split (merge_one h) =? 0).
  - right. unfold shrink_finish, set_stable, merge_one. reflexivity.
  - destruct (IH target (merge_one h)) as [H|H]; rewrite H; unfold merge_one; cbn [bucket_bit]; auto.
Qed.

Lemma shrink_step_bb (h : hashlin A) :
  bucket_bit (shrink_step bit0 h) = bucket_bit h \/ bucket_bit (shrink_step bit0 h) = bucket_bit h - 1.
Proof.
  unfold shrink_step.
  assert (Hs : bucket_bit (shrink_setup bit0 h) = bucket_bit h).
  { unfold shrink_setup. destruct (negb (state h =? ST_SHRINK) && (count h <? bucket_max h / 8)); [|reflexivity].
    destruct (bit0 <? bucket_bit h); [|reflexivity]. destruct (state h =? ST_STABLE); reflexivity. }
  destruct (state (shrink_setup bit0 h) =? ST_SHRINK); [|left; exact Hs].
  destruct (shrink_loop_bb (Z.to_nat (low_max (shrink_setup bit0 h))) (8 * count (shrink_setup bit0 h)) (shrink_setup bit0 h)) as [H|H];
    rewrite H, Hs; auto.
Qed.

Lemma hl_remove_first_bb (h : hashlin A) k f :
  let h' := fst (hl_remove_first bit0 h k f) in bucket_bit h' = bucket_bit h \/ bucket_bit h' = bucket_bit h - 1.
Proof.
  unfold hl_remove_first. destruct (find f (get_bucket h (bucket_pos h k))); cbn [fst]; [|left; reflexivity].
  match goal with |- context [shrink_step bit0 ?x] => destruct (shrink_step_bb x) as [H|H]; rewrite H end;
    unfold set_buckets; cbn [bucket_bit]; auto.
Qed.

Lemma hl_inv_bb (h : hashlin A) : 0 <= bit0 -> hl_inv A bit0 h -> bit0 <= bucket_bit h.
Proof.
  intros _ (b & Hsh & _). pose proof (sh_b _ _ _ _ Hsh). destruct (sh_mode _ _ _ _ Hsh) as [(_ & -> & _)|(_ & -> & _)]; lia.
Qed.
End Bits.

Section K.
Variable hash : Z -> Z.
Variable bit0 : Z.
Hypothesis bit0_nonneg : 0 <= bit0.
Local Notation Inv := (SpkiInv hash bit0).

(* ---- no fault: the pure operations ----------------------------------------------------------------- *)
Lemma add_entry_m_erases v t e : erases (add_entry_m hash v t e) (add_entry hash t e).
Proof.
  unfold add_entry_m. eapply erases_bind; [apply erases_malloc|]. cbn [negb].
  destruct (hl_search (ht t) (key_entry_cmp e) (hash (e_asn e))).
  - eapply erases_bind; [apply erases_free|apply erases_ret].
  - destruct (need_seg (ht t)); [|apply erases_ret].
    eapply erases_bind; [apply erases_malloc|]. apply erases_ret.
Qed.

Lemma remove_entry_m_erases t e : erases (remove_entry_m hash bit0 t e) (remove_entry hash bit0 t e).
Proof.
  unfold remove_entry_m. destruct (remove_entry hash bit0 t e) as [[rc t'] cbs].
  eapply erases_bind; [apply erases_when, erases_free|]. eapply erases_bind; [apply erases_when, erases_free|]. apply erases_ret.
Qed.

Lemma src_walk_m_erases s0 : forall l t, erases (src_walk_m hash bit0 l s0 t) (src_remove_walk hash bit0 l s0 t).
Proof.
  induction l as [|e r IH]; intros t; cbn [src_walk_m src_remove_walk]; [apply erases_ret|].
  destruct (e_src e =? s0); [|apply IH].
  eapply erases_bind; [apply erases_when, erases_free|]. eapply erases_bind; [apply erases_free|]. apply IH.
Qed.

Lemma src_remove_m_erases t s0 : erases (src_remove_m hash bit0 t s0) (src_remove hash bit0 t s0).
Proof. unfold src_remove_m. eapply erases_bind; [apply src_walk_m_erases|apply erases_ret]. Qed.

Lemma result_loop_erases v : forall n held, erases (result_loop v n held) (true, false).
Proof.
  induction n as [|n IH]; intros held; cbn [result_loop]; [apply erases_ret|].
  apply (erases_bind _ _ true); [destruct held; [apply erases_realloc|apply erases_realloc0]|]. apply IH.
Qed.

Lemma lookup_m_erases v found : erases (lookup_m v found) (Some found).
Proof.
  unfold lookup_m. eapply erases_bind; [apply result_loop_erases|]. cbn.
  eapply erases_bind; [apply erases_when, erases_free|apply erases_ret].
Qed.

(* ---- blocks of a router-key table: one per entry, one per segment ---------------------------------- *)
Definition kblocks (t : spki_table) (c : cls) : nat :=
  match c with KEntry => List.length (lst t) | HSeg => nsegs bit0 t | _ => O end.
Definition LiveK (s : ast) (t : spki_table) (B : cls -> nat) : Prop :=
  forall c, cnt c (live s) = (B c + kblocks t c)%nat.

Lemma nsegs_pos t : (1 <= nsegs bit0 t)%nat.
Proof. unfold nsegs. lia. Qed.

(* tommy_hashlin_insert without the grow step keeps the table invariant *)
Lemma hl_insert_nogrow_inv (h : hashlin entry) k a : hl_inv entry bit0 h ->
  hl_inv entry bit0 (hl_insert_nogrow h k a) /\ Permutation (elements (hl_insert_nogrow h k a)) ((k, a) :: elements h).
Proof.
  intros (b & Hsh & Hstrict). unfold hl_insert_nogrow.
  change (get_bucket h (bucket_pos h k)) with (hl_bucket h k).
  destruct (bucket_others entry bit0 bit0_nonneg h b k Hsh) as (l1 & l2 & Hbs & Hl1 & _ & Hin).
  set (bkt := hl_bucket h k) in *.
  assert (Hupd : upd (Z.to_nat (bucket_pos h k)) (bkt ++ [(k, a)]) (buckets h) = l1 ++ (bkt ++ [(k, a)]) :: l2)
    by (rewrite Hbs; apply upd_app_mid; lia).
  rewrite Hupd.
  assert (Hsh' : hl_shape entry bit0 (set_buckets h (l1 ++ (bkt ++ [(k, a)]) :: l2) (count h + 1)) b).
  { apply (replace_bucket_shape entry bit0 h b l1 bkt l2); [exact Hsh|exact Hbs| |].
    - intros n Hn. apply in_app_or in Hn as [Hn|[<-|[]]].
      + rewrite <- (shape_pos entry bit0 bit0_nonneg h b _ Hsh). rewrite (Hin n Hn). lia.
      + cbn [fst]. rewrite <- (shape_pos entry bit0 bit0_nonneg h b _ Hsh). lia.
    - rewrite (sh_count _ _ _ _ Hsh), Hbs. rewrite !concat_app. cbn [List.concat]. rewrite !app_length. cbn [length]. lia. }
  split; [exists b; split; [exact Hsh'|exact Hstrict]|].
  unfold elements, set_buckets. cbn [buckets]. rewrite Hbs. rewrite !concat_app. cbn [List.concat].
  replace (concat l1 ++ (bkt ++ [(k, a)]) ++ concat l2) with ((concat l1 ++ bkt) ++ (k, a) :: concat l2)
    by (rewrite <- !app_assoc; reflexivity).
  apply Permutation_sym, Permutation_cons_app. rewrite <- app_assoc. apply Permutation_refl.
Qed.

Lemma add_entry_nogrow_spec t e : Inv t -> ~ In e (lst t) ->
  exists t', add_entry_nogrow hash t e = (SPKI_SUCCESS, t', [(e, true)]) /\ lst t' = lst t ++ [e] /\ Inv t' /\
             bucket_bit (ht t') = bucket_bit (ht t).
Proof.
  intros Hinv Hni. unfold add_entry_nogrow. eexists. split; [reflexivity|]. cbn [lst ht]. split; [reflexivity|].
  destruct (hl_insert_nogrow_inv (ht t) (hash (e_asn e)) e (si_hl _ _ _ Hinv)) as [Hhl Hperm]. split.
  - constructor; cbn [ht lst].
    + exact Hhl.
    + eapply Permutation_trans; [exact Hperm|]. rewrite map_app. cbn [map].
      eapply Permutation_trans; [apply perm_skip, (si_perm _ _ _ Hinv)|]. apply Permutation_cons_append.
    + apply NoDup_snoc; [exact (si_nodup _ _ _ Hinv)|exact Hni].
  - unfold hl_insert_nogrow, set_buckets. reflexivity.
Qed.

Lemma nsegs_insert t e t' : Inv t -> add_entry hash t e = (SPKI_SUCCESS, t', [(e, true)]) ->
  hl_search (ht t) (key_entry_cmp e) (hash (e_asn e)) = None ->
  nsegs bit0 t' = (nsegs bit0 t + (if need_seg (ht t) then 1 else 0))%nat.
Proof.
  intros Hinv Ha Hs. unfold add_entry in Ha. rewrite Hs in Ha. injection Ha as <-.
  unfold nsegs. cbn [ht]. unfold hl_insert. rewrite grow_step_bb. unfold set_buckets at 1 2 3 4 5. cbn [state bucket_max count bucket_bit].
  pose proof (hl_inv_bb entry bit0 (ht t) bit0_nonneg (si_hl _ _ _ Hinv)) as Hbb.
  unfold need_seg. destruct (negb (state (ht t) =? ST_GROW) && (bucket_max (ht t) / 2 <? count (ht t) + 1) && (state (ht t) =? ST_STABLE)); lia.
Qed.

(* ---- spki_table_add_entry ----------------------------------------------------------------------------- *)
(* the outcomes: success as the pure operation; SPKI_ERROR with nothing changed (the entry could not be
   allocated); with the repaired tommy_hashlin success without growing; with the code as it is a crash when
   the segment allocation fails *)
Lemma add_entry_m_spec v t e s B : Inv t -> LiveK s t B ->
  (exists res s', add_entry_m hash v t e s = Val res s' /\
     ((post s s' 0 /\ res = add_entry hash t e /\ LiveK s' (snd (fst (add_entry hash t e))) B) \/
      (post s s' 1 /\ res = (SPKI_ERROR, t, []) /\ LiveK s' t B) \/
      (post s s' 1 /\ grow_checked v = true /\ need_seg (ht t) = true /\ ~ In e (lst t) /\
       res = add_entry_nogrow hash t e /\ LiveK s' (snd (fst (add_entry_nogrow hash t e))) B))) \/
  (exists s', add_entry_m hash v t e s = Crash s' /\ grow_checked v = false /\ need_seg (ht t) = true /\ ~ In e (lst t) /\
              failures (rlog s') = (failures (rlog s) + 1)%nat).
Proof.
  intros Hinv HL. unfold add_entry_m.
  destruct (alloc_gen_spec (EvM KEntry) KEntry s) as (a & s1 & E1 & (L1 & F1) & C1 & _ & Hlive1).
  unfold malloc. rewrite (bind_val _ _ _ _ _ E1). destruct a; cbn [negb].
  2:{ left. eexists _, s1. split; [reflexivity|]. right. left.
      split; [unfold post, failures, libc_frees; rewrite L1; cbn; repeat split; auto; lia|]. split; [reflexivity|].
      intros c. rewrite Hlive1. apply HL. }
  assert (Hp1 : post s s1 0) by (unfold post, failures, libc_frees; rewrite L1; cbn; repeat split; auto; lia).
  destruct (add_entry_spec hash bit0 bit0_nonneg t e Hinv) as [[Hin Ha]|[Hni (t' & Ha & Hl' & Hinv')]].
  - (* duplicate: the fresh entry is released again *)
    destruct (search_cases hash bit0 bit0_nonneg t e Hinv) as [[_ Hf]|[Hni _]]; [|contradiction]. rewrite Hf.
    destruct (free_spec ViaCfg KEntry s1) as (s2 & E2 & (L2 & F2) & C2 & _ & _ & N2); [rewrite Hlive1; cbn; lia|].
    rewrite (bind_val _ _ _ _ _ E2). left. eexists _, s2. split; [reflexivity|]. left. split; [|split; [reflexivity|]].
    + eapply (post_trans _ _ _ 0 0); [exact Hp1|]. unfold post, failures, libc_frees. rewrite L2. cbn. repeat split; try congruence; lia.
    + rewrite Ha. cbn [fst snd]. intros c. rewrite N2, Hlive1. cbn [cnt]. specialize (HL c). destruct c; cbn in *; lia.
  - destruct (search_cases hash bit0 bit0_nonneg t e Hinv) as [[Hin _]|[_ Hf]]; [contradiction|]. rewrite Hf.
    pose proof (nsegs_insert t e t' Hinv Ha Hf) as Hns.
    assert (Hpure : forall s2, (forall c, cnt c (live s2) = cnt c (live s1) + (if cls_eqb c HSeg && need_seg (ht t) then 1 else 0))%nat ->
                    LiveK s2 (snd (fst (add_entry hash t e))) B).
    { intros s2 H2 c. rewrite Ha. cbn [fst snd]. rewrite H2, Hlive1. cbn [cnt]. specialize (HL c).
      unfold kblocks in *. rewrite Hl', app_length, Hns. cbn [length]. destruct c; cbn [cls_eqb andb] in *; destruct (need_seg (ht t)); lia. }
    destruct (need_seg (ht t)) eqn:Ens.
    + destruct (alloc_gen_spec (EvM HSeg) HSeg s1) as (b & s2 & E2 & (L2 & F2) & C2 & _ & Hlive2).
      rewrite (bind_val _ _ _ _ _ E2). destruct b.
      * left. eexists _, s2. split; [reflexivity|]. left. split; [|split; [reflexivity|]].
        -- eapply (post_trans _ _ _ 0 0); [exact Hp1|]. unfold post, failures, libc_frees. rewrite L2. cbn. repeat split; try congruence; lia.
        -- apply Hpure. intros c. rewrite Hlive2. cbn [cnt]. destruct c; cbn; lia.
      * destruct (grow_checked v) eqn:Eg.
        -- left. eexists _, s2. split; [reflexivity|]. right. right. split; [|repeat split; auto].
           ++ eapply (post_trans _ _ _ 0 1); [exact Hp1|]. unfold post, failures, libc_frees. rewrite L2. cbn. repeat split; try congruence; lia.
           ++ destruct (add_entry_nogrow_spec t e Hinv Hni) as (t2 & E & Hl2 & _ & Hbb2). rewrite E. cbn [fst snd].
              intros c. rewrite Hlive2, Hlive1. cbn [cnt]. specialize (HL c). unfold kblocks, nsegs in *. rewrite Hl2, app_length, Hbb2.
              destruct c; cbn in *; lia.
        -- right. exists s2. split; [reflexivity|]. repeat split; auto.
           unfold failures. rewrite L2, L1. cbn. lia.
    + left. eexists _, s1. split; [reflexivity|]. left. split; [exact Hp1|]. split; [reflexivity|].
      apply Hpure. intros c. rewrite andb_false_r. lia.
Qed.


(* ---- spki_table_remove_entry / spki_table_src_remove: no allocation, never an error ------------------- *)
Lemma nsegs_shrunk (h h' : hashlin entry) l l' :
  bucket_bit h' = bucket_bit h \/ bucket_bit h' = bucket_bit h - 1 -> bit0 <= bucket_bit h' ->
  nsegs bit0 (mkT h' l') = (nsegs bit0 (mkT h l) - (if seg_released h h' then 1 else 0))%nat.
Proof.
  intros Hb Hge. unfold nsegs, seg_released. cbn [ht].
  destruct (bucket_bit h' <? bucket_bit h) eqn:E; [apply Z.ltb_lt in E|apply Z.ltb_ge in E]; lia.
Qed.

Lemma remove_entry_ht t e :
  let t' := snd (fst (remove_entry hash bit0 t e)) in
  bucket_bit (ht t') = bucket_bit (ht t) \/ bucket_bit (ht t') = bucket_bit (ht t) - 1.
Proof.
  unfold remove_entry. destruct (hl_search (ht t) (key_entry_cmp e) (hash (e_asn e))); cbn [fst snd]; [|left; reflexivity].
  pose proof (hl_remove_first_bb entry bit0 (ht t) (hash (e_asn e)) (fun n => (fst n =? hash (e_asn e)) && key_entry_cmp e (snd n))) as H.
  unfold hl_remove. cbv zeta in H.
  destruct (hl_remove_first bit0 (ht t) (hash (e_asn e)) (fun n => (fst n =? hash (e_asn e)) && key_entry_cmp e (snd n))) as [h' [nn|]];
    cbn [fst snd ht] in *; [exact H|left; reflexivity].
Qed.

Lemma remove_node_ht t e :
  bucket_bit (ht (remove_node hash bit0 t e)) = bucket_bit (ht t) \/
  bucket_bit (ht (remove_node hash bit0 t e)) = bucket_bit (ht t) - 1.
Proof. unfold remove_node, hl_remove_existing. cbn [ht]. apply hl_remove_first_bb. Qed.

Lemma release_seg_entry s t t' B (gone : bool) :
  LiveK s t B -> Inv t' ->
  (bucket_bit (ht t') = bucket_bit (ht t) \/ bucket_bit (ht t') = bucket_bit (ht t) - 1) ->
  List.length (lst t) = (List.length (lst t') + (if gone then 1 else 0))%nat ->
  exists s', (mdo _ <- when (seg_released (ht t) (ht t')) (free ViaCfg HSeg) ;; when gone (free ViaCfg KEntry)) s = Val tt s' /\
    post s s' 0 /\ LiveK s' t' B.
Proof.
  intros HL Hinv' Hbb Hlen.
  pose proof (hl_inv_bb entry bit0 (ht t') bit0_nonneg (si_hl _ _ _ Hinv')) as Hge.
  pose proof (nsegs_shrunk (ht t) (ht t') (lst t) (lst t') Hbb Hge) as Hns.
  destruct t as [h l], t' as [h' l']. cbn [ht lst] in *.
  assert (E1 : exists s1, when (seg_released h h') (free ViaCfg HSeg) s = Val tt s1 /\ post s s1 0 /\
               forall c, cnt c (live s1) = (cnt c (live s) - (if cls_eqb c HSeg && seg_released h h' then 1 else 0))%nat).
  { destruct (seg_released h h'); cbn [when].
    - destruct (free_spec ViaCfg HSeg s) as (s1 & E & (L & F) & C & _ & _ & N).
      { rewrite (HL HSeg). cbn [kblocks]. pose proof (nsegs_pos (mkT h l)). lia. }
      exists s1. split; [exact E|]. split; [unfold post, failures, libc_frees; rewrite L; cbn; repeat split; auto; lia|].
      intros c. rewrite N, andb_true_r. reflexivity.
    - exists s. split; [reflexivity|]. split; [apply post_refl|]. intros c. rewrite andb_false_r. lia. }
  destruct E1 as (s1 & E1 & Hp1 & N1). rewrite (bind_val _ _ _ _ _ E1).
  destruct gone; cbn [when].
  - destruct (free_spec ViaCfg KEntry s1) as (s2 & E2 & (L2 & F2) & C2 & _ & _ & N2).
    { rewrite N1, (HL KEntry). cbn [kblocks lst cls_eqb andb]. lia. }
    exists s2. split; [exact E2|]. split.
    + eapply (post_trans _ _ _ 0 0); [exact Hp1|]. unfold post, failures, libc_frees. rewrite L2. cbn. repeat split; auto; lia.
    + intros c. rewrite N2, N1, (HL c). unfold kblocks. cbn [lst]. rewrite Hns.
      pose proof (nsegs_pos (mkT h l)). destruct c; cbn [cls_eqb andb]; destruct (seg_released h h'); lia.
  - exists s1. split; [reflexivity|]. split; [exact Hp1|].
    intros c. rewrite N1, (HL c). unfold kblocks. cbn [lst]. rewrite Hns.
    pose proof (nsegs_pos (mkT h l)). destruct c; cbn [cls_eqb andb]; destruct (seg_released h h'); lia.
Qed.

Lemma remove_entry_m_spec t e s B : Inv t -> LiveK s t B ->
  exists s', remove_entry_m hash bit0 t e s = Val (remove_entry hash bit0 t e) s' /\ post s s' 0 /\
    LiveK s' (snd (fst (remove_entry hash bit0 t e))) B.
Proof.
  intros Hinv HL. unfold remove_entry_m. pose proof (remove_entry_ht t e) as Hbb. cbv zeta in Hbb.
  destruct (remove_entry_spec hash bit0 bit0_nonneg t e Hinv) as [[Hni Hr]|[Hin (t' & Hr & Hl' & Hinv')]]; rewrite Hr in *; cbn [fst snd] in *.
  - rewrite rc_notfound_not_success.
    destruct (release_seg_entry s t t B false HL Hinv Hbb) as (s1 & E1 & Hp1 & HL1); [lia|].
    cbn [when] in E1. unfold bind in *. destruct (when (seg_released (ht t) (ht t)) (free ViaCfg HSeg) s) as [[] sa|]; [|discriminate].
    cbn [when]. unfold ret in *. injection E1 as ->. exists s1. auto.
  - change (SPKI_SUCCESS =? SPKI_SUCCESS) with true.
    destruct (release_seg_entry s t t' B true HL Hinv' Hbb) as (s1 & E1 & Hp1 & HL1).
    { rewrite Hl'. pose proof (remove_first_cmp_perm e (lst t) Hin) as Hp. apply Permutation_length in Hp. cbn [length] in Hp. lia. }
    unfold bind in *. destruct (when (seg_released (ht t) (ht t')) (free ViaCfg HSeg) s) as [[] sa|]; [|discriminate].
    destruct (when true (free ViaCfg KEntry) sa) as [[] sb|]; [|discriminate]. injection E1 as ->. exists s1. auto.
Qed.

Lemma src_walk_m_spec s0 : forall l t pre s B,
  Inv t -> lst t = pre ++ l -> (forall x, In x pre -> e_src x <> s0) -> LiveK s t B ->
  exists s', src_walk_m hash bit0 l s0 t s = Val (src_remove_walk hash bit0 l s0 t) s' /\ post s s' 0 /\
    LiveK s' (src_remove_walk hash bit0 l s0 t) B.
Proof.
  induction l as [|e r IH]; intros t pre s B Hinv Hl Hpre HL; cbn [src_walk_m src_remove_walk].
  - exists s. split; [reflexivity|]. split; [apply post_refl|exact HL].
  - destruct (Z.eqb_spec (e_src e) s0) as [Hs|Hs].
    + assert (Hin : In e (lst t)) by (rewrite Hl; apply in_or_app; right; left; reflexivity).
      destruct (remove_node_spec hash bit0 bit0_nonneg t e Hinv Hin) as [Hl' Hinv'].
      destruct (release_seg_entry s t (remove_node hash bit0 t e) B true HL Hinv' (remove_node_ht t e)) as (s1 & E1 & Hp1 & HL1).
      { rewrite Hl'. pose proof (remove_first_cmp_perm e (lst t) Hin) as Hp. apply Permutation_length in Hp. cbn [length] in Hp. lia. }
      destruct (IH (remove_node hash bit0 t e) pre s1 B Hinv') as (s2 & E2 & Hp2 & HL2); [|exact Hpre|exact HL1|].
      * rewrite Hl', Hl. apply remove_first_app_hit; [|apply key_entry_cmp_refl].
        intros y Hy. destruct (key_entry_cmp e y) eqn:E; [|reflexivity].
        apply key_entry_cmp_eq in E. subst y. exfalso. exact (Hpre e Hy Hs).
      * exists s2. split; [|split; [apply (post_trans _ _ _ 0 0 Hp1 Hp2)|exact HL2]].
        unfold bind in *. destruct (when (seg_released (ht t) (ht (remove_node hash bit0 t e))) (free ViaCfg HSeg) s) as [[] sa|]; [|discriminate].
        cbn [when] in E1. destruct (free ViaCfg KEntry sa) as [[] sb|]; [|discriminate]. injection E1 as ->. exact E2.
    + apply (IH t (pre ++ [e]) s B Hinv); [rewrite Hl, <- app_assoc; reflexivity| |exact HL].
      intros x Hx. apply in_app_or in Hx as [Hx|[<-|[]]]; [exact (Hpre x Hx)|exact Hs].
Qed.

Lemma src_remove_m_spec t s0 s B : Inv t -> LiveK s t B ->
  exists s', src_remove_m hash bit0 t s0 s = Val (src_remove hash bit0 t s0) s' /\ post s s' 0 /\
    LiveK s' (snd (fst (src_remove hash bit0 t s0))) B.
Proof.
  intros Hinv HL. unfold src_remove_m.
  destruct (src_walk_m_spec s0 (lst t) t [] s B Hinv eq_refl ltac:(intros x []) HL) as (s1 & E1 & Hp1 & HL1).
  rewrite (bind_val _ _ _ _ _ E1). exists s1. split; [reflexivity|]. split; [exact Hp1|].
  unfold src_remove, src_remove_gen. cbn [fst snd]. exact HL1.
Qed.

(* ---- the lookups' result arrays ------------------------------------------------------------------------ *)
Lemma result_loop_spec v : forall n held s, (held = true -> (0 < cnt KRes (live s))%nat) ->
  exists ok dangling s', result_loop v n held s = Val (ok, dangling) s' /\
    ((ok = true /\ dangling = false /\ post s s' 0 /\
      (forall c, cnt c (live s') = (cnt c (live s) + (if cls_eqb c KRes && negb held && negb (Nat.eqb n 0) then 1 else 0))%nat)) \/
     (ok = false /\ post s s' 1 /\ (result_null v = true -> dangling = false) /\
      (forall c, cnt c (live s') = (cnt c (live s) - (if cls_eqb c KRes && held then 1 else 0))%nat))).
Proof.
  induction n as [|n IH]; intros held s Hh; cbn [result_loop].
  - exists true, false, s. split; [reflexivity|]. left. split; [reflexivity|]. split; [reflexivity|]. split; [apply post_refl|].
    intros c. rewrite andb_false_r. lia.
  - destruct held.
    + destruct (realloc_spec KRes s (Hh eq_refl)) as (b & s1 & E1 & (L1 & F1) & C1 & _ & Hlive).
      rewrite (bind_val _ _ _ _ _ E1). destruct b.
      * destruct (IH true s1) as (ok & dg & s2 & E2 & H2); [intros _; rewrite Hlive; auto|].
        exists ok, dg, s2. split; [exact E2|].
        assert (Hp1 : post s s1 0) by (unfold post, failures, libc_frees; rewrite L1; cbn; repeat split; auto; lia).
        destruct H2 as [(-> & -> & Hp2 & N2)|(-> & Hp2 & Hd & N2)]; [left|right].
        -- split; [reflexivity|]. split; [reflexivity|]. split; [apply (post_trans _ _ _ 0 0 Hp1 Hp2)|]. intros c. rewrite N2, Hlive. cbn [negb andb]. rewrite !andb_false_r. reflexivity.
        -- split; [reflexivity|]. split; [apply (post_trans _ _ _ 0 1 Hp1 Hp2)|]. split; [exact Hd|]. intros c. rewrite N2, Hlive. reflexivity.
      * cbn [when andb].
        destruct (free_spec ViaCfg KRes s1) as (s2 & E2 & (L2 & F2) & C2 & _ & _ & N2); [rewrite Hlive; auto|].
        rewrite (bind_val _ _ _ _ _ E2). exists false, (negb (result_null v)), s2. split; [reflexivity|]. right.
        split; [reflexivity|]. split; [|split].
        -- unfold post, failures, libc_frees. rewrite L2, L1. cbn. repeat split; try congruence; lia.
        -- intros ->. reflexivity.
        -- intros c. rewrite N2, Hlive, andb_true_r. reflexivity.
    + destruct (alloc_gen_spec (EvR0 KRes) KRes s) as (b & s1 & E1 & (L1 & F1) & C1 & _ & Hlive).
      unfold realloc0. rewrite (bind_val _ _ _ _ _ E1). destruct b.
      * destruct (IH true s1) as (ok & dg & s2 & E2 & H2); [intros _; rewrite Hlive; cbn; lia|].
        exists ok, dg, s2. split; [exact E2|].
        assert (Hp1 : post s s1 0) by (unfold post, failures, libc_frees; rewrite L1; cbn; repeat split; auto; lia).
        destruct H2 as [(-> & -> & Hp2 & N2)|(-> & Hp2 & Hd & N2)]; [left|right].
        -- split; [reflexivity|]. split; [reflexivity|]. split; [apply (post_trans _ _ _ 0 0 Hp1 Hp2)|]. intros c. rewrite N2, Hlive. cbn [cnt negb andb Nat.eqb].
           destruct (cls_eqb c KRes), (Nat.eqb n 0); cbn; lia.
        -- split; [reflexivity|]. split; [apply (post_trans _ _ _ 0 1 Hp1 Hp2)|]. split; [exact Hd|]. intros c. rewrite N2, Hlive. cbn [cnt].
           destruct (cls_eqb c KRes); cbn; lia.
      * cbn [when andb]. unfold bind, ret. exists false, false, s1. split; [reflexivity|]. right.
        split; [reflexivity|]. split; [|split].
        -- unfold post, failures, libc_frees. rewrite L1. cbn. repeat split; auto; lia.
        -- reflexivity.
        -- intros c. rewrite Hlive, andb_false_r. lia.
Qed.

Lemma lookup_m_spec v found s :
  exists res s', lookup_m v found s = Val res s' /\
    ((res = Some found /\ post s s' 0 /\ (forall c, cnt c (live s') = cnt c (live s))) \/
     (res = None /\ (result_null v = true -> post s s' 1 /\ (forall c, cnt c (live s') = cnt c (live s))))).
Proof.
  unfold lookup_m.
  destruct (result_loop_spec v (List.length found) false s) as (ok & dg & s1 & E1 & H1); [discriminate|].
  rewrite (bind_val _ _ _ _ _ E1). destruct H1 as [(-> & -> & Hp1 & N1)|(-> & Hp1 & Hd & N1)].
  - destruct (Nat.eqb (List.length found) 0) eqn:En; cbn [negb when]; try rewrite En in N1.
    + unfold bind, ret. eexists _, s1. split; [reflexivity|]. left. split; [reflexivity|]. split; [exact Hp1|].
      intros c. rewrite N1. cbn [negb]. rewrite andb_false_r. lia.
    + destruct (free_spec ViaCfg KRes s1) as (s2 & E2 & (L2 & F2) & C2 & _ & _ & N2).
      { rewrite N1. cbn [cls_eqb negb andb]. lia. }
      rewrite (bind_val _ _ _ _ _ E2). eexists _, s2. split; [reflexivity|]. left. split; [reflexivity|]. split.
      * eapply (post_trans _ _ _ 0 0); [exact Hp1|]. unfold post, failures, libc_frees. rewrite L2. cbn. repeat split; try congruence; lia.
      * intros c. rewrite N2, N1. cbn [negb andb]. destruct (cls_eqb c KRes); cbn; lia.
  - destruct dg.
    + (* the code as it is: the caller releases the dangling pointer *)
      unfold bind, when. destruct (free ViaCfg KRes s1) as [[] s2|] eqn:Ef.
      * eexists _, s2. split; [reflexivity|]. right. split; [reflexivity|]. intros Hv. specialize (Hd Hv). discriminate.
      * unfold free in Ef. destruct (has KRes (live s1)); discriminate.
    + cbn [when]. unfold bind, ret. eexists _, s1. split; [reflexivity|]. right. split; [reflexivity|]. intros _. split; [exact Hp1|].
      intros c. rewrite N1, andb_false_r. lia.
Qed.

(* ---- spki_table_free(_without_notify), spki_table_init -------------------------------------------------- *)
Lemma repeat_free via c : forall n s, (n <= cnt c (live s))%nat ->
  exists s', repeat_m n (free via c) s = Val tt s' /\ fail_at s' = fail_at s /\ corrupt s' = corrupt s /\
    failures (rlog s') = failures (rlog s) /\
    libc_frees (rlog s') = (libc_frees (rlog s) + (match via with ViaLibc => n | ViaCfg => 0 end))%nat /\
    (forall x, cnt x (live s') = (cnt x (live s) - (if cls_eqb x c then n else 0))%nat).
Proof.
  induction n as [|n IH]; intros s H; cbn [repeat_m].
  - exists s. split; [reflexivity|]. repeat split; try lia. destruct via; lia. intros x. destruct (cls_eqb x c); lia.
  - destruct (free_spec via c s) as (s1 & E1 & (L1 & F1) & C1 & _ & _ & N1); [lia|].
    destruct (IH s1) as (s2 & E2 & F2 & C2 & Fl2 & Lb2 & N2); [rewrite N1, cls_eqb_refl; lia|].
    exists s2. rewrite (bind_val _ _ _ _ _ E1). split; [exact E2|]. repeat split; try congruence.
    + rewrite Fl2. unfold failures. rewrite L1. destruct via; reflexivity.
    + rewrite Lb2. unfold libc_frees. rewrite L1. destruct via; cbn; lia.
    + intros x. rewrite N2, N1. destruct (cls_eqb x c); lia.
Qed.

Lemma release_m_spec v t s B : LiveK s t B ->
  exists s', release_m bit0 v t s = Val tt s' /\ fail_at s' = fail_at s /\ corrupt s' = corrupt s /\
    failures (rlog s') = failures (rlog s) /\
    libc_frees (rlog s') = (libc_frees (rlog s) + (if free_cfg v then 0 else List.length (lst t)))%nat /\
    (forall c, cnt c (live s') = B c).
Proof.
  intros HL. unfold release_m.
  destruct (repeat_free (if free_cfg v then ViaCfg else ViaLibc) KEntry (List.length (lst t)) s) as (s1 & E1 & F1 & C1 & Fl1 & Lb1 & N1).
  { rewrite (HL KEntry). cbn [kblocks]. lia. }
  destruct (repeat_free ViaCfg HSeg (nsegs bit0 t) s1) as (s2 & E2 & F2 & C2 & Fl2 & Lb2 & N2).
  { rewrite N1, (HL HSeg). cbn [kblocks cls_eqb]. lia. }
  exists s2. rewrite (bind_val _ _ _ _ _ E1). split; [exact E2|]. repeat split; try congruence.
  - rewrite Lb2, Lb1. destruct (free_cfg v); lia.
  - intros c. rewrite N2, N1, (HL c). unfold kblocks. destruct c; cbn [cls_eqb]; lia.
Qed.

Lemma init_m_spec v s :
  (exists s', init_m v s = Val true s' /\ post s s' 0 /\ live s' = HSeg :: live s) \/
  (exists s', init_m v s = Val false s' /\ post s s' 1 /\ live s' = live s /\ init_checked v = true) \/
  (exists s', init_m v s = Crash s' /\ init_checked v = false /\ failures (rlog s') = (failures (rlog s) + 1)%nat).
Proof.
  unfold init_m. destruct (alloc_gen_spec (EvM HSeg) HSeg s) as (b & s1 & E1 & (L1 & F1) & C1 & _ & Hlive).
  unfold malloc. rewrite (bind_val _ _ _ _ _ E1). destruct b.
  - left. exists s1. split; [reflexivity|]. split; [|exact Hlive]. unfold post, failures, libc_frees. rewrite L1. cbn. repeat split; auto; lia.
  - right. destruct (init_checked v).
    + left. exists s1. split; [reflexivity|]. split; [|auto]. unfold post, failures, libc_frees. rewrite L1. cbn. repeat split; auto; lia.
    + right. exists s1. split; [reflexivity|]. split; [reflexivity|]. unfold failures. rewrite L1. cbn. lia.
Qed.

End K.
End SpkiP.

(* ================================================================================================ *)
Module OpsP.
Import RtrV.Pfx.TrieModel RtrV.Pfx.TrieInv RtrV.Pfx.TrieSet RtrV.Pfx.PfxTable RtrV.Pfx.PfxProofs.
Import PfxA SpkiA OpsA PfxP SpkiP.
Module KM := RtrV.Spki.SpkiModel.
Module KP := RtrV.Spki.SpkiProofs.

Section H.
Variable hash : Z -> Z.
Variable bit0 : Z.
Hypothesis bit0_nonneg : (0 <= bit0)%Z.

Definition aop_ok (o : aop) : Prop := match o with OPAdd r | OPRemove r => rec_ok r | _ => True end.
Definition TabsInv (st : tabs) : Prop := TWF (tp st) /\ KP.SpkiInv hash bit0 (tk st).
Definition blocks (st : tabs) (c : cls) : nat := (if pcls c then pblocks (tp st) else 0) + kblocks bit0 (tk st) c.
(* [B]: blocks that belong to neither table *)
Definition LiveInv (s : ast) (st : tabs) (B : cls -> nat) : Prop := forall c, cnt c (live s) = B c + blocks st c.

Lemma LiveInv_P s st B : LiveInv s st B <-> LiveP s (tp st) (fun c => B c + kblocks bit0 (tk st) c).
Proof. unfold LiveInv, LiveP, blocks. split; intros H c; rewrite (H c); lia. Qed.
Lemma LiveInv_K s st B : LiveInv s st B <-> LiveK bit0 s (tk st) (fun c => B c + (if pcls c then pblocks (tp st) else 0)).
Proof. unfold LiveInv, LiveK, blocks. split; intros H c; rewrite (H c); lia. Qed.

(* ---- no fault: the pure step (any variant of the code) -------------------------------------------------- *)
Lemma step_m_erases v o st : erases (step_m hash bit0 v o st) (step_pure hash bit0 o st).
Proof.
  destruct o; cbn [step_m step_pure].
  - eapply erases_bind; [apply tadd_m_erases|]. destruct (tadd (tp st) r) as [[T c] cbs]. apply erases_ret.
  - eapply erases_bind; [apply tremove_m_erases|]. destruct (tremove (tp st) r) as [[T c] cbs]. apply erases_ret.
  - eapply erases_bind; [apply tsrc_remove_m_erases|]. destruct (tsrc_remove (tp st) s) as [[T c]|]; cbn [lift_src]; apply erases_ret.
  - eapply erases_bind; [apply tvalidate_m_erases|]. apply erases_ret.
  - eapply erases_bind; [apply add_entry_m_erases|]. destruct (KM.add_entry hash (tk st) e) as [[c t] cbs]. apply erases_ret.
  - eapply erases_bind; [apply remove_entry_m_erases|]. destruct (KM.remove_entry hash bit0 (tk st) e) as [[c t] cbs]. apply erases_ret.
  - eapply erases_bind; [apply src_remove_m_erases|]. destruct (KM.src_remove hash bit0 (tk st) s) as [[c t] cbs]. apply erases_ret.
  - eapply erases_bind; [apply lookup_m_erases|]. apply erases_ret.
  - eapply erases_bind; [apply lookup_m_erases|]. apply erases_ret.
Qed.

Fixpoint run_pure (ops : list aop) (st : tabs) : tabs * list obs :=
  match ops with
  | [] => (st, [])
  | o :: rest => let '(st1, ob) := step_pure hash bit0 o st in let '(st2, obs2) := run_pure rest st1 in (st2, ob :: obs2)
  end.

(* the whole history without faults: every operation is armed with "no fault" *)
Lemma run_m_erases v : forall ops st s, nofail s ->
  exists s', run_m hash bit0 v (map (fun o => (o, None)) ops) st s = Val (run_pure ops st) s' /\ nofail s'.
Proof.
  induction ops as [|o ops IH]; intros st s Hs; cbn [map run_m run_pure].
  - exists s. split; [reflexivity|exact Hs].
  - destruct (step_m_erases v o st (arm None s) eq_refl) as (s1 & E1 & H1). rewrite E1.
    destruct (step_pure hash bit0 o st) as [st1 ob]. destruct (IH st1 s1 H1) as (s2 & E2 & H2). rewrite E2.
    destruct (run_pure ops st1) as [st2 obs2]. exists s2. split; [reflexivity|exact H2].
Qed.

(* ---- one operation with a fault anywhere: error without effect, or the full effect -------------------- *)
Definition good (v : variant) : Prop :=
  shrink_ok v = true /\ grow_checked v = true /\ reason_tmp v = true /\ result_null v = true.

Definition obs_quiet (o : obs) : Prop :=
  match o with ObsP _ cbs => cbs = [] | ObsK _ cbs => cbs = [] | _ => True end.

Lemma add_rc t lvl p len e : snd (add t lvl p len e) = SUCCESS \/ snd (add t lvl p len e) = DUP.
Proof.
  pose proof (add_by_payload t lvl p len e) as H. destruct (find_payload t lvl p len) as [d|].
  - destruct (existsb (elem_eqb e) d); [rewrite H; auto|destruct H as (t' & -> & _); auto].
  - destruct H as (t' & -> & _); auto.
Qed.
Lemma remove_rc t lvl p len e : snd (remove t lvl p len e) = SUCCESS \/ snd (remove t lvl p len e) = NOTFOUND.
Proof.
  pose proof (remove_by_payload t lvl p len e) as H. destruct (find_payload t lvl p len) as [d|]; [|rewrite H; auto].
  destruct (existsb (elem_eqb e) d); [|rewrite H; auto].
  destruct (remove_first e d); destruct H as (t' & -> & _); auto.
Qed.
Lemma tadd_not_error T r : snd (fst (tadd T r)) <> ERROR.
Proof.
  destruct r as [[[v6 p] len] e]. unfold tadd. pose proof (add_rc (root T v6) 0 p len e) as H.
  destruct (add (root T v6) 0 p len e) as [t' c]. cbn [snd] in H. destruct H as [-> | ->]; cbn; discriminate.
Qed.
Lemma tremove_not_error T r : snd (fst (tremove T r)) <> ERROR.
Proof.
  destruct r as [[[v6 p] len] e]. unfold tremove. pose proof (remove_rc (root T v6) 0 p len e) as H.
  destruct (remove (root T v6) 0 p len e) as [t' c]. cbn [snd] in H. destruct H as [-> | ->]; cbn; discriminate.
Qed.

Lemma tadd_TWF T r : TWF T -> rec_ok r -> TWF (fst (fst (tadd T r))).
Proof.
  intros Hwf Hok. destruct (tadd_spec T (trecords T) r Hwf (Permutation_refl _) Hok) as (T' & c & cbs & X' & E & _ & Hw & _).
  rewrite E. exact Hw.
Qed.
Lemma tremove_TWF T r : TWF T -> rec_ok r -> TWF (fst (fst (tremove T r))).
Proof.
  intros Hwf Hok. destruct (tremove_spec T (trecords T) r Hwf (Permutation_refl _) Hok) as (T' & c & cbs & X' & E & _ & Hw & _).
  rewrite E. exact Hw.
Qed.

Lemma step_m_spec v o st s B : good v -> aop_ok o -> TabsInv st -> LiveInv s st B ->
  exists st' ob s' df, step_m hash bit0 v o st s = Val (st', ob) s' /\ post s s' df /\ TabsInv st' /\ LiveInv s' st' B /\
    ((df = 1 /\ is_error ob = true /\ st' = st /\ obs_quiet ob) \/
     (is_error ob = false /\ ob = snd (step_pure hash bit0 o st) /\ tp st' = tp (fst (step_pure hash bit0 o st)) /\
      KM.contents (tk st') = KM.contents (tk (fst (step_pure hash bit0 o st))))).
Proof.
  intros (Hv1 & Hv2 & Hv3 & Hv4) Hok [Hwf Hki] HL. destruct st as [T K]. cbn [tp tk] in *.
  destruct o as [r|r|s0|v6 asn q qlen|e|e|s0|a sk|sk]; cbn [step_m step_pure tp tk aop_ok] in *.
  - (* pfx add *)
    destruct (tadd_m_spec T r s _ Hwf (proj1 (LiveInv_P s (mkTabs T K) B) HL)) as (res & s1 & E & [(Hp & -> & HL1)|(Hp & -> & HL1)]);
      rewrite (bind_val _ _ _ _ _ E).
    + pose proof (tadd_not_error T r) as Hne. pose proof (tadd_TWF T r Hwf Hok) as Hw1.
      destruct (tadd T r) as [[T1 c] cbs]. cbn [fst snd] in *. eexists _, _, s1, 0. split; [reflexivity|]. split; [exact Hp|].
      split; [split; assumption|]. split; [apply LiveInv_P; exact HL1|]. right. cbn. split; [destruct c; congruence|auto].
    + eexists _, _, s1, 1. split; [reflexivity|]. split; [exact Hp|]. split; [split; assumption|].
      split; [apply LiveInv_P; exact HL1|]. left. cbn. auto.
  - (* pfx remove: with the repaired del_elem a failed shrink is not an error *)
    destruct (tremove_m_spec v T r s _ Hwf (proj1 (LiveInv_P s (mkTabs T K) B) HL)) as (res & s1 & E & H); rewrite (bind_val _ _ _ _ _ E).
    pose proof (tremove_not_error T r) as Hne. pose proof (tremove_TWF T r Hwf Hok) as Hw1.
    destruct H as [(Hp & -> & HL1)|[(Hp & _ & -> & HL1)|(Hp & Hc & _)]]; [| |congruence].
    + destruct (tremove T r) as [[T1 c] cbs]. cbn [fst snd] in *. eexists _, _, s1, 0. split; [reflexivity|]. split; [exact Hp|].
      split; [split; assumption|]. split; [apply LiveInv_P; exact HL1|]. right. cbn. split; [destruct c; congruence|auto].
    + destruct (tremove T r) as [[T1 c] cbs]. cbn [fst snd] in *. eexists _, _, s1, 1. split; [reflexivity|]. split; [exact Hp|].
      split; [split; assumption|]. split; [apply LiveInv_P; exact HL1|]. right. cbn. split; [destruct c; congruence|auto].
  - (* pfx remove by source *)
    destruct (tsrc_remove_m_spec v T s0 s _ Hv1 Hwf (proj1 (LiveInv_P s (mkTabs T K) B) HL)) as (T' & cbs & s1 & df & Ep & Em & Hp & HL1).
    rewrite (bind_val _ _ _ _ _ Em), Ep. cbn [fst snd tp tk].
    destruct (tsrc_remove_spec T (trecords T) s0 Hwf (Permutation_refl _)) as (T2 & cbs2 & E2 & Hw2 & _). rewrite Ep in E2. injection E2 as <- <-.
    eexists _, _, s1, df. split; [reflexivity|]. split; [exact Hp|]. split; [split; assumption|]. split; [apply LiveInv_P; exact HL1|].
    right. cbn. auto.
  - (* validation *)
    destruct (tvalidate_m_spec v T v6 asn q qlen s) as (res & s1 & E & [(Hp & -> & N)|(Hp & -> & N)]); rewrite (bind_val _ _ _ _ _ E).
    + eexists _, _, s1, 0. split; [reflexivity|]. split; [exact Hp|]. split; [split; assumption|].
      split; [intros c; rewrite N; apply HL|]. right. cbn. auto.
    + eexists _, _, s1, 1. split; [reflexivity|]. split; [exact Hp|]. split; [split; assumption|].
      split; [intros c; rewrite (N Hv3); apply HL|]. left. cbn. auto.
  - (* router-key add *)
    destruct (add_entry_m_spec hash bit0 bit0_nonneg v K e s _ Hki (proj1 (LiveInv_K s (mkTabs T K) B) HL))
      as [(res & s1 & E & H)|(s1 & _ & Hc & _)]; [|congruence].
    rewrite (bind_val _ _ _ _ _ E).
    destruct (KP.add_entry_spec hash bit0 bit0_nonneg K e Hki) as [[Hin Ha]|[Hni (t' & Ha & Hl' & Hinv')]].
    + (* present: only the pure outcome or the failed entry allocation are possible *)
      destruct H as [(Hp & -> & HL1)|[(Hp & -> & HL1)|(_ & _ & _ & Hni & _)]]; [| |contradiction].
      * rewrite Ha in *. cbn [fst snd] in *. eexists _, _, s1, 0. split; [reflexivity|]. split; [exact Hp|]. split; [split; assumption|].
        split; [apply LiveInv_K; exact HL1|]. right. cbn. auto.
      * eexists _, _, s1, 1. split; [reflexivity|]. split; [exact Hp|]. split; [split; assumption|].
        split; [apply LiveInv_K; exact HL1|]. left. cbn. auto.
    + destruct H as [(Hp & -> & HL1)|[(Hp & -> & HL1)|(Hp & _ & _ & _ & -> & HL1)]].
      * rewrite Ha in *. cbn [fst snd] in *. eexists _, _, s1, 0. split; [reflexivity|]. split; [exact Hp|]. split; [split; assumption|].
        split; [apply LiveInv_K; exact HL1|]. right. cbn. auto.
      * eexists _, _, s1, 1. split; [reflexivity|]. split; [exact Hp|]. split; [split; assumption|].
        split; [apply LiveInv_K; exact HL1|]. left. cbn. auto.
      * destruct (add_entry_nogrow_spec hash bit0 bit0_nonneg K e Hki Hni) as (t2 & E2 & Hl2 & Hinv2 & _). rewrite E2 in *. rewrite Ha.
        cbn [fst snd] in *. eexists _, _, s1, 1. split; [reflexivity|]. split; [exact Hp|]. split; [split; assumption|].
        split; [apply LiveInv_K; exact HL1|]. right. cbn. unfold KM.contents. rewrite Hl2, Hl'. auto.
  - (* router-key remove *)
    destruct (remove_entry_m_spec hash bit0 bit0_nonneg K e s _ Hki (proj1 (LiveInv_K s (mkTabs T K) B) HL)) as (s1 & E & Hp & HL1).
    rewrite (bind_val _ _ _ _ _ E).
    destruct (KP.remove_entry_spec hash bit0 bit0_nonneg K e Hki) as [[Hni Hr]|[Hin (t' & Hr & Hl' & Hinv')]]; rewrite Hr in *; cbn [fst snd] in *.
    + eexists _, _, s1, 0. split; [reflexivity|]. split; [exact Hp|]. split; [split; assumption|].
      split; [apply LiveInv_K; exact HL1|]. right. cbn. auto.
    + eexists _, _, s1, 0. split; [reflexivity|]. split; [exact Hp|]. split; [split; assumption|].
      split; [apply LiveInv_K; exact HL1|]. right. cbn. auto.
  - (* router-key remove by source *)
    destruct (src_remove_m_spec hash bit0 bit0_nonneg K s0 s _ Hki (proj1 (LiveInv_K s (mkTabs T K) B) HL)) as (s1 & E & Hp & HL1).
    rewrite (bind_val _ _ _ _ _ E).
    destruct (KP.src_remove_spec hash bit0 bit0_nonneg KM.SRC_REMOVE_NOTIFIES K s0 Hki) as (t' & Hr & Hl' & Hinv').
    unfold KM.src_remove in *. rewrite Hr in *. cbn [fst snd] in *.
    eexists _, _, s1, 0. split; [reflexivity|]. split; [exact Hp|]. split; [split; assumption|].
    split; [apply LiveInv_K; exact HL1|]. right. cbn. auto.
  - (* lookups *)
    unfold get_all_m. destruct (lookup_m_spec hash bit0 v (KM.get_all hash K a sk) s) as (res & s1 & E & [(-> & Hp & N)|(-> & N)]); rewrite (bind_val _ _ _ _ _ E).
    + eexists _, _, s1, 0. split; [reflexivity|]. split; [exact Hp|]. split; [split; assumption|].
      split; [intros c; rewrite N; apply HL|]. right. cbn. auto.
    + destruct (N Hv4) as [Hp N']. eexists _, _, s1, 1. split; [reflexivity|]. split; [exact Hp|]. split; [split; assumption|].
      split; [intros c; rewrite N'; apply HL|]. left. cbn. auto.
  - unfold search_by_ski_m. destruct (lookup_m_spec hash bit0 v (KM.search_by_ski K sk) s) as (res & s1 & E & [(-> & Hp & N)|(-> & N)]); rewrite (bind_val _ _ _ _ _ E).
    + eexists _, _, s1, 0. split; [reflexivity|]. split; [exact Hp|]. split; [split; assumption|].
      split; [intros c; rewrite N; apply HL|]. right. cbn. auto.
    + destruct (N Hv4) as [Hp N']. eexists _, _, s1, 1. split; [reflexivity|]. split; [exact Hp|]. split; [split; assumption|].
      split; [intros c; rewrite N'; apply HL|]. left. cbn. auto.
Qed.


(* ---- the Spec: two duplicate-free lists of records ------------------------------------------------------- *)
Record sstate := mkS { sp : list frecord; sk : list entry }.
Inductive sobs := SP (c : rc) | SK (c : Z) (cbs : list callback) | SAny.

Definition sstep (o : aop) (x : sstate) : sstate * sobs :=
  match o with
  | OPAdd r => let '(X, c) := sp_add (sp x) r in (mkS X (sk x), SP c)
  | OPRemove r => let '(X, c) := sp_remove (sp x) r in (mkS X (sk x), SP c)
  | OPSrcRemove s => (mkS (sp_src_remove (sp x) s) (sk x), SP SUCCESS)
  | OKAdd e => let '(c, l, cbs) := KP.sp_add (sk x) e in (mkS (sp x) l, SK c cbs)
  | OKRemove e => let '(c, l, cbs) := KP.sp_remove (sk x) e in (mkS (sp x) l, SK c cbs)
  | OKSrcRemove s => let '(c, l, cbs) := KP.sp_src_remove (sk x) s in (mkS (sp x) l, SK c cbs)
  | _ => (x, SAny)
  end.

Definition Rel (st : tabs) (x : sstate) : Prop :=
  Permutation (trecords (tp st)) (sp x) /\ KM.contents (tk st) = sk x.

Definition obs_match (ob : obs) (so : sobs) : Prop :=
  match ob, so with
  | ObsP c _, SP c' => c = c'
  | ObsK c cbs, SK c' cbs' => c = c' /\ cbs = cbs'
  | _, SAny => True
  | _, _ => False
  end.

Lemma pure_step_rel o st x : aop_ok o -> TabsInv st -> Rel st x ->
  Rel (fst (step_pure hash bit0 o st)) (fst (sstep o x)) /\ obs_match (snd (step_pure hash bit0 o st)) (snd (sstep o x)).
Proof.
  intros Hok [Hwf Hki] [Hp Hk]. destruct st as [T K], x as [X Y]. cbn [tp tk sp sk] in *. unfold KM.contents in Hk. subst Y.
  destruct o as [r|r|s0|v6 asn q qlen|e|e|s0|a sk0|sk0]; cbn [step_pure sstep tp tk sp sk aop_ok] in *.
  - destruct (tadd_spec T X r Hwf Hp Hok) as (T' & c & cbs & X' & E1 & E2 & _ & Hp' & _). rewrite E1, E2. cbn. split; [split|]; auto.
  - destruct (tremove_spec T X r Hwf Hp Hok) as (T' & c & cbs & X' & E1 & E2 & _ & Hp' & _). rewrite E1, E2. cbn. split; [split|]; auto.
  - destruct (tsrc_remove_spec T X s0 Hwf Hp) as (T' & cbs & E1 & _ & Hp' & _). rewrite E1. cbn. split; [split|]; auto.
  - cbn. split; [split|]; auto.
  - destruct (KM.add_entry hash K e) as [[c t'] cbs] eqn:E. destruct (KP.add_refines hash bit0 bit0_nonneg K e c t' cbs Hki E) as [_ E2].
    rewrite E2. cbn. split; [split|]; auto.
  - destruct (KM.remove_entry hash bit0 K e) as [[c t'] cbs] eqn:E. destruct (KP.remove_refines hash bit0 bit0_nonneg K e c t' cbs Hki E) as [_ E2].
    rewrite E2. cbn. split; [split|]; auto.
  - destruct (KM.src_remove hash bit0 K s0) as [[c t'] cbs] eqn:E. unfold KM.src_remove in E.
    destruct (KP.src_remove_refines hash bit0 bit0_nonneg _ K s0 c t' cbs Hki E) as (_ & E2 & E3 & _).
    destruct (KP.sp_src_remove (KM.lst K) s0) as [[c2 l2] cbs2]. cbn [fst snd] in *. injection E2 as -> ->. rewrite (E3 eq_refl).
    cbn. split; [split|]; auto.
  - cbn. split; [split|]; auto.
  - cbn. split; [split|]; auto.
Qed.

(* the Spec applied to the operations that did not report an error; [None] marks the others *)
Fixpoint spec_run (ops : list aop) (errs : list bool) (x : sstate) : sstate * list (option sobs) :=
  match ops, errs with
  | o :: ops', e :: errs' =>
    if e then let '(x', l) := spec_run ops' errs' x in (x', None :: l)
    else let '(x1, so) := sstep o x in let '(x', l) := spec_run ops' errs' x1 in (x', Some so :: l)
  | _, _ => (x, [])
  end.

Definition obs_ok (ob : obs) (so : option sobs) : Prop :=
  match so with
  | None => is_error ob = true /\ obs_quiet ob
  | Some so => is_error ob = false /\ obs_match ob so
  end.

(* ---- every history, faults at arbitrary positions -------------------------------------------------------- *)
Lemma run_m_spec v : good v -> forall h st x s B,
  Forall aop_ok (map fst h) -> TabsInv st -> Rel st x -> LiveInv s st B ->
  exists st' obss s', run_m hash bit0 v h st s = Val (st', obss) s' /\
    corrupt s' = corrupt s /\ libc_frees (rlog s') = libc_frees (rlog s) /\
    TabsInv st' /\ LiveInv s' st' B /\
    Rel st' (fst (spec_run (map fst h) (map is_error obss) x)) /\
    Forall2 obs_ok obss (snd (spec_run (map fst h) (map is_error obss) x)).
Proof.
  intros Hv. induction h as [|[o f] h IH]; intros st x s B Hok Hinv Hrel HL; cbn [run_m map fst].
  - exists st, [], s. cbn [map spec_run fst snd]. split; [reflexivity|]. split; [reflexivity|]. split; [reflexivity|].
    split; [exact Hinv|]. split; [exact HL|]. split; [exact Hrel|constructor].
  - inversion Hok as [|? ? Ho Hrest]; subst.
    assert (HLa : LiveInv (arm f s) st B) by exact HL.
    destruct (step_m_spec v o st (arm f s) B Hv Ho Hinv HLa) as (st1 & ob & s1 & df & E1 & (_ & C1 & _ & Lb1) & Hinv1 & HL1 & Hcase).
    rewrite E1. cbn [arm corrupt rlog] in C1, Lb1.
    destruct (pure_step_rel o st x Ho Hinv Hrel) as [Hrel1 Hom].
    destruct Hcase as [(_ & He & -> & Hq)|(He & Hob & Htp & Htk)].
    + destruct (IH st x s1 B Hrest Hinv Hrel HL1) as (st2 & obs2 & s2 & E2 & C2 & Lb2 & Hinv2 & HL2 & Hrel2 & Hf2).
      rewrite E2. exists st2, (ob :: obs2), s2. split; [reflexivity|]. cbn [map spec_run]. rewrite He.
      destruct (spec_run (map fst h) (map is_error obs2) x) as [x' l]. cbn [fst snd] in *.
      split; [congruence|]. split; [congruence|]. split; [exact Hinv2|]. split; [exact HL2|]. split; [exact Hrel2|].
      constructor; [split; assumption|exact Hf2].
    + assert (Hrel1' : Rel st1 (fst (sstep o x))).
      { destruct Hrel1 as [Hp Hk]. split; [rewrite Htp; exact Hp|rewrite Htk; exact Hk]. }
      destruct (IH st1 (fst (sstep o x)) s1 B Hrest Hinv1 Hrel1' HL1) as (st2 & obs2 & s2 & E2 & C2 & Lb2 & Hinv2 & HL2 & Hrel2 & Hf2).
      rewrite E2. exists st2, (ob :: obs2), s2. split; [reflexivity|]. cbn [map spec_run]. rewrite He.
      destruct (sstep o x) as [x1 so]. cbn [fst snd] in *.
      destruct (spec_run (map fst h) (map is_error obs2) x1) as [x' l]. cbn [fst snd] in *.
      split; [congruence|]. split; [congruence|]. split; [exact Hinv2|]. split; [exact HL2|]. split; [exact Hrel2|].
      constructor; [|exact Hf2]. split; [exact He|]. rewrite Hob. exact Hom.
Qed.

Lemma init_TabsInv : TabsInv (init_tabs bit0).
Proof. split; [apply RtrV.Pfx.PfxHistory.empty_TWF|apply KP.spki_init_inv; exact bit0_nonneg]. Qed.

Lemma init_LiveInv : LiveInv init_ast (init_tabs bit0) (fun _ => 0).
Proof.
  intros c. unfold blocks, init_tabs, init_ast. cbn [live tp tk]. unfold pblocks, kblocks, nsegs. cbn [empty_table t4 t6 size KM.spki_init KM.ht KM.lst].
  unfold RtrV.Spki.Hashlin.hl_init. cbn [RtrV.Spki.Hashlin.bucket_bit]. rewrite Z.sub_diag. destruct c; reflexivity.
Qed.

Lemma init_Rel : Rel (init_tabs bit0) (mkS [] []).
Proof. split; [constructor|reflexivity]. Qed.


(* ---- balance: everything obtained is returned, through the configured allocator ------------------------- *)
Lemma free_all_spec v st s B : free_cfg v = true -> LiveInv s st B ->
  exists s', free_all_m bit0 v st s = Val tt s' /\ fail_at s' = fail_at s /\ corrupt s' = corrupt s /\
    failures (rlog s') = failures (rlog s) /\ libc_frees (rlog s') = libc_frees (rlog s) /\ (forall c, cnt c (live s') = B c).
Proof.
  intros Hv HL. unfold free_all_m.
  destruct (tfree_m_spec (tp st) s _ (proj1 (LiveInv_P s st B) HL)) as (s1 & E1 & (F1 & C1 & Fl1 & Lb1) & HL1).
  rewrite (bind_val _ _ _ _ _ E1).
  destruct (release_m_spec hash bit0 v (tk st) s1 (fun c => B c)) as (s2 & E2 & F2 & C2 & Fl2 & Lb2 & N2).
  { intros c. rewrite (HL1 c). unfold pblocks. cbn [empty_table t4 t6 size]. destruct (pcls c); lia. }
  exists s2. split; [exact E2|]. rewrite Hv in Lb2. split; [congruence|]. split; [congruence|]. split; [lia|]. split; [lia|exact N2].
Qed.

End H.
End OpsP.

(* ================================================================================================ *)
(* the first part of a synchronisation: temporary arrays, prefix shadow table, router-key shadow object *)
Module SyncP.
Import RtrV.Pfx.TrieModel RtrV.Pfx.TrieInv RtrV.Pfx.TrieSet RtrV.Pfx.PfxTable RtrV.Pfx.PfxProofs.
Import PfxA SpkiA OpsA SyncA PfxP SpkiP.

Lemma WF_key_ok W t : forall lvl pi p len e, WF W lvl pi t -> In (p, len, e) (records t) -> key_ok W p len.
Proof.
  induction t as [|q ql qd l IHl r IHr]; intros lvl pi p len e Hwf Hin; cbn [records] in Hin; [contradiction|].
  cbn [WF] in Hwf. destruct Hwf as (H1 & H2 & _ & H4 & _ & _ & _ & _ & _ & _ & H11 & H12).
  apply in_app_or in Hin as [Hin|Hin]; [eapply IHl; eassumption|].
  apply in_app_or in Hin as [Hin|Hin]; [|eapply IHr; eassumption].
  apply in_map_iff in Hin as (x & Hx & _). injection Hx as <- <- _. repeat split; assumption.
Qed.

Lemma TWF_rec_ok T r : TWF T -> In r (trecords T) -> rec_ok r.
Proof.
  intros [H4 H6] Hin. unfold trecords in Hin. apply in_app_or in Hin as [Hin|Hin];
    apply in_map_iff in Hin as ([[p len] e] & <- & Hin); cbn [tag rec_ok width]; eapply WF_key_ok; eassumption.
Qed.

Section Y.
Variable incr : nat.
Variable me_p : N.

Definition arr_cnt (n : nat * nat * nat) (c : cls) : nat :=
  let '(n4, n6, nk) := n in
  match c with
  | Arr4 => if Nat.eqb n4 0 then 0 else 1
  | Arr6 => if Nat.eqb n6 0 then 0 else 1
  | ArrK => if Nat.eqb nk 0 then 0 else 1
  | _ => 0
  end.

Lemma store_one_spec c n s : (n <> 0 -> 0 < cnt c (live s)) ->
  exists ok s', store_one incr c n s = Val ok s' /\
    ((ok = true /\ post s s' 0 /\ live s' = (if Nat.eqb n 0 then c :: live s else live s)) \/
     (ok = false /\ post s s' 1 /\ live s' = live s)).
Proof.
  intros H. unfold store_one. destruct (Nat.eqb (n mod incr) 0) eqn:Em.
  - destruct (Nat.eqb n 0) eqn:En.
    + destruct (alloc_gen_spec (EvR0 c) c s) as (b & s1 & E1 & (L1 & F1) & C1 & _ & Hlive). unfold realloc0. rewrite E1.
      exists b, s1. split; [reflexivity|]. destruct b; [left|right]; (split; [reflexivity|]); (split; [|exact Hlive]);
        unfold post, failures, libc_frees; rewrite L1; cbn; repeat split; auto; lia.
    + apply Nat.eqb_neq in En. destruct (realloc_spec c s (H En)) as (b & s1 & E1 & (L1 & F1) & C1 & _ & Hlive). rewrite E1.
      exists b, s1. split; [reflexivity|]. destruct b; [left|right]; (split; [reflexivity|]); (split; [|exact Hlive]);
        unfold post, failures, libc_frees; rewrite L1; cbn; repeat split; auto; lia.
  - exists true, s. split; [reflexivity|]. left. split; [reflexivity|]. split; [apply post_refl|].
    destruct (Nat.eqb n 0) eqn:En; [|reflexivity]. apply Nat.eqb_eq in En. subst n.
    destruct incr as [|k]; [cbn in Em; discriminate|]. rewrite Nat.mod_0_l in Em by lia. discriminate.
Qed.

Lemma store_m_spec : forall pdus n4 n6 nk s Base,
  (forall c, cnt c (live s) = Base c + arr_cnt (n4, n6, nk) c) ->
  exists ok n' s', store_m incr pdus n4 n6 nk s = Val (ok, n') s' /\
    (forall c, cnt c (live s') = Base c + arr_cnt n' c) /\
    ((ok = true /\ post s s' 0) \/ (ok = false /\ post s s' 1)).
Proof.
  induction pdus as [|u pdus IH]; intros n4 n6 nk s Base HL; cbn [store_m].
  - exists true, (n4, n6, nk), s. split; [reflexivity|]. split; [exact HL|]. left. split; [reflexivity|apply post_refl].
  - destruct u as [a r|a r|a e].
    + destruct (store_one_spec Arr4 n4 s) as (ok & s1 & E1 & H1).
      { intros Hn. rewrite (HL Arr4). cbn [arr_cnt]. apply Nat.eqb_neq in Hn. rewrite Hn. lia. }
      rewrite (bind_val _ _ _ _ _ E1). destruct H1 as [(-> & Hp1 & Hlive)|(-> & Hp1 & Hlive)].
      * destruct (IH (S n4) n6 nk s1 Base) as (ok2 & n' & s2 & E2 & HL2 & H2).
        { intros c. rewrite Hlive. specialize (HL c). cbn [arr_cnt] in *. destruct (Nat.eqb n4 0); destruct c; cbn in *; lia. }
        exists ok2, n', s2. split; [exact E2|]. split; [exact HL2|].
        destruct H2 as [(-> & Hp2)|(-> & Hp2)]; [left|right]; (split; [reflexivity|]).
        -- apply (post_trans _ _ _ 0 0 Hp1 Hp2).
        -- apply (post_trans _ _ _ 0 1 Hp1 Hp2).
      * exists false, (n4, n6, nk), s1. split; [reflexivity|]. split; [intros c; rewrite Hlive; apply HL|]. right. auto.
    + destruct (store_one_spec Arr6 n6 s) as (ok & s1 & E1 & H1).
      { intros Hn. rewrite (HL Arr6). cbn [arr_cnt]. apply Nat.eqb_neq in Hn. rewrite Hn. lia. }
      rewrite (bind_val _ _ _ _ _ E1). destruct H1 as [(-> & Hp1 & Hlive)|(-> & Hp1 & Hlive)].
      * destruct (IH n4 (S n6) nk s1 Base) as (ok2 & n' & s2 & E2 & HL2 & H2).
        { intros c. rewrite Hlive. specialize (HL c). cbn [arr_cnt] in *. destruct (Nat.eqb n6 0); destruct c; cbn in *; lia. }
        exists ok2, n', s2. split; [exact E2|]. split; [exact HL2|].
        destruct H2 as [(-> & Hp2)|(-> & Hp2)]; [left|right]; (split; [reflexivity|]).
        -- apply (post_trans _ _ _ 0 0 Hp1 Hp2).
        -- apply (post_trans _ _ _ 0 1 Hp1 Hp2).
      * exists false, (n4, n6, nk), s1. split; [reflexivity|]. split; [intros c; rewrite Hlive; apply HL|]. right. auto.
    + destruct (store_one_spec ArrK nk s) as (ok & s1 & E1 & H1).
      { intros Hn. rewrite (HL ArrK). cbn [arr_cnt]. apply Nat.eqb_neq in Hn. rewrite Hn. lia. }
      rewrite (bind_val _ _ _ _ _ E1). destruct H1 as [(-> & Hp1 & Hlive)|(-> & Hp1 & Hlive)].
      * destruct (IH n4 n6 (S nk) s1 Base) as (ok2 & n' & s2 & E2 & HL2 & H2).
        { intros c. rewrite Hlive. specialize (HL c). cbn [arr_cnt] in *. destruct (Nat.eqb nk 0); destruct c; cbn in *; lia. }
        exists ok2, n', s2. split; [exact E2|]. split; [exact HL2|].
        destruct H2 as [(-> & Hp2)|(-> & Hp2)]; [left|right]; (split; [reflexivity|]).
        -- apply (post_trans _ _ _ 0 0 Hp1 Hp2).
        -- apply (post_trans _ _ _ 0 1 Hp1 Hp2).
      * exists false, (n4, n6, nk), s1. split; [reflexivity|]. split; [intros c; rewrite Hlive; apply HL|]. right. auto.
Qed.

Lemma when_free_spec (b : bool) c s : (b = true -> 0 < cnt c (live s)) ->
  exists s', when b (free ViaCfg c) s = Val tt s' /\ post s s' 0 /\
    (forall x, cnt x (live s') = cnt x (live s) - (if cls_eqb x c && b then 1 else 0)).
Proof.
  intros H. destruct b; cbn [when].
  - destruct (free_spec ViaCfg c s (H eq_refl)) as (s1 & E & (L & F) & C & _ & _ & N).
    exists s1. split; [exact E|]. split; [unfold post, failures, libc_frees; rewrite L; cbn; repeat split; auto; lia|].
    intros x. rewrite N, andb_true_r. reflexivity.
  - exists s. split; [reflexivity|]. split; [apply post_refl|]. intros x. rewrite andb_false_r. lia.
Qed.

Lemma free_arrays_spec n s Base : (forall c, cnt c (live s) = Base c + arr_cnt n c) ->
  exists s', free_arrays n s = Val tt s' /\ post s s' 0 /\ (forall c, cnt c (live s') = Base c).
Proof.
  intros HL. destruct n as [[n4 n6] nk]. unfold free_arrays.
  destruct (when_free_spec (negb (Nat.eqb nk 0)) ArrK s) as (s1 & E1 & Hp1 & N1).
  { intros Hb. rewrite (HL ArrK). cbn [arr_cnt]. destruct (Nat.eqb nk 0); [discriminate|lia]. }
  destruct (when_free_spec (negb (Nat.eqb n6 0)) Arr6 s1) as (s2 & E2 & Hp2 & N2).
  { intros Hb. rewrite N1, (HL Arr6). cbn [arr_cnt cls_eqb andb]. destruct (Nat.eqb n6 0); [discriminate|lia]. }
  destruct (when_free_spec (negb (Nat.eqb n4 0)) Arr4 s2) as (s3 & E3 & Hp3 & N3).
  { intros Hb. rewrite N2, N1, (HL Arr4). cbn [arr_cnt cls_eqb andb]. destruct (Nat.eqb n4 0); [discriminate|lia]. }
  exists s3. rewrite (bind_val _ _ _ _ _ E1), (bind_val _ _ _ _ _ E2). split; [exact E3|]. split.
  - apply (post_trans _ _ _ 0 0 Hp1). apply (post_trans _ _ _ 0 0 Hp2 Hp3).
  - intros c. rewrite N3, N2, N1, (HL c). cbn [arr_cnt].
    destruct (Nat.eqb nk 0), (Nat.eqb n6 0), (Nat.eqb n4 0); destruct c; cbn; lia.
Qed.

(* pfx_table_copy_except_socket into the shadow table: whatever fails, the shadow table stays a table *)
Lemma copy_family_m_spec : forall rs s0 dst err s B,
  TWF dst -> Forall rec_ok rs -> LiveP s dst B ->
  exists dst' err' s' df, copy_family_m rs s0 dst err s = Val (dst', err') s' /\ post s s' df /\ TWF dst' /\ LiveP s' dst' B /\
    (err' = false -> err = false /\ df = 0).
Proof.
  induction rs as [|r rs IH]; intros s0 dst err s B Hwf Hok HL; cbn [copy_family_m].
  - exists dst, err, s, 0. split; [reflexivity|]. split; [apply post_refl|]. auto.
  - inversion Hok as [|? ? Hr Hrest]; subst.
    destruct (src_of r =? s0)%N; [apply IH; assumption|].
    destruct (tadd_m_spec dst r s B Hwf HL) as (res & s1 & E1 & [(Hp1 & -> & HL1)|(Hp1 & -> & HL1)]); rewrite (bind_val _ _ _ _ _ E1).
    + pose proof (OpsP.tadd_TWF dst r Hwf Hr) as Hw1.
      destruct (tadd dst r) as [[d1 c] cbs]. cbn [fst snd] in *.
      destruct (IH s0 d1 (match c with SUCCESS => err | _ => true end) s1 B Hw1 Hrest HL1) as (d2 & e2 & s2 & df2 & E2 & Hp2 & Hw2 & HL2 & He2).
      exists d2, e2, s2, (0 + df2). split; [exact E2|]. split; [apply (post_trans _ _ _ _ _ Hp1 Hp2)|]. split; [exact Hw2|]. split; [exact HL2|].
      intros H. destruct (He2 H) as [Hc ->]. split; [destruct c; congruence|reflexivity].
    + destruct (IH s0 dst true s1 B Hwf Hrest HL1) as (d2 & e2 & s2 & df2 & E2 & Hp2 & Hw2 & HL2 & He2).
      exists d2, e2, s2, (1 + df2). split; [exact E2|]. split; [apply (post_trans _ _ _ _ _ Hp1 Hp2)|]. split; [exact Hw2|]. split; [exact HL2|].
      intros H. destruct (He2 H) as [Hc _]. discriminate.
Qed.

Lemma tcopy_except_m_spec src s0 s B : TWF src -> LiveP s empty_table B ->
  exists dst' err' s' df, tcopy_except_m src empty_table s0 s = Val (dst', err') s' /\ post s s' df /\ TWF dst' /\ LiveP s' dst' B /\
    (err' = false -> df = 0).
Proof.
  intros Hwf HL. unfold tcopy_except_m.
  assert (Hall : forall v6, Forall rec_ok (map (tag v6) (records (root src v6)))).
  { intros v6. apply Forall_forall. intros r Hr. apply (TWF_rec_ok src r Hwf). unfold trecords, root in *.
    apply in_or_app. destruct v6; [right|left]; exact Hr. }
  destruct (copy_family_m_spec (map (tag false) (records (t4 src))) s0 empty_table false s B RtrV.Pfx.PfxHistory.empty_TWF (Hall false) HL)
    as (d1 & e1 & s1 & df1 & E1 & Hp1 & Hw1 & HL1 & He1).
  rewrite (bind_val _ _ _ _ _ E1). destruct e1.
  - exists d1, true, s1, df1. split; [reflexivity|]. split; [exact Hp1|]. split; [exact Hw1|]. split; [exact HL1|]. discriminate.
  - destruct (He1 eq_refl) as [_ ->].
    destruct (copy_family_m_spec (map (tag true) (records (t6 src))) s0 d1 false s1 B Hw1 (Hall true) HL1)
      as (d2 & e2 & s2 & df2 & E2 & Hp2 & Hw2 & HL2 & He2).
    exists d2, e2, s2, (0 + df2). split; [exact E2|]. split; [apply (post_trans _ _ _ _ _ Hp1 Hp2)|]. split; [exact Hw2|]. split; [exact HL2|].
    intros H. destruct (He2 H) as [_ ->]. reflexivity.
Qed.

Lemma free_shadow_pfx_spec T s B : LiveP s T (fun c => B c + (if cls_eqb c ShPfx then 1 else 0)) ->
  exists s', free_shadow_pfx T s = Val tt s' /\ post s s' 0 /\ (forall c, cnt c (live s') = B c).
Proof.
  intros HL. unfold free_shadow_pfx.
  destruct (tfree_m_spec T s _ HL) as (s1 & E1 & Hp1 & HL1). rewrite (bind_val _ _ _ _ _ E1).
  destruct (free_spec ViaCfg ShPfx s1) as (s2 & E2 & (L2 & F2) & C2 & _ & _ & N2).
  { rewrite (HL1 ShPfx). cbn. lia. }
  exists s2. split; [exact E2|]. split.
  - apply (post_trans _ _ _ 0 0 Hp1). unfold post, failures, libc_frees. rewrite L2. cbn. repeat split; auto; lia.
  - intros c. rewrite N2, (HL1 c). unfold pblocks. cbn [empty_table t4 t6 size]. destruct c; cbn; lia.
Qed.

(* every allocation of the first part, failed: RTR_ERROR, the socket's tables untouched, everything temporary
   released; no failure: the second part starts *)
Theorem sync_prepare_spec reset main pdus s Base :
  TWF (tp main) -> (forall c, cnt c (live s) = Base c) ->
  exists p s', sync_prepare_m incr me_p reset main pdus s = Val p s' /\
    match p with
    | Early o => o = mkOut false main [] [] /\ (exists df, post s s' df) /\ (forall c, cnt c (live s') = Base c)
    | Go n shp => post s s' 0 /\ reset = (match shp with Some _ => true | None => false end)
    end.
Proof.
  intros Hwf HB. unfold sync_prepare_m.
  destruct (store_m_spec pdus 0 0 0 s Base) as (ok & n & s1 & E1 & HL1 & H1).
  { intros c. rewrite (HB c). cbn. destruct c; lia. }
  rewrite (bind_val _ _ _ _ _ E1). destruct H1 as [(-> & Hp1)|(-> & Hp1)]; cbn [negb].
  2:{ destruct (free_arrays_spec n s1 Base HL1) as (s2 & E2 & Hp2 & N2). rewrite (bind_val _ _ _ _ _ E2).
      eexists _, s2. split; [reflexivity|]. split; [reflexivity|]. split; [exists (1 + 0); apply (post_trans _ _ _ _ _ Hp1 Hp2)|exact N2]. }
  destruct reset.
  2:{ eexists _, s1. split; [reflexivity|]. split; [exact Hp1|reflexivity]. }
  destruct (alloc_gen_spec (EvM ShPfx) ShPfx s1) as (a & s2 & E2 & (L2 & F2) & C2 & _ & Hlive2). unfold malloc at 1.
  rewrite (bind_val _ _ _ _ _ E2). destruct a; cbn [negb].
  2:{ destruct (free_arrays_spec n s2 Base) as (s3 & E3 & Hp3 & N3); [intros c; rewrite Hlive2; apply HL1|].
      rewrite (bind_val _ _ _ _ _ E3). eexists _, s3. split; [reflexivity|]. split; [reflexivity|]. split; [|exact N3].
      exists (0 + (1 + 0)). apply (post_trans _ _ _ 0 (1 + 0) Hp1). apply (post_trans _ s2 _ 1 0); [|exact Hp3].
      unfold post, failures, libc_frees. rewrite L2. cbn. repeat split; auto; lia. }
  assert (Hp2 : post s1 s2 0) by (unfold post, failures, libc_frees; rewrite L2; cbn; repeat split; auto; lia).
  set (B2 := fun c => Base c + arr_cnt n c + (if cls_eqb c ShPfx then 1 else 0)).
  destruct (tcopy_except_m_spec (tp main) me_p s2 B2 Hwf) as (Tsh & err & s3 & df3 & E3 & Hp3 & Hw3 & HL3 & He3).
  { intros c. rewrite Hlive2. cbn [cnt]. rewrite (HL1 c). unfold B2, pblocks. cbn [empty_table t4 t6 size]. destruct c; cbn; lia. }
  rewrite (bind_val _ _ _ _ _ E3).
  assert (Hdrop : forall s4, (forall c, cnt c (live s4) = cnt c (live s3)) ->
            exists s6, (mdo _ <- free_shadow_pfx Tsh ;; mdo _ <- free_arrays n ;; ret (Early (mkOut false main [] []))) s4
                       = Val (Early (mkOut false main [] [])) s6 /\ post s4 s6 0 /\ (forall c, cnt c (live s6) = Base c)).
  { intros s4 H4. destruct (free_shadow_pfx_spec Tsh s4 (fun c => Base c + arr_cnt n c)) as (s5 & E5 & Hp5 & N5).
    { intros c. rewrite H4, (HL3 c). unfold B2. lia. }
    destruct (free_arrays_spec n s5 Base N5) as (s6 & E6 & Hp6 & N6).
    exists s6. rewrite (bind_val _ _ _ _ _ E5), (bind_val _ _ _ _ _ E6). split; [reflexivity|]. split; [apply (post_trans _ _ _ 0 0 Hp5 Hp6)|exact N6]. }
  destruct err.
  - destruct (Hdrop s3 (fun c => eq_refl)) as (s6 & E6 & Hp6 & N6). rewrite E6.
    eexists _, s6. split; [reflexivity|]. split; [reflexivity|]. split; [|exact N6].
    exists (0 + (0 + (df3 + 0))). apply (post_trans _ _ _ 0 _ Hp1). apply (post_trans _ _ _ 0 _ Hp2). apply (post_trans _ _ _ df3 0 Hp3 Hp6).
  - rewrite (He3 eq_refl) in Hp3.
    destruct (alloc_gen_spec (EvM ShSpki) ShSpki s3) as (b & s4 & E4 & (L4 & F4) & C4 & _ & Hlive4). unfold malloc.
    rewrite (bind_val _ _ _ _ _ E4). destruct b; cbn [negb].
    + eexists _, s4. split; [reflexivity|]. split; [|reflexivity].
      apply (post_trans _ _ _ 0 0 Hp1). apply (post_trans _ _ _ 0 0 Hp2). apply (post_trans _ _ _ 0 0 Hp3).
      unfold post, failures, libc_frees. rewrite L4. cbn. repeat split; auto; lia.
    + destruct (Hdrop s4) as (s6 & E6 & Hp6 & N6); [intros c; rewrite Hlive4; reflexivity|]. rewrite E6.
      eexists _, s6. split; [reflexivity|]. split; [reflexivity|]. split; [|exact N6].
      exists (0 + (0 + (0 + (1 + 0)))). apply (post_trans _ _ _ 0 _ Hp1). apply (post_trans _ _ _ 0 _ Hp2). apply (post_trans _ _ _ 0 _ Hp3).
      apply (post_trans _ s4 _ 1 0); [|exact Hp6]. unfold post, failures, libc_frees. rewrite L4. cbn. repeat split; auto; lia.
Qed.

End Y.
End SyncP.

(* ================================================================================================ *)
(* the property, per variant of the code; the repaired code has it, each defective site refutes it *)
Module Final.
Import RtrV.Pfx.TrieModel RtrV.Pfx.TrieInv RtrV.Pfx.TrieSet RtrV.Pfx.PfxTable RtrV.Pfx.PfxProofs RtrV.Pfx.PfxHistory.
Import PfxA SpkiA OpsA SyncA PfxP SpkiP OpsP SyncP.
Module KM := RtrV.Spki.SpkiModel.
Module KP := RtrV.Spki.SpkiProofs.

(* contained: one operation, a fault at any position of it (or none), from any state of the invariants *)
Definition contained (v : variant) : Prop :=
  forall (hash : Z -> Z) (bit0 : Z), (0 <= bit0)%Z ->
  forall (o : aop) (st : tabs) (s : ast) (B : cls -> nat) (f : option nat),
    aop_ok o -> TabsInv hash bit0 st -> LiveInv bit0 s st B -> corrupt s = false ->
    exists st' ob s', step_m hash bit0 v o st (arm f s) = Val (st', ob) s' /\            (* never a crash *)
      corrupt s' = false /\ libc_frees (rlog s') = libc_frees (rlog s) /\
      TabsInv hash bit0 st' /\ LiveInv bit0 s' st' B /\                                   (* nothing leaked *)
      ((is_error ob = true /\ obs_quiet ob /\                                             (* error: no effect at all *)
        Permutation (trecords (tp st')) (trecords (tp st)) /\ KM.contents (tk st') = KM.contents (tk st)) \/
       (is_error ob = false /\ ob = snd (step_pure hash bit0 o st) /\                     (* else: the whole effect *)
        tp st' = tp (fst (step_pure hash bit0 o st)) /\
        KM.contents (tk st') = KM.contents (tk (fst (step_pure hash bit0 o st))))).

(* balanced: a history without faults, then both tables freed *)
Definition balanced (v : variant) : Prop :=
  forall (hash : Z -> Z) (bit0 : Z), (0 <= bit0)%Z -> forall ops : list aop, Forall aop_ok ops ->
    exists st obss s1 s2,
      run_m hash bit0 v (map (fun o => (o, None)) ops) (init_tabs bit0) init_ast = Val (st, obss) s1 /\
      free_all_m bit0 v st s1 = Val tt s2 /\
      live s2 = [] /\ corrupt s2 = false /\ libc_frees (rlog s2) = 0.

(* table creation reports a failed allocation *)
Definition init_reports (v : variant) : Prop := forall s, exists b s', init_m v s = Val b s'.

Definition C18_full (v : variant) : Prop := contained v /\ balanced v /\ init_reports v.

Definition all_good (v : variant) : Prop :=
  shrink_ok v = true /\ grow_checked v = true /\ init_checked v = true /\ free_cfg v = true /\ reason_tmp v = true /\
  result_null v = true.

Lemma contained_of_good v : good v -> contained v.
Proof.
  intros Hg hash bit0 Hb o st s B f Hok Hinv HL Hc.
  destruct (step_m_spec hash bit0 Hb v o st (arm f s) B Hg Hok Hinv HL) as (st' & ob & s' & df & E & (_ & C & _ & Lb) & Hinv' & HL' & Hcase).
  exists st', ob, s'. split; [exact E|]. cbn [arm corrupt rlog] in C, Lb. split; [congruence|]. split; [exact Lb|].
  split; [exact Hinv'|]. split; [exact HL'|].
  destruct Hcase as [(_ & He & -> & Hq)|H]; [left|right; exact H]. repeat split; auto.
Qed.

Lemma balanced_of_good v : good v -> free_cfg v = true -> balanced v.
Proof.
  intros Hg Hf hash bit0 Hb ops Hok.
  destruct (run_m_spec hash bit0 Hb v Hg (map (fun o => (o, None)) ops) (init_tabs bit0) (mkS [] []) init_ast (fun _ => 0))
    as (st & obss & s1 & E1 & C1 & Lb1 & Hinv1 & HL1 & _).
  { rewrite map_map. cbn [fst]. rewrite map_id. exact Hok. }
  { apply init_TabsInv. exact Hb. }
  { apply init_Rel. }
  { apply init_LiveInv. }
  destruct (free_all_spec hash bit0 v st s1 (fun _ => 0) Hf HL1) as (s2 & E2 & _ & C2 & _ & Lb2 & N2).
  exists st, obss, s1, s2. split; [exact E1|]. split; [exact E2|]. split; [apply cnt_all_zero; exact N2|].
  split; [rewrite C2, C1; reflexivity|rewrite Lb2, Lb1; reflexivity].
Qed.

Lemma init_reports_of v : init_checked v = true -> init_reports v.
Proof.
  intros Hv s. destruct (init_m_spec (fun x => x) 0%Z v s) as [(s' & E & _)|[(s' & E & _)|(s' & _ & Hc & _)]]; [eauto|eauto|congruence].
Qed.

Theorem full_of_all_good v : all_good v -> C18_full v.
Proof.
  intros (H1 & H2 & H3 & H4 & H5 & H6). assert (Hg : good v) by (repeat split; assumption).
  split; [apply contained_of_good; exact Hg|]. split; [apply balanced_of_good; assumption|apply init_reports_of; exact H3].
Qed.

Theorem full_repaired : C18_full repaired.
Proof. apply full_of_all_good. repeat split. Qed.

(* every history from a fresh pair of tables, a fault position (or none) per operation *)
Theorem histories_from_init (hash : Z -> Z) (bit0 : Z) : (0 <= bit0)%Z -> forall v, good v ->
  forall h : list (aop * option nat), Forall aop_ok (map fst h) ->
  exists st' obss s', run_m hash bit0 v h (init_tabs bit0) init_ast = Val (st', obss) s' /\
    corrupt s' = false /\ libc_frees (rlog s') = 0 /\ TabsInv hash bit0 st' /\ LiveInv bit0 s' st' (fun _ => 0) /\
    Rel st' (fst (spec_run (map fst h) (map is_error obss) (mkS [] []))) /\
    Forall2 obs_ok obss (snd (spec_run (map fst h) (map is_error obss) (mkS [] []))).
Proof.
  intros Hb v Hg h Hok.
  destruct (run_m_spec hash bit0 Hb v Hg h (init_tabs bit0) (mkS [] []) init_ast (fun _ => 0) Hok
              (init_TabsInv hash bit0 Hb) (init_Rel bit0) (init_LiveInv bit0)) as (st' & obss & s' & E & C & Lb & H).
  exists st', obss, s'. split; [exact E|]. split; [exact C|]. split; [exact Lb|exact H].
Qed.

(* ---- witnesses ---------------------------------------------------------------------------------------- *)
Definition idh (x : Z) : Z := x.
Definition b6 : Z := 6%Z.

(* one prefix, three records: two of source 2, one of source 3 *)
Definition wkey : addr := a4 [true; false; true].
Definition wr1 : frecord := (false, wkey, 3, mkE 1 8 2).
Definition wr2 : frecord := (false, wkey, 3, mkE 1 9 2).
Definition wr3 : frecord := (false, wkey, 3, mkE 1 10 3).
Definition wT : table := fst (fst (tadd (fst (fst (tadd (fst (fst (tadd empty_table wr1))) wr2))) wr3)).

Lemma wT_TWF : TWF wT.
Proof.
  assert (Hok : Forall op_ok [OAdd wr1; OAdd wr2; OAdd wr3]) by (repeat constructor; vm_compute; repeat split; reflexivity).
  destruct (history_all _ Hok) as (T & cs & cbs & Y & Hrun & Hwf & _).
  assert (E : run empty_table [OAdd wr1; OAdd wr2; OAdd wr3] = Some (wT, [SUCCESS; SUCCESS; SUCCESS], [Added wr1; Added wr2; Added wr3]))
    by (vm_compute; reflexivity).
  rewrite E in Hrun. injection Hrun as <- _ _. exact Hwf.
Qed.

Definition wst : tabs := mkTabs wT (KM.spki_init b6).
Definition ws (k : nat) : ast := mkA (Some k) 0 [HSeg; PAry; PData; PNode] [] false.

Lemma wst_inv : TabsInv idh b6 wst.
Proof. split; [exact wT_TWF|apply KP.spki_init_inv; unfold b6; lia]. Qed.
Lemma ws_live k : LiveInv b6 (ws k) wst (fun _ => 0).
Proof. intros c. destruct c; vm_compute; reflexivity. Qed.

(* the code as it is: the second shrink of pfx_table_src_remove fails -> PFX_ERROR, one record gone, one callback *)
Theorem refuted_shrink v : shrink_ok v = false -> ~ C18_full v.
Proof.
  intros Hv [Hc _]. destruct v as [a b c d e f g]. cbn in Hv. subst a.
  destruct (Hc idh b6 ltac:(unfold b6; lia) (OPSrcRemove 2) wst (ws 2) (fun _ => 0) (Some 2) I wst_inv (ws_live 2) eq_refl)
    as (st' & ob & s' & E & _ & _ & _ & _ & Hcase).
  assert (E2 : exists s0, step_m idh b6 (mkV false b c d e f g) (OPSrcRemove 2) wst (arm (Some 2) (ws 2)) =
               Val (mkTabs (set_root wT false (Node wkey 3 [mkE 1 10 3; mkE 1 9 2] Leaf Leaf)) (KM.spki_init b6), ObsP ERROR [Removed wr1]) s0)
    by (eexists; vm_compute; reflexivity).
  destruct E2 as (s0 & E2). rewrite E2 in E. injection E as <- <- _.
  destruct Hcase as [(_ & Hq & _)|(He & _)]; [cbn in Hq; discriminate Hq|cbn in He; discriminate He].
Qed.

(* thirty-two router keys (identity hash, TOMMY_HASHLIN_BIT = 6): the next insert starts a grow *)
Definition wkeys (n : nat) : list KM.entry := map (fun i => KM.mkE (Z.of_nat i) 1 1 2) (seq 1 n).
Definition wK32 : KM.spki_table := fst (KP.run idh b6 true (map (KP.OAdd 0) (wkeys 32)) (KP.init_state b6)) 0.
Definition wst32 : tabs := mkTabs empty_table wK32.
Definition ws32 (k : nat) : ast := mkA (Some k) 0 (HSeg :: repeat KEntry 32) [] false.

Lemma wst32_inv : TabsInv idh b6 wst32.
Proof. split; [exact empty_TWF|]. apply KP.invariant_all_histories. unfold b6; lia. Qed.
Lemma ws32_live k : LiveInv b6 (ws32 k) wst32 (fun _ => 0).
Proof. intros c. destruct c; vm_compute; reflexivity. Qed.

Theorem refuted_grow v : grow_checked v = false -> ~ C18_full v.
Proof.
  intros Hv [Hc _]. destruct v as [a b c d e f g]. cbn in Hv. subst b.
  destruct (Hc idh b6 ltac:(unfold b6; lia) (OKAdd (KM.mkE 33 1 1 2)) wst32 (ws32 2) (fun _ => 0) (Some 2) I wst32_inv (ws32_live 2) eq_refl)
    as (st' & ob & s' & E & _).
  assert (E2 : exists s0, step_m idh b6 (mkV a false c d e f g) (OKAdd (KM.mkE 33 1 1 2)) wst32 (arm (Some 2) (ws32 2)) = Crash s0)
    by (eexists; vm_compute; reflexivity).
  destruct E2 as (s0 & E2). rewrite E2 in E. discriminate E.
Qed.

Theorem refuted_init v : init_checked v = false -> ~ C18_full v.
Proof.
  intros Hv (_ & _ & Hi). destruct (Hi (mkA (Some 1) 0 [] [] false)) as (b & s' & E).
  unfold init_m, bind, malloc, alloc_gen in E. cbn in E. rewrite Hv in E. discriminate E.
Qed.

Theorem refuted_free v : free_cfg v = false -> ~ C18_full v.
Proof.
  intros Hv (_ & Hb & _). destruct v as [a b c d e f g]. cbn in Hv. subst d.
  destruct (Hb idh b6 ltac:(unfold b6; lia) [OKAdd (KM.mkE 1 1 1 2)] ltac:(repeat constructor)) as (st & obss & s1 & s2 & E1 & E2 & _ & _ & Hl).
  assert (W : exists st0 o0 s10 s20,
             run_m idh b6 (mkV a b c false e f g) (map (fun o => (o, None)) [OKAdd (KM.mkE 1 1 1 2)]) (init_tabs b6) init_ast = Val (st0, o0) s10 /\
             free_all_m b6 (mkV a b c false e f g) st0 s10 = Val tt s20 /\ libc_frees (rlog s20) = 1).
  { eexists _, _, _, _. split; [vm_compute; reflexivity|]. split; vm_compute; reflexivity. }
  destruct W as (st0 & o0 & s10 & s20 & W1 & W2 & W3).
  rewrite W1 in E1. injection E1 as <- <- <-. rewrite W2 in E2. injection E2 as <-. congruence.
Qed.

(* two nested covering prefixes: the second (re)allocation of the reason array fails *)
Definition wn1 : frecord := (false, a4 [true; false; true], 3, mkE 1 8 2).
Definition wn2 : frecord := (false, a4 [true; false; true; true], 4, mkE 1 9 2).
Definition wN : table := fst (fst (tadd (fst (fst (tadd empty_table wn1))) wn2)).
Lemma wN_TWF : TWF wN.
Proof.
  assert (Hok : Forall op_ok [OAdd wn1; OAdd wn2]) by (repeat constructor; vm_compute; repeat split; reflexivity).
  destruct (history_all _ Hok) as (T & cs & cbs & Y & Hrun & Hwf & _).
  assert (E : run empty_table [OAdd wn1; OAdd wn2] = Some (wN, [SUCCESS; SUCCESS], [Added wn1; Added wn2])) by (vm_compute; reflexivity).
  rewrite E in Hrun. injection Hrun as <- _ _. exact Hwf.
Qed.
Definition wstN : tabs := mkTabs wN (KM.spki_init b6).
Definition wsN (k : nat) : ast := mkA (Some k) 0 [HSeg; PAry; PData; PNode; PAry; PData; PNode] [] false.
Lemma wstN_inv : TabsInv idh b6 wstN.
Proof. split; [exact wN_TWF|apply KP.spki_init_inv; unfold b6; lia]. Qed.
Lemma wsN_live k : LiveInv b6 (wsN k) wstN (fun _ => 0).
Proof. intros c. destruct c; vm_compute; reflexivity. Qed.

Theorem refuted_reason v : reason_tmp v = false -> ~ C18_full v.
Proof.
  intros Hv [Hc _]. destruct v as [a b c d e f g]. cbn in Hv. subst e.
  pose (o := OPValidate false 7 (a4 [true; false; true; true]) 6).
  destruct (Hc idh b6 ltac:(unfold b6; lia) o wstN (wsN 2) (fun _ => 0) (Some 2) I wstN_inv (wsN_live 2) eq_refl)
    as (st' & ob & s' & E & _ & _ & _ & HL & _).
  assert (E2 : exists s0, step_m idh b6 (mkV a b c d false f g) o wstN (arm (Some 2) (wsN 2)) = Val (wstN, ObsV None) s0 /\
                          cnt PReason (live s0) = 1) by (eexists; split; vm_compute; reflexivity).
  destruct E2 as (s0 & E2 & Hleak). rewrite E2 in E. injection E as <- _ <-.
  specialize (HL PReason). rewrite Hleak in HL. vm_compute in HL. discriminate HL.
Qed.

(* two router keys with one SKI: the second (re)allocation of the result array fails *)
Definition wK2 : KM.spki_table := fst (KP.run idh b6 true (map (KP.OAdd 0) [KM.mkE 1 2 3 2; KM.mkE 1 2 4 2]) (KP.init_state b6)) 0.
Definition wst2 : tabs := mkTabs empty_table wK2.
Definition ws2 (k : nat) : ast := mkA (Some k) 0 [HSeg; KEntry; KEntry] [] false.
Lemma wst2_inv : TabsInv idh b6 wst2.
Proof. split; [exact empty_TWF|]. apply KP.invariant_all_histories. unfold b6; lia. Qed.
Lemma ws2_live k : LiveInv b6 (ws2 k) wst2 (fun _ => 0).
Proof. intros c. destruct c; vm_compute; reflexivity. Qed.

Theorem refuted_lookup v : result_null v = false -> ~ C18_full v.
Proof.
  intros Hv [Hc _]. destruct v as [a b c d e f g]. cbn in Hv. subst g.
  destruct (Hc idh b6 ltac:(unfold b6; lia) (OKSki 2) wst2 (ws2 2) (fun _ => 0) (Some 2) I wst2_inv (ws2_live 2) eq_refl)
    as (st' & ob & s' & E & Hcor & _).
  assert (E2 : exists s0, step_m idh b6 (mkV a b c d e f false) (OKSki 2) wst2 (arm (Some 2) (ws2 2)) = Val (wst2, ObsL None) s0 /\
                          corrupt s0 = true) by (eexists; split; vm_compute; reflexivity).
  destruct E2 as (s0 & E2 & Hbad). rewrite E2 in E. injection E as _ _ <-. congruence.
Qed.

(* trie_get_children (an internal helper, used by the test suite only): a chain of three nodes, the second append fails *)
Definition wc1 : frecord := (false, a4 [true], 1, mkE 1 8 2).
Definition wc2 : frecord := (false, a4 [true; true], 2, mkE 1 9 2).
Definition wc3 : frecord := (false, a4 [true; true; true], 3, mkE 1 9 2).
Definition wC : table := fst (fst (tadd (fst (fst (tadd (fst (fst (tadd empty_table wc1))) wc2))) wc3)).

Theorem refuted_children v : children_once v = false ->
  exists s', tchildren_m v (t4 wC) (mkA (Some 2) 0 [] [] false) = Val false s' /\ corrupt s' = true.
Proof. intros Hv. destruct v as [a b c d e f g]. cbn in Hv. subst f. eexists. split; vm_compute; reflexivity. Qed.

Theorem children_repaired v : children_once v = true ->
  exists s', tchildren_m v (t4 wC) (mkA (Some 2) 0 [] [] false) = Val false s' /\ corrupt s' = false /\ live s' = [].
Proof. intros Hv. destruct v as [a b c d e f g]. cbn in Hv. subst f. eexists. repeat split; vm_compute; reflexivity. Qed.

(* ---- what holds of the code as it is (any variant) ---------------------------------------------------- *)
(* prefix add / remove / validation and router-key operations that need no new hash segment are contained
   whatever the other sites do; the first part of a synchronisation too (SyncP.sync_prepare_spec) *)
Theorem as_is_part :
  (forall T r s B, TWF T -> LiveP s T B -> exists res s', tadd_m T r s = Val res s' /\
      ((post s s' 0 /\ res = tadd T r /\ LiveP s' (fst (fst (tadd T r))) B) \/ (post s s' 1 /\ res = (T, ERROR, []) /\ LiveP s' T B))) /\
  (forall T r s B, TWF T -> LiveP s T B -> exists res s', tremove_m as_is T r s = Val res s' /\
      ((post s s' 0 /\ res = tremove T r /\ LiveP s' (fst (fst (tremove T r))) B) \/
       (post s s' 1 /\ exists T', res = (T', ERROR, []) /\ TWF T' /\ Permutation (trecords T') (trecords T) /\ LiveP s' T' B))) /\
  (forall hash bit0, (0 <= bit0)%Z -> forall t e s B, KP.SpkiInv hash bit0 t -> LiveK bit0 s t B -> need_seg (KM.ht t) = false ->
      exists res s', add_entry_m hash as_is t e s = Val res s' /\
      ((post s s' 0 /\ res = KM.add_entry hash t e /\ LiveK bit0 s' (snd (fst (KM.add_entry hash t e))) B) \/
       (post s s' 1 /\ res = (KM.SPKI_ERROR, t, []) /\ LiveK bit0 s' t B))).
Proof.
  split; [intros; apply tadd_m_spec; assumption|]. split.
  - intros T r s B Hwf HL. destruct (tremove_m_spec as_is T r s B Hwf HL) as (res & s' & E & [H|[(_ & Hc & _)|(Hp & _ & H)]]).
    + exists res, s'. auto.
    + discriminate.
    + exists res, s'. auto.
  - intros hash bit0 Hb t e s B Hinv HL Hns.
    destruct (add_entry_m_spec hash bit0 Hb as_is t e s B Hinv HL) as [(res & s' & E & [H|[H|(_ & Hc & _)]])|(s' & _ & _ & Hc & _)].
    + exists res, s'. auto.
    + exists res, s'. auto.
    + discriminate.
    + congruence.
Qed.

(* the constants the executed model takes from the code *)
Lemma code_constants :
  (0 <= RtrV.Gen.Generated.c_TOMMY_HASHLIN_BIT)%Z /\ (0 < RtrV.Gen.Generated.c_TEMPORARY_PDU_STORE_INCREMENT_VALUE)%Z /\
  KM.SPKI_ERROR <> KM.SPKI_SUCCESS.
Proof. repeat split; vm_compute; congruence. Qed.

End Final.
