(* C12 - Generated BGPsec signatures verify under an independent RFC 8205 implementation.

   Spec   : Bgpsec/DigestSpec.v  [signing_digest] = RFC 8205 section 4.2 (written from the RFC).
   Model  : Bgpsec/Align.v (align_byte_sequence in SIGNING mode, req_stream_size),
            Bgpsec/Sign.v  (rtr_bgpsec_generate_signature, prepend_*, building a path hop by hop).
   SHA-256, load_private_key, ECDSA_size, ECDSA_sign, load_public_key, ECDSA_verify are
   universally quantified functions; that sign/verify match is a hypothesis of C12_roundtrip
   only.  The *independent implementation* side of the property is the extracted
   [signing_digest] + OpenSSL run against the real library by tools/props/C12.py.           *)
From RtrV Require Import Base.CSem Bgpsec.DigestSpec Bgpsec.Align Bgpsec.Validate Bgpsec.Sign
     Bgpsec.Toy Bgpsec.DigestProofs Bgpsec.AlignProofs Bgpsec.ValidateProofs Bgpsec.SignProofs.
Local Open Scope Z_scope.
Local Notation length := List.length (only parsing).

(* Layout: the bytes hashed when signing (the whole stream) are the RFC signing digest of the
   update whose head Secure_Path Segment is the signer's new one. *)
Theorem C12_layout : forall d : bgpsec_c,
  wf_data d -> counts_ok d -> length (b_path d) = S (length (b_sigs d)) ->
  total_bytes d SIGNING < 65536 ->
  exists s, aligned_stream d SIGNING = Some s /\ signing_digest (to_update d) = Some (st_buf s) /\
            st_size s = req_stream_size d SIGNING /\ Z.of_nat (length (st_buf s)) = st_size s.
Proof. exact signing_layout. Qed.

(* Size: exact allocation when the total fits 16 bits; truncated allocation and a copy past its
   end ([None]) when it does not. *)
Theorem C12_size : forall d : bgpsec_c,
  wf_data d -> counts_ok d -> (length (b_sigs d) <= length (b_path d))%nat ->
  (total_bytes d SIGNING < 65536 ->
   exists s, aligned_stream d SIGNING = Some s /\ st_size s = req_stream_size d SIGNING /\
             req_stream_size d SIGNING = total_bytes d SIGNING /\
             Z.of_nat (length (st_buf s)) = st_size s) /\
  (65536 <= total_bytes d SIGNING < 2147483648 -> aligned_stream d SIGNING = None).
Proof.
  intros d Wf Hc Hl. apply (stream_size d SIGNING Wf Hc); [discriminate|exact Hl].
Qed.

(* Codes, in the C's priority order. *)
Theorem C12_codes :
  forall (sha256 : list Z -> list Z) (load_priv : list Z -> bool) (ecdsa_size : list Z -> Z)
         (ecdsa_sign : list Z -> list Z -> list Z) d priv out_null,
    (b_path d = [] \/ priv = None \/ out_null = false ->
     generate_signature sha256 load_priv ecdsa_size ecdsa_sign d priv out_null
     = Some (BGPSEC_INVALID_ARGUMENTS, None)) /\
    (forall key, b_path d <> [] -> priv = Some key -> out_null = true ->
      (b_alg d <> ALGORITHM_SUITE_1 ->
       generate_signature sha256 load_priv ecdsa_size ecdsa_sign d priv out_null
       = Some (BGPSEC_UNSUPPORTED_ALGORITHM_SUITE, None)) /\
      (b_alg d = ALGORITHM_SUITE_1 ->
       n_afi (b_nlri d) <> BGPSEC_IPV4 -> n_afi (b_nlri d) <> BGPSEC_IPV6 ->
       generate_signature sha256 load_priv ecdsa_size ecdsa_sign d priv out_null
       = Some (BGPSEC_UNSUPPORTED_AFI, None)) /\
      (b_alg d = ALGORITHM_SUITE_1 ->
       (n_afi (b_nlri d) = BGPSEC_IPV4 \/ n_afi (b_nlri d) = BGPSEC_IPV6) ->
       b_path_len d <> b_sigs_len d + 1 ->
       generate_signature sha256 load_priv ecdsa_size ecdsa_sign d priv out_null
       = Some (BGPSEC_WRONG_SEGMENT_COUNT, None)) /\
      (sign_preconds d -> load_priv key = false \/ ecdsa_size key = 0 ->
       generate_signature sha256 load_priv ecdsa_size ecdsa_sign d priv out_null
       = Some (BGPSEC_LOAD_PRIV_KEY_ERROR, None))).
Proof. exact generate_codes. Qed.

(* The successful call returns RTR_BGPSEC_SUCCESS and the signature of SHA-256 of the RFC
   signing digest (SKI left zero for the caller to fill in). *)
Theorem C12_generate :
  forall (sha256 : list Z -> list Z) (load_priv : list Z -> bool) (ecdsa_size : list Z -> Z)
         (ecdsa_sign : list Z -> list Z -> list Z) d key m,
    wf_data d -> counts_ok d -> sign_preconds d -> length (b_path d) = S (length (b_sigs d)) ->
    total_bytes d SIGNING < 65536 ->
    signing_digest (to_update d) = Some m ->
    load_priv key = true -> 0 < ecdsa_size key < 65536 ->
    1 <= Z.of_nat (length (ecdsa_sign key (sha256 m))) <= ecdsa_size key ->
    generate_signature sha256 load_priv ecdsa_size ecdsa_sign d (Some key) true =
    Some (BGPSEC_SUCCESS, Some (mk_sgs (repeat 0 (Z.to_nat c_SKI_SIZE)) (ecdsa_sign key (sha256 m)))).
Proof. exact generate_ok. Qed.

(* Round trip: with sign/verify a matching pair, a path originated and forwarded hop by hop
   with generated signatures (each hop sending to the AS of the next) validates as VALID against
   any table that holds, for every hop, a router key with its SKI and its public key.
   For /repo as it stands the table entry's AS number is irrelevant (see the C11 finding). *)
Theorem C12_roundtrip :
  forall (sha256 : list Z -> list Z) (load_pub : list Z -> bool)
         (ecdsa_verify : list Z -> list Z -> list Z -> Z)
         (load_priv : list Z -> bool) (ecdsa_size : list Z -> Z)
         (ecdsa_sign : list Z -> list Z -> list Z)
         (key_pair : list Z -> list Z -> Prop),
    (forall priv spki, key_pair priv spki ->
       load_priv priv = true /\ load_pub spki = true /\ 0 < ecdsa_size priv < 65536) ->
    (forall priv spki h, key_pair priv spki -> ecdsa_verify spki h (ecdsa_sign priv h) = 1) ->
    (forall priv spki h, key_pair priv spki ->
       8 <= Z.of_nat (length (ecdsa_sign priv h)) <= ecdsa_size priv) ->
    forall t d0 hops d,
      b_path d0 = [] -> b_sigs d0 = [] -> b_path_len d0 = 0 -> b_sigs_len d0 = 0 ->
      b_alg d0 = ALGORITHM_SUITE_1 ->
      (n_afi (b_nlri d0) = BGPSEC_IPV4 \/ n_afi (b_nlri d0) = BGPSEC_IPV6) ->
      0 <= b_target_as d0 < 4294967296 -> 0 <= b_afi d0 < 65536 -> byte_ok (b_safi d0) ->
      0 <= n_len (b_nlri d0) <= 128 ->
      nlri_byte_len d0 <= Z.of_nat (length (n_bytes (b_nlri d0))) ->
      hops <> [] -> Z.of_nat (length hops) < 256 ->
      Forall wf_hop hops -> Forall (has_key false key_pair t) hops -> chain hops ->
      build sha256 load_priv ecdsa_size ecdsa_sign d0 hops = Some d ->
      total_bytes d VALIDATION < 65536 ->
      validate sha256 load_pub ecdsa_verify d t = Some BGPSEC_VALID.
Proof. exact (fun sha lp ev lpr es esg => roundtrip sha lp ev lpr es esg false). Qed.

(* The same against the validator after proposed_fixes/C11-ski-only-lookup.diff: now every
   hop's key must be registered under the hop's own AS ([has_key true]). *)
Theorem C12_roundtrip_after_fix :
  forall (sha256 : list Z -> list Z) (load_pub : list Z -> bool)
         (ecdsa_verify : list Z -> list Z -> list Z -> Z)
         (load_priv : list Z -> bool) (ecdsa_size : list Z -> Z)
         (ecdsa_sign : list Z -> list Z -> list Z)
         (key_pair : list Z -> list Z -> Prop),
    (forall priv spki, key_pair priv spki ->
       load_priv priv = true /\ load_pub spki = true /\ 0 < ecdsa_size priv < 65536) ->
    (forall priv spki h, key_pair priv spki -> ecdsa_verify spki h (ecdsa_sign priv h) = 1) ->
    (forall priv spki h, key_pair priv spki ->
       8 <= Z.of_nat (length (ecdsa_sign priv h)) <= ecdsa_size priv) ->
    forall t d0 hops d,
      b_path d0 = [] -> b_sigs d0 = [] -> b_path_len d0 = 0 -> b_sigs_len d0 = 0 ->
      b_alg d0 = ALGORITHM_SUITE_1 ->
      (n_afi (b_nlri d0) = BGPSEC_IPV4 \/ n_afi (b_nlri d0) = BGPSEC_IPV6) ->
      0 <= b_target_as d0 < 4294967296 -> 0 <= b_afi d0 < 65536 -> byte_ok (b_safi d0) ->
      0 <= n_len (b_nlri d0) <= 128 ->
      nlri_byte_len d0 <= Z.of_nat (length (n_bytes (b_nlri d0))) ->
      hops <> [] -> Z.of_nat (length hops) < 256 ->
      Forall wf_hop hops -> Forall (has_key true key_pair t) hops -> chain hops ->
      build sha256 load_priv ecdsa_size ecdsa_sign d0 hops = Some d ->
      total_bytes d VALIDATION < 65536 ->
      validate_fixed sha256 load_pub ecdsa_verify d t = Some BGPSEC_VALID.
Proof. exact (fun sha lp ev lpr es esg => roundtrip sha lp ev lpr es esg true). Qed.

(* Non-vacuity: an environment in which the three hypotheses hold, and a two-hop IPv6 path built
   in it (obtained through the round-trip lemma itself, for both validators). *)
Example C12_example :
  exists d, build toy_sha toy_load_priv toy_size toy_sign ex_d0 ex_hops = Some d /\
            length (b_path d) = 2%nat /\
            validate toy_sha toy_load toy_verify d ex_table = Some BGPSEC_VALID /\
            validate_fixed toy_sha toy_load toy_verify d ex_table = Some BGPSEC_VALID.
Proof. exact ex_roundtrip. Qed.

Print Assumptions C12_layout.
Print Assumptions C12_size.
Print Assumptions C12_codes.
Print Assumptions C12_generate.
Print Assumptions C12_roundtrip.
Print Assumptions C12_roundtrip_after_fix.
