(* C09 - Update callbacks are a complete and exact change log of the prefix table.

   [replay] refuses an "added" for a record already present and a "removed" for an absent one, so
   [replay cbs [] = Some Y] says at once: nothing reported that did not happen, nothing repeated;
   [Permutation Y (trecords T)] says nothing is missing.                                        *)
From RtrV Require Import Pfx.TrieModel Pfx.PfxTable Pfx.PfxProofs Pfx.PfxHistory Pfx.PfxReload.
From Coq Require Import Permutation.
From RtrV Require Import Rtr.RtrModel Rtr.CallbackFrames Rtr.CallbackProofs.

(* every history of public operations, removal by source included *)
Theorem C09_history : forall ops, Forall op_ok ops ->
  exists T cs cbs Y, run empty_table ops = Some (T, cs, cbs) /\ replay cbs [] = Some Y /\ Permutation Y (trecords T).
Proof. exact c09_history. Qed.

(* destruction of the table reports every record as removed, once *)
Theorem C09_free : forall ops T cs cbs, Forall op_ok ops -> run empty_table ops = Some (T, cs, cbs) ->
  exists fcbs, tfree T = Some fcbs /\ replay fcbs (trecords T) = Some [].
Proof. exact c09_free. Qed.

(* atomic reload: after copy-except-source / fill / swap, notify_diff reports exactly the net
   difference for the reloading source: replaying it on the old contents gives the new contents
   (records of other sources are identical in both tables and never reported) *)
Theorem C09_reload : forall Told Tnew s,
  TWF Told -> TWF Tnew ->
  (forall r, src_of r <> s -> (In r (trecords Told) <-> In r (trecords Tnew))) ->
  exists Y, replay (fst (tnotify_diff Tnew Told s)) (trecords Told) = Some Y /\ Permutation Y (trecords Tnew).
Proof. exact c09_reload. Qed.

(* histories driven by a cache (executable RTR model, Rtr/RtrModel.v, tied to rtr.c / packets.c by trace equality in the
   RTR checks): over any run of the socket state machine - deltas applied, rolled back, purged after a failed roll-back,
   atomic reloads, expiry, stop - and for any environment script, the update callbacks emitted during the run replay the
   prefix table AND the router-key table from their contents before the run to their contents after it (the model keeps
   tables as duplicate-free lists, hence "up to order"); strict replay as above: nothing reported that did not happen,
   nothing twice, nothing missing. *)
Theorem C09_cache_driven : forall n fuel w,
  let w' := run_fsm n fuel w in
  exists new, cbs (out w') = new ++ cbs (out w) /\
    (NoDup (pfx w) -> NoDup (pfx w') /\ exists Y, rpP (rev new) (pfx w) = Some Y /\ Permutation Y (pfx w')) /\
    (NoDup (keys w) -> NoDup (keys w') /\ exists Y, rpK (rev new) (keys w) = Some Y /\ Permutation Y (keys w')).
Proof. exact callbacks_replay. Qed.

Print Assumptions C09_cache_driven.
Print Assumptions C09_history.
Print Assumptions C09_free.
Print Assumptions C09_reload.
