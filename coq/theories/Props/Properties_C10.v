(* C10 - The router-key table is an exact set keyed by AS, SKI, key and source.

   Model (Spki/Hashlin.v, Spki/SpkiModel.v; written after tommyhashlin.{c,h} and ht-spkitable.c, tied to
   /repo by the correspondence run of tools/props/C10.py on every check):
     hashlin   tommy's linear hash table: fields as in the C, buckets as lists of (key, data) in chain order,
               grow / shrink steps one bucket at a time, exactly when the C does them;
     spki_table = hashlin keyed by hash(asn) + insertion-ordered list; [contents t] is the list.
   Every theorem is for ANY hash function [hash : Z -> Z] (so every pattern of colliding and non-colliding
   AS numbers is covered) and any initial size 2^bit0, [0 <= bit0] (TOMMY_HASHLIN_BIT is 6, C10_code_constants).
   [hl_inv] (SpkiProofs.v) is tommy_hashlin's invariant: sizes are powers of two as the state says, while a
   resize is in progress the split point is strictly inside, the slots [0, low_max+split) exist, every node
   sits in the slot that tommy_hashlin_bucket_ref computes for its key, count is the number of nodes.
   [SpkiInv] is the table invariant: hl_inv, the hash container holds exactly the list's records, each under
   key hash(asn), and no record occurs twice.

   Specification (SpkiProofs.v: sp_add, sp_remove, sp_src_remove, sp_get_all, sp_search_by_ski, sp_copy,
   sp_notify_diff, replay): a table is a duplicate-free list of (asn, ski, spki, src) records.

   Status.  At the pinned commit the callback clause of C10 ("... including removals by source") was FALSE of the
   code: spki_table_src_remove called no update_fp (repaired in /repo by fix 4808153).  C10_full is the whole property; before fix 4808153 it was refuted (Spki/SpkiProofs.v: refuted_when_silent) with
   the witness replayed on the C code by tools/props/C10.py (corpus/C10/00_src_remove_no_callback.txt);
   C10_refines_all_histories is everything else, for all histories; C10_full_of_fix / C10_full_for_fixed_model
   show the whole property holds as soon as remove-by-source notifies (SpkiModel.SRC_REMOVE_NOTIFIES). *)
From Coq Require Import ZArith List Bool Permutation.
From RtrV Require Import Base.CSem Gen.Generated Spki.Hashlin Spki.SpkiModel Spki.SpkiProofs.
Import ListNotations.
Local Open Scope Z_scope.

(* ---- tommy_hashlin: the invariant survives insert / remove with any number of grow / shrink steps ---- *)
Theorem C10_hashlin_init : forall (A : Type) (bit0 : Z), 0 <= bit0 -> hl_inv A bit0 (hl_init bit0).
Proof. exact hl_init_inv. Qed.

Theorem C10_hashlin_insert : forall (A : Type) (bit0 : Z), 0 <= bit0 ->
  forall (h : hashlin A) (k : Z) (a : A), hl_inv A bit0 h ->
  hl_inv A bit0 (hl_insert h k a) /\ Permutation (elements (hl_insert h k a)) ((k, a) :: elements h).
Proof. exact hl_insert_inv. Qed.

(* tommy_hashlin_remove / tommy_hashlin_remove_existing: [f] selects the node in the bucket of [k] *)
Theorem C10_hashlin_remove : forall (A : Type) (bit0 : Z), 0 <= bit0 ->
  forall (h : hashlin A) (k : Z) (f : node A -> bool), hl_inv A bit0 h ->
  (find f (hl_bucket h k) = None -> hl_remove_first bit0 h k f = (h, None)) /\
  (forall n, find f (hl_bucket h k) = Some n ->
     exists h', hl_remove_first bit0 h k f = (h', Some n) /\ hl_inv A bit0 h' /\
                Permutation (elements h) (n :: elements h')).
Proof. exact hl_remove_statement. Qed.

(* a lookup sees, in the bucket of [k], exactly the nodes of the whole table that a key-[k] filter selects *)
Theorem C10_hashlin_bucket : forall (A : Type) (bit0 : Z), 0 <= bit0 ->
  forall (h : hashlin A) (k : Z) (g : node A -> bool), hl_inv A bit0 h ->
  (forall n, g n = true -> fst n = k) -> filter g (elements h) = filter g (hl_bucket h k).
Proof. exact filter_bucket. Qed.

(* the model's loops are fuelled; the fuel never decides: they end because the resize is complete or
   because the C loop condition is false *)
Theorem C10_hashlin_loops_exit : forall (A : Type) (bit0 : Z), 0 <= bit0 -> forall h : hashlin A, hl_inv A bit0 h ->
  (let h1 := grow_setup h in state h1 = ST_GROW ->
   let r := grow_loop (Z.to_nat (low_max h1)) (2 * count h1) h1 in
   state r = ST_STABLE \/ ~ (split r + low_max r < 2 * count h1)) /\
  (let h1 := shrink_setup bit0 h in state h1 = ST_SHRINK ->
   let r := shrink_loop (Z.to_nat (low_max h1)) (8 * count h1) h1 in
   state r = ST_STABLE \/ ~ (8 * count h1 < split r + low_max r)).
Proof. exact loops_exit_statement. Qed.

(* ---- the table invariant holds after every history (either variant of remove-by-source) ---- *)
Theorem C10_invariant_all_histories : forall (hash : Z -> Z) (bit0 : Z), 0 <= bit0 ->
  forall (nb : bool) (ops : list op) (i : nat),
  SpkiInv hash bit0 (fst (run hash bit0 nb ops (init_state bit0)) i).
Proof. exact invariant_all_histories. Qed.

(* ---- lookups ---- *)
Theorem C10_get_all : forall (hash : Z -> Z) (bit0 : Z), 0 <= bit0 -> forall (t : spki_table) (a s : Z),
  SpkiInv hash bit0 t ->
  Permutation (get_all hash t a s) (filter (fun e => (e_asn e =? a) && (e_ski e =? s)) (contents t)).
Proof. exact get_all_spec. Qed.

Theorem C10_search_by_ski : forall (t : spki_table) (s : Z),
  search_by_ski t s = filter (fun e => e_ski e =? s) (contents t).
Proof. exact search_by_ski_spec. Qed.

(* ---- add: a duplicate is rejected and NOTHING changes (the whole model state is the same) ---- *)
Theorem C10_add : forall (hash : Z -> Z) (bit0 : Z), 0 <= bit0 -> forall (t : spki_table) (e : entry),
  SpkiInv hash bit0 t ->
  (In e (contents t) /\ add_entry hash t e = (SPKI_DUPLICATE_RECORD, t, [])) \/
  (~ In e (contents t) /\
   exists t', add_entry hash t e = (SPKI_SUCCESS, t', [(e, true)]) /\
              contents t' = contents t ++ [e] /\ SpkiInv hash bit0 t').
Proof. exact add_entry_spec. Qed.

(* ---- remove: an unknown record is reported and nothing changes ---- *)
Theorem C10_remove : forall (hash : Z -> Z) (bit0 : Z), 0 <= bit0 -> forall (t : spki_table) (e : entry),
  SpkiInv hash bit0 t ->
  (~ In e (contents t) /\ remove_entry hash bit0 t e = (SPKI_RECORD_NOT_FOUND, t, [])) \/
  (In e (contents t) /\
   exists t', remove_entry hash bit0 t e = (SPKI_SUCCESS, t', [(e, false)]) /\
              contents t' = remove_first (key_entry_cmp e) (contents t) /\
              (forall x, In x (contents t') <-> In x (contents t) /\ x <> e) /\
              SpkiInv hash bit0 t').
Proof. exact remove_statement. Qed.

(* ---- remove by source: exactly that source's records go; the callbacks are those of the variant ---- *)
Theorem C10_src_remove : forall (hash : Z -> Z) (bit0 : Z), 0 <= bit0 ->
  forall (nb : bool) (t : spki_table) (s : Z), SpkiInv hash bit0 t ->
  exists t', src_remove_gen hash bit0 nb t s =
               (SPKI_SUCCESS, t',
                if nb then map (fun e => (e, false)) (filter (fun e => e_src e =? s) (contents t)) else []) /\
             contents t' = filter (fun e => negb (e_src e =? s)) (contents t) /\
             (forall x, In x (contents t') <-> In x (contents t) /\ e_src x <> s) /\
             SpkiInv hash bit0 t'.
Proof. exact src_remove_statement. Qed.

(* ---- copy except one source: the specification's copy; total when nothing copied is already there ---- *)
Theorem C10_copy : forall (hash : Z -> Z) (bit0 : Z), 0 <= bit0 ->
  forall (src dst : spki_table) (s rc : Z) (dst' : spki_table) (c : list callback),
  SpkiInv hash bit0 src -> SpkiInv hash bit0 dst ->
  copy_except_socket hash src dst s = (rc, dst', c) ->
  SpkiInv hash bit0 dst' /\
  sp_copy (contents src) (contents dst) s = (rc, contents dst', c) /\
  ((forall e, In e (contents src) -> e_src e <> s -> ~ In e (contents dst)) ->
   rc = SPKI_SUCCESS /\
   contents dst' = contents dst ++ filter (fun e => negb (e_src e =? s)) (contents src) /\
   c = map (fun e => (e, true)) (filter (fun e => negb (e_src e =? s)) (contents src))).
Proof. exact copy_statement. Qed.

Theorem C10_swap : forall (hash : Z -> Z) (bit0 : Z) (a b : spki_table),
  SpkiInv hash bit0 a -> SpkiInv hash bit0 b ->
  SpkiInv hash bit0 (fst (swap a b)) /\ SpkiInv hash bit0 (snd (swap a b)) /\
  contents (fst (swap a b)) = contents b /\ contents (snd (swap a b)) = contents a.
Proof. exact swap_statement. Qed.

(* ---- notify_diff: additions for the source's records only in new, removals for those only in old ---- *)
Theorem C10_notify_diff : forall (hash : Z -> Z) (bit0 : Z), 0 <= bit0 ->
  forall (new old : spki_table) (s : Z) (old' : spki_table) (c : list callback),
  SpkiInv hash bit0 new -> SpkiInv hash bit0 old ->
  notify_diff hash bit0 new old s = (old', c) ->
  SpkiInv hash bit0 old' /\
  contents old' = filter (fun x => negb ((e_src x =? s) && mem x (contents new))) (contents old) /\
  c = map (fun e => (e, true)) (filter (fun e => (e_src e =? s) && negb (mem e (contents old))) (contents new)) ++
      map (fun e => (e, false)) (filter (fun e => e_src e =? s) (contents old')).
Proof. exact notify_diff_statement. Qed.

(* ---- callbacks mirror the change: replaying them on the old contents gives the new contents; for
        remove-by-source this is the notifying variant (the code after the proposed fix) ---- *)
Theorem C10_callbacks : forall (hash : Z -> Z) (bit0 : Z), 0 <= bit0 ->
  (forall t e rc t' c, SpkiInv hash bit0 t -> add_entry hash t e = (rc, t', c) ->
     replay c (contents t) = Some (contents t')) /\
  (forall t e rc t' c, SpkiInv hash bit0 t -> remove_entry hash bit0 t e = (rc, t', c) ->
     replay c (contents t) = Some (contents t')) /\
  (forall src dst s rc dst' c, SpkiInv hash bit0 dst -> copy_except_socket hash src dst s = (rc, dst', c) ->
     replay c (contents dst) = Some (contents dst')) /\
  (forall t s rc t' c, SpkiInv hash bit0 t -> src_remove_gen hash bit0 true t s = (rc, t', c) ->
     replay c (contents t) = Some (contents t')).
Proof. exact callbacks_statement. Qed.

(* ---- all histories: the model AS THE CODE IS agrees with the set specification on every observation
        (return codes, lookups, callbacks, final contents of every table) except the callbacks of
        remove-by-source ([refines false]); histories in which copy / swap / notify_diff get one table
        twice are excluded (the C would deadlock on its own rwlock) ---- *)
Theorem C10_refines_all_histories : forall (hash : Z -> Z) (bit0 : Z), 0 <= bit0 ->
  forall ops : list op, Forall op_ok ops ->
  refines false hash bit0 (run hash bit0 SRC_REMOVE_NOTIFIES ops (init_state bit0)) (srun ops sinit).
Proof. exact refines_all_histories. Qed.

(* the specification's tables are sets: no record twice, after any history *)
Theorem C10_spec_is_set : forall (ops : list op) (i : nat), NoDup (fst (srun ops sinit) i).
Proof. exact spec_is_set. Qed.

(* ---- the whole property (holds since /repo fix 4808153: remove-by-source notifies) ---- *)
Theorem C10_full_holds : C10_full.
Proof. exact (full_of_fix eq_refl). Qed.

(* ... and true as soon as remove-by-source notifies *)
Theorem C10_full_of_fix : SRC_REMOVE_NOTIFIES = true -> C10_full.
Proof. exact full_of_fix. Qed.

Theorem C10_full_for_fixed_model : forall (hash : Z -> Z) (bit0 : Z), 0 <= bit0 ->
  forall ops : list op, Forall op_ok ops ->
  refines true hash bit0 (run hash bit0 true ops (init_state bit0)) (srun ops sinit).
Proof. exact full_for_notifying_model. Qed.

(* the constants the executed model takes from the code (translated on every run) are in the theorems' domain *)
Theorem C10_code_constants :
  0 <= c_TOMMY_HASHLIN_BIT /\
  In ("SPKI_SUCCESS"%string, SPKI_SUCCESS) enum_spki_rtvals /\ In ("SPKI_ERROR"%string, SPKI_ERROR) enum_spki_rtvals /\
  In ("SPKI_DUPLICATE_RECORD"%string, SPKI_DUPLICATE_RECORD) enum_spki_rtvals /\
  In ("SPKI_RECORD_NOT_FOUND"%string, SPKI_RECORD_NOT_FOUND) enum_spki_rtvals /\
  NoDup (map snd enum_spki_rtvals).
Proof. exact code_constants. Qed.

Print Assumptions C10_hashlin_init.
Print Assumptions C10_hashlin_insert.
Print Assumptions C10_hashlin_remove.
Print Assumptions C10_hashlin_bucket.
Print Assumptions C10_hashlin_loops_exit.
Print Assumptions C10_invariant_all_histories.
Print Assumptions C10_get_all.
Print Assumptions C10_search_by_ski.
Print Assumptions C10_add.
Print Assumptions C10_remove.
Print Assumptions C10_src_remove.
Print Assumptions C10_copy.
Print Assumptions C10_swap.
Print Assumptions C10_notify_diff.
Print Assumptions C10_callbacks.
Print Assumptions C10_refines_all_histories.
Print Assumptions C10_spec_is_set.
Print Assumptions C10_full_holds.
Print Assumptions C10_full_of_fix.
Print Assumptions C10_full_for_fixed_model.
Print Assumptions C10_code_constants.
