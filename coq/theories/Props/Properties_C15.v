(* C15 - Cache-group failover honours the preference order.

   Model: Mgr/MgrModel.v, a hand-written executable model of rtrlib/rtr_mgr.c together with the
   parts of rtr_start / rtr_stop / rtr_change_socket_state it depends on; tied to /repo on every
   run by differential execution against the real rtr_mgr.c (harness/mgr_events.c).

   Reading guide.
   * [after_history v gs ops c]: rtr_mgr_init on the groups [gs] (preference, number of sockets)
     succeeded and [c] is the configuration after the operations [ops] - ANY list of
     start / stop / add_group / remove_group / socket state change / last_update change,
     for ANY number of groups and sockets.
   * [step v c o] = (configuration after o, outputs of o).  Outputs:
       OStatus p st by snap  status_fp(group p, st, socket by); snap = the group's sockets at that moment
       OStart p k ok         rtr_start(socket k of group p)
       OStop p k (Some q)    rtr_stop(socket k of group p) inside the handler of an event of group q
       OStop p k None        rtr_stop by an explicit API call (rtr_mgr_stop / rtr_mgr_remove_group)
       ORc r                 the result code of the API call
   * groups with LOWER preference value are MORE preferred; c_groups is the order in which
     rtr_mgr_for_each_group / rtr_mgr_get_first_group present the groups.
   * [variant]: [shipped] is the code in /repo; [fixed] has the two repairs of
     proposed_fixes/C15-*.diff.  Every theorem quantified over [v] holds for both.        *)
From Coq Require Import List Arith Sorted Permutation.
From RtrV Require Import Mgr.MgrModel Mgr.MgrProofs.
From RtrV Require Mgr.MgrEff Gen.GeneratedMgr Mgr.MgrTie.
From Coq Require Import ZArith.
Import ListNotations.

(* ---- initialisation: never accepts an empty list, a group without sockets or a duplicate
        preference; accepts everything else; an accepted configuration is ascending ------- *)
Definition C15_init_stmt (v : variant) : Prop :=
  mgr_init v [] = IErr RcError /\
  (forall gs c, (gs = [] \/ (exists p, In (p, 0) gs) \/ ~ NoDup (map fst gs)) -> mgr_init v gs <> IOk c) /\
  (forall gs, gs <> [] -> NoDup (map fst gs) -> Forall (fun s => snd s <> 0) gs -> exists c, mgr_init v gs = IOk c) /\
  (forall gs c, mgr_init v gs = IOk c ->
     StronglySorted lt (map g_pref (c_groups c)) /\
     Permutation (map g_pref (c_groups c)) (map fst gs) /\ c_len c = length gs /\
     Forall (fun g => g_status g = GClosed) (c_groups c)).
Theorem C15_init : forall v, C15_init_stmt v.
Proof. exact P_init. Qed.

(* "rejects" = returns an error code (not: crashes) *)
Definition C15_init_rejects_stmt (v : variant) : Prop :=
  forall gs, (gs = [] \/ (exists p, In (p, 0) gs) \/ ~ NoDup (map fst gs)) ->
  exists r, mgr_init v gs = IErr r /\ r <> RcSuccess.
Theorem C15_init_rejects_when_repaired : C15_init_rejects_stmt fixed.
Proof. exact (P_init_rejects fixed eq_refl). Qed.
(* shipped: `goto err` runs lrtr_free(config->groups) on a never-written field of a malloc'ed struct *)
Theorem C15_init_rejects_refuted : ~ C15_init_rejects_stmt shipped.
Proof. exact P_init_refuted. Qed.
Theorem C15_init_witness :
  mgr_init shipped [(1, 1); (1, 1)] = IUndef /\ mgr_init shipped [(1, 0)] = IUndef.
Proof. exact init_shipped_undefined. Qed.

(* ---- adding a group: a preference in use is rejected and nothing changes; otherwise the
        group is inserted and the order stays ascending -------------------------------- *)
Definition C15_add_stmt (v : variant) : Prop :=
  forall gs ops c p extra, after_history v gs ops c ->
  (In p (map g_pref (c_groups c)) -> step v c (OpAdd p extra) = (c, [ORc RcInvalidParam])) /\
  (~ In p (map g_pref (c_groups c)) ->
     exists c' o, step v c (OpAdd p extra) = (c', o ++ [ORc RcSuccess]) /\
       Permutation (map g_pref (c_groups c')) (p :: map g_pref (c_groups c)) /\
       StronglySorted lt (map g_pref (c_groups c')) /\ c_len c' = S (c_len c)).
Theorem C15_add : forall v, C15_add_stmt v.
Proof. exact P_add. Qed.

(* ---- the last group cannot be removed; there is always at least one group ------------- *)
Definition C15_remove_last_stmt (v : variant) : Prop :=
  forall gs ops c, after_history v gs ops c ->
  c_groups c <> [] /\ c_len c = length (c_groups c) /\
  (length (c_groups c) = 1 -> forall p, step v c (OpRemove p) = (c, [ORc RcError])).
Theorem C15_remove_last : forall v, C15_remove_last_stmt v.
Proof. exact P_remove_last. Qed.

(* ---- groups are always presented in ascending preference order ------------------------ *)
Definition C15_sorted_stmt (v : variant) : Prop :=
  forall gs ops c, after_history v gs ops c -> StronglySorted lt (map g_pref (c_groups c)).
Theorem C15_sorted : forall v, C15_sorted_stmt v.
Proof. exact P_sorted. Qed.

(* Reading of "a group is reported ESTABLISHED only when every one of its sockets holds synchronised
   data".  rtr_mgr_cb re-announces the UNCHANGED status of a group on every other socket event
   (`set_status(config, group, group->status, sock)` in the default arm and in the SHUTDOWN
   handler), so an ESTABLISHED group is re-reported ESTABLISHED while one of its sockets is in
   FAST_RECONNECT / ERROR_NO_INCR_UPDATE_AVAIL or is just being shut down.  Those re-reports are
   by design and carry no new claim; the clause is therefore stated in two parts:
   (1) the report by which a group BECOMES ESTABLISHED is issued only when every socket passes the
       test of rtr_mgr_config_status_is_synced (last_update != 0, state ESTABLISHED/RESET/SYNC);
   (2) no group is ever LEFT ESTABLISHED with a stopped socket (rtr_stop removes the socket's
       records) - this part is false for the shipped code, see below.                          *)

(* ---- a group BECOMES reported ESTABLISHED (it was not ESTABLISHED before the operation)
        only when, at the moment of the report, every one of its sockets has last_update != 0
        and is in ESTABLISHED, RESET or SYNC ------------------------------------------- *)
Definition C15_established_only_if_synced_stmt (v : variant) : Prop :=
  forall gs ops c o p by_ snap, after_history v gs ops c ->
  In (OStatus p GEstablished by_ snap) (snd (step v c o)) ->
  (forall g, In g (c_groups c) -> g_pref g = p -> g_status g <> GEstablished) ->
  Forall (fun s => s_lu s = true /\ (s_state s = SEstablished \/ s_state s = SReset \/ s_state s = SSync)) snap.
Theorem C15_established_only_if_synced : forall v, C15_established_only_if_synced_stmt v.
Proof. exact P_established_only_if_synced. Qed.

(* ---- ... and a group is never left ESTABLISHED with a stopped socket ------------------- *)
Definition C15_established_running_stmt (v : variant) : Prop :=
  forall gs ops c, after_history v gs ops c ->
  forall g, In g (c_groups c) -> g_status g = GEstablished -> Forall (fun s => s_thread s = true) (g_socks g).
Theorem C15_established_running_when_repaired : C15_established_running_stmt fixed.
Proof. exact (P_established_running fixed eq_refl). Qed.
(* shipped: _rtr_mgr_cb_state_shutdown compares with RTR_SHUTDOWN only, but a stopped socket is
   RTR_CLOSED; after rtr_mgr_stop a group with two sockets stays ESTABLISHED *)
Theorem C15_established_running_refuted : ~ C15_established_running_stmt shipped.
Proof. exact P_established_running_refuted. Qed.
Theorem C15_established_running_witness :
  exists c0, mgr_init shipped [(1, 2)] = IOk c0 /\
    c_groups (fst (run shipped c0
      [OpStart; OpLu 1 0 true; OpLu 1 1 true; OpEv 1 0 SEstablished; OpEv 1 1 SEstablished; OpStop])) =
    [mkGroup 1 GEstablished [mkSock SClosed false false; mkSock SClosed false false]].
Proof. exact stale_established_shipped. Qed.

(* ---- whenever a group becomes ESTABLISHED: afterwards every less-preferred group is CLOSED
        with every socket stopped, and each one that was not CLOSED has been stopped socket by
        socket on behalf of that group and reported CLOSED --------------------------------- *)
Definition C15_closes_less_preferred_stmt (v : variant) : Prop :=
  forall gs ops c o p by_ snap, after_history v gs ops c ->
  In (OStatus p GEstablished by_ snap) (snd (step v c o)) ->
  (forall g, In g (c_groups c) -> g_pref g = p -> g_status g <> GEstablished) ->
  (forall g', In g' (c_groups (fst (step v c o))) -> p < g_pref g' ->
     g_status g' = GClosed /\ Forall (fun s => s_thread s = false) (g_socks g')) /\
  (forall g0, In g0 (c_groups c) -> p < g_pref g0 -> g_status g0 <> GClosed ->
     (forall j, j < length (g_socks g0) -> In (OStop (g_pref g0) j (Some p)) (snd (step v c o))) /\
     exists sn, In (OStatus (g_pref g0) GClosed by_ sn) (snd (step v c o))).
Theorem C15_closes_less_preferred : forall v, C15_closes_less_preferred_stmt v.
Proof. exact P_closes. Qed.

(* ---- no group is ever shut down on behalf of a less-preferred one: every rtr_stop issued
        from a callback stops a socket of a group with strictly larger preference value ---- *)
Definition C15_never_upward_stmt (v : variant) : Prop :=
  forall gs ops c o q j p, after_history v gs ops c ->
  In (OStop q j (Some p)) (snd (step v c o)) -> p < q.
Theorem C15_never_upward : forall v, C15_never_upward_stmt v.
Proof. exact P_never_upward. Qed.

(* ---- whenever a group enters ERROR (its socket reports one of the three error states and the
        handler runs) while no other group is ESTABLISHED, the CLOSED group of least preference
        value is started: rtr_start succeeds on each of its sockets, it becomes CONNECTING ---- *)
Definition C15_failover_stmt (v : variant) : Prop :=
  forall gs ops c p k st snap, after_history v gs ops c ->
  st = SErrFatal \/ st = SErrTransport \/ st = SErrNoData ->
  In (OStatus p GError (Some (p, k)) snap) (snd (step v c (OpEv p k st))) ->
  (forall g, In g (c_groups c) -> g_pref g <> p -> g_status g <> GEstablished) ->
  forall g1, In g1 (c_groups c) -> g_status g1 = GClosed ->
    (forall g2, In g2 (c_groups c) -> g_status g2 = GClosed -> g_pref g1 <= g_pref g2) ->
    (forall j, j < length (g_socks g1) -> In (OStart (g_pref g1) j true) (snd (step v c (OpEv p k st)))) /\
    exists g1', In g1' (c_groups (fst (step v c (OpEv p k st)))) /\ g_pref g1' = g_pref g1 /\
                g_status g1' = GConnecting /\ Forall (fun s => s_thread s = true) (g_socks g1') /\
                length (g_socks g1') = length (g_socks g1).
Theorem C15_failover : forall v, C15_failover_stmt v.
Proof. exact P_failover. Qed.

(* ... and only then: an error while another group is ESTABLISHED starts nothing *)
Theorem C15_no_failover_while_established : forall v c p k st,
  st = SErrFatal \/ st = SErrTransport \/ st = SErrNoData ->
  (exists g, In g (c_groups c) /\ g_pref g <> p /\ g_status g = GEstablished) ->
  forall q j b, ~ In (OStart q j b) (snd (step v c (OpEv p k st))).
Proof. exact P_no_failover. Qed.

(* ---- after a successful init no operation reaches undefined behaviour of the C
        (empty list dereference in get_first_group, sockets[0] of an empty array) ---------- *)
Theorem C15_defined : forall v gs ops c o, after_history v gs ops c -> ~ In OUndef (snd (step v c o)).
Proof. exact P_defined. Qed.

(* ---- the property as a whole ----------------------------------------------------------- *)
Definition C15_full (v : variant) : Prop :=
  C15_init_stmt v /\ C15_init_rejects_stmt v /\ C15_add_stmt v /\ C15_remove_last_stmt v /\
  C15_sorted_stmt v /\ C15_established_only_if_synced_stmt v /\ C15_established_running_stmt v /\
  C15_closes_less_preferred_stmt v /\ C15_never_upward_stmt v /\ C15_failover_stmt v.

Theorem C15_full_when_repaired : C15_full fixed.
Proof.
  exact (conj (P_init fixed) (conj (P_init_rejects fixed eq_refl) (conj (P_add fixed) (conj (P_remove_last fixed)
        (conj (P_sorted fixed) (conj (P_established_only_if_synced fixed) (conj (P_established_running fixed eq_refl)
        (conj (P_closes fixed) (conj (P_never_upward fixed) (P_failover fixed)))))))))).
Qed.

Theorem C15_refuted : ~ C15_full shipped.
Proof. exact (fun H => P_init_refuted (proj1 (proj2 H))). Qed.

(* ---- the hypotheses above are satisfiable: concrete histories -------------------------- *)
Example C15_closes_nonvacuous : exists c, after_history shipped ex_gs ex_ops c /\
  In (OStatus 1 GEstablished (Some (1, 0)) [mkSock SEstablished true true]) (snd (step shipped c (OpEv 1 0 SEstablished))) /\
  (forall g, In g (c_groups c) -> g_pref g = 1 -> g_status g <> GEstablished) /\
  (exists g0, In g0 (c_groups c) /\ 1 < g_pref g0 /\ g_status g0 = GEstablished /\ length (g_socks g0) = 2).
Proof. exact ex_closes. Qed.

Example C15_failover_nonvacuous : exists c, after_history shipped ex_gs [OpStart] c /\
  In (OStatus 1 GError (Some (1, 0)) [mkSock SErrTransport false true]) (snd (step shipped c (OpEv 1 0 SErrTransport))) /\
  (forall g, In g (c_groups c) -> g_pref g <> 1 -> g_status g <> GEstablished) /\
  (exists g1, In g1 (c_groups c) /\ g_status g1 = GClosed /\ g_pref g1 = 2 /\
     forall g2, In g2 (c_groups c) -> g_status g2 = GClosed -> g_pref g1 <= g_pref g2).
Proof. exact ex_failover. Qed.

Example C15_add_remove_nonvacuous : exists c, after_history shipped [(5, 1)] [OpAdd 3 1; OpAdd 9 0; OpRemove 5] c /\
  map g_pref (c_groups c) = [3; 9] /\ c_len c = 2 /\
  snd (step shipped c (OpAdd 9 0)) = [ORc RcInvalidParam].
Proof. exact ex_add_remove. Qed.

(* Tie (a) for the decision logic.  rtr_mgr_cb and everything below it - set_status, rtr_mgr_start_sockets, rtr_mgr_config_status_is_synced,
   rtr_mgr_close_less_preferable_groups, get_best_inactive_rtr_mgr_group, is_some_rtr_mgr_group_established and the four _rtr_mgr_cb_state_*
   - are translated from /repo/rtrlib/rtr_mgr.c on every run (tools/c2v_mgr.py -> Gen/GeneratedMgr.v; vocabulary Mgr/MgrEff.v: the
   configuration as a heap of group stores in list order with their socket stores, a tommy-list walk as structural recursion over
   the node count, the socket loops likewise, break / return inside loops, rtr_stop / rtr_start / the status callback as effect nodes
   that get and give back the whole heap; the read lock is dropped).  Mgr/MgrTie.v proves: ONE CALLBACK AS TRANSLATED DOES WHAT THE
   MODEL'S mgr_cb DOES - the same statuses and sockets of all groups afterwards, the same rtr_stop / rtr_start / status events in the
   same order - for any number of groups and sockets, any statuses, preferences below 256 (uint8_t), a status callback installed, and
   every model variant that has the shutdown repair (rtr_stop is interpreted by running the translated rtr_mgr_cb re-entrantly).
   This also settles by proof which variant /repo is: the translated code differs from [shipped] on a concrete configuration
   (MgrTie.ex_shipped_variant_differs).  group == NULL: nothing happens (mgr_cb_null).
   The model leaves out: a NULL status callback, the bound on preferences (handled by the side conditions). *)
Theorem C15_mgr_cb_translated : forall v, fix_shutdown_counts_closed v = true ->
  forall c, Mgr.MgrTie.conf_ok c ->
  forall a g b k st, Mgr.MgrTie.in_range (a ++ g :: b) ->
  Mgr.MgrEff.mrun (Mgr.MgrTie.HM (Some (g_pref g)))
    (Gen.GeneratedMgr.rtr_mgr_cb_gen (List.length a, k) (Mgr.MgrTie.sstate_code st) (Some (List.length a)) (Mgr.MgrTie.enc c (a ++ g :: b))) =
  Some (0%Z, Mgr.MgrTie.enc c (fst (mgr_cb v a g b k st)), snd (mgr_cb v a g b k st)).
Proof. exact Mgr.MgrTie.mgr_cb_tie. Qed.

Theorem C15_mgr_cb_translated_current : forall c, Mgr.MgrTie.conf_ok c ->
  forall a g b k st, Mgr.MgrTie.in_range (a ++ g :: b) ->
  Mgr.MgrEff.mrun (Mgr.MgrTie.HM (Some (g_pref g)))
    (Gen.GeneratedMgr.rtr_mgr_cb_gen (List.length a, k) (Mgr.MgrTie.sstate_code st) (Some (List.length a)) (Mgr.MgrTie.enc c (a ++ g :: b))) =
  Some (0%Z, Mgr.MgrTie.enc c (fst (mgr_cb current a g b k st)), snd (mgr_cb current a g b k st)).
Proof. exact (Mgr.MgrTie.mgr_cb_tie current eq_refl). Qed.

Example C15_mgr_translator_clean : Gen.GeneratedMgr.mgr_translator_problems = nil.
Proof. reflexivity. Qed.

Print Assumptions C15_init.
Print Assumptions C15_init_rejects_when_repaired.
Print Assumptions C15_init_rejects_refuted.
Print Assumptions C15_add.
Print Assumptions C15_remove_last.
Print Assumptions C15_sorted.
Print Assumptions C15_established_only_if_synced.
Print Assumptions C15_established_running_when_repaired.
Print Assumptions C15_established_running_refuted.
Print Assumptions C15_closes_less_preferred.
Print Assumptions C15_never_upward.
Print Assumptions C15_failover.
Print Assumptions C15_no_failover_while_established.
Print Assumptions C15_defined.
Print Assumptions C15_full_when_repaired.
Print Assumptions C15_refuted.
Print Assumptions C15_mgr_cb_translated.
Print Assumptions C15_mgr_cb_translated_current.
