(* C18 - Allocation failure is contained; the configured allocator is used consistently.

   Model (Alloc/AllocModel.v, tied to /repo by the correspondence run of tools/props/C18.py on every check):
   the operations of trie-pfx.c, ht-spkitable.c (+ tommyhashlin.c) and the store / apply part of
   rtr_sync_receive_and_store_pdus over an allocator state
       fail_at  the allocation call of the operation that fails (1-based), if any      ctr   calls so far
       live     the allocated blocks, one entry per block, by allocation site (class)
       rlog     the events: malloc / realloc(NULL) / realloc with their result, releases with the entry point
                they go through (configured allocator or libc), releases of blocks that are not allocated
       corrupt  such a release happened (double free, dangling pointer)
   with outcome [Val result state] or [Crash state] (a NULL the C does not check for is dereferenced).
   Every allocation / release site of the C is an action in the C's order; at a failed allocation the model does
   what the C does there.  On success an operation returns the value of the PURE operation of Pfx/PfxTable.v /
   Spki/SpkiModel.v - the objects of the theorems of C01/C02/C09/C10.

   [variant]: one switch per site that is defective at the pinned commit (false = the code as it is, true = after
   the proposed repair, /verif/proposed_fixes/C18-*.diff).  tools/props/C18.py determines on every run, per site,
   which value /repo's code matches, and runs the model with it.

   Vocabulary (Alloc/AllocProofs.v):
     cnt c l                     blocks of class c in l
     post s s' df                s' continues s: same fault position, same corrupt flag, df more FAILED allocation
                                 calls in the log, no additional release through libc
     LiveP s T B / LiveK bit0 s t B / LiveInv bit0 s st B
                                 the allocated blocks are exactly: B (blocks of others) + three per trie node
                                 (node, node_data, array) + one per router key + one per hash segment
     TabsInv hash bit0 st        TWF (both tries well formed, Pfx/PfxProofs.v) and SpkiInv (Spki/SpkiProofs.v)
     good v                      shrink_ok, grow_checked, reason_tmp, result_null are repaired
     spec_run ops errs x         the set Spec applied to the operations that did NOT report an error
   Status.  C18_full (contained /\ balanced /\ table creation reports failure) holds of the repaired code
   (C18_full_repaired, C18_full_of_fixes) and is refuted by each of six defective sites separately
   (the C18_refuted_ theorems), with witnesses that tools/props/C18.py replays on the C code (corpus/C18); a seventh defect is
   in trie_get_children (C18_refuted_children).  What holds of the code as it is: C18_alloc_erase,
   C18_contained_pfx_add / _pfx_remove / _pfx_validate, C18_contained_spki_other, C18_as_is_part,
   C18_sync_prepare_contained (all for ANY variant). *)
From Coq Require Import List Arith NArith ZArith Bool Permutation.
From RtrV Require Import Alloc.AllocModel Alloc.AllocProofs.
From RtrV Require Pfx.TrieModel Pfx.PfxTable Pfx.PfxProofs Pfx.PfxHistory Spki.Hashlin Spki.SpkiModel Spki.SpkiProofs Gen.Generated.
Import ListNotations.
Import RtrV.Pfx.TrieModel RtrV.Pfx.PfxTable RtrV.Pfx.PfxProofs.
Import PfxA SpkiA OpsA SyncA PfxP SpkiP OpsP SyncP Final.

(* ---- erasure: without a fault every operation (and every history) computes exactly the pure operation, for
        every variant of the code: the theorems of C02 / C09 / C10 are about what the C computes ---- *)
Theorem C18_alloc_erase : forall (hash : Z -> Z) (bit0 : Z) (v : variant),
  (forall o st s, fail_at s = None ->
     exists s', step_m hash bit0 v o st s = Val (step_pure hash bit0 o st) s' /\ fail_at s' = None) /\
  (forall ops st s, fail_at s = None ->
     exists s', run_m hash bit0 v (map (fun o => (o, None)) ops) st s = Val (run_pure hash bit0 ops st) s' /\ fail_at s' = None) /\
  (forall T s, fail_at s = None -> exists s', tfree_m T s = Val (tfree T) s' /\ fail_at s' = None).
Proof.
  intros hash bit0 v. split; [exact (step_m_erases hash bit0 v)|]. split; [exact (run_m_erases hash bit0 v)|exact tfree_m_erases].
Qed.

(* ---- pfx_table_add: an allocation failed <-> PFX_ERROR, and then table and allocated blocks are what they were ---- *)
Theorem C18_contained_pfx_add : forall T r s B, TWF T -> LiveP s T B ->
  exists res s', tadd_m T r s = Val res s' /\
    ((post s s' 0 /\ res = tadd T r /\ LiveP s' (fst (fst (tadd T r))) B) \/
     (post s s' 1 /\ res = (T, ERROR, []) /\ LiveP s' T B)).
Proof. exact tadd_m_spec. Qed.

(* ---- pfx_table_remove: the code as it is answers a failed shrink with PFX_ERROR and an array that is a
        permutation of what it was (contents unchanged as a set); the repaired code succeeds ---- *)
Theorem C18_contained_pfx_remove : forall v T r s B, TWF T -> LiveP s T B ->
  exists res s', tremove_m v T r s = Val res s' /\
    ((post s s' 0 /\ res = tremove T r /\ LiveP s' (fst (fst (tremove T r))) B) \/
     (post s s' 1 /\ shrink_ok v = true /\ res = tremove T r /\ LiveP s' (fst (fst (tremove T r))) B) \/
     (post s s' 1 /\ shrink_ok v = false /\
      exists T', res = (T', ERROR, []) /\ TWF T' /\ Permutation (trecords T') (trecords T) /\ LiveP s' T' B)).
Proof. exact tremove_m_spec. Qed.

(* ---- pfx_table_src_remove with the repaired del_elem: always the pure result, whatever fails ---- *)
Theorem C18_contained_pfx_src_remove : forall v T s0 s B, shrink_ok v = true -> TWF T -> LiveP s T B ->
  exists T' cbs s' df, tsrc_remove T s0 = Some (T', cbs) /\
    tsrc_remove_m v T s0 s = Val (Some (T', SUCCESS, cbs)) s' /\ post s s' df /\ LiveP s' T' B.
Proof. exact tsrc_remove_m_spec. Qed.

(* ---- pfx_table_validate_r: never touches the table; nothing stays allocated - after a failure only with the
        repaired realloc-into-a-temporary ---- *)
Theorem C18_contained_pfx_validate : forall v T v6 asn q qlen s,
  exists res s', tvalidate_m v T v6 asn q qlen s = Val res s' /\
    ((post s s' 0 /\ res = Some (tvalidate T v6 asn q qlen) /\ (forall c, cnt c (live s') = cnt c (live s))) \/
     (post s s' 1 /\ res = None /\ (reason_tmp v = true -> forall c, cnt c (live s') = cnt c (live s)))).
Proof. exact tvalidate_m_spec. Qed.

(* ---- spki_table_add_entry: all outcomes.  The crash exists exactly for the unchecked segment allocation ---- *)
Theorem C18_contained_spki_add : forall (hash : Z -> Z) (bit0 : Z), (0 <= bit0)%Z ->
  forall v t e s B, RtrV.Spki.SpkiProofs.SpkiInv hash bit0 t -> LiveK bit0 s t B ->
  (exists res s', add_entry_m hash v t e s = Val res s' /\
     ((post s s' 0 /\ res = RtrV.Spki.SpkiModel.add_entry hash t e /\
       LiveK bit0 s' (snd (fst (RtrV.Spki.SpkiModel.add_entry hash t e))) B) \/
      (post s s' 1 /\ res = (RtrV.Spki.SpkiModel.SPKI_ERROR, t, []) /\ LiveK bit0 s' t B) \/
      (post s s' 1 /\ grow_checked v = true /\ need_seg (RtrV.Spki.SpkiModel.ht t) = true /\
       ~ In e (RtrV.Spki.SpkiModel.lst t) /\
       res = add_entry_nogrow hash t e /\ LiveK bit0 s' (snd (fst (add_entry_nogrow hash t e))) B))) \/
  (exists s', add_entry_m hash v t e s = Crash s' /\ grow_checked v = false /\
              need_seg (RtrV.Spki.SpkiModel.ht t) = true /\ ~ In e (RtrV.Spki.SpkiModel.lst t) /\
              failures (rlog s') = failures (rlog s) + 1).
Proof. exact add_entry_m_spec. Qed.

(* ---- spki_table_remove_entry / spki_table_src_remove allocate nothing: always the pure result; entries and a
        completed shrink's segment are released ---- *)
Theorem C18_contained_spki_other : forall (hash : Z -> Z) (bit0 : Z), (0 <= bit0)%Z ->
  forall t s B, RtrV.Spki.SpkiProofs.SpkiInv hash bit0 t -> LiveK bit0 s t B ->
  (forall e, exists s', remove_entry_m hash bit0 t e s = Val (RtrV.Spki.SpkiModel.remove_entry hash bit0 t e) s' /\ post s s' 0 /\
     LiveK bit0 s' (snd (fst (RtrV.Spki.SpkiModel.remove_entry hash bit0 t e))) B) /\
  (forall s0, exists s', src_remove_m hash bit0 t s0 s = Val (RtrV.Spki.SpkiModel.src_remove hash bit0 t s0) s' /\ post s s' 0 /\
     LiveK bit0 s' (snd (fst (RtrV.Spki.SpkiModel.src_remove hash bit0 t s0))) B).
Proof.
  intros hash bit0 Hb t s B Hi HL. split; [intros e; exact (remove_entry_m_spec hash bit0 Hb t e s B Hi HL)|
                                           intros s0; exact (src_remove_m_spec hash bit0 Hb t s0 s B Hi HL)].
Qed.

(* ---- spki_table_get_all / spki_table_search_by_ski as the in-tree callers use them ---- *)
Theorem C18_contained_spki_lookup : forall v (found : list RtrV.Spki.SpkiModel.entry) s,
  exists res s', lookup_m v found s = Val res s' /\
    ((res = Some found /\ post s s' 0 /\ (forall c, cnt c (live s') = cnt c (live s))) \/
     (res = None /\ (result_null v = true -> post s s' 1 /\ (forall c, cnt c (live s') = cnt c (live s))))).
Proof. exact (lookup_m_spec (fun x => x) 0%Z). Qed.

(* ---- one operation of either table, a fault anywhere: error without any effect, or the whole effect ---- *)
Theorem C18_contained_step : forall (hash : Z -> Z) (bit0 : Z), (0 <= bit0)%Z ->
  forall v o st s B, good v -> aop_ok o -> TabsInv hash bit0 st -> LiveInv bit0 s st B ->
  exists st' ob s' df, step_m hash bit0 v o st s = Val (st', ob) s' /\ post s s' df /\
    TabsInv hash bit0 st' /\ LiveInv bit0 s' st' B /\
    ((df = 1 /\ is_error ob = true /\ st' = st /\ obs_quiet ob) \/
     (is_error ob = false /\ ob = snd (step_pure hash bit0 o st) /\ tp st' = tp (fst (step_pure hash bit0 o st)) /\
      RtrV.Spki.SpkiModel.contents (tk st') = RtrV.Spki.SpkiModel.contents (tk (fst (step_pure hash bit0 o st))))).
Proof. exact step_m_spec. Qed.

(* ---- every history from fresh tables, a fault position (or none) for every operation: no crash, no corruption,
        no libc release, invariants, allocated blocks = exactly the tables' blocks, contents = the Spec applied to
        the operations that did not report an error, every observation an error-without-effect or the Spec's ---- *)
Theorem C18_histories : forall (hash : Z -> Z) (bit0 : Z), (0 <= bit0)%Z -> forall v, good v ->
  forall h : list (aop * option nat), Forall aop_ok (map fst h) ->
  exists st' obss s', run_m hash bit0 v h (init_tabs bit0) init_ast = Val (st', obss) s' /\
    corrupt s' = false /\ libc_frees (rlog s') = 0 /\ TabsInv hash bit0 st' /\ LiveInv bit0 s' st' (fun _ => 0) /\
    Rel st' (fst (spec_run (map fst h) (map is_error obss) (mkS [] []))) /\
    Forall2 obs_ok obss (snd (spec_run (map fst h) (map is_error obss) (mkS [] []))).
Proof. exact histories_from_init. Qed.

(* ---- failure-free histories, then both tables freed: nothing stays allocated, no block was released twice or
        without being allocated, none through libc ---- *)
Theorem C18_balanced : forall v, good v -> free_cfg v = true -> balanced v.
Proof. exact balanced_of_good. Qed.

(* ---- synchronisation, first part (temporary PDU arrays, prefix shadow table, router-key shadow object), for
        EVERY variant: a failed realloc in rtr_store_*_pdu, a failed shadow allocation or a failed copy into the
        shadow table ends the exchange with RTR_ERROR, the socket's tables syntactically untouched, every temporary
        block released; without failure the second part starts ---- *)
Theorem C18_sync_prepare_contained : forall (incr : nat) (me_p : N) reset main pdus s Base,
  TWF (tp main) -> (forall c, cnt c (live s) = Base c) ->
  exists p s', sync_prepare_m incr me_p reset main pdus s = Val p s' /\
    match p with
    | Early o => o = mkOut false main [] [] /\ (exists df, post s s' df) /\ (forall c, cnt c (live s') = Base c)
    | Go n shp => post s s' 0 /\ reset = (match shp with Some _ => true | None => false end)
    end.
Proof. exact sync_prepare_spec. Qed.

(* ---- the whole property holds of the repaired code ---- *)
Theorem C18_full_repaired : C18_full repaired.
Proof. exact full_repaired. Qed.

Theorem C18_full_of_fixes : forall v, all_good v -> C18_full v.
Proof. exact full_of_all_good. Qed.

(* ---- ... and each defective site alone refutes it (witnesses replayed on the C code by tools/props/C18.py) ---- *)
Theorem C18_refuted_shrink : forall v, shrink_ok v = false -> ~ C18_full v.
Proof. exact refuted_shrink. Qed.
Theorem C18_refuted_grow : forall v, grow_checked v = false -> ~ C18_full v.
Proof. exact refuted_grow. Qed.
Theorem C18_refuted_init : forall v, init_checked v = false -> ~ C18_full v.
Proof. exact refuted_init. Qed.
Theorem C18_refuted_free : forall v, free_cfg v = false -> ~ C18_full v.
Proof. exact refuted_free. Qed.
Theorem C18_refuted_reason : forall v, reason_tmp v = false -> ~ C18_full v.
Proof. exact refuted_reason. Qed.
Theorem C18_refuted_lookup : forall v, result_null v = false -> ~ C18_full v.
Proof. exact refuted_lookup. Qed.

(* in particular the code as it is at the pinned commit (every switch off) does not have the property *)
Theorem C18_refuted_as_is : ~ C18_full as_is.
Proof. exact (refuted_shrink as_is eq_refl). Qed.

(* trie_get_children (internal helper; only the test suite calls it): the code as it is releases the array once
   per active recursion level; the repaired code once *)
Theorem C18_refuted_children : forall v, children_once v = false ->
  exists s', tchildren_m v (t4 wC) (mkA (Some 2) 0 [] [] false) = Val false s' /\ corrupt s' = true.
Proof. exact refuted_children. Qed.

(* ---- what holds of the code as it is ---- *)
Theorem C18_as_is_part :
  (forall T r s B, TWF T -> LiveP s T B -> exists res s', tadd_m T r s = Val res s' /\
      ((post s s' 0 /\ res = tadd T r /\ LiveP s' (fst (fst (tadd T r))) B) \/ (post s s' 1 /\ res = (T, ERROR, []) /\ LiveP s' T B))) /\
  (forall T r s B, TWF T -> LiveP s T B -> exists res s', tremove_m as_is T r s = Val res s' /\
      ((post s s' 0 /\ res = tremove T r /\ LiveP s' (fst (fst (tremove T r))) B) \/
       (post s s' 1 /\ exists T', res = (T', ERROR, []) /\ TWF T' /\ Permutation (trecords T') (trecords T) /\ LiveP s' T' B))) /\
  (forall hash bit0, (0 <= bit0)%Z -> forall t e s B, RtrV.Spki.SpkiProofs.SpkiInv hash bit0 t -> LiveK bit0 s t B ->
      need_seg (RtrV.Spki.SpkiModel.ht t) = false ->
      exists res s', add_entry_m hash as_is t e s = Val res s' /\
      ((post s s' 0 /\ res = RtrV.Spki.SpkiModel.add_entry hash t e /\ LiveK bit0 s' (snd (fst (RtrV.Spki.SpkiModel.add_entry hash t e))) B) \/
       (post s s' 1 /\ res = (RtrV.Spki.SpkiModel.SPKI_ERROR, t, []) /\ LiveK bit0 s' t B))).
Proof. exact as_is_part. Qed.

(* the constants the executed model takes from the code (translated on every run) are in the theorems' domain *)
Theorem C18_code_constants :
  (0 <= RtrV.Gen.Generated.c_TOMMY_HASHLIN_BIT)%Z /\ (0 < RtrV.Gen.Generated.c_TEMPORARY_PDU_STORE_INCREMENT_VALUE)%Z /\
  RtrV.Spki.SpkiModel.SPKI_ERROR <> RtrV.Spki.SpkiModel.SPKI_SUCCESS.
Proof. exact code_constants. Qed.

(* ---- non-vacuity: concrete states that satisfy the hypotheses, and what the theorems say there ---- *)
Example C18_example_state : TabsInv idh b6 wst /\ LiveInv b6 (ws 1) wst (fun _ => 0) /\ trecords (tp wst) = [wr1; wr2; wr3].
Proof. split; [exact wst_inv|]. split; [exact (ws_live 1)|vm_compute; reflexivity]. Qed.

(* the first allocation of an add that needs a new node fails: PFX_ERROR, the table is the same term *)
Example C18_example_add_fails :
  exists s', tadd_m wT (false, RtrV.Pfx.PfxHistory.a4 [false], 1, mkE 5 8 2) (arm (Some 1) (ws 1)) = Val (wT, ERROR, []) s' /\ live s' = live (ws 1).
Proof. eexists. split; vm_compute; reflexivity. Qed.

(* a history with two faults: the failed operations leave no trace, the rest is the Spec's *)
Example C18_example_history :
  exists st' s', run_m idh b6 repaired
      [(OPAdd wr1, None); (OPAdd wr2, Some 1); (OKAdd (RtrV.Spki.SpkiModel.mkE 1 1 1 2), Some 1); (OPAdd wr3, None); (OPSrcRemove 2, Some 1)]
      (init_tabs b6) init_ast
    = Val (st', [ObsP SUCCESS [Added wr1]; ObsP ERROR []; ObsK RtrV.Spki.SpkiModel.SPKI_ERROR []; ObsP SUCCESS [Added wr3];
                 ObsP SUCCESS [Removed wr1]]) s' /\
    trecords (tp st') = [wr3] /\ RtrV.Spki.SpkiModel.contents (tk st') = [] /\ corrupt s' = false.
Proof. eexists _, _. split; [vm_compute; reflexivity|]. repeat split; vm_compute; reflexivity. Qed.

Print Assumptions C18_alloc_erase.
Print Assumptions C18_contained_pfx_add.
Print Assumptions C18_contained_pfx_remove.
Print Assumptions C18_contained_pfx_src_remove.
Print Assumptions C18_contained_pfx_validate.
Print Assumptions C18_contained_spki_add.
Print Assumptions C18_contained_spki_other.
Print Assumptions C18_contained_spki_lookup.
Print Assumptions C18_contained_step.
Print Assumptions C18_histories.
Print Assumptions C18_balanced.
Print Assumptions C18_sync_prepare_contained.
Print Assumptions C18_full_repaired.
Print Assumptions C18_full_of_fixes.
Print Assumptions C18_refuted_shrink.
Print Assumptions C18_refuted_grow.
Print Assumptions C18_refuted_init.
Print Assumptions C18_refuted_free.
Print Assumptions C18_refuted_reason.
Print Assumptions C18_refuted_lookup.
Print Assumptions C18_refuted_as_is.
Print Assumptions C18_refuted_children.
Print Assumptions C18_as_is_part.
Print Assumptions C18_code_constants.
