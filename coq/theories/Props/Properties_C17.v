(* C17 - Timer values stay within protocol bounds whatever the cache sends.

   Tie (a): rtr_check_interval_range / apply_interval_value / rtr_check_interval_option are translated
   from /repo into Gen/Generated.v on every run; C17_code_is_model shows that the interval law used by
   the RTR model ([iv_apply]) is what that code computes, for every 32-bit value, mode and field.
   Tie (b): tools/props/C17.py runs the boundary grid through the real rtr_sync.
   The RFC 8210 ranges appear as literals: a changed constant in /repo breaks these theorems.   *)
From RtrV Require Gen.GeneratedFsm Rtr.FsmTie.
From RtrV Require Import Base.CSem Gen.Generated Rtr.RtrModel Rtr.IntervalProofs.
Local Open Scope string_scope.
Local Open Scope Z_scope.

(* the C code computes the model's law: for type 0/1/2 = expiration/refresh/retry *)
Theorem C17_code_is_model : forall s mode v ty, In ty [0; 1; 2] ->
  exists s', rtr_check_interval_option_gen s mode v ty = Some (0, s') /\
    sget (field_of ty) s' = iv_apply mode v (sget (field_of ty) s) (min_of ty) (max_of ty) /\
    forall k, k <> field_of ty -> sget k s' = sget k s.
Proof. exact option_gen. Qed.

(* initialisation rejects intervals outside the RFC 8210 ranges *)
Theorem C17_init : forall r e t,
  init_ok r e t = true <-> (1 <= r <= 86400 /\ 600 <= e <= 172800 /\ 1 <= t <= 7200).
Proof. exact init_ok_ranges. Qed.

(* after a version-1 End of Data the three intervals are exactly what the mode prescribes:
   as sent (accept-any), clamped (default-min-max), as sent only if inside the range (ignore-on-failure) *)
Theorem C17_mode : forall s p, nthb p 0 = 1 -> In (iv_mode s) [1; 2; 3] ->
  ivs (apply_eod_intervals s p) =
    (prescribed (iv_mode s) (get32 p 12) (refresh_iv s) 1 86400,
     prescribed (iv_mode s) (get32 p 20) (expire_iv s) 600 172800,
     prescribed (iv_mode s) (get32 p 16) (retry_iv s) 1 7200).
Proof. exact eod_intervals_v1. Qed.

(* unchanged in ignore-any mode, and version-0 exchanges never change them *)
Theorem C17_unchanged : forall s p,
  nthb p 0 <> 1 \/ iv_mode s = 0 -> apply_eod_intervals s p = s.
Proof. exact eod_intervals_unchanged. Qed.

(* in every mode except accept-any the intervals stay within the ranges *)
Theorem C17_in_range : forall s p, In (iv_mode s) [0; 1; 2; 3] -> iv_mode s <> 1 ->
  ivs_in_range s -> ivs_in_range (apply_eod_intervals s p).
Proof. exact eod_keeps_range. Qed.

(* while established the client waits for input no longer than until last synchronisation + refresh *)
Theorem C17_poll_deadline : forall w v rest,
  st (sk w) <> c_RTR_SHUTDOWN -> evs w = EvWait v :: rest ->
  Z.max 0 (last_update (sk w) + refresh_iv (sk w) - now w) < v ->
  exists w', wait_for_sync w = Ok 0 w' /\ sk w' = sk w /\
             now w' = Z.max (now w) (last_update (sk w) + refresh_iv (sk w)).
Proof. exact quiet_until_refresh. Qed.

(* the wait of the ESTABLISHED state as the code computes it: rtr_wait_for_sync translated from /repo on every run (Gen/GeneratedFsm.v;
   (last_update + refresh_interval) - cur_time in time_t, clamped at 0, handed to rtr_receive_pdu; Serial Notify / timeout / close
   decoded from the result) equals the model's wait_for_sync - the function C17_poll_deadline is about - whenever the fields fit their
   C types (Rtr/FsmTie.v).  An unsigned or 32-bit "elapsed" (seeded C17, C17-r2, C08-r4) breaks this proof. *)
Theorem C17_wait_translated : forall fuel w, Rtr.FsmTie.wait_range w ->
  Rtr.FsmTie.run_eff fuel (Gen.GeneratedFsm.rtr_wait_for_sync_gen (Rtr.FsmTie.sock_store (sk w))) w = Some (wait_for_sync w).
Proof. exact Rtr.FsmTie.wait_tie_world. Qed.

Print Assumptions C17_code_is_model.
Print Assumptions C17_init.
Print Assumptions C17_mode.
Print Assumptions C17_unchanged.
Print Assumptions C17_in_range.
Print Assumptions C17_poll_deadline.
Print Assumptions C17_wait_translated.
