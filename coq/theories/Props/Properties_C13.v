(* C13 - The protocol version is negotiated downward only and then enforced.

   Model: Rtr/RtrModel.v (rtr.c / packets.c restated; tied to /repo by the trace correspondence of
   tools/props/C13.py: the real state-machine thread against the extracted model on the same scripts).
   Quantified over every environment: any receive script (any bytes, chunkings, errors, waits, stops),
   any open and send behaviour, any number of state-machine iterations.                          *)
From RtrV Require Base.Mem Gen.GeneratedFsm2 Rtr.FsmTie Rtr.FsmTie2 Rtr.ExpiryFrames Rtr.FsmTie3 Rtr.FsmTie3b Gen.GeneratedFsm3 Base.MemW.
From RtrV Require Import Base.CSem Gen.Generated Rtr.RtrModel Rtr.VersionProofs Rtr.VersionLocal.
Local Open Scope Z_scope.

(* a socket opens with the highest version it supports ... *)
Theorem C13_initial : forall r e t m, version (init_sock r e t m) = c_RTR_PROTOCOL_MAX_SUPPORTED_VERSION.
Proof. reflexivity. Qed.

(* ... and afterwards only ever lowers it: after ANY run the version is <= the one before (and stays >= 0) *)
Theorem C13_monotone : forall n fuel w,
  version (sk (run_fsm n fuel w)) <= version (sk w) /\ (0 <= version (sk w) -> 0 <= version (sk (run_fsm n fuel w))).
Proof. exact run_fsm_V. Qed.

(* cause 1: the first PDU of a connection carries a lower supported version: the version drops to it and
   the exchange continues (the PDU is not refused on account of its version); any other first PDU
   leaves the version alone *)
Theorem C13_first_pdu : forall t w h w1,
  st (sk w) <> c_RTR_SHUTDOWN -> tr_recv_all 8 t w = Ok (inr h) w1 -> hdr_ok h -> has_recv (sk w) = false ->
  let v' := if (version (sk w) =? 1) && (nthb h 0 =? 0) && negb (nthb h 1 =? c_ERROR) then 0 else version (sk w) in
  match receive_pdu t w with
  | Ok _ w' | Exc _ w' => version (sk w') = v' /\ has_recv (sk w') = true
  end.
Proof. exact first_pdu_version. Qed.

(* cause 2: an Unsupported-Version error report carrying a lower supported version: reconnect at once *)
Theorem C13_error_report : forall p w,
  get16 p 2 = c_UNSUPPORTED_PROTOCOL_VER -> 0 <= nthb p 0 -> nthb p 0 <= 1 -> nthb p 0 < version (sk w) ->
  st (sk w) <> c_RTR_SHUTDOWN -> st (sk w) <> c_RTR_FAST_RECONNECT ->
  exists w', handle_error_pdu p w = Ok tt w' /\ version (sk w') = nthb p 0 /\ st (sk w') = c_RTR_FAST_RECONNECT /\
             pfx w' = pfx w /\ keys w' = keys w.
Proof. exact error_report_downgrade. Qed.

Theorem C13_error_report_otherwise : forall p w,
  ~ (get16 p 2 = c_UNSUPPORTED_PROTOCOL_VER /\ 0 <= nthb p 0 <= 1 /\ nthb p 0 < version (sk w)) ->
  match handle_error_pdu p w with Ok _ w' | Exc _ w' => version (sk w') = version (sk w) end.
Proof. exact error_report_other. Qed.

(* cause 3: the cache closes the connection without answering before any session exists *)
Theorem C13_closed_before_session : forall f w w1,
  receive_pdu c_RTR_RECV_TIMEOUT w = Ok (inl (-4)) w1 ->
  st (sk w1) <> c_RTR_SHUTDOWN -> st (sk w1) <> c_RTR_FAST_RECONNECT -> st (sk w1) <> c_RTR_ERROR_TRANSPORT ->
  exists w2, sync_first (S f) w = Ok None w2 /\ pfx w2 = pfx w1 /\ keys w2 = keys w1 /\
    ((req_sess (sk w1) = true /\ 0 < version (sk w1) /\
      version (sk w2) = version (sk w1) - 1 /\ st (sk w2) = c_RTR_FAST_RECONNECT) \/
     (~ (req_sess (sk w1) = true /\ 0 < version (sk w1)) /\
      version (sk w2) = version (sk w1) /\ st (sk w2) = c_RTR_ERROR_TRANSPORT)).
Proof. exact closed_before_session. Qed.

(* "reconnecting at once": FAST_RECONNECT closes and reconnects without letting time pass *)
Theorem C13_fast_reconnect : forall fuel w, st (sk w) = c_RTR_FAST_RECONNECT ->
  exists w', fsm_step fuel w = Ok tt w' /\ now w' = now w /\ st (sk w') = c_RTR_CONNECTING /\
             out w' = TState c_RTR_CONNECTING :: TClose :: out w /\ version (sk w') = version (sk w).
Proof. exact fast_reconnect_no_sleep. Qed.

(* enforcement: every other PDU whose version differs from the negotiated one is refused with an
   Unexpected-Protocol-Version report echoing its header; none of its content is applied *)
Theorem C13_enforced : forall t w h w1,
  st (sk w) <> c_RTR_SHUTDOWN -> tr_recv_all 8 t w = Ok (inr h) w1 ->
  8 <= get32 h 4 -> get32 h 4 <= c_RTR_MAX_PDU_LEN -> nthb h 1 <> c_ERROR ->
  has_recv (sk w) = true -> nthb h 0 <> version (sk w) ->
  exists r w2, send_error_pdu h c_UNEXPECTED_PROTOCOL_VERSION [] w1 = Ok r w2 /\
               receive_pdu t w = Ok (inl (-1)) w2 /\ sk w2 = sk w /\ pfx w2 = pfx w /\ keys w2 = keys w.
Proof. exact wrong_version_refused. Qed.

(* version-0 and version-1 End of Data are accepted only in their own formats *)
Theorem C13_eod_format : forall p, nthb p 1 = c_EOD ->
  check_size p = true <-> ((nthb p 0 = 0 /\ get32 p 4 = 12) \/ (nthb p 0 = 1 /\ get32 p 4 = 24)).
Proof. exact eod_format. Qed.

(* Tie (a) for the functions the version rules live in.  rtr_sync (the receive loop that ignores Serial Notifies, the downgrade when
   the cache hangs up before any session exists, the dispatch on the first PDU, the bookkeeping after a successful synchronisation) and
   rtr_handle_error_pdu (the switch on the error code, the downgrade on Unsupported Protocol Version) are translated from /repo on every
   run (effect mode, Gen/GeneratedFsm2.v: the do/while loop as a fuelled Fixpoint, loads from the receive buffer guarded) and proved
   equal to the model's rtr_sync / handle_error_pdu (Rtr/FsmTie2.v), for every world with byte-valued input (Tm) and a version that
   fits its C type.  "Downgrade tests has_received_pdus instead of request_session_id", "TR_INTR treated as success",
   "request_session_id cleared before the records are stored" each break sync_loop_tie. *)
Theorem C13_sync_translated : forall fuel w, Rtr.ExpiryFrames.Tm w -> (0 <= version (sk w) < 2^32)%Z ->
  Rtr.FsmTie2.run_eff2 fuel (Gen.GeneratedFsm2.rtr_sync_gen fuel (Rtr.FsmTie.sock_store (sk w))) w = Some (rtr_sync fuel w).
Proof. exact Rtr.FsmTie2.sync_tie_world. Qed.

Theorem C13_error_pdu_translated : forall fuel len p w,
  Forall Base.Mem.byte_ok p -> (8 <= zlen p)%Z -> (8 <= len)%Z -> (0 <= version (sk w) < 2^32)%Z ->
  Rtr.FsmTie2.run_eff2 fuel (Gen.GeneratedFsm2.rtr_handle_error_pdu_gen (Rtr.FsmTie2.in_buffer len p) (Some 0%Z) (Rtr.FsmTie.sock_store (sk w))) w =
  Some (match handle_error_pdu p w with Ok _ w' => Ok 0%Z w' | Exc x w' => Exc x w' end).
Proof. exact Rtr.FsmTie2.handle_error_tie_world. Qed.

Example C13_fsm2_translator_clean : Gen.GeneratedFsm2.fsm2_translator_problems = [].
Proof. reflexivity. Qed.

(* The first-PDU rule itself lives in rtr_receive_pdu: translated on every run (Gen/GeneratedFsm3.v) and, for EVERY world with
   byte-valued input, proved equal to the model's receive_pdu on all paths that are decided by the header (Rtr/FsmTie3b.v):
     after_first s h   what the first-PDU logic makes of the socket: has_received_pdus set; version 1 lowered to 0 when the header has
                       version 0 and is not an Error Report;
     header_rejects    length < 8, length > maximum, or a version other than the (possibly just lowered) one on a PDU that is not an
                       Error Report;
   then: the result, the Error Report sent (Corrupt Data with its texts / Unexpected Protocol Version), the socket's fields and the whole
   trace are the model's.  A change to the downgrade condition, to has_received_pdus or to the Error Report exemption breaks this proof.
   Still by evaluation only (FsmTie3 scripts): the paths after a complete payload (size check, footer conversion, success). *)
Theorem C13_receive_header_phase_translated : forall fuel m len t w h w1,
  (c_RTR_MAX_PDU_LEN <= len)%Z -> (8 <= zlen m)%Z -> (0 <= st (sk w) < 2^32)%Z -> st (sk w) <> c_RTR_SHUTDOWN ->
  Rtr.ExpiryFrames.Tm w -> (0 <= version (sk w) < 2^32)%Z ->
  tr_recv_all 8 t w = Ok (inr h) w1 -> Rtr.FsmTie3b.header_rejects (sk w) h = true ->
  Rtr.FsmTie3.interp3 fuel (Gen.GeneratedFsm3.rtr_receive_pdu_gen m (Some 0%Z) len t (Rtr.FsmTie.sock_store (sk w))) nil w =
  Some (Rtr.FsmTie3.as_recv (fun _ => Base.MemW.st_list m 0 h) (receive_pdu t) w).
Proof. exact Rtr.FsmTie3b.recv_header_phase. Qed.

Example C13_receive_pdu_version_tests := Rtr.FsmTie3.recv_versions.

Print Assumptions C13_initial.
Print Assumptions C13_monotone.
Print Assumptions C13_first_pdu.
Print Assumptions C13_error_report.
Print Assumptions C13_error_report_otherwise.
Print Assumptions C13_closed_before_session.
Print Assumptions C13_fast_reconnect.
Print Assumptions C13_enforced.
Print Assumptions C13_eod_format.
Print Assumptions C13_sync_translated.
Print Assumptions C13_error_pdu_translated.
Print Assumptions C13_receive_header_phase_translated.
