(* C03 - A cache response is applied completely or not at all.

   Model: Rtr/RtrModel.v (rtr_sync, rtr_sync_receive_and_store_pdus = store_loop + process_eod, written after
   packets.c as repaired by 384b024 / 1aca41c / d3720d6; tied to /repo by the trace correspondence of
   tools/props/C03.py).  The socket under study is source 1; records of any other source are "foreign".

   Spec vocabulary (Rtr/SyncSets.v, plain list/set arithmetic):
     own_p X / oth_p X          the records of X whose source is / is not 1          (own_k / oth_k for router keys)
     apply_delta_p old pdus     fold over pdus: flags = 1 appends the PDU's record, otherwise removes it
     announced_p pdus           apply_delta_p [] pdus
     applies_p pdus X           every PDU in turn is an announcement of an absent or a withdrawal of a present record
     next_query s               QReset if request_session_id, else QSerial session_id serial_number
   The theorems quantify over ALL buffered PDU lists (any length, any mix, any position of the offending
   PDU), all tables (duplicate-free: the invariant C03_tables_stay_sets), all sockets and all environment
   scripts.  Numbers are unbounded Z; PDUs are arbitrary byte lists.                                      *)
From Coq Require Import Permutation.
From RtrV Require Base.Mem Base.MemW Gen.GeneratedStore Rtr.FsmTie Rtr.StoreTie.
From Coq Require Import ZArith.
From RtrV Require Import Base.CSem Gen.Generated Rtr.RtrModel Rtr.SyncSets Rtr.SyncFrame Rtr.SyncProofs
     Rtr.SyncTheorems Rtr.SyncExamples.
Local Open Scope Z_scope.

(* (1) End of Data returns 0: the socket's records are the previous ones with the delta applied (incremental)
   or exactly the announced set (reset); the serial is the End of Data's; the intervals are those prescribed. *)
Theorem C03_success : forall (p : list byte) (v4 v6 ks : list (list byte)) (w w' : world),
  NoDup (pfx w) -> NoDup (keys w) -> process_eod p v4 v6 ks w = Ok 0 w' ->
  own_p (pfx w') = (if resetting (sk w) then announced_p (v4 ++ v6) else apply_delta_p (own_p (pfx w)) (v4 ++ v6)) /\
  own_k (keys w') = (if resetting (sk w) then announced_k ks else apply_delta_k (own_k (keys w)) ks) /\
  NoDup (pfx w') /\ NoDup (keys w') /\
  serial (sk w') = get32 p 8 /\ get16 p 2 = session_id (sk w) /\ session_id (sk w') = session_id (sk w) /\
  req_sess (sk w') = req_sess (sk w) /\
  ivs_of (sk w') = ivs_of (apply_eod_intervals (sk w) p).
Proof. exact C03_success_l. Qed.

(* it returns 0 exactly when the session matches and every PDU applies in order (IPv4, IPv6, router keys) *)
Theorem C03_success_iff : forall (p : list byte) (v4 v6 ks : list (list byte)) (w : world) (r : Z) (w' : world),
  NoDup (pfx w) -> NoDup (keys w) -> process_eod p v4 v6 ks w = Ok r w' ->
  (r = 0 <-> get16 p 2 = session_id (sk w) /\ applies_p (v4 ++ v6) (upd_tab_p w) /\ applies_k ks (upd_tab_k w)).
Proof. exact C03_success_iff_l. Qed.

(* (2) it fails (session mismatch; duplicate announcement, unknown withdrawal or invalid flags at ANY position of
   any of the three groups): main tables as before up to order and the next query as before, OR everything of this
   socket purged and a Reset Query next; in reset mode the main tables are not touched at all. *)
Theorem C03_failure : forall (p : list byte) (v4 v6 ks : list (list byte)) (w : world) (r : Z) (w' : world),
  NoDup (pfx w) -> NoDup (keys w) -> process_eod p v4 v6 ks w = Ok r w' -> r <> 0 ->
  ((Permutation (pfx w') (pfx w) /\ Permutation (keys w') (keys w) /\
    req_sess (sk w') = req_sess (sk w) /\ session_id (sk w') = session_id (sk w) /\ serial (sk w') = serial (sk w) /\
    next_query (sk w') = next_query (sk w))
   \/ (own_p (pfx w') = [] /\ own_k (keys w') = [] /\ req_sess (sk w') = true /\ next_query (sk w') = QReset)) /\
  (resetting (sk w) = true -> pfx w' = pfx w /\ keys w' = keys w).
Proof. exact C03_failure_l. Qed.

(* in this model (no allocation failure) the undo always succeeds, so the first alternative always holds;
   and the failure has one of the listed causes *)
Theorem C03_failure_restores : forall (p : list byte) (v4 v6 ks : list (list byte)) (w : world) (r : Z) (w' : world),
  NoDup (pfx w) -> NoDup (keys w) -> process_eod p v4 v6 ks w = Ok r w' -> r <> 0 ->
  r = -1 /\
  Permutation (pfx w') (pfx w) /\ Permutation (keys w') (keys w) /\
  req_sess (sk w') = req_sess (sk w) /\ session_id (sk w') = session_id (sk w) /\ serial (sk w') = serial (sk w) /\
  next_query (sk w') = next_query (sk w) /\
  (resetting (sk w) = true -> pfx w' = pfx w /\ keys w' = keys w) /\
  (get16 p 2 <> session_id (sk w) \/ eod_failure (upd_tab_p w) (upd_tab_k w) v4 v6 ks).
Proof. exact C03_failure_strong_l. Qed.

(* the set-level heart of it: undoing, most recent first, a prefix of updates that applied to a duplicate-free
   table succeeds and gives the table back up to order *)
Theorem C03_undo_apply : forall (live : bool) (ps : list (list byte)) (X : list prec),
  NoDup X -> applies_p ps X ->
  exists Y t, undo_pfx live (rev ps) (fold_left delta_p ps X) = (Y, t, true) /\ Permutation Y X /\ oth_p Y = oth_p X.
Proof. exact gundo_spec_oth_p. Qed.
Theorem C03_undo_apply_keys : forall (live : bool) (ps : list (list byte)) (X : list krec),
  NoDup X -> applies_k ps X ->
  exists Y t, undo_keys live (rev ps) (fold_left delta_k ps X) = (Y, t, true) /\ Permutation Y X /\ oth_k Y = oth_k X.
Proof. exact gundo_spec_oth_k. Qed.

(* the fallback the code takes should an undo fail *)
Theorem C03_purge_fallback : forall w : world,
  exists w', purge_after_failed_undo w = Ok tt w' /\
             pfx w' = oth_p (pfx w) /\ keys w' = oth_k (keys w) /\ own_p (pfx w') = [] /\ own_k (keys w') = [] /\
             req_sess (sk w') = true.
Proof. exact purge_after_failed_undo_spec. Qed.

(* End of Data processing is never interrupted (no stop, no end of script in the middle of an update) *)
Theorem C03_eod_atomic : forall (p : list byte) (v4 v6 ks : list (list byte)) (w : world),
  NoDup (pfx w) -> NoDup (keys w) -> exists r w', process_eod p v4 v6 ks w = Ok r w' /\ (r = 0 \/ r = -1).
Proof. exact C03_no_exception_l. Qed.

(* (3) records of other caches are exactly preserved, whatever the outcome *)
Theorem C03_others : forall (p : list byte) (v4 v6 ks : list (list byte)) (w : world) (r : Z) (w' : world),
  NoDup (pfx w) -> NoDup (keys w) -> process_eod p v4 v6 ks w = Ok r w' ->
  oth_p (pfx w') = oth_p (pfx w) /\ oth_k (keys w') = oth_k (keys w).
Proof. exact C03_others_l. Qed.

(* (4) the receive loop: whatever the environment does (malformed / unexpected / error PDU, transport error,
   timeout, close at any byte, over-long prefix, stop, script end), EITHER the loop ends before End of Data with a
   non-zero result (or an exception) and both tables and the whole session bookkeeping are exactly unchanged
   (L: pfx, keys, session_id, request_session_id, serial, last_update, intervals, is_resetting all equal),
   OR it reached End of Data: everything it did to the tables is ONE call of process_eod on the PDUs that
   rtr_receive_pdu returned, in order, from a state with the same tables. *)
Theorem C03_before_eod : forall (fuel : nat) (v4 v6 ks : list (list byte)) (w : world),
  match store_loop fuel v4 v6 ks w with
  | Ok r w' => (r <> 0 /\ L w w') \/ reached_eod w v4 v6 ks (Ok r w')
  | Exc e w' => L w w' \/ reached_eod w v4 v6 ks (Exc e w')
  end.
Proof. exact C03_before_eod_l. Qed.

(* (5) is_resetting is cleared by every attempt that returns *)
Theorem C03_resetting_cleared : forall (fuel : nat) (w : world) (r : Z) (w' : world),
  receive_and_store fuel w = Ok r w' -> resetting (sk w') = false.
Proof. exact receive_and_store_clears. Qed.

(* the whole of rtr_sync.  reset_mode s = is_resetting || (request_session_id && last_update <> 0). *)
Theorem C03_sync : forall (fuel : nat) (w : world),
  NoDup (pfx w) -> NoDup (keys w) ->
  match rtr_sync fuel w with
  | Ok r w' =>
      oth_p (pfx w') = oth_p (pfx w) /\ oth_k (keys w') = oth_k (keys w) /\
      ((r = 0 /\
        exists cr eod v4 v6 ks,
          response_received fuel w cr eod v4 v6 ks /\
          own_p (pfx w') = (if reset_mode (sk w) then announced_p (v4 ++ v6) else apply_delta_p (own_p (pfx w)) (v4 ++ v6)) /\
          own_k (keys w') = (if reset_mode (sk w) then announced_k ks else apply_delta_k (own_k (keys w)) ks) /\
          serial (sk w') = get32 eod 8 /\ session_id (sk w') = get16 eod 2 /\ get16 cr 2 = get16 eod 2 /\
          (req_sess (sk w) = false -> session_id (sk w) = get16 cr 2) /\
          req_sess (sk w') = false /\ resetting (sk w') = false /\ last_update (sk w') = now w' /\
          ivs_of (sk w') = ivs_of (apply_eod_intervals (sk w) eod))
       \/
       (r <> 0 /\
        Permutation (pfx w') (pfx w) /\ Permutation (keys w') (keys w) /\
        next_query (sk w') = next_query (sk w) /\ last_update (sk w') = last_update (sk w) /\
        (reset_mode (sk w) = true -> pfx w' = pfx w /\ keys w' = keys w) /\
        ((pfx w' = pfx w /\ keys w' = keys w) \/
         exists cr eod v4 v6 ks,
           response_received fuel w cr eod v4 v6 ks /\
           (get16 eod 2 <> get16 cr 2 \/
            eod_failure (if reset_mode (sk w) then oth_p (pfx w) else pfx w)
                        (if reset_mode (sk w) then oth_k (keys w) else keys w) v4 v6 ks))))
  | Exc _ w' => pfx w' = pfx w /\ keys w' = keys w /\ next_query (sk w') = next_query (sk w)
  end.
Proof. exact rtr_sync_C03. Qed.

(* the invariant assumed above is kept by the whole state machine, for every environment *)
Theorem C03_tables_stay_sets : forall (n fuel : nat) (w : world),
  NoDup (pfx w) /\ NoDup (keys w) -> NoDup (pfx (run_fsm n fuel w)) /\ NoDup (keys (run_fsm n fuel w)).
Proof. exact (fun n fuel w => run_fsm_ND n fuel w). Qed.

(* Examples on concrete PDU bytes (Rtr/SyncExamples.v, evaluated by vm_compute on closed terms) *)
Theorem C03_example_successful_delta :
  match process_eod eod9 [A1; B1] [D6] [K1] w0 with
  | Ok r w' => r = 0 /\
               pfx w' = [foreign; recC; prec_of_pdu A1; prec_of_pdu B1; prec_of_pdu D6] /\
               keys w' = [fkey; krec_of_pdu K1] /\
               serial (sk w') = 9 /\ session_id (sk w') = 5 /\ req_sess (sk w') = false /\
               (refresh_iv (sk w'), expire_iv (sk w'), retry_iv (sk w')) = (1800, 3600, 300)
  | Exc _ _ => False
  end.
Proof. exact ex_success. Qed.

(* [+A, -A, +B, +C] with C already present: rolled back *)
Theorem C03_example_rolled_back_delta :
  match process_eod eod9 [A1; A0; B1; C1] [] [K1] w0 with
  | Ok r w' => r = -1 /\ pfx w' = pfx w0 /\ keys w' = keys w0 /\
               serial (sk w') = 7 /\ session_id (sk w') = 5 /\ req_sess (sk w') = false /\
               st (sk w') = c_RTR_ERROR_FATAL
  | Exc _ _ => False
  end.
Proof. exact ex_rollback. Qed.

Theorem C03_example_reset_reload :
  match process_eod eod9 [A1; B1] [] [K1] w_reset with
  | Ok r w' => r = 0 /\ pfx w' = [foreign; prec_of_pdu A1; prec_of_pdu B1] /\ keys w' = [fkey; krec_of_pdu K1] /\
               serial (sk w') = 9
  | Exc _ _ => False
  end.
Proof. exact ex_reset_reload. Qed.

Theorem C03_example_hypotheses : NoDup (pfx w0) /\ NoDup (keys w0).
Proof. exact w0_nodup. Qed.

(* Tie (a) for what happens to ONE stored PDU.  rtr_prefix_pdu_2_pfx_record, rtr_key_pdu_2_spki_record, rtr_update_pfx_table,
   rtr_update_spki_table and the two rtr_undo_update_* are translated from /repo on every run (tools/c2v_store.py ->
   Gen/GeneratedStore.v: the stored PDU - host byte order, FooterTie's footer_host (header_host p) - and the record being built as
   memory objects, pfx_table_add / _remove, spki_table_add_entry / _remove_entry, the error-report builder and the state change as
   external calls).  Rtr/StoreTie.v, for every world and every prefix / router-key PDU of its size with byte-valued content:
     the record the C builds is the model's prec_of_pdu / krec_of_pdu (family, address bits, lengths, AS, SKI, SPKI, source);
     flags 1 -> add, 0 -> remove, anything else -> Corrupt Data echoing the whole PDU; duplicate -> Duplicate Announcement +
     ERROR_FATAL; unknown -> Withdrawal of Unknown Record + ERROR_FATAL: result, tables, callbacks, report and socket are the
     model's one-PDU operation (update_pfx_one = the model's upd + report_update_failure: update_pfx_one_model);
     the undo of an applied PDU is the table operation with the flag inverted.
   The PFX_ERROR / SPKI_ERROR branch has no counterpart (the model's tables do not fail: C18's business) and is unreachable under the
   interpretation.  NOT proved here: that the loops of rtr_sync_receive_and_store_pdus fold these one-PDU operations the way the
   model's receive_and_store does (tied by trace equality). *)
Theorem C03_prefix_record_translated : forall p, Forall Base.Mem.byte_ok p -> Rtr.StoreTie.is_prefix_pdu p ->
  exists r, Gen.GeneratedStore.rtr_prefix_pdu_2_pfx_record_gen (Rtr.StoreTie.stored p) (Base.MemW.zeros Gen.GeneratedStore.sizeof_pfx_record)
              Rtr.StoreTie.this_socket (Some 0%Z) (Some 0%Z) (nthb p 1) = Some r /\
            List.length r = Z.to_nat Gen.GeneratedStore.sizeof_pfx_record /\ Rtr.StoreTie.rec_prec r = prec_of_pdu p.
Proof. exact Rtr.StoreTie.pfx_record_tie. Qed.

Theorem C03_update_pfx_translated : forall live h p T w, Forall Base.Mem.byte_ok p -> Rtr.StoreTie.is_prefix_pdu p ->
  Rtr.StoreTie.interpS live (Gen.GeneratedStore.rtr_update_pfx_table_gen h (Rtr.StoreTie.stored p) (Some 0%Z) Rtr.StoreTie.this_socket
                               (Rtr.FsmTie.sock_store (sk w))) T w =
  Some (Rtr.StoreTie.as_effS (Rtr.StoreTie.update_pfx_one live p T) w).
Proof. exact Rtr.StoreTie.update_pfx_tie. Qed.

Theorem C03_update_spki_translated : forall live h p T w, Forall Base.Mem.byte_ok p -> Rtr.StoreTie.is_key p ->
  Rtr.StoreTie.interpS live (Gen.GeneratedStore.rtr_update_spki_table_gen h (Rtr.StoreTie.stored p) (Some 0%Z) Rtr.StoreTie.this_socket
                               (Rtr.FsmTie.sock_store (sk w))) T w =
  Some (Rtr.StoreTie.as_effS (Rtr.StoreTie.update_key_one live p T) w).
Proof. exact Rtr.StoreTie.update_spki_tie. Qed.

Theorem C03_undo_pfx_translated : forall live h p T w, Forall Base.Mem.byte_ok p -> Rtr.StoreTie.is_prefix_pdu p ->
  Rtr.StoreTie.interpS live (Gen.GeneratedStore.rtr_undo_update_pfx_table_gen h (Rtr.StoreTie.stored p) (Some 0%Z) Rtr.StoreTie.this_socket
                               (Rtr.FsmTie.sock_store (sk w))) T w =
  Some (Rtr.StoreTie.as_effS (Rtr.StoreTie.undo_pfx_one live p T) w).
Proof. exact Rtr.StoreTie.undo_pfx_tie. Qed.

Theorem C03_undo_spki_translated : forall live h p T w, Forall Base.Mem.byte_ok p -> Rtr.StoreTie.is_key p ->
  Rtr.StoreTie.interpS live (Gen.GeneratedStore.rtr_undo_update_spki_table_gen h (Rtr.StoreTie.stored p) (Some 0%Z) Rtr.StoreTie.this_socket
                               (Rtr.FsmTie.sock_store (sk w))) T w =
  Some (Rtr.StoreTie.as_effS (Rtr.StoreTie.undo_key_one live p T) w).
Proof. exact Rtr.StoreTie.undo_spki_tie. Qed.

Example C03_store_translator_clean : Gen.GeneratedStore.store_translator_problems = nil.
Proof. reflexivity. Qed.

Print Assumptions C03_success.
Print Assumptions C03_success_iff.
Print Assumptions C03_failure.
Print Assumptions C03_failure_restores.
Print Assumptions C03_undo_apply.
Print Assumptions C03_undo_apply_keys.
Print Assumptions C03_purge_fallback.
Print Assumptions C03_eod_atomic.
Print Assumptions C03_others.
Print Assumptions C03_before_eod.
Print Assumptions C03_resetting_cleared.
Print Assumptions C03_sync.
Print Assumptions C03_tables_stay_sets.
Print Assumptions C03_prefix_record_translated.
Print Assumptions C03_update_pfx_translated.
Print Assumptions C03_update_spki_translated.
Print Assumptions C03_undo_pfx_translated.
Print Assumptions C03_undo_spki_translated.
