(* Properties_C04.v - "No byte stream from a cache can corrupt memory, abort or hang the client".
   Theorems about the executable RTR model (Rtr/RtrModel.v), tied to /repo by the correspondence run of
   tools/props/C04.py (real code under ASan + UBSan with assertions enabled, every stream under >= 3 chunkings).
   Proofs: Rtr/RecvBase.v, Rtr/RecvProofs.v, Rtr/RecvChunk.v, Rtr/RecvTable.v, Rtr/SendSites.v.
   NOT covered by any theorem here: memory safety of the C code itself. *)
From RtrV Require Import Pfx.TrieModel Pfx.TrieInv.
From RtrV Require Import Base.CSem Gen.Generated Rtr.RtrModel Rtr.RelFrame Rtr.RecvBase Rtr.SendBase Rtr.RecvProofs
     Rtr.RecvChunk Rtr.RecvTable Rtr.SendProofs Rtr.SendSites.
From RtrV Require Rtr.RecvExamples.   (* concrete instances *)
From RtrV Require Import Base.Mem Gen.GeneratedMem Rtr.CheckSizeTie Rtr.PrefixValidTie.
From RtrV Require Import Base.MemW Gen.GeneratedMemW Rtr.FooterTie.
From RtrV Require Gen.GeneratedFsm3 Rtr.FsmTie Rtr.FsmTie3 Rtr.FsmTie3b Rtr.FsmTie3c Rtr.ExpiryFrames.
Local Open Scope Z_scope.

(* ---- (1) termination: all model functions are structural recursions (on the script, or on explicit fuel);
        the fuel is never what stops a loop ---- *)
(* the mock transport honours "a receive call returns >= 1 byte or an error" (empty data events are skipped) *)
Theorem C04_recv_contract : forall len tmo w, 1 <= len ->
  match tr_recv len tmo w with
  | Ok (inr b) w' => 1 <= zlen b <= len /\ frame_recv w w'
  | Ok (inl c) w' => frame_recv w w'
  | Exc _ w' => frame_recv w w'
  end.
Proof. exact tr_recv_spec. Qed.
(* tr_recv_all (fuel = len): an error, or EXACTLY len bytes *)
Theorem C04_recv_all_exact : forall len tmo w, 0 <= len ->
  match tr_recv_all len tmo w with
  | Ok (inr r) w' => zlen r = len /\ frame_recv w w'
  | Ok (inl c) w' => frame_recv w w'
  | Exc _ w' => frame_recv w w'
  end.
Proof. exact tr_recv_all_spec. Qed.
(* the PDU loops (fuel = a number of PDUs): any fuel above (bytes left in the script) / 8 gives the same result *)
Theorem C04_fuel_store_loop : forall f1 f2 v4 v6 ks w,
  (ev_bytes (evs w) < 8 * f1)%nat -> (f1 <= f2)%nat -> store_loop f1 v4 v6 ks w = store_loop f2 v4 v6 ks w.
Proof. exact store_loop_fuel. Qed.
Theorem C04_fuel_rtr_sync : forall f1 f2 w,
  (ev_bytes (evs w) < 8 * f1)%nat -> (f1 <= f2)%nat -> rtr_sync f1 w = rtr_sync f2 w.
Proof. exact rtr_sync_fuel. Qed.
Theorem C04_fuel_run : forall n f1 f2 refresh expire retry mode P K es os ss,
  (ev_bytes es < 8 * f1)%nat -> (f1 <= f2)%nat ->
  run_script n f1 refresh expire retry mode P K es os ss = run_script n f2 refresh expire retry mode P K es os ss.
Proof. exact run_script_fuel. Qed.
(* every PDU handed out costs the script at least its header *)
Theorem C04_progress : forall t w,
  match receive_pdu t w with
  | Ok (inr p) w' => (ev_bytes (evs w') + 8 <= ev_bytes (evs w))%nat
  | Ok (inl _) w' => (ev_bytes (evs w') <= ev_bytes (evs w))%nat
  | Exc _ w' => (ev_bytes (evs w') <= ev_bytes (evs w))%nat
  end.
Proof. exact receive_pdu_consumes. Qed.

(* ---- (2) the segmentation of the stream into reads does not matter ---- *)
(* weq: equal except for the chunking of the remaining script (same [flatten]) and the read-size trace items *)
Theorem C04_chunking_recv_all : forall len tmo w w', weq w w' -> res_weq (tr_recv_all len tmo w) (tr_recv_all len tmo w').
Proof. exact tr_recv_all_respects. Qed.
Theorem C04_chunking_receive_pdu : forall t w w', weq w w' -> res_weq (receive_pdu t w) (receive_pdu t w').
Proof. exact receive_pdu_respects. Qed.
Theorem C04_chunking_sync : forall fuel w w', weq w w' -> res_weq (rtr_sync fuel w) (rtr_sync fuel w').
Proof. exact respects_rtr_sync. Qed.
Theorem C04_chunking_step : forall fuel w w', weq w w' -> res_weq (fsm_step fuel w) (fsm_step fuel w').
Proof. exact respects_fsm_step. Qed.
Theorem C04_chunking_run : forall n fuel refresh expire retry mode P K es1 es2 os ss,
  flatten es1 = flatten es2 ->
  strip (run_script n fuel refresh expire retry mode P K es1 os ss) =
  strip (run_script n fuel refresh expire retry mode P K es2 os ss).
Proof. exact run_script_chunking. Qed.

(* ---- (3) the receive buffer ---- *)
(* what receive_pdu hands out: passed check_size, exactly as long as its header says, fits the buffer *)
Theorem C04_accepted : forall t w p w', receive_pdu t w = Ok (inr p) w' ->
  check_size p = true /\ zlen p = get32 p 4 /\ 8 <= zlen p <= c_RTR_MAX_PDU_LEN.
Proof. exact receive_pdu_ok. Qed.
(* every byte range a consumer reads lies inside the PDU (nested Error Report lengths included) *)
Theorem C04_buffer : forall p : list byte, Forall byte_ok p -> pdu_ok p -> safe_reads p = true.
Proof. exact check_size_safe_reads. Qed.
(* and nothing depends on a position beyond the bytes received (the model's default for missing positions is never used) *)
Theorem C04_check_size_local : forall p junk : list byte,
  Forall byte_ok p -> zlen p = get32 p 4 -> 8 <= zlen p -> check_size (p ++ junk) = check_size p.
Proof. exact check_size_local. Qed.
Theorem C04_consumers_local : forall p junk : list byte,
  Forall byte_ok p -> pdu_ok p ->
  check_size (p ++ junk) = check_size p /\
  nthb (p ++ junk) 0 = nthb p 0 /\ nthb (p ++ junk) 1 = nthb p 1 /\ get16 (p ++ junk) 2 = get16 p 2 /\
  firstn 8 (p ++ junk) = firstn 8 p /\
  (nthb p 1 = c_IPV4_PREFIX \/ nthb p 1 = c_IPV6_PREFIX ->
     prec_of_pdu (p ++ junk) = prec_of_pdu p /\ pdu_flags (p ++ junk) = pdu_flags p /\
     prefix_lengths_valid (p ++ junk) = prefix_lengths_valid p) /\
  (nthb p 1 = c_ROUTER_KEY -> krec_of_pdu (p ++ junk) = krec_of_pdu p /\ pdu_flags (p ++ junk) = pdu_flags p) /\
  (nthb p 1 = c_EOD -> get32 (p ++ junk) 8 = get32 p 8 /\ forall s, apply_eod_intervals s (p ++ junk) = apply_eod_intervals s p) /\
  (nthb p 1 = c_ERROR -> handle_error_pdu (p ++ junk) = handle_error_pdu p).
Proof. exact consumers_local. Qed.

(* ---- (4) malformed PDUs are rejected ---- *)
(* receive_pdu never changes the tables *)
Theorem C04_receive_frame : forall t w,
  match receive_pdu t w with Ok _ w' => pfx w' = pfx w /\ keys w' = keys w | Exc _ w' => pfx w' = pfx w /\ keys w' = keys w end.
Proof. exact receive_pdu_T. Qed.
(* length field < 8 or > max: error result, ERROR_FATAL, tables untouched *)
Theorem C04_reject_length : forall t w w1 h, ~ shut w -> tr_recv_all 8 t w = Ok (inr h) w1 ->
  get32 h 4 < 8 \/ get32 h 4 > c_RTR_MAX_PDU_LEN ->
  exists w', receive_pdu t w = Ok (inl (-1)) w' /\
    Q (report_for h (version (sk w)) c_CORRUPT_DATA (if get32 h 4 <? 8 then txt_too_small else txt_too_big)) w1 w' /\
    st (sk w') = c_RTR_ERROR_FATAL /\ T w w'.
Proof. exact report_bad_length. Qed.
(* length inconsistent with the type / unknown type (check_size fails once the announced bytes are in) *)
Theorem C04_reject_size : forall t w w1 h, ~ shut w -> tr_recv_all 8 t w = Ok (inr h) w1 ->
  forall body w3,
  8 <= get32 h 4 <= c_RTR_MAX_PDU_LEN ->
  nthb h 0 = version (sk (hdr_world w1 h)) \/ nthb h 1 = c_ERROR ->
  (if get32 h 4 - 8 >? 0 then tr_recv_all (get32 h 4 - 8) c_RTR_RECV_TIMEOUT (hdr_world w1 h) else Ok (inr []) (hdr_world w1 h))
    = Ok (inr body) w3 ->
  check_size (h ++ body) = false ->
  exists w', receive_pdu t w = Ok (inl (-1)) w' /\
    Q (report_for h (version (sk (hdr_world w1 h))) c_CORRUPT_DATA txt_too_small) w3 w' /\
    st (sk w') = c_RTR_ERROR_FATAL /\ T w w'.
Proof. exact report_bad_size. Qed.
Theorem C04_unknown_type : forall p,
  nthb p 1 = c_RESERVED \/ nthb p 1 > c_MAX_SUPPORTED_PDU_TYPE \/ nthb p 1 < 0 -> check_size p = false.
Proof. exact check_size_reserved. Qed.
Theorem C04_size_per_type : forall p, check_size p = true ->
  let ty := nthb p 1 in let len := get32 p 4 in
  (ty = 0 /\ len = 12) \/ (ty = 3 /\ len = 8) \/ (ty = 4 /\ len = 20) \/ (ty = 6 /\ len = 32) \/
  (ty = 7 /\ ((nthb p 0 = 0 /\ len = 12) \/ (nthb p 0 = 1 /\ len = 24))) \/ (ty = 8 /\ len = 8) \/ (ty = 9 /\ len = 123) \/
  (ty = 10 /\ 16 <= len /\ 16 + get32 p 8 <= len /\ len = 16 + get32 p 8 + get32 p (Z.to_nat (12 + get32 p 8))) \/
  (ty = 1 /\ len = 12) \/ (ty = 2 /\ len = 8).
Proof. exact check_size_cases. Qed.
(* an error from receive_pdu ends the exchange: the loops return RTR_ERROR with the tables as they were,
   and the state machine does not become ESTABLISHED in that step *)
Theorem C04_store_loop_fails : forall f v4 v6 ks w c w1,
  receive_pdu c_RTR_RECV_TIMEOUT w = Ok (inl c) w1 ->
  exists w', store_loop (Datatypes.S f) v4 v6 ks w = Ok (-1) w' /\ T w w'.
Proof. exact store_loop_recv_error. Qed.
Theorem C04_sync_fails : forall fuel w w1, sync_first fuel w = Ok None w1 -> rtr_sync fuel w = Ok (-1) w1.
Proof. exact rtr_sync_no_first. Qed.
Theorem C04_step_fails : forall fuel w r w1,
  st (sk w) = c_RTR_SYNC -> rtr_sync fuel w = Ok r w1 -> r <> 0 -> fsm_step fuel w = Ok tt w1.
Proof. exact fsm_step_sync_failed. Qed.
(* prefix lengths beyond the address size never reach the store (C14_report_prefix_length), so every record
   handed to the tables has an address of the family's width and lengths within it *)
Theorem C04_stored_prefix : forall p : list byte,
  Forall byte_ok p -> pdu_ok p -> nthb p 1 = c_IPV4_PREFIX \/ nthb p 1 = c_IPV6_PREFIX -> prefix_lengths_valid p = true ->
  let '(v6, bits, len, mx, asn, _) := prec_of_pdu p in
  let W := if v6 then 128%nat else 32%nat in
  List.length bits = W /\ (Z.to_nat len <= W)%nat /\ (Z.to_nat mx <= W)%nat /\
  (key_ok W bits (Z.to_nat len) <-> skipn (Z.to_nat len) bits = repeat false (W - Z.to_nat len)).
Proof. exact stored_prefix_key_ok. Qed.
(* ... and, since /repo fix "reject Prefix PDUs with bits set beyond the prefix length", no bit behind the prefix
   length: the whole precondition of the trie theorems (C01 C02 C09: key_ok) holds for every record a cache can
   get into the table.  Before that fix 130 prefixes differing only in such bits built a trie path deeper than the
   address has bits, and the next insertion below it asserted / shifted by 32 (corpus/C04/30-deep-chain-v6.txt, 31-deep-chain-v4.txt). *)
Theorem C04_stored_prefix_key_ok : forall p : list byte,
  Forall byte_ok p -> pdu_ok p -> nthb p 1 = c_IPV4_PREFIX \/ nthb p 1 = c_IPV6_PREFIX -> prefix_lengths_valid p = true ->
  let '(v6, bits, len, mx, asn, _) := prec_of_pdu p in
  key_ok (if v6 then 128%nat else 32%nat) bits (Z.to_nat len).
Proof. exact stored_prefix_is_key_ok. Qed.

(* ---- (5) the size check itself, as translated from /repo's packets.c on every run (memory mode of tools/c2v.py:
        loads through pointers into the receive buffer, C integer widths, the switch with its breaks): on every
        complete PDU it computes exactly the model's check_size, and no load leaves the PDU's own bytes (a load
        outside them would make the translated function return None) ---- *)
Theorem C04_check_size_translated : forall p,
  Forall byte_ok p -> 8 <= zlen p -> zlen p = get32 p 4 ->
  rtr_pdu_check_size_gen (to_host p) (Some 0) = Some (b2z (check_size p)).
Proof. exact check_size_translated. Qed.

Theorem C04_check_size_reads_inside : forall p,
  Forall byte_ok p -> 8 <= zlen p -> zlen p = get32 p 4 ->
  rtr_pdu_check_size_gen (to_host p) (Some 0) <> None.
Proof. exact check_size_reads_inside. Qed.

(* the check that keeps such prefixes out, rtr_prefix_pdu_is_valid, as translated from /repo on every run (its loop
   over the address words unrolled; masks and shifts with C semantics): equal to the model's prefix_lengths_valid on
   every Prefix PDU of the right size (memory image: header, prefix words and AS number in host order), and - since
   it returns a value - without a load outside the PDU or an undefined shift *)
Theorem C04_prefix_check_translated : forall p,
  Forall byte_ok p ->
  (nthb p 1 = c_IPV4_PREFIX /\ zlen p = sizeof_pdu_ipv4) \/ (nthb p 1 = c_IPV6_PREFIX /\ zlen p = sizeof_pdu_ipv6) ->
  rtr_prefix_pdu_is_valid_gen (to_host_pfx p) (Some 0) (nthb p 1) = Some (b2z (prefix_lengths_valid p)).
Proof. exact prefix_valid_translated. Qed.

(* The one place of the receive path where the client WRITES at an offset chosen by the cache: rtr_pdu_convert_footer_byte_order
   (called through rtr_pdu_footer_to_host_byte_order right after the size check; Error Report arm: the 4-byte text length at
   12 + encapsulated length is byte-swapped in place).  Translated from /repo on every run in memory mode WITH STORES
   (Gen/GeneratedMemW.v: every load guarded by ld_ok, every store by st_ok - one outside the PDU makes the function return None),
   together with lrtr_convert_long/short, the header conversion, the IPv4 / IPv6 address conversions (local array + memcpy) and the
   text-length load of rtr_handle_error_pdu.  Rtr/FooterTie.v, for EVERY buffer as rtr_receive_pdu holds it at that point
   (recv_buffer: bytes, length = the header's length field in host order, payload in network order):
     size check accepted  ->  the whole conversion runs inside the PDU's own bytes and equals the model footer_host;
     Error Report arm: exactly bytes 8..11 and 12+e..15+e change (each group reversed);
     afterwards the load of rtr_handle_error_pdu is inside the PDU and yields the text length the size check compared.
   footer_needs_check_1/2 show the check is what keeps the store inside (without it: a write 96 bytes / 4 GiB behind the PDU). *)
Theorem C04_footer_writes_inside : forall mem,
  recv_buffer mem -> rtr_pdu_check_size_gen mem (Some 0) = Some 1 ->
  exists mem', rtr_pdu_convert_footer_byte_order_gen mem (Some 0) c_TO_HOST_HOST_BYTE_ORDER = Some mem' /\
               List.length mem' = List.length mem.
Proof. exact footer_writes_inside. Qed.

Theorem C04_footer_translated : forall mem,
  recv_buffer mem -> rtr_pdu_check_size_gen mem (Some 0) = Some 1 ->
  rtr_pdu_footer_to_host_byte_order_gen mem (Some 0) = Some (footer_host mem).
Proof. exact footer_to_host_translated. Qed.

Theorem C04_receive_path_inside : forall p,
  Forall byte_ok p -> (8 <= zlen p)%Z -> zlen p = get32 p 4 ->
  exists mem, rtr_pdu_header_to_host_byte_order_gen p (Some 0) = Some mem /\
    rtr_pdu_check_size_gen mem (Some 0) <> None /\
    (rtr_pdu_check_size_gen mem (Some 0) = Some 1 ->
     exists mem', rtr_pdu_footer_to_host_byte_order_gen mem (Some 0) = Some mem' /\
                  List.length mem' = List.length p).
Proof. exact receive_path_inside. Qed.

Theorem C04_error_text_len_load_inside : forall mem,
  recv_buffer mem -> rtr_pdu_check_size_gen mem (Some 0) = Some 1 -> mbyte mem 1 = c_ERROR ->
  let e := bswap32 (ldu mem (Some 8) 4) in
  let t := bswap32 (ldu mem (Some (12 + e)) 4) in
  exists mem', rtr_pdu_convert_footer_byte_order_gen mem (Some 0) c_TO_HOST_HOST_BYTE_ORDER = Some mem' /\
    ldu mem' (Some offsetof_pdu_error__len_enc_pdu) 4 = e /\
    rtr_handle_error_pdu__len_err_txt_gen mem' (Some 0) = Some t /\
    zlen mem = (16 + e + t)%Z /\ (0 <= e)%Z /\ (0 <= t)%Z.
Proof. exact error_text_len_load_inside. Qed.

Example C04_footer_store_needs_the_check := footer_needs_check_1.
Example C04_footer_translator_clean : memw_translator_problems = [].
Proof. exact footer_translator_clean. Qed.

(* rtr_receive_pdu itself, translated from /repo on every run (effect mode, stage 3: Gen/GeneratedFsm3.v - the local header struct and
   the receive buffer as memory objects, tr_recv_all writing into them, memcpy, the already translated header / footer conversions and
   size check reused, the six `goto error` each followed by the error block).  PARTIAL tie (Rtr/FsmTie3.v):
     proved for every world:   the two paths that end before a header has been read (socket shut down; tr_recv_all fails with a
                               negative code: the whole transport part of the error label) equal the model's receive_pdu;
     by evaluation only (a TEST of the translated code against the model inside Coq, not a theorem): 41 closed scripts covering every
                               PDU type, split delivery, the version rules, every length / size / type rejection with the Error Report
                               that goes out, every transport outcome in header and payload phase - result code, final world with its
                               trace, socket fields and, on success, all 3248 bytes of the buffer (= footer_host (header_host p)).
   Proved for every world since (Rtr/FsmTie3b.v, theorems below): everything decided by the header - length below a header, above
   the maximum, the version rules - and a transport failure while the payload is read.  Not proved for arbitrary worlds: the paths
   after a complete payload (size check rejecting, footer conversion, success).
   A difference found: a transport that returns a POSITIVE error code is taken for success by the C (recv_positive_error_code_differs);
   the mock and every real transport return negative codes. *)
Theorem C04_receive_pdu_translated_partial : forall fuel m len t w,
  (c_RTR_MAX_PDU_LEN <= len)%Z ->
  (st (sk w) = c_RTR_SHUTDOWN ->
   Rtr.FsmTie3.interp3 fuel (Gen.GeneratedFsm3.rtr_receive_pdu_gen m (Some 0%Z) len t (Rtr.FsmTie.sock_store (sk w))) [] w =
   Some (Rtr.FsmTie3.as_recv (fun _ => m) (receive_pdu t) w)) /\
  (forall c w1, (8 <= zlen m)%Z -> (0 <= st (sk w) < 2^32)%Z -> st (sk w) <> c_RTR_SHUTDOWN ->
   tr_recv_all 8 t w = Ok (inl c) w1 -> (c < 0)%Z ->
   Rtr.FsmTie3.interp3 fuel (Gen.GeneratedFsm3.rtr_receive_pdu_gen m (Some 0%Z) len t (Rtr.FsmTie.sock_store (sk w))) [] w =
   Some (Rtr.FsmTie3.as_recv (fun _ => m) (receive_pdu t) w)).
Proof.
  intros fuel m len t w Hl. split.
  - intros Hs. exact (Rtr.FsmTie3.recv_shutdown fuel m len t w Hl Hs).
  - intros c w1 Hm Hr Hn Ht Hc. exact (Rtr.FsmTie3.recv_header_fails fuel m len t w c w1 Hl Hm Hr Hn Ht Hc).
Qed.

Theorem C04_receive_header_rejections_translated : forall fuel m len t w h w1,
  (c_RTR_MAX_PDU_LEN <= len)%Z -> (8 <= zlen m)%Z -> (0 <= st (sk w) < 2^32)%Z -> st (sk w) <> c_RTR_SHUTDOWN ->
  Rtr.ExpiryFrames.Tm w -> (0 <= version (sk w) < 2^32)%Z ->
  tr_recv_all 8 t w = Ok (inr h) w1 -> Rtr.FsmTie3b.header_rejects (sk w) h = true ->
  Rtr.FsmTie3.interp3 fuel (Gen.GeneratedFsm3.rtr_receive_pdu_gen m (Some 0%Z) len t (Rtr.FsmTie.sock_store (sk w))) nil w =
  Some (Rtr.FsmTie3.as_recv (fun _ => Base.MemW.st_list m 0 h) (receive_pdu t) w).
Proof. exact Rtr.FsmTie3b.recv_header_phase. Qed.

(* stage 3c (Rtr/FsmTie3c.v): the translated size check never looks behind the bytes it needs and, on the padded receive buffer with
   the header as rtr_receive_pdu has converted it, computes the model's check_size (all types but Router Key, whose header bytes 2-3 are
   left in place by the C); the header conversion back to network order restores the received header *)
Theorem C04_check_size_on_receive_buffer : forall p junk, Forall byte_ok p -> (8 <= zlen p)%Z -> zlen p = get32 p 4 ->
  nthb p 1 <> c_ROUTER_KEY ->
  rtr_pdu_check_size_gen (header_host p ++ junk) (Some 0%Z) = Some (b2z (check_size p)).
Proof. exact Rtr.FsmTie3c.check_size_padded. Qed.

(* the evaluation part, kept in the cone of this property so that a change of rtr_receive_pdu that the scripts exercise stops the build *)
Example C04_receive_pdu_translation_tests :=
  (Rtr.FsmTie3.recv_success, Rtr.FsmTie3.recv_versions, Rtr.FsmTie3.recv_rejects, Rtr.FsmTie3.recv_transport, Rtr.FsmTie3.no_translator_problems3).

Print Assumptions C04_prefix_check_translated.
Print Assumptions C04_stored_prefix_key_ok.
Print Assumptions C04_check_size_translated.
Print Assumptions C04_check_size_reads_inside.
Print Assumptions C04_recv_contract.
Print Assumptions C04_recv_all_exact.
Print Assumptions C04_fuel_store_loop.
Print Assumptions C04_fuel_rtr_sync.
Print Assumptions C04_fuel_run.
Print Assumptions C04_progress.
Print Assumptions C04_chunking_recv_all.
Print Assumptions C04_chunking_receive_pdu.
Print Assumptions C04_chunking_sync.
Print Assumptions C04_chunking_step.
Print Assumptions C04_chunking_run.
Print Assumptions C04_accepted.
Print Assumptions C04_buffer.
Print Assumptions C04_check_size_local.
Print Assumptions C04_consumers_local.
Print Assumptions C04_receive_frame.
Print Assumptions C04_reject_length.
Print Assumptions C04_reject_size.
Print Assumptions C04_unknown_type.
Print Assumptions C04_size_per_type.
Print Assumptions C04_store_loop_fails.
Print Assumptions C04_sync_fails.
Print Assumptions C04_step_fails.
Print Assumptions C04_stored_prefix.
Print Assumptions C04_footer_writes_inside.
Print Assumptions C04_footer_translated.
Print Assumptions C04_receive_path_inside.
Print Assumptions C04_error_text_len_load_inside.
Print Assumptions C04_receive_pdu_translated_partial.
Print Assumptions C04_receive_header_rejections_translated.
Print Assumptions C04_check_size_on_receive_buffer.
