(* C16 - Concurrent readers and writers of the tables are linearizable and race-free.

   Model (Conc/RwLock.v): any number of threads, each a list of actions Acq l m / Rel l / Rd l f / Wr l g over
   named rwlocks and the objects they guard (object l = the mutable state of table l: everything reachable from
   pfx_table->ipv4/->ipv6, resp. spki_table->hashtable/->list; lock l = that table's .lock).  Accesses are always
   enabled, lock operations follow the rwlock rules; a data race is a reachable configuration in which two
   threads are both about to touch the same object, one of them writing.

   Theorems: (1) race freedom of programs that pass the one-pass check [wl]; (2) linearizability of
   one-critical-section operations: the fine-grained execution is simulated by one in which each operation runs
   atomically at the instant of its lock acquisition; (3) the instance: the check evaluated (vm_compute, closed
   term) on the lock skeletons the translator regenerates from trie-pfx.c / ht-spkitable.c on every run.

   Trusted: pthread rwlocks implement the rules of [tstep]; race-free executions are sequentially consistent on
   the hardware; tools/c2v.py's skeleton extractor and its R/W classification table (HELPER_RW, SHARED_FIELDS).  *)
From Coq Require Import List Bool String.
Import ListNotations.
From RtrV Require Import Conc.RwLock Gen.LockSkeletons Conc.LockCheck Conc.ConcProofs Conc.Sections.
Local Open Scope list_scope.

Section Generic.
Variable K : Type.
Variable Keqb : K -> K -> bool.
Hypothesis Keqb_spec : forall a b, Keqb a b = true <-> a = b.
Variables (St L : Type).

(* (1) any number of threads, any programs of any length: if every thread starts holding nothing and its
   program passes the one-pass check, no reachable configuration has a data race ... *)
Theorem C16_race_free : forall (s0 : store K St) (ts0 : pool K St L) s ts,
  (forall t, In t ts0 -> holds t = [] /\ wl Keqb [] (todo t) = true) ->
  steps Keqb (s0, ts0) (s, ts) -> ~ race ts.
Proof. exact (rw_race_free K Keqb Keqb_spec St L). Qed.

(* ... said positively: every pending read is made under the object's lock (either mode), every pending write
   under its write lock, and a write lock excludes every other holder *)
Theorem C16_protected : forall (s0 : store K St) (ts0 : pool K St L) s ts,
  (forall t, In t ts0 -> holds t = [] /\ wl Keqb [] (todo t) = true) ->
  steps Keqb (s0, ts0) (s, ts) ->
  (forall t, In t ts -> protected Keqb t) /\ excl Keqb ts.
Proof. exact (rw_protected K Keqb Keqb_spec St L). Qed.

(* the check is not stricter than necessary on reads: one unlocked read next to a correct writer IS a race *)
Theorem C16_unlocked_read_races : forall (s : store K St) l f g (lc lc' : L) rest,
  exists s' ts', step Keqb (s, [mkT (RwLock.Rd l f :: rest) [] lc; mkT [Acq l Wm; RwLock.Wr l g; RwLock.Rel l] [] lc']) (s', ts') /\ race ts'.
Proof. exact (unlocked_read_races K Keqb St L). Qed.

(* (2) linearizability.  Threads run lists of operations; an operation = one critical section on one lock whose
   body reads (and, under the write lock, writes) the object guarded by that lock: [compile].  [seq_op] is the
   sequential function of an operation.  In the atomic semantics [astep] a whole operation is one step.

   Step-wise: a fine-grained step that acquires a lock is matched by exactly the atomic step of that operation -
   the operation takes effect at that instant, between its call and its return - every other step by none.   *)
Theorem C16_atomic_step : forall (c : store K St * pool K St L) ca c',
  simrel K Keqb St L c ca -> step Keqb c c' ->
  exists ca', simrel K Keqb St L c' ca' /\
    ((exists pre t t' post l m rest, snd c = pre ++ t :: post /\ snd c' = pre ++ t' :: post /\
                                     todo t = Acq l m :: rest /\ astep Keqb ca ca')
     \/ ca' = ca).
Proof. exact (sim_step K Keqb Keqb_spec St L). Qed.

(* Whole executions: every reachable fine-grained configuration is related to a configuration reached by running
   the same operations atomically, in lock-acquisition order ... *)
Theorem C16_atomic : forall (s0 : store K St) (ats0 : list (athread K St L)) c,
  Forall (fun a => forallb op_ok (fst a) = true) ats0 ->
  steps Keqb (s0, ainit K St L ats0) c ->
  exists ca, asteps Keqb (s0, ats0) ca /\ simrel K Keqb St L c ca.
Proof. exact (rw_atomic K Keqb Keqb_spec St L). Qed.

(* ... where "related" means: a thread between two operations has exactly the results (local memory) and the
   remaining operations of its atomic counterpart; a thread inside a section has the results its atomic counterpart
   already has once it has run the rest of its section; an object nobody holds for writing has the same state. *)
Theorem C16_atomic_meaning : forall (c : store K St * pool K St L) ca, simrel K Keqb St L c ca ->
  Forall2 (fun t a =>
             (holds t = [] -> todo t = compile_all (fst a) /\ loc t = snd a) /\
             (forall l m, holds t = [(l, m)] -> exists rem,
                 todo t = map (bact_act l) rem ++ RwLock.Rel l :: compile_all (fst a) /\
                 snd a = fst (run_body rem (loc t, fst c l)) /\
                 (m = Wm -> fst ca l = snd (run_body rem (loc t, fst c l)))))
          (snd c) (snd ca) /\
  (forall l, no_writer Keqb l (snd c) -> fst c l = fst ca l).
Proof. exact (simrel_meaning K Keqb St L). Qed.
End Generic.

(* the sequential functions the linearizability theorem speaks about are, for the prefix table, those of C01 / C02
   (Pfx/PfxTable.v: tvalidate, tadd, tremove): a call of pfx_table_validate_r / _add / _remove as an operation on
   table l is well formed, and run alone it appends [call_result] and applies [call_effect] *)
Theorem C16_pfx_calls : forall (K : Type) (Keqb : K -> K -> bool) l (c : pfx_call) lc (s : store K PfxTable.table),
  op_ok (call_op K l c) = true /\
  seq_op Keqb (call_op K l c) lc s = (lc ++ [call_result c (s l)], upd Keqb s l (call_effect c (s l))) /\
  (forall v6 asn q qlen, call_result (CValidate v6 asn q qlen) = (fun T => RValidated (PfxTable.tvalidate T v6 asn q qlen))) /\
  (forall r, call_effect (CAdd r) = (fun T => fst (fst (PfxTable.tadd T r)))) /\
  (forall r, call_effect (CRemove r) = (fun T => fst (fst (PfxTable.tremove T r)))).
Proof. exact pfx_calls_spec. Qed.

(* (3) the instance.  [lock_skeletons] / [lock_programs] are the translator's output for every non-static function
   of trie-pfx.c and ht-spkitable.c (table names = C parameter names).  Lifecycle functions (they call
   pthread_rwlock_init / _destroy, so their caller must own the table exclusively) are only required to balance
   their lock operations.                                                                                   *)

(* the translator met nothing outside its subset, and listing long functions statement by statement is faithful *)
Theorem C16_translation_complete : skeleton_problems = [] /\ segments_faithful = true.
Proof. exact instance_translation. Qed.

Theorem C16_lifecycle_balanced : lifecycle_check = true.
Proof. exact instance_lifecycle. Qed.

(* the full statement: every path (loops 0 and 1 times) of every non-lifecycle function is well locked, and
   every structured program passes the check that covers all iteration counts *)
Definition C16_full : Prop := paths_check (fun _ => no_tol) = true /\ progs_check (fun _ => no_tol) = true.

(* On the current tree C16_full is FALSE (a genuine defect, see [known_unlocked_reads]): pfx_table_for_each_ipv4_record /
   _ipv6_record test the root pointer before taking the lock (so do their callers pfx_table_copy_except_socket and
   pfx_table_notify_diff), and spki_table_notify_diff walks both lists with no lock at all.  The theorem below is
   stated so that it checks on both sides of the fix; tools/props/C16.py evaluates which side holds on this run
   (and, when the check is true, proves [C16_instance : C16_full] on the spot).                                *)
Theorem C16_instance_decided :
  if paths_check (fun _ => no_tol) && progs_check (fun _ => no_tol) then C16_full else ~ C16_full.
Proof. exact instance_decided. Qed.

(* what holds regardless: everything is well locked except exactly the unlocked READS named in the finding *)
Theorem C16_instance_outside_known : paths_check known_tol = true /\ progs_check known_tol = true.
Proof. exact instance_outside_known. Qed.

(* consequences, for programs over any set of tables.  [admitted f]: f is neither a lifecycle function nor
   named in the finding.  A thread that performs any sequence of calls of admitted functions (each call follows
   one of the listed paths, its parameter names bound to distinct tables) is checked, hence race-free ... *)
Theorem C16_admitted_is : forall f, admitted f = negb (is_lifecycle f) && negb (in_names f (map fst known_unlocked_reads)).
Proof. reflexivity. Qed.

Theorem C16_instance_race_free : forall (K : Type) (Keqb : K -> K -> bool), (forall a b, Keqb a b = true <-> a = b) ->
  forall (St L : Type) (s0 : store K St) (ts0 : pool K St L) s ts,
  (forall t, In t ts0 -> holds t = [] /\ from_paths K St L admitted (todo t)) ->
  steps Keqb (s0, ts0) (s, ts) -> ~ race ts.
Proof. exact instance_race_free. Qed.

(* ... and the structured check extends this from the listed paths to every path with any number of loop
   iterations of every admitted function *)
Theorem C16_instance_all_iterations : forall f p t o,
  In (f, p) lock_programs -> admitted f = true -> exec p t o -> o <> OBrk -> well_locked t = true.
Proof. exact instance_all_iterations. Qed.

(* every single table operation is what rw_atomic needs: one critical section per table and call
   (remove-by-source: one per address family; swap: one on each of the two tables).  Computed on the
   regenerated skeletons; an operation that releases and re-takes the lock in mid-update breaks this. *)
Theorem C16_one_section_per_operation : section_table = expected_sections.
Proof. exact sections_as_expected. Qed.

Theorem C16_helpers_lock_free : helpers_lock_free = true /\ 8 <= List.length helper_lock_calls.
Proof. exact helpers_are_lock_free. Qed.

Theorem C16_readers_store_nothing : readers_store_nothing = true /\ 12 <= List.length reader_helper_stores.
Proof. exact readers_are_readers. Qed.

Print Assumptions C16_readers_store_nothing.
Print Assumptions C16_one_section_per_operation.
Print Assumptions C16_helpers_lock_free.
Print Assumptions C16_race_free.
Print Assumptions C16_protected.
Print Assumptions C16_unlocked_read_races.
Print Assumptions C16_atomic_step.
Print Assumptions C16_atomic.
Print Assumptions C16_atomic_meaning.
Print Assumptions C16_pfx_calls.
Print Assumptions C16_translation_complete.
Print Assumptions C16_lifecycle_balanced.
Print Assumptions C16_instance_decided.
Print Assumptions C16_instance_outside_known.
Print Assumptions C16_instance_race_free.
Print Assumptions C16_instance_all_iterations.
