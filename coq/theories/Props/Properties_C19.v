(* C19 - Address text conversion round-trips and agrees with the platform parser.

   Models (written after the C, statement by statement; tied to /repo on every run by
   harness/iptext.c vs the extracted model):
     Ip/Ipv4Text.v : ipv4_text / ipv4_to_str  = lrtr_ipv4_addr_to_str  (snprintf "%hhu.%hhu.%hhu.%hhu")
                     str_to_ipv4              = lrtr_ipv4_str_to_addr  (sscanf "%3hhu.%3hhu.%3hhu.%3hhu")
     Ip/Ipv6Text.v : ipv6_text / ipv6_to_str  = lrtr_ipv6_addr_to_str
                     str_to_ipv6              = lrtr_ipv6_str_to_addr as it is in /repo; the local
                                                array words[8] is a list of OPTIONAL words, None = never
                                                assigned (indeterminate stack contents in C)
                     str_to_ipv6_fixed        = the same with the proposed repair
                     str_to_ip, str_to_ip_fixed = lrtr_ip_str_to_addr (family chosen by strchr(':'))
   Stand-in for the platform's inet_pton: Ip/Grammar.v ([denotes4]/[denotes6]: dotted quad and the
   RFC 4291 2.2 forms; [ref_pton4]/[ref_pton6]: executable, compared with the real inet_pton on every run).
   Characters are byte values (N); addresses are a 32-bit number resp. eight 16-bit words.       *)
From Coq Require Import NArith ZArith List Bool.
From RtrV Require Import Ip.Ipv4Text Ip.Ipv6Text Ip.Grammar Ip.IpProofs4 Ip.IpProofsG
                         Ip.IpProofs6Parse Ip.IpProofs6Accept Ip.IpProofs6Print.
Import ListNotations.

(* ---- round trip, every address ------------------------------------------------------------ *)
Theorem C19_rt4 : forall a : N, (a < 2 ^ 32)%N -> str_to_ipv4 (ipv4_text a) = Some a.
Proof. exact rt4. Qed.

(* holds for the code as it is (strict = false) and with the repair (strict = true) *)
Theorem C19_rt6 : forall (strict : bool) (ws : list N),
  length ws = 8%nat -> Forall (fun w => (w < 65536)%N) ws ->
  exists t, ipv6_text ws = Some t /\ str_to_ipv6_gen strict t = POk (map Some ws).
Proof. exact rt6. Qed.

(* ---- the text produced is in the grammar and denotes the address printed ------------------- *)
Theorem C19_out_in_grammar4 : forall a : N, (a < 2 ^ 32)%N -> denotes4 (ipv4_text a) a.
Proof. exact out_in_grammar4. Qed.

Theorem C19_out_in_grammar6 : forall ws : list N,
  length ws = 8%nat -> Forall (fun w => (w < 65536)%N) ws ->
  exists t, ipv6_text ws = Some t /\ denotes6 t ws.
Proof. exact out_in_grammar6. Qed.

(* ---- every text of the grammar is accepted by the library, same address -------------------- *)
Theorem C19_accepts : forall (strict : bool) (s : list N) (a : addr), denotes s a ->
  str_to_ip_gen strict s = match a with A4 x => IV4 x | A6 ws => IV6 (map Some ws) end.
Proof. exact accepts. Qed.

(* the executable reference parsers, which the check compares with inet_pton, are sound for
   the grammar: inet_pton accepts (tested) => ref_pton accepts => denotes => the library accepts *)
Theorem C19_ref_sound : forall s : list N,
  (forall a, ref_pton4 s = Some a -> denotes4 s a) /\
  (forall ws, ref_pton6 s = Some ws -> denotes6 s ws).
Proof. intros s. split; [exact (ref_pton4_sound s)|exact (ref_pton6_sound s)]. Qed.

(* ---- the result depends only on the text --------------------------------------------------- *)
(* full clause: whenever the IPv6 parser returns 0, all eight words were assigned *)
Definition C19_full : Prop :=
  forall (s : list N) (ws : words), str_to_ipv6 s = POk ws -> fully_written ws.

(* FALSE for /repo as it is: "1:2:3" returns 0 with words[3..7] never assigned *)
Theorem C19_refuted : ~ C19_full.
Proof. exact det_refuted. Qed.

(* the part that holds: a text containing "::" that is accepted gives eight assigned words *)
Theorem C19_deterministic_outside_known : forall (s : list N) (ws : words),
  find_dcolon s <> None -> str_to_ipv6 s = POk ws -> fully_written ws.
Proof. exact deterministic_with_dcolon. Qed.

(* exactly which results are incomplete: no "::" in the text and fewer than eight words
   given; the words given are assigned, the others are not *)
Theorem C19_unwritten_exactly : forall (s : list N) (ws : words), str_to_ipv6 s = POk ws ->
  fully_written ws \/
  (find_dcolon s = None /\ exists vs, (length vs < 8)%nat /\ ws = wr vs).
Proof. exact unwritten_exactly. Qed.

(* with the repair (reject when no "::" was seen and fewer than 8 words were read) the clause
   holds in full, and nothing else changes *)
Theorem C19_deterministic_fixed : forall (s : list N) (ws : words),
  str_to_ipv6_fixed s = POk ws -> fully_written ws.
Proof. exact deterministic_fixed. Qed.

Theorem C19_fixed_agrees : forall s : list N,
  str_to_ipv6_fixed s =
  match str_to_ipv6 s with
  | POk ws => if all_written ws then POk ws else PErr
  | r => r
  end.
Proof. exact fixed_agrees. Qed.

(* the model never indexes outside words[0..7] and never runs out of fuel *)
Theorem C19_never_stuck : forall (strict : bool) (s : list N), str_to_ipv6_gen strict s <> PStuck.
Proof. exact never_stuck. Qed.

(* ---- buffer length ------------------------------------------------------------------------- *)
(* IPv4: never more than len bytes stored; with INET_ADDRSTRLEN (16) bytes the whole text + NUL *)
Theorem C19_bounds4 : forall a len : N,
  (N.of_nat (length (snd (ipv4_to_str a len))) <= len)%N /\
  ((16 <= len)%N -> ipv4_to_str a len = (0%Z, ipv4_text a ++ [0%N])).
Proof. exact bounds4. Qed.

(* IPv4 with the proposed repair of the silent truncation: success = the complete text *)
Theorem C19_bounds4_fixed : forall a len : N,
  (N.of_nat (length (snd (ipv4_to_str_fixed a len))) <= len)%N /\
  (fst (ipv4_to_str_fixed a len) = 0%Z -> snd (ipv4_to_str_fixed a len) = ipv4_text a ++ [0%N]) /\
  ((16 <= len)%N -> ipv4_to_str_fixed a len = (0%Z, ipv4_text a ++ [0%N])).
Proof. exact bounds4_fixed. Qed.

(* IPv6: below INET6_ADDRSTRLEN (46) the call fails and stores nothing; otherwise text + NUL, <= len *)
Theorem C19_bounds6 : forall (ws : list N) (len : N),
  length ws = 8%nat -> Forall (fun w => (w < 65536)%N) ws ->
  exists rc out, ipv6_to_str ws len = Some (rc, out) /\
    (N.of_nat (length out) <= len)%N /\
    ((len < 46)%N -> rc = (-1)%Z /\ out = []) /\
    ((46 <= len)%N -> rc = 0%Z /\ exists t, ipv6_text ws = Some t /\ out = t ++ [0%N]).
Proof. exact bounds6. Qed.

Print Assumptions C19_rt4.
Print Assumptions C19_rt6.
Print Assumptions C19_out_in_grammar4.
Print Assumptions C19_out_in_grammar6.
Print Assumptions C19_accepts.
Print Assumptions C19_ref_sound.
Print Assumptions C19_refuted.
Print Assumptions C19_deterministic_outside_known.
Print Assumptions C19_unwritten_exactly.
Print Assumptions C19_deterministic_fixed.
Print Assumptions C19_fixed_agrees.
Print Assumptions C19_never_stuck.
Print Assumptions C19_bounds4.
Print Assumptions C19_bounds4_fixed.
Print Assumptions C19_bounds6.
