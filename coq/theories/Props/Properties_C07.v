(* C07 - Data that can no longer be refreshed expires; stopping a socket removes its data.

   Model: Rtr/RtrModel.v (the state machine of rtr_fsm_start, rtr_sync, rtr_purge_outdated_records, rtr_stop
   against a scripted environment; tied to /repo by the trace correspondence of tools/props/C07.py).
   Vocabulary (Rtr/ExpirySync.v, Rtr/ExpiryProofs.v, Rtr/ExpiryFrames.v, Rtr/SyncSets.v):
     own_p / own_k X        the records of X learned from this socket (source 1); oth_p / oth_k the others
     no_data w              own_p (pfx w) = [] /\ own_k (keys w) = []
     byte_ok / ev_ok        the scripted environment delivers bytes (0..255) and never waits a negative time
     Tm w                   env ok, 0 <= retry_iv, 0 < now, 0 <= last_update <= now,
                            last_update = 0 -> req_sess = true, req_sess = false -> resetting = false
     Inv w                  Tm w /\ NoDup (pfx w) /\ NoDup (keys w) /\ (last_update (sk w) = 0 -> no_data w)
                            i.e. "records of source 1 non-empty -> last_update <> 0", and last_update <= now
     expired w              last_update <> 0 and last_update + expire_iv < now   (the code's test, strict)
     purged w / stopped w   the world after the purge / after rtr_stop, written out
     at_open w              the world in which tr_open is called by the CONNECTING state
     removal_callbacks w    one removal callback per record of source 1 (prefixes, then router keys)
     run_ghost              run_fsm with a ghost: the time of the last SYNC -> ESTABLISHED transition since the
                            last stop (history), to which the code's own last_update is compared (tracks)      *)
From Coq Require Import Permutation.
From RtrV Require Gen.GeneratedFsm Rtr.FsmTie Rtr.ExpiryProofs Gen.GeneratedFsm2 Rtr.FsmTie2 Rtr.FsmRun.
From RtrV Require Import Base.CSem Gen.Generated Rtr.RtrModel Rtr.SyncSets Rtr.ExpiryFrames Rtr.ExpirySync
  Rtr.ConvergeStutter Rtr.ExpiryProofs.
Local Open Scope Z_scope.

(* the invariant holds initially (rtr_init, no record of source 1 yet) ... *)
Theorem C07_initial : forall refresh expire retry mode P K0 es os ss o,
  0 <= retry -> Forall ev_ok es -> NoDup P -> NoDup K0 -> own_p P = [] -> own_k K0 = [] ->
  Inv (start_world refresh expire retry mode P K0 es os ss o).
Proof. exact Inv_start. Qed.

(* ... and in every world the state machine reaches, whatever the environment does (any number of iterations,
   including the final world of a run that ended because a script was exhausted, and across stop / start) *)
Theorem C07_invariant : forall n fuel w, Inv w -> Inv (run_fsm n fuel w).
Proof. exact run_fsm_Inv. Qed.

(* (1) what one iteration does to last_update: set to the clock by a successful rtr_sync (exactly the iterations
   that go from SYNC to ESTABLISHED), zeroed by the expiry check (never in SYNC), otherwise unchanged *)
Theorem C07_last_update_step : forall fuel w, Inv w -> live w ->
  match fsm_step fuel w with
  | Ok _ w' =>
      (st (sk w) = c_RTR_SYNC /\ st (sk w') = c_RTR_ESTABLISHED /\ last_update (sk w') = now w' /\ req_sess (sk w') = false) \/
      (~ (st (sk w) = c_RTR_SYNC /\ st (sk w') = c_RTR_ESTABLISHED) /\ last_update (sk w') = last_update (sk w)) \/
      (st (sk w) <> c_RTR_SYNC /\ last_update (sk w') = 0 /\ last_update (sk w) <> 0)
  | Exc _ w' =>
      last_update (sk w') = last_update (sk w) \/
      (st (sk w) <> c_RTR_SYNC /\ last_update (sk w') = 0 /\ last_update (sk w) <> 0)
  end.
Proof. exact fsm_step_tracks. Qed.

(* the bookkeeping tracks the history: in every reachable world last_update is the time of the last successful
   synchronisation since the last stop, or it is 0 - and then (Inv) the socket holds no record and requests a session *)
Theorem C07_last_update_tracks : forall n fuel w g, Inv w -> live w ->
  (last_update (sk w) = g \/ last_update (sk w) = 0) ->
  let '(w', g') := run_ghost n fuel w g in
  Inv w' /\ (last_update (sk w') = g' \/ last_update (sk w') = 0).
Proof. exact run_tracks. Qed.

Theorem C07_ghost_is_a_ghost : forall n fuel w g, fst (run_ghost n fuel w g) = run_fsm n fuel w.
Proof. exact run_ghost_fst. Qed.

(* (2) the expiry check of the CONNECTING state, before the transport is opened *)
Theorem C07_expire : forall fuel w, st (sk w) = c_RTR_CONNECTING ->
  fsm_step fuel w = connect_rest (at_open w) /\
  (expired w = true ->
     no_data (at_open w) /\ req_sess (sk (at_open w)) = true /\ serial (sk (at_open w)) = 0 /\
     last_update (sk (at_open w)) = 0 /\
     pfx (at_open w) = oth_p (pfx w) /\ keys (at_open w) = oth_k (keys w) /\
     out (at_open w) = rev (removal_callbacks w) ++ out w) /\
  (expired w = false -> pfx (at_open w) = pfx w /\ keys (at_open w) = keys w /\ out (at_open w) = out w /\
                        req_sess (sk (at_open w)) = req_sess (sk w)).
Proof. exact expire_at_connect. Qed.

Theorem C07_expiry_boundary : forall w,
  expired w = true <-> last_update (sk w) <> 0 /\ now w - last_update (sk w) > expire_iv (sk w).
Proof. exact expired_iff. Qed.

(* the property as stated, over history: whenever the client (re)connects and more than the expire interval has
   passed since the last successful synchronisation (g; 0 = none since the last stop), then when the transport is
   opened no record of this socket is left and a session is requested ... *)
Theorem C07_expire_history : forall w g, Inv w -> (last_update (sk w) = g \/ last_update (sk w) = 0) ->
  (g = 0 \/ now w - g > expire_iv (sk w)) ->
  no_data (at_open w) /\ req_sess (sk (at_open w)) = true.
Proof. exact expire_history. Qed.

(* ... so that the conversation restarts with a Reset Query *)
Theorem C07_restart_reset_query :
  (forall w r, opens w = true :: r -> req_sess (sk w) = true -> st (sk w) = c_RTR_CONNECTING ->
     exists w', connect_rest w = Ok tt w' /\ st (sk w') = c_RTR_RESET /\
                out w' = TState c_RTR_RESET :: TOpen true (now w) :: out w /\ sends w' = sends w) /\
  (forall fuel w, st (sk w) = c_RTR_RESET -> sends w = [] ->
     exists w', fsm_step fuel w = Ok tt w' /\ st (sk w') = c_RTR_SYNC /\
                out w' = TState c_RTR_SYNC :: TSend ([version (sk w) mod 256; c_RESET_QUERY] ++ enc16 0 ++ enc32 8) :: out w).
Proof. split; [exact connect_rest_reset|exact reset_sends_reset_query]. Qed.

(* (3) stopping a socket *)
Theorem C07_stop : forall w,
  rtr_stop w = Ok tt (stopped w) /\
  no_data (stopped w) /\ req_sess (sk (stopped w)) = true /\ serial (sk (stopped w)) = 0 /\
  last_update (sk (stopped w)) = 0 /\ st (sk (stopped w)) = c_RTR_CLOSED /\
  pfx (stopped w) = oth_p (pfx w) /\ keys (stopped w) = oth_k (keys w) /\
  (exists pre, out (stopped w) = rev (removal_callbacks w) ++ pre ++ out w /\
               Forall (fun t => match t with TPfx _ _ | TKey _ _ => False | _ => True end) pre).
Proof. exact stop_purges. Qed.

(* (4) records learned from other sockets are untouched by the purge and by the stop *)
Theorem C07_others : forall w,
  oth_p (pfx (purged w)) = oth_p (pfx w) /\ oth_k (keys (purged w)) = oth_k (keys w) /\
  oth_p (pfx (stopped w)) = oth_p (pfx w) /\ oth_k (keys (stopped w)) = oth_k (keys w) /\
  pfx (purged w) = oth_p (pfx w) /\ keys (purged w) = oth_k (keys w).
Proof. exact others_untouched. Qed.

(* (5) reloads interrupted half-way: a synchronisation that does not succeed - in reset mode or not, failing or
   interrupted at any PDU - leaves last_update as it was (the repair of d3720d6), so (2) still fires *)
Theorem C07_failed_sync_keeps_timestamp : forall fuel w, Inv w ->
  match rtr_sync fuel w with
  | Ok r w' => r <> 0 -> last_update (sk w') = last_update (sk w) /\ Inv w'
  | Exc _ w' => last_update (sk w') = last_update (sk w) /\ Inv w'
  end.
Proof. exact failed_sync_keeps_timestamp. Qed.

Theorem C07_interrupted_reload_example :
  Inv ex_w0 /\ live ex_w0 /\
  let w3 := run_fsm 3 100 ex_w0 in
  let w8 := run_fsm 8 100 ex_w0 in
  let w21 := run_fsm 21 100 ex_w0 in
  let w22 := run_fsm 22 100 ex_w0 in
  (st (sk w3) = c_RTR_ESTABLISHED /\ last_update (sk w3) = 1000 /\ List.length (own_p (pfx w3)) = 1%nat) /\
  (st (sk w8) = c_RTR_ERROR_TRANSPORT /\ last_update (sk w8) = 1000 /\ pfx w8 = pfx w3 /\ req_sess (sk w8) = true) /\
  (st (sk w21) = c_RTR_CONNECTING /\ now w21 = 8261 /\ expired w21 = true /\ pfx w21 = pfx w3) /\
  (pfx w22 = [] /\ last_update (sk w22) = 0 /\ req_sess (sk w22) = true /\ serial (sk w22) = 0).
Proof. split; [apply ex_w0_Inv|]. split; [apply ex_w0_Inv|exact interrupted_reload_still_expires]. Qed.

(* Tie (a) for the control skeleton of the state machine.  rtr_purge_outdated_records, rtr_wait_for_sync and ONE ITERATION of the
   while (1) loop of rtr_fsm_start are translated from /repo on every run into an effect tree (Gen/GeneratedFsm.v, Base/Eff.v: ERet,
   ECall f args socket-fields continuation, EUndef; C integer semantics explicit: time_t is 64-bit signed, signed overflow is EUndef;
   calls to rtr_purge_outdated_records / rtr_wait_for_sync from the loop body are inlined).  Rtr/FsmTie.v interprets the calls by the
   model's functions (tr_open, tr_close, rtr_change_socket_state, rtr_send_*_query, rtr_sync, rtr_receive_pdu, the two *_src_remove,
   lrtr_get_monotonic_time = the model's clock (it cannot fail there), sleep, pthread_exit), the socket's fields written into the world
   before each call and read back after it, and proves: the translated code IS the hand-written model, in every state.
   Side conditions = the C types: fields in their ranges, time stamps far from the end of time_t (c_range; implied by the model's own
   invariant Tm plus upper bounds, Tm_c_range).  RTR_SHUTDOWN: the C calls pthread_exit where fsm_step does nothing; run_fsm cannot tell
   (FsmTie.step_shutdown, run_fsm_shutdown).  purge_is_64_bit: with last_update + expire_interval >= 2^32 the translated purge keeps the
   data - a 32-bit sum would not (the seeded change C05-r4 breaks purge_tie). *)
Theorem C07_purge_translated : forall fuel w, Rtr.FsmTie.purge_range (sk w) ->
  Rtr.FsmTie.run_eff fuel (Gen.GeneratedFsm.rtr_purge_outdated_records_gen (Rtr.FsmTie.sock_store (sk w))) w =
  Some (Rtr.FsmTie.res_const (purge_outdated w) 0).
Proof. exact Rtr.FsmTie.purge_tie_world. Qed.

Theorem C07_fsm_step_translated : forall fuel w, Rtr.FsmTie.c_range w -> st (sk w) <> c_RTR_SHUTDOWN ->
  Rtr.FsmTie.run_eff fuel (Gen.GeneratedFsm.rtr_fsm_start__iter_gen (Rtr.FsmTie.sock_store (sk w))) w =
  Some (Rtr.FsmTie.res_const (fsm_step fuel w) 0).
Proof. intros fuel w HC Hn. apply Rtr.FsmTie.fsm_step_tie_world; [apply Rtr.FsmTie.c_range_step, HC|exact Hn]. Qed.

(* ... and iterated: the translated loop, run n times, is the model's run_fsm n, for every run in which the fields stay in their C
   ranges and no stop event arrives (Rtr/FsmRun.v; a stop makes run_fsm call rtr_stop, which has its own tie below) *)
Theorem C07_run_translated : forall n fuel w, Rtr.FsmRun.ranges_ok n fuel w ->
  Rtr.FsmTie.run_c n fuel w = Some (run_fsm n fuel w).
Proof. exact Rtr.FsmRun.run_c_tie. Qed.

Example C07_fsm_translation_examples :
  Gen.GeneratedFsm.fsm_translator_problems = [] /\ Rtr.FsmTie.c_range Rtr.ExpiryProofs.ex_w0 /\
  Rtr.FsmTie.run_c 6 100 Rtr.ExpiryProofs.ex_w0 = Some (run_fsm 6 100 Rtr.ExpiryProofs.ex_w0).
Proof. split; [exact Rtr.FsmTie.no_translator_problems|]. split; [exact (proj1 Rtr.FsmTie.ex_w0_ranges)|exact Rtr.FsmTie.run_c_ex_w0]. Qed.

(* rtr_stop translated (Gen/GeneratedFsm2.v) = the model's rtr_stop after its harness trace item (Rtr/FsmTie2.v rtr_stop_split), for a
   started socket (thread_id <> 0; a never-started socket only changes state in the C: stop_tie_not_started) *)
Theorem C07_stop_translated : forall fuel tid w, tid <> 0%Z ->
  Rtr.FsmTie2.run_eff2 fuel (Gen.GeneratedFsm2.rtr_stop_gen (Rtr.FsmTie2.sock_store_t tid (sk w))) w =
  Some (match Rtr.FsmTie2.rtr_stop_body w with Ok _ w' => Ok 0%Z w' | Exc x w' => Exc x w' end).
Proof. exact Rtr.FsmTie2.stop_tie_world. Qed.

Print Assumptions C07_initial.
Print Assumptions C07_invariant.
Print Assumptions C07_last_update_step.
Print Assumptions C07_last_update_tracks.
Print Assumptions C07_ghost_is_a_ghost.
Print Assumptions C07_expire.
Print Assumptions C07_expiry_boundary.
Print Assumptions C07_expire_history.
Print Assumptions C07_restart_reset_query.
Print Assumptions C07_stop.
Print Assumptions C07_others.
Print Assumptions C07_failed_sync_keeps_timestamp.
Print Assumptions C07_interrupted_reload_example.
Print Assumptions C07_purge_translated.
Print Assumptions C07_fsm_step_translated.
Print Assumptions C07_stop_translated.
Print Assumptions C07_run_translated.
