(* C11 - A BGPsec path is VALID only if every hop's signature verifies under its AS's key.

   Spec   : Bgpsec/DigestSpec.v   RFC 8205 4.2/5.2 octet sequences by recursion on the segment
                                  lists ([digest_for_hop]) and what VALID means ([path_valid]).
   Model  : Bgpsec/Align.v        stream, req_stream_size, align_byte_sequence, the offset
                                  arithmetic of the validation loop, with the C's integer widths;
            Bgpsec/Validate.v     rtr_bgpsec_validate_as_path, check_router_keys,
                                  validate_signature, spki_table_search_by_ski.
   SHA-256, d2i_EC_PUBKEY/EC_KEY_check_key and ECDSA_verify are universally quantified
   functions (sha256, load_pub, ecdsa_verify), never axioms.  [None] = undefined behaviour.

   FINDING (open): the full property [C11_full] is false for the code as it is: router keys are
   looked up by SKI only, so a key registered for another AS is accepted ([C11_refuted]; the
   witness is replayed on the real library with real P-256 keys by tools/props/C11.py).
   Proved instead: [C11_decision] (same statement with "some key with that SKI", any AS) and
   [C11_outside_known] (the full statement wherever no key with a segment's SKI is registered
   under a different AS).                                                                    *)
From RtrV Require Import Base.CSem Bgpsec.DigestSpec Bgpsec.Align Bgpsec.Validate
     Bgpsec.Toy Bgpsec.DigestProofs Bgpsec.AlignProofs Bgpsec.ValidateProofs Bgpsec.DecisionProofs.
Local Open Scope Z_scope.
Local Notation length := List.length (only parsing).

(* Size.  [total_bytes] is the number of octets of the RFC sequence, computed without C arithmetic.
   If it fits the stream's uint16_t size, req_stream_size (unsigned int / uint8_t arithmetic)
   equals it, the allocation is exact and every byte of it is written.  If it does not fit
   (possible only through the API: one Signature Segment with sig_len near 65535), init_stream's
   uint16_t parameter truncates the allocation and align_byte_sequence copies past its end: the
   model's answer is [None]. *)
Theorem C11_size : forall d : bgpsec_c,
  wf_data d -> counts_ok d -> b_sigs d <> [] -> (length (tl (b_sigs d)) <= length (b_path d))%nat ->
  (total_bytes d VALIDATION < 65536 ->
   exists s, aligned_stream d VALIDATION = Some s /\ st_size s = req_stream_size d VALIDATION /\
             req_stream_size d VALIDATION = total_bytes d VALIDATION /\
             Z.of_nat (length (st_buf s)) = st_size s) /\
  (65536 <= total_bytes d VALIDATION < 2147483648 -> aligned_stream d VALIDATION = None).
Proof. intros d Wf Hc Hne Hl. exact (stream_size d VALIDATION Wf Hc (fun _ => Hne) Hl). Qed.

(* Layout.  For a path of any length and every hop k, the bytes that the k-th iteration of the
   validation loop hashes (read_stream_at at the offset accumulated from next_offset) are the
   RFC 8205 octet sequence for hop k. *)
Theorem C11_layout : forall d : bgpsec_c,
  wf_data d -> counts_ok d -> length (b_path d) = length (b_sigs d) -> b_sigs d <> [] ->
  total_bytes d VALIDATION < 65536 ->
  exists hs, hashed_for_validation d = Some hs /\ length hs = length (b_sigs d) /\
             forall k, (k < length (b_sigs d))%nat ->
                       exists m, nth_error hs k = Some (Some m) /\
                                 digest_for_hop k (to_update d) = Some m.
Proof. exact validation_layout. Qed.

(* Injectivity.  For a fixed hop count the RFC encoding determines every signed field: target AS,
   every pCount, flags and AS number, every later SKI and signature, algorithm, AFI, SAFI, NLRI. *)
Theorem C11_inj : forall (u u' : update) (m : list Z),
  length (u_secs u) = length (u_secs u') -> wf_update u -> wf_update u' ->
  digest_for_hop 0 u = Some m -> digest_for_hop 0 u' = Some m ->
  u_target u = u_target u' /\ u_secs u = u_secs u' /\ tl (u_sigs u) = tl (u_sigs u') /\
  u_alg u = u_alg u' /\ u_afi u = u_afi u' /\ u_safi u = u_safi u' /\ u_nlri u = u_nlri u'.
Proof. exact digest0_inj. Qed.

(* ... and for every hop k: the segments from k on, the signatures after k, the AS it was sent to *)
Theorem C11_inj_hop : forall (k : nat) (u u' : update) (m : list Z),
  length (u_secs u) = length (u_secs u') -> wf_update u -> wf_update u' ->
  digest_for_hop k u = Some m -> digest_for_hop k u' = Some m ->
  skipn k (u_secs u) = skipn k (u_secs u') /\ skipn (S k) (u_sigs u) = skipn (S k) (u_sigs u') /\
  u_alg u = u_alg u' /\ u_afi u = u_afi u' /\ u_safi u = u_safi u' /\ u_nlri u = u_nlri u' /\
  match k with
  | O => u_target u = u_target u'
  | S j => option_map sp_asn (nth_error (u_secs u) j) = option_map sp_asn (nth_error (u_secs u') j)
  end.
Proof.
  intros k u u' m Hl (Ht & Ws & Wg & _ & Ha & _ & _) (Ht' & Ws' & Wg' & _ & Ha' & _ & _) D D'.
  exact (digest_rec_inj k _ _ _ _ _ _ _ _ _ _ _ _ _ _ m Hl Ht Ht' Ws Ws' Wg Wg' Ha Ha' D D').
Qed.

(* The full property: VALID exactly when every Signature Segment verifies, over SHA-256 of the RFC
   octets, under some router key registered for the segment's SKI *and for the AS of the
   corresponding Secure_Path Segment* ([path_valid], DigestSpec.v). *)
Definition C11_full : Prop :=
  forall (sha256 : list Z -> list Z) (load_pub : list Z -> bool)
         (ecdsa_verify : list Z -> list Z -> list Z -> Z),
    (forall spki h sg, ecdsa_verify spki h sg = 1 -> 8 <= Z.of_nat (length sg)) ->
    forall d t,
      wf_data d -> counts_ok d -> total_bytes d VALIDATION < 65536 -> n_len (b_nlri d) <= 128 ->
      (validate sha256 load_pub ecdsa_verify d t = Some BGPSEC_VALID <->
       preconds d /\ path_valid sha256 (sig_ok load_pub ecdsa_verify) t (to_update d)).

(* It does not hold: [w_data] (AS 65001 originates 192.0.2.0/24) validates as VALID against
   [w_table], whose only key with that SKI is registered for AS 64999. *)
Theorem C11_refuted : ~ C11_full.
Proof. exact full_refuted. Qed.

(* What the code decides: the same statement with the AS of the key not looked at. *)
Theorem C11_decision :
  forall (sha256 : list Z -> list Z) (load_pub : list Z -> bool)
         (ecdsa_verify : list Z -> list Z -> list Z -> Z),
    (forall spki h sg, ecdsa_verify spki h sg = 1 -> 8 <= Z.of_nat (length sg)) ->
    forall d t,
      wf_data d -> counts_ok d -> total_bytes d VALIDATION < 65536 -> n_len (b_nlri d) <= 128 ->
      (validate sha256 load_pub ecdsa_verify d t = Some BGPSEC_VALID <->
       preconds d /\ path_valid_any_as sha256 (sig_ok load_pub ecdsa_verify) t (to_update d)).
Proof. exact decision_any_as. Qed.

(* The full statement, outside the known finding: no router key carrying the SKI of a Signature
   Segment is registered under an AS other than that of its Secure_Path Segment. *)
Theorem C11_outside_known :
  forall (sha256 : list Z -> list Z) (load_pub : list Z -> bool)
         (ecdsa_verify : list Z -> list Z -> list Z -> Z),
    (forall spki h sg, ecdsa_verify spki h sg = 1 -> 8 <= Z.of_nat (length sg)) ->
    forall d t,
      wf_data d -> counts_ok d -> total_bytes d VALIDATION < 65536 -> n_len (b_nlri d) <= 128 ->
      no_foreign_keys t (to_update d) ->
      (validate sha256 load_pub ecdsa_verify d t = Some BGPSEC_VALID <->
       preconds d /\ path_valid sha256 (sig_ok load_pub ecdsa_verify) t (to_update d)).
Proof. exact decision_outside_known. Qed.

(* Without any assumption on ecdsa_verify or on the prefix length: VALID only if every hop
   verifies; and the exact condition under which all hops verifying gives VALID.  If the last
   Signature Segment is shorter than nlri_byte_len - 12 octets (only with a forged tiny signature
   and a prefix longer than 104 bits) the loop runs once more with tmp_sig == NULL: [None]. *)
Theorem C11_decision_exact :
  forall (sha256 : list Z -> list Z) (load_pub : list Z -> bool)
         (ecdsa_verify : list Z -> list Z -> list Z -> Z) d t,
    wf_data d -> counts_ok d -> total_bytes d VALIDATION < 65536 ->
    (validate sha256 load_pub ecdsa_verify d t = Some BGPSEC_VALID <->
     preconds d /\ path_valid_any_as sha256 (sig_ok load_pub ecdsa_verify) t (to_update d) /\
     last_sig_len d + 13 > nlri_byte_len d)
    /\
    (preconds d -> path_valid_any_as sha256 (sig_ok load_pub ecdsa_verify) t (to_update d) ->
     last_sig_len d + 13 <= nlri_byte_len d -> validate sha256 load_pub ecdsa_verify d t = None).
Proof. exact validate_decision. Qed.

(* Codes, in the C's priority order; none of them is RTR_BGPSEC_VALID. *)
Theorem C11_codes :
  forall (sha256 : list Z -> list Z) (load_pub : list Z -> bool)
         (ecdsa_verify : list Z -> list Z -> list Z -> Z) d t,
    (b_path d = [] \/ b_sigs d = [] ->
     validate sha256 load_pub ecdsa_verify d t = Some BGPSEC_INVALID_ARGUMENTS) /\
    (b_path d <> [] -> b_sigs d <> [] -> b_path_len d <> b_sigs_len d ->
     validate sha256 load_pub ecdsa_verify d t = Some BGPSEC_WRONG_SEGMENT_COUNT) /\
    (b_path d <> [] -> b_sigs d <> [] -> b_path_len d = b_sigs_len d ->
     b_alg d <> ALGORITHM_SUITE_1 ->
     validate sha256 load_pub ecdsa_verify d t = Some BGPSEC_UNSUPPORTED_ALGORITHM_SUITE) /\
    (b_path d <> [] -> b_sigs d <> [] -> b_path_len d = b_sigs_len d -> b_alg d = ALGORITHM_SUITE_1 ->
     n_afi (b_nlri d) <> BGPSEC_IPV4 -> n_afi (b_nlri d) <> BGPSEC_IPV6 ->
     validate sha256 load_pub ecdsa_verify d t = Some BGPSEC_UNSUPPORTED_AFI) /\
    (preconds d -> (exists g, In g (b_sigs d) /\ forall key, In key t -> rk_ski key <> sg_ski g) ->
     validate sha256 load_pub ecdsa_verify d t = Some BGPSEC_ROUTER_KEY_NOT_FOUND).
Proof. exact (fun s l e => validate_gen_codes s l e false). Qed.

(* ---- after the proposed fix (proposed_fixes/C11-ski-only-lookup.diff) ----------------------
   [validate_fixed] is the same function with the loop's key selection restricted to keys whose AS
   number equals tmp_sec->asn and retval preset to ROUTER_KEY_NOT_FOUND.  It decides [C11_full]'s
   right-hand side.  Which of the two models /repo corresponds to is determined on every run by
   tools/props/C11.py and written to the evidence. *)
Theorem C11_full_after_fix :
  forall (sha256 : list Z -> list Z) (load_pub : list Z -> bool)
         (ecdsa_verify : list Z -> list Z -> list Z -> Z),
    (forall spki h sg, ecdsa_verify spki h sg = 1 -> 8 <= Z.of_nat (length sg)) ->
    forall d t,
      wf_data d -> counts_ok d -> total_bytes d VALIDATION < 65536 -> n_len (b_nlri d) <= 128 ->
      (validate_fixed sha256 load_pub ecdsa_verify d t = Some BGPSEC_VALID <->
       preconds d /\ path_valid sha256 (sig_ok load_pub ecdsa_verify) t (to_update d)).
Proof. exact decision_fixed. Qed.

Theorem C11_codes_after_fix :
  forall (sha256 : list Z -> list Z) (load_pub : list Z -> bool)
         (ecdsa_verify : list Z -> list Z -> list Z -> Z) d t,
    (b_path d = [] \/ b_sigs d = [] ->
     validate_fixed sha256 load_pub ecdsa_verify d t = Some BGPSEC_INVALID_ARGUMENTS) /\
    (b_path d <> [] -> b_sigs d <> [] -> b_path_len d <> b_sigs_len d ->
     validate_fixed sha256 load_pub ecdsa_verify d t = Some BGPSEC_WRONG_SEGMENT_COUNT) /\
    (b_path d <> [] -> b_sigs d <> [] -> b_path_len d = b_sigs_len d ->
     b_alg d <> ALGORITHM_SUITE_1 ->
     validate_fixed sha256 load_pub ecdsa_verify d t = Some BGPSEC_UNSUPPORTED_ALGORITHM_SUITE) /\
    (b_path d <> [] -> b_sigs d <> [] -> b_path_len d = b_sigs_len d -> b_alg d = ALGORITHM_SUITE_1 ->
     n_afi (b_nlri d) <> BGPSEC_IPV4 -> n_afi (b_nlri d) <> BGPSEC_IPV6 ->
     validate_fixed sha256 load_pub ecdsa_verify d t = Some BGPSEC_UNSUPPORTED_AFI) /\
    (preconds d -> (exists g, In g (b_sigs d) /\ forall key, In key t -> rk_ski key <> sg_ski g) ->
     validate_fixed sha256 load_pub ecdsa_verify d t = Some BGPSEC_ROUTER_KEY_NOT_FOUND).
Proof. exact (fun s l e => validate_gen_codes s l e true). Qed.

Theorem C11_codes_not_valid :
  BGPSEC_INVALID_ARGUMENTS <> BGPSEC_VALID /\ BGPSEC_WRONG_SEGMENT_COUNT <> BGPSEC_VALID /\
  BGPSEC_UNSUPPORTED_ALGORITHM_SUITE <> BGPSEC_VALID /\ BGPSEC_UNSUPPORTED_AFI <> BGPSEC_VALID /\
  BGPSEC_ROUTER_KEY_NOT_FOUND <> BGPSEC_VALID.
Proof. repeat split; discriminate. Qed.

(* The corruption clause.  Two updates with the same hop count whose most recent signatures are
   the same octets cannot both be VALID unless they agree on every signed field - GIVEN the two
   named cryptographic assumptions (idealised collision resistance of SHA-256 and ECDSA
   signatures binding one hash).  These are hypotheses, not facts about the code. *)
Theorem C11_bitflip :
  forall (sha256 : list Z -> list Z) (load_pub : list Z -> bool)
         (ecdsa_verify : list Z -> list Z -> list Z -> Z),
    (forall m m', sha256 m = sha256 m' -> m = m') ->
    (forall spki spki' h h' sg, sig_ok load_pub ecdsa_verify spki h sg = true ->
                                sig_ok load_pub ecdsa_verify spki' h' sg = true -> h = h') ->
    forall d d' t,
      wf_data d -> wf_data d' -> counts_ok d -> counts_ok d' ->
      total_bytes d VALIDATION < 65536 -> total_bytes d' VALIDATION < 65536 ->
      length (b_path d) = length (b_path d') ->
      option_map sg_sig (hd_error (b_sigs d)) = option_map sg_sig (hd_error (b_sigs d')) ->
      validate sha256 load_pub ecdsa_verify d t = Some BGPSEC_VALID ->
      validate sha256 load_pub ecdsa_verify d' t = Some BGPSEC_VALID ->
      b_target_as d = b_target_as d' /\ b_path d = b_path d' /\ tl (b_sigs d) = tl (b_sigs d') /\
      b_alg d = b_alg d' /\ b_afi d = b_afi d' /\ b_safi d = b_safi d' /\ to_nlri d = to_nlri d'.
Proof. exact bitflip. Qed.

(* Non-vacuity: a concrete update satisfies the hypotheses of the theorems above and is VALID
   with the key under the right AS ... and also with the key under the wrong AS. *)
Example C11_example :
  (wf_data w_data /\ counts_ok w_data /\ total_bytes w_data VALIDATION < 65536 /\
   n_len (b_nlri w_data) <= 128) /\
  (validate toy_sha toy_load toy_verify w_data w_table_ok = Some BGPSEC_VALID /\
   no_foreign_keys w_table_ok (to_update w_data)) /\
  validate toy_sha toy_load toy_verify w_data w_table = Some BGPSEC_VALID /\
  (validate_fixed toy_sha toy_load toy_verify w_data w_table = Some BGPSEC_ROUTER_KEY_NOT_FOUND /\
   validate_fixed toy_sha toy_load toy_verify w_data w_table_ok = Some BGPSEC_VALID).
Proof. exact (conj w_wf (conj w_ok_valid (conj w_valid w_fixed))). Qed.

(* The octets of the RFC sequence for that update, readable: target AS 65002 | pCount 1, flags 0,
   AS 65001 | suite 1 | AFI 1 | SAFI 1 | /24 192.0.2 ; and an environment in which both
   hypotheses of C11_bitflip hold together with a VALID update. *)
Example C11_example_digest :
  (digest_for_hop 0 (to_update w2_data)
   = Some [0; 0; 253; 234; 1; 0; 0; 0; 253; 233; 1; 0; 1; 1; 24; 192; 0; 2] /\
   validate toy_sha toy_load toy2_verify w2_data w_table_ok = Some BGPSEC_VALID) /\
  (forall m m', toy_sha m = toy_sha m' -> m = m') /\
  (forall spki spki' h h' sg, sig_ok toy_load toy2_verify spki h sg = true ->
                              sig_ok toy_load toy2_verify spki' h' sg = true -> h = h').
Proof. exact (conj w2_valid (conj toy_sha_collision_free toy2_binds_hash)). Qed.

Print Assumptions C11_size.
Print Assumptions C11_layout.
Print Assumptions C11_inj.
Print Assumptions C11_inj_hop.
Print Assumptions C11_refuted.
Print Assumptions C11_decision.
Print Assumptions C11_outside_known.
Print Assumptions C11_decision_exact.
Print Assumptions C11_codes.
Print Assumptions C11_bitflip.
Print Assumptions C11_full_after_fix.
Print Assumptions C11_codes_after_fix.
