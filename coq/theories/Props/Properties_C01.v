(* C01 - Route-origin validation agrees with RFC 6811 for every table and every query.

   Model: Pfx/TrieModel.v + Pfx/PfxTable.v (trie.c / trie-pfx.c restated; tied to /repo by the
   correspondence run of tools/props/C01.py and, for lrtr_get_bits, by the translator).
   Spec: [sp_validate] over the plain set of records that the history produces ([sp_run]),
   shown below to be RFC 6811's three sentences.  Quantified over every history [ops] of
   add / remove / remove-by-source on records with zero host bits ([op_ok]), both families,
   any AS (0 included), any max-length, any number of sources, and every query.            *)
From RtrV Require Import Base.CSem Base.Bits Base.Bits6 Gen.Generated Base.CSemSub Gen.GeneratedIp Base.IpAddr.
From RtrV Require Import Pfx.TrieModel Pfx.PfxTable Pfx.PfxProofs Pfx.PfxValidate Pfx.PfxHistory Pfx.Hazards.
From Coq Require Import Permutation.

Theorem C01_state : forall ops T cs cbs v6 asn q qlen,
  Forall op_ok ops -> run empty_table ops = Some (T, cs, cbs) -> length q = width v6 ->
  fst (tvalidate T v6 asn q qlen) = sp_validate (fst (sp_run [] ops)) v6 asn q qlen.
Proof. exact c01_state. Qed.

(* NOT FOUND yields no reasons, INVALID exactly the covering records, VALID only covering
   records (each once) among them a matching one *)
Theorem C01_reasons : forall ops T cs cbs v6 asn q qlen,
  Forall op_ok ops -> run empty_table ops = Some (T, cs, cbs) -> length q = width v6 ->
  let cov := filter (fcovrec v6 q qlen) (fst (sp_run [] ops)) in
  match tvalidate T v6 asn q qlen with
  | (NOT_FOUND, rs) => rs = [] /\ cov = []
  | (INVALID, rs) => Permutation rs cov
  | (VALID, rs) => (exists rest, Permutation (rs ++ rest) cov) /\ existsb (fmatrec asn qlen) rs = true
  end.
Proof. exact c01_reasons. Qed.

(* the Spec is RFC 6811: VALID iff some record covers the route with the same non-zero AS and a
   max-length >= the route length; INVALID iff covered but not matched; NOT FOUND otherwise *)
Theorem C01_spec_is_rfc6811 : forall X v6 asn q qlen,
  (sp_validate X v6 asn q qlen = VALID <->
     exists r, In r X /\ covers_P r v6 q qlen /\ matches_P r asn qlen) /\
  (sp_validate X v6 asn q qlen = INVALID <->
     (exists r, In r X /\ covers_P r v6 q qlen) /\ ~ exists r, In r X /\ covers_P r v6 q qlen /\ matches_P r asn qlen) /\
  (sp_validate X v6 asn q qlen = NOT_FOUND <-> ~ exists r, In r X /\ covers_P r v6 q qlen).
Proof. exact sp_validate_rfc. Qed.

(* the traversal never compares zero bits through an asserting lrtr_get_bits ([hz_zero_code] is
   computed from the translated C) and never reads an address bit beyond the width *)
Theorem C01_no_ub : forall ops T cs cbs v6 asn q qlen,
  Forall op_ok ops -> run empty_table ops = Some (T, cs, cbs) ->
  tvalidate_ub hz_zero_code false T v6 asn q qlen = false.
Proof. exact c01_no_ub. Qed.

(* the model's list-of-bits view is what the C's uint32_t arithmetic computes (IPv4 word; the translated
   lrtr_get_bits): comparing the first n bits through lrtr_get_bits = equality of [firstn n] of the bit
   lists, and extracting bit lvl = reading position lvl; inside that domain the function never hits UB.
   C01_bits_compare6 / C01_bit_select6 are the same two facts for the four-word IPv6 composition
   lrtr_ipv6_get_bits (also translated from /repo). *)
Theorem C01_bits_compare : forall a b n, (0 <= a < 2 ^ 32)%Z -> (0 <= b < 2 ^ 32)%Z -> (0 <= n <= 32)%Z ->
  exists x y, lrtr_get_bits_gen a 0 n = Some x /\ lrtr_get_bits_gen b 0 n = Some y /\
              (x = y <-> firstn (Z.to_nat n) (bits32 a) = firstn (Z.to_nat n) (bits32 b)).
Proof. exact prefix_compare. Qed.

Theorem C01_bit_select : forall a lvl, (0 <= a < 2 ^ 32)%Z -> (0 <= lvl < 32)%Z ->
  exists x, lrtr_get_bits_gen a lvl 1 = Some x /\ (x =? 0)%Z = negb (nth (Z.to_nat lvl) (bits32 a) false).
Proof. exact bit_select. Qed.

Theorem C01_bits_compare6 : forall s1 s2 n, words_ok s1 -> words_ok s2 -> (0 <= n <= 128)%Z ->
  exists r1 r2, lrtr_ipv6_get_bits_gen s1 0 n = Some r1 /\ lrtr_ipv6_get_bits_gen s2 0 n = Some r2 /\
    ((w0 r1 = w0 r2 /\ w1 r1 = w1 r2 /\ w2 r1 = w2 r2 /\ w3 r1 = w3 r2) <->
     firstn (Z.to_nat n) (bits128 s1) = firstn (Z.to_nat n) (bits128 s2)).
Proof. exact prefix_compare6. Qed.

Theorem C01_bit_select6 : forall s lvl, words_ok s -> (0 <= lvl < 128)%Z ->
  exists r, lrtr_ipv6_get_bits_gen s lvl 1 = Some r /\
    ((w0 r =? 0) && (w1 r =? 0) && (w2 r =? 0) && (w3 r =? 0))%Z = negb (nth (Z.to_nat lvl) (bits128 s) false).
Proof. exact bit_select6. Qed.

(* The whole address layer the trie is written against - lrtr_ip_addr_equal, lrtr_ip_addr_get_bits, lrtr_ip_addr_is_zero over
   lrtr_ipv4/ipv6_addr_equal, lrtr_ipv4/ipv6_get_bits (Gen/GeneratedIp.v, translated from /repo on every run) - computes the
   model's bit-list operations, for both families (Base/IpAddr.v):
     exact match (trie_lookup_exact, trie_remove: lrtr_ip_addr_equal(n->prefix, *p))  =  same family and equal bit lists;
     is_left_child(addr, lvl) = lrtr_ip_addr_is_zero(lrtr_ip_addr_get_bits(addr, lvl, 1))  =  bit lvl is clear;
     the covering test of trie_lookup / validation, lrtr_ip_addr_equal(get_bits(p, 0, n), get_bits(q, 0, n))  =  firstn n agree;
   and inside those domains no translated function is undefined (the [exists r, .. = Some r] forms). *)
Theorem C01_addr_equal : forall x y, ip_ok x -> ip_ok y ->
  (lrtr_ip_addr_equal_gen (ip_store x) (ip_store y) = Some 1%Z <-> same_family x y = true /\ ip_bits x = ip_bits y) /\
  (same_family x y = false -> lrtr_ip_addr_equal_gen (ip_store x) (ip_store y) = Some 0%Z).
Proof. intros x y Hx Hy. split; [exact (ip_equal_iff x y Hx Hy)|exact (ip_equal_other_family x y)]. Qed.

Theorem C01_is_left_child : forall x lvl, ip_ok x -> (0 <= lvl < ip_width x)%Z ->
  exists r, lrtr_ip_addr_get_bits_gen (ip_store x) lvl 1 = Some r /\
            lrtr_ip_addr_is_zero_gen r = Some (b2z (negb (nth (Z.to_nat lvl) (ip_bits x) false))).
Proof. exact ip_is_left_child. Qed.

Theorem C01_covers : forall x y n, ip_ok x -> ip_ok y -> same_family x y = true -> (0 <= n <= ip_width x)%Z ->
  exists r1 r2, lrtr_ip_addr_get_bits_gen (ip_store x) 0 n = Some r1 /\ lrtr_ip_addr_get_bits_gen (ip_store y) 0 n = Some r2 /\
    exists b, lrtr_ip_addr_equal_gen r1 r2 = Some (b2z b) /\
              (b = true <-> firstn (Z.to_nat n) (ip_bits x) = firstn (Z.to_nat n) (ip_bits y)).
Proof. exact ip_covers. Qed.

(* the domain restriction is real: bit 32 of an IPv4 address is the undefined shift the guards stand for *)
Example C01_addr_layer_domain : lrtr_ip_addr_get_bits_gen (ip_store (A4 0)) 32 1 = None /\ ip_translator_problems = [].
Proof. split; vm_compute; reflexivity. Qed.

Print Assumptions C01_state.
Print Assumptions C01_bits_compare6.
Print Assumptions C01_bit_select6.
Print Assumptions C01_bits_compare.
Print Assumptions C01_bit_select.
Print Assumptions C01_reasons.
Print Assumptions C01_spec_is_rfc6811.
Print Assumptions C01_no_ub.
Print Assumptions C01_addr_equal.
Print Assumptions C01_is_left_child.
Print Assumptions C01_covers.
