(* C20 - State and status names are defined for every enumerator.

   The model is the translator's output itself (Gen/Generated.v, regenerated from
   /repo on every run): the two enums as declared in the public headers, the two
   name tables, and the bodies of rtr_state_to_str / rtr_mgr_status_to_str, where
   an out-of-range table read is [None].  [v] ranges over every value a 32-bit C
   enum object can hold, whichever signedness the compiler picks.              *)
From RtrV Require Import Base.CSem Gen.Generated Rtr.NamesProofs.

Theorem C20_state_names :
  Forall (fun '(name, v) => rtr_state_to_str_gen v = Some (Some name)) enum_rtr_socket_state.
Proof. exact state_names. Qed.

Theorem C20_state_null : forall v : Z,
  (- 2 ^ 31 <= v < 2 ^ 32)%Z -> ~ In v (map snd enum_rtr_socket_state) ->
  rtr_state_to_str_gen v = Some None.
Proof. exact state_null. Qed.

Theorem C20_status_names :
  Forall (fun '(name, v) => rtr_mgr_status_to_str_gen v = Some (Some name)) enum_rtr_mgr_status.
Proof. exact status_names. Qed.

Theorem C20_status_null : forall v : Z,
  (- 2 ^ 31 <= v < 2 ^ 32)%Z -> ~ In v (map snd enum_rtr_mgr_status) ->
  rtr_mgr_status_to_str_gen v = Some None.
Proof. exact status_null. Qed.

(* never reads outside its name table: the result is never the model's UB value *)
Theorem C20_never_out_of_bounds : forall v : Z, (- 2 ^ 31 <= v < 2 ^ 32)%Z ->
  rtr_state_to_str_gen v <> None /\ rtr_mgr_status_to_str_gen v <> None.
Proof. exact never_oob. Qed.

Print Assumptions C20_state_names.
Print Assumptions C20_state_null.
Print Assumptions C20_status_names.
Print Assumptions C20_status_null.
Print Assumptions C20_never_out_of_bounds.
