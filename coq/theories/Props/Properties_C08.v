(* C08 - After any finite run of faults the client re-converges on the cache's data.

   Model: Rtr/RtrModel.v.  Vocabulary (Rtr/ConvergeStutter.v, Rtr/ExpirySync.v, Rtr/ConvergeProofs.v):
     input_left w   what the scripted environment can still deliver: every receive event, every byte of a data
                    event, every entry of the open script
     rank s         NO_DATA, NO_INCR 3 > RESET, ESTABLISHED 2 > ERROR_TRANSPORT, ERROR_FATAL, FAST_RECONNECT 1 > CONNECTING, SYNC 0
     measure w      4 * input_left w + rank (st (sk w))
     live w         the state is one of the nine in which the loop of rtr_fsm_start does something
     fsm_iter       one iteration of run_fsm: fsm_step, or (at a stop event) rtr_stop; dump; start again
     Inv            the invariant of C07 (see Properties_C07.v)                                                  *)
From Coq Require Import Permutation.
From RtrV Require Import Base.CSem Gen.Generated Rtr.RtrModel Rtr.SyncSets Rtr.ExpiryFrames Rtr.ExpirySync
  Rtr.ConvergeStutter Rtr.ExpiryProofs Rtr.CacheSpec Rtr.ConvergeRecv Rtr.ConvergeProofs.
Local Open Scope Z_scope.

(* (1) safety, all environments: an iteration of the state machine that ends with the clock where it was has
   strictly decreased the measure - it consumed an event, bytes or an entry of the open script, or it moved down
   the rank of control states.  No hypothesis on the environment.  (XEnd: a script ran out, the run ends.) *)
Theorem C08_no_stutter : forall f w, live w ->
  match fsm_step (S f) w with
  | Ok _ w' => now w' = now w -> (measure w' < measure w)%nat
  | Exc XStop w' => (input_left w' < input_left w)%nat
  | Exc (XEnd _) _ => True
  end.
Proof. exact no_stutter. Qed.

Theorem C08_no_stutter_iter : forall f w, live w ->
  match fsm_iter (S f) w with
  | (w', true) => live w' /\ (now w' = now w -> (measure w' < measure w)%nat)
  | (_, false) => True
  end.
Proof. exact no_stutter_iter. Qed.

(* between two clock advances the loop iterates at most [measure w] times *)
Theorem C08_zero_time_bounded : forall n f w, live w -> zero_time_run n (S f) w -> (n <= measure w)%nat.
Proof. exact zero_time_bounded. Qed.

(* a cache that answers every query at once with Cache Reset: ten iterations without the clock moving, the measure falls *)
Theorem C08_zero_time_example :
  live st_w0 /\ zero_time_run 10 100 st_w0 /\
  map (fun n => measure (run_fsm n 100 st_w0)) (seq 0 11) = [112; 110; 108; 75; 74; 72; 39; 38; 36; 3; 2]%nat /\
  map (fun n => now (run_fsm n 100 st_w0)) (seq 0 11) = repeat 1000 11.
Proof. exact zero_time_chain. Qed.

(* reconnects are paced: CONNECTING is entered only from ERROR_TRANSPORT / ERROR_FATAL, after sleeping retry_iv, or from
   FAST_RECONNECT (entered only by the one-off version downgrade, C13); a connection attempt never leads straight back
   to CONNECTING.  So two consecutive transport opens are separated by a retry sleep or by consumed input. *)
Theorem C08_reconnect_paced : forall f w, live w ->
  match fsm_step f w with
  | Ok _ w' => st (sk w') = c_RTR_CONNECTING ->
       ((st (sk w) = c_RTR_ERROR_TRANSPORT \/ st (sk w) = c_RTR_ERROR_FATAL) /\ now w' = now w + retry_iv (sk w)) \/
       st (sk w) = c_RTR_FAST_RECONNECT
  | Exc _ _ => True
  end.
Proof. exact reconnect_paced. Qed.

(* (2) the bookkeeping invariant in every reachable world *)
Theorem C08_inv : forall n fuel w, Inv w ->
  let w' := run_fsm n fuel w in
  Inv w' /\
  (req_sess (sk w') = false -> last_update (sk w') <> 0 /\ resetting (sk w') = false) /\
  (last_update (sk w') = 0 -> req_sess (sk w') = true /\ no_data w').
Proof. exact consistent_reachable. Qed.

(* (3) the truthful cache (Rtr/CacheSpec.v: wire-level data sets, answer : cache -> query -> list of PDUs) and one good
   exchange.  Vocabulary:
     delivers es B tail     the receive script es is data events whose concatenation is B - in ANY chunking - followed by tail
     pending_query w        Reset Query if a session is requested, else Serial Query (session_id, serial)
     served c q             the cache answers q with data (Reset Query; Serial Query of its session and a remembered serial)
     truthful_stream c w    answer c (pending_query w), followed - when that is a Cache Reset - by answer c QReset
     exchange_steps c w     1 if served, else 4 (SYNC -> NO_INCR -> RESET -> SYNC -> ESTABLISHED)
     snapshot_hyp c w       (C08_snapshot, as a hypothesis) if the client has a session and a serial the cache remembers,
                            its records are - up to order - the cache's data set at that serial
     synced c w w'          ESTABLISHED; own_p / own_k of the tables are the cache's current data set up to order; records of
                            other sources untouched; session_id, serial are the cache's; req_sess = false;
                            last_update = now w; no virtual time has passed                                                *)
Theorem C08_receive_any_chunking : forall timeout w p B tail,
  pdu_ok (version (sk w)) p -> (version (sk w) = 0 \/ version (sk w) = 1) ->
  st (sk w) <> c_RTR_SHUTDOWN -> delivers (evs w) (p ++ B) tail ->
  exists w', receive_pdu timeout w = Ok (inr p) w' /\ delivers (evs w') B tail /\
             sk w' = (if has_recv (sk w) then sk w else seen (sk w)) /\
             pfx w' = pfx w /\ keys w' = keys w /\ opens w' = opens w /\ sends w' = sends w /\ now w' = now w.
Proof. exact receive_pdu_data. Qed.

Theorem C08_one_good_exchange : forall f w c B tail,
  Inv w -> st (sk w) = c_RTR_SYNC -> version (sk w) = c_ver c -> cache_ok c -> snapshot_hyp c w -> sends w = [] ->
  delivers (evs w) (truthful_stream c w ++ B) tail ->
  (List.length (c_data c) < f)%nat -> (forall k old, In (k, old) (c_hist c) -> (List.length (delta_pdus old (c_data c)) < f)%nat) ->
  let w' := run_fsm (exchange_steps c w) (S f) w in
  (st (sk w') = c_RTR_ESTABLISHED /\
   Permutation (own_p (pfx w')) (precs (c_data c)) /\ Permutation (own_k (keys w')) (krecs (c_data c)) /\
   oth_p (pfx w') = oth_p (pfx w) /\ oth_k (keys w') = oth_k (keys w) /\
   session_id (sk w') = c_session c /\ serial (sk w') = c_serial c /\ req_sess (sk w') = false /\
   last_update (sk w') = now w /\ now w' = now w) /\
  delivers (evs w') B tail /\ Inv w'.
Proof. exact one_good_exchange. Qed.

Theorem C08_one_good_exchange_example :
  cache_ok ex_cache /\
  let w2 := run_fsm 2 100 ex_w0 in
  pending_query w2 = QReset /\ synced ex_cache w2 (run_fsm 1 100 w2) /\ Inv (run_fsm 1 100 w2).
Proof. split; [exact ex_cache_ok|exact one_good_exchange_reset_example]. Qed.

(* (4) C08_converge_partial: recovery from each single error state, under the invariant, with a transport that works
   again.  recovery_bound s = refresh_iv s + retry_iv s + 2 * RTR_RECV_TIMEOUT.
   (a) every error / reconnect state is back in SYNC with its query sent after <= 3 iterations and 0 or retry_iv seconds,
       without reading anything (calm t: clock + t, receive script, send script, version, retry_iv, other sources unchanged);
   (b) ESTABLISHED with a silent cache: when the refresh timer runs out (<= refresh_iv after the last success) the Serial
       Query is sent: SYNC;
   (c) SYNC with a silent cache: after the 60 s receive timeout: ERROR_TRANSPORT, then (a);
   (d) in SYNC, C08_one_good_exchange: ESTABLISHED and synchronised after 1 or 4 iterations and no time.
   Worst case (c)+(a)+(d): 60 + retry_iv; (b)+(d): refresh_iv; both <= recovery_bound. *)
Theorem C08_converge_partial :
  (forall f w os, Inv w -> recovering (st (sk w)) -> opens w = true :: os -> sends w = [] ->
     exists n t, (n <= 3)%nat /\ (t = 0 \/ t = retry_iv (sk w)) /\
       let w' := run_fsm n f w in st (sk w') = c_RTR_SYNC /\ calm t w w' /\ Inv w') /\
  (forall f w v rest, st (sk w) = c_RTR_ESTABLISHED -> sends w = [] ->
     let wait := Z.max 0 (last_update (sk w) + refresh_iv (sk w) - now w) in
     evs w = EvWait v :: rest -> wait < v ->
     exists w1, fsm_step f w = Ok tt w1 /\ st (sk w1) = c_RTR_SYNC /\ now w1 = now w + wait /\
                opens w1 = opens w /\ sends w1 = [] /\ pfx w1 = pfx w /\ keys w1 = keys w /\ core (sk w1) = core (sk w) /\
                evs w1 = EvWait (v - wait) :: rest) /\
  (forall f w v rest, st (sk w) = c_RTR_SYNC -> evs w = EvWait v :: rest -> c_RTR_RECV_TIMEOUT < v ->
     exists w1, fsm_step (S f) w = Ok tt w1 /\ st (sk w1) = c_RTR_ERROR_TRANSPORT /\ now w1 = now w + c_RTR_RECV_TIMEOUT /\
                opens w1 = opens w /\ sends w1 = sends w /\ pfx w1 = pfx w /\ keys w1 = keys w /\ core (sk w1) = core (sk w) /\
                evs w1 = EvWait (v - c_RTR_RECV_TIMEOUT) :: rest).
Proof. split; [exact reach_sync|]. split; [exact established_quiet|exact sync_quiet]. Qed.

(* The full statement (closed loop over a reacting truthful cache, from ANY reachable world, with the time bound) is kept
   visible as Rtr/ConvergeProofs.v [C08_converge_full : Prop]; it is NOT proved.  Missing: the composition of (a)-(d) over
   run_with_cache, and C08_snapshot (that snapshot_hyp holds after every fault prefix whose completed well-formed
   responses were truthful). *)
Definition C08_converge_full_statement : Prop := C08_converge_full.

Print Assumptions C08_no_stutter.
Print Assumptions C08_no_stutter_iter.
Print Assumptions C08_zero_time_bounded.
Print Assumptions C08_inv.
Print Assumptions C08_receive_any_chunking.
Print Assumptions C08_one_good_exchange.
Print Assumptions C08_one_good_exchange_example.
Print Assumptions C08_converge_partial.
Print Assumptions C08_zero_time_example.
Print Assumptions C08_reconnect_paced.
