(* C08 - After any finite run of faults the client re-converges on the cache's data.

   Model: Rtr/RtrModel.v.  Vocabulary (Rtr/ConvergeStutter.v, Rtr/ExpirySync.v, Rtr/ConvergeProofs.v):
     input_left w   what the scripted environment can still deliver: every receive event, every byte of a data
                    event, every entry of the open script
     rank s         NO_DATA, NO_INCR 3 > RESET, ESTABLISHED 2 > ERROR_TRANSPORT, ERROR_FATAL, FAST_RECONNECT 1 > CONNECTING, SYNC 0
     measure w      4 * input_left w + rank (st (sk w))
     live w         the state is one of the nine in which the loop of rtr_fsm_start does something
     fsm_iter       one iteration of run_fsm: fsm_step, or (at a stop event) rtr_stop; dump; start again
     Inv            the invariant of C07 (see Properties_C07.v)                                                  *)
From Coq Require Import Permutation.
From RtrV Require Import Base.CSem Gen.Generated Rtr.RtrModel Rtr.SyncSets Rtr.ExpiryFrames Rtr.ExpirySync
  Rtr.ConvergeStutter Rtr.ExpiryProofs Rtr.ConvergeProofs.
Local Open Scope Z_scope.

(* (1) safety, all environments: an iteration of the state machine that ends with the clock where it was has
   strictly decreased the measure - it consumed an event, bytes or an entry of the open script, or it moved down
   the rank of control states.  No hypothesis on the environment.  (XEnd: a script ran out, the run ends.) *)
Theorem C08_no_stutter : forall f w, live w ->
  match fsm_step (S f) w with
  | Ok _ w' => now w' = now w -> (measure w' < measure w)%nat
  | Exc XStop w' => (input_left w' < input_left w)%nat
  | Exc (XEnd _) _ => True
  end.
Proof. exact no_stutter. Qed.

Theorem C08_no_stutter_iter : forall f w, live w ->
  match fsm_iter (S f) w with
  | (w', true) => live w' /\ (now w' = now w -> (measure w' < measure w)%nat)
  | (_, false) => True
  end.
Proof. exact no_stutter_iter. Qed.

(* between two clock advances the loop iterates at most [measure w] times *)
Theorem C08_zero_time_bounded : forall n f w, live w -> zero_time_run n (S f) w -> (n <= measure w)%nat.
Proof. exact zero_time_bounded. Qed.

(* (2) the bookkeeping invariant in every reachable world *)
Theorem C08_inv : forall n fuel w, Inv w ->
  let w' := run_fsm n fuel w in
  Inv w' /\
  (req_sess (sk w') = false -> last_update (sk w') <> 0 /\ resetting (sk w') = false) /\
  (last_update (sk w') = 0 -> req_sess (sk w') = true /\ no_data w').
Proof. exact consistent_reachable. Qed.

Print Assumptions C08_no_stutter.
Print Assumptions C08_no_stutter_iter.
Print Assumptions C08_zero_time_bounded.
Print Assumptions C08_inv.
