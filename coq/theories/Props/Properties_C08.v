(* C08 - After any finite run of faults the client re-converges on the cache's data.

   Model: Rtr/RtrModel.v.  Vocabulary (Rtr/ConvergeStutter.v, Rtr/ExpirySync.v, Rtr/ConvergeProofs.v):
     input_left w   what the scripted environment can still deliver: every receive event, every byte of a data
                    event, every entry of the open script
     rank s         NO_DATA, NO_INCR 3 > RESET, ESTABLISHED 2 > ERROR_TRANSPORT, ERROR_FATAL, FAST_RECONNECT 1 > CONNECTING, SYNC 0
     measure w      4 * input_left w + rank (st (sk w))
     live w         the state is one of the nine in which the loop of rtr_fsm_start does something
     fsm_iter       one iteration of run_fsm: fsm_step, or (at a stop event) rtr_stop; dump; start again
     Inv            the invariant of C07 (see Properties_C07.v)                                                  *)
From Coq Require Import Permutation.
From RtrV Require Import Base.CSem Gen.Generated Rtr.RtrModel Rtr.SyncSets Rtr.ExpiryFrames Rtr.ExpirySync
  Rtr.ConvergeStutter Rtr.ExpiryProofs Rtr.CacheSpec Rtr.ConvergeRecv Rtr.ConvergeProofs Rtr.RefreshInv Rtr.ConvergeLoop Rtr.Snapshot.
Local Open Scope Z_scope.

(* (1) safety, all environments: an iteration of the state machine that ends with the clock where it was has
   strictly decreased the measure - it consumed an event, bytes or an entry of the open script, or it moved down
   the rank of control states.  No hypothesis on the environment.  (XEnd: a script ran out, the run ends.) *)
Theorem C08_no_stutter : forall f w, live w ->
  match fsm_step (S f) w with
  | Ok _ w' => now w' = now w -> (measure w' < measure w)%nat
  | Exc XStop w' => (input_left w' < input_left w)%nat
  | Exc (XEnd _) _ => True
  end.
Proof. exact no_stutter. Qed.

Theorem C08_no_stutter_iter : forall f w, live w ->
  match fsm_iter (S f) w with
  | (w', true) => live w' /\ (now w' = now w -> (measure w' < measure w)%nat)
  | (_, false) => True
  end.
Proof. exact no_stutter_iter. Qed.

(* between two clock advances the loop iterates at most [measure w] times *)
Theorem C08_zero_time_bounded : forall n f w, live w -> zero_time_run n (S f) w -> (n <= measure w)%nat.
Proof. exact zero_time_bounded. Qed.

(* a cache that answers every query at once with Cache Reset: ten iterations without the clock moving, the measure falls *)
Theorem C08_zero_time_example :
  live st_w0 /\ zero_time_run 10 100 st_w0 /\
  map (fun n => measure (run_fsm n 100 st_w0)) (seq 0 11) = [112; 110; 108; 75; 74; 72; 39; 38; 36; 3; 2]%nat /\
  map (fun n => now (run_fsm n 100 st_w0)) (seq 0 11) = repeat 1000 11.
Proof. exact zero_time_chain. Qed.

(* reconnects are paced: CONNECTING is entered only from ERROR_TRANSPORT / ERROR_FATAL, after sleeping retry_iv, or from
   FAST_RECONNECT (entered only by the one-off version downgrade, C13); a connection attempt never leads straight back
   to CONNECTING.  So two consecutive transport opens are separated by a retry sleep or by consumed input. *)
Theorem C08_reconnect_paced : forall f w, live w ->
  match fsm_step f w with
  | Ok _ w' => st (sk w') = c_RTR_CONNECTING ->
       ((st (sk w) = c_RTR_ERROR_TRANSPORT \/ st (sk w) = c_RTR_ERROR_FATAL) /\ now w' = now w + retry_iv (sk w)) \/
       st (sk w) = c_RTR_FAST_RECONNECT
  | Exc _ _ => True
  end.
Proof. exact reconnect_paced. Qed.

(* (2) the bookkeeping invariant in every reachable world *)
Theorem C08_inv : forall n fuel w, Inv w ->
  let w' := run_fsm n fuel w in
  Inv w' /\
  (req_sess (sk w') = false -> last_update (sk w') <> 0 /\ resetting (sk w') = false) /\
  (last_update (sk w') = 0 -> req_sess (sk w') = true /\ no_data w').
Proof. exact consistent_reachable. Qed.

(* (3) the truthful cache (Rtr/CacheSpec.v: wire-level data sets, answer : cache -> query -> list of PDUs) and one good
   exchange.  Vocabulary:
     delivers es B tail     the receive script es is data events whose concatenation is B - in ANY chunking - followed by tail
     pending_query w        Reset Query if a session is requested, else Serial Query (session_id, serial)
     served c q             the cache answers q with data (Reset Query; Serial Query of its session and a remembered serial)
     truthful_stream c w    answer c (pending_query w), followed - when that is a Cache Reset - by answer c QReset
     exchange_steps c w     1 if served, else 4 (SYNC -> NO_INCR -> RESET -> SYNC -> ESTABLISHED)
     snapshot_hyp c w       (C08_snapshot, as a hypothesis) if the client has a session and a serial the cache remembers,
                            its records are - up to order - the cache's data set at that serial
     synced c w w'          ESTABLISHED; own_p / own_k of the tables are the cache's current data set up to order; records of
                            other sources untouched; session_id, serial are the cache's; req_sess = false;
                            last_update = now w; no virtual time has passed                                                *)
Theorem C08_receive_any_chunking : forall timeout w p B tail,
  pdu_ok (version (sk w)) p -> (version (sk w) = 0 \/ version (sk w) = 1) ->
  st (sk w) <> c_RTR_SHUTDOWN -> delivers (evs w) (p ++ B) tail ->
  exists w', receive_pdu timeout w = Ok (inr p) w' /\ delivers (evs w') B tail /\
             sk w' = (if has_recv (sk w) then sk w else seen (sk w)) /\
             pfx w' = pfx w /\ keys w' = keys w /\ opens w' = opens w /\ sends w' = sends w /\ now w' = now w.
Proof. exact receive_pdu_data. Qed.

Theorem C08_one_good_exchange : forall f w c B tail,
  Inv w -> st (sk w) = c_RTR_SYNC -> version (sk w) = c_ver c -> cache_ok c -> snapshot_hyp c w -> sends w = [] ->
  delivers (evs w) (truthful_stream c w ++ B) tail ->
  (List.length (c_data c) < f)%nat -> (forall k old, In (k, old) (c_hist c) -> (List.length (delta_pdus old (c_data c)) < f)%nat) ->
  let w' := run_fsm (exchange_steps c w) (S f) w in
  (st (sk w') = c_RTR_ESTABLISHED /\
   Permutation (own_p (pfx w')) (precs (c_data c)) /\ Permutation (own_k (keys w')) (krecs (c_data c)) /\
   oth_p (pfx w') = oth_p (pfx w) /\ oth_k (keys w') = oth_k (keys w) /\
   session_id (sk w') = c_session c /\ serial (sk w') = c_serial c /\ req_sess (sk w') = false /\
   last_update (sk w') = now w /\ now w' = now w) /\
  delivers (evs w') B tail /\ Inv w'.
Proof. exact one_good_exchange. Qed.

Theorem C08_one_good_exchange_example :
  cache_ok ex_cache /\
  let w2 := run_fsm 2 100 ex_w0 in
  pending_query w2 = QReset /\ synced ex_cache w2 (run_fsm 1 100 w2) /\ Inv (run_fsm 1 100 w2).
Proof. split; [exact ex_cache_ok|exact one_good_exchange_reset_example]. Qed.

(* (4) C08_converge_partial: recovery from each single error state, under the invariant, with a transport that works
   again.  recovery_bound s = refresh_iv s + retry_iv s + 2 * RTR_RECV_TIMEOUT.
   (a) every error / reconnect state is back in SYNC with its query sent after <= 3 iterations and 0 or retry_iv seconds,
       without reading anything (calm t: clock + t, receive script, send script, version, retry_iv, other sources unchanged);
   (b) ESTABLISHED with a silent cache: when the refresh timer runs out (<= refresh_iv after the last success) the Serial
       Query is sent: SYNC;
   (c) SYNC with a silent cache: after the 60 s receive timeout: ERROR_TRANSPORT, then (a);
   (d) in SYNC, C08_one_good_exchange: ESTABLISHED and synchronised after 1 or 4 iterations and no time.
   Worst case (c)+(a)+(d): 60 + retry_iv; (b)+(d): refresh_iv; both <= recovery_bound. *)
Theorem C08_converge_partial :
  (forall f w os, Inv w -> recovering (st (sk w)) -> opens w = true :: os -> sends w = [] ->
     exists n t, (n <= 3)%nat /\ (t = 0 \/ t = retry_iv (sk w)) /\
       let w' := run_fsm n f w in st (sk w') = c_RTR_SYNC /\ calm t w w' /\ Inv w') /\
  (forall f w v rest, st (sk w) = c_RTR_ESTABLISHED -> sends w = [] ->
     let wait := Z.max 0 (last_update (sk w) + refresh_iv (sk w) - now w) in
     evs w = EvWait v :: rest -> wait < v ->
     exists w1, fsm_step f w = Ok tt w1 /\ st (sk w1) = c_RTR_SYNC /\ now w1 = now w + wait /\
                opens w1 = opens w /\ sends w1 = [] /\ pfx w1 = pfx w /\ keys w1 = keys w /\ core (sk w1) = core (sk w) /\
                evs w1 = EvWait (v - wait) :: rest) /\
  (forall f w v rest, st (sk w) = c_RTR_SYNC -> evs w = EvWait v :: rest -> c_RTR_RECV_TIMEOUT < v ->
     exists w1, fsm_step (S f) w = Ok tt w1 /\ st (sk w1) = c_RTR_ERROR_TRANSPORT /\ now w1 = now w + c_RTR_RECV_TIMEOUT /\
                opens w1 = opens w /\ sends w1 = sends w /\ pfx w1 = pfx w /\ keys w1 = keys w /\ core (sk w1) = core (sk w) /\
                evs w1 = EvWait (v - c_RTR_RECV_TIMEOUT) :: rest).
Proof. split; [exact reach_sync|]. split; [exact established_quiet|exact sync_quiet]. Qed.

(* (5) The closed loop (Rtr/ConvergeLoop.v).  run_with_cache n fuel c w: the state machine runs against a truthful cache that
   reacts - whenever an iteration ends in SYNC coming from another state (a query has just gone out) the cache's answer to the
   pending query is put in front of the remaining silence - and is otherwise silent; the transport works from now on.
     loop_bound s        max (refresh_iv s) (RTR_RECV_TIMEOUT + retry_iv s)     (<= recovery_bound s)
     converged c B w w'  synced c w' w' (ESTABLISHED; own records = the cache's data set up to order; session, serial the cache's;
                         last_update = now), now w' - now w <= B, records of other sources as in w
   From ANY live world that satisfies the invariant (every world a run of faults can leave behind, C08_inv) the client is
   synchronised after at most 8 iterations and loop_bound of protocol time: ESTABLISHED waits out the refresh timer, polls, is
   answered (delta, or Cache Reset + reload); SYNC with a lost query times out after 60 s, sleeps retry_iv, reconnects (purging if
   the data has expired), asks again, is answered; every error / reconnect state reaches SYNC in <= 3 iterations.
   snapshot_hyp (what the client holds for a serial the cache remembers is the cache's set at that serial) is a hypothesis of
   C08_converge; (6) below proves it for every world reachable through a run whose COMPLETED responses were truthful. *)
Theorem C08_converge : forall (c : cache) (f : nat) (w : world) (silence : Z),
  cache_ok c -> Inv w -> live w -> version (sk w) = c_ver c -> snapshot_hyp c w ->
  (List.length (c_data c) < f)%nat -> (forall k old, In (k, old) (c_hist c) -> (List.length (delta_pdus old (c_data c)) < f)%nat) ->
  0 <= refresh_iv (sk w) ->
  (forall k, nth k (opens w) true = true) -> (1 <= List.length (opens w))%nat -> sends w = [] ->
  evs w = [EvWait silence] -> loop_bound (sk w) < silence ->
  exists n, (n <= 8)%nat /\ converged c (loop_bound (sk w)) w (run_with_cache n (S f) c w).
Proof. exact converge_loop. Qed.

(* the same from every world reachable from rtr_init by any run (any script of faults): the invariant and 0 <= refresh_iv
   are then facts, not hypotheses *)
Theorem C08_converge_reachable : forall (c : cache) (f : nat) (silence : Z) n fuel refresh expire retry mode P K0 es os ss o,
  init_ok refresh expire retry = true ->
  Forall ev_ok es -> NoDup P -> NoDup K0 -> own_p P = [] -> own_k K0 = [] ->
  let w := run_fsm n fuel (start_world refresh expire retry mode P K0 es os ss o) in
  cache_ok c -> live w -> version (sk w) = c_ver c -> snapshot_hyp c w ->
  (List.length (c_data c) < f)%nat -> (forall k old, In (k, old) (c_hist c) -> (List.length (delta_pdus old (c_data c)) < f)%nat) ->
  (forall k, nth k (opens w) true = true) -> (1 <= List.length (opens w))%nat -> sends w = [] ->
  evs w = [EvWait silence] -> loop_bound (sk w) < silence ->
  exists m, (m <= 8)%nat /\ converged c (loop_bound (sk w)) w (run_with_cache m (S f) c w).
Proof. exact converge_reachable. Qed.

(* The statement as first written down in the design round (Rtr/ConvergeProofs.v, C08_converge_full) is FALSE of the model: the
   invariant does not bound refresh_iv from below, and a world with refresh_iv = -1000 (not reachable from rtr_init, but allowed by
   the hypotheses) has a negative recovery_bound.  With 0 <= refresh_iv it holds (weaker than C08_converge in every respect). *)
Theorem C08_converge_full_refuted : ~ C08_converge_full.
Proof. exact C08_converge_full_false. Qed.
Theorem C08_converge_full_repaired_holds : C08_converge_full_repaired.
Proof. exact C08_converge_full_holds. Qed.

(* the hypotheses are satisfiable and the witness runs: ESTABLISHED with data, the cache has moved on (non-vacuous snapshot_hyp) *)
Example C08_converge_example := converge_loop_example_established.

(* (6) The snapshot property (Rtr/Snapshot.v).  H : session -> serial -> prefix set -> key set -> Prop is what the cache has ever
   published (any relation; functional up to order where stated).
     Snap H w                  req_sess = false -> the client's own records are, up to order, a published version at its (session, serial)
     truthful_response H w ..  the response the client completed in w names a published version (P', K') at (End of Data session,
                               serial) and: Reset Query pending -> the announced sets are (P', K'); else -> its delta applied to any
                               arrangement of any published version at the client's (session, serial) gives (P', K')
     truthful_run H n fuel w   in each of the first n iterations, IF rtr_sync succeeds, the response it received was truthful
                               (nothing is asked of responses that fail, are cut, malformed, foreign, or never complete)
   C08_snapshot: from rtr_init, through ANY environment script (faults of every kind), Snap holds after every iteration.
   The wire-level truthful cache of Rtr/CacheSpec.v satisfies truthful_response (C08_answer_truthful_reset / _delta). *)
Theorem C08_snapshot : forall (H : pub) n fuel refresh expire retry mode P K0 es os ss o,
  init_ok refresh expire retry = true -> Forall ev_ok es -> NoDup P -> NoDup K0 -> own_p P = [] -> own_k K0 = [] ->
  let w0 := start_world refresh expire retry mode P K0 es os ss o in
  truthful_run H n fuel w0 -> Snap H (run_fsm n fuel w0).
Proof. exact snapshot_from_init. Qed.

Theorem C08_snapshot_step : forall (H : pub) fuel w, Inv w -> Snap H w -> truthful_step H fuel w -> Snap H (fst (fsm_iter fuel w)).
Proof. exact fsm_iter_Snap. Qed.

Theorem C08_snapshot_gives_hyp : forall (H : pub) c w, Snap H w ->
  (forall n old, lookup n (c_hist c) = Some old -> H (c_session c) n (precs old) (krecs old)) -> pub_functional H -> snapshot_hyp c w.
Proof. exact Snap_snapshot_hyp. Qed.

Theorem C08_answer_truthful_reset : forall (H : pub) c w, cache_ok c -> req_sess (sk w) = true ->
  H (c_session c) (c_serial c) (precs (c_data c)) (krecs (c_data c)) ->
  truthful_response H w (cache_response_pdu c) (eod_pdu c) (filter is_v4 (c_data c)) (filter is_v6 (c_data c)) (filter is_key (c_data c)).
Proof. exact answer_truthful_reset. Qed.

Theorem C08_answer_truthful_delta : forall (H : pub) c w old, cache_ok c -> pub_functional H -> req_sess (sk w) = false ->
  session_id (sk w) = c_session c -> lookup (serial (sk w)) (c_hist c) = Some old ->
  H (c_session c) (serial (sk w)) (precs old) (krecs old) -> H (c_session c) (c_serial c) (precs (c_data c)) (krecs (c_data c)) ->
  let ds := delta_pdus old (c_data c) in
  truthful_response H w (cache_response_pdu c) (eod_pdu c) (filter is_v4 ds) (filter is_v6 ds) (filter is_key ds).
Proof. exact answer_truthful_delta. Qed.

(* (7) C08 in full: after ANY finite run of faults from rtr_init (n iterations under any script) in which the responses the
   client completed were truthful w.r.t. what the cache published, with the cache's remembered history among the published
   versions: once the transport works and the cache answers truthfully, the client is ESTABLISHED with exactly the cache's current
   data, session and serial after at most 8 iterations and max (refresh_iv, 60 + retry_iv) seconds; other sources untouched.
   No hypothesis about the client's state is left. *)
Theorem C08_converge_after_any_faults : forall (H : pub) (c : cache) (f : nat) (silence : Z) n fuel refresh expire retry mode P K0 es os ss o,
  init_ok refresh expire retry = true -> Forall ev_ok es -> NoDup P -> NoDup K0 -> own_p P = [] -> own_k K0 = [] ->
  let w0 := start_world refresh expire retry mode P K0 es os ss o in let w := run_fsm n fuel w0 in
  truthful_run H n fuel w0 ->
  (forall k old, lookup k (c_hist c) = Some old -> H (c_session c) k (precs old) (krecs old)) -> pub_functional H ->
  cache_ok c -> live w -> version (sk w) = c_ver c ->
  (List.length (c_data c) < f)%nat -> (forall k old, In (k, old) (c_hist c) -> (List.length (delta_pdus old (c_data c)) < f)%nat) ->
  (forall k, nth k (opens w) true = true) -> (1 <= List.length (opens w))%nat -> sends w = [] ->
  evs w = [EvWait silence] -> loop_bound (sk w) < silence ->
  exists m, (m <= 8)%nat /\ converged c (loop_bound (sk w)) w (run_with_cache m (S f) c w).
Proof. exact C08_converge_no_snapshot_hyp. Qed.

(* non-vacuity: a run with a Reset Query answered, the refresh timer, a Serial Query answered by a delta: truthful_run holds, both
   synchronisations succeed, Snap holds with req_sess = false at both serials (Rtr/Snapshot.v, by evaluation) *)
Example C08_snapshot_example := snapshot_example_delta.
Example C08_converge_after_any_faults_example := converge_no_snapshot_hyp_example.

Print Assumptions C08_no_stutter.
Print Assumptions C08_no_stutter_iter.
Print Assumptions C08_zero_time_bounded.
Print Assumptions C08_inv.
Print Assumptions C08_receive_any_chunking.
Print Assumptions C08_one_good_exchange.
Print Assumptions C08_one_good_exchange_example.
Print Assumptions C08_converge_partial.
Print Assumptions C08_zero_time_example.
Print Assumptions C08_reconnect_paced.
Print Assumptions C08_converge.
Print Assumptions C08_converge_reachable.
Print Assumptions C08_converge_full_refuted.
Print Assumptions C08_converge_full_repaired_holds.
Print Assumptions C08_snapshot.
Print Assumptions C08_snapshot_gives_hyp.
Print Assumptions C08_answer_truthful_delta.
Print Assumptions C08_converge_after_any_faults.
