(* Properties_C14.v - "Every PDU sent is well-formed; error reports echo the offending PDU exactly".
   Theorems about the executable RTR model (Rtr/RtrModel.v), which is tied to /repo by the correspondence
   run of tools/props/C14.py on every check.  Proofs: Rtr/SendBase.v, Rtr/SendProofs.v, Rtr/SendSites.v. *)
From RtrV Require Rtr.FsmTie3 Rtr.FsmTie Gen.GeneratedSend Rtr.SendTie Rtr.SendTieErr.
From RtrV Require Import Base.CSem Gen.Generated Rtr.RtrModel Rtr.RelFrame Rtr.RecvBase Rtr.SendBase Rtr.RecvProofs
     Rtr.SendProofs Rtr.SendSites.
From RtrV Require Rtr.SendExamples.   (* concrete runs: the hypotheses below are satisfiable, the conclusions exact *)
Local Open Scope Z_scope.

(* ---- (1) what the model builds ---- *)
(* wf_pdu v b: b is ONE complete PDU: >= 8 bytes, version byte v, big-endian length field = number of bytes
   <= RTR_MAX_PDU_LEN, type Serial Query / Reset Query / Error Report, header made of bytes. *)
Theorem C14_queries_wf : forall s : sock,
  wf_pdu (version s mod 256) (serial_query_bytes s) /\ wf_pdu (version s mod 256) (reset_query_bytes s) /\
  (0 <= session_id s < 65536 -> 0 <= serial s < 4294967296 ->
   get16 (serial_query_bytes s) 2 = session_id s /\ get32 (serial_query_bytes s) 8 = serial s /\ zlen (serial_query_bytes s) = 12).
Proof. exact queries_wf. Qed.

(* the byte strings are the ones the model's query functions hand to send_pdu *)
Theorem C14_query_bytes :
  send_serial_query = (mdo s <- get_sk; mdo r <- send_pdu (serial_query_bytes s);
                       if r =? 0 then ret 0 else mdo _ <- change_state c_RTR_ERROR_TRANSPORT; ret (-1)) /\
  send_reset_query = (mdo s <- get_sk; mdo r <- send_pdu (reset_query_bytes s);
                      if r =? 0 then ret 0 else mdo _ <- change_state c_RTR_ERROR_TRANSPORT; ret (-1)).
Proof. exact query_bytes. Qed.

Theorem C14_reports_wf : forall v code enc text,
  0 <= code < 65536 -> 16 + zlen enc + zlen text <= c_RTR_MAX_PDU_LEN ->
  let b := error_report v code enc text in
  wf_pdu (v mod 256) b /\
  nthb b 1 = c_ERROR /\ get16 b 2 = code /\ get32 b 4 = 16 + zlen enc + zlen text /\ get32 b 8 = zlen enc /\
  firstn (List.length enc) (skipn 12 b) = enc /\ get32 b (12 + List.length enc) = zlen text /\
  skipn (16 + List.length enc) b = text /\ zlen b = 16 + zlen enc + zlen text.
Proof. exact reports_wf. Qed.

(* send_error_pdu builds exactly error_report (socket version) code enc text, unless the offending PDU is an Error Report *)
Theorem C14_report_bytes : forall enc code text w, ~ shut w ->
  match send_error_pdu enc code text w with
  | Ok r w' =>
      frame_send w w' /\
      if is_err_pdu enc then w' = w /\ r = 0
      else exists g c, out w' = rev g ++ out w /\ attempt (error_report (version (sk w)) code enc text) c g /\ r = (if c then 0 else -1)
  | Exc _ _ => False
  end.
Proof. exact send_error_pdu_spec. Qed.

(* ---- (2) tr_send_all, whatever the transport's partial writes and errors ---- *)
Theorem C14_send_all : forall b w, b <> [] ->
  match tr_send_all b w with
  | Ok r w' =>
      frame_send w w' /\
      exists g, out w' = rev g ++ out w /\ attempt b (r >? 0) g /\ (r >? 0 = true -> r = zlen b)
  | Exc _ _ => False
  end.
Proof. exact tr_send_all_spec. Qed.
(* ... in terms of the bytes: a prefix of b, all of b exactly when the result is > 0 *)
Theorem C14_send_all_bytes : forall b c g, attempt b c g ->
  exists rest, b = sent_of g ++ rest /\ (c = true -> rest = []) /\ (c = false -> rest <> []).
Proof. exact attempt_sent. Qed.

(* ---- (3) whole model, every environment, every run length ---- *)
Theorem C14_run_attempts : forall n fuel refresh expire retry mode P K es os ss,
  exists lo, 0 <= lo <= c_RTR_PROTOCOL_MAX_SUPPORTED_VERSION /\
    sent_ok c_RTR_PROTOCOL_MAX_SUPPORTED_VERSION lo (run_script n fuel refresh expire retry mode P K es os ss).
Proof. exact run_script_sent. Qed.
Theorem C14_run_stream : forall n fuel refresh expire retry mode P K es os ss,
  sent_stream 1 0 (sent_of (run_script n fuel refresh expire retry mode P K es os ss)).
Proof. exact run_script_stream. Qed.
(* and step-wise: from any world, whatever fsm_step does *)
Theorem C14_fsm_step : forall fuel w, match fsm_step fuel w with Ok _ w' => S w w' | Exc _ w' => S w w' end.
Proof. exact fsm_step_S. Qed.

(* ---- (4) one report per violation class ---- *)
(* 1, 2: length field < 8 / > RTR_MAX_PDU_LEN: CORRUPT_DATA (0), the 8 header bytes as received *)
Theorem C14_report_bad_length : forall t w w1 h, ~ shut w -> tr_recv_all 8 t w = Ok (inr h) w1 ->
  get32 h 4 < 8 \/ get32 h 4 > c_RTR_MAX_PDU_LEN ->
  exists w', receive_pdu t w = Ok (inl (-1)) w' /\
    Q (report_for h (version (sk w)) c_CORRUPT_DATA (if get32 h 4 <? 8 then txt_too_small else txt_too_big)) w1 w' /\
    st (sk w') = c_RTR_ERROR_FATAL /\ T w w'.
Proof. exact report_bad_length. Qed.
(* 3: length inconsistent with the type, unknown / reserved type: CORRUPT_DATA (0), header as received *)
Theorem C14_report_bad_size : forall t w w1 h, ~ shut w -> tr_recv_all 8 t w = Ok (inr h) w1 ->
  forall body w3,
  8 <= get32 h 4 <= c_RTR_MAX_PDU_LEN ->
  nthb h 0 = version (sk (hdr_world w1 h)) \/ nthb h 1 = c_ERROR ->
  (if get32 h 4 - 8 >? 0 then tr_recv_all (get32 h 4 - 8) c_RTR_RECV_TIMEOUT (hdr_world w1 h) else Ok (inr []) (hdr_world w1 h))
    = Ok (inr body) w3 ->
  check_size (h ++ body) = false ->
  exists w', receive_pdu t w = Ok (inl (-1)) w' /\
    Q (report_for h (version (sk (hdr_world w1 h))) c_CORRUPT_DATA txt_too_small) w3 w' /\
    st (sk w') = c_RTR_ERROR_FATAL /\ T w w'.
Proof. exact report_bad_size. Qed.
(* 4: unexpected protocol version: UNEXPECTED_PROTOCOL_VERSION (8), header as received, no text *)
Theorem C14_report_bad_version : forall t w w1 h, ~ shut w -> tr_recv_all 8 t w = Ok (inr h) w1 ->
  8 <= get32 h 4 <= c_RTR_MAX_PDU_LEN ->
  nthb h 0 <> version (sk (hdr_world w1 h)) -> nthb h 1 <> c_ERROR ->
  exists w', receive_pdu t w = Ok (inl (-1)) w' /\
    Q [error_report (version (sk w)) c_UNEXPECTED_PROTOCOL_VERSION h []] w1 w' /\
    st (sk w') = st (sk w) /\ T w w'.
Proof. exact report_bad_version. Qed.
(* 5: wrong session id in a Cache Response: CORRUPT_DATA, NO encapsulated PDU (k = 0) *)
Theorem C14_report_wrong_session : forall fuel w w1 p, sync_first fuel w = Ok (Some p) w1 -> ~ shut w1 ->
  nthb p 1 = c_CACHE_RESPONSE -> req_sess (sk w1) = false -> session_id (sk w1) <> get16 p 2 ->
  exists w', rtr_sync fuel w = Ok (-1) w' /\
    Q [error_report (version (sk w1)) c_CORRUPT_DATA [] txt_wrong_session] w1 w' /\
    st (sk w') = c_RTR_ERROR_FATAL /\ T w1 w'.
Proof. exact report_wrong_session. Qed.
(* 6: unexpected PDU where the answer should start: CORRUPT_DATA, the 8 header bytes *)
Theorem C14_report_unexpected_in_sync : forall fuel w w1 p, sync_first fuel w = Ok (Some p) w1 -> ~ shut w1 ->
  nthb p 1 <> c_ERROR -> nthb p 1 <> c_CACHE_RESET -> nthb p 1 <> c_CACHE_RESPONSE ->
  exists w', rtr_sync fuel w = Ok (-1) w' /\
    Q [error_report (version (sk w1)) c_CORRUPT_DATA (firstn 8 p) txt_unexp_sync] w1 w' /\
    sk w' = sk w1 /\ T w1 w'.
Proof. exact report_unexpected_in_sync. Qed.
(* 7: unexpected PDU inside an answer: CORRUPT_DATA, the 8 header bytes *)
Theorem C14_report_unexpected_in_store : forall f v4 v6 ks w w1 p,
  receive_pdu c_RTR_RECV_TIMEOUT w = Ok (inr p) w1 -> ~ shut w1 ->
  ~ In (nthb p 1) [c_IPV4_PREFIX; c_IPV6_PREFIX; c_ROUTER_KEY; c_EOD; c_ERROR; c_SERIAL_NOTIFY] ->
  exists w', store_loop (Datatypes.S f) v4 v6 ks w = Ok (-1) w' /\
    Q [error_report (version (sk w1)) c_CORRUPT_DATA (firstn 8 p) txt_unexp_store] w1 w' /\
    sk w' = sk w1 /\ T w1 w'.
Proof. exact report_unexpected_in_store. Qed.
(* 8: prefix length / max length beyond the address size: CORRUPT_DATA, the whole PDU *)
Theorem C14_report_prefix_length : forall f v4 v6 ks w w1 p,
  receive_pdu c_RTR_RECV_TIMEOUT w = Ok (inr p) w1 -> ~ shut w1 ->
  nthb p 1 = c_IPV4_PREFIX \/ nthb p 1 = c_IPV6_PREFIX -> prefix_lengths_valid p = false ->
  exists w', store_loop (Datatypes.S f) v4 v6 ks w = Ok (-1) w' /\
    Q [error_report (version (sk w1)) c_CORRUPT_DATA p txt_pfx_len] w1 w' /\
    st (sk w') = c_RTR_ERROR_FATAL /\ T w1 w'.
Proof. exact report_prefix_length. Qed.
(* 12: End of Data of another session: CORRUPT_DATA, the whole PDU *)
Theorem C14_report_eod_session : forall p v4 v6 ks w,
  ~ shut w -> 8 <= zlen p -> nthb p 1 <> c_ERROR -> get16 p 2 <> session_id (sk w) ->
  exists w', process_eod p v4 v6 ks w = Ok (-1) w' /\
    Q [error_report (version (sk w)) c_CORRUPT_DATA p (txt_eod_session (session_id (sk w)) (get16 p 2))] w w' /\
    st (sk w') = c_RTR_ERROR_FATAL /\ T w w'.
Proof. exact report_eod_session. Qed.
(* 9, 10, 11: invalid flags (CORRUPT_DATA + text), duplicate announcement (DUPLICATE_ANNOUNCEMENT, 7),
   withdrawal of an unknown record (WITHDRAWAL_OF_UNKNOWN_RECORD, 6): the whole PDU, exactly one report per
   failed answer, none for an answer that applies *)
Theorem C14_report_updates : forall p v4 v6 ks w,
  ~ shut w -> get16 p 2 = session_id (sk w) -> Forall reportable v4 -> Forall reportable v6 -> Forall reportable ks ->
  exists r w' l, process_eod p v4 v6 ks w = Ok r w' /\ Q l w w' /\
    ((r = 0 /\ l = []) \/
     (r = -1 /\ st (sk w') = c_RTR_ERROR_FATAL /\
      exists bad c k, In bad (v4 ++ v6 ++ ks) /\ update_class bad c /\ l = [update_report (version (sk w)) bad c k])).
Proof. exact report_updates. Qed.
(* the class -> code table of the update failures *)
Theorem C14_update_codes :
  upd_code 3 = c_CORRUPT_DATA /\ upd_code 1 = c_DUPLICATE_ANNOUNCEMENT /\ upd_code 2 = c_WITHDRAWAL_OF_UNKNOWN_RECORD /\
  upd_text 3 false = txt_pfx_flags /\ upd_text 3 true = txt_key_flags /\ upd_text 1 false = [] /\ upd_text 2 false = [] /\
  upd_text 1 true = [] /\ upd_text 2 true = [].
Proof. exact update_codes. Qed.
(* what Q says: exactly these send attempts, nothing else handed to the transport *)
Theorem C14_Q_meaning : forall l w w', Q l w w' ->
  (exists items, out w' = rev items ++ out w /\ attempts l items) /\ version (sk w') = version (sk w).
Proof. exact Q_meaning. Qed.
(* no report in reply to an Error Report *)
Theorem C14_no_report_for_error : forall enc v code text, is_err_pdu enc = true -> report_for enc v code text = [].
Proof. exact no_report_for_error. Qed.

(* ---- (5) where sent bytes come from ---- *)
Theorem C14_bytes : forall v code (enc text : list byte), Forall byte_ok enc -> Forall byte_ok text ->
  Forall byte_ok (error_report v code enc text) /\
  error_report v code enc text =
    [v mod 256; c_ERROR] ++ enc16 code ++ enc32 (16 + zlen enc + zlen text) ++ enc32 (zlen enc) ++ enc ++ enc32 (zlen text) ++ text.
Proof. exact error_report_bytes. Qed.

(* which Error Report rtr_receive_pdu sends for which violation (length below a header, above the maximum, wrong for the type, unknown
   type, inconsistent Error Report lengths): the function is translated on every run (Gen/GeneratedFsm3.v) and TESTED inside Coq against
   the model on closed scripts - result, trace with the report's bytes, buffer (evaluation, not a theorem; Rtr/FsmTie3.v) *)
Example C14_receive_pdu_report_tests := Rtr.FsmTie3.recv_rejects.

(* Tie (a) for the send path.  rtr_send_pdu, rtr_send_serial_query, rtr_send_reset_query, rtr_send_error_pdu and its two wrappers are
   translated from /repo on every run (tools/c2v_send.py -> Gen/GeneratedSend.v: variable-length array locals as objects of symbolic
   size with every access guarded, struct locals with field stores at the probed offsets, memcpy, the translated byte-order conversions
   towards the network reused, tr_send_all as the external call that receives the buffer's bytes).  Rtr/SendTie.v, for EVERY world:
     the 12 bytes of the Serial Query / the 8 of the Reset Query, the state change on a failed write and the result are the model's
     (C14_serial_query_translated, C14_reset_query_translated: every version, session id, serial number, the C truncations included);
     rtr_send_pdu: SHUTDOWN guard, copy into the VLA, conversion of the copy, result mapping (C14_send_pdu_translated).
   PARTIAL for the Error Report builder (Rtr/SendTieErr.v): the wrappers are tied for all inputs (from_network = rtr_send_error_pdu;
   from_host with length 0 or < 8), but that the message rtr_send_error_pdu builds equals the model's error_report is checked by
   evaluation on closed inputs only (with / without encapsulated PDU and text, maximum sizes, partial writes, the no-report-in-reply-
   to-a-report guard; from_host echoing every PDU type byte-exactly) - a test of the translated code, not a theorem.
   Differences found, both outside what the call sites pass: 16 + el + tl is computed in unsigned int without a bound (wraps for
   el >= 2^32 - 16: the C is undefined, the model sends); from_host with 8 < el < the PDU's size converts bytes behind the copy. *)
Theorem C14_serial_query_translated : forall w, (0 <= st (sk w) < 2^32)%Z ->
  Rtr.SendTie.interpS (Gen.GeneratedSend.rtr_send_serial_query_gen (Rtr.FsmTie.sock_store (sk w))) w =
  Some (Rtr.FsmTie.as_eff (fun r => r) send_serial_query w).
Proof. exact Rtr.SendTie.send_serial_query_tie. Qed.

Theorem C14_reset_query_translated : forall w, (0 <= st (sk w) < 2^32)%Z ->
  Rtr.SendTie.interpS (Gen.GeneratedSend.rtr_send_reset_query_gen (Rtr.FsmTie.sock_store (sk w))) w =
  Some (Rtr.FsmTie.as_eff (fun r => r) send_reset_query w).
Proof. exact Rtr.SendTie.send_reset_query_tie. Qed.

Theorem C14_send_pdu_translated : forall m b w, (0 < zlen m < 2^32)%Z -> (0 <= st (sk w) < 2^32)%Z ->
  Gen.GeneratedSend.rtr_pdu_to_network_byte_order_gen m (Some 0%Z) = Some b ->
  Rtr.SendTie.interpS (Gen.GeneratedSend.rtr_send_pdu_gen m (Some 0%Z) (zlen m) (Rtr.FsmTie.sock_store (sk w))) w =
  Some (Rtr.FsmTie.as_eff (fun r => r) (send_pdu b) w).
Proof. exact Rtr.SendTie.send_pdu_tie'. Qed.

Theorem C14_error_from_network_translated : forall mE pe el code mT pt tl s w,
  Rtr.SendTie.interpS (Gen.GeneratedSend.rtr_send_error_pdu_from_network_gen mE pe el code mT pt tl s) w =
  Rtr.SendTie.interpS (Gen.GeneratedSend.rtr_send_error_pdu_gen mE pe el code mT pt tl s) w.
Proof. exact Rtr.SendTieErr.send_error_pdu_from_network_tie. Qed.

(* the evaluation part, in this property's cone *)
Example C14_error_report_translation_tests :=
  (Rtr.SendTieErr.error_pdu_reports, Rtr.SendTieErr.error_pdu_guard, Rtr.SendTieErr.from_network_reports, Rtr.SendTieErr.from_host_reports,
   Rtr.SendTie.send_translator_clean).

Print Assumptions C14_queries_wf.
Print Assumptions C14_query_bytes.
Print Assumptions C14_reports_wf.
Print Assumptions C14_report_bytes.
Print Assumptions C14_send_all.
Print Assumptions C14_send_all_bytes.
Print Assumptions C14_run_attempts.
Print Assumptions C14_run_stream.
Print Assumptions C14_fsm_step.
Print Assumptions C14_report_bad_length.
Print Assumptions C14_report_bad_size.
Print Assumptions C14_report_bad_version.
Print Assumptions C14_report_wrong_session.
Print Assumptions C14_report_unexpected_in_sync.
Print Assumptions C14_report_unexpected_in_store.
Print Assumptions C14_report_prefix_length.
Print Assumptions C14_report_eod_session.
Print Assumptions C14_report_updates.
Print Assumptions C14_update_codes.
Print Assumptions C14_Q_meaning.
Print Assumptions C14_no_report_for_error.
Theorem C14_texts_bytes :
  Forall byte_ok txt_too_small /\ Forall byte_ok txt_too_big /\ Forall byte_ok txt_pfx_flags /\ Forall byte_ok txt_key_flags /\
  Forall byte_ok txt_pfx_len /\ Forall byte_ok txt_unexp_store /\ Forall byte_ok txt_unexp_sync /\ Forall byte_ok txt_wrong_session.
Proof. exact texts_bytes. Qed.

Print Assumptions C14_bytes.
Print Assumptions C14_texts_bytes.
Print Assumptions C14_serial_query_translated.
Print Assumptions C14_reset_query_translated.
Print Assumptions C14_send_pdu_translated.
Print Assumptions C14_error_from_network_translated.
