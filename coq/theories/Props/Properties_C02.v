(* C02 - The prefix table is an exact set of records under every operation history.

   For every history of add / remove / remove-by-source (records with zero host bits, both
   families, any number of sources): the model never runs out of fuel, the result codes are the
   Spec's, the enumeration (in-order walk = pfx_table_for_each_ipv4/6_record) is a permutation of the Spec's
   set and holds no record twice; a rejected add / remove leaves the table syntactically unchanged;
   records are distinct exactly when one of their five fields differs.                        *)
From RtrV Require Import Pfx.TrieModel Pfx.PfxTable Pfx.PfxProofs Pfx.PfxHistory.
From Coq Require Import Permutation.

Theorem C02_history : forall ops, Forall op_ok ops ->
  exists T cs cbs, run empty_table ops = Some (T, cs, cbs) /\
    Permutation (trecords T) (fst (sp_run [] ops)) /\ cs = snd (sp_run [] ops) /\ NoDup (trecords T).
Proof. exact c02_history. Qed.

Theorem C02_no_change : forall ops T cs cbs r,
  Forall op_ok ops -> run empty_table ops = Some (T, cs, cbs) -> rec_ok r ->
  (snd (fst (tadd T r)) <> SUCCESS -> snd (fst (tadd T r)) = DUP /\ fst (fst (tadd T r)) = T /\ In r (fst (sp_run [] ops))) /\
  (snd (fst (tremove T r)) <> SUCCESS -> snd (fst (tremove T r)) = NOTFOUND /\ fst (fst (tremove T r)) = T /\ ~ In r (fst (sp_run [] ops))).
Proof. exact c02_no_change. Qed.

Theorem C02_distinct : forall a b : frecord, frec_eqb a b = true <-> a = b.
Proof. exact c02_distinct. Qed.

Print Assumptions C02_history.
Print Assumptions C02_no_change.
Print Assumptions C02_distinct.
