(* C06 - A full reload replaces a cache's data atomically for concurrent readers.

   Setting (on top of C16's rwlock semantics and linearizability theorem): ONE synchronising thread runs a list of
   operations [sync_ops]; ANY NUMBER of reader threads run arbitrary lists of queries; a query = one critical
   section under the READ lock of the table it asks (pfx_table_validate_r, spki_table_get_all, ... : checked on the
   lock skeletons below).  [ver j] = the tables after the first j operations of the synchronising thread.

   C06_general   every answer of a reader equals its query on [ver j] for some j, and these j never decrease along the
                 reader's own sequence of queries;
   C06_written_once / C06   if each table is written by exactly ONE operation of the synchronising thread (the swap),
                 [ver j] takes only two values per table - the complete OLD and the complete NEW contents - so every
                 answer is the OLD or the NEW answer, a query whose answer is the same under both sets gets that answer
                 at all times, and per table a reader never sees NEW and afterwards OLD ([olog]: the phase of a table
                 only ever switches from OLD to NEW).  Never empty / half loaded unless OLD or NEW is.
   C06_reload_writes_main_once   why the hypothesis holds: (model) in reset mode the end-of-data processing of
                 Rtr/RtrModel.v leaves the main tables untouched, or replaces both as a whole by the tables built aside,
                 or (fallback after a failed rollback) purges this socket's records; (code) on the regenerated lock
                 skeletons pfx_table_swap / spki_table_swap are ONE write-locked critical section on the main table,
                 the copy and diff functions never write it, the reader functions are one read-only section.
   C06_instance  the reload as operations on the two main tables; its NEW tables are the model's NEW tables.
                 NOTE: prefix table and router-key table are swapped in two separate critical sections: atomicity is
                 per table (each query reads one table).
   C06_when      a Cache Response that arrives while the socket requests a new session (set by a Cache Reset:
                 C06_when_cache_reset) and has synchronised before (last_update <> 0) is processed in reset mode: the
                 main tables change only as a whole.
   C06_data_implies_synchronised   "holds data implies last_update <> 0" in every world any run of the state machine reaches
                 (part of C07's invariant Inv, Rtr/ExpirySync.v): so every reload of a cache that already supplied data -
                 the case the property is about - is processed in reset mode.                                            *)
From Coq Require Import List Bool ZArith.
Import ListNotations.
From RtrV Require Import Conc.RwLock Conc.ConcProofs Rtr.RtrModel Conc.LockCheck Conc.Reload.
From RtrV Require Rtr.SyncSets Rtr.ExpirySync Rtr.ExpiryProofs.

Section Generic.
Variable K : Type.
Variable Keqb : K -> K -> bool.
Hypothesis Keqb_spec : forall a b, Keqb a b = true <-> a = b.
Variables (St Ans P : Type).
Variable sync_ops : list (op K St (L Ans P)).
Hypothesis sync_ok : forallb op_ok sync_ops = true.
Variable s0 : RwLock.store K St.
Variable p0 : P.
Variable readers : list (list (query K St Ans)).

Notation start := (s0, ainit K St (L Ans P) (ats0 K St Ans P sync_ops p0 readers)).

(* every schedule; readers are the threads after the first; a reader between two queries (holding no lock) has
   completed the queries [dq] with the answers [fst (loc t)] *)
Theorem C06_general : forall c, steps Keqb start c ->
  Forall2 (fun qs0 t => holds t = [] ->
             exists dq rq j, qs0 = dq ++ rq /\ todo t = compile_all (map (qop K St Ans P) rq) /\
                             rlog K Keqb St Ans P sync_ops s0 p0 j dq (fst (loc t)))
          readers (tl (snd c)).
Proof. exact (reload_general K Keqb Keqb_spec St Ans P sync_ops sync_ok s0 p0 readers). Qed.

(* [once l i]: table l has its OLD contents up to the i-th prefix and its final contents afterwards *)
Theorem C06_written_once : forall l pre w post,
  sync_ops = pre ++ w :: post ->
  forallb (fun o => negb (writes_tab K Keqb St Ans P l o)) (pre ++ post) = true ->
  forall j, ver K Keqb St Ans P sync_ops s0 p0 j l =
            if (j <=? length pre)%nat then s0 l else ver K Keqb St Ans P sync_ops s0 p0 (length sync_ops) l.
Proof. exact (written_once K Keqb Keqb_spec St Ans P sync_ops sync_ok s0 p0). Qed.

Theorem C06 : forall (idx : K -> nat) c,
  (forall qs q, In qs readers -> In q qs -> once K Keqb St Ans P sync_ops s0 p0 (fst q) (idx (fst q))) ->
  steps Keqb start c ->
  Forall2 (fun qs0 t => holds t = [] ->
             exists dq rq ph, qs0 = dq ++ rq /\ todo t = compile_all (map (qop K St Ans P) rq) /\
                              olog K Keqb St Ans P sync_ops s0 p0 ph dq (fst (loc t)))
          readers (tl (snd c)).
Proof. exact (reload_atomic_for_readers K Keqb Keqb_spec St Ans P sync_ops sync_ok s0 p0 readers). Qed.

(* what an [olog] says, spelled out: OLD answer or NEW answer, nothing else ... *)
Theorem C06_old_or_new : forall ph qs ans, olog K Keqb St Ans P sync_ops s0 p0 ph qs ans ->
  Forall2 (fun q a => a = snd q (s0 (fst q)) \/
                      a = snd q (ver K Keqb St Ans P sync_ops s0 p0 (length sync_ops) (fst q))) qs ans.
Proof. exact (olog_old_or_new K Keqb St Ans P sync_ops s0 p0). Qed.

(* ... and a query whose answer is the same under both sets gets that answer *)
Theorem C06_same_answer : forall ph qs ans, olog K Keqb St Ans P sync_ops s0 p0 ph qs ans ->
  Forall2 (fun q a => snd q (s0 (fst q)) = snd q (ver K Keqb St Ans P sync_ops s0 p0 (length sync_ops) (fst q)) ->
                      a = snd q (s0 (fst q))) qs ans.
Proof. exact (olog_same K Keqb St Ans P sync_ops s0 p0). Qed.
End Generic.

(* reload_writes_main_once, model side *)
Theorem C06_reload_writes_main_once : forall p v4 v6 ks w,
  resetting (sk w) = true ->
  match process_eod p v4 v6 ks w with
  | Ok z w' => (z = 0%Z /\ reload_new (tabs w) v4 v6 ks = Some (tabs w')) \/
               (z <> 0%Z /\ (tabs w' = tabs w \/ tabs w' = purged (tabs w)))
  | Exc _ w' => tabs w' = tabs w \/ tabs w' = purged (tabs w)
  end.
Proof. exact reload_model. Qed.

(* reload_writes_main_once, code side (lock skeletons of this run) *)
Theorem C06_reload_skeletons : reload_skeleton_check = true.
Proof. exact instance_reload_skeleton. Qed.

(* the instance: readers of the prefix table (false) and the router-key table (true) against the reload *)
Theorem C06_instance : forall (Ans : Type) v4 v6 ks oldP oldK (readers : list (list (query bool tbl Ans))) c,
  steps Bool.eqb (st0 oldP oldK, ainit bool tbl (L Ans shadow) (ats0 bool tbl Ans shadow (reload_ops Ans v4 v6 ks) sh0 readers)) c ->
  Forall2 (reader_sees_old_new bool Bool.eqb tbl Ans shadow (reload_ops Ans v4 v6 ks) (st0 oldP oldK) sh0) readers (tl (snd c)).
Proof. exact reload_instance. Qed.

Theorem C06_instance_once : forall (Ans : Type) v4 v6 ks oldP oldK k,
  once bool Bool.eqb tbl Ans shadow (reload_ops Ans v4 v6 ks) (st0 oldP oldK) sh0 k (swap_index k).
Proof. exact reload_ops_once. Qed.

Theorem C06_instance_new_is_model_new : forall (Ans : Type) v4 v6 ks oldP oldK P3 K1,
  reload_new (oldP, oldK) v4 v6 ks = Some (P3, K1) ->
  new_tab bool Bool.eqb tbl Ans shadow (reload_ops Ans v4 v6 ks) (st0 oldP oldK) sh0 false = TP P3 /\
  new_tab bool Bool.eqb tbl Ans shadow (reload_ops Ans v4 v6 ks) (st0 oldP oldK) sh0 true = TK K1.
Proof. exact reload_ops_new. Qed.

Theorem C06_when : forall fuel w,
  req_sess (sk w) = true -> last_update (sk w) <> 0%Z ->
  exists v4 v6 ks,
    match rtr_sync fuel w with
    | Ok z w' => (z = 0%Z /\ reload_new (tabs w) v4 v6 ks = Some (tabs w')) \/
                 (z <> 0%Z /\ (tabs w' = tabs w \/ tabs w' = purged (tabs w)))
    | Exc _ w' => tabs w' = tabs w \/ tabs w' = purged (tabs w)
    end.
Proof. exact when_reset_mode. Qed.

Theorem C06_when_cache_reset : forall fuel w,
  st (sk w) = Generated.c_RTR_ERROR_NO_INCR_UPDATE_AVAIL ->
  match fsm_step fuel w with
  | Ok _ w' | Exc _ w' =>
      req_sess (sk w') = true /\
      ((last_update (sk w') = last_update (sk w) /\ tabs w' = tabs w) \/
       (last_update (sk w') = 0%Z /\ tabs w' = purged (tabs w)))
  end.
Proof. exact when_cache_reset. Qed.

(* every reachable world (any environment script, any number of iterations, stops included) that holds a record of this socket
   has synchronised before: last_update <> 0, the second hypothesis of C06_when *)
Theorem C06_data_implies_synchronised : forall n fuel w, Rtr.ExpirySync.Inv w ->
  let w' := run_fsm n fuel w in
  (Rtr.SyncSets.own_p (pfx w') <> [] \/ Rtr.SyncSets.own_k (keys w') <> []) -> last_update (sk w') <> 0%Z.
Proof.
  intros n fuel w HI w' Hd E.
  destruct (Rtr.ExpiryProofs.run_fsm_Inv n fuel w HI) as (_ & _ & _ & Hn).
  destruct (Hn E) as (Ep & Ek). destruct Hd as [Hd|Hd]; [apply Hd, Ep|apply Hd, Ek].
Qed.

Print Assumptions C06_general.
Print Assumptions C06_written_once.
Print Assumptions C06.
Print Assumptions C06_old_or_new.
Print Assumptions C06_same_answer.
Print Assumptions C06_reload_writes_main_once.
Print Assumptions C06_reload_skeletons.
Print Assumptions C06_instance.
Print Assumptions C06_instance_once.
Print Assumptions C06_instance_new_is_model_new.
Print Assumptions C06_when.
Print Assumptions C06_when_cache_reset.
Print Assumptions C06_data_implies_synchronised.
