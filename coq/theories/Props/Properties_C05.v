(* C05 - Queries carry the last completed session and serial; foreign sessions are refused.

   Model: Rtr/RtrModel.v (rtr_send_serial_query / rtr_send_reset_query, rtr_sync, the state machine fsm_step /
   run_fsm, rtr_stop, rtr_purge_outdated_records), tied to /repo by the trace correspondence of tools/props/C05.py.
   Vocabulary (Rtr/QueryProofs.v, Rtr/SyncProofs.v):
     sent_between w w' b     the trace grew between w and w' and the transport accepted exactly the bytes b
                             (in one write, or - partial writes - as the concatenation of the accepted chunks)
     accepts_all w           every scripted tr_send result still pending is > 0 (no send failure)
     next_query s            QReset if request_session_id, else QSerial session_id serial_number
     F w w'                  request_session_id w' = true, OR (request_session_id, session_id, serial) unchanged
     L w w'                  both tables and session_id, request_session_id, serial, last_update, intervals,
                             is_resetting unchanged
   Serial numbers are never compared by the client at all (only stored from End of Data and copied into the
   next Serial Query), so wrap-around values need no special case; 0 and 2^32-1 are in the Examples and in
   the correspondence run.                                                                              *)
From Coq Require Import Permutation.
From RtrV Require Base.Mem Gen.GeneratedFsm Gen.GeneratedFsm2 Rtr.FsmTie Rtr.FsmTie2 Rtr.ExpiryFrames.
From RtrV Require Import Base.CSem Gen.Generated Rtr.RtrModel Rtr.RelFrame Rtr.SyncSets Rtr.SyncFrame Rtr.SyncProofs
     Rtr.QueryProofs Rtr.SyncExamples.
Local Open Scope Z_scope.

(* (1) the bytes.  A Serial Query is version, type 1, the CURRENT session_id (16 bit, big-endian), length 12,
   the CURRENT serial_number (32 bit, big-endian); a Reset Query is version, type 2, zero, length 8. *)
Theorem C05_serial_query_bytes : forall w : world,
  st (sk w) <> c_RTR_SHUTDOWN -> accepts_all w ->
  exists w', send_serial_query w = Ok 0 w' /\ same_but_out w w' /\ accepts_all w' /\
             sent_between w w'
               [version (sk w) mod 256; 1;
                (session_id (sk w) mod 65536 / 256) mod 256; (session_id (sk w) mod 65536) mod 256;
                0; 0; 0; 12;
                (serial (sk w) / 16777216) mod 256; (serial (sk w) / 65536) mod 256;
                (serial (sk w) / 256) mod 256; serial (sk w) mod 256].
Proof. exact send_serial_query_bytes. Qed.

Theorem C05_reset_query_bytes : forall w : world,
  st (sk w) <> c_RTR_SHUTDOWN -> accepts_all w ->
  exists w', send_reset_query w = Ok 0 w' /\ same_but_out w w' /\ accepts_all w' /\
             sent_between w w' [version (sk w) mod 256; 2; 0; 0; 0; 0; 0; 8].
Proof. exact send_reset_query_bytes. Qed.

(* (2) which query.  CONNECTING with the transport opening: a socket that holds a session and whose data has not
   expired sends that Serial Query ... *)
Theorem C05_query_choice_connecting_serial : forall (fuel : nat) (w : world) (os : list bool),
  st (sk w) = c_RTR_CONNECTING -> opens w = true :: os -> accepts_all w ->
  req_sess (sk w) = false -> expired w = false ->
  exists w', fsm_step fuel w = Ok tt w' /\ sent_between w w' (serial_query_bytes (sk w)) /\
             st (sk w') = c_RTR_SYNC /\ L w w'.
Proof. exact fsm_connecting_sends_serial_query. Qed.

(* ... otherwise (no session, or expiry) it sends nothing yet and enters RESET ... *)
Theorem C05_query_choice_connecting_reset : forall (fuel : nat) (w : world) (os : list bool),
  st (sk w) = c_RTR_CONNECTING -> opens w = true :: os ->
  req_sess (sk w) = true \/ expired w = true ->
  exists w', fsm_step fuel w = Ok tt w' /\ sent_between w w' [] /\ st (sk w') = c_RTR_RESET /\ req_sess (sk w') = true.
Proof. exact fsm_connecting_goes_to_reset. Qed.

(* ... whose only action is the Reset Query. *)
Theorem C05_query_choice_reset_state : forall (fuel : nat) (w : world),
  st (sk w) = c_RTR_RESET -> accepts_all w ->
  exists w', fsm_step fuel w = Ok tt w' /\ sent_between w w' (reset_query_bytes (sk w)) /\
             st (sk w') = c_RTR_SYNC /\ L w w'.
Proof. exact fsm_reset_sends_reset_query. Qed.

(* ESTABLISHED, after a Serial Notify or the refresh timeout (rtr_wait_for_sync returns 0): that Serial Query *)
Theorem C05_query_choice_established : forall (fuel : nat) (w w1 : world),
  st (sk w) = c_RTR_ESTABLISHED -> wait_for_sync w = Ok 0 w1 ->
  st (sk w1) <> c_RTR_SHUTDOWN -> accepts_all w1 ->
  exists w', fsm_step fuel w = Ok tt w' /\ sent_between w1 w' (serial_query_bytes (sk w1)) /\
             session_id (sk w1) = session_id (sk w) /\ serial (sk w1) = serial (sk w) /\ L w w'.
Proof. exact fsm_established_sends_serial_query. Qed.

(* a fresh socket has no session *)
Theorem C05_fresh_socket : forall r e t m : Z,
  req_sess (init_sock r e t m) = true /\ serial (init_sock r e t m) = 0.
Proof. exact init_sock_requests_session. Qed.

(* (3) after rtr_sync returned 0: request_session_id is false, the serial is the End of Data's, the session is the
   End of Data's = the Cache Response's (= the one held before, if one was held) *)
Theorem C05_after_success : forall (fuel : nat) (w w' : world),
  NoDup (pfx w) -> NoDup (keys w) -> rtr_sync fuel w = Ok 0 w' ->
  exists cr eod v4 v6 ks,
    response_received fuel w cr eod v4 v6 ks /\
    req_sess (sk w') = false /\ serial (sk w') = get32 eod 8 /\ session_id (sk w') = get16 eod 2 /\
    get16 cr 2 = get16 eod 2 /\ (req_sess (sk w) = false -> session_id (sk w) = get16 cr 2) /\
    next_query (sk w') = QSerial (get16 eod 2) (get32 eod 8).
Proof. exact rtr_sync_success_bookkeeping. Qed.

(* (4) the frame: a rtr_sync that does not return 0 (for any tables, any environment) ... *)
Theorem C05_frame_sync : forall (fuel : nat) (w : world),
  match rtr_sync fuel w with Ok r w' => r <> 0 -> F w w' | Exc _ w' => F w w' end.
Proof. exact rtr_sync_F. Qed.
Theorem C05_frame_eod : forall (p : list byte) (v4 v6 ks : list (list byte)) (w : world),
  match process_eod p v4 v6 ks w with Ok r w' => r <> 0 -> F w w' | Exc _ w' => F w w' end.
Proof. exact process_eod_F. Qed.
Theorem C05_frame_store_loop : forall (fuel : nat) (v4 v6 ks : list (list byte)) (w : world),
  match store_loop fuel v4 v6 ks w with Ok r w' => r <> 0 -> F w w' | Exc _ w' => F w w' end.
Proof. exact (fun fuel => store_loop_F fuel). Qed.
Theorem C05_frame_receive_and_store : forall (fuel : nat) (w : world),
  match receive_and_store fuel w with Ok r w' => r <> 0 -> F w w' | Exc _ w' => F w w' end.
Proof. exact receive_and_store_F. Qed.

(* ... every iteration of the state machine that is not a successful synchronisation
   (step_succ fuel w = state is SYNC and rtr_sync returns 0) ... *)
Theorem C05_frame_step : forall (fuel : nat) (w : world),
  step_succ fuel w = false ->
  match fsm_step fuel w with Ok _ w' => F w w' | Exc _ w' => F w w' end.
Proof. exact fsm_step_F. Qed.

(* ... rtr_stop and expiry ... *)
Theorem C05_frame_stop : forall w : world, match rtr_stop w with Ok _ w' => F w w' | Exc _ w' => F w w' end.
Proof. exact rtr_stop_F. Qed.
Theorem C05_frame_purge : forall w : world, match purge_outdated w with Ok _ w' => F w w' | Exc _ w' => F w w' end.
Proof. exact purge_outdated_F. Qed.

(* ... hence any run (any number of iterations, stops and restarts included, any environment) without a successful
   synchronisation; and F means: the next query is the same as before or a Reset Query.  Together with (1)-(3):
   between two successful synchronisations every query is the Serial Query of the last End of Data, or a Reset Query. *)
Theorem C05_frame : forall (n fuel : nat) (w : world), quiet n fuel w -> F w (run_fsm n fuel w).
Proof. exact run_fsm_F. Qed.
Theorem C05_frame_next_query : forall w w' : world,
  F w w' -> next_query (sk w') = next_query (sk w) \/ next_query (sk w') = QReset.
Proof. exact F_next_query. Qed.

(* (5) what makes the next query a Reset Query.  reset_pending w = request_session_id /\ serial_number = 0. *)
(* Cache Reset as answer: state ERROR_NO_INCR_UPDATE_AVAIL, nothing else changed ... *)
Theorem C05_reset_cause_cache_reset : forall (fuel : nat) (w : world) (p : list byte) (w1 : world),
  sync_first fuel w = Ok (Some p) w1 -> nthb p 1 = c_CACHE_RESET -> st (sk w1) <> c_RTR_SHUTDOWN ->
  exists w', rtr_sync fuel w = Ok (-1) w' /\ st (sk w') = c_RTR_ERROR_NO_INCR_UPDATE_AVAIL /\ L w w'.
Proof. exact rtr_sync_cache_reset. Qed.
(* ... and the handler of that state *)
Theorem C05_reset_cause_no_incr_state : forall (fuel : nat) (w : world),
  st (sk w) = c_RTR_ERROR_NO_INCR_UPDATE_AVAIL ->
  exists w', fsm_step fuel w = Ok tt w' /\ reset_pending w' /\ st (sk w') = c_RTR_RESET.
Proof. exact fsm_no_incr_resets. Qed.

(* Error Report "no data available" as answer *)
Theorem C05_reset_cause_no_data : forall (fuel : nat) (w : world) (p : list byte) (w1 : world),
  sync_first fuel w = Ok (Some p) w1 -> nthb p 1 = c_ERROR -> get16 p 2 = c_NO_DATA_AVAIL -> st (sk w1) <> c_RTR_SHUTDOWN ->
  exists w', rtr_sync fuel w = Ok (-1) w' /\ st (sk w') = c_RTR_ERROR_NO_DATA_AVAIL /\ L w w'.
Proof. exact rtr_sync_no_data. Qed.
Theorem C05_reset_cause_no_data_state : forall (fuel : nat) (w : world),
  st (sk w) = c_RTR_ERROR_NO_DATA_AVAIL ->
  exists w', fsm_step fuel w = Ok tt w' /\ reset_pending w' /\ st (sk w') = c_RTR_RESET.
Proof. exact fsm_no_data_resets. Qed.

(* expiry *)
Theorem C05_reset_cause_expiry : forall w : world,
  last_update (sk w) <> 0 -> last_update (sk w) + expire_iv (sk w) < now w ->
  exists w', purge_outdated w = Ok tt w' /\ reset_pending w' /\ own_p (pfx w') = [] /\ own_k (keys w') = [] /\
             oth_p (pfx w') = oth_p (pfx w) /\ oth_k (keys w') = oth_k (keys w) /\
             last_update (sk w') = 0 /\ resetting (sk w') = true.
Proof. exact purge_outdated_fires. Qed.

(* stop *)
Theorem C05_reset_cause_stop : forall w : world,
  exists w', rtr_stop w = Ok tt w' /\ reset_pending w' /\ own_p (pfx w') = [] /\ own_k (keys w') = [] /\
             oth_p (pfx w') = oth_p (pfx w) /\ oth_k (keys w') = oth_k (keys w) /\ last_update (sk w') = 0.
Proof. exact rtr_stop_resets. Qed.

(* (6) foreign sessions.  A Cache Response of another session while a session is held: -1, ERROR_FATAL, an Error
   Report (Corrupt Data, no encapsulated PDU, "Wrong session_id in Cache Response PDU") is sent, nothing changed. *)
Theorem C05_foreign_session_cache_response : forall (fuel : nat) (w : world) (p : list byte) (w1 : world),
  sync_first fuel w = Ok (Some p) w1 -> nthb p 1 = c_CACHE_RESPONSE ->
  req_sess (sk w) = false -> get16 p 2 <> session_id (sk w) ->
  st (sk w1) <> c_RTR_SHUTDOWN -> accepts_all w1 ->
  exists w', rtr_sync fuel w = Ok (-1) w' /\ st (sk w') = c_RTR_ERROR_FATAL /\ L w w' /\
             sent_between w1 w' (wrong_session_report (sk w1)).
Proof. exact rtr_sync_foreign_cache_response. Qed.

(* An End of Data of another session: -1, none of the buffered payload applied (whatever it is) *)
Theorem C05_foreign_session_eod : forall (p : list byte) (v4 v6 ks : list (list byte)) (w : world),
  get16 p 2 <> session_id (sk w) ->
  exists w', process_eod p v4 v6 ks w = Ok (-1) w' /\ L w w'.
Proof. exact process_eod_foreign. Qed.

(* Examples (Rtr/SyncExamples.v, vm_compute on closed terms) *)
Theorem C05_example_query_bytes :
  serial_query_bytes (mkSock c_RTR_ESTABLISHED 1 43981 false 4294967295 0 0 0 0 0 true false) =
  [1; 1; 171; 205; 0; 0; 0; 12; 255; 255; 255; 255] /\
  serial_query_bytes (mkSock c_RTR_ESTABLISHED 0 5 false 0 0 0 0 0 0 true false) = [0; 1; 0; 5; 0; 0; 0; 12; 0; 0; 0; 0].
Proof. exact ex_serial_query_bytes. Qed.

Theorem C05_example_first_query_is_reset :
  out (run_fsm 2 50 w_fresh) =
  [TState c_RTR_SYNC; TSend [1; 2; 0; 0; 0; 0; 0; 8]; TState c_RTR_RESET; TOpen true 1000].
Proof. exact ex_first_query_is_reset. Qed.

Theorem C05_example_sync_then_query :
  match rtr_sync 50 w_sync with
  | Ok r w' => r = 0 /\ pfx w' = [foreign; recC; prec_of_pdu A1; prec_of_pdu D6] /\ keys w' = [fkey; krec_of_pdu K1] /\
               next_query (sk w') = QSerial 5 9 /\ last_update (sk w') = 2000
  | Exc _ _ => False
  end.
Proof. exact ex_rtr_sync_success. Qed.

Theorem C05_example_foreign_cache_response :
  match rtr_sync 50 w_foreign_cr with
  | Ok r w' => r = -1 /\ pfx w' = pfx w_foreign_cr /\ keys w' = keys w_foreign_cr /\
               st (sk w') = c_RTR_ERROR_FATAL /\ next_query (sk w') = QSerial 5 7
  | Exc _ _ => False
  end.
Proof. exact ex_rtr_sync_foreign_cr. Qed.

(* Tie (a): rtr_handle_cache_response_pdu (the session id is adopted when one is requested, compared otherwise; a foreign session
   is answered with Corrupt Data and ERROR_FATAL) and the whole of rtr_sync (request_session_id cleared and last_update set only
   after the records were stored) are translated from /repo on every run and proved equal to the model (Rtr/FsmTie2.v); the loop body
   of rtr_fsm_start, where the reset causes set request_session_id, likewise (C07_fsm_step_translated). *)
Theorem C05_cache_response_translated : forall fuel len p w, Forall Base.Mem.byte_ok p -> (8 <= zlen p)%Z -> (8 <= len)%Z ->
  Rtr.FsmTie2.run_eff2 fuel (Gen.GeneratedFsm2.rtr_handle_cache_response_pdu_gen (Rtr.FsmTie2.in_buffer len p) (Some 0%Z) (Rtr.FsmTie.sock_store (sk w))) w =
  Some (Rtr.FsmTie2.handle_cache_response p w).
Proof. exact Rtr.FsmTie2.cache_response_tie_world. Qed.

Theorem C05_sync_translated : forall fuel w, Rtr.ExpiryFrames.Tm w -> (0 <= version (sk w) < 2^32)%Z ->
  Rtr.FsmTie2.run_eff2 fuel (Gen.GeneratedFsm2.rtr_sync_gen fuel (Rtr.FsmTie.sock_store (sk w))) w = Some (rtr_sync fuel w).
Proof. exact Rtr.FsmTie2.sync_tie_world. Qed.

Theorem C05_fsm_step_translated : forall fuel w, Rtr.FsmTie.c_range w -> st (sk w) <> c_RTR_SHUTDOWN ->
  Rtr.FsmTie.run_eff fuel (Gen.GeneratedFsm.rtr_fsm_start__iter_gen (Rtr.FsmTie.sock_store (sk w))) w =
  Some (Rtr.FsmTie.res_const (fsm_step fuel w) 0%Z).
Proof. intros fuel w HC Hn. apply Rtr.FsmTie.fsm_step_tie_world; [apply Rtr.FsmTie.c_range_step, HC|exact Hn]. Qed.

Print Assumptions C05_serial_query_bytes.
Print Assumptions C05_reset_query_bytes.
Print Assumptions C05_query_choice_connecting_serial.
Print Assumptions C05_query_choice_connecting_reset.
Print Assumptions C05_query_choice_reset_state.
Print Assumptions C05_query_choice_established.
Print Assumptions C05_fresh_socket.
Print Assumptions C05_after_success.
Print Assumptions C05_frame_sync.
Print Assumptions C05_frame_step.
Print Assumptions C05_frame.
Print Assumptions C05_frame_next_query.
Print Assumptions C05_reset_cause_cache_reset.
Print Assumptions C05_reset_cause_no_incr_state.
Print Assumptions C05_reset_cause_no_data.
Print Assumptions C05_reset_cause_no_data_state.
Print Assumptions C05_reset_cause_expiry.
Print Assumptions C05_reset_cause_stop.
Print Assumptions C05_foreign_session_cache_response.
Print Assumptions C05_foreign_session_eod.
Print Assumptions C05_cache_response_translated.
Print Assumptions C05_sync_translated.
Print Assumptions C05_fsm_step_translated.
