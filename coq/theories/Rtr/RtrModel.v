(* RtrModel.v - executable model of the RTR socket: rtr_receive_pdu, error reports, rtr_sync,
   rtr_sync_receive_and_store_pdus, rtr_wait_for_sync, the state machine of rtr_fsm_start, rtr_stop,
   against a scripted environment (transport events, open results, send behaviours, clock).
   It produces the same trace as harness/rtr_run.c produces from the real code.

   Tables are modelled at the level of sets (duplicate-free lists); C02/C10 justify that.
   Numbers are Z; a byte is a Z in [0,256).  Definitions only.                              *)
From Coq Require Export ZArith List Bool Lia.
Export ListNotations.
From RtrV Require Import Base.CSem Gen.Generated.
Local Open Scope Z_scope.

(* ---------- bytes ---------- *)
Definition byte := Z.
Definition be16 (a b : byte) : Z := a * 256 + b.
Definition be32 (a b c d : byte) : Z := ((a * 256 + b) * 256 + c) * 256 + d.
Definition enc16 (v : Z) : list byte := [(v / 256) mod 256; v mod 256].
Definition enc32 (v : Z) : list byte := [(v / 16777216) mod 256; (v / 65536) mod 256; (v / 256) mod 256; v mod 256].
Definition nthb (l : list byte) (i : nat) : byte := nth i l 0.
Definition get16 (l : list byte) (off : nat) : Z := be16 (nthb l off) (nthb l (S off)).
Definition get32 (l : list byte) (off : nat) : Z :=
  be32 (nthb l off) (nthb l (1 + off)) (nthb l (2 + off)) (nthb l (3 + off)).
Definition zlen {A} (l : list A) : Z := Z.of_nat (List.length l).

(* ---------- records ---------- *)
(* prefix record: family (false = IPv4), address bits, length, max length, AS, source *)
Notation prec := (bool * list bool * Z * Z * Z * Z)%type.
(* router key: AS, SKI bytes, SPKI bytes, source *)
Notation krec := (Z * list byte * list byte * Z)%type.

Fixpoint bits_of_bytes (l : list byte) : list bool :=
  match l with
  | [] => []
  | b :: r => map (fun i => Z.testbit b (Z.of_nat i)) [7; 6; 5; 4; 3; 2; 1; 0]%nat ++ bits_of_bytes r
  end.

Fixpoint list_eqb {A} (eqb : A -> A -> bool) (a b : list A) : bool :=
  match a, b with
  | [], [] => true
  | x :: a', y :: b' => eqb x y && list_eqb eqb a' b'
  | _, _ => false
  end.

Definition prec_eqb (a b : prec) : bool :=
  let '(fa, pa, la, ma, aa, sa) := a in let '(fb, pb, lb, mb, ab, sb) := b in
  Bool.eqb fa fb && list_eqb Bool.eqb pa pb && (la =? lb) && (ma =? mb) && (aa =? ab) && (sa =? sb).
Definition krec_eqb (a b : krec) : bool :=
  let '(aa, ka, pa, sa) := a in let '(ab, kb, pb, sb) := b in
  (aa =? ab) && list_eqb Z.eqb ka kb && list_eqb Z.eqb pa pb && (sa =? sb).

Definition psrc (r : prec) : Z := let '(_, _, _, _, _, s) := r in s.
Definition ksrc (r : krec) : Z := let '(_, _, _, s) := r in s.

(* ---------- environment ---------- *)
Inductive ev := EvData (b : list byte) | EvErr (code : Z) | EvWait (secs : Z) | EvStop.

Inductive titem :=
| TOpen (ok : bool) (t : Z) | TClose | TSend (b : list byte) | TSendFail (c : Z)
| TRecvN (timeout : Z) (n : Z) | TRecvWB (timeout t : Z) | TRecvErr (timeout code : Z) | TRecvStop (timeout : Z)
| TSleep (n : Z) | TState (s : Z) | TPfx (added : bool) (r : prec) | TKey (added : bool) (k : krec)
| TEnd (why : Z) | TStopping
| TDump (tag : Z) (fields : list Z) (ps : list prec) (ks : list krec).

Record sock := mkSock {
  st : Z; version : Z; session_id : Z; req_sess : bool; serial : Z; last_update : Z;
  refresh_iv : Z; expire_iv : Z; retry_iv : Z; iv_mode : Z; has_recv : bool; resetting : bool }.

Record world := mkW {
  sk : sock; pfx : list prec; keys : list krec;
  evs : list ev; opens : list bool; sends : list Z; now : Z;
  out : list titem (* newest first *) }.

Inductive exc := XEnd (why : Z) | XStop.
Inductive res (A : Type) := Ok (a : A) (w : world) | Exc (e : exc) (w : world).
Arguments Ok {A}. Arguments Exc {A}.

Definition bind {A B} (m : world -> res A) (f : A -> world -> res B) : world -> res B :=
  fun w => match m w with Ok a w' => f a w' | Exc e w' => Exc e w' end.
Notation "'mdo' x <- m ; k" := (bind m (fun x => k)) (at level 200, x pattern, m at level 100, k at level 200, right associativity).
Definition ret {A} (a : A) : world -> res A := fun w => Ok a w.
Definition emit (t : titem) : world -> res unit :=
  fun w => Ok tt (mkW (sk w) (pfx w) (keys w) (evs w) (opens w) (sends w) (now w) (t :: out w)).
Definition get_sk : world -> res sock := fun w => Ok (sk w) w.
Definition set_sk (s : sock) : world -> res unit :=
  fun w => Ok tt (mkW s (pfx w) (keys w) (evs w) (opens w) (sends w) (now w) (out w)).
Definition get_now : world -> res Z := fun w => Ok (now w) w.
Definition set_env (e : list ev) (t : Z) : world -> res unit :=
  fun w => Ok tt (mkW (sk w) (pfx w) (keys w) e (opens w) (sends w) t (out w)).
Definition get_w : world -> res world := fun w => Ok w w.
Definition set_tables (p : list prec) (k : list krec) : world -> res unit :=
  fun w => Ok tt (mkW (sk w) p k (evs w) (opens w) (sends w) (now w) (out w)).
Definition raise {A} (e : exc) : world -> res A := fun w => Exc e w.

(* socket field updates *)
Definition upd_st (s : sock) v := mkSock v (version s) (session_id s) (req_sess s) (serial s) (last_update s) (refresh_iv s) (expire_iv s) (retry_iv s) (iv_mode s) (has_recv s) (resetting s).
Definition upd_version (s : sock) v := mkSock (st s) v (session_id s) (req_sess s) (serial s) (last_update s) (refresh_iv s) (expire_iv s) (retry_iv s) (iv_mode s) (has_recv s) (resetting s).
Definition upd_session (s : sock) v := mkSock (st s) (version s) v (req_sess s) (serial s) (last_update s) (refresh_iv s) (expire_iv s) (retry_iv s) (iv_mode s) (has_recv s) (resetting s).
Definition upd_req (s : sock) v := mkSock (st s) (version s) (session_id s) v (serial s) (last_update s) (refresh_iv s) (expire_iv s) (retry_iv s) (iv_mode s) (has_recv s) (resetting s).
Definition upd_serial (s : sock) v := mkSock (st s) (version s) (session_id s) (req_sess s) v (last_update s) (refresh_iv s) (expire_iv s) (retry_iv s) (iv_mode s) (has_recv s) (resetting s).
Definition upd_last (s : sock) v := mkSock (st s) (version s) (session_id s) (req_sess s) (serial s) v (refresh_iv s) (expire_iv s) (retry_iv s) (iv_mode s) (has_recv s) (resetting s).
Definition upd_ivs (s : sock) r e t := mkSock (st s) (version s) (session_id s) (req_sess s) (serial s) (last_update s) r e t (iv_mode s) (has_recv s) (resetting s).
Definition upd_hasrecv (s : sock) v := mkSock (st s) (version s) (session_id s) (req_sess s) (serial s) (last_update s) (refresh_iv s) (expire_iv s) (retry_iv s) (iv_mode s) v (resetting s).
Definition upd_resetting (s : sock) v := mkSock (st s) (version s) (session_id s) (req_sess s) (serial s) (last_update s) (refresh_iv s) (expire_iv s) (retry_iv s) (iv_mode s) (has_recv s) v.
Definition modify_sk (f : sock -> sock) : world -> res unit := mdo s <- get_sk; set_sk (f s).

(* ---------- rtr_change_socket_state ---------- *)
Definition change_state (ns : Z) : world -> res unit :=
  mdo s <- get_sk;
  if st s =? ns then ret tt
  else if st s =? c_RTR_SHUTDOWN then ret tt
  else mdo _ <- set_sk (upd_st s ns); emit (TState ns).

(* ---------- mock transport (mirrors harness/rtr_run.c) ---------- *)
(* tr_recv: at most [len] bytes, waiting at most [timeout] *)
Fixpoint tr_recv_evs (es : list ev) (len timeout left t : Z) : (option (Z + list byte)) * list ev * Z * list titem :=
  (* result: None = script exhausted / Some (inl code) = error / Some (inr bytes); remaining events; clock; trace *)
  match es with
  | [] => (None, [], t, [])
  | EvWait v :: rest =>
    if v <=? left then tr_recv_evs rest len timeout (left - v) (t + v)
    else (Some (inl (-2)), EvWait (v - left) :: rest, t + left, [TRecvWB timeout (t + left)])
  | EvErr c :: rest => (Some (inl (- c)), rest, t, [TRecvErr timeout (- c)])
  | EvStop :: rest => (Some (inl (-99)), rest, t, [TRecvStop timeout])
  | EvData b :: rest =>
    match b with
    | [] => tr_recv_evs rest len timeout left t
    | _ =>
      let n := Z.min len (zlen b) in
      let got := firstn (Z.to_nat n) b in
      let lft := skipn (Z.to_nat n) b in
      (Some (inr got), match lft with [] => rest | _ => EvData lft :: rest end, t, [TRecvN timeout n])
    end
  end.

Definition tr_recv (len timeout : Z) : world -> res (Z + list byte) :=
  fun w =>
    let left := Z.max 0 timeout in
    match tr_recv_evs (evs w) len timeout left (now w) with
    | (None, es, t, tr) =>
        Exc (XEnd 1) (mkW (sk w) (pfx w) (keys w) es (opens w) (sends w) t (TEnd 1 :: tr ++ out w))
    | (Some (inl c), es, t, tr) =>
        let w' := mkW (sk w) (pfx w) (keys w) es (opens w) (sends w) t (tr ++ out w) in
        if c =? -99 then Exc XStop w' else Ok (inl c) w'
    | (Some (inr b), es, t, tr) =>
        Ok (inr b) (mkW (sk w) (pfx w) (keys w) es (opens w) (sends w) t (tr ++ out w))
    end.

(* tr_recv_all: loop until [len] bytes; fuel = len (every successful tr_recv yields >= 1 byte) *)
Fixpoint tr_recv_all_loop (fuel : nat) (len end_time : Z) (acc : list byte) : world -> res (Z + list byte) :=
  match fuel with
  | O => ret (inr acc)
  | S f =>
    if zlen acc >=? len then ret (inr acc)
    else mdo t <- get_now;
         mdo r <- tr_recv (len - zlen acc) (end_time - t);
         match r with
         | inl c => ret (inl c)
         | inr b => tr_recv_all_loop f len end_time (acc ++ b)
         end
  end.
Definition tr_recv_all (len timeout : Z) : world -> res (Z + list byte) :=
  mdo t <- get_now; tr_recv_all_loop (Z.to_nat len) len (t + timeout) [].

(* tr_send / tr_send_all *)
Definition tr_send (b : list byte) : world -> res Z :=
  fun w =>
    let '(beh, rest) := match sends w with [] => (1000000, []) | x :: r => (x, r) end in
    if beh <? 0
    then Ok beh (mkW (sk w) (pfx w) (keys w) (evs w) (opens w) rest (now w) (TSendFail beh :: out w))
    else let n := Z.min (zlen b) (Z.min beh 8192) in
         Ok n (mkW (sk w) (pfx w) (keys w) (evs w) (opens w) rest (now w) (TSend (firstn (Z.to_nat n) b) :: out w)).

Fixpoint tr_send_all_loop (fuel : nat) (b : list byte) (total : Z) : world -> res Z :=
  match fuel with
  | O => ret total
  | S f =>
    match b with
    | [] => ret total
    | _ => mdo r <- tr_send b;
           if r <? 0 then ret r
           else if r =? 0 then ret (-1000)          (* a transport accepting nothing would loop forever: excluded by the scripts *)
           else tr_send_all_loop f (skipn (Z.to_nat r) b) (total + r)
    end
  end.
Definition tr_send_all (b : list byte) : world -> res Z := tr_send_all_loop (List.length b) b 0.

Definition tr_open : world -> res bool :=
  fun w => match opens w with
           | [] => Exc (XEnd 2) (mkW (sk w) (pfx w) (keys w) (evs w) [] (sends w) (now w) (TEnd 2 :: out w))
           | b :: r => Ok b (mkW (sk w) (pfx w) (keys w) (evs w) r (sends w) (now w) (TOpen b (now w) :: out w))
           end.
Definition tr_close : world -> res unit := emit TClose.
Definition do_sleep (n : Z) : world -> res unit :=
  fun w => Ok tt (mkW (sk w) (pfx w) (keys w) (evs w) (opens w) (sends w) (now w + n) (TSleep n :: out w)).

(* ---------- sending PDUs ---------- *)
(* rtr_send_pdu: RTR_SUCCESS = 0, RTR_ERROR = -1 *)
Definition send_pdu (b : list byte) : world -> res Z :=
  mdo s <- get_sk;
  if st s =? c_RTR_SHUTDOWN then ret (-1)
  else mdo r <- tr_send_all b; ret (if r >? 0 then 0 else -1).

Definition str_bytes (s : String.string) : list byte :=
  (fix go (s : String.string) := match s with
                                 | String.EmptyString => []
                                 | String.String c r => Z.of_nat (Ascii.nat_of_ascii c) :: go r
                                 end) s.

(* rtr_send_error_pdu (enc = offending bytes in network order, text already includes its terminating 0 where the C sends one) *)
Definition send_error_pdu (enc : list byte) (code : Z) (text : list byte) : world -> res Z :=
  mdo s <- get_sk;
  if (2 <=? zlen enc) && (nthb enc 1 =? c_ERROR) then ret 0
  else
    let len := 16 + zlen enc + zlen text in
    send_pdu ([version s mod 256; c_ERROR] ++ enc16 code ++ enc32 len ++ enc32 (zlen enc) ++ enc ++ enc32 (zlen text) ++ text).

(* rtr_send_error_pdu_from_host: the PDU was converted to host order in place; converting the copy back
   gives the bytes as received (for the PDU kinds that are echoed), for lengths 0 or >= 8 *)
Definition send_error_from_host (enc : list byte) (code : Z) (text : list byte) : world -> res Z :=
  if zlen enc =? 0 then send_error_pdu [] code text
  else if zlen enc <? 8 then ret (-1)
  else send_error_pdu enc code text.

Definition send_serial_query : world -> res Z :=
  mdo s <- get_sk;
  mdo r <- send_pdu ([version s mod 256; c_SERIAL_QUERY] ++ enc16 (session_id s mod 65536) ++ enc32 12 ++ enc32 (serial s));
  if r =? 0 then ret 0 else mdo _ <- change_state c_RTR_ERROR_TRANSPORT; ret (-1).

Definition send_reset_query : world -> res Z :=
  mdo s <- get_sk;
  mdo r <- send_pdu ([version s mod 256; c_RESET_QUERY] ++ enc16 0 ++ enc32 8);
  if r =? 0 then ret 0 else mdo _ <- change_state c_RTR_ERROR_TRANSPORT; ret (-1).

(* ---------- rtr_pdu_check_size ---------- *)
Definition check_size (p : list byte) : bool :=
  let ver := nthb p 0 in let ty := nthb p 1 in let len := get32 p 4 in
  if ty =? c_SERIAL_NOTIFY then len =? sizeof_pdu_serial_notify
  else if ty =? c_CACHE_RESPONSE then len =? sizeof_pdu_cache_response
  else if ty =? c_IPV4_PREFIX then len =? sizeof_pdu_ipv4
  else if ty =? c_IPV6_PREFIX then len =? sizeof_pdu_ipv6
  else if ty =? c_EOD then ((ver =? 0) && (len =? sizeof_pdu_end_of_data_v0)) || ((ver =? 1) && (len =? sizeof_pdu_end_of_data_v1))
  else if ty =? c_CACHE_RESET then len =? sizeof_pdu_header
  else if ty =? c_ROUTER_KEY then len =? sizeof_pdu_router_key
  else if ty =? c_ERROR then
    if len <? 16 then false
    else let el := get32 p 8 in
         if len <? 16 + el then false
         else let tl := get32 p (Z.to_nat (12 + el)) in len =? 16 + el + tl
  else if ty =? c_SERIAL_QUERY then len =? sizeof_pdu_serial_query
  else if ty =? c_RESET_QUERY then len =? sizeof_pdu_reset_query
  else false.

Definition txt_too_small := str_bytes "corrupt data received, length value in PDU is too small" ++ [0].
Definition txt_too_big := str_bytes "PDU too big, max. PDU size is: 3248 bytes" ++ [0].

(* outcome of rtr_receive_pdu: inr pdu (bytes as received) or inl code
   (-1 RTR_ERROR, -2 TR_WOULDBLOCK, -3 TR_INTR, -4 TR_CLOSED) *)
Definition recv_err (c : Z) : world -> res (Z + list byte) :=
  if c =? -1 then mdo _ <- change_state c_RTR_ERROR_TRANSPORT; ret (inl (-1))
  else if c =? -2 then ret (inl (-2))
  else if c =? -3 then ret (inl (-3))
  else if c =? -4 then ret (inl (-4))
  else mdo _ <- change_state c_RTR_ERROR_FATAL; ret (inl (-1)).

Definition receive_pdu (timeout : Z) : world -> res (Z + list byte) :=
  mdo s0 <- get_sk;
  if st s0 =? c_RTR_SHUTDOWN then ret (inl (-1))
  else
  mdo r <- tr_recv_all 8 timeout;
  match r with
  | inl c => recv_err c
  | inr h =>
    let ver := nthb h 0 in let ty := nthb h 1 in let len := get32 h 4 in
    if len <? 8 then
      mdo _ <- send_error_pdu h c_CORRUPT_DATA txt_too_small; mdo _ <- change_state c_RTR_ERROR_FATAL; ret (inl (-1))
    else if len >? c_RTR_MAX_PDU_LEN then
      mdo _ <- send_error_pdu h c_CORRUPT_DATA txt_too_big; mdo _ <- change_state c_RTR_ERROR_FATAL; ret (inl (-1))
    else
    mdo _ <- (mdo s <- get_sk;
              if has_recv s then ret tt
              else let s1 := if (version s =? 1) && (ver =? 0) && negb (ty =? c_ERROR) then upd_version s 0 else s in
                   set_sk (upd_hasrecv s1 true));
    mdo s <- get_sk;
    if negb (ver =? version s) && negb (ty =? c_ERROR) then
      mdo _ <- send_error_pdu h c_UNEXPECTED_PROTOCOL_VERSION []; ret (inl (-1))
    else
    mdo rest <- (if len - 8 >? 0
                 then (mdo s2 <- get_sk;
                       if st s2 =? c_RTR_SHUTDOWN then ret (inl (-1)) else tr_recv_all (len - 8) c_RTR_RECV_TIMEOUT)
                 else ret (inr []));
    match rest with
    | inl c => recv_err c
    | inr body =>
      let p := h ++ body in
      if check_size p then ret (inr p)
      else mdo _ <- send_error_pdu h c_CORRUPT_DATA txt_too_small; mdo _ <- change_state c_RTR_ERROR_FATAL; ret (inl (-1))
    end
  end.

(* ---------- rtr_handle_error_pdu ---------- *)
Definition handle_error_pdu (p : list byte) : world -> res unit :=
  let code := get16 p 2 in let ver := nthb p 0 in
  if code =? c_NO_DATA_AVAIL then change_state c_RTR_ERROR_NO_DATA_AVAIL
  else if code =? c_UNSUPPORTED_PROTOCOL_VER then
    mdo s <- get_sk;
    if (ver <=? c_RTR_PROTOCOL_MAX_SUPPORTED_VERSION) && (ver >=? c_RTR_PROTOCOL_MIN_SUPPORTED_VERSION) && (ver <? version s)
    then mdo _ <- set_sk (upd_version s ver); change_state c_RTR_FAST_RECONNECT
    else change_state c_RTR_ERROR_FATAL
  else change_state c_RTR_ERROR_FATAL.

(* ---------- intervals (hand model of rtr_check_interval_option; Rtr/IntervalProofs.v shows it equal
   to the translated C) ---------- *)
Definition iv_range (v mn mx : Z) : Z := if v <? mn then -1 else if v >? mx then 1 else 0.
Definition iv_apply (mode v old mn mx : Z) : Z :=
  let r := iv_range v mn mx in
  if (r =? 0) || (mode =? c_RTR_INTERVAL_MODE_ACCEPT_ANY) then v
  else if mode =? c_RTR_INTERVAL_MODE_DEFAULT_MIN_MAX then (if r =? -1 then mn else mx)
  else old.

Definition apply_eod_intervals (s : sock) (p : list byte) : sock :=
  if (nthb p 0 =? 1) && negb (iv_mode s =? c_RTR_INTERVAL_MODE_IGNORE_ANY) then
    let rf := get32 p 12 in let rt := get32 p 16 in let ex := get32 p 20 in
    upd_ivs s (iv_apply (iv_mode s) rf (refresh_iv s) c_RTR_REFRESH_MIN c_RTR_REFRESH_MAX)
              (iv_apply (iv_mode s) ex (expire_iv s) c_RTR_EXPIRATION_MIN c_RTR_EXPIRATION_MAX)
              (iv_apply (iv_mode s) rt (retry_iv s) c_RTR_RETRY_MIN c_RTR_RETRY_MAX)
  else s.

(* ---------- tables as sets, with callbacks on the main tables ---------- *)
Definition pmem (r : prec) (X : list prec) := existsb (prec_eqb r) X.
Definition kmem (r : krec) (X : list krec) := existsb (krec_eqb r) X.
Definition prem (r : prec) (X : list prec) := filter (fun x => negb (prec_eqb r x)) X.
Definition krem (r : krec) (X : list krec) := filter (fun x => negb (krec_eqb r x)) X.

Definition prec_of_pdu (p : list byte) : prec :=
  let v6 := nthb p 1 =? c_IPV6_PREFIX in
  let alen := if v6 then 16%nat else 4%nat in
  (v6, bits_of_bytes (firstn alen (skipn 12 p)), nthb p 9, nthb p 10, get32 p (12 + alen), 1).
Definition krec_of_pdu (p : list byte) : krec :=
  (get32 p 28, firstn 20 (skipn 8 p), firstn 91 (skipn 32 p), 1).

(* one update against a pair of tables; [live] = the main tables (callbacks fire), otherwise shadow.
   result: 0 ok, 1 duplicate, 2 unknown withdrawal, 3 invalid flags *)
Definition upd_pfx (live : bool) (flags : Z) (r : prec) (X : list prec) : list prec * Z * list titem :=
  if flags =? 1 then (if pmem r X then (X, 1, []) else (X ++ [r], 0, if live then [TPfx true r] else []))
  else if flags =? 0 then (if pmem r X then (prem r X, 0, if live then [TPfx false r] else []) else (X, 2, []))
  else (X, 3, []).
Definition upd_key (live : bool) (flags : Z) (r : krec) (X : list krec) : list krec * Z * list titem :=
  if flags =? 1 then (if kmem r X then (X, 1, []) else (X ++ [r], 0, if live then [TKey true r] else []))
  else if flags =? 0 then (if kmem r X then (krem r X, 0, if live then [TKey false r] else []) else (X, 2, []))
  else (X, 3, []).

Definition pdu_flags (p : list byte) : Z := if nthb p 1 =? c_ROUTER_KEY then nthb p 2 else nthb p 8.

Definition txt_pfx_flags := str_bytes "Prefix PDU with invalid flags value received" ++ [0].
Definition txt_key_flags := str_bytes "Router Key PDU with invalid flags value received" ++ [0].

(* error report for a failed update (rtr_update_pfx_table / rtr_update_spki_table) *)
Definition report_update_failure (p : list byte) (code : Z) (is_key : bool) : world -> res unit :=
  if code =? 3 then mdo _ <- send_error_from_host p c_CORRUPT_DATA (if is_key then txt_key_flags else txt_pfx_flags); ret tt
  else if code =? 1 then mdo _ <- send_error_from_host p c_DUPLICATE_ANNOUNCEMENT []; change_state c_RTR_ERROR_FATAL
  else mdo _ <- send_error_from_host p c_WITHDRAWAL_OF_UNKNOWN_RECORD []; change_state c_RTR_ERROR_FATAL.

Definition emit_all (l : list titem) : world -> res unit :=
  fun w => Ok tt (mkW (sk w) (pfx w) (keys w) (evs w) (opens w) (sends w) (now w) (rev l ++ out w)).

(* apply the prefix PDUs in order; on the first failure: (tables so far, index, code, pdu) *)
Fixpoint apply_pfx (live : bool) (ps : list (list byte)) (X : list prec) (done : list (list byte))
  : list prec * list titem * option (list byte * Z * list (list byte)) :=
  match ps with
  | [] => (X, [], None)
  | p :: rest =>
    let '(X', c, t) := upd_pfx live (pdu_flags p) (prec_of_pdu p) X in
    if c =? 0 then let '(X2, t2, f) := apply_pfx live rest X' (p :: done) in (X2, t ++ t2, f)
    else (X, [], Some (p, c, done))       (* [done]: applied PDUs, most recent first = undo order *)
  end.
Fixpoint apply_keys (live : bool) (ps : list (list byte)) (X : list krec) (done : list (list byte))
  : list krec * list titem * option (list byte * Z * list (list byte)) :=
  match ps with
  | [] => (X, [], None)
  | p :: rest =>
    let '(X', c, t) := upd_key live (pdu_flags p) (krec_of_pdu p) X in
    if c =? 0 then let '(X2, t2, f) := apply_keys live rest X' (p :: done) in (X2, t ++ t2, f)
    else (X, [], Some (p, c, done))
  end.

(* undo: inverse operations, most recently applied first; stops at the first one that fails *)
Fixpoint undo_pfx (live : bool) (done : list (list byte)) (X : list prec) : list prec * list titem * bool :=
  match done with
  | [] => (X, [], true)
  | p :: rest =>
    let '(X', c, t) := upd_pfx live (1 - pdu_flags p) (prec_of_pdu p) X in
    if c =? 0 then let '(X2, t2, ok) := undo_pfx live rest X' in (X2, t ++ t2, ok) else (X, [], false)
  end.
Fixpoint undo_keys (live : bool) (done : list (list byte)) (X : list krec) : list krec * list titem * bool :=
  match done with
  | [] => (X, [], true)
  | p :: rest =>
    let '(X', c, t) := upd_key live (1 - pdu_flags p) (krec_of_pdu p) X in
    if c =? 0 then let '(X2, t2, ok) := undo_keys live rest X' in (X2, t ++ t2, ok) else (X, [], false)
  end.

(* does spki_table_src_remove report the removed keys to the update callback?  (C10: it does since fix 4808153;
   the correspondence run tells if that changes) *)
Definition spki_src_remove_notifies : bool := true.

(* removal of a source's records from the main tables, with callbacks *)
Definition src_remove_all : world -> res unit :=
  mdo w <- get_w;
  let gp := filter (fun r => psrc r =? 1) (pfx w) in
  let gk := filter (fun r => ksrc r =? 1) (keys w) in
  mdo _ <- set_tables (filter (fun r => negb (psrc r =? 1)) (pfx w)) (keys w);
  mdo _ <- emit_all (map (TPfx false) gp);
  mdo _ <- set_tables (filter (fun r => negb (psrc r =? 1)) (pfx w)) (filter (fun r => negb (ksrc r =? 1)) (keys w));
  emit_all (if spki_src_remove_notifies then map (TKey false) gk else []).

(* decimal rendering of the numbers in the session-mismatch text *)
Fixpoint dec_digits (fuel : nat) (v : Z) (acc : list byte) : list byte :=
  match fuel with
  | O => acc
  | S f => let acc' := (48 + v mod 10) :: acc in if v / 10 =? 0 then acc' else dec_digits f (v / 10) acc'
  end.
Definition dec (v : Z) : list byte := dec_digits 12 v [].

Definition txt_eod_session (a b : Z) : list byte :=
  str_bytes "Expected session_id: " ++ dec a ++ str_bytes ", received session_id. " ++ dec b ++ str_bytes " in EOD PDU" ++ [0].

(* the EOD part of rtr_sync_receive_and_store_pdus; returns 0 / -1 *)
Definition purge_after_failed_undo : world -> res unit :=
  mdo _ <- src_remove_all; modify_sk (fun s => upd_req s true).

Definition process_eod (p : list byte) (v4 v6 ks : list (list byte)) : world -> res Z :=
  mdo s <- get_sk;
  if negb (get16 p 2 =? session_id s) then
    mdo _ <- send_error_from_host p c_CORRUPT_DATA (txt_eod_session (session_id s) (get16 p 2));
    mdo _ <- change_state c_RTR_ERROR_FATAL; ret (-1)
  else
  mdo _ <- set_sk (apply_eod_intervals s p);
  mdo w <- get_w;
  let reset := resetting s in
  let live := negb reset in
  let P0 := if reset then filter (fun r => negb (psrc r =? 1)) (pfx w) else pfx w in
  let K0 := if reset then filter (fun r => negb (ksrc r =? 1)) (keys w) else keys w in
  (* IPv4 *)
  let '(P1, t1, f1) := apply_pfx live v4 P0 [] in
  match f1 with
  | Some (bad, c, done) =>
    mdo _ <- emit_all t1;
    mdo _ <- (if live then set_tables P1 (keys w) else ret tt);
    mdo _ <- report_update_failure bad c false;
    let '(P2, t2, ok) := undo_pfx live done P1 in
    mdo _ <- emit_all t2;
    mdo _ <- (if live then set_tables P2 (keys w) else ret tt);
    mdo _ <- (if ok then ret tt else purge_after_failed_undo);
    mdo _ <- change_state c_RTR_ERROR_FATAL; ret (-1)
  | None =>
  mdo _ <- emit_all t1;
  mdo _ <- (if live then set_tables P1 (keys w) else ret tt);
  (* IPv6 *)
  let '(P3, t3, f3) := apply_pfx live v6 P1 [] in
  match f3 with
  | Some (bad, c, done) =>
    mdo _ <- emit_all t3;
    mdo _ <- (if live then set_tables P3 (keys w) else ret tt);
    mdo _ <- report_update_failure bad c false;
    let '(P4, t4, ok) := undo_pfx live (done ++ rev v4) P3 in
    mdo _ <- emit_all t4;
    mdo _ <- (if live then set_tables P4 (keys w) else ret tt);
    mdo _ <- (if ok then ret tt else purge_after_failed_undo);
    mdo _ <- change_state c_RTR_ERROR_FATAL; ret (-1)
  | None =>
  mdo _ <- emit_all t3;
  mdo _ <- (if live then set_tables P3 (keys w) else ret tt);
  (* router keys *)
  let '(K1, t5, f5) := apply_keys live ks K0 [] in
  match f5 with
  | Some (bad, c, done) =>
    mdo _ <- emit_all t5;
    mdo _ <- (if live then set_tables P3 K1 else ret tt);
    mdo _ <- report_update_failure bad c true;
    let '(K2, t6, ok1) := undo_keys live done K1 in
    mdo _ <- emit_all t6;
    let '(P5, t7, ok2) := if ok1 then undo_pfx live (rev v6 ++ rev v4) P3 else (P3, [], false) in
    mdo _ <- emit_all t7;
    mdo _ <- (if live then set_tables P5 K2 else ret tt);
    mdo _ <- (if ok2 then ret tt else purge_after_failed_undo);
    mdo _ <- change_state c_RTR_ERROR_FATAL; ret (-1)
  | None =>
  mdo _ <- emit_all t5;
  mdo _ <- (if live then set_tables P3 K1 else ret tt);
  (* atomic reload: swap the shadow tables in, report the net difference for this socket *)
  mdo _ <- (if reset then
              let oldp := filter (fun r => psrc r =? 1) (pfx w) in
              let newp := filter (fun r => psrc r =? 1) P3 in
              let oldk := filter (fun r => ksrc r =? 1) (keys w) in
              let newk := filter (fun r => ksrc r =? 1) K1 in
              mdo _ <- set_tables P3 K1;
              mdo _ <- emit_all (map (TPfx true) (filter (fun r => negb (pmem r oldp)) newp) ++
                                 map (TPfx false) (filter (fun r => negb (pmem r newp)) oldp));
              emit_all (map (TKey true) (filter (fun r => negb (kmem r oldk)) newk) ++
                        map (TKey false) (filter (fun r => negb (kmem r newk)) oldk))
            else ret tt);
  mdo _ <- modify_sk (fun s => upd_serial s (get32 p 8));
  ret 0
  end end end.

(* F8: prefix PDUs whose lengths exceed the address size, or (rtr_prefix_pdu_is_valid, second half) with a bit set
   behind the prefix length.  The name is kept from the time when only the lengths were checked. *)
Definition prefix_host_bits_zero (p : list byte) : bool :=
  let alen := if nthb p 1 =? c_IPV6_PREFIX then 16%nat else 4%nat in
  forallb negb (skipn (Z.to_nat (nthb p 9)) (bits_of_bytes (firstn alen (skipn 12 p)))).
Definition prefix_lengths_valid (p : list byte) : bool :=
  let bits := if nthb p 1 =? c_IPV4_PREFIX then 32 else 128 in
  (nthb p 9 <=? bits) && (nthb p 10 <=? bits) && prefix_host_bits_zero p.
Definition txt_pfx_len := str_bytes "Prefix PDU with an invalid prefix length or bits set beyond it received" ++ [0].
Definition txt_unexp_store := str_bytes "Unexpected PDU received during data synchronisation" ++ [0].
Definition txt_unexp_sync := str_bytes "Unexpected PDU received in data synchronisation" ++ [0].
Definition txt_wrong_session := str_bytes "Wrong session_id in Cache Response PDU" ++ [0].

(* receive loop of rtr_sync_receive_and_store_pdus; fuel bounds the number of PDUs *)
Fixpoint store_loop (fuel : nat) (v4 v6 ks : list (list byte)) : world -> res Z :=
  match fuel with
  | O => ret (-77)
  | S f =>
    mdo r <- receive_pdu c_RTR_RECV_TIMEOUT;
    match r with
    | inl c =>
      if (c =? -2) || (c =? -4) then mdo _ <- change_state c_RTR_ERROR_TRANSPORT; ret (-1) else ret (-1)
    | inr p =>
      let ty := nthb p 1 in
      if ((ty =? c_IPV4_PREFIX) || (ty =? c_IPV6_PREFIX)) && negb (prefix_lengths_valid p) then
        mdo _ <- send_error_from_host p c_CORRUPT_DATA txt_pfx_len;
        mdo _ <- change_state c_RTR_ERROR_FATAL; ret (-1)
      else if ty =? c_IPV4_PREFIX then store_loop f (v4 ++ [p]) v6 ks
      else if ty =? c_IPV6_PREFIX then store_loop f v4 (v6 ++ [p]) ks
      else if ty =? c_ROUTER_KEY then store_loop f v4 v6 (ks ++ [p])
      else if ty =? c_EOD then process_eod p v4 v6 ks
      else if ty =? c_ERROR then mdo _ <- handle_error_pdu p; ret (-1)
      else if ty =? c_SERIAL_NOTIFY then store_loop f v4 v6 ks
      else mdo _ <- send_error_from_host (firstn 8 p) c_CORRUPT_DATA txt_unexp_store; ret (-1)
    end
  end.

Definition receive_and_store (fuel : nat) : world -> res Z :=
  mdo r <- store_loop fuel [] [] [];
  mdo _ <- modify_sk (fun s => if resetting s then upd_resetting s false else s);
  ret r.

(* ---------- rtr_sync ---------- *)
Fixpoint sync_first (fuel : nat) : world -> res (option (list byte)) :=
  match fuel with
  | O => ret None
  | S f =>
    mdo r <- receive_pdu c_RTR_RECV_TIMEOUT;
    match r with
    | inl c =>
      mdo s <- get_sk;
      if (c =? -4) && req_sess s && (version s >? c_RTR_PROTOCOL_MIN_SUPPORTED_VERSION) then
        mdo _ <- set_sk (upd_version s (version s - 1)); mdo _ <- change_state c_RTR_FAST_RECONNECT; ret None
      else if (c =? -2) || (c =? -4) then mdo _ <- change_state c_RTR_ERROR_TRANSPORT; ret None
      else ret None
    | inr p => if nthb p 1 =? c_SERIAL_NOTIFY then sync_first f else ret (Some p)
    end
  end.

Definition rtr_sync (fuel : nat) : world -> res Z :=
  mdo fp <- sync_first fuel;
  match fp with
  | None => ret (-1)
  | Some p =>
    let ty := nthb p 1 in
    if ty =? c_ERROR then mdo _ <- handle_error_pdu p; ret (-1)
    else if ty =? c_CACHE_RESET then mdo _ <- change_state c_RTR_ERROR_NO_INCR_UPDATE_AVAIL; ret (-1)
    else if ty =? c_CACHE_RESPONSE then
      mdo s <- get_sk;
      mdo ok <- (if req_sess s
                 then mdo _ <- set_sk (upd_session (if negb (last_update s =? 0) then upd_resetting s true else s) (get16 p 2)); ret true
                 else if negb (session_id s =? get16 p 2)
                      then mdo _ <- send_error_from_host [] c_CORRUPT_DATA txt_wrong_session;
                           mdo _ <- change_state c_RTR_ERROR_FATAL; ret false
                      else ret true);
      if negb ok then ret (-1)
      else
      mdo r <- receive_and_store fuel;
      if r =? 0 then
        mdo _ <- modify_sk (fun s => upd_req s false);
        mdo t <- get_now;
        mdo _ <- modify_sk (fun s => upd_last s t);
        ret 0
      else ret (-1)
    else mdo _ <- send_error_from_host (firstn 8 p) c_CORRUPT_DATA txt_unexp_sync; ret (-1)
  end.

(* ---------- rtr_wait_for_sync ---------- *)
Definition wait_for_sync : world -> res Z :=
  mdo s <- get_sk; mdo t <- get_now;
  let wait := Z.max 0 (last_update s + refresh_iv s - t) in
  mdo r <- receive_pdu wait;
  match r with
  | inr p => if nthb p 1 =? c_SERIAL_NOTIFY then ret 0 else ret (-1)
  | inl c => if c =? -2 then ret 0
             else if c =? -4 then mdo _ <- change_state c_RTR_ERROR_TRANSPORT; ret (-1)
             else ret (-1)
  end.

(* ---------- rtr_purge_outdated_records ---------- *)
Definition purge_outdated : world -> res unit :=
  mdo s <- get_sk; mdo t <- get_now;
  if last_update s =? 0 then ret tt
  else if last_update s + expire_iv s <? t then
    mdo _ <- src_remove_all;
    modify_sk (fun s => upd_resetting (upd_last (upd_serial (upd_req s true) 0) 0) true)
  else ret tt.

(* ---------- one iteration of the loop of rtr_fsm_start ---------- *)
Definition fsm_step (fuel : nat) : world -> res unit :=
  mdo s <- get_sk;
  let state := st s in
  if state =? c_RTR_CONNECTING then
    mdo _ <- set_sk (upd_hasrecv s false);
    mdo _ <- purge_outdated;
    mdo ok <- tr_open;
    if negb ok then change_state c_RTR_ERROR_TRANSPORT
    else mdo s1 <- get_sk;
         if req_sess s1 then change_state c_RTR_RESET
         else mdo r <- send_serial_query;
              if r =? 0 then change_state c_RTR_SYNC else change_state c_RTR_ERROR_FATAL
  else if state =? c_RTR_RESET then
    mdo r <- send_reset_query; if r =? 0 then change_state c_RTR_SYNC else ret tt
  else if state =? c_RTR_SYNC then
    mdo r <- rtr_sync fuel; if r =? 0 then change_state c_RTR_ESTABLISHED else ret tt
  else if state =? c_RTR_ESTABLISHED then
    mdo r <- wait_for_sync;
    if r =? 0 then (mdo q <- send_serial_query; if q =? 0 then change_state c_RTR_SYNC else ret tt) else ret tt
  else if state =? c_RTR_FAST_RECONNECT then
    mdo _ <- tr_close; change_state c_RTR_CONNECTING
  else if state =? c_RTR_ERROR_NO_DATA_AVAIL then
    mdo _ <- set_sk (upd_serial (upd_req s true) 0);
    mdo _ <- change_state c_RTR_RESET;
    mdo _ <- do_sleep (retry_iv s);
    purge_outdated
  else if state =? c_RTR_ERROR_NO_INCR_UPDATE_AVAIL then
    mdo _ <- set_sk (upd_serial (upd_req s true) 0);
    mdo _ <- change_state c_RTR_RESET;
    purge_outdated
  else if (state =? c_RTR_ERROR_TRANSPORT) || (state =? c_RTR_ERROR_FATAL) then
    mdo _ <- tr_close;
    mdo _ <- change_state c_RTR_CONNECTING;
    do_sleep (retry_iv s)
  else ret tt.

(* ---------- rtr_stop (from the application thread, while the socket thread is parked in recv) ---------- *)
Definition rtr_stop : world -> res unit :=
  mdo _ <- emit TStopping;
  mdo _ <- change_state c_RTR_SHUTDOWN;
  mdo _ <- tr_close;
  mdo _ <- modify_sk (fun s => upd_last (upd_serial (upd_req s true) 0) 0);
  mdo _ <- src_remove_all;
  modify_sk (fun s => upd_st s c_RTR_CLOSED).

Definition dump (tag : Z) : world -> res unit :=
  fun w => let s := sk w in
           emit (TDump tag [st s; version s; session_id s; if req_sess s then 1 else 0; serial s; last_update s;
                            refresh_iv s; expire_iv s; retry_iv s; if resetting s then 1 else 0; now w]
                       (pfx w) (keys w)) w.

(* run [n] iterations of the state machine (or until the scripts are exhausted); a stop event runs
   rtr_stop, dumps, and starts the socket again *)
Fixpoint run_fsm (n : nat) (fuel : nat) (w : world) : world :=
  match n with
  | O => w
  | S n' =>
    match fsm_step fuel w with
    | Ok _ w' => run_fsm n' fuel w'
    | Exc (XEnd _) w' => w'
    | Exc XStop w' =>
      match (mdo _ <- rtr_stop; mdo _ <- dump 1; modify_sk (fun s => upd_st s c_RTR_CONNECTING)) w' with
      | Ok _ w2 => run_fsm n' fuel w2
      | Exc _ w2 => w2
      end
    end
  end.

Definition init_sock (refresh expire retry mode : Z) : sock :=
  mkSock c_RTR_CLOSED c_RTR_PROTOCOL_MAX_SUPPORTED_VERSION 0 true 0 0 refresh expire retry mode false false.

(* rtr_init's range check *)
Definition init_ok (refresh expire retry : Z) : bool :=
  (iv_range refresh c_RTR_REFRESH_MIN c_RTR_REFRESH_MAX =? 0) &&
  (iv_range expire c_RTR_EXPIRATION_MIN c_RTR_EXPIRATION_MAX =? 0) &&
  (iv_range retry c_RTR_RETRY_MIN c_RTR_RETRY_MAX =? 0).

Definition run_script (n fuel : nat) (refresh expire retry mode : Z) (P : list prec) (K : list krec)
           (es : list ev) (os : list bool) (ss : list Z) : list titem :=
  if negb (init_ok refresh expire retry) then []
  else
    let w0 := mkW (init_sock refresh expire retry mode) P K es os ss 1000 [] in
    let w1 := match dump 0 w0 with Ok _ w => w | Exc _ w => w end in
    let w2 := run_fsm n fuel (mkW (upd_st (sk w1) c_RTR_CONNECTING) (pfx w1) (keys w1) (evs w1) (opens w1) (sends w1) (now w1) (out w1)) in
    let w3 := match dump 2 w2 with Ok _ w => w | Exc _ w => w end in
    rev (out w3).
