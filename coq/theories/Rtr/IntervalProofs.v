(* IntervalProofs.v - C17: the interval handling.
   Tie (a): the hand model [iv_range] / [iv_apply] used by Rtr/RtrModel.v equals the C functions
   rtr_check_interval_range / apply_interval_value / rtr_check_interval_option as translated into
   Gen/Generated.v on this run.  Then the properties of the hand model. *)
From RtrV Require Import Base.CSem Gen.Generated Rtr.RtrModel.
Local Open Scope string_scope.
Local Open Scope Z_scope.

Lemma range_gen v mn mx : rtr_check_interval_range_gen v mn mx = Some (iv_range v mn mx).
Proof. unfold rtr_check_interval_range_gen, iv_range. destruct (v <? mn), (v >? mx); reflexivity. Qed.

Definition field_of (ty : Z) : string :=
  if ty =? 0 then "expire_interval" else if ty =? 1 then "refresh_interval" else "retry_interval".
Definition min_of (ty : Z) : Z := if ty =? 0 then c_RTR_EXPIRATION_MIN else if ty =? 1 then c_RTR_REFRESH_MIN else c_RTR_RETRY_MIN.
Definition max_of (ty : Z) : Z := if ty =? 0 then c_RTR_EXPIRATION_MAX else if ty =? 1 then c_RTR_REFRESH_MAX else c_RTR_RETRY_MAX.

Lemma apply_gen s v ty : In ty [0; 1; 2] ->
  apply_interval_value_gen s v ty = Some (sset (field_of ty) v s).
Proof. intros [<-|[<-|[<-|[]]]]; reflexivity. Qed.

(* the three minima fit the uint16_t local the C stores them in: otherwise the wrap changes them *)
Lemma minima_fit : wrapu 16 c_RTR_EXPIRATION_MIN = c_RTR_EXPIRATION_MIN /\ wrapu 16 c_RTR_REFRESH_MIN = c_RTR_REFRESH_MIN /\
                   wrapu 16 c_RTR_RETRY_MIN = c_RTR_RETRY_MIN.
Proof. vm_compute. auto. Qed.

Lemma option_gen s mode v ty : In ty [0; 1; 2] ->
  exists s', rtr_check_interval_option_gen s mode v ty = Some (0, s') /\
    sget (field_of ty) s' = iv_apply mode v (sget (field_of ty) s) (min_of ty) (max_of ty) /\
    forall k, k <> field_of ty -> sget k s' = sget k s.
Proof.
  intros Hty.
  assert (Hcase : forall mn mx, wrapu 32 (wrapu 16 mn) = mn ->
     exists s', (do tmp__ <- rtr_check_interval_range_gen v (wrapu 32 (wrapu 16 mn)) mx;
                 let r := tmp__ in
                 if (r =? 0) || (mode =? 1)
                 then do s1 <- apply_interval_value_gen s v ty; Some (0, s1)
                 else if mode =? 2
                      then if r =? -1
                           then do s1 <- apply_interval_value_gen s (wrapu 32 (wrapu 16 mn)) ty; Some (0, s1)
                           else do s1 <- apply_interval_value_gen s mx ty; Some (0, s1)
                      else Some (0, s)) = Some (0, s') /\
       sget (field_of ty) s' = iv_apply mode v (sget (field_of ty) s) mn mx /\
       forall k, k <> field_of ty -> sget k s' = sget k s).
  { intros mn mx Hw. rewrite Hw, range_gen. cbn [obind]. unfold iv_apply.
    change c_RTR_INTERVAL_MODE_ACCEPT_ANY with 1. change c_RTR_INTERVAL_MODE_DEFAULT_MIN_MAX with 2.
    destruct ((iv_range v mn mx =? 0) || (mode =? 1)).
    - rewrite apply_gen by assumption. cbn [obind]. eexists. split; [reflexivity|]. split.
      + apply sget_sset_same.
      + intros k Hk. apply sget_sset_other. congruence.
    - destruct (mode =? 2).
      + destruct (iv_range v mn mx =? -1); rewrite apply_gen by assumption; cbn [obind];
          (eexists; split; [reflexivity|]; split; [apply sget_sset_same|intros k Hk; apply sget_sset_other; congruence]).
      + exists s. auto. }
  destruct Hty as [<-|[<-|[<-|[]]]]; unfold rtr_check_interval_option_gen;
    change (wrapu 32 0) with 0; change (wrapu 32 1) with 1; change (wrapu 32 2) with 2; cbn [Z.eqb Pos.eqb];
    [apply (Hcase c_RTR_EXPIRATION_MIN c_RTR_EXPIRATION_MAX)
    |apply (Hcase c_RTR_REFRESH_MIN c_RTR_REFRESH_MAX)
    |apply (Hcase c_RTR_RETRY_MIN c_RTR_RETRY_MAX)]; vm_compute; reflexivity.
Qed.

(* ---------- the properties of the interval law ---------- *)
Definition in_range (v mn mx : Z) : Prop := mn <= v <= mx.

(* what each mode prescribes *)
Definition prescribed (mode sent old mn mx : Z) : Z :=
  if mode =? c_RTR_INTERVAL_MODE_IGNORE_ANY then old
  else if mode =? c_RTR_INTERVAL_MODE_ACCEPT_ANY then sent
  else if mode =? c_RTR_INTERVAL_MODE_DEFAULT_MIN_MAX then (if sent <? mn then mn else if sent >? mx then mx else sent)
  else (if (mn <=? sent) && (sent <=? mx) then sent else old).

Lemma iv_apply_prescribed mode sent old mn mx :
  In mode [1; 2; 3] -> iv_apply mode sent old mn mx = prescribed mode sent old mn mx.
Proof.
  intros Hm. unfold iv_apply, prescribed, iv_range.
  change c_RTR_INTERVAL_MODE_IGNORE_ANY with 0. change c_RTR_INTERVAL_MODE_ACCEPT_ANY with 1.
  change c_RTR_INTERVAL_MODE_DEFAULT_MIN_MAX with 2.
  destruct Hm as [<-|[<-|[<-|[]]]]; cbn [Z.eqb Pos.eqb orb];
    destruct (sent <? mn) eqn:E1; destruct (sent >? mx) eqn:E2; cbn [Z.eqb orb andb];
    rewrite ?Bool.orb_true_r; try reflexivity;
    try (apply Z.ltb_lt in E1); try (apply Z.ltb_ge in E1); try (rewrite Z.gtb_ltb in E2; apply Z.ltb_lt in E2 || apply Z.ltb_ge in E2).
  - assert (H : (mn <=? sent) && (sent <=? mx) = false) by (apply andb_false_iff; left; apply Z.leb_gt; lia). rewrite H. reflexivity.
  - assert (H : (mn <=? sent) && (sent <=? mx) = false) by (apply andb_false_iff; left; apply Z.leb_gt; lia). rewrite H. reflexivity.
  - assert (H : (mn <=? sent) && (sent <=? mx) = false) by (apply andb_false_iff; right; apply Z.leb_gt; lia). rewrite H. reflexivity.
  - assert (H : (mn <=? sent) && (sent <=? mx) = true) by (apply andb_true_iff; split; apply Z.leb_le; lia). rewrite H. reflexivity.
Qed.

Lemma prescribed_in_range mode sent old mn mx : mn <= mx ->
  mode <> c_RTR_INTERVAL_MODE_ACCEPT_ANY -> in_range old mn mx -> in_range (prescribed mode sent old mn mx) mn mx.
Proof.
  intros Hmm Hm Ho. unfold prescribed, in_range in *.
  destruct (mode =? c_RTR_INTERVAL_MODE_IGNORE_ANY); [exact Ho|].
  destruct (mode =? c_RTR_INTERVAL_MODE_ACCEPT_ANY) eqn:E; [apply Z.eqb_eq in E; contradiction|].
  destruct (mode =? c_RTR_INTERVAL_MODE_DEFAULT_MIN_MAX).
  - destruct (sent <? mn) eqn:E1; [lia|]. apply Z.ltb_ge in E1.
    destruct (sent >? mx) eqn:E2; [lia|]. rewrite Z.gtb_ltb in E2. apply Z.ltb_ge in E2. lia.
  - destruct ((mn <=? sent) && (sent <=? mx)) eqn:E1; [|exact Ho].
    apply andb_true_iff in E1 as [H1 H2]. apply Z.leb_le in H1, H2. lia.
Qed.
