(* IntervalProofs.v - C17: the interval handling.
   Tie (a): the hand model [iv_range] / [iv_apply] used by Rtr/RtrModel.v equals the C functions
   rtr_check_interval_range / apply_interval_value / rtr_check_interval_option as translated into
   Gen/Generated.v on this run.  Then the properties of the hand model. *)
From RtrV Require Import Base.CSem Gen.Generated Rtr.RtrModel.
Local Open Scope string_scope.
Local Open Scope Z_scope.

Lemma range_gen v mn mx : rtr_check_interval_range_gen v mn mx = Some (iv_range v mn mx).
Proof. unfold rtr_check_interval_range_gen, iv_range. destruct (v <? mn), (v >? mx); reflexivity. Qed.

Definition field_of (ty : Z) : string :=
  if ty =? 0 then "expire_interval" else if ty =? 1 then "refresh_interval" else "retry_interval".
Definition min_of (ty : Z) : Z := if ty =? 0 then c_RTR_EXPIRATION_MIN else if ty =? 1 then c_RTR_REFRESH_MIN else c_RTR_RETRY_MIN.
Definition max_of (ty : Z) : Z := if ty =? 0 then c_RTR_EXPIRATION_MAX else if ty =? 1 then c_RTR_REFRESH_MAX else c_RTR_RETRY_MAX.

Lemma apply_gen s v ty : In ty [0; 1; 2] ->
  apply_interval_value_gen s v ty = Some (sset (field_of ty) v s).
Proof. intros [<-|[<-|[<-|[]]]]; reflexivity. Qed.

(* the three minima fit the uint16_t local the C stores them in: otherwise the wrap changes them *)
Lemma minima_fit : wrapu 16 c_RTR_EXPIRATION_MIN = c_RTR_EXPIRATION_MIN /\ wrapu 16 c_RTR_REFRESH_MIN = c_RTR_REFRESH_MIN /\
                   wrapu 16 c_RTR_RETRY_MIN = c_RTR_RETRY_MIN.
Proof. vm_compute. auto. Qed.

Lemma option_gen s mode v ty : In ty [0; 1; 2] ->
  exists s', rtr_check_interval_option_gen s mode v ty = Some (0, s') /\
    sget (field_of ty) s' = iv_apply mode v (sget (field_of ty) s) (min_of ty) (max_of ty) /\
    forall k, k <> field_of ty -> sget k s' = sget k s.
Proof.
  intros Hty.
  assert (Hcase : forall mn mx, wrapu 32 (wrapu 16 mn) = mn ->
     exists s', (do tmp__ <- rtr_check_interval_range_gen v (wrapu 32 (wrapu 16 mn)) mx;
                 let r := tmp__ in
                 do s2 <- (if (r =? 0) || (mode =? 1)
                           then do s1 <- apply_interval_value_gen s v ty; Some s1
                           else if mode =? 2
                                then if r =? -1
                                     then do s1 <- apply_interval_value_gen s (wrapu 32 (wrapu 16 mn)) ty; Some s1
                                     else do s1 <- apply_interval_value_gen s mx ty; Some s1
                                else Some s);
                 Some (0, s2)) = Some (0, s') /\
       sget (field_of ty) s' = iv_apply mode v (sget (field_of ty) s) mn mx /\
       forall k, k <> field_of ty -> sget k s' = sget k s).
  { intros mn mx Hw. rewrite Hw, range_gen. cbn [obind]. unfold iv_apply.
    change c_RTR_INTERVAL_MODE_ACCEPT_ANY with 1. change c_RTR_INTERVAL_MODE_DEFAULT_MIN_MAX with 2.
    destruct ((iv_range v mn mx =? 0) || (mode =? 1)).
    - rewrite apply_gen by assumption. cbn [obind]. eexists. split; [reflexivity|]. split.
      + apply sget_sset_same.
      + intros k Hk. apply sget_sset_other. congruence.
    - destruct (mode =? 2).
      + destruct (iv_range v mn mx =? -1); rewrite apply_gen by assumption; cbn [obind];
          (eexists; split; [reflexivity|]; split; [apply sget_sset_same|intros k Hk; apply sget_sset_other; congruence]).
      + cbn [obind]. exists s. auto. }
  destruct Hty as [<-|[<-|[<-|[]]]]; unfold rtr_check_interval_option_gen;
    change (wrapu 32 0) with 0; change (wrapu 32 1) with 1; change (wrapu 32 2) with 2; cbn [Z.eqb Pos.eqb];
    [apply (Hcase c_RTR_EXPIRATION_MIN c_RTR_EXPIRATION_MAX)
    |apply (Hcase c_RTR_REFRESH_MIN c_RTR_REFRESH_MAX)
    |apply (Hcase c_RTR_RETRY_MIN c_RTR_RETRY_MAX)]; vm_compute; reflexivity.
Qed.

(* ---------- the properties of the interval law ---------- *)
Definition in_range (v mn mx : Z) : Prop := mn <= v <= mx.

(* what each mode prescribes *)
Definition prescribed (mode sent old mn mx : Z) : Z :=
  if mode =? c_RTR_INTERVAL_MODE_IGNORE_ANY then old
  else if mode =? c_RTR_INTERVAL_MODE_ACCEPT_ANY then sent
  else if mode =? c_RTR_INTERVAL_MODE_DEFAULT_MIN_MAX then (if sent <? mn then mn else if sent >? mx then mx else sent)
  else (if (mn <=? sent) && (sent <=? mx) then sent else old).

Lemma iv_apply_prescribed mode sent old mn mx :
  In mode [1; 2; 3] -> iv_apply mode sent old mn mx = prescribed mode sent old mn mx.
Proof.
  intros Hm. unfold iv_apply, prescribed, iv_range.
  change c_RTR_INTERVAL_MODE_IGNORE_ANY with 0. change c_RTR_INTERVAL_MODE_ACCEPT_ANY with 1.
  change c_RTR_INTERVAL_MODE_DEFAULT_MIN_MAX with 2.
  destruct Hm as [<-|[<-|[<-|[]]]]; cbn [Z.eqb Pos.eqb orb];
    destruct (sent <? mn) eqn:E1; destruct (sent >? mx) eqn:E2; cbn [Z.eqb orb andb];
    rewrite ?Bool.orb_true_r; try reflexivity;
    try (apply Z.ltb_lt in E1); try (apply Z.ltb_ge in E1); try (rewrite Z.gtb_ltb in E2; apply Z.ltb_lt in E2 || apply Z.ltb_ge in E2).
  - assert (H : (mn <=? sent) && (sent <=? mx) = false) by (apply andb_false_iff; left; apply Z.leb_gt; lia). rewrite H. reflexivity.
  - assert (H : (mn <=? sent) && (sent <=? mx) = false) by (apply andb_false_iff; left; apply Z.leb_gt; lia). rewrite H. reflexivity.
  - assert (H : (mn <=? sent) && (sent <=? mx) = false) by (apply andb_false_iff; right; apply Z.leb_gt; lia). rewrite H. reflexivity.
  - assert (H : (mn <=? sent) && (sent <=? mx) = true) by (apply andb_true_iff; split; apply Z.leb_le; lia). rewrite H. reflexivity.
Qed.

Lemma prescribed_in_range mode sent old mn mx : mn <= mx ->
  mode <> c_RTR_INTERVAL_MODE_ACCEPT_ANY -> in_range old mn mx -> in_range (prescribed mode sent old mn mx) mn mx.
Proof.
  intros Hmm Hm Ho. unfold prescribed, in_range in *.
  destruct (mode =? c_RTR_INTERVAL_MODE_IGNORE_ANY); [exact Ho|].
  destruct (mode =? c_RTR_INTERVAL_MODE_ACCEPT_ANY) eqn:E; [apply Z.eqb_eq in E; contradiction|].
  destruct (mode =? c_RTR_INTERVAL_MODE_DEFAULT_MIN_MAX).
  - destruct (sent <? mn) eqn:E1; [lia|]. apply Z.ltb_ge in E1.
    destruct (sent >? mx) eqn:E2; [lia|]. rewrite Z.gtb_ltb in E2. apply Z.ltb_ge in E2. lia.
  - destruct ((mn <=? sent) && (sent <=? mx)) eqn:E1; [|exact Ho].
    apply andb_true_iff in E1 as [H1 H2]. apply Z.leb_le in H1, H2. lia.
Qed.

(* ---------- rtr_init ---------- *)
Lemma init_ok_ranges r e t :
  init_ok r e t = true <-> (1 <= r <= 86400 /\ 600 <= e <= 172800 /\ 1 <= t <= 7200).
Proof.
  unfold init_ok, iv_range.
  change c_RTR_REFRESH_MIN with 1. change c_RTR_REFRESH_MAX with 86400.
  change c_RTR_EXPIRATION_MIN with 600. change c_RTR_EXPIRATION_MAX with 172800.
  change c_RTR_RETRY_MIN with 1. change c_RTR_RETRY_MAX with 7200.
  rewrite !andb_true_iff.
  destruct (r <? 1) eqn:A1; destruct (r >? 86400) eqn:A2; destruct (e <? 600) eqn:B1; destruct (e >? 172800) eqn:B2;
    destruct (t <? 1) eqn:C1; destruct (t >? 7200) eqn:C2; cbn [Z.eqb];
    rewrite ?Z.gtb_ltb in *;
    repeat match goal with
           | H : (_ <? _) = true |- _ => apply Z.ltb_lt in H
           | H : (_ <? _) = false |- _ => apply Z.ltb_ge in H
           end;
    split; intros H; try lia; try (destruct H as [[H1 H2] H3]; discriminate); auto.
Qed.

(* ---------- End of Data ---------- *)
Definition ivs (s : sock) : Z * Z * Z := (refresh_iv s, expire_iv s, retry_iv s).

Lemma eod_intervals_v1 s p : nthb p 0 = 1 -> In (iv_mode s) [1; 2; 3] ->
  ivs (apply_eod_intervals s p) =
    (prescribed (iv_mode s) (get32 p 12) (refresh_iv s) c_RTR_REFRESH_MIN c_RTR_REFRESH_MAX,
     prescribed (iv_mode s) (get32 p 20) (expire_iv s) c_RTR_EXPIRATION_MIN c_RTR_EXPIRATION_MAX,
     prescribed (iv_mode s) (get32 p 16) (retry_iv s) c_RTR_RETRY_MIN c_RTR_RETRY_MAX).
Proof.
  intros Hv Hm. unfold apply_eod_intervals. rewrite Hv. change (1 =? 1) with true.
  assert (E : negb (iv_mode s =? c_RTR_INTERVAL_MODE_IGNORE_ANY) = true).
  { change c_RTR_INTERVAL_MODE_IGNORE_ANY with 0. destruct Hm as [<-|[<-|[<-|[]]]]; reflexivity. }
  rewrite E. cbn [andb]. unfold ivs. cbn [refresh_iv expire_iv retry_iv upd_ivs].
  rewrite !iv_apply_prescribed by assumption. reflexivity.
Qed.

Lemma eod_intervals_unchanged s p :
  nthb p 0 <> 1 \/ iv_mode s = c_RTR_INTERVAL_MODE_IGNORE_ANY -> apply_eod_intervals s p = s.
Proof.
  intros H. unfold apply_eod_intervals.
  destruct (nthb p 0 =? 1) eqn:E1; [|reflexivity].
  destruct (iv_mode s =? c_RTR_INTERVAL_MODE_IGNORE_ANY) eqn:E2; [reflexivity|].
  apply Z.eqb_eq in E1. apply Z.eqb_neq in E2. destruct H; contradiction.
Qed.

Definition ivs_in_range (s : sock) : Prop :=
  in_range (refresh_iv s) c_RTR_REFRESH_MIN c_RTR_REFRESH_MAX /\
  in_range (expire_iv s) c_RTR_EXPIRATION_MIN c_RTR_EXPIRATION_MAX /\
  in_range (retry_iv s) c_RTR_RETRY_MIN c_RTR_RETRY_MAX.

Lemma eod_keeps_range s p : In (iv_mode s) [0; 1; 2; 3] -> iv_mode s <> c_RTR_INTERVAL_MODE_ACCEPT_ANY ->
  ivs_in_range s -> ivs_in_range (apply_eod_intervals s p).
Proof.
  intros Hm Hna (H1 & H2 & H3).
  destruct (Z.eq_dec (nthb p 0) 1) as [Hv|Hv]; [|rewrite eod_intervals_unchanged by (left; exact Hv); exact (conj H1 (conj H2 H3))].
  destruct (Z.eq_dec (iv_mode s) 0) as [H0|H0].
  { rewrite eod_intervals_unchanged by (right; exact H0). exact (conj H1 (conj H2 H3)). }
  assert (Hm' : In (iv_mode s) [1; 2; 3]) by (simpl in *; lia).
  pose proof (eod_intervals_v1 s p Hv Hm') as E. unfold ivs in E. injection E as E1 E2 E3.
  unfold ivs_in_range. rewrite E1, E2, E3.
  split; [|split]; apply prescribed_in_range; auto; vm_compute; discriminate.
Qed.

(* ---------- polling while established ---------- *)
Lemma wait_for_sync_timeout w :
  wait_for_sync w =
  (mdo r <- receive_pdu (Z.max 0 (last_update (sk w) + refresh_iv (sk w) - now w));
   match r with
   | inr p => if nthb p 1 =? c_SERIAL_NOTIFY then ret 0 else ret (-1)
   | inl c => if c =? -2 then ret 0 else if c =? -4 then mdo _ <- change_state c_RTR_ERROR_TRANSPORT; ret (-1) else ret (-1)
   end) w.
Proof. reflexivity. Qed.

(* nothing arrives: the receive ends exactly when the refresh interval (counted from the last
   synchronisation) is over, and the client goes on to poll *)
Lemma quiet_until_refresh w v rest :
  st (sk w) <> c_RTR_SHUTDOWN -> evs w = EvWait v :: rest ->
  Z.max 0 (last_update (sk w) + refresh_iv (sk w) - now w) < v ->
  exists w', wait_for_sync w = Ok 0 w' /\ sk w' = sk w /\
             now w' = Z.max (now w) (last_update (sk w) + refresh_iv (sk w)).
Proof.
  intros Hst Hev Hlt. rewrite wait_for_sync_timeout.
  set (W := Z.max 0 (last_update (sk w) + refresh_iv (sk w) - now w)) in *.
  assert (HW : 0 <= W) by (unfold W; lia).
  unfold bind at 1. unfold receive_pdu. unfold bind at 1. unfold get_sk at 1.
  assert (E0 : (st (sk w) =? c_RTR_SHUTDOWN) = false) by (apply Z.eqb_neq; exact Hst). rewrite E0.
  unfold bind at 1. unfold tr_recv_all. unfold bind at 1. unfold get_now at 1.
  change (Z.to_nat 8) with 8%nat. cbn [tr_recv_all_loop].
  change (zlen [] >=? 8) with false. cbv iota.
  unfold bind at 1. unfold get_now at 1. unfold bind at 1. unfold tr_recv.
  rewrite Hev. cbn [tr_recv_evs].
  replace (now w + W - now w) with W by lia. rewrite (Z.max_r 0 W) by lia.
  assert (E1 : (v <=? W) = false) by (apply Z.leb_gt; lia). rewrite E1.
  change (-2 =? -99) with false. cbv iota. unfold ret at 1. unfold recv_err.
  change (-2 =? -1) with false. change (-2 =? -2) with true. cbv iota. unfold ret.
  eexists. split; [reflexivity|]. cbn. split; [reflexivity|]. unfold W. lia.
Qed.
